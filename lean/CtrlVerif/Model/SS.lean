/-
Model of `StateSpace` arithmetic (control/statesp.py): the block constructions of
`__add__`, `__mul__`, `__rmul__`, `__neg__`, `__pow__`, `feedback`, `lft`, `append`,
`__getitem__`, written on Mathlib matrices over arbitrary finite index types, so that the
same definitions are what the theorems are about and what the driver executes.
-/
import Mathlib.Data.Matrix.Block
import Mathlib.Data.Matrix.ColumnRowPartitioned
import Mathlib.LinearAlgebra.Matrix.Adjugate

namespace CtrlVerif

open Matrix

/-- a state-space quadruple with state index `σ`, input index `ι`, output index `o`. -/
structure SS (σ ι o : Type*) (K : Type*) where
  A : Matrix σ σ K
  B : Matrix σ ι K
  C : Matrix o σ K
  D : Matrix o ι K

namespace SS

variable {K : Type*} [Field K]
variable {σ σ' σ₁ σ₂ ι ι₁ ι₂ o o₁ o₂ κ μ : Type*}

/-- `__neg__`: `(A, B, -C, -D)`. -/
def neg (G : SS σ ι o K) : SS σ ι o K := ⟨G.A, G.B, -G.C, -G.D⟩

/-- `__add__` of two systems: block-diagonal `A`, stacked `B`, side-by-side `C`, `D₁ + D₂`. -/
def add (G₁ : SS σ₁ ι o K) (G₂ : SS σ₂ ι o K) : SS (σ₁ ⊕ σ₂) ι o K where
  A := fromBlocks G₁.A 0 0 G₂.A
  B := fromRows G₁.B G₂.B
  C := fromCols G₁.C G₂.C
  D := G₁.D + G₂.D

/-- `self + M` for a constant matrix (`D + M`). -/
def addConst (G : SS σ ι o K) (M : Matrix o ι K) : SS σ ι o K := ⟨G.A, G.B, G.C, G.D + M⟩

/-- `__mul__`: `G₁ * G₂` means `G₂` first; the states of `G₂` come first. -/
def mul [Fintype ι₁] (G₁ : SS σ₁ ι₁ o K) (G₂ : SS σ₂ ι ι₁ K) : SS (σ₂ ⊕ σ₁) ι o K where
  A := fromBlocks G₂.A 0 (G₁.B * G₂.C) G₁.A
  B := fromRows G₂.B (G₁.B * G₂.D)
  C := fromCols (G₁.D * G₂.C) G₁.C
  D := G₁.D * G₂.D

/-- `self * M` for a constant matrix: `B M`, `D M`. -/
def mulConst [Fintype ι₁] (G : SS σ ι₁ o K) (M : Matrix ι₁ ι K) : SS σ ι o K :=
  ⟨G.A, G.B * M, G.C, G.D * M⟩

/-- `M * self` for a constant matrix: `M C`, `M D`. -/
def constMul [Fintype o₁] (M : Matrix o o₁ K) (G : SS σ ι o₁ K) : SS σ ι o K :=
  ⟨G.A, G.B, M * G.C, M * G.D⟩

/-- `self * c` for a scalar: `B c`, `D c`. -/
def smulRight (G : SS σ ι o K) (c : K) : SS σ ι o K := ⟨G.A, c • G.B, G.C, c • G.D⟩

/-- `self ** -1` given the inverse `Di` of `D`. -/
def inv [Fintype ι] [Fintype o] (G : SS σ ι o K) (Di : Matrix ι o K) : SS σ o ι K where
  A := G.A - G.B * Di * G.C
  B := G.B * Di
  C := -(Di * G.C)
  D := Di

/-- a static gain (`nstates = 0`): `σ` is empty. -/
def static [IsEmpty σ] (D : Matrix o ι K) : SS σ ι o K := ⟨0, 0, 0, D⟩

/-- `append`: block diagonal in everything. -/
def append (G₁ : SS σ₁ ι₁ o₁ K) (G₂ : SS σ₂ ι₂ o₂ K) : SS (σ₁ ⊕ σ₂) (ι₁ ⊕ ι₂) (o₁ ⊕ o₂) K where
  A := fromBlocks G₁.A 0 0 G₂.A
  B := fromBlocks G₁.B 0 0 G₂.B
  C := fromBlocks G₁.C 0 0 G₂.C
  D := fromBlocks G₁.D 0 0 G₂.D

/-- `feedback(other, sign)` given `E = (I - sign D₂ D₁)⁻¹`, as the code builds the blocks:
`T1 = I + sign D₁ E D₂`, `T2 = I + sign E D₂ D₁`. -/
def feedback [Fintype ι] [Fintype o] [DecidableEq ι] [DecidableEq o]
    (G₁ : SS σ₁ ι o K) (G₂ : SS σ₂ o ι K) (sign : K) (E : Matrix ι ι K) :
    SS (σ₁ ⊕ σ₂) ι o K :=
  let ED2 := E * G₂.D
  let EC2 := E * G₂.C
  let T1 : Matrix o o K := 1 + sign • (G₁.D * ED2)
  let T2 : Matrix ι ι K := 1 + sign • (ED2 * G₁.D)
  { A := fromBlocks (G₁.A + sign • (G₁.B * ED2 * G₁.C)) (sign • (G₁.B * EC2))
                    (G₂.B * T1 * G₁.C) (G₂.A + sign • (G₂.B * G₁.D * EC2))
    B := fromRows (G₁.B * T2) (G₂.B * G₁.D * T2)
    C := fromCols (T1 * G₁.C) (sign • (G₁.D * EC2))
    D := G₁.D * T2 }

/-- the matrix `F = [[I, -D22], [-Dbar11, I]]` of `lft` (rows/columns: the `ny` measured outputs
`o₂`, then the `nu` control inputs `ι₂`). -/
def lftF [DecidableEq o₂] [DecidableEq ι₂]
    (G : SS σ (ι₁ ⊕ ι₂) (o₁ ⊕ o₂) K) (H : SS σ' (o₂ ⊕ κ) (ι₂ ⊕ μ) K) :
    Matrix (o₂ ⊕ ι₂) (o₂ ⊕ ι₂) K :=
  fromBlocks 1 (-G.D.toBlocks₂₂) (-H.D.toBlocks₁₁) 1

/-- `self.lft(other, nu, ny)`: `self` has its `nu` control inputs `ι₂` LAST among the inputs and
its `ny` measured outputs `o₂` LAST among the outputs; `other` has the `ny` measurements FIRST
among its inputs and the `nu` controls FIRST among its outputs.  `Finv` is the inverse of
`lftF G H`; `TH = F⁻¹ [[C2, 0, D21, 0], [0, Cbar1, 0, Dbar12]]` and the result blocks are built
as the code builds `Ares`, `Bres`, `Cres`, `Dres`. -/
def lft [Fintype o₂] [Fintype ι₂]
    (G : SS σ (ι₁ ⊕ ι₂) (o₁ ⊕ o₂) K) (H : SS σ' (o₂ ⊕ κ) (ι₂ ⊕ μ) K)
    (Finv : Matrix (o₂ ⊕ ι₂) (o₂ ⊕ ι₂) K) : SS (σ ⊕ σ') (ι₁ ⊕ κ) (o₁ ⊕ μ) K :=
  let B1 := G.B.toCols₁
  let B2 := G.B.toCols₂
  let C1 := G.C.toRows₁
  let C2 := G.C.toRows₂
  let D11 := G.D.toBlocks₁₁
  let D12 := G.D.toBlocks₁₂
  let D21 := G.D.toBlocks₂₁
  let Bb1 := H.B.toCols₁
  let Bb2 := H.B.toCols₂
  let Cb1 := H.C.toRows₁
  let Cb2 := H.C.toRows₂
  let Db12 := H.D.toBlocks₁₂
  let Db21 := H.D.toBlocks₂₁
  let Db22 := H.D.toBlocks₂₂
  let TH : Matrix (o₂ ⊕ ι₂) ((σ ⊕ σ') ⊕ (ι₁ ⊕ κ)) K :=
    Finv * fromCols (fromBlocks C2 0 0 Cb1) (fromBlocks D21 0 0 Db12)
  let T := TH.toCols₁
  let Hm := TH.toCols₂
  let T11 := T.toBlocks₁₁
  let T12 := T.toBlocks₁₂
  let T21 := T.toBlocks₂₁
  let T22 := T.toBlocks₂₂
  let H11 := Hm.toBlocks₁₁
  let H12 := Hm.toBlocks₁₂
  let H21 := Hm.toBlocks₂₁
  let H22 := Hm.toBlocks₂₂
  { A := fromBlocks (G.A + B2 * T21) (B2 * T22) (Bb1 * T11) (H.A + Bb1 * T12)
    B := fromBlocks (B1 + B2 * H21) (B2 * H22) (Bb1 * H11) (Bb2 + Bb1 * H12)
    C := fromBlocks (C1 + D12 * T21) (D12 * T22) (Db21 * T11) (Cb2 + Db21 * T12)
    D := fromBlocks (D11 + D12 * H21) (D12 * H22) (Db21 * H11) (Db22 + Db21 * H12) }

/-- `sys[rows, cols]`. -/
def select {o' ι' : Type*} (G : SS σ ι o K) (r : o' → o) (c : ι' → ι) : SS σ ι' o' K :=
  ⟨G.A, G.B.submatrix id c, G.C.submatrix r id, G.D.submatrix r c⟩

/-- relabel the state space along an equivalence (used to flatten `σ₁ ⊕ σ₂` to `Fin (n₁+n₂)`). -/
def reindex {σ' : Type*} (G : SS σ ι o K) (e : σ ≃ σ') : SS σ' ι o K :=
  ⟨G.A.submatrix e.symm e.symm, G.B.submatrix e.symm id, G.C.submatrix id e.symm, G.D⟩

/-- the certified inverse used by the executable model: `det⁻¹ • adjugate`. -/
def invQ {n : Type*} [Fintype n] [DecidableEq n] (F : Matrix n n K) : Matrix n n K :=
  (F.det)⁻¹ • F.adjugate

end SS

end CtrlVerif
