/-
Model of control/flatsys for linear SISO systems (property C20):

* `LinFlat.construct`   — `LinearFlatSystem.__init__` (linflat.py) through `reachable_form`
                          (canonical.py): characteristic polynomial, companion matrix, the two
                          reachability matrices, `Tzx = Wrz Wrx⁻¹`, row flip, `F`, `T`, `Tinv`, `Cf`;
* `LinFlat.forward/reverse` — the flat flag of `(x, u)` and back;
* `Basis` (`PolyFamily`, `BezierFamily`) with `eval_deriv` branch by branch;
* `flagMatrix`          — `_basis_flag_matrix` for one flat output;
* `p2p`                 — `point_to_point` without cost / constraints: boundary flags, stacked
                          matrix, minimum-norm solution of `M α = Z` (`numpy.linalg.lstsq`);
* `trajEval`            — `SystemTrajectory.eval` at one time.

Executable over any field with decidable equality; the driver runs it over `ℚ`.

Certified computation (DESIGN §3.4): matrix inverses and the linear solve come from an
unverified Gauss–Jordan elimination on tables and are accepted only after the defining equation
has been checked with decidable equality; `construct` ends with the decidable check
`LinFlat.Valid` (the chain-of-integrators equations).  A failed check is `FlatErr.cert`, which the
driver prints as `model-error` (a broken correspondence, never masked).

Run-time note: matrices are closures; every intermediate result is tabulated
(`let t := tab M`, then `untab t`) so that entries are computed once.
-/
import CtrlVerif.Model.Err
import CtrlVerif.Model.Dt
import CtrlVerif.Model.SS
import Mathlib.LinearAlgebra.Matrix.Trace
import Mathlib.Data.Nat.Choose.Basic
import Mathlib.Data.Nat.Factorial.Basic
import Mathlib.Algebra.BigOperators.Intervals
import Mathlib.Data.Fintype.Pi

namespace CtrlVerif

open Matrix

/-- errors of the flat-system model: a Python exception class, or a failed certificate. -/
inductive FlatErr where
  | py (e : Err)
  | cert (what : String)
  deriving DecidableEq, Repr

variable {K : Type} [Field K] [DecidableEq K]

/-! ### tabulation -/

/-- the entries of a matrix as a table (computed once when bound by `let`). -/
@[noinline] def tab {p m : Nat} (M : Matrix (Fin p) (Fin m) K) : Array (Array K) :=
  Array.ofFn fun i => Array.ofFn fun j => M i j

/-- read a table back as a matrix. -/
def untab {p m : Nat} (t : Array (Array K)) : Matrix (Fin p) (Fin m) K :=
  fun i j => ((t[i.val]?).bind (·[j.val]?)).getD 0

@[noinline] def tabV {p : Nat} (v : Fin p → K) : Array K := Array.ofFn v

def untabV {p : Nat} (t : Array K) : Fin p → K := fun i => (t[i.val]?).getD 0

/-! ### unverified Gauss–Jordan elimination (a hint; every use is certified by the caller) -/

/-- reduce the augmented table `[F | R]` (`n` rows); returns the reduced table and the first
column in which no pivot was found. -/
def gaussJordan (n : Nat) (M : Array (Array K)) : Array (Array K) × Option Nat := Id.run do
  let mut M := M
  for c in [0:n] do
    let mut piv : Option Nat := none
    for r in [c:n] do
      if piv.isNone && (M.getD r #[]).getD c 0 ≠ 0 then piv := some r
    match piv with
    | none => return (M, some c)
    | some r =>
      let rowr := M.getD r #[]
      let rowc := M.getD c #[]
      M := (M.setIfInBounds r rowc).setIfInBounds c rowr
      let pv := rowr.getD c 0
      let rc := rowr.map (· / pv)
      M := M.setIfInBounds c rc
      for r2 in [0:n] do
        if r2 ≠ c then
          let row2 := M.getD r2 #[]
          let f := row2.getD c 0
          if f ≠ 0 then
            M := M.setIfInBounds r2 (Array.zipWith (fun x y => x - f * y) row2 rc)
  return (M, none)

/-- candidate inverse of `F` (table). -/
def gaussInvTable {n : Nat} (F : Matrix (Fin n) (Fin n) K) : Array (Array K) :=
  let aug : Array (Array K) :=
    Array.ofFn fun i : Fin n => Array.ofFn (n := n + n) fun j =>
      if h : j.val < n then F i ⟨j.val, h⟩ else (if j.val - n = i.val then 1 else 0)
  ((gaussJordan n aug).1).map fun row => row.extract n (n + n)

/-- candidate solution of `S y = z` (table). -/
def gaussSolveTable {n : Nat} (S : Matrix (Fin n) (Fin n) K) (z : Fin n → K) : Array K :=
  let aug : Array (Array K) :=
    Array.ofFn fun i : Fin n => Array.ofFn (n := n + 1) fun j =>
      if h : j.val < n then S i ⟨j.val, h⟩ else z i
  ((gaussJordan n aug).1).map fun row => row.getD n 0

/-- certified inverse: `numpy.linalg.inv` / `solve`.  The Gauss–Jordan candidate is accepted iff
`F * X = 1`; otherwise `det F` decides between "singular" (`LinAlgError`) and the adjugate
inverse. -/
def invCert {n : Nat} (F : Matrix (Fin n) (Fin n) K) : Except Err (Matrix (Fin n) (Fin n) K) :=
  let t := gaussInvTable F
  let X : Matrix (Fin n) (Fin n) K := untab t
  if F * X = 1 then .ok X
  else if F.det = 0 then .error .illPosed
  else
    let t2 := tab (SS.invQ F)
    .ok (untab t2)

/-! ### `LinearFlatSystem` -/

/-- the data `LinearFlatSystem.__init__` stores: the system `(A, b)` and `F`, `T`, `Tinv`, `Cf`. -/
structure LinFlat (n : Nat) (K : Type) where
  A : Matrix (Fin n) (Fin n) K
  b : Fin n → K
  F : Fin n → K
  T : Matrix (Fin n) (Fin n) K
  Tinv : Matrix (Fin n) (Fin n) K
  Cf : Fin n → K

namespace LinFlat

variable {n : Nat}

/-- `H` after `k` passes of the loop of `forward`: `Cf`, `Cf A`, `Cf A²`, … -/
def rowPow (L : LinFlat n K) : Nat → (Fin n → K)
  | 0 => L.Cf
  | k + 1 => (rowPow L k) ᵥ* L.A

/-- `LinearFlatSystem.forward`: `zflag[0] = Cf x`, `zflag[i] = Cf A^(i-1) (A x + B u)`. -/
def forward (L : LinFlat n K) (x : Fin n → K) (u : K) : Fin (n + 1) → K :=
  fun i => if i.val = 0 then L.Cf ⬝ᵥ x
           else L.rowPow (i.val - 1) ⬝ᵥ (L.A *ᵥ x + u • L.b)

/-- the first `n` entries of a flag (`zflag[0][0:-1]`). -/
def flagHead (z : Fin (n + 1) → K) : Fin n → K := fun i => z i.castSucc

/-- `LinearFlatSystem.reverse`: `x = Tinv z`, `u = zflag[-1] - F z`. -/
def reverse (L : LinFlat n K) (z : Fin (n + 1) → K) : (Fin n → K) × K :=
  (L.Tinv *ᵥ flagHead z, z (Fin.last n) - L.F ⬝ᵥ flagHead z)

/-- the chain-of-integrators equations: `T` is invertible with inverse `Tinv`, its rows are
`Cf, Cf A, …, Cf A^(n-1)`, `Cf A^n = F T`, and `T b` is the last unit vector. -/
def Valid (L : LinFlat n K) : Prop :=
  L.T * L.Tinv = 1 ∧
  (∀ i l : Fin n, i.val = 0 → L.T i l = L.Cf l) ∧
  (∀ i j l : Fin n, j.val = i.val + 1 → ((L.T i) ᵥ* L.A) l = L.T j l) ∧
  (∀ i l : Fin n, i.val + 1 = n → ((L.T i) ᵥ* L.A) l = (L.F ᵥ* L.T) l) ∧
  (∀ i : Fin n, (L.T *ᵥ L.b) i = if i.val + 1 = n then 1 else 0)

/-- the executable form of `Valid` (see `Lemmas/Flat.lean: validB_iff`). -/
def validB (L : LinFlat n K) : Bool :=
  decide (L.T * L.Tinv = 1) &&
  ((List.finRange n).all fun i => (List.finRange n).all fun l =>
    decide (i.val = 0 → L.T i l = L.Cf l)) &&
  ((List.finRange n).all fun i => (List.finRange n).all fun j => (List.finRange n).all fun l =>
    decide (j.val = i.val + 1 → ((L.T i) ᵥ* L.A) l = L.T j l)) &&
  ((List.finRange n).all fun i => (List.finRange n).all fun l =>
    decide (i.val + 1 = n → ((L.T i) ᵥ* L.A) l = (L.F ᵥ* L.T) l)) &&
  ((List.finRange n).all fun i =>
    decide ((L.T *ᵥ L.b) i = if i.val + 1 = n then 1 else 0))

end LinFlat

/-- `isctime(linsys)` and `issiso(linsys)` tests at the top of `LinearFlatSystem.__init__`. -/
def flatKindCheck (dt : Dt) (p m : Nat) : Except FlatErr Unit :=
  match dt with
  | .dtrue => .error (.py .notImplemented)
  | .disc _ => .error (.py .notImplemented)
  | _ => if p = 1 ∧ m = 1 then .ok () else .error (.py .notImplemented)

/-- one step of the Faddeev–LeVerrier recursion (exact counterpart of `numpy.poly(A)`):
`M' = A M + a I`, `a' = - tr(A M') / (k+1)`. -/
def flStep {n : Nat} (A : Matrix (Fin n) (Fin n) K) (k : Nat)
    (st : Matrix (Fin n) (Fin n) K × K) : Matrix (Fin n) (Fin n) K × K :=
  let t := tab (A * st.1 + st.2 • (1 : Matrix (Fin n) (Fin n) K))
  let M' : Matrix (Fin n) (Fin n) K := untab t
  (M', -(A * M').trace / ((k : K) + 1))

def flIter {n : Nat} (A : Matrix (Fin n) (Fin n) K) : Nat → Matrix (Fin n) (Fin n) K × K
  | 0 => (0, 1)
  | k + 1 => flStep A k (flIter A k)

/-- coefficient `a_k` of `numpy.poly(A)` (`a_0 = 1`, highest power first). -/
def charCoeff {n : Nat} (A : Matrix (Fin n) (Fin n) K) (k : Nat) : K := (flIter A k).2

/-- `ctrb(A, B)` for one input: columns `b, A b, …, A^(n-1) b`. -/
def ctrb {n : Nat} (A : Matrix (Fin n) (Fin n) K) (b : Fin n → K) : Matrix (Fin n) (Fin n) K :=
  fun i j => ((A ^ j.val) *ᵥ b) i

/-- the `A` matrix of the reachable canonical form built by `reachable_form` from the
coefficients `a`: first row `-a_{j+1}/a_0`, ones on the subdiagonal. -/
def companion {n : Nat} (a : Fin (n + 1) → K) : Matrix (Fin n) (Fin n) K :=
  fun i j => if i.val = 0 then -(a j.succ) / (a 0) else if i.val = j.val + 1 then 1 else 0

/-- `LinearFlatSystem.__init__` after the kind checks, step by step. -/
def LinFlat.construct {n : Nat} (A : Matrix (Fin n) (Fin n) K) (b : Fin n → K) :
    Except FlatErr (LinFlat n K) :=
  if h0 : n = 0 then .error (.py .indexRange)          -- `zsys.B[0, 0] = 1.0` on an empty array
  else
    let ta := tabV (fun k : Fin (n + 1) => charCoeff A k.val)
    let a : Fin (n + 1) → K := untabV ta
    let tz := tab (companion a)
    let zA : Matrix (Fin n) (Fin n) K := untab tz
    let e0 : Fin n → K := fun i => if i.val = 0 then 1 else 0
    let tWx := tab (ctrb A b)
    let Wx : Matrix (Fin n) (Fin n) K := untab tWx
    let tWz := tab (ctrb zA e0)
    let Wz : Matrix (Fin n) (Fin n) K := untab tWz
    -- `matrix_rank(Wrx) != nstates` -> ValueError; then `solve(Wrx.T, Wrz.T).T`
    match invCert Wx with
    | .error e => .error (.py e)
    | .ok Wi =>
      let tT := tab (Wz * Wi)
      let Tzx : Matrix (Fin n) (Fin n) K := untab tT
      let tR := tab (fun i j => Tzx (Fin.rev i) j : Matrix (Fin n) (Fin n) K)   -- `Tr[::-1, ::]`
      let Tr : Matrix (Fin n) (Fin n) K := untab tR
      let tF := tabV (fun j : Fin n => zA ⟨0, Nat.pos_of_ne_zero h0⟩ (Fin.rev j)) -- `zsys.A[0, ::-1]`
      let F : Fin n → K := untabV tF
      -- `np.linalg.inv(Tr)` (LinAlgError when singular)
      match invCert Tr with
      | .error e => .error (.py e)
      | .ok Ti =>
        let Cf : Fin n → K := Tr ⟨0, Nat.pos_of_ne_zero h0⟩                      -- `Cfz @ Tr`
        let L : LinFlat n K := ⟨A, b, F, Tr, Ti, Cf⟩
        if L.validB then .ok L else .error (.cert "LinFlat.Valid")

/-! ### basis families -/

/-- `PolyFamily(N, T)` and `BezierFamily(N, T)`. -/
inductive Basis (K : Type) where
  | poly (N : Nat) (T : K)
  | bezier (N : Nat) (T : K)

namespace Basis

def N : Basis K → Nat
  | poly N _ => N
  | bezier N _ => N

def T : Basis K → K
  | poly _ T => T
  | bezier _ T => T

/-- `PolyFamily.eval_deriv(i, k, t)`. -/
def polyDeriv (T : K) (i k : Nat) (t : K) : K :=
  if i < k then 0 * t
  else ((i.factorial : K) / ((i - k).factorial : K)) * (t / T) ^ (i - k) / T ^ k

/-- the value branches of `BezierFamily.eval_deriv(i, k, t)` (for `i < N`). -/
def bezierDeriv (N : Nat) (T : K) (i k : Nat) (t : K) : K :=
  if N ≤ k then 0 * t
  else
    let n := N - 1
    let u := t / T
    if k = 0 then (n.choose i : K) * u ^ i * (1 - u) ^ (n - i)
    else (n.choose i : K) * ∑ j ∈ Finset.Ico (max i k) (n + 1),
      (-1 : K) ^ (j - i) * ((n - i).choose (j - i) : K)
        * ((j.factorial : K) / ((j - k).factorial : K)) * u ^ (j - k) / T ^ k

/-- `basis.eval_deriv(i, k, t)` including the raising branch of the Bezier family. -/
def evalDeriv? (bs : Basis K) (i k : Nat) (t : K) : Except Err K :=
  match bs with
  | poly _ T => .ok (polyDeriv T i k t)
  | bezier N T => if N ≤ i then .error .badArg else .ok (bezierDeriv N T i k t)

/-- the value of `eval_deriv` for a basis-function index in range. -/
def evalD (bs : Basis K) (i : Fin bs.N) (k : Nat) (t : K) : K :=
  match bs, i with
  | poly _ T, i => polyDeriv T i.val k t
  | bezier N T, i => bezierDeriv N T i.val k t

end Basis

/-- `_basis_flag_matrix` for one flat output with a flag of length `len`: row `k` holds the
`k`-th derivatives of the basis functions at `t`. -/
def flagMatrix (bs : Basis K) (len : Nat) (t : K) : Matrix (Fin len) (Fin bs.N) K :=
  fun k j => bs.evalD j k.val t

/-- `SystemTrajectory.eval` at one time: the flag `Σ_j α_j φ_j^{(k)}(t)`, then `reverse`. -/
def trajFlag (bs : Basis K) (α : Fin bs.N → K) (len : Nat) (t : K) : Fin len → K :=
  flagMatrix bs len t *ᵥ α

def trajEval {n : Nat} (L : LinFlat n K) (bs : Basis K) (α : Fin bs.N → K) (t : K) :
    (Fin n → K) × K :=
  L.reverse (trajFlag bs α (n + 1) t)

/-- the stacked boundary matrix `vstack([M_T0, M_Tf])` and flag `hstack([z_T0, z_Tf])`. -/
def stackM {n : Nat} (bs : Basis K) (T0 Tf : K) : Matrix (Fin ((n + 1) + (n + 1))) (Fin bs.N) K :=
  fun r => Fin.append (flagMatrix bs (n + 1) T0) (flagMatrix bs (n + 1) Tf) r

def stackZ {n : Nat} (z0 zf : Fin (n + 1) → K) : Fin ((n + 1) + (n + 1)) → K := Fin.append z0 zf

/-- `point_to_point(sys, [T0, Tf], x0, u0, xf, uf, basis=bs)` without cost and constraints:
returns the coefficient vector `alpha`.  `numpy.linalg.lstsq` returns the minimum-norm solution;
for a matrix of full row rank that is `Mᵀ (M Mᵀ)⁻¹ Z`, computed here by a certified solve. -/
def p2p {n : Nat} (L : LinFlat n K) (bs : Basis K) (T0 Tf : K)
    (x0 : Fin n → K) (u0 : K) (xf : Fin n → K) (uf : K) : Except FlatErr (Fin bs.N → K) :=
  if bs.N < 2 * (n + 1) then .error (.py .badArg)       -- "basis set is too small"
  else if bs.T = 0 then .error (.py .zeroDen)           -- t / T: the real code returns NaNs
  else
    let tz0 := tabV (L.forward x0 u0)
    let tzf := tabV (L.forward xf uf)
    let Z : Fin ((n + 1) + (n + 1)) → K := stackZ (untabV tz0) (untabV tzf)
    let tM := tab (stackM (n := n) bs T0 Tf)
    let M : Matrix (Fin ((n + 1) + (n + 1))) (Fin bs.N) K := untab tM
    let tS := tab (M * Mᵀ)
    let S : Matrix (Fin ((n + 1) + (n + 1))) (Fin ((n + 1) + (n + 1))) K := untab tS
    let tl := gaussSolveTable S Z
    let lam : Fin ((n + 1) + (n + 1)) → K := untabV tl
    let tα := tabV (Mᵀ *ᵥ lam)
    let α : Fin bs.N → K := untabV tα
    if stackM (n := n) bs T0 Tf *ᵥ α = stackZ (L.forward x0 u0) (L.forward xf uf)
    then .ok α else .error (.cert "lstsq")

end CtrlVerif
