/-
Model of the KEYWORD processing at the head of `point_to_point` / `solve_flat_optimal` (C20): the alias
resolution of one named parameter (`control/config.py: _process_param`), the alias table of the optimal-control
functions (`control/optimal.py: _optimal_aliases`) and the test for unknown keywords after the `minimize_*`
keywords have been taken out.  Hand-written; tied to the source text by `Props/C20GenHeadKw.lean` (generated
counterparts: `Generated/P2PHeadAlias.lean`, `Generated/P2PHeadKwargs.lean`).

A keyword dict is an association list `List (String × ν)` (the first binding of a key is its value; taking a key
out removes all its bindings); values `ν` are opaque, compared with `=` (Python `!=`).

* `aliasPass`     — one pass over a list of alternative names: a name that is present is taken out of the dict
                    and its value becomes the current one; TypeError when the current value is already different
                    from the value the caller passed explicitly and the new one differs from it;
* `processParam`  — `_process_param(name, explicit, kwargs, table, sigval)`: the name itself (TypeError when the
                    explicit value is not the signature default), then the legacy names, then the aliases; returns
                    the value and what is left of the dict;
* `optimalAliases`— the table; `p2pAliasCalls`, `sfoAliasCalls` — which variable is read under which name;
* `kwCheck`, `sfoKwCheck` — after the alias processing only `minimize_method / minimize_options / minimize_kwargs`
                    may be left (`solve_flat_optimal`: and a trajectory or terminal cost must be given), else TypeError.
-/
import CtrlVerif.Model.Err

namespace CtrlVerif.FlatHead

variable {ν : Type}

def minimizeKeys : List String := ["minimize_method", "minimize_options", "minimize_kwargs"]

/-- `point_to_point`: the keywords left after the alias processing. -/
def kwCheck (kw : List (String × ν)) : Except Err Unit :=
  if kw.all (fun e => decide (e.1 ∈ minimizeKeys)) then .ok () else .error .badArg

/-- `solve_flat_optimal`: the same, and at least one of the two costs. -/
def sfoKwCheck (kw : List (String × ν)) (trajCost termCost : Bool) : Except Err Unit :=
  if !trajCost && !termCost then .error .badArg else kwCheck kw

/-- the alias table of the optimal-control functions: name ↦ (aliases, legacy names). -/
def optimalAliases : List (String × (List String × List String)) :=
  [("integral_cost", (["trajectory_cost", "cost"], [])),
   ("initial_state", (["x0", "X0"], [])),
   ("initial_input", (["u0", "U0"], [])),
   ("final_state", (["xf"], [])),
   ("final_input", (["uf"], [])),
   ("initial_time", (["T0"], [])),
   ("trajectory_constraints", (["constraints"], [])),
   ("return_states", (["return_x"], []))]

/-- which head variable of `point_to_point` is read under which name from which parameter, with which signature
default (`none` = None): (variable, name, parameter, `sigval` of the call, default in the signature). -/
def p2pAliasCalls : List (String × String × String × Option Int × Option Int) :=
  [("x0", "initial_state", "initial_state", some 0, some 0),
   ("u0", "initial_input", "initial_input", some 0, some 0),
   ("xf", "final_state", "final_state", some 0, some 0),
   ("uf", "final_input", "final_input", some 0, some 0),
   ("T0", "initial_time", "initial_time", some 0, some 0),
   ("cost", "integral_cost", "integral_cost", none, none),
   ("trajectory_constraints", "trajectory_constraints", "trajectory_constraints", none, none)]

/-- the same for `solve_flat_optimal`. -/
def sfoAliasCalls : List (String × String × String × Option Int × Option Int) :=
  [("x0", "initial_state", "initial_state", some 0, some 0),
   ("u0", "initial_input", "initial_input", some 0, some 0),
   ("trajectory_cost", "integral_cost", "integral_cost", none, none),
   ("trajectory_constraints", "trajectory_constraints", "trajectory_constraints", none, none)]

variable [DecidableEq ν]

/-- one pass over alternative names; state = (current value, dict). -/
def aliasPass (explicit : ν) : List String → ν × List (String × ν) → Except Err (ν × List (String × ν))
  | [], st => .ok st
  | kw :: rest, (cur, d) =>
    match d.lookup kw with
    | none => aliasPass explicit rest (cur, d)
    | some v =>
      if cur ≠ explicit ∧ v ≠ cur then .error .badArg
      else aliasPass explicit rest (v, d.filter fun e => !(e.1 == kw))

/-- `_process_param(name, explicit, kwargs, {name: (aliases, legacy)}, sigval)`. -/
def processParam (name : String) (explicit sigval : ν) (kw : List (String × ν)) (aliases legacy : List String) :
    Except Err (ν × List (String × ν)) :=
  match kw.lookup name with
  | some v =>
    if explicit ≠ sigval then .error .badArg
    else (aliasPass explicit legacy (v, kw.filter fun e => !(e.1 == name))).bind (aliasPass explicit aliases)
  | none => (aliasPass explicit legacy (explicit, kw)).bind (aliasPass explicit aliases)

end CtrlVerif.FlatHead
