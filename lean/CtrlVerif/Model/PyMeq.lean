/-
Meaning of the primitives that `harness/core/py2lean_meq.py` emits when it translates the BODIES of
`lyap`, `dlyap`, `care`, `dare` (control/mateqn.py, SciPy route) into Lean
(`Generated/MatEqnLyap.lean`, `MatEqnDlyap.lean`, `MatEqnCare.lean`, `MatEqnDare.lean`).
Hand-written; together with the translator this file is the trusted base of the source-text tie of
the argument plumbing of property C10 (notes/NOTES-py2lean-mateqn.md, DESIGN §10.3).

Value model
* an argument array (`A`, `B`, `Q`, and `R`, `S`, `E`, `C` when given) is a `DMat K` of
  `Model/MatEqn.lean`: shape, entries and the tolerance `_is_symmetric` uses for its dtype — the type
  `Generated.checkShape` (`Generated/MatEqnCheck.lean`, tied by `Props/C10Gen.lean`) works on.
  An optional argument is an `Option (DMat K)` (`none` = Python `None`).
  `np.array(X, ndmin=2)` of such an array is the array (`array2d`; NumPy's conversion of scalars and
  1-D lists to 1 × 1 / 1 × k arrays happens before the model sees them, as in the C10 family).
* a matrix EXPRESSION (`-Q`, `B.T @ X @ E + S.T`, what a solver returns, …) is an untyped `PMat K` of
  `Model/PyMat.lean` (`toP` forgets the dtype); `@ + - .T solve` have the meaning fixed there
  (dimension mismatch, singular solve = error; exact field arithmetic).
* `np.eye(k)`, `np.zeros((n, m))` are float64 arrays: identity / zero with tolerance `eps` (the
  machine epsilon, a parameter of the generated function exactly as of `MatEqn.carePlan`).
* the SciPy solvers are PARAMETERS: the `Solvers K` record of the model (one function per run-time
  size, `Model/MatEqn.lean`); `solveContinuousLyapunov … solveDiscreteAre` below only say which
  entry is applied to which (re-typed) arguments and that arrays whose shapes do not fit are an
  error (SciPy: `ValueError`).  `e=` / `s=` keywords that are `None` or absent are `none`.
* the eigenvalue routines `numpy.linalg.eig(M)[0]`, `scipy.linalg.eigvals(M)`,
  `scipy.linalg.eig(M, E)[0]` are ONE parameter `ev : EigFun K L` applied to the pencil handed over
  (`none` = no second argument = the standard problem); `L` is whatever type the eigenvalue list has.
* `method`: `Method` is the value the caller passes (`None`, `'scipy'`, `'slycot'`, anything else:
  `other`, on which every comparison with `None` / `'scipy'` / `'slycot'` is false); `Backend` is what
  `_slycot_or_scipy` returns.  `_slycot_or_scipy` itself is TRANSLATED (`Generated/MatEqnMethod.lean`);
  the only primitive in it is `slycot_check()` = `slycotCheck` = `false`: the check runs on an
  installation WITHOUT Slycot (as the C10 model is the SciPy route).  For the same reason module-level
  names of Slycot routines are `None` and `from slycot import …` raises ImportError (decided by the
  translator from the module's `try / except ImportError` blocks); `ControlSlycot` is
  `Err.notImplemented` ("the requested back end is not available").
-/
import CtrlVerif.Model.PyArr
import CtrlVerif.Model.PyMat

namespace CtrlVerif.PyMeq

open CtrlVerif MatEqn Matrix

/-- the value of the keyword `method` as the caller gives it. -/
inductive Method where
  | none
  | scipy
  | slycot
  | other
  deriving DecidableEq, Repr

/-- what `_slycot_or_scipy` returns: `'slycot'` or `'scipy'`. -/
inductive Backend where
  | slycot
  | scipy
  deriving DecidableEq, Repr

/-- `slycot_check()`: Slycot is not installed in the environment of the check. -/
def slycotCheck : Bool := false

/-- the eigenvalue routine: size, matrix, optional second matrix of the pencil ↦ the eigenvalues. -/
abbrev EigFun (K L : Type) :=
  (n : Nat) → Matrix (Fin n) (Fin n) K → Option (Matrix (Fin n) (Fin n) K) → L

/-- `a if x is None else f(x)` (both branches effect-free). -/
def ifNone {α β : Type} (x : Option α) (a : β) (f : α → β) : β :=
  match x with
  | none => a
  | some v => f v

section

variable {K : Type} [Field K] [LinearOrder K]

/-- `np.array(M, ndmin=2)` of a 2-D array. -/
def array2d (M : DMat K) : DMat K := M

/-- an argument array inside a matrix expression (the dtype is forgotten). -/
def toP (M : DMat K) : PMat K := ⟨M.p, M.q, M.M⟩

/-- `np.eye(n)` (float64). -/
def eye (eps : K) (n : Nat) : DMat K := ⟨n, n, 1, some eps⟩

/-- `np.zeros((n, m))` (float64). -/
def zeros (eps : K) (n m : Nat) : DMat K := ⟨n, m, 0, some eps⟩

/-- an optional keyword array, re-typed to the size the solver expects. -/
def optTyped (r c : Nat) : Option (PMat K) → Except Err (Option (Matrix (Fin r) (Fin c) K))
  | none => .ok none
  | some X => if h : X.r = r ∧ X.c = c then .ok (some (PMat.retype h.1 h.2 X.M)) else .error .shape

/-- `sp.linalg.solve_continuous_lyapunov(a, q)` -/
def solveContinuousLyapunov (Sv : Solvers K) (a q : PMat K) : Except Err (PMat K) :=
  if h : a.c = a.r ∧ q.r = a.r ∧ q.c = a.r then
    .ok ⟨a.r, a.r, Sv.clyap a.r ⟨PMat.retype rfl h.1 a.M, PMat.retype h.2.1 h.2.2 q.M⟩⟩
  else .error .shape

/-- `sp.linalg.solve_discrete_lyapunov(a, q)` -/
def solveDiscreteLyapunov (Sv : Solvers K) (a q : PMat K) : Except Err (PMat K) :=
  if h : a.c = a.r ∧ q.r = a.r ∧ q.c = a.r then
    .ok ⟨a.r, a.r, Sv.dlyap a.r ⟨PMat.retype rfl h.1 a.M, PMat.retype h.2.1 h.2.2 q.M⟩⟩
  else .error .shape

/-- `sp.linalg.solve_sylvester(a, b, q)` -/
def solveSylvester (Sv : Solvers K) (a b q : PMat K) : Except Err (PMat K) :=
  if h : a.c = a.r ∧ b.c = b.r ∧ q.r = a.r ∧ q.c = b.r then
    .ok ⟨a.r, b.r, Sv.sylv a.r b.r
      ⟨PMat.retype rfl h.1 a.M, PMat.retype rfl h.2.1 b.M, PMat.retype h.2.2.1 h.2.2.2 q.M⟩⟩
  else .error .shape

/-- the call record of a Riccati solver from untyped arrays. -/
def areCall (a b q r : PMat K) (e s : Option (PMat K)) :
    Except Err (AreCall (Fin a.r) (Fin b.c) K) :=
  if h : a.c = a.r ∧ b.r = a.r ∧ q.r = a.r ∧ q.c = a.r ∧ r.r = b.c ∧ r.c = b.c then
    match optTyped a.r a.r e, optTyped a.r b.c s with
    | .ok e', .ok s' =>
      .ok ⟨PMat.retype rfl h.1 a.M, PMat.retype h.2.1 rfl b.M, PMat.retype h.2.2.1 h.2.2.2.1 q.M,
        PMat.retype h.2.2.2.2.1 h.2.2.2.2.2 r.M, e', s'⟩
    | _, _ => .error .shape
  else .error .shape

/-- `sp.linalg.solve_continuous_are(a, b, q, r, e=e, s=s)` -/
def solveContinuousAre (Sv : Solvers K) (a b q r : PMat K) (e s : Option (PMat K)) :
    Except Err (PMat K) :=
  (areCall a b q r e s).map fun c => ⟨a.r, a.r, Sv.care a.r b.c c⟩

/-- `sp.linalg.solve_discrete_are(a, b, q, r, e=e, s=s)` -/
def solveDiscreteAre (Sv : Solvers K) (a b q r : PMat K) (e s : Option (PMat K)) :
    Except Err (PMat K) :=
  (areCall a b q r e s).map fun c => ⟨a.r, a.r, Sv.dare a.r b.c c⟩

/-- the eigenvalues of the pencil `(M, E)`: `np.linalg.eig(M)[0]`, `eigvals(M)` (`E = none`),
`sp.linalg.eig(M, E)[0]`. -/
def eig {L : Type} (ev : EigFun K L) (M : PMat K) (E : Option (PMat K)) : Except Err L :=
  if h : M.c = M.r then
    match optTyped M.r M.r E with
    | .ok E' => .ok (ev M.r (PMat.retype rfl h M.M) E')
    | .error e => .error e
  else .error .shape

end

end CtrlVerif.PyMeq
