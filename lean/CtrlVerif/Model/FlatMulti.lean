/-
Model of control/flatsys for user-defined flat systems with several flat outputs (property C20):

* `FlatSys`            — `FlatSystem(forward, reverse, …)`: the two user-supplied maps between
                         `(x, u)` and the flat flag, a list with one array per flat output whose
                         lengths `len i` may differ between the outputs;
* `flagLoop`, `flagMatrixM` — `_basis_flag_matrix` for all flat outputs, following the loop of the
                         code: `M = zeros(…)`, running offsets `flag_off += flag_len`,
                         `coef_off += coef_len`, one block per flat output;
* `hstack`             — `numpy.hstack(zflag)`;
* `p2pM`               — `point_to_point` without cost / constraints for a basis shared by all
                         flat outputs (`PolyFamily`, `BezierFamily`: `nvars = None`, so
                         `var_ncoefs(i) = N`): size test, boundary flags by `forward`, stacked
                         matrix, `numpy.linalg.lstsq` (minimum-norm solution, certified), the rank
                         warning, the slicing of the coefficient vector;
* `trajFlagM`, `trajEvalM` — `SystemTrajectory.eval` at one time;
* `MPoly`, `FlatSys.ofPoly` — forward / reverse maps given by multivariate polynomials (what the
                         driver instantiates the callables with).

Index conventions: rows of the flag matrix are `Fin (∑ i, len i)`, row `k` of flat output `i` is
`rowIdx len i k = finSigmaFinEquiv ⟨i, k⟩`, whose value is `∑_{a < i} len a + k`
(`Mathlib: finSigmaFinEquiv_apply`); columns are `Fin (m * N)`, coefficient `j` of output `i` is
`colIdx i j = finProdFinEquiv (i, j)` with value `j + N * i`.  `flagMatrixM` itself is *not*
defined through these maps but through the loop with running offsets; that both agree is
`Props/C20Multi.lean: flagMatrixM_entry`.
-/
import CtrlVerif.Model.Flat
import Mathlib.Algebra.BigOperators.Fin
import Mathlib.Logic.Equiv.Fin.Basic

namespace CtrlVerif

open Matrix

variable {K : Type} [Field K] [DecidableEq K]

/-- the flat flag: for each of the `m` flat outputs an array of length `len i`
(`zflag[i][k]` = `k`-th derivative of flat output `i`). -/
abbrev Flags (m : Nat) (len : Fin m → Nat) (K : Type) := (i : Fin m) → Fin (len i) → K

/-- `FlatSystem(forward, reverse)`: `n` states, `m` inputs = flat outputs, flag lengths `len`. -/
structure FlatSys (n m : Nat) (len : Fin m → Nat) (K : Type) where
  forward : (Fin n → K) → (Fin m → K) → Flags m len K
  reverse : Flags m len K → (Fin n → K) × (Fin m → K)

/-- row of the stacked flag matrix that belongs to derivative `k` of flat output `i`. -/
def rowIdx {m : Nat} (len : Fin m → Nat) (i : Fin m) (k : Fin (len i)) : Fin (∑ i, len i) :=
  finSigmaFinEquiv ⟨i, k⟩

/-- column that belongs to coefficient `j` of flat output `i` (all outputs have `N` coefficients). -/
def colIdx {m N : Nat} (i : Fin m) (j : Fin N) : Fin (m * N) := finProdFinEquiv (i, j)

/-- `numpy.hstack(zflag)`: the arrays of the flag one after the other. -/
def hstack {m : Nat} {len : Fin m → Nat} (z : Flags m len K) : Fin (∑ i, len i) → K :=
  fun r => z (finSigmaFinEquiv.symm r).1 (finSigmaFinEquiv.symm r).2

/-- the inverse of `hstack` (reading a flag from a flat vector). -/
def unstack {m : Nat} {len : Fin m → Nat} (v : Fin (∑ i, len i) → K) : Flags m len K :=
  fun i k => v (rowIdx len i k)

/-- `alpha[coef_off : coef_off + coef_len]` for flat output `i`. -/
def coefSlice {m N : Nat} (α : Fin (m * N) → K) (i : Fin m) : Fin N → K :=
  fun j => α (colIdx i j)

/-- `basis.eval_deriv(j, k, t)` with a natural-number index (`0` outside `range(N)`, never read). -/
def Basis.evalDN (bs : Basis K) (j k : Nat) (t : K) : K :=
  if h : j < bs.N then bs.evalD ⟨j, h⟩ k t else 0

/-- the loop `for i, flag_len in enumerate(flagshape)` of `_basis_flag_matrix`.  State:
`flag_off`, `coef_off` and the matrix `M` (as a function of the two indices); one pass writes
`M[flag_off + k, coef_off + j] = basis.eval_deriv(j, k, t)` for `j < N`, `k < flag_len` and
advances both offsets. -/
def flagLoop (bs : Basis K) (t : K) : List Nat → Nat → Nat → (Nat → Nat → K) → (Nat → Nat → K)
  | [], _, _, M => M
  | l :: ls, fo, co, M =>
    flagLoop bs t ls (fo + l) (co + bs.N)
      (fun r c => if fo ≤ r ∧ r < fo + l ∧ co ≤ c ∧ c < co + bs.N
        then bs.evalDN (c - co) (r - fo) t else M r c)

/-- `_basis_flag_matrix(sys, basis, flag, t)`: `M = zeros((sum(flagshape), m * N))`, then the
loop. -/
def flagMatrixM {m : Nat} (bs : Basis K) (len : Fin m → Nat) (t : K) :
    Matrix (Fin (∑ i, len i)) (Fin (m * bs.N)) K :=
  fun r c => flagLoop bs t (List.ofFn len) 0 0 (fun _ _ => 0) r.val c.val

/-- `vstack([M_T0, M_Tf])`. -/
def stackMM {m : Nat} (bs : Basis K) (len : Fin m → Nat) (T0 Tf : K) :
    Matrix (Fin ((∑ i, len i) + (∑ i, len i))) (Fin (m * bs.N)) K :=
  fun r => Fin.append (flagMatrixM bs len T0) (flagMatrixM bs len Tf) r

/-- `hstack([hstack(zflag_T0), hstack(zflag_Tf)])`. -/
def stackZM {m : Nat} {len : Fin m → Nat} (z0 zf : Flags m len K) :
    Fin ((∑ i, len i) + (∑ i, len i)) → K := Fin.append (hstack z0) (hstack zf)

/-- `numpy.linalg.lstsq(M, Z)` for a matrix of full row rank: the minimum-norm solution
`Mᵀ (M Mᵀ)⁻¹ Z`; the Gauss–Jordan candidate is accepted only if `M α = Z` holds exactly
(checked on the tabulated copies, which equal `M` and `Z`: `Lemmas/FlatMulti.lean`). -/
def minNormSolve {r c : Nat} (M : Matrix (Fin r) (Fin c) K) (Z : Fin r → K) :
    Except FlatErr (Fin c → K) :=
  let tM := tab M
  let Mt : Matrix (Fin r) (Fin c) K := untab tM
  let tS := tab (Mt * Mtᵀ)
  let S : Matrix (Fin r) (Fin r) K := untab tS
  let tZ := tabV Z
  let tl := gaussSolveTable S (untabV tZ)
  let lam : Fin r → K := untabV tl
  let tα := tabV (Mtᵀ *ᵥ lam)
  let α : Fin c → K := untabV tα
  if Mt *ᵥ α = untabV tZ then .ok α else .error (.cert "lstsq")

/-- `point_to_point(sys, [T0, Tf], x0, u0, xf, uf, basis=bs)` without cost and constraints for a
flat system with several flat outputs.  Result `some α`: the coefficient vector; `none`: the
boundary system does not have full row rank (`rank < Z.size`), the code warns "basis too small;
solution may not exist" and goes on with the least-squares result, which is not modelled. -/
def p2pM {n m : Nat} {len : Fin m → Nat} (S : FlatSys n m len K) (bs : Basis K) (T0 Tf : K)
    (x0 : Fin n → K) (u0 : Fin m → K) (xf : Fin n → K) (uf : Fin m → K) :
    Except FlatErr (Option (Fin (m * bs.N) → K)) :=
  if m * bs.N < 2 * (n + m) then .error (.py .badArg)     -- "basis set is too small"
  else if bs.T = 0 then .error (.py .zeroDen)             -- t / T: the real code returns NaNs
  else if (∃ i : Fin m, bs.N < 2 * len i) ∨ (T0 = Tf ∧ 0 < ∑ i, len i) then .ok none
  else
    match minNormSolve (stackMM bs len T0 Tf) (stackZM (S.forward x0 u0) (S.forward xf uf)) with
    | .error e => .error e
    | .ok α => .ok (some α)

/-- the flag `SystemTrajectory.eval` builds at time `t`:
`zflag[i][k] = Σ_j coeffs[i][j] * basis.eval_deriv(j, k, t)` with `flaglen[i] = len i`. -/
def trajFlagM {m : Nat} (bs : Basis K) (α : Fin (m * bs.N) → K) (len : Fin m → Nat) (t : K) :
    Flags m len K :=
  fun i => trajFlag bs (coefSlice α i) (len i) t

/-- `SystemTrajectory.eval` at one time. -/
def trajEvalM {n m : Nat} {len : Fin m → Nat} (S : FlatSys n m len K) (bs : Basis K)
    (α : Fin (m * bs.N) → K) (t : K) : (Fin n → K) × (Fin m → K) :=
  S.reverse (trajFlagM bs α len t)

/-! ### polynomial maps (the callables the driver passes to `FlatSystem`) -/

/-- a multivariate polynomial: a list of monomials `(coefficient, exponents)`. -/
structure MPoly (K : Type) where
  terms : List (K × List Nat)

/-- value at the point `v` (variable `a` has the value `v a`). -/
def MPoly.eval (p : MPoly K) (v : Nat → K) : K :=
  (p.terms.map fun ce => ce.1 * (ce.2.zipIdx.map fun ei => v ei.2 ^ ei.1).prod).sum

/-- the variables `(x, u)` as one vector. -/
def xuVar {n m : Nat} (x : Fin n → K) (u : Fin m → K) : Nat → K :=
  fun a => if h : a < n then x ⟨a, h⟩ else if h2 : a - n < m then u ⟨a - n, h2⟩ else 0

/-- the flag as one vector (in `hstack` order). -/
def flagVar {m : Nat} {len : Fin m → Nat} (z : Flags m len K) : Nat → K :=
  fun a => if h : a < ∑ i, len i then hstack z ⟨a, h⟩ else 0

/-- a flat system whose maps are polynomial: `fwd` has one polynomial in `(x, u)` per flag entry
(in `hstack` order), `rev` one polynomial in the flag entries per state and input. -/
def FlatSys.ofPoly (n m : Nat) (len : Fin m → Nat) (fwd : Fin (∑ i, len i) → MPoly K)
    (rev : Fin (n + m) → MPoly K) : FlatSys n m len K where
  forward := fun x u i k => (fwd (rowIdx len i k)).eval (xuVar x u)
  reverse := fun z =>
    (fun j => (rev (Fin.castAdd m j)).eval (flagVar z),
     fun j => (rev (Fin.natAdd n j)).eval (flagVar z))

end CtrlVerif
