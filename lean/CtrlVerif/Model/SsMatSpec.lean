/-
Specification of `control/statesp.py:_ssmatrix(data, axis, square, rows, cols)`: the 2-D shape
rules, the three optional checks, reshape as floats.  `Props/C11GenSsMat.lean` proves the function
regenerated from the source text equal to it; the driver (`sel ssm`) runs it against the real code.
-/
import CtrlVerif.Model.PySS

namespace CtrlVerif.C11GenSsMat

open PyCCA PySS

variable {α : Type}

/-- the 2-D shape `_ssmatrix` gives an array of shape `sh`. -/
def ssShape (sh : List Nat) (axis : Int) : Except Err (Nat × Nat) :=
  match sh with
  | [] => .ok (1, 1)
  | [n] => if n = 0 then .ok (0, 0) else if axis = 1 then .ok (1, n) else .ok (n, 1)
  | [r, c] => if r = 1 ∧ c = 0 then .ok (0, 0) else .ok (r, c)
  | _ => .error .badArg

/-- specification: reshape to the 2-D shape, as floats, after the three optional checks. -/
def ssmatrixSpec (x : Arr α) (axis : Int) (square : Option Bool) (rows cols : Option Nat) :
    Except Err (Arr α) := do
  let (r, c) ← ssShape x.shape axis
  if square = some true ∧ r ≠ c then .error .shape
  else if rows.isSome = true ∧ some r ≠ rows then .error .shape
  else if cols.isSome = true ∧ some c ≠ cols then .error .shape
  else reshape (arrayFloat x) [r, c]

end CtrlVerif.C11GenSsMat
