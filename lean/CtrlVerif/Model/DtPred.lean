/-
Timebase predicates of control/iosys.py: `InputOutputSystem.isdtime / isctime` (methods),
`isdtime / isctime / timebase` (module level).  Core Lean only.

Part 1 (trusted, like `Model/PyDt.lean`): the argument type `SysArg` of the module-level
functions and the meaning of the primitive tests `harness/core/py2lean_select.py` emits on it.
Part 2: the hand-written model (`DtPred.*`) that `Props/C05Pred.lean` proves equal to the
functions generated from the source text.
-/
import CtrlVerif.Model.PyDt

namespace CtrlVerif

/-- what a caller may pass as `sys`: `None`, a constant (`int`, `float`, `complex`, NumPy
number; `bool` is an `int`), an I/O system with timebase `d`, or any other object. -/
inductive SysArg where
  | none
  | number
  | sys (d : Dt)
  | other
  deriving DecidableEq, Repr

namespace PySys

/-- `sys is None` -/
def isNone : SysArg → Bool
  | .none => true
  | _ => false

/-- `isinstance(sys, (int, float, complex, np.number))` -/
def isNumber : SysArg → Bool
  | .number => true
  | _ => false

/-- `isinstance(sys, InputOutputSystem)` -/
def isSystem : SysArg → Bool
  | .sys _ => true
  | _ => false

/-- `sys.dt` (also the receiver of `sys.isdtime(...)`): AttributeError (↦ `badArg`) for an
object that is not a system. -/
def dt : SysArg → Except Err Dt
  | .sys d => .ok d
  | _ => .error .badArg

end PySys

namespace PyDt

/-- `float(dt)` for a timebase that is not `None`: `float(True) = 1.0`. -/
def toFloat : Dt → Dt
  | .dtrue => .disc 1
  | d => d

end PyDt

namespace DtPred

/-- `sys.isdtime(strict)`: `None` counts as discrete unless `strict`; otherwise `dt > 0`
(`True > 0`). -/
def isdtime (strict : Bool) : Dt → Bool
  | .none => !strict
  | .cont => false
  | .dtrue => true
  | .disc h => decide (0 < h)

/-- `sys.isctime(strict)`: `None` counts as continuous unless `strict`; otherwise `dt == 0`. -/
def isctime (strict : Bool) : Dt → Bool
  | .none => !strict
  | .cont => true
  | .dtrue => false
  | .disc h => decide (h = 0)

/-- what the module-level predicates do around the method: a bare timebase (`sys=None, dt=d`),
a constant (like `dt=None`), a system; passing both a system and a timebase is a TypeError, an
object without the method an AttributeError (both ↦ `badArg`). -/
def dispatch (p : Bool → Dt → Bool) (sys : SysArg) (strict : Bool) (dt : Dt) : Except Err Bool :=
  match sys, dt with
  | .none, d => .ok (p strict d)
  | .number, .none => .ok (!strict)
  | .sys d, .none => .ok (p strict d)
  | _, _ => .error .badArg

/-- `isdtime(sys, strict, dt)` -/
def isdtimeFn (sys : SysArg) (strict : Bool) (dt : Dt) : Except Err Bool := dispatch isdtime sys strict dt

/-- `isctime(sys, dt, strict)` -/
def isctimeFn (sys : SysArg) (dt : Dt) (strict : Bool) : Except Err Bool := dispatch isctime sys strict dt

/-- `timebase(sys, strict)`: `None` for a constant, ValueError for a non-system, else the
system's timebase, as a float when `strict` (`True` becomes `1.0`). -/
def timebaseFn (sys : SysArg) (strict : Bool) : Except Err Dt :=
  match sys with
  | .number => .ok .none
  | .sys .dtrue => .ok (if strict then .disc 1 else .dtrue)
  | .sys d => .ok d
  | _ => .error .badArg

end DtPred

end CtrlVerif
