/-
Fixed meaning of the primitives that `harness/core/py2lean_p2phead.py` emits for the argument
processing at the head of `point_to_point` / `solve_flat_optimal` (control/flatsys/flatsys.py).
Hand-written, TRUSTED (like `Model/PyNL.lean`, `Model/PyFlat.lean`); the one new primitive file of
the tag py2lean-p2phead.  Dicts are `PyNL.Dict` (association list, the first binding of a key wins),
sequences are `List K`, indexing is `PyArith.getItem` (Python index rules, `IndexError`).

  `timepts` argument                    ↦ `TimeArg K`  (`scalar v` : Python / NumPy scalar; `array ts` : list,
                                           tuple or 1-D array)
  `np.atleast_1d(x)`                    ↦ `atleast1d x`   (a scalar becomes the one-entry array)
  `{**a, **b, …}`                       ↦ `dictDisplay [a, b, …]`  (a fresh dict updated with each operand in turn,
                                           so later operands win)
  `a or b` on dicts (`a` may be None)   ↦ `dictOr a b`    (`a` when it is a non-empty dict, else `b`)
  `PolyFamily(N)`                       ↦ `polyFamily N`  (`T = 1`, the default of the constructor)
  `basis.nvars`                         ↦ `basisNvars b`  (`None` for PolyFamily / BezierFamily objects, the only
                                           bases of the model)
  `cost`, `trajectory_constraints`      ↦ `Option Unit`   (only `is None` / `is not None` is looked at)
  `kwargs` (what is left of `**kwargs`)  ↦ `PyNL.Dict String ν`  (values opaque)
  `k in d`                              ↦ `dictContains d k`
  `d.pop(k)`                            ↦ `dictPop d k`     ((value, dict without the key); KeyError ↦ `unknownName`)
  `d.pop(k, default)` (value not used)  ↦ `dictErase d k`   (the dict without the key)
  a boundary value `x0 / u0 / xf / uf`  ↦ `BVal K`        (`scalar v` | `vec xs`)
  `_check_convert_array(x, [(n,), (n, 1)], msg, squeeze=True)` ↦ `checkConvertArray x [[n], [n, 1]]`
       (timeresp.py, NOT translated: a scalar fills the first legal shape, an array must have one of the legal
        shapes; the result squeezed to 1-D)
-/
import CtrlVerif.Model.PyNL
import CtrlVerif.Model.Flat

namespace CtrlVerif.PyHead

variable {K κ ν : Type}

/-- the `timepts` argument. -/
inductive TimeArg (K : Type) where
  | scalar (v : K)
  | array (ts : List K)

/-- `np.atleast_1d(x)` -/
def atleast1d : TimeArg K → List K
  | .scalar v => [v]
  | .array ts => ts

/-- `{**a, **b, …}` -/
def dictDisplay (ds : List (PyNL.Dict κ ν)) : PyNL.Dict κ ν := ds.foldl PyNL.Dict.update []

/-- `a or b` where `a` is a dict or `None` and `b` a dict. -/
def dictOr (a : Option (PyNL.Dict κ ν)) (b : PyNL.Dict κ ν) : PyNL.Dict κ ν :=
  match a with
  | some e => if e.isEmpty then b else e
  | none => b

/-- `PolyFamily(N)` (`T = 1`). -/
def polyFamily [One K] (N : Nat) : Basis K := .poly N 1

/-- `basis.nvars` of a PolyFamily / BezierFamily object. -/
def basisNvars (_b : Basis K) : Option Nat := none

/-- a boundary value as the caller passes it. -/
inductive BVal (K : Type) where
  | scalar (v : K)
  | vec (xs : List K)

/-- `_check_convert_array(x, legal_shapes, msg, squeeze=True)` for 1-D data: a scalar fills the first
legal shape; a 1-D array must have a legal shape (`(n,)`; `(n, 1)` is not 1-D). -/
def checkConvertArray (x : BVal K) (legal : List (List Nat)) : Except Err (List K) :=
  match x with
  | .scalar v =>
    match legal with
    | s :: _ => .ok (List.replicate s.prod v)
    | [] => .error .shape
  | .vec xs => if legal.contains [xs.length] then .ok xs else .error .shape

/-- `d` without the key `k` (what `d.pop(k, default)` / `d.pop(k)` leave behind). -/
def dictErase [BEq κ] (d : PyNL.Dict κ ν) (k : κ) : PyNL.Dict κ ν := d.filter fun e => !(e.1 == k)

/-- `k in d` -/
def dictContains [BEq κ] (d : PyNL.Dict κ ν) (k : κ) : Bool := (d.lookup k).isSome

/-- `d.pop(k)`: the value and the dict without the key; `KeyError` when absent. -/
def dictPop [BEq κ] (d : PyNL.Dict κ ν) (k : κ) : Except Err (ν × PyNL.Dict κ ν) :=
  match d.lookup k with
  | some v => .ok (v, dictErase d k)
  | none => .error .unknownName

end CtrlVerif.PyHead
