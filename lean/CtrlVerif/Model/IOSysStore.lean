/-
Caller-owned arrays and the arrays `find_operating_point` works on (control/nlsys.py).

The value model (`Model/IOSysDyn.lean`: `opProblem`, `OpSpec.rootfun`, `OpSpec.result`) treats the
arguments of `find_operating_point` as values.  The code works on numpy arrays, and which array is
*the same memory* as which decides what a later call can change:

```
x0, nstates = _process_vector_argument(x0, ...)   # ndarray: `arg.reshape(-1)`, a VIEW of the caller's
u0, ninputs = _process_vector_argument(u0, ...)   # array; list / tuple / scalar / short value: a new array
...
if all index lists are None:
    if y0 is None:  result = root(state_rhs, x0);  z = (result.x, u0, sys._out(t, result.x, u0))
    else:           result = root(rootfun, z0);    x, u = np.split(result.x, [nstates]); z = (x, u, …)
else:
    x = np.array(x0, dtype=float)                  # COPIES
    u = np.array(u0, dtype=float)
    def rootfun(z):  x[state_vars] = z[:nstate_vars];  u[input_vars] = z[nstate_vars:]; ...
    result = root(rootfun, z0)                     # evaluates rootfun wherever it likes
    x[state_vars] = result.x[:nstate_vars];  u[input_vars] = result.x[nstate_vars:]
    z = (x, u, sys._out(t, x, u))
return OperatingPoint(z[0], z[1], z[2], ...)       # the arrays themselves
```

`Store` is the memory (a list of arrays, addressed by position), `OpArg` says how an argument reaches
the function, `OpCall.run` performs the allocations and the in-place writes of one call and
returns the addresses of the arrays of the `OperatingPoint`.  The root finder is external: the
points at which it evaluates `rootfun` (each evaluation writes into `x`, `u`) and the root it
returns are data of the call.  `runGeneralAliased` is the variant with `np.asarray` instead of
`np.array` (no copy for a float array), used to show that the theorems separate the two.
-/
import Mathlib.Data.List.Basic

namespace CtrlVerif

/-- the memory: array number `r` is `s[r]`. -/
abbrev Store (α : Type) := List (List α)

namespace Store
variable {α : Type}

/-- contents of array `r` (no such array: empty). -/
def read (s : Store α) (r : Nat) : List α := s.getD r []

/-- a new array with contents `v`; returns its address. -/
def alloc (s : Store α) (v : List α) : Store α × Nat := (s ++ [v], s.length)

/-- overwrite array `r` in place. -/
def write (s : Store α) (r : Nat) (v : List α) : Store α := s.set r v

/-- every array of `s` exists in `s'` with the same contents (what a caller holding addresses of
`s` can observe is unchanged). -/
def Extends (s s' : Store α) : Prop :=
  s.length ≤ s'.length ∧ ∀ r, r < s.length → s'.read r = s.read r

end Store

/-- how a vector argument reaches `_process_vector_argument`. -/
inductive OpArg (α : Type) where
  /-- an ndarray of full length owned by the caller (or returned by an earlier call):
  `arg.reshape(-1)` is a view, the same memory. -/
  | view (r : Nat)
  /-- a list / tuple / scalar / short array (padded with `np.hstack`): a new array. -/
  | fresh (v : List α)

namespace OpArg
variable {α : Type}

/-- `_process_vector_argument`: the address of the processed value. -/
def process (s : Store α) : OpArg α → Store α × Nat
  | view r => (s, r)
  | fresh v => s.alloc v

/-- the address an argument names exists. -/
def Valid (s : Store α) : OpArg α → Prop
  | view r => r < s.length
  | fresh _ => True

end OpArg

/-- `x[vars] = z`: the assignments in order. -/
def assignAt {α : Type} (base : List α) (vars : List Nat) (z : List α) : List α :=
  (vars.zip z).foldl (fun b iv => b.set iv.1 iv.2) base

/-- the addresses of `states`, `inputs`, `outputs` of the returned `OperatingPoint`. -/
structure OpRefs where
  states : Nat
  inputs : Nat
  outputs : Nat

/-- one call of `find_operating_point`; `h` is the output map `sys._out(t, ·, ·)` on array contents. -/
inductive OpCall (α : Type) where
  /-- no index lists, `y0 is None`: `result.x` is new, the processed `u0` is handed back. -/
  | inputsFixed (x0 u0 : OpArg α) (root : List α) (h : List α → List α → List α)
  /-- no index lists, `y0` given: `np.split(result.x, [nstates])`. -/
  | outputsFixed (x0 u0 : OpArg α) (nstates : Nat) (root : List α) (h : List α → List α → List α)
  /-- index lists given: `probes` are the points at which the root finder evaluates `rootfun`. -/
  | general (x0 u0 : OpArg α) (stateVars inputVars : List Nat) (probes : List (List α)) (root : List α)
      (h : List α → List α → List α)

namespace OpCall
variable {α : Type}

/-- one evaluation of `rootfun(z)` (and the final insertion of `result.x`): the writes into the
working arrays `x` (address `rx`) and `u` (address `ru`). -/
def scatterInto (s : Store α) (rx ru : Nat) (sv iv : List Nat) (z : List α) : Store α :=
  let s1 := s.write rx (assignAt (s.read rx) sv (z.take sv.length))
  s1.write ru (assignAt (s1.read ru) iv (z.drop sv.length))

/-- all evaluations of the root finder, then `x[state_vars] = result.x[:k]; u[input_vars] = …`. -/
def iterate (s : Store α) (rx ru : Nat) (sv iv : List Nat) (zs : List (List α)) : Store α :=
  zs.foldl (fun s z => scatterInto s rx ru sv iv z) s

/-- the arguments the call names exist. -/
def Valid (s : Store α) : OpCall α → Prop
  | inputsFixed x0 u0 _ _ => x0.Valid s ∧ u0.Valid s
  | outputsFixed x0 u0 _ _ _ => x0.Valid s ∧ u0.Valid s
  | general x0 u0 _ _ _ _ _ => x0.Valid s ∧ u0.Valid s

/-- the memory after the call and the arrays of the returned `OperatingPoint`. -/
def run (s : Store α) : OpCall α → Store α × OpRefs
  | inputsFixed x0 u0 root h =>
    let (s1, _) := x0.process s
    let (s2, ru0) := u0.process s1
    let (s3, rx) := s2.alloc root
    let (s4, ry) := s3.alloc (h root (s3.read ru0))
    (s4, ⟨rx, ru0, ry⟩)
  | outputsFixed x0 u0 n root h =>
    let (s1, _) := x0.process s
    let (s2, _) := u0.process s1
    let (s3, rx) := s2.alloc (root.take n)
    let (s4, ru) := s3.alloc (root.drop n)
    let (s5, ry) := s4.alloc (h (root.take n) (root.drop n))
    (s5, ⟨rx, ru, ry⟩)
  | general x0 u0 sv iv probes root h =>
    let (s1, rx0) := x0.process s
    let (s2, ru0) := u0.process s1
    let (s3, rx) := s2.alloc (s2.read rx0)
    let (s4, ru) := s3.alloc (s3.read ru0)
    let s5 := iterate s4 rx ru sv iv (probes ++ [root])
    let (s6, ry) := s5.alloc (h (s5.read rx) (s5.read ru))
    (s6, ⟨rx, ru, ry⟩)

/-- the working vectors as values: the writes of the successive evaluations of `rootfun`. -/
def assignAll (x u : List α) (sv iv : List Nat) (zs : List (List α)) : List α × List α :=
  zs.foldl (fun p z => (assignAt p.1 sv (z.take sv.length), assignAt p.2 iv (z.drop sv.length))) (x, u)

/-- the index-list branch with `x = np.asarray(x0, dtype=float)`, `u = np.asarray(u0, dtype=float)`
instead of `np.array`: for a float array no copy is made.  NOT the code; used to show that the
theorems distinguish the two. -/
def runGeneralAliased (s : Store α) (x0 u0 : OpArg α) (sv iv : List Nat) (probes : List (List α))
    (root : List α) (h : List α → List α → List α) : Store α × OpRefs :=
  let (s1, rx) := x0.process s
  let (s2, ru) := u0.process s1
  let s5 := iterate s2 rx ru sv iv (probes ++ [root])
  let (s6, ry) := s5.alloc (h (s5.read rx) (s5.read ru))
  (s6, ⟨rx, ru, ry⟩)

/-- a sequence of calls; a call may name (`OpArg.view`) an array of the caller or an array returned
by an earlier call. -/
def runAll (s : Store α) : List (OpCall α) → Store α × List OpRefs
  | [] => (s, [])
  | c :: cs =>
    let (s1, r) := run s c
    let (s2, rs) := runAll s1 cs
    (s2, r :: rs)

end OpCall

end CtrlVerif
