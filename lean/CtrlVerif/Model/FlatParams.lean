/-
User-defined flat systems WITH PARAMETERS (C20, parameter class).

A `FlatSystem(forward, reverse, updfcn, params={…})` carries a dict of default parameter values
`sys.params`; the user's callables receive a dict and read it with `params.get(key, fallback)` or
`params[key]`.  Two places decide which dict the callables see:

* `NonlinearIOSystem._update_params(params)` (nlsys.py) — what `sys.dynamics(t, x, u, params)` hands to
  `updfcn`: `current = sys.params.copy(); if params: current.update(params)`  (`dynParams`);
* `point_to_point` / `solve_flat_optimal` / `SystemTrajectory` (flatsys.py, systraj.py) — what
  `forward` and `reverse` receive.  The code as it stands: `params = sys.params if params is None else
  params` (`p2pParamsCode`: the argument REPLACES the defaults).  The model `p2pParams` is the
  behaviour the property needs — the same dict as the dynamics see — and
  `Props/C20Params.lean: code_read_eq_iff` says exactly for which reads the two coincide.

* `PDict`, `PDict.update`   — a dict as an association list (first entry of a key wins), `{**d, **o}`;
* `PRead`, `PRead.val`      — one parameter read of a callable (`.get(key, fb)` | `[key]`);
* `readAll`                 — all reads of the callables on one dict (`none`: some `params[key]` raises);
* `ParFlatSys`, `p2pPar`, `trajEvalPar` — the parametrised flat system, `point_to_point(…, params=arg)`
  and `SystemTrajectory.eval` (the trajectory keeps the dict it was planned with).
* `extVar`, `FlatSys.ofPolyPar` — polynomial maps in `(x, u, ρ)` / `(flag, ρ)` (driver instantiation).
-/
import CtrlVerif.Model.FlatMulti

namespace CtrlVerif

variable {K : Type}

/-- a Python dict of parameter values (keys numbered): the first entry of a key is its value. -/
abbrev PDict (K : Type) := List (Nat × K)

/-- `{**d, **o}` = `c = d.copy(); c.update(o)`: entries of `o` win. -/
def PDict.update (d o : PDict K) : PDict K := o ++ d

/-- one read of a parameter inside a user callable: `params.get(key, fb)` (`fb = some _`) or
`params[key]` (`fb = none`: `KeyError` when the key is absent). -/
structure PRead (K : Type) where
  key : Nat
  fb : Option K

/-- the value a read produces on the dict `d` (`none`: `KeyError`). -/
def PRead.val (r : PRead K) (d : PDict K) : Option K := (d.lookup r.key).or r.fb

/-- all reads of the callables on one dict; `none` when one of them raises `KeyError`. -/
def readAll {np : Nat} (rs : Fin np → PRead K) (d : PDict K) : Option (Fin np → K) :=
  if h : ∀ a, ((rs a).val d).isSome then some (fun a => ((rs a).val d).get (h a)) else none

/-- `NonlinearIOSystem._update_params(params)`: the dict `sys.dynamics(t, x, u, params)` passes to
the update function (`if params:` — `None` and `{}` both leave the defaults). -/
def dynParams (sysP : PDict K) (arg : Option (PDict K)) : PDict K :=
  match arg with
  | none => sysP
  | some o => PDict.update sysP o

/-- flatsys.py as it stands: `params = sys.params if params is None else params`. -/
def p2pParamsCode (sysP : PDict K) (arg : Option (PDict K)) : PDict K := arg.getD sysP

/-- the model of the parameter resolution of `point_to_point`: the dict the dynamics see. -/
def p2pParams (sysP : PDict K) (arg : Option (PDict K)) : PDict K := dynParams sysP arg

/-- a user-defined flat system with parameters: the reads its callables make, the declared
defaults `sys.params`, and the maps once the parameters have been read. -/
structure ParFlatSys (n m : Nat) (len : Fin m → Nat) (np : Nat) (K : Type) where
  reads : Fin np → PRead K
  sysP : PDict K
  maps : (Fin np → K) → FlatSys n m len K

variable [Field K] [DecidableEq K]

/-- `point_to_point(sys, [T0, Tf], x0, u0, xf, uf, basis=bs, params=arg)` (no cost, no constraints):
the size test comes first, then `forward` is called with the resolved dict (`KeyError` of a strict
read is reported as `unknownName`), then everything is `p2pM` on the maps at the values read. -/
def p2pPar {n m np : Nat} {len : Fin m → Nat} (S : ParFlatSys n m len np K)
    (arg : Option (PDict K)) (bs : Basis K) (T0 Tf : K)
    (x0 : Fin n → K) (u0 : Fin m → K) (xf : Fin n → K) (uf : Fin m → K) :
    Except FlatErr (Option (Fin (m * bs.N) → K)) :=
  match readAll S.reads (p2pParams S.sysP arg) with
  | none => if m * bs.N < 2 * (n + m) then .error (.py .badArg) else .error (.py .unknownName)
  | some ρ => p2pM (S.maps ρ) bs T0 Tf x0 u0 xf uf

/-- `SystemTrajectory.eval` at one time: `reverse(zflag, traj.params)` with the dict the trajectory
was planned with. -/
def trajEvalPar {n m np : Nat} {len : Fin m → Nat} (S : ParFlatSys n m len np K)
    (arg : Option (PDict K)) (bs : Basis K) (α : Fin (m * bs.N) → K) (t : K) :
    Option ((Fin n → K) × (Fin m → K)) :=
  (readAll S.reads (p2pParams S.sysP arg)).map fun ρ => trajEvalM (S.maps ρ) bs α t

/-- variables `0 … nv-1` from `v`, variables `nv … nv+np-1` are the parameter values read. -/
def extVar {np : Nat} (nv : Nat) (v : Nat → K) (ρ : Fin np → K) : Nat → K :=
  fun a => if a < nv then v a else if h : a - nv < np then ρ ⟨a - nv, h⟩ else 0

/-- polynomial maps with parameters: `fwd` in the variables `(x, u, ρ)`, `rev` in `(flag, ρ)`. -/
def FlatSys.ofPolyPar (n m : Nat) (len : Fin m → Nat) {np : Nat}
    (fwd : Fin (∑ i, len i) → MPoly K) (rev : Fin (n + m) → MPoly K) (ρ : Fin np → K) :
    FlatSys n m len K where
  forward := fun x u i k => (fwd (rowIdx len i k)).eval (extVar (n + m) (xuVar x u) ρ)
  reverse := fun z =>
    (fun j => (rev (Fin.castAdd m j)).eval (extVar (∑ i, len i) (flagVar z) ρ),
     fun j => (rev (Fin.natAdd n j)).eval (extVar (∑ i, len i) (flagVar z) ρ))

end CtrlVerif
