/-
Dynamic (run-time shaped) layer of the transfer-function model: operand conversion, SISO
promotion, shape checks, operator dispatch and the timebase, following
`TransferFunction.__add__ … feedback`, `bdalg.combine_tf/split_tf` step by step.
-/
import CtrlVerif.Model.TF
import Mathlib.Logic.Equiv.Fin.Basic

namespace CtrlVerif

variable {K : Type} [Field K] [DecidableEq K]

/-- a transfer function object: shape, entries, timebase. -/
structure DTF (K : Type) where
  p : Nat
  m : Nat
  sys : TFM (Fin p) (Fin m) K
  dt : Dt

/-- re-type along equalities of the dimensions. -/
def TFM.cast {p p' m m' : Nat} (hp : p = p') (hm : m = m') (G : TFM (Fin p) (Fin m) K) :
    TFM (Fin p') (Fin m') K :=
  ⟨fun i j => G.e (Fin.cast hp.symm i) (Fin.cast hm.symm j)⟩

/-- re-type `Fin a ⊕ Fin b` blocks as `Fin (a + b)`. -/
def TFM.flatten {a b c d : Nat} (G : TFM (Fin a ⊕ Fin b) (Fin c ⊕ Fin d) K) :
    TFM (Fin (a + b)) (Fin (c + d)) K :=
  ⟨fun i j => G.e (finSumFinEquiv.symm i) (finSumFinEquiv.symm j)⟩

namespace DTF

def isSiso (G : DTF K) : Bool := G.p == 1 && G.m == 1

/-- the (0,0) entry, used on SISO systems only. -/
def frac00 (G : DTF K) : Frac K :=
  if h : 0 < G.p ∧ 0 < G.m then G.sys.e ⟨0, h.1⟩ ⟨0, h.2⟩ else Frac.zero

/-- `_convert_to_transfer_function(scalar, inputs=m, outputs=p)`: every entry is the scalar;
timebase `None` (static system without explicit `dt`). -/
def ofScalar (c : K) (p m : Nat) : DTF K :=
  ⟨p, m, TFM.ofConst fun _ _ => c, .none⟩

/-- `_convert_to_transfer_function(ndarray)`. -/
def ofArray (p m : Nat) (D : Fin p → Fin m → K) : DTF K :=
  ⟨p, m, TFM.ofConst D, .none⟩

/-- `np.eye(n) * c` converted. -/
def ofScaledEye (c : K) (n : Nat) : DTF K :=
  ofArray n n fun i j => if i = j then c else 0

/-- `bdalg.append(*[g] * n)` for SISO `g` (timebase of `g`). -/
def diagOf (g : DTF K) (n : Nat) : DTF K :=
  ⟨n, n, TFM.diag g.frac00 n, g.dt⟩

/-- core of `__mul__` after conversion of `other`. -/
def mulCore (G H : DTF K) : Except Err (DTF K) := do
  let G' := if G.isSiso && !H.isSiso then G.diagOf H.p else G
  let H' := if !G.isSiso && H.isSiso then H.diagOf G.m else H
  if h : G'.m = H'.p then
    let dt ← common G'.dt H'.dt
    let s ← TFM.mul G'.sys (TFM.cast h.symm rfl H'.sys)
    pure ⟨G'.p, H'.m, s, dt⟩
  else .error .shape

/-- core of `__rmul__` (`other * self`) after conversion: note the promotion sizes. -/
def rmulCore (self other : DTF K) : Except Err (DTF K) := do
  let self' := if self.isSiso && !other.isSiso then self.diagOf other.m else self
  let other' := if !self.isSiso && other.isSiso then other.diagOf self.p else other
  if h : other'.m = self'.p then
    let dt ← common self'.dt other'.dt
    let s ← TFM.mul other'.sys (TFM.cast h.symm rfl self'.sys)
    pure ⟨other'.p, self'.m, s, dt⟩
  else .error .shape

/-- `np.ones((p, m)) * g`  (goes through `__rmul__` with an ndarray). -/
def onesTimes (p m : Nat) (g : DTF K) : Except Err (DTF K) :=
  rmulCore g (ofArray p m fun _ _ => 1)

/-- core of `__add__` after conversion of `other`. -/
def addCore (G H : DTF K) : Except Err (DTF K) := do
  let G' ← if G.isSiso && !H.isSiso then onesTimes H.p H.m G else pure G
  let H' ← if !G.isSiso && H.isSiso then onesTimes G.p G.m H else pure H
  if hm : G'.m = H'.m then
    if hp : G'.p = H'.p then
      let dt ← common G'.dt H'.dt
      let s ← TFM.add G'.sys (TFM.cast hp.symm hm.symm H'.sys)
      pure ⟨G'.p, G'.m, s, dt⟩
    else .error .shape
  else .error .shape

def neg (G : DTF K) : Except Err (DTF K) := do
  let s ← G.sys.neg
  pure ⟨G.p, G.m, s, G.dt⟩

/-- `TransferFunction([1], [1])`. -/
def unity : DTF K := ⟨1, 1, TFM.siso Frac.one, .none⟩

/-- SISO / SISO. -/
def divSisoCore (G H : DTF K) : Except Err (DTF K) := do
  let dt ← common G.dt H.dt
  let s ← TFM.truedivSiso (TFM.siso G.frac00) (TFM.siso H.frac00)
  pure ⟨1, 1, s, dt⟩

/-- `self ** n` for `n : Int`, by the code's recursion (fuel = |n|). -/
def powNat (G : DTF K) : Nat → Except Err (DTF K)
  | 0 => pure { (unity : DTF K) with dt := G.dt }      -- `TransferFunction([1], [1], self.dt)`
  | n + 1 => do
    let r ← powNat G n
    mulCore G r

/-- `(1/self)`: the code returns `NotImplemented` (a `TypeError`) for MIMO `self`. -/
def recip (G : DTF K) : Except Err (DTF K) :=
  if G.isSiso then divSisoCore unity G else .error .notImplemented

def powNegNat (G : DTF K) : Nat → Except Err (DTF K)
  | 0 => pure { (unity : DTF K) with dt := G.dt }
  | n + 1 => do
    let i ← recip G
    let r ← powNegNat G n
    mulCore i r

def pow (G : DTF K) (n : Int) : Except Err (DTF K) :=
  match n with
  | .ofNat k => powNat G k
  | .negSucc k => powNegNat G (k + 1)

/-- core of `__truediv__` after conversion of `other`.
`self` MIMO and `other` SISO: `other := append(*[other**-1] * self.ninputs)`, `self * other`. -/
def truedivCore (G H : DTF K) : Except Err (DTF K) := do
  if !G.isSiso && H.isSiso then
    let hi ← pow H (-1)
    mulCore G (hi.diagOf G.m)
  else if !G.isSiso || !H.isSiso then .error .notImplemented
  else divSisoCore G H

/-- core of `__rtruediv__` (`other / self`) after conversion. -/
def rtruedivCore (self other : DTF K) : Except Err (DTF K) := do
  if self.isSiso && !other.isSiso then
    let si ← pow self (-1)
    mulCore other (si.diagOf other.m)
  else if !self.isSiso || !other.isSiso then .error .notImplemented
  else truedivCore other self

/-- `feedback` after conversion of `other`. -/
def feedbackCore (G H : DTF K) (sign : K) : Except Err (DTF K) := do
  if !G.isSiso || !H.isSiso then .error .notImplemented
  else
    let dt ← common G.dt H.dt
    let s ← TFM.feedbackSiso (TFM.siso G.frac00) (TFM.siso H.frac00) sign
    pure ⟨1, 1, s, dt⟩

/-- `TransferFunction.append` (block diagonal; timebase: the common one). -/
def append (G H : DTF K) : Except Err (DTF K) := do
  let dt ← common G.dt H.dt
  let s ← TFM.reindex (TFM.flatten (G.sys.append H.sys)) id id
  pure ⟨G.p + H.p, G.m + H.m, s, dt⟩

/-- `sys[rows, cols]` for index lists already resolved and range-checked. -/
def select (G : DTF K) (rows cols : List Nat) : Except Err (DTF K) :=
  if h : (∀ r ∈ rows, r < G.p) ∧ (∀ c ∈ cols, c < G.m) then do
    let s ← TFM.reindex G.sys
      (fun i : Fin rows.length => ⟨rows[i], h.1 _ (List.getElem_mem _)⟩)
      (fun j : Fin cols.length => ⟨cols[j], h.2 _ (List.getElem_mem _)⟩)
    pure ⟨rows.length, cols.length, s, G.dt⟩
  else .error .indexRange

/-- horizontal concatenation of blocks with equal row count (one block row of `combine_tf`). -/
def hcat (G H : DTF K) : Except Err (DTF K) := do
  if h : G.p = H.p then
    let dt ← common G.dt H.dt
    let s ← TFM.mk' (o := Fin G.p) (ι := Fin (G.m + H.m)) fun i j =>
      match finSumFinEquiv.symm j with
      | .inl j => G.sys.e i j
      | .inr j => H.sys.e (Fin.cast h i) j
    pure ⟨G.p, G.m + H.m, s, dt⟩
  else .error .shape

/-- vertical concatenation of block rows with equal column count. -/
def vcat (G H : DTF K) : Except Err (DTF K) := do
  if h : G.m = H.m then
    let dt ← common G.dt H.dt
    let s ← TFM.mk' (o := Fin (G.p + H.p)) (ι := Fin G.m) fun i j =>
      match finSumFinEquiv.symm i with
      | .inl i => G.sys.e i j
      | .inr i => H.sys.e i (Fin.cast h j)
    pure ⟨G.p + H.p, G.m, s, dt⟩
  else .error .shape

end DTF

/-- operands of the Python operators: a system, a Python/NumPy scalar, or a 2-D array. -/
inductive Operand (K : Type) where
  | sys (G : DTF K)
  | scalar (c : K)
  | array (p m : Nat) (D : Fin p → Fin m → K)

namespace DTF

/-- `self + other` (`__add__`; `__radd__` is the same call). -/
def add (G : DTF K) : Operand K → Except Err (DTF K)
  | .sys H => addCore G H
  | .scalar c => addCore G (ofScalar c G.p G.m)
  | .array p m D => addCore G (ofArray p m D)

/-- negation of an operand as Python does it before dispatch (`-other`). -/
def Operand.neg : Operand K → Except Err (Operand K)
  | .sys H => do let r ← H.neg; pure (.sys r)
  | .scalar c => pure (.scalar (-c))
  | .array p m D => pure (.array p m fun i j => - D i j)

/-- `self - other` = `self + (-other)`. -/
def sub (G : DTF K) (x : Operand K) : Except Err (DTF K) := do
  let y ← Operand.neg x
  G.add y

/-- `other - self` = `other + (-self)` → `(-self).__radd__(other)`. -/
def rsub (G : DTF K) (x : Operand K) : Except Err (DTF K) := do
  let n ← G.neg
  n.add x

/-- `self * other`. -/
def mul (G : DTF K) : Operand K → Except Err (DTF K)
  | .sys H => mulCore G H
  | .scalar c => mulCore G (ofScaledEye c G.m)
  | .array p m D => mulCore G (ofArray p m D)

/-- `other * self` for a non-system `other`. -/
def rmul (G : DTF K) : Operand K → Except Err (DTF K)
  | .sys H => rmulCore G H
  | .scalar c => rmulCore G (ofScaledEye c G.p)
  | .array p m D => rmulCore G (ofArray p m D)

/-- `self / other`. -/
def truediv (G : DTF K) : Operand K → Except Err (DTF K)
  | .sys H => truedivCore G H
  | .scalar c => truedivCore G (ofScalar c 1 1)
  | .array p m D => truedivCore G (ofArray p m D)

/-- `other / self` for a non-system `other`. -/
def rtruediv (G : DTF K) : Operand K → Except Err (DTF K)
  | .sys H => rtruedivCore G H
  | .scalar c => rtruedivCore G (ofScalar c G.m G.m)
  | .array p m D => rtruedivCore G (ofArray p m D)

/-- `self.feedback(other, sign)`. -/
def feedback (G : DTF K) (x : Operand K) (sign : K) : Except Err (DTF K) :=
  match x with
  | .sys H => feedbackCore G H sign
  | .scalar c => feedbackCore G (ofScalar c 1 1) sign
  | .array p m D => feedbackCore G (ofArray p m D) sign

end DTF

end CtrlVerif
