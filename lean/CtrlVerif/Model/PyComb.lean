/-
Primitives of the source-text tie of the timebase section of `bdalg.combine_tf` and of
`bdalg._ensure_tf` (harness/core/py2lean_combdt.py).  Hand-written, part of the trusted base.

  an entry of `tf_array`                      ↦ `Entry`: a `TransferFunction` (with its `dt`) or an array-like
                                                 (a scalar is an array-like with `ndim = 0`)
  `getattr(tfn, "dt", None)`                  ↦ `getattrDt tfn`   (array-likes have no attribute `dt`)
  `isinstance(x, tf.TransferFunction)`        ↦ `isTF x`
  `np.ndim(x)`                                ↦ `ndim x`
  `x.dt`                                      ↦ `getattrDt x`     (on a `TransferFunction`)
  `common_timebase(a, b)`                     ↦ `Generated.commonTimebase a b` (the function generated from
                                                 the text of `common_timebase`, `Props/C05Gen.lean`)
  `TransferFunction(arraylike_3d, ones, dt)`  ↦ a `TransferFunction` entry carrying `dt` (what the
                                                 constructor makes of an explicit `dt` is `DtOps.givenDt`)
-/
import CtrlVerif.Model.Dt
import CtrlVerif.Model.PyDt
import CtrlVerif.Generated.CommonTimebase

namespace CtrlVerif.PyComb

inductive Entry where
  | tf (dt : Dt)
  | arr (ndim : Nat)
  deriving DecidableEq, Repr

def getattrDt : Entry → Dt
  | .tf d => d
  | .arr _ => .none

def isTF : Entry → Bool
  | .tf _ => true
  | .arr _ => false

def ndim : Entry → Nat
  | .tf _ => 0
  | .arr n => n

/-- `TransferFunction(arraylike_3d, np.ones_like(arraylike_3d), dt)`. -/
def mkTF (_x : Entry) (dt : Dt) : Entry := .tf dt

end CtrlVerif.PyComb
