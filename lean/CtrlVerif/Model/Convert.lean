/-
Model of the conversions between representations (control/statesp.py `_convert_to_statespace`,
`ss`, `tf2ss`, `ssdata`; control/xferfcn.py `_convert_to_transfer_function`, `tf`, `ss2tf`, `zpk`,
`tfdata`; control/frdata.py `FrequencyResponseData(sys, omega)`; control/iosys.py `_copy_names`,
`_process_iosys_keywords`) and of the mixed-type operator dispatch (`StateSpace.__add__/__mul__`
with a `TransferFunction` operand and vice versa).

* `tf2ssList` is SciPy's `tf2ss` for one numerator row: `normalize` (strip the leading zeros of the
  denominator, divide by its leading coefficient), pad the numerator, controller canonical form.
* `ss2tf` is certified (DESIGN §3.4): an (untrusted, tabulated) Faddeev–LeVerrier loop proposes
  the coefficients `c₁ … c_n` and the matrices `M₀ … M_{n-1}`; `chainOK` decides
  `M₀ = I`, `M_k = A M_{k-1} + c_k I`, `A M_{n-1} + c_n I = 0`, from which
  `(sI - A) Σ M_k s^{n-1-k} = d(s) I` for all `s` (theorem `flv_identity`).  SciPy's `ss2tf` uses
  `poly` of the eigenvalues instead; the agreement of the two is part of the correspondence.
* where the code has a defect with respect to C03 the model is the correct behaviour:
  `frd(sys, omega)` keeps the timebase of `sys` also when it is `None`.
-/
import CtrlVerif.Model.SSDyn
import CtrlVerif.Model.TFDyn
import CtrlVerif.Model.FRDDyn
import Mathlib.Data.Matrix.Basic
import Mathlib.LinearAlgebra.Matrix.Trace

namespace CtrlVerif

open Matrix

namespace Convert

variable {K : Type} [Field K] [DecidableEq K]

/-! ### tf → ss -/

/-- controller canonical form of `b(s)/a(s)` with `a` monic (`a 0 = 1`), `a k`, `b k` the
coefficients of `s^(n-k)`: first row `-a₁ … -a_n`, ones on the sub-diagonal, `B = e₀`,
`C = b_{1…n} - b₀ a_{1…n}`, `D = b₀`  (the last lines of `scipy.signal.tf2ss`). -/
def ccf (n : Nat) (a b : Nat → K) : SS (Fin n) (Fin 1) (Fin 1) K where
  A := fun i j => if i.val = 0 then -a (j.val + 1) else if i.val = j.val + 1 then 1 else 0
  B := fun i _ => if i.val = 0 then 1 else 0
  C := fun _ j => b (j.val + 1) - b 0 * a (j.val + 1)
  D := fun _ _ => b 0

/-- `scipy.signal.tf2ss(num, den)` for 1-D `num`: `normalize` strips the leading zeros of `den`
(an all-zero denominator is an error) and divides both by the leading coefficient; a numerator
longer than the denominator is an error; the numerator is left-padded with zeros to the length of
the denominator.  (`getD` below only ever reads inside the lists: `padLeft` makes the numerator
exactly as long as the denominator.) -/
def tf2ssList (num den : List K) (dt : Dt) : Except Err (DSS K) :=
  match den.dropWhile (· = 0) with
  | [] => .error .zeroDen
  | a0 :: ar =>
    if num.length > ar.length + 1 then .error .nonProper
    else
      let a : Nat → K := fun k => (a0 :: ar).getD k 0 / a0
      let b : Nat → K := fun k => (padLeft (ar.length + 1) num).getD k 0 / a0
      .ok ⟨ar.length, 1, 1, ccf ar.length a b, dt⟩

/-- Python's `>` on lists of integers: the first differing position decides, otherwise the
longer list is the greater. -/
def lexGtNat : List Nat → List Nat → Bool
  | [], _ => false
  | _ :: _, [] => true
  | a :: as, b :: bs => if a = b then lexGtNat as bs else decide (a > b)

/-- Python's `>` on lists of lists of integers. -/
def lexGt : List (List Nat) → List (List Nat) → Bool
  | [], _ => false
  | _ :: _, [] => true
  | a :: as, b :: bs => if a = b then lexGt as bs else lexGtNat a b

/-- `[[len(num) for num in col] for col in sys.num]` (rows of the nested list). -/
def lens (G : DTF K) (f : Frac K → List K) : List (List Nat) :=
  (List.finRange G.p).map fun i => (List.finRange G.m).map fun j => (f (G.sys.e i j)).length

/-- the properness test exactly as `_convert_to_statespace` writes it:
`any(lens(num) > lens(den))` — a *lexicographic* comparison of the nested length lists. -/
def properCheckFails (G : DTF K) : Bool := lexGt (lens G Frac.num) (lens G Frac.den)

/-- `max(max(len(x) for x in row) for row in …)` is `1` (all arrays have one coefficient). -/
def allLenOne (G : DTF K) (f : Frac K → List K) : Bool :=
  (lens G f).all fun row => row.all fun l => l == 1

/-- the static branch: `D[i, j] = num[i][j][0] / den[i][j][0]`. -/
def staticGain (G : DTF K) : Matrix (Fin G.p) (Fin G.m) K :=
  fun i j => match (G.sys.e i j).num, (G.sys.e i j).den with
    | [c], [d] => c / d
    | _, _ => 0     -- not reached: only called when every array has exactly one coefficient

/-- `_convert_to_statespace(sys)` for a transfer function, Slycot absent:
properness test (as written), static branch, MIMO → `ControlMIMONotImplemented`, SISO → SciPy. -/
def toSS (G : DTF K) : Except Err (DSS K) :=
  if properCheckFails G then .error .nonProper
  else if allLenOne G Frac.num && allLenOne G Frac.den then
    .ok ⟨0, G.p, G.m, SS.static (staticGain G), G.dt⟩
  else if !G.isSiso then .error .notImplemented
  else tf2ssList G.frac00.num G.frac00.den G.dt

/-! ### ss → tf (certified Faddeev–LeVerrier) -/

/-- tables: matrices as data, so that the proposal loop does not nest closures. -/
abbrev Tab (K : Type) (n m : Nat) := Vector (Vector K m) n

def tab {n m : Nat} (M : Matrix (Fin n) (Fin m) K) : Tab K n m :=
  Vector.ofFn fun i => Vector.ofFn fun j => M i j

def untab {n m : Nat} (t : Tab K n m) : Matrix (Fin n) (Fin m) K := fun i j => t[i][j]

/-- the Faddeev–LeVerrier loop (untrusted proposal): at step `k` (`cur = M_{k-1}`)
`c_k = -tr(A M_{k-1}) / k`, `M_k = A M_{k-1} + c_k I`.  Returns `[(c₁, M₀), …, (c_n, M_{n-1})]`. -/
def flvLoop {n : Nat} (A : Tab K n n) : Nat → Nat → Tab K n n → List (K × Tab K n n)
  | 0, _, _ => []
  | fuel + 1, k, cur =>
    let AM := tab (untab A * untab cur)
    let c : K := -(Matrix.trace (untab AM)) / (k : K)
    let nxt := tab (untab AM + c • (1 : Matrix (Fin n) (Fin n) K))
    (c, cur) :: flvLoop A fuel (k + 1) nxt

def flvPropose {n : Nat} (A : Matrix (Fin n) (Fin n) K) : List (K × Matrix (Fin n) (Fin n) K) :=
  (flvLoop (tab A) n 1 (tab 1)).map fun cM => (cM.1, untab cM.2)

variable {σ ι o : Type*} [Fintype σ] [DecidableEq σ]

/-- the certificate: starting from `cur = I`, every listed matrix is the current one, the next
current one is `A M + c I`, and after the last step nothing is left. -/
def chainOK (A : Matrix σ σ K) (cur : Matrix σ σ K) : List (K × Matrix σ σ K) → Prop
  | [] => cur = 0
  | cM :: rest => cM.2 = cur ∧ chainOK A (A * cM.2 + cM.1 • 1) rest

instance chainOK.dec (A : Matrix σ σ K) :
    (cur : Matrix σ σ K) → (l : List (K × Matrix σ σ K)) → Decidable (chainOK A cur l)
  | cur, [] => inferInstanceAs (Decidable (cur = 0))
  | cur, cM :: rest =>
    haveI := chainOK.dec A (A * cM.2 + cM.1 • 1) rest
    inferInstanceAs (Decidable (cM.2 = cur ∧ chainOK A (A * cM.2 + cM.1 • 1) rest))

/-- common denominator `1, c₁, …, c_n` (highest power first). -/
def cden (steps : List (K × Matrix σ σ K)) : List K := 1 :: steps.map (·.1)

/-- numerator of entry `(i, j)`: `D_ij, (C M₀ B)_ij + c₁ D_ij, …, (C M_{n-1} B)_ij + c_n D_ij`. -/
def cnum (G : SS σ ι o K) (steps : List (K × Matrix σ σ K)) (i : o) (j : ι) : List K :=
  G.D i j :: steps.map fun cM => (G.C * cM.2 * G.B) i j + cM.1 * G.D i j

/-- the raw arrays handed to the `TransferFunction` constructor. -/
def ss2tfRaw (G : SS σ ι o K) (steps : List (K × Matrix σ σ K)) (i : o) (j : ι) : Frac K :=
  ⟨cnum G steps i j, cden steps⟩

/-- `_convert_to_transfer_function(sys)` for a state-space system (Slycot absent): the static
special case, otherwise numerator and common denominator per input column, then the constructor. -/
def toTF (G : DSS K) : Except Err (DTF K) :=
  if G.n = 0 then do
    let s ← TFM.mk' fun i j => (⟨[G.sys.D i j], [1]⟩ : Frac K)
    pure ⟨G.p, G.m, s, G.dt⟩
  else do
    let steps := flvPropose G.sys.A
    let s ← TFM.mk' fun i j => ss2tfRaw G.sys steps i j
    pure ⟨G.p, G.m, s, G.dt⟩

/-- the certificate of `toTF G` checks (decided by the driver; a failure is `model-error`). -/
def certOK (G : DSS K) : Bool := decide (chainOK G.sys.A 1 (flvPropose G.sys.A))

/-! ### zpk -/

/-- `numpy.poly(roots)`: `a = [1]; for z in roots: a = convolve(a, [1, -z])`. -/
def polyFromRoots (zs : List K) : List K := zs.foldl (fun acc z => polymul acc [1, -z]) [1]

/-- `scipy.signal.zpk2tf(z, p, k)`. -/
def zpk2tf (zs ps : List K) (k : K) : Frac K := ⟨scale k (polyFromRoots zs), polyFromRoots ps⟩

/-- `zpk(zeros, poles, gain, dt)`. -/
def zpk (zs ps : List K) (k : K) (dt : Dt) : Except Err (DTF K) := do
  let s ← TFM.mk' (o := Fin 1) (ι := Fin 1) fun _ _ => zpk2tf zs ps k
  pure ⟨1, 1, s, dt⟩

/-! ### objects: representation + names -/

/-- system name and signal labels (`name`, `input_labels`, `output_labels`).  Generic names
(`sys[<id>]`) are all written `sys[*]`. -/
structure Meta where
  name : String
  inputs : List String
  outputs : List String
  deriving DecidableEq, Repr

def genericName : String := "sys[*]"

/-- `_generic_name_check`. -/
def Meta.isGeneric (μ : Meta) : Bool := μ.name == genericName

/-- default labels `u[0] …` / `y[0] …`. -/
def defaultLabels (pre : String) (n : Nat) : List String :=
  (List.range n).map fun i => pre ++ "[" ++ toString i ++ "]"

def Meta.default (p m : Nat) : Meta := ⟨genericName, defaultLabels "u" m, defaultLabels "y" p⟩

/-- keyword overrides `name=`, `inputs=`, `outputs=` of the factory functions. -/
structure Kw where
  name : Option String := none
  inputs : Option (List String) := none
  outputs : Option (List String) := none

/-- `_extended_system_name(name, prefix_suffix_name=tag)` applied only to non-generic names
(`use_prefix_suffix = not sys._generic_name_check()`); a generic name is replaced by a new
generic name. -/
def extName (μ : Meta) (tag : String) : String :=
  if μ.isGeneric then genericName else μ.name ++ "$" ++ tag

/-- names after a converting factory call (`ss2tf`, `tf2ss`, `ss(tf)`, `tf(ss)`, `frd(sys, w)`):
keywords win, otherwise the name gets the suffix and the labels are copied. -/
def Meta.converted (μ : Meta) (kw : Kw) (tag : String) : Meta :=
  ⟨kw.name.getD (extName μ tag), kw.inputs.getD μ.inputs, kw.outputs.getD μ.outputs⟩

/-- names after a copying factory call (`ss(ss)`, `tf(tf)`): keywords win, otherwise everything is
copied (the copy keeps the name). -/
def Meta.copied (μ : Meta) (kw : Kw) : Meta :=
  ⟨kw.name.getD μ.name, kw.inputs.getD μ.inputs, kw.outputs.getD μ.outputs⟩

inductive Rep (K : Type) where
  | ss (G : DSS K)
  | tf (G : DTF K)

namespace Rep
def p : Rep K → Nat | .ss G => G.p | .tf G => G.p
def m : Rep K → Nat | .ss G => G.m | .tf G => G.m
def dt : Rep K → Dt | .ss G => G.dt | .tf G => G.dt
def isSS : Rep K → Bool | .ss _ => true | .tf _ => false
end Rep

structure Obj (K : Type) where
  rep : Rep K
  names : Meta

/-- the conversion functions of the public API. -/
inductive Step where
  | tf (kw : Kw)        -- `ct.tf(sys, **kw)` / `sys.to_tf(**kw)`
  | ss2tf (kw : Kw)     -- `ct.ss2tf(sys, **kw)`
  | ss (kw : Kw)        -- `ct.ss(sys, **kw)` / `sys.to_ss(**kw)` / `ct.tf2ss(sys, **kw)`
  | tfdata              -- `ct.tf(*ct.tfdata(sys), sys.dt)`
  | ssdata              -- `ct.ss(*ct.ssdata(sys), sys.dt)`

/-- the representation after a step (what happens to the numbers and the timebase). -/
def stepRep : Step → Rep K → Except Err (Rep K)
  | .tf _, .ss G => do let T ← toTF G; pure (.tf T)
  | .tf _, .tf G => pure (.tf G)
  | .ss2tf _, .ss G => do let T ← toTF G; pure (.tf T)
  | .ss2tf _, .tf _ => .error .badArg            -- "ss2tf(sys): sys must be a StateSpace object"
  | .ss _, .tf G => do let S ← toSS G; pure (.ss S)
  | .ss _, .ss G => pure (.ss G)
  | .tfdata, .ss G => do let T ← toTF G; pure (.tf T)
  | .tfdata, .tf G => pure (.tf G)
  | .ssdata, .tf G => do let S ← toSS G; pure (.ss S)
  | .ssdata, .ss G => pure (.ss G)

/-- the names after a step. -/
def stepMeta : Step → Rep K → Meta → Meta
  | .tf kw, .ss _, μ => μ.converted kw "converted"
  | .tf kw, .tf _, μ => μ.copied kw
  | .ss2tf kw, _, μ => μ.converted kw "converted"
  | .ss kw, .tf _, μ => μ.converted kw "converted"
  | .ss kw, .ss _, μ => μ.copied kw
  | .tfdata, r, _ => Meta.default r.p r.m
  | .ssdata, r, _ => Meta.default r.p r.m

def applyStep (st : Step) (x : Obj K) : Except Err (Obj K) := do
  let r ← stepRep st x.rep
  pure ⟨r, stepMeta st x.rep x.names⟩

/-- a finite chain of conversions. -/
def runChain : List Step → Obj K → Except Err (Obj K)
  | [], x => pure x
  | st :: rest, x => do
    let y ← applyStep st x
    runChain rest y

/-- every certificate used along the chain checks (decided by the driver). -/
def chainCertOK : List Step → Obj K → Bool
  | [], _ => true
  | st :: rest, x =>
    (match st, x.rep with
      | .tf _, .ss G => certOK G
      | .ss2tf _, .ss G => certOK G
      | .tfdata, .ss G => certOK G
      | _, _ => true) &&
    (match applyStep st x with
      | .ok y => chainCertOK rest y
      | .error _ => true)

/-! ### mixed-type operators (`+ - *` between `StateSpace` and `TransferFunction`) -/

inductive MOp where
  | add | sub | mul
  deriving DecidableEq, Repr

/-- `left op right`: the left operand's method converts the right operand to the class of the
left operand (`_convert_to_statespace` / `_convert_to_transfer_function`) and then applies the
same-class operator; for `-` the right operand is negated first (`self + (-other)`). -/
def mixedRep : MOp → Rep K → Rep K → Except Err (Rep K)
  | .add, .ss G, .ss H => do let r ← G.addSS H; pure (.ss r)
  | .add, .ss G, .tf H => do let H' ← toSS H; let r ← G.addSS H'; pure (.ss r)
  | .add, .tf G, .tf H => do let r ← G.addCore H; pure (.tf r)
  | .add, .tf G, .ss H => do let H' ← toTF H; let r ← G.addCore H'; pure (.tf r)
  | .sub, .ss G, .ss H => do let r ← G.addSS H.neg; pure (.ss r)
  | .sub, .ss G, .tf H => do let N ← H.neg; let H' ← toSS N; let r ← G.addSS H'; pure (.ss r)
  | .sub, .tf G, .tf H => do let N ← H.neg; let r ← G.addCore N; pure (.tf r)
  | .sub, .tf G, .ss H => do let H' ← toTF H.neg; let r ← G.addCore H'; pure (.tf r)
  | .mul, .ss G, .ss H => do let r ← G.mulSS H; pure (.ss r)
  | .mul, .ss G, .tf H => do let H' ← toSS H; let r ← G.mulSS H'; pure (.ss r)
  | .mul, .tf G, .tf H => do let r ← G.mulCore H; pure (.tf r)
  | .mul, .tf G, .ss H => do let H' ← toTF H; let r ← G.mulCore H'; pure (.tf r)

/-- the result of an operator is a new system with a generic name and default labels. -/
def mixed (op : MOp) (x y : Obj K) : Except Err (Obj K) := do
  let r ← mixedRep op x.rep y.rep
  pure ⟨r, Meta.default r.p r.m⟩

/-- the certificates used by `mixed` (a state-space operand converted to a transfer function). -/
def mixedCertOK (op : MOp) (x y : Obj K) : Bool :=
  match op, x.rep, y.rep with
  | .sub, .tf _, .ss H => certOK H.neg
  | _, .tf _, .ss H => certOK H
  | _, _, _ => true

/-- the class of the result: that of the left operand. -/
def promoted : Rep K → Rep K → Bool   -- `true` = StateSpace
  | .ss _, _ => true
  | .tf _, _ => false

/-! ### `frd(sys, omega)` -/

/-- the sorted grid (`sort(np.asarray(omega))`). -/
def sortedGrid (ws : List ℚ) : List ℚ := ws.mergeSort fun a b => decide (a ≤ b)

/-- `FrequencyResponseData(sys, omega)`: the system evaluated on the sorted grid (`jω` or
`exp(jω dt)`, `DFRD.ofLTI` of the FRD model); `smooth` defaults to `False`. -/
def frdOfSys {C : Type} [Field C] [DecidableEq C] (E : Env C) (L : LTI C) (ws : List ℚ) :
    Except Err (DFRD C (sortedGrid ws).length) := do
  let F ← DFRD.ofLTI E L fun k : Fin (sortedGrid ws).length => (sortedGrid ws).get k
  pure { F with smooth := false }

/-- names of `frd(sys, omega)`: suffix `$sampled` for a non-generic name, labels copied. -/
def frdMeta (μ : Meta) (kw : Kw) : Meta := μ.converted kw "sampled"

/-- timebase of `frd(sys, omega)`: that of `sys`. -/
def frdDt (dt : Dt) : Dt := dt

end Convert

end CtrlVerif
