/-
Meaning of the NumPy primitives that `harness/core/py2lean_select.py` emits for
`_check_shape` / `_is_symmetric` (control/mateqn.py), on the run-time shaped array `DMat K` of
`Model/MatEqn.lean` (shape, entries, `tol` = the `eps` of an inexact dtype / `none` for an
integer dtype).  Hand-written, trusted (like `Model/PyDt.lean`).  The element-wise tests are the
model's `IsSym`; nothing numeric is re-defined.

  `np.atleast_2d(M)`              ↦ `atleast2d M`     (a `DMat` is 2-D already)
  `M.shape[0]`, `M.shape[1]`      ↦ `shape0 M`, `shape1 M`
  `isinstance(M[0, 0], inexact)`  ↦ `item00Inexact M` (IndexError on an empty array)
  `finfo(M.dtype).eps`            ↦ `eps M`           (ValueError for an integer dtype)
  `((M - M.T) < eps).all()`       ↦ `allDiffTLt M eps` (ValueError when `M` and `M.T` do not broadcast;
                                     a non-square `M` with a unit dimension broadcasts in NumPy: outside
                                     the domain, every call is guarded by the squareness test)
  `(M == M.T).all()`              ↦ `allEqT M`
-/
import CtrlVerif.Model.MatEqn

namespace CtrlVerif.PyArr

open CtrlVerif MatEqn

variable {K : Type} [Field K] [LinearOrder K]

def atleast2d (M : DMat K) : DMat K := M

def shape0 (M : DMat K) : Int := M.p

def shape1 (M : DMat K) : Int := M.q

def item00Inexact (M : DMat K) : Except Err Bool :=
  if 0 < M.p ∧ 0 < M.q then .ok M.tol.isSome else .error .indexRange

def eps (M : DMat K) : Except Err K :=
  match M.tol with
  | some e => .ok e
  | none => .error .badArg

def allDiffTLt (M : DMat K) (e : K) : Except Err Bool :=
  if h : M.q = M.p then .ok (decide (IsSym (some e) (M.cast rfl h))) else .error .shape

def allEqT (M : DMat K) : Except Err Bool :=
  if h : M.q = M.p then .ok (decide (IsSym none (M.cast rfl h))) else .error .shape

end CtrlVerif.PyArr
