/-
Meaning of the Python / NumPy primitives that `harness/core/py2lean_heads.py` emits when it translates
the ARGUMENT DISPATCH at the head of `control/margins.py: stability_margins` (the statements before the
polynomial builders are called) and `_likely_numerical_inaccuracy`.
Hand-written, part of the trusted base of the source-text tie of the heads (DESIGN §10.3,
notes/NOTES-py2lean-heads.md).

Value model
* `sysdata` — an argument of unknown class — is a `SysData`: one constructor per class of values the
  dispatch can tell apart with `isinstance(·, frdata.FRD)`, `isinstance(·, xferfcn.TransferFunction)`,
  `getattr(·, '__iter__', False)` and `len(·)`:
  `frd` (a `FrequencyResponseData` object), `tf` (a `TransferFunction` object), `seq` (a tuple / list of
  1-D float arrays: iterable, `len` = number of items), `iterNoLen` (an iterable without `len`, e.g. a
  generator: `len()` raises `TypeError`), `other` (anything without `__iter__`: a `StateSpace`, a scalar, …).
  The classes `TF`, `FRD`, `Oth` themselves are abstract (type parameters); what the head does with
  such objects is collected in `Env` (constructor calls, `issiso`, `isctime`, `dt`,
  `_default_frequency_range`, `_convert_to_transfer_function`, `_likely_numerical_inaccuracy`).
* the local variable `sys` is a `Sys` (a transfer function or an FRD);
* 1-D float arrays are `List K` (exact field arithmetic), complex arrays `List (Cx K)`; arrays handed
  in by the caller are tracked: every generated dispatch returns, next to its result, the caller's
  `sysdata` AS IT IS AFTER THE CALL (`x = e` re-binds a local name, `x *= e` on an array the caller owns
  changes the caller's array);
* `try: body except Exception: handler` is `tryExcept body handler`.
-/
import CtrlVerif.Model.PyMarg
import CtrlVerif.Model.PyArith

namespace CtrlVerif.PyHeads

open CtrlVerif CtrlVerif.Margins

/-- what `sysdata` can be (see the header). -/
inductive SysData (K TF FRD Oth : Type) where
  | frd (f : FRD)
  | tf (g : TF)
  | seq (items : List (List K))
  | iterNoLen (o : Oth)
  | other (o : Oth)
  deriving DecidableEq

/-- the local variable `sys` after the dispatch. -/
inductive Sys (TF FRD : Type) where
  | tf (g : TF)
  | frd (f : FRD)
  deriving DecidableEq

/-- which polynomial builders the transfer-function branch calls first:
`_poly_iw(sys)` (continuous time) or `_poly_z_invz(sys)` (discrete time). -/
inductive Builders where
  | iw
  | zinvz
  deriving DecidableEq, Repr

/-- where `stability_margins` goes after its head: the polynomial route with the named builders on
the transfer function `g`, or the numerical route on the frequency response data `f`. -/
inductive Route (TF FRD : Type) where
  | poly (b : Builders) (g : TF)
  | frd (f : FRD)
  deriving DecidableEq

/-- what the head does with the objects (all parameters of the tie). -/
structure Env (K TF FRD Oth : Type) [CommRing K] where
  /-- `frdata.FRD(f, smooth=s)` on an FRD object -/
  frdCopy : FRD → Bool → FRD
  /-- `frdata.FRD(response, omega, smooth=s)` on arrays (raises on mismatching lengths, …) -/
  frdOfData : List (Cx K) → List K → Bool → Except Err FRD
  /-- `frdata.FRD(g, omega, smooth=s)` on a transfer function -/
  frdOfTF : TF → List K → Bool → FRD
  /-- `xferfcn._convert_to_transfer_function(x)` on a sequence -/
  convertSeq : List (List K) → Except Err TF
  /-- `xferfcn._convert_to_transfer_function(x)` on any other object -/
  convertOther : Oth → Except Err TF
  /-- `issiso(sys)` -/
  issisoTF : TF → Bool
  issisoFRD : FRD → Bool
  /-- `sys.isctime()` -/
  isctime : TF → Bool
  /-- `sys.dt` as a float (`True` is 1) -/
  dt : TF → K
  /-- `freqplot._default_frequency_range(sys)` -/
  defaultRange : TF → List K
  /-- `_likely_numerical_inaccuracy(sys)` (raises for a non-proper system) -/
  likely : TF → Except Err Bool

/-- `try: body except Exception: handler` (the handler does not use the exception). -/
def tryExcept {α : Type} (body handler : Except Err α) : Except Err α :=
  match body with
  | .ok v => .ok v
  | .error _ => handler

/-- `a, b, c = xs` — `ValueError` unless there are exactly three items. -/
def unpack3 {α : Type} : List α → Except Err (α × α × α)
  | [a, b, c] => .ok (a, b, c)
  | _ => .error .badArg

/-- `m * z` for a float `m` and a complex `z`. -/
def rmulc {K : Type} [CommRing K] (m : K) (z : Cx K) : Cx K := ⟨m * z.re, m * z.im⟩

/-- `len(x)` of an object without `__len__` raises `TypeError`. -/
def lenNoLen : Except Err Nat := .error .notImplemented

/-- a decimal float literal `m / 10^k` (`1e-4`), read as the exact decimal value. -/
def decimal {K : Type} [Field K] (m : Int) (den : Nat) : K := (m : K) / (den : K)

end CtrlVerif.PyHeads
