/-
Meaning of the Python / NumPy / SciPy primitives that `harness/core/py2lean_c2d.py` emits when it
translates the discretisation code of python-control (`StateSpace.sample` in control/statesp.py,
`TransferFunction.sample` and `_c2d_matched` in control/xferfcn.py) and the state-space branch of
`scipy.signal.cont2discrete` (scipy/signal/_lti_conversion.py) into Lean
(`Generated/C2d*.lean`).  Hand-written; together with the translator (and `Model/PyMat.lean`,
`Model/PyArith.lean`, whose primitives are reused) this file is the trusted base of the source-text
tie of property C14 (notes/NOTES-py2lean-sample.md, DESIGN §10.3).

Only TYPES of the model are used here (`DSS`, `Dt`, `Err`, `Period`, `Names`) and the NumPy
coefficient-array operations `polyval polymul scale` of `Model/Poly.lean` (`numpy.polyval / polymul`,
scalar times array; their agreement with NumPy is part of the C01 correspondence) — none of the
functions of `Model/Discretize.lean` that the tie is about.

Modelling decisions (each is a documented deviation from running Python, see the notes):
* Python floats / NumPy float64 are EXACT elements of a field `K`.  A NumPy division by zero gives
  `inf` / `nan` (with a RuntimeWarning), which are not elements of `K`: `x / 0` is the error
  `zeroDen` (`PyNum.div` of `Model/PyMat.lean`), "the result is not a number".
* the sampling period `Ts` is a `Period` (a number, or the Python value `True`).  Used as a number
  it is `periodNum` (`True` is `1` in every NumPy formula), used as a timebase (last argument of a
  constructor) it is `periodDt` (the constructor stores the argument itself).
* a system object carries its name (`none` = a generic `sys[id]`, whose counter is not modelled) and
  its signal labels.  `StateSpace(A, B, C, D, dt)` checks that the four shapes fit (`PySS.mk`) and
  gives generic names; `TransferFunction(num, den, dt)` stores the two coefficient arrays AS GIVEN
  (the constructor's removal of leading zeros and its zero-denominator check are not modelled here;
  they are tied separately, `C01Gen.generated_ctor_core_eq`).
* `sysd._copy_names(sys, prefix_suffix_name='sampled')` with the default configuration (prefix `''`,
  suffix `'$sampled'`); `X(sysd, **kwargs)` / `X(sysd, name=name, **kwargs)` copies the system, an
  explicit name wins, the keywords `inputs= outputs= states=` (lists of strings) replace the labels
  and must have the right length (`ValueError` otherwise).  No other keyword is modelled.
* a transfer-function object is seen through its entry `[0][0]` and its shape (`sample` raises for
  anything but SISO before it reads more).
* `warn(...)` has no effect on the result and is dropped by the translator.
-/
import CtrlVerif.Model.PyMat
import CtrlVerif.Model.PyArith
import CtrlVerif.Model.Discretize

namespace CtrlVerif.PyC2d

open CtrlVerif

/-- the signal-label keywords a call passes on as `**kwargs` (`none` = keyword absent). -/
structure LabelKw where
  inputs : Option (List String)
  outputs : Option (List String)
  states : Option (List String)
  deriving DecidableEq, Repr

/-- a call without label keywords. -/
def LabelKw.empty : LabelKw := ⟨none, none, none⟩

/-- `Ts` used as a number (`True * x` is `x`). -/
def periodNum : Period → ℚ
  | .num q => q
  | .btrue => 1

/-- `Ts` used as the timebase argument of a constructor. -/
def periodDt : Period → Dt
  | .num q => .disc q
  | .btrue => .dtrue

/-- `sys.isctime()` (non-strict): `dt is None` or `dt == 0`. -/
def isctime : Dt → Bool
  | .none => true
  | .cont => true
  | .dtrue => false
  | .disc _ => false

/-- generic signal labels `u[0], u[1], …`. -/
def genericLabels (pfx : String) (n : Nat) : List String :=
  (List.range n).map fun i => pfx ++ "[" ++ toString i ++ "]"

/-- a label keyword: absent keeps the labels, a list must have the same length. -/
def override (cur : List String) : Option (List String) → Except Err (List String)
  | none => .ok cur
  | some l => if l.length = cur.length then .ok l else .error .badArg

/-- `_extended_system_name(name, prefix_suffix_name='sampled')` in the default configuration. -/
def sampledName (nm : Option String) : Option String := nm.map (· ++ "$sampled")

/-- `enumerate(xs)` from the index `i`: `(i, x₀), (i+1, x₁), …`. -/
def enumerateFrom {α : Type} (i : Int) : List α → List (Int × α)
  | [] => []
  | x :: xs => (i, x) :: enumerateFrom (i + 1) xs

/-- `enumerate(xs)` -/
def enumerate {α : Type} (xs : List α) : List (Int × α) := enumerateFrom 0 xs

section ss
variable {K : Type} [Field K]

/-- a `StateSpace` object: the system, its name and signal labels. -/
structure NamedSS (K : Type) where
  sys : DSS K
  names : Names

/-- what `cont2discrete((A, B, C, D), dt, method, alpha)` is as a function. -/
abbrev C2dSS (K : Type) :=
  PMat K × PMat K × PMat K × PMat K → K → String → Option K →
    Except Err (PMat K × PMat K × PMat K × PMat K × K)

/-- `StateSpace(A, B, C, D, dt)`: shape check, generic name and labels. -/
def mkSS (A B C D : PMat K) (dt : Dt) : Except Err (NamedSS K) :=
  match PySS.mk A B C D dt with
  | .error e => .error e
  | .ok G => .ok ⟨G, ⟨none, genericLabels "u" G.m, genericLabels "y" G.p, genericLabels "x" G.n⟩⟩

/-- `dst._copy_names(src, prefix_suffix_name='sampled')` (the updated `dst`); state labels are
copied only when both systems have states. -/
def copyNamesSS (dst src : NamedSS K) : NamedSS K :=
  ⟨dst.sys, ⟨sampledName src.names.name, src.names.inputs, src.names.outputs,
    if dst.sys.n ≠ 0 ∧ src.sys.n ≠ 0 then src.names.states else dst.names.states⟩⟩

/-- `s.name = nm` (the updated `s`). -/
def setNameSS (s : NamedSS K) (nm : String) : NamedSS K :=
  ⟨s.sys, ⟨some nm, s.names.inputs, s.names.outputs, s.names.states⟩⟩

/-- `StateSpace(s, **kwargs)`. -/
def copySS (s : NamedSS K) (kw : LabelKw) : Except Err (NamedSS K) := do
  let i ← override s.names.inputs kw.inputs
  let o ← override s.names.outputs kw.outputs
  let x ← override s.names.states kw.states
  pure ⟨s.sys, ⟨s.names.name, i, o, x⟩⟩

end ss

section tf
variable {K : Type} [Field K]

/-- a `TransferFunction` object: shape, the entry `[0][0]` of `num` / `den`, timebase, names. -/
structure NamedTF (K : Type) where
  noutputs : Nat
  ninputs : Nat
  num00 : List K
  den00 : List K
  dt : Dt
  names : Names

/-- what `cont2discrete((num, den), dt, method, alpha)` is as a function: a 2-D numerator array, a
1-D denominator array, the step. -/
abbrev C2dTF (K : Type) :=
  List K × List K → K → String → Option K → Except Err (List (List K) × List K × K)

/-- what `tf2zpk(num, den)` is as a function: zeros, poles, gain. -/
abbrev Tf2zpk (K : Type) := List K → List K → Except Err (List K × List K × K)

/-- `sys.issiso()` -/
def tfIssiso (s : NamedTF K) : Bool := s.noutputs == 1 && s.ninputs == 1

/-- `sys.num[0][0]` (`IndexError` for an empty shape). -/
def tfNum00 (s : NamedTF K) : Except Err (List K) :=
  if s.noutputs = 0 ∨ s.ninputs = 0 then .error .indexRange else .ok s.num00

/-- `sys.den[0][0]` -/
def tfDen00 (s : NamedTF K) : Except Err (List K) :=
  if s.noutputs = 0 ∨ s.ninputs = 0 then .error .indexRange else .ok s.den00

/-- `X[0, :]` of a 2-D array given as the list of its rows. -/
def row0 (X : List (List K)) : Except Err (List K) := PyArith.getItem X 0

/-- `TransferFunction(num, den, dt, **kwargs)` for 1-D arrays: a SISO system, generic name and
labels, then the label keywords (a transfer function has no states: `states=` with a non-empty list
is rejected). -/
def mkTF (num den : List K) (dt : Dt) (kw : LabelKw) : Except Err (NamedTF K) := do
  let i ← override (genericLabels "u" 1) kw.inputs
  let o ← override (genericLabels "y" 1) kw.outputs
  let x ← override [] kw.states
  pure ⟨1, 1, num, den, dt, ⟨none, i, o, x⟩⟩

/-- `dst._copy_names(src, prefix_suffix_name='sampled')` for transfer functions (no states). -/
def copyNamesTF (dst src : NamedTF K) : NamedTF K :=
  { dst with names := ⟨sampledName src.names.name, src.names.inputs, src.names.outputs, dst.names.states⟩ }

/-- `s.name = nm` -/
def setNameTF (s : NamedTF K) (nm : String) : NamedTF K :=
  { s with names := ⟨some nm, s.names.inputs, s.names.outputs, s.names.states⟩ }

/-- `TransferFunction(s, name=name, **kwargs)`: an explicit name wins. -/
def copyTF (s : NamedTF K) (name : Option String) (kw : LabelKw) : Except Err (NamedTF K) := do
  let i ← override s.names.inputs kw.inputs
  let o ← override s.names.outputs kw.outputs
  let x ← override s.names.states kw.states
  pure { s with names := ⟨(match name with | some nm => some nm | none => s.names.name), i, o, x⟩ }

/-- `np.multiply.reduce(xs)`: the product (1 for an empty list). -/
def prod (xs : List K) : K := xs.foldl (· * ·) 1

/-- `numpy.poly(roots)`: the monic polynomial with these roots, highest power first. -/
def poly (rs : List K) : List K := rs.foldl (fun acc r => polymul acc [1, -r]) [1]

/-- `scipy.signal.zpk2tf(z, p, k)` for 1-D `z`: `(k * poly(z), poly(p))`. -/
def zpk2tf (z p : List K) (k : K) : List K × List K := (scale k (poly z), poly p)

variable [DecidableEq K]

/-- `sys.dcgain()` of a SISO transfer function: `num(x) / den(x)` at `x = 0` (continuous time) or
`x = 1` (discrete time). -/
def tfDcgain (s : NamedTF K) : Except Err K := do
  let n ← tfNum00 s
  let d ← tfDen00 s
  let x : K := if isctime s.dt then 0 else 1
  PyNum.div (polyval n x) (polyval d x)

end tf

end CtrlVerif.PyC2d
