/-
Histories of FRD operations (property C09, "for all … expression trees of the operators", read
for a Python PROGRAM rather than one expression).

A Python session keeps objects alive: `G`, `H` are made once and then used by many operator
calls, on either side, several times in one call (`G * G`, `G.feedback(G)`), and the results of
earlier calls are operands of later ones.  The property speaks about VALUES (response matrices at
the stored frequencies), so it can only hold when an operator call reads its operands and leaves
them as they were: in the model an object IS its value, and a history is a list of steps over a
store of values that only grows.

* `Store K` — the objects that exist: slot `i` holds the value of object `i` (`none`: the step
  that would have made it raised, or did not produce an object).  FRD objects, and any other
  operand kind (`FOperand`).
* `Step K` — one operator call: WHICH expression tree over the objects that exist so far
  (`none`: it names an empty slot — the step is skipped).  The leaves of the tree are the stored
  values of the objects the step names; a step is ANY function of the store, so every way of
  naming, repeating and aliasing operands is covered.
* `runH E st steps` — run the steps in order; each appends one slot.

`Expr.bind` substitutes trees for leaves: a history whose steps use earlier RESULTS is one tree
with shared subtrees (`Props/C09Hist.lean: evalModel_bind`).

The driver family `frdhist` (`Driver/FRDHist.lean`) executes `stepE` for every step of a generated
history and compares it with the postfix interpreter; the correspondence check of C09 then
compares every step with python-control run on LIVE objects that are created once, and checks that
the live objects still hold their creation values after every call.
-/
import CtrlVerif.Model.C09Expr

namespace CtrlVerif.FRDTree

open CtrlVerif

variable {K : Type} [Field K] [DecidableEq K]

/-- the objects of a session, in order of creation. -/
abbrev Store (K : Type) := List (Option (FOperand K))

/-- one operator call (a whole expression) over the objects that exist so far. -/
abbrev Step (K : Type) := Store K → Option (Σ n, Expr K n)

/-- what the call does: `none` when it is skipped, else the run-time layer's answer. -/
def stepE (E : Env K) (st : Store K) (s : Step K) : Option (Σ n, Except Err (DFRD K n)) :=
  (s st).map fun x => ⟨x.1, x.2.evalModel E⟩

/-- the object a call leaves behind. -/
def slotOf : Option (Σ n, Except Err (DFRD K n)) → Option (FOperand K)
  | some ⟨n, .ok R⟩ => some (.frd n R)
  | _ => none

def stepH (E : Env K) (st : Store K) (s : Step K) : Option (FOperand K) :=
  slotOf (stepE E st s)

/-- run a history: every step sees the store as the steps before it left it and appends its own
result; nothing else is written. -/
def runH (E : Env K) : Store K → List (Step K) → Store K
  | st, [] => st
  | st, s :: rest => runH E (st ++ [stepH E st s]) rest

/-- the FRD object in slot `i`, when there is one and it lives on `n` grid points. -/
def Store.frd? (n : Nat) (st : Store K) (i : Nat) : Option (DFRD K n) :=
  match st[i]? with
  | some (some (.frd n' F)) => if h : n' = n then some (h ▸ F) else none
  | _ => none

/-- a step that names only the first `k` objects. -/
def Step.ReadsOnly (s : Step K) (k : Nat) : Prop :=
  ∀ st st' : Store K, st.take k = st'.take k → s st = s st'

variable {n : Nat}

/-- substitute a tree for every leaf (the tree that produced the object, for an object that is
the result of an earlier step). -/
def Expr.bind (σ : DFRD K n → Expr K n) : Expr K n → Expr K n
  | .leaf F => σ F
  | .neg a => .neg (a.bind σ)
  | .bin op a b => .bin op (a.bind σ) (b.bind σ)
  | .binV op a v => .binV op (a.bind σ) v
  | .rbin op v a => .rbin op v (a.bind σ)
  | .pow a k => .pow (a.bind σ) k
  | .fb a b s => .fb (a.bind σ) (b.bind σ) s
  | .fbV a v s => .fbV (a.bind σ) v s
  | .fbL v h a s => .fbL v h (a.bind σ) s
  | .append a b => .append (a.bind σ) (b.bind σ)
  | .appendV a v h => .appendV (a.bind σ) v h
  | .sel a r c => .sel (a.bind σ) r c

/-- the FRD objects a tree reads (its leaves, left to right, with repetitions). -/
def Expr.leaves : Expr K n → List (DFRD K n)
  | .leaf F => [F]
  | .neg a => a.leaves
  | .bin _ a b => a.leaves ++ b.leaves
  | .binV _ a _ => a.leaves
  | .rbin _ _ a => a.leaves
  | .pow a _ => a.leaves
  | .fb a b _ => a.leaves ++ b.leaves
  | .fbV a _ _ => a.leaves
  | .fbL _ _ a _ => a.leaves
  | .append a b => a.leaves ++ b.leaves
  | .appendV a _ _ => a.leaves
  | .sel a _ _ => a.leaves

end CtrlVerif.FRDTree
