/-
The block-diagram functions of `control/bdalg.py` — `series`, `parallel`, `append` (n-ary),
`negate`, `feedback` — over the run-time operands of `Model/SSDyn.lean`.

The code (bdalg.py):

    series(*sys)   : reduce(lambda x, y: y * x, syslist[1:], syslist[0])
    parallel(*sys) : reduce(lambda x, y: x + y, syslist[1:], syslist[0])
    append(*sys)   : s1 = sys[0]; for s in sys[1:]: s1 = s1.append(s)
    negate(sys)    : -sys
    feedback(sys1, sys2=1, sign=-1) : sys1.feedback(sys2, sign), a scalar / array `sys1` converted
                     first (`_convert_to_statespace` when `sys2` is a state-space system)

i.e. **left folds of the binary operators** over the operand list, in call order.  They are
modelled twice:

* on trees (`SSTree.bdFold`): the call `f(e₁, …, eₙ)` *is* the tree the fold builds from the
  binary nodes of `SSTree` (`series` : `eₙ * (… * (e₂ * e₁))`, `parallel` : `((e₁ + e₂) + …) + eₙ`,
  `append` likewise), so the run-time tree theorem `C02.RT.dtree_resp` applies to it;
* on evaluated operands (`DSS.bdalg`): what the driver executes for the instructions
  `series k`, `parallel k`, `appendn k` (`Props/C02Bdalg.lean: bdalg_eq_eval` — it is the
  evaluation of that tree).

One deviation from the code, in the direction of the property (README rule: where the code has a
genuine defect the model is the correct behaviour): when the first **two** operands are both
constants (Python scalars / arrays) the fold's first step is plain Python / NumPy arithmetic
(`M2 * M1` is the *element-wise* product of two arrays; `M.append` does not exist).  The model
converts the first operand to a static gain (`bdSeed`, `_convert_to_statespace`), so that every
step is an operator of `StateSpace` and the result is the algebra's (`M2 · M1` the matrix
product).  With a system among the first two operands `bdSeed` is the identity.
-/
import CtrlVerif.Model.C02Dyn

namespace CtrlVerif

open Matrix

/-- the n-ary block-diagram functions. -/
inductive BdFn where
  | series | parallel | append
  deriving DecidableEq, Repr

/-- the driver's instruction. -/
def BdFn.name : BdFn → String
  | .series => "series" | .parallel => "parallel" | .append => "appendn"

variable {K : Type} [Field K]

namespace SSTree

/-- the fold step as a tree: `series`: `lambda x, y: y * x`; `parallel`: `lambda x, y: x + y`;
`append`: `s1 = s1.append(s)`. -/
def bdStep : BdFn → SSTree K → SSTree K → SSTree K
  | .series, x, y => .bin .mul y x
  | .parallel, x, y => .bin .add x y
  | .append, x, y => .bin .append x y

/-- `reduce(step, syslist[1:], syslist[0])`; a call without operands raises (`IndexError`). -/
def bdFold (f : BdFn) : List (SSTree K) → Option (SSTree K)
  | [] => none
  | a :: l => some (l.foldl (bdStep f) a)

/-- `negate(e)`. -/
def negate (e : SSTree K) : SSTree K := .neg e

end SSTree

namespace DSS

variable [DecidableEq K]

/-- one fold step on evaluated operands (the dispatch of `DSS.binop`). -/
def bdStepOp : BdFn → SOperand K → SOperand K → Option (Except Err (SOperand K))
  | .series, x, y => binop .mul y x
  | .parallel, x, y => binop .add x y
  | .append, x, y => binop .append x y

/-- the first operand as the fold uses it: a constant followed by another constant is taken as
the static gain it stands for; otherwise unchanged. -/
def bdSeed (a : SOperand K) : List (SOperand K) → SOperand K
  | [] => a
  | b :: _ => if a.kind ≠ .sys ∧ b.kind ≠ .sys then .sys (toSys a) else a

/-- the fold on evaluated operands: the first error ends the run. -/
def bdFoldOp (f : BdFn) : SOperand K → List (SOperand K) → Except SSEvalErr (SOperand K)
  | acc, [] => .ok acc
  | acc, y :: l =>
    match bdStepOp f acc y with
    | none => .error .bad
    | some (.error e) => .error (.err e)
    | some (.ok r) => bdFoldOp f r l

/-- `series(*ops)`, `parallel(*ops)`, `append(*ops)` on evaluated operands. -/
def bdalg (f : BdFn) : List (SOperand K) → Except SSEvalErr (SOperand K)
  | [] => .error .bad
  | a :: l => bdFoldOp f (bdSeed a l) l

/-- `bdalg.feedback(sys1, sys2, sign)`: `sys1.feedback(sys2, sign)`, a constant `sys1` converted
to a state-space system first. -/
def feedbackFn (a b : SOperand K) (sign : K) : Except Err (DSS K) := (toSys a).feedback b sign

end DSS

end CtrlVerif
