/-
Run-time shaped layer of the C11 model: shape validation (`_ssmatrix`, `_check_shape`),
dispatch on the timebase and on the call form, and re-typing of run-time sizes into the typed
definitions of `Model/StateFbk.lean` (the ones the theorems of `Props/C11.lean` are about).
-/
import CtrlVerif.Model.StateFbk
import CtrlVerif.Model.Dt
import CtrlVerif.Model.Index
import Mathlib.Logic.Equiv.Fin.Basic

namespace CtrlVerif.StateFbk

open Matrix

variable {K : Type} [Field K] [DecidableEq K]

/-! ### ctrb / obsv -/

/-- `ctrb(A, B, t)`: `_ssmatrix(A, square=True)`, `_ssmatrix(B, rows=n)`; with `t = 0` the result
has no columns and the assignment of the first block `ctrb[:, :m] = B` is a NumPy broadcast of an
`n × m` array into an `n × 0` slot: accepted for `m = 1`, an error otherwise. -/
def ctrbDyn (ar ac br bc : Nat) (A : Matrix (Fin ar) (Fin ac) K) (B : Matrix (Fin br) (Fin bc) K)
    (t : Option Nat) : Except Err (Σ c : Nat, Matrix (Fin ar) (Fin c) K) :=
  if h : ac = ar ∧ br = ar then
    let tt := horizon ar t
    if tt = 0 ∧ bc ≠ 1 then .error .shape
    else
      let A' : Matrix (Fin ar) (Fin ar) K := A.submatrix id (Fin.cast h.1.symm)
      let B' : Matrix (Fin ar) (Fin bc) K := B.submatrix (Fin.cast h.2.symm) id
      .ok ⟨tt * bc, (ctrb A' B' tt).submatrix id finProdFinEquiv.symm⟩
  else .error .shape

/-- `obsv(A, C, t)`: `_ssmatrix(C, cols=n)`. -/
def obsvDyn (ar ac cr cc : Nat) (A : Matrix (Fin ar) (Fin ac) K) (C : Matrix (Fin cr) (Fin cc) K)
    (t : Option Nat) : Except Err (Σ r : Nat, Matrix (Fin r) (Fin ar) K) :=
  if h : ac = ar ∧ cc = ar then
    let tt := horizon ar t
    if tt = 0 ∧ cr ≠ 1 then .error .shape
    else
      let A' : Matrix (Fin ar) (Fin ar) K := A.submatrix id (Fin.cast h.1.symm)
      let C' : Matrix (Fin cr) (Fin ar) K := C.submatrix id (Fin.cast h.2.symm)
      .ok ⟨tt * cr, (obsv A' C' tt).submatrix finProdFinEquiv.symm id⟩
  else .error .shape

/-! ### place_acker -/

/-- `place_acker(A, B, poles)` from `p = np.real(np.poly(poles))`.  With more than one input the
controllability matrix is not square: the rank test may pass (rank `n` iff `det (C Cᵀ) ≠ 0` over
an ordered field) and `np.linalg.solve` then raises. -/
def ackerDyn : (ar ac br bc : Nat) → Matrix (Fin ar) (Fin ac) K → Matrix (Fin br) (Fin bc) K →
    List K → Except Err (List K)
  | 0, _, _, _, _, _, _ => .error .badArg
  | N + 1, ac, br, bc, A, B, p =>
    if h : ac = N + 1 ∧ br = N + 1 then
      let A' : Matrix (Fin (N + 1)) (Fin (N + 1)) K := A.submatrix id (Fin.cast h.1.symm)
      let B' : Matrix (Fin (N + 1)) (Fin bc) K := B.submatrix (Fin.cast h.2.symm) id
      if h1 : bc = 1 then
        -- `placeAcker A' b p`, with the two matrices it starts from tabulated once (run-time glue:
        -- `Ct = ctrbVec A' b`, `P = pmat A' p` entry by entry)
        let b : Fin (N + 1) → K := fun i => B' i ⟨0, by omega⟩
        let tC := Array.ofFn (n := N + 1) fun i => Array.ofFn (n := N + 1) fun j => ctrbVec A' b i j
        let tP := Array.ofFn (n := N + 1) fun i => Array.ofFn (n := N + 1) fun j => pmat A' p i j
        let Ct : Matrix (Fin (N + 1)) (Fin (N + 1)) K := fun i j => (tC.getD i #[]).getD j 0
        let P : Matrix (Fin (N + 1)) (Fin (N + 1)) K := fun i j => (tP.getD i #[]).getD j 0
        (placeAckerOf Ct P p.length).map List.ofFn
      else
        let ct := ctrb A' B' (N + 1)
        if (ct * ctᵀ).det = 0 then .error .illPosed else .error .shape
    else .error .shape

/-! ### lqr / dlqr / lqe / dlqe -/

inductive Fn where
  | lqr | dlqr | lqe | dlqe
  deriving DecidableEq, Repr

inductive Routine where
  | care | dare
  deriving DecidableEq, Repr

/-- `isdtime(sys, strict=True)`: `dt` is not `None` and `dt > 0` (`True > 0`). -/
def isdtimeStrict : Dt → Bool
  | .dtrue => true
  | .disc h => decide (0 < h)
  | _ => false

/-- `isctime(sys, strict=True)`: `dt == 0`. -/
def isctimeStrict : Dt → Bool
  | .cont => true
  | .disc h => decide (h = 0)
  | _ => false

/-- `isctime(sys)` (not strict): `dt is None or dt == 0`. -/
def isctime : Dt → Bool
  | .none => true
  | .cont => true
  | .disc h => decide (h = 0)
  | .dtrue => false

/-- which Riccati routine a call reaches; `sysdt = none` is the call form with matrices.
`lqr`/`lqe` hand a (strictly) discrete-time system to `dlqr`/`dlqe`; `dlqr`/`dlqe` refuse a
(strictly) continuous-time system. -/
def route : Fn → Option Dt → Except Err Routine
  | .lqr, some d => if isdtimeStrict d then .ok .dare else .ok .care
  | .lqe, some d => if isdtimeStrict d then .ok .dare else .ok .care
  | .lqr, none => .ok .care
  | .lqe, none => .ok .care
  | .dlqr, some d => if isctimeStrict d then .error .badArg else .ok .dare
  | .dlqe, some d => if isctimeStrict d then .error .badArg else .ok .dare
  | .dlqr, none => .ok .dare
  | .dlqe, none => .ok .dare

/-- the integrator block of the augmented dynamics: `zeros` in `lqr`, `eye` in `dlqr`. -/
def intBlock {q : Type*} [DecidableEq q] : Routine → Matrix q q K
  | .care => 0
  | .dare => 1

/-- the arguments a Riccati routine is called with. -/
structure RicArgs (n m : Type) (K : Type) where
  A : Matrix n n K
  B : Matrix n m K
  Q : Matrix n n K
  R : Matrix m m K
  S : Option (Matrix n m K)

/-- a recording stand-in for `care`/`dare`: returns its arguments in the eigenvalue slot. -/
def recRic {n m : Type} : Riccati n m (RicArgs n m K) K :=
  fun A B Q R S => .ok (0, ⟨A, B, Q, R, S⟩, 0)

/-- `_check_shape` of `care`/`dare` on the weights: square, symmetric, right size. -/
def checkWeights {n m : Type} [Fintype n] [Fintype m] (a : RicArgs n m K) : Except Err Unit :=
  if a.Q ≠ a.Qᵀ then .error .badArg
  else if a.R ≠ a.Rᵀ then .error .badArg
  else .ok ()

/-- a matrix of run-time shape. -/
structure DM (K : Type) where
  r : Nat
  c : Nat
  m : Matrix (Fin r) (Fin c) K

/-- re-type a `(n+q) × c` block along `Fin n ⊕ Fin q`. -/
def sumRows {n q c r : Nat} (h : r = n + q) (M : Matrix (Fin r) (Fin c) K) :
    Matrix (Fin n ⊕ Fin q) (Fin c) K :=
  M.submatrix (fun i => Fin.cast h.symm (finSumFinEquiv i)) id

def sumBoth {n q r c : Nat} (hr : r = n + q) (hc : c = n + q) (M : Matrix (Fin r) (Fin c) K) :
    Matrix (Fin n ⊕ Fin q) (Fin n ⊕ Fin q) K :=
  M.submatrix (fun i => Fin.cast hr.symm (finSumFinEquiv i))
    (fun i => Fin.cast hc.symm (finSumFinEquiv i))

/-- `lqr` / `dlqr` (both call forms; `sysdt = none` for matrices), following the code: dispatch,
integral-action validation and augmentation, default cross weight of `dlqr`, then the shape and
symmetry checks `care`/`dare` apply to the weights.  The result is the routine reached and the
arguments it is called with (`lqrInt` run on the recording stand-in). -/
def lqrDyn (f : Fn) (sysdt : Option Dt) (n m : Nat) (A : Matrix (Fin n) (Fin n) K)
    (B : Matrix (Fin n) (Fin m) K) (Q R : DM K) (Nc : Option (DM K)) (Ci : Option (DM K))
    (ciIsArray : Bool := true) :
    Except Err (Routine × (Σ q : Nat, RicArgs (Fin n ⊕ Fin q) (Fin m) K)) := do
  let rt ← route f sysdt
  let Cint : DM K ← match Ci with
    | none => pure ⟨0, n, 0⟩
    | some C =>
      -- `not isinstance(integral_action, np.ndarray)`: "Integral action must pass an array"
      if !ciIsArray then .error .badArg
      else if C.c ≠ n then .error .badArg else pure C
  let Ncw : Option (DM K) := match rt, Nc with
    | .dare, none => some ⟨Q.r, R.c, 0⟩
    | _, x => x
  if hc : Cint.c = n then
    let q := Cint.r
    if Q.r ≠ Q.c then .error .shape
    else if R.r ≠ R.c then .error .shape
    else if hQ : Q.r = n + q ∧ Q.c = n + q then
      if hR : R.r = m ∧ R.c = m then
        let Q' := sumBoth hQ.1 hQ.2 Q.m
        let R' : Matrix (Fin m) (Fin m) K := R.m.submatrix (Fin.cast hR.1.symm) (Fin.cast hR.2.symm)
        let C' : Matrix (Fin q) (Fin n) K := Cint.m.submatrix id (Fin.cast hc.symm)
        let N' : Except Err (Option (Matrix (Fin n ⊕ Fin q) (Fin m) K)) := match Ncw with
          | none => pure none
          | some S =>
            if hS : S.r = n + q ∧ S.c = m then
              pure (some ((sumRows hS.1 S.m).submatrix id (Fin.cast hS.2.symm)))
            else .error .shape
        if Q' ≠ Q'ᵀ then .error .badArg
        else if R' ≠ R'ᵀ then .error .badArg
        else do
          let N'' ← N'
          let r ← lqrInt recRic A B C' (intBlock rt) Q' R' N''
          pure (rt, ⟨q, r.2.2⟩)
      else .error .shape
    else .error .shape
  else .error .badArg

/-- `lqe` / `dlqe`: dispatch, the cross covariance is not implemented, `_check_shape(QN, g, g)`,
then `care(A.T, C.T, G QN G.T, RN)` (`lqe` run on the recording stand-in). -/
def lqeDyn (f : Fn) (sysdt : Option Dt) (n g o : Nat) (A : Matrix (Fin n) (Fin n) K)
    (G : Matrix (Fin n) (Fin g) K) (C : Matrix (Fin o) (Fin n) K) (QN RN : DM K) (hasNN : Bool) :
    Except Err (Routine × RicArgs (Fin n) (Fin o) K) := do
  let rt ← route f sysdt
  if hasNN then .error .notImplemented
  else if hQ : QN.r = g ∧ QN.c = g then
    if RN.r ≠ RN.c then .error .shape
    else if hR : RN.r = o ∧ RN.c = o then
      let QN' : Matrix (Fin g) (Fin g) K := QN.m.submatrix (Fin.cast hQ.1.symm) (Fin.cast hQ.2.symm)
      let RN' : Matrix (Fin o) (Fin o) K := RN.m.submatrix (Fin.cast hR.1.symm) (Fin.cast hR.2.symm)
      let r ← lqe recRic A G C QN' RN'
      if r.2.2.Q ≠ r.2.2.Qᵀ then .error .badArg
      else if RN' ≠ RN'ᵀ then .error .badArg
      else pure (rt, r.2.2)
    else .error .shape
  else .error .shape

/-! ### create_statefbk_iosystem -/

/-- `create_statefbk_iosystem(sys, K, integral_action=C)` for a linear plant whose outputs are
its `n` states (`Cp`), array gain, pattern 'trajgen', linear controller: the checks on
`integral_action` and on the shape of `K`, then the controller and the closed loop. -/
def fbkDyn (dt : Dt) (n m : Nat) (A : Matrix (Fin n) (Fin n) K) (B : Matrix (Fin n) (Fin m) K)
    (Cp : Matrix (Fin n) (Fin n) K) (Kg : DM K) (Ci : Option (DM K)) :
    Except Err (Σ q : Nat, SS (Fin q) ((Fin n ⊕ Fin m) ⊕ Fin n) (Fin m) K ×
      SS (Fin n ⊕ Fin q) (Fin n ⊕ Fin m) (Fin n ⊕ Fin m) K) := do
  let Cint : DM K ← match Ci with
    | none => pure ⟨0, n, 0⟩
    | some C => if C.c ≠ n then .error .badArg else pure C
  if hc : Cint.c = n then
    let q := Cint.r
    if hK : Kg.r = m ∧ Kg.c = n + q then
      let C' : Matrix (Fin q) (Fin n) K := Cint.m.submatrix id (Fin.cast hc.symm)
      let K' : Matrix (Fin m) (Fin n ⊕ Fin q) K :=
        (sumRows hK.2 Kg.mᵀ)ᵀ.submatrix (Fin.cast hK.1.symm) id
      let c := ctrl (isctime dt) C' K'
      pure ⟨q, c, closedLoop A B Cp c⟩
    else .error .badArg
  else .error .badArg

/-! ### create_statefbk_iosystem with `control_indices` -/

/-- `_process_indices(arg, name, labels, length)` (control/iosys.py): `None` → all indices; an
`int` `k > 0` → `range(k)` (not clipped: `k > length` gives indices that do not exist),
`k ≤ 0` → `list(range(length))[k:]`; a `slice` → `list(range(length))[slice]`; a `list` → longer
than `length` raises, otherwise element by element with names replaced by `labels.index(name)`
(integers are passed through unchanged: negative or too large entries are left to the caller);
anything else (`str`, tuple, ndarray, NumPy integer, float) raises `ValueError`. -/
def processIndices {len : Nat} (labels : Fin len → String) :
    Option Index.Sel → Except Err (List Int)
  | none => .ok ((List.range len).map Int.ofNat)
  | some (.idx k) =>
    if 0 < k then .ok ((List.range k.toNat).map Int.ofNat)
    else (Index.sliceList (some k) none none len).map fun l => l.map fun i => (i.val : Int)
  | some (.slice a b c) => (Index.sliceList a b c len).map fun l => l.map fun i => (i.val : Int)
  | some (.list l) =>
    if len < l.length then .error .badArg else l.mapM (Index.parseItem labels)
  | some (.name _) => .error .badArg
  | some .bad => .error .badArg

/-- `outputs = [sys.input_labels[i] for i in control_indices]` (Python list indexing: negative
entries count from the end, `IndexError` outside `-len … len-1`); the controller cannot be
connected when two of its outputs carry the same name. -/
def selChannels (mt : Nat) (l : List Int) : Except Err (List (Fin mt)) := do
  let s ← l.mapM (Index.normIdx mt)
  if s.Nodup then pure s else .error .badArg

/-- the plant inputs the controller does not drive, in increasing order. -/
def restChannels (mt : Nat) (s : List (Fin mt)) : List (Fin mt) :=
  (List.finRange mt).filter fun i => i ∉ s

/-- result of `fbkSelDyn`: number of integrators, driven and free plant inputs, controller,
closed loop. -/
structure FbkSel (K : Type) (n mt : Nat) where
  q : Nat
  sel : List (Fin mt)
  rest : List (Fin mt)
  ctrl : SS (Fin q) ((Fin n ⊕ Fin sel.length) ⊕ Fin n) (Fin sel.length) K
  cl : SS (Fin n ⊕ Fin q) ((Fin n ⊕ Fin sel.length) ⊕ Fin rest.length) (Fin n ⊕ Fin sel.length) K

/-- the check on `integral_action` (`C.shape[1] != sys_nstates` raises); without it the code uses
`C = zeros((0, n))`. -/
def intAction (n : Nat) : Option (DM K) → Except Err (DM K)
  | none => pure ⟨0, n, 0⟩
  | some C => if C.c ≠ n then .error .badArg else pure C

/-- controller and closed loop once the driven inputs `s` are known. -/
def fbkSelBuild (dt : Dt) (n mt : Nat) (A : Matrix (Fin n) (Fin n) K)
    (B : Matrix (Fin n) (Fin mt) K) (Cp : Matrix (Fin n) (Fin n) K) (Kg Cint : DM K)
    (s : List (Fin mt)) : Except Err (FbkSel K n mt) :=
  if h : Cint.c = n ∧ Kg.r = s.length ∧ Kg.c = n + Cint.r then
    let C' : Matrix (Fin Cint.r) (Fin n) K := Cint.m.submatrix id (Fin.cast h.1.symm)
    let K' : Matrix (Fin s.length) (Fin n ⊕ Fin Cint.r) K :=
      (sumRows h.2.2 Kg.mᵀ)ᵀ.submatrix (Fin.cast h.2.1.symm) id
    let c := ctrl (isctime dt) C' K'
    .ok ⟨Cint.r, s, restChannels mt s, c, closedLoopSel A B Cp s.get (restChannels mt s).get c⟩
  else .error .badArg

/-- `create_statefbk_iosystem(sys, K, integral_action=C, control_indices=ci)` for a linear plant
with `mt` inputs (named `labels`) whose outputs are its `n` states: `_process_indices`, the checks
on `integral_action` and on the shape of `K` (`len(control_indices) × (n + q)`), the names of the
controller outputs, then the controller and the closed loop. -/
def fbkSelDyn (dt : Dt) (n mt : Nat) (A : Matrix (Fin n) (Fin n) K) (B : Matrix (Fin n) (Fin mt) K)
    (Cp : Matrix (Fin n) (Fin n) K) (labels : Fin mt → String) (ci : Option Index.Sel)
    (Kg : DM K) (Ci : Option (DM K)) : Except Err (FbkSel K n mt) := do
  let raw ← processIndices labels ci
  let Cint ← intAction n Ci
  if Kg.r = raw.length ∧ Kg.c = n + Cint.r then
    let s ← selChannels mt raw
    fbkSelBuild dt n mt A B Cp Kg Cint s
  else .error .badArg

end CtrlVerif.StateFbk
