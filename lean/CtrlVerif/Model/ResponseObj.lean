/-
C18 model, part 4: response objects as a small state machine, and the *routes* by which a
processing setting reaches an object.

A `TimeResponseData` object is `raw arrays + stored settings`:

* `TRD.raw r`       — what `__init__` derives from its array arguments (`t, y, x, u`, the SISO flag
                      and the four counts): never changed by any later operation;
* `TRD.settings r`  — the three stored processing keywords `squeeze`, `transpose`, `return_x`;
* `r = TRD.ofParts r.raw r.settings`.

`__init__` = the array part (`TRD.initCore`: all shape logic and every shape error) followed by
the keyword part (validate `squeeze`, store the three keywords); `__call__(**kw)` = a copy with
`settings := settings.update kw` and THE SAME raw part; `response.attr = v` replaces one setting;
the properties `outputs / states / inputs`, `__iter__`, `__getitem__`, `__len__` read the settings
(and the package default) at access time (`TRD.observe`, Model/History.lean).

The same for `FrequencyResponseData`: raw part `(frdata, number of frequencies)`, settings
`squeeze`, `return_magphase`; `F(squeeze=…, return_magphase=…)` is the copy, in which
`squeeze=None` means "keep the stored value".

Routes (`Route`): a target setting `tgt` can be brought into force

* `arg`    — as keywords of the call that builds the object (a response function such as
             `step_response(sys, T, squeeze=…, transpose=…, return_x=…)`, or the class constructor
             `TimeResponseData(t, y, x, u, squeeze=…, transpose=…, return_x=…)`: both are `TMaker`s);
* `call`   — by `response(squeeze=…, transpose=…, return_x=…)` on an object built with other
             settings `start`;
* `attr`   — by assigning the three attributes of such an object;
* `config` — for `squeeze`: by leaving the keyword unset and setting the package default
             `config.defaults['control.squeeze_time_response']` (resp. `…_frequency_response`).

`timeVia` / `freqVia` return the object and the configuration under which it is then read.
-/
import CtrlVerif.Model.History

namespace CtrlVerif

/-! ### the class invariant -/

/-- the SISO flag agrees with the array: the axes that `signal[0][0]` (3-D data) resp.
`signal[0]` (other data) removes have length at most one (so, when the indexing succeeds,
exactly one). -/
def NDArr.SisoAxes {α : Type} (a : NDArr α) : Prop :=
  match a.shape with
  | [p, k, _] => p ≤ 1 ∧ k ≤ 1
  | p :: _ => p ≤ 1
  | [] => True

instance {α : Type} (a : NDArr α) : Decidable a.SisoAxes := by
  unfold NDArr.SisoAxes; split <;> infer_instance

/-- the same for `_process_frequency_response` (its `[0][0]` is applied to data of any rank). -/
def NDArr.SisoAxes2 {α : Type} (a : NDArr α) : Prop :=
  match a.shape with
  | p :: k :: _ => p ≤ 1 ∧ k ≤ 1
  | _ => True

instance {α : Type} (a : NDArr α) : Decidable a.SisoAxes2 := by
  unfold NDArr.SisoAxes2; split <;> infer_instance

/-- the class invariant of `TimeResponseData` that `__init__` establishes (for well-formed
arguments) and no later operation touches: the stored arrays are well formed; a three-axis state
array has exactly `ntraces` traces; for a SISO object with at most one trace the axes that the
SISO rule removes from `y` and `u` have length ≤ 1. -/
structure TRD.Inv {α : Type} (r : TRD α) : Prop where
  ywf : r.y.WF
  xwf : ∀ x, r.x = some x → x.WF
  uwf : ∀ u, r.u = some u → u.WF
  xtrace : ∀ x n k T, r.x = some x → x.shape = [n, k, T] → k = r.ntraces
  siso : r.issiso = true → r.ntraces ≤ 1 → r.y.SisoAxes ∧ ∀ u, r.u = some u → u.SisoAxes

/-! ### time responses: raw part and settings -/

/-- the stored processing keywords of a `TimeResponseData`. -/
structure TSettings where
  squeeze : Sq := .none
  transpose : Bool := false
  returnX : Bool := false
  deriving DecidableEq, Repr

namespace TSettings

/-- keyword handling of `TimeResponseData.__call__`: `kwargs.pop(name, self.name)`. -/
def update (s : TSettings) (kw : TKw) : TSettings :=
  ⟨kw.squeeze.getD s.squeeze, kw.transpose.getD s.transpose, kw.returnX.getD s.returnX⟩

/-- all three keywords given. -/
def toKw (s : TSettings) : TKw := ⟨some s.squeeze, some s.transpose, some s.returnX⟩

end TSettings

namespace TRD

variable {α : Type}

/-- the part of the object that only the constructor's array arguments determine. -/
def raw (r : TRD α) : TRDCore α :=
  ⟨r.t, r.y, r.x, r.u, r.issiso, r.ninputs, r.noutputs, r.nstates, r.ntraces⟩

def settings (r : TRD α) : TSettings := ⟨r.squeeze, r.transpose, r.returnX⟩

def ofParts (c : TRDCore α) (s : TSettings) : TRD α :=
  ⟨c.t, c.y, c.x, c.u, c.issiso, c.ninputs, c.noutputs, c.nstates, c.ntraces,
   s.squeeze, s.transpose, s.returnX⟩

/-- the same raw arrays under other settings. -/
def withSettings (r : TRD α) (s : TSettings) : TRD α := ofParts r.raw s

/-- `response(**kw)` with the keywords as one record. -/
def callKw (r : TRD α) (kw : TKw) : TRD α := r.call kw.squeeze kw.transpose kw.returnX

end TRD

/-- the keyword part of `TimeResponseData.__init__`, after the array part produced `c`. -/
def TRD.initKeywords {α : Type} (c : TRDCore α) (s : TSettings) : Except Err (TRD α) :=
  if s.squeeze = .other then .error .badArg else .ok (TRD.ofParts c s)

/-- a step that creates a copy (`objs.append(objs[j](**kw))`). -/
def HStep.isCopy {Obs CU SU GU : Type} : HStep Obs CU SU GU → Bool
  | .copy _ _ => true
  | _ => false

/-- how a setting reaches a response object. -/
inductive Route where
  | arg | call | attr | config
  deriving DecidableEq, Repr

/-- something that builds a time response from the three construction-time keywords: a response
function applied to fixed system / time / input arguments, or the class constructor applied to
fixed arrays. -/
structure TMaker (α : Type) where
  make : TSettings → Except Err (TRD α)

/-- a maker is *lawful* when it is "array part, then keyword part": the keywords are validated
and stored, and influence nothing else. -/
def TMaker.Lawful {α : Type} (M : TMaker α) : Prop :=
  ∃ core : Except Err (TRDCore α), ∀ s, M.make s = core.bind fun c => TRD.initKeywords c s

/-- `TimeResponseData(time, outputs, states, inputs, issiso=…, multi_trace=…, squeeze=…,
transpose=…, return_x=…)` on fixed arrays. -/
def ctorMaker {α : Type} (time outputs : NDArr α) (states inputs : Option (NDArr α))
    (issiso : Option Bool) (multiTrace : Bool) : TMaker α :=
  ⟨fun s => TRD.init time outputs states inputs issiso s.transpose s.returnX s.squeeze multiTrace⟩

/-- `fn(sys, T, …, squeeze=…, transpose=…, return_x=…)` for a fixed system (`p` outputs, `m`
inputs, `n` states), fixed time points and fixed simulated arrays. -/
def fnMaker {α : Type} (fn : TFn) (p m n T : Nat) (inp out : Option Nat) (u1d : Bool)
    (t y : NDArr α) (x u : Option (NDArr α)) (cfg : Cfg) : TMaker α :=
  ⟨fun s => timeResponse fn p m n T inp out u1d t y x u s.squeeze s.transpose (some s.returnX) cfg⟩

/-- the object that carries the target settings `tgt` by route `ρ`, and the configuration in
force when it is read.  `start`: the settings of the object that `call` / `attr` start from;
`base`: the configuration before. -/
def timeVia {α : Type} (M : TMaker α) (ρ : Route) (tgt start : TSettings) (base : Cfg) :
    Except Err (TRD α × Cfg) :=
  match ρ with
  | .arg => (M.make tgt).map fun r => (r, base)
  | .call => (M.make start).map fun r => (r.callKw tgt.toKw, base)
  | .attr => (M.make start).map fun r =>
      (((r.setAttr (.squeeze tgt.squeeze)).setAttr (.transpose tgt.transpose)).setAttr
        (.returnX tgt.returnX), base)
  | .config => (M.make { tgt with squeeze := .none }).map fun r =>
      (r, base.setSqTime tgt.squeeze)

/-- what reading observable `o` reports after route `ρ`. -/
def observeVia {α : Type} (M : TMaker α) (ρ : Route) (tgt start : TSettings) (base : Cfg)
    (o : TObs) : Except Err (TReading α) :=
  (timeVia M ρ tgt start base).map fun rc => rc.1.observe rc.2 o

/-- the same routes as *histories* of the state machine `HState.run (trdOps α)` on the object
`r₀` (object 0), ending with a read of `o`. -/
def routeHistory (ρ : Route) (tgt : TSettings) (o : TObs) : List TStep :=
  match ρ with
  | .arg => [.read 0 o]
  | .call => [.copy 0 tgt.toKw, .read 1 o]
  | .attr => [.set 0 (.squeeze tgt.squeeze), .set 0 (.transpose tgt.transpose),
              .set 0 (.returnX tgt.returnX), .read 0 o]
  | .config => [.config tgt.squeeze, .read 0 o]

/-! ### frequency responses -/

/-- the stored processing keywords of a `FrequencyResponseData`. -/
structure FSettings where
  squeeze : Sq := .none
  returnMagphase : Bool := false
  deriving DecidableEq, Repr

namespace FSettings

/-- keyword handling of `FrequencyResponseData.__call__()` without a point:
`self.squeeze if squeeze is None else squeeze`. -/
def update (s : FSettings) (kw : FKw) : FSettings :=
  ⟨if kw.squeeze = .none then s.squeeze else kw.squeeze, kw.returnMagphase.getD s.returnMagphase⟩

def toKw (s : FSettings) : FKw := ⟨s.squeeze, some s.returnMagphase⟩

end FSettings

namespace RespFRD

variable {α : Type}

/-- the stored data: the `(outputs, inputs, frequencies)` array and the number of frequencies. -/
def raw (F : RespFRD α) : NDArr α × Nat := (F.frdata, F.nomega)

def settings (F : RespFRD α) : FSettings := ⟨F.squeeze, F.returnMagphase⟩

def ofParts (c : NDArr α × Nat) (s : FSettings) : RespFRD α := ⟨c.1, c.2, s.squeeze, s.returnMagphase⟩

def withSettings (F : RespFRD α) (s : FSettings) : RespFRD α := ofParts F.raw s

def callKw (F : RespFRD α) (kw : FKw) : RespFRD α := F.callCopy kw.squeeze kw.returnMagphase

end RespFRD

/-- `FrequencyResponseData(response, omega, squeeze=…, return_magphase=…)` on fixed data. -/
def frdMake {α : Type} (response : NDArr α) (omegaShape : List Nat) (s : FSettings) :
    Except Err (RespFRD α) :=
  RespFRD.init response omegaShape s.squeeze s.returnMagphase

/-- the frequency response object that carries `tgt` by route `ρ`, and the configuration in
force when it is read. -/
def freqVia {α : Type} (response : NDArr α) (omegaShape : List Nat) (ρ : Route)
    (tgt start : FSettings) (base : Cfg) : Except Err (RespFRD α × Cfg) :=
  match ρ with
  | .arg => (frdMake response omegaShape tgt).map fun F => (F, base)
  | .call => (frdMake response omegaShape start).map fun F => (F.callKw tgt.toKw, base)
  | .attr => (frdMake response omegaShape start).map fun F =>
      ((F.setAttr (.squeeze tgt.squeeze)).setAttr (.returnMagphase tgt.returnMagphase), base)
  | .config => (frdMake response omegaShape { tgt with squeeze := .none }).map fun F =>
      (F, base.setSqFreq tgt.squeeze)

def freqObserveVia {α : Type} (response : NDArr α) (omegaShape : List Nat) (ρ : Route)
    (tgt start : FSettings) (base : Cfg) (o : FObs) : Except Err (FReading α) :=
  (freqVia response omegaShape ρ tgt start base).map fun Fc => Fc.1.observe Fc.2 o

def freqRouteHistory (ρ : Route) (tgt : FSettings) (o : FObs) : List FStep :=
  match ρ with
  | .arg => [.read 0 o]
  | .call => [.copy 0 tgt.toKw, .read 1 o]
  | .attr => [.set 0 (.squeeze tgt.squeeze), .set 0 (.returnMagphase tgt.returnMagphase),
              .read 0 o]
  | .config => [.config tgt.squeeze, .read 0 o]

end CtrlVerif
