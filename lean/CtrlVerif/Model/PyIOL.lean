/-
Meaning of the further primitives that `harness/core/py2lean_iolist.py` emits when it translates the
`inplist` / `outlist` pre-processing loops of `interconnect()` (control/nlsys.py) into Lean
(`Generated/ICL*.lean`).  Hand-written, small; together with the translator, `Model/PyIC.lean` and
`Model/PyICX.lean` (re-used) this is the trusted base of the tie (notes/NOTES-py2lean-iolist.md).

Python lists that the code mutates in place (`new_connections[i].append(cnx)`, `new_inputs += …`,
`new_inputs.append(…)`) are threaded as values: the translator re-binds the variable to the result.
-/
import CtrlVerif.Model.PyICX

namespace CtrlVerif.PyIOL

open IC PyIC

variable {K : Type}

/-- the list of lists `xs` after `xs[k].append(x)` (`k` inside). -/
def modAt {α : Type} : List (List α) → Nat → α → List (List α)
  | [], _, _ => []
  | l :: ls, 0, x => (l ++ [x]) :: ls
  | l :: ls, k + 1, x => l :: modAt ls k x

/-- `xs[i].append(x)` for a list of lists (a negative index counts from the end; IndexError
outside). -/
def appendAt {α : Type} (xs : List (List α)) (i : Int) (x : α) : Except Err (List (List α)) :=
  let k : Int := if i < 0 then i + xs.length else i
  if 0 ≤ k ∧ k.toNat < xs.length then .ok (modAt xs k.toNat x) else .error .indexRange

/-- `v += l` for a Python value `v` and a list `l`: a list is extended; `None`, a number: TypeError;
(a tuple / str `+=` list is a TypeError too). -/
def extend : Val K → List (Val K) → Except Err (Val K)
  | .list l, r => .ok (.list (l ++ r))
  | _, _ => .error .badArg

/-- `v.append(x)` for a Python value `v`: only a list has `append` (AttributeError otherwise). -/
def appendVal : Val K → Val K → Except Err (Val K)
  | .list l, x => .ok (.list (l ++ [x]))
  | _, _ => .error .badArg

/-- a signal label as a Python string (tokenised: the groups of the label). -/
def labelVal (l : Label) : Val K := .str ⟨l.raw, l.tok, []⟩

/-- a subsystem name as a Python string. -/
def nameVal (s : String) : Val K := .str ⟨s, .base s, []⟩

/-- `labels[i]` for a label list and a Python value `i` (an `int`; TypeError otherwise). -/
def labelAtVal (ls : List Label) : Val K → Except Err (Val K)
  | .int i => (seqGet ls i).map labelVal
  | _ => .error .badArg

/-- `syslist[i]` -/
def sysAt (sl : List SysSig) (i : Int) : Except Err SysSig := seqGet sl i

end CtrlVerif.PyIOL
