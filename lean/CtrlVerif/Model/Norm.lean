/-
Model of `system_norm` (control/sysnorm.py, method 'scipy'), branch by branch.

* H2 norm: the case analysis on the pole list (`G.poles()`, given as real/imaginary parts), the
  direct-term test in continuous time, the controllability Gramian from `ct.lyap` / `ct.dlyap`
  (parameters of the model: SciPy's solvers), the precautionary eigenvalue test on the Gramian
  (parameter: LAPACK `eigvals`), and `sqrt(trace(C P Cᵀ [+ D Dᵀ]))`.  The model returns the
  *radicand*: `H2Val.sqrt q` stands for "the non-negative square root of `q`".
* L∞ norm: boundary-pole tests, the `z = 0` test and the inverse bilinear map of a discrete-time
  system, `R(γ) = γ² I_m − DᵀD`, the Hamiltonian matrix `H(γ)`, the doubling loop for the upper
  bound and the bisection loop, with `la.norm(D, 2)` and the test "has an eigenvalue with zero
  real part" as parameters.  Both `while` loops carry a fuel argument; running out of fuel is the
  explicit outcome `diverged` (the loops of the code do not terminate in exact arithmetic when the
  transfer function is identically zero).

The identity matrices are the *correct* ones (`I_m` in `R`, `I_p` in `I + D R⁻¹ Dᵀ`); the code at
the snapshot used `eye(len(D))` for both (defect, see NOTES-C16).
-/
import CtrlVerif.Model.SS
import CtrlVerif.Model.Err
import CtrlVerif.Model.Dt
import Mathlib.LinearAlgebra.Matrix.Trace
import Mathlib.Algebra.Order.Field.Basic

namespace CtrlVerif

open Matrix

namespace Norm

/-- a pole `re + i·im`. -/
structure Pole (K : Type) where
  re : K
  im : K

/-- value of the H2 norm: `inf` or "the non-negative square root of `q`". -/
inductive H2Val (K : Type) where
  | inf
  | sqrt (q : K)
  deriving DecidableEq

/-- value of the L∞ norm: `inf`, a number, or "the loop does not terminate (within the fuel)". -/
inductive LinfVal (K : Type) where
  | inf
  | val (γ : K)
  | diverged
  deriving DecidableEq

/-- `sys.isctime()` (non-strict: `dt = None` counts as continuous). -/
def isCtime : Dt → Bool
  | .none => true
  | .cont => true
  | _ => false

/-- `sys.isdtime()` (non-strict: `dt = None` counts as discrete, too). -/
def isDtime : Dt → Bool
  | .cont => false
  | _ => true

variable {K : Type} [Field K] [LinearOrder K]
variable {σ ι o : Type} [Fintype σ] [Fintype ι] [Fintype o]

namespace Pole
/-- `|p|²`. -/
def absSq (p : Pole K) : K := p.re * p.re + p.im * p.im
end Pole

/-- `any(np.isclose(poles.real, 0.0))`, exact. -/
def onAxis (poles : List (Pole K)) : Bool := poles.any fun p => decide (p.re = 0)
/-- `any(poles.real > 0.0)`. -/
def inRhp (poles : List (Pole K)) : Bool := poles.any fun p => decide (0 < p.re)
/-- `any(np.isclose(abs(poles), 1.0))`, exact. -/
def onCircle (poles : List (Pole K)) : Bool := poles.any fun p => decide (p.absSq = 1)
/-- `any(abs(poles) > 1.0)`. -/
def outsideDisc (poles : List (Pole K)) : Bool := poles.any fun p => decide (1 < p.absSq)
/-- `any(np.isclose(la.eigvals(Ad), 0.0))`, exact. -/
def atOrigin (poles : List (Pole K)) : Bool :=
  poles.any fun p => decide (p.re = 0) && decide (p.im = 0)

/-- `any(D.flat != 0)`. -/
def hasDirect (D : Matrix o ι K) : Bool := decide (∃ ij : o × ι, D ij.1 ij.2 ≠ 0)

/-- the external routines of the H2 computation. -/
structure H2Ext (σ : Type) (K : Type) where
  /-- `ct.lyap(A, Q)` -/
  lyap : Matrix σ σ K → Matrix σ σ K → Matrix σ σ K
  /-- `ct.dlyap(A, Q)` -/
  dlyap : Matrix σ σ K → Matrix σ σ K → Matrix σ σ K
  /-- `any(la.eigvals(P).real < 0.0)` -/
  negEig : Matrix σ σ K → Bool

/-- tail of both H2 branches: eigenvalue precaution, NaN test, value. -/
def h2tail (negEig : Matrix σ σ K → Bool) (P : Matrix σ σ K) (q : K) : Except Err (H2Val K) :=
  if negEig P then .ok .inf
  else if q < 0 then .error .badArg      -- sqrt of a negative number is NaN: ControlArgument
  else .ok (.sqrt q)

/-- continuous-time H2 branch. -/
def h2cont (E : H2Ext σ K) (G : SS σ ι o K) (poles : List (Pole K)) : Except Err (H2Val K) :=
  if onAxis poles then .ok .inf
  else if inRhp poles then .ok .inf
  else if hasDirect G.D then .ok .inf
  else
    let P := E.lyap G.A (G.B * G.Bᵀ)
    h2tail E.negEig P (trace (G.C * P * G.Cᵀ))

/-- discrete-time H2 branch. -/
def h2disc (E : H2Ext σ K) (G : SS σ ι o K) (poles : List (Pole K)) : Except Err (H2Val K) :=
  if onCircle poles then .ok .inf
  else if outsideDisc poles then .ok .inf
  else
    let P := E.dlyap G.A (G.B * G.Bᵀ)
    h2tail E.negEig P (trace (G.C * P * G.Cᵀ + G.D * G.Dᵀ))

/-- `system_norm(G, 2)`. -/
def h2 (E : H2Ext σ K) (dt : Dt) (G : SS σ ι o K) (poles : List (Pole K)) :
    Except Err (H2Val K) :=
  if isCtime dt then h2cont E G poles else h2disc E G poles

/-! ### L∞ -/

variable [DecidableEq σ] [DecidableEq ι] [DecidableEq o]

/-- the inverse bilinear (Tustin, `T = 2`... as coded) map, given `Ai = (Ad + I)⁻¹`:
`A = 2 (Ad − I) Ai`, `B = 2 Ai Bd`, `C = 2 Cd Ai`, `D = Dd − Cd Ai Bd`. -/
def invBilinear (G : SS σ ι o K) (Ai : Matrix σ σ K) : SS σ ι o K where
  A := (2 : K) • ((G.A - 1) * Ai)
  B := (2 : K) • (Ai * G.B)
  C := (2 : K) • (G.C * Ai)
  D := G.D - G.C * Ai * G.B

/-- `R = I_m γ² − DᵀD`. -/
def Rmat (G : SS σ ι o K) (γ : K) : Matrix ι ι K := (γ ^ 2) • (1 : Matrix ι ι K) - G.Dᵀ * G.D

/-- `_Hamilton_matrix(gamma)` given `Ri = R⁻¹`. -/
def hamiltonian (G : SS σ ι o K) (Ri : Matrix ι ι K) : Matrix (σ ⊕ σ) (σ ⊕ σ) K :=
  let F := G.A + G.B * Ri * G.Dᵀ * G.C
  fromBlocks F (G.B * Ri * G.Bᵀ)
    (-(G.Cᵀ * ((1 : Matrix o o K) + G.D * Ri * G.Dᵀ) * G.C)) (-Fᵀ)

/-- `any(np.isclose(la.eigvals(_Hamilton_matrix(γ)).real, 0.0))`.  `inv` is `la.inv` (`none` =
`LinAlgError` on a singular `R`), `imagEig` the external eigenvalue test. -/
def eigTest (inv : Matrix ι ι K → Option (Matrix ι ι K))
    (imagEig : Matrix (σ ⊕ σ) (σ ⊕ σ) K → Bool) (G : SS σ ι o K) (γ : K) : Except Err Bool :=
  match inv (Rmat G γ) with
  | none => .error .illPosed
  | some Ri => .ok (imagEig (hamiltonian G Ri))

/-- `while test(gamu): gamu *= 2.0`; `none` = out of fuel. -/
def upperLoop (test : K → Except Err Bool) : Nat → K → Except Err (Option K)
  | 0, _ => .ok none
  | f + 1, u =>
    match test u with
    | .error e => .error e
    | .ok true => upperLoop test f (2 * u)
    | .ok false => .ok (some u)

/-- the bisection loop; the state is (`gam` if already assigned, `gaml`, `gamu`).  `none` = out of
fuel.  Leaving the loop without ever having assigned `gam` is Python's `UnboundLocalError`. -/
def bisectLoop (test : K → Except Err Bool) (tol : K) :
    Nat → Option K → K → K → Except Err (Option (K × K × K))
  | 0, _, _, _ => .ok none
  | f + 1, g, l, u =>
    if tol < (u - l) / u then
      match test ((u + l) / 2) with
      | .error e => .error e
      | .ok true => bisectLoop test tol f (some ((u + l) / 2)) ((u + l) / 2) u
      | .ok false => bisectLoop test tol f (some ((u + l) / 2)) l ((u + l) / 2)
    else
      match g with
      | none => .error .badArg
      | some gam => .ok (some (gam, l, u))

/-- the two loops of the continuous-time computation, from `gaml = ‖D‖₂`. -/
def linfLoops (test : K → Except Err Bool) (tol gaml : K) (fuel : Nat) :
    Except Err (LinfVal K) :=
  match upperLoop test fuel (max 1 (2 * gaml)) with
  | .error e => .error e
  | .ok none => .ok .diverged
  | .ok (some gamu) =>
    match bisectLoop test tol fuel none gaml gamu with
    | .error e => .error e
    | .ok none => .ok .diverged
    | .ok (some (gam, _, _)) => .ok (.val gam)

/-- the external routines of the L∞ computation. -/
structure LinfExt (σ ι o : Type) (K : Type) where
  /-- `la.norm(D, ord=2)` -/
  sigmaMax : Matrix o ι K → K
  /-- `la.inv(R)` (`none`: `LinAlgError`, singular matrix) -/
  inv : Matrix ι ι K → Option (Matrix ι ι K)
  /-- `la.inv(Ad + In)` -/
  invS : Matrix σ σ K → Option (Matrix σ σ K)
  /-- `any(np.isclose(la.eigvals(H).real, 0.0))` -/
  imagEig : Matrix (σ ⊕ σ) (σ ⊕ σ) K → Bool

/-- the continuous-time part (`_Hamilton_matrix`, bounds, loops). -/
def linfCont (E : LinfExt σ ι o K) (tol : K) (fuel : Nat) (G : SS σ ι o K) :
    Except Err (LinfVal K) :=
  linfLoops (eigTest E.inv E.imagEig G) tol (E.sigmaMax G.D) fuel

/-- `system_norm(G, 'inf')`. -/
def linf (E : LinfExt σ ι o K) (tol : K) (fuel : Nat) (dt : Dt) (G : SS σ ι o K)
    (poles : List (Pole K)) : Except Err (LinfVal K) :=
  if isDtime dt then
    if onCircle poles then .ok .inf
    else if atOrigin poles then .error .badArg
    else
      match E.invS (G.A + 1) with
      | none => .error .illPosed
      | some Ai => linfCont E tol fuel (invBilinear G Ai)
  else
    if onAxis poles then .ok .inf
    else linfCont E tol fuel G

end Norm

end CtrlVerif
