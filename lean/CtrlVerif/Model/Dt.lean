/-
Model of the timebase calculus: `common_timebase` (control/iosys.py) branch by branch.
Core Lean only.
-/
import CtrlVerif.Model.Err

namespace CtrlVerif

/-- the four kinds of timebase: `None`, `0`, `True`, `dt > 0`. -/
inductive Dt where
  | none
  | cont
  | dtrue
  | disc (h : Rat)
  deriving DecidableEq, Repr, Inhabited

/-- `numpy.isclose(a, b)` with the default `rtol = 1e-5`, `atol = 1e-8`, on rationals. -/
def close (a b : Rat) : Bool :=
  decide ((if a - b < 0 then b - a else a - b)
    ≤ (1 : Rat) / 100000000 + (1 : Rat) / 100000 * (if b < 0 then -b else b))

/-- numeric value of a non-`None`, non-`True` timebase. -/
def Dt.num : Dt → Rat
  | .disc h => h
  | _ => 0

/-- `common_timebase(dt1, dt2)`, following the code's branch order.  -/
def common (d1 d2 : Dt) : Except Err Dt :=
  match d1, d2 with
  | .none, d => .ok d
  | d, .none => .ok d
  | .dtrue, .dtrue => .ok .dtrue                       -- `True > 0`
  | .dtrue, .disc h => if 0 < h then .ok (.disc h) else .error .timebase
  | .dtrue, .cont => .error .timebase
  | .disc h, .dtrue => if 0 < h then .ok (.disc h) else .error .timebase
  | .cont, .dtrue => .error .timebase
  | a, b => if close a.num b.num then .ok a else .error .timebase

/-- a timebase the constructors accept (`dt >= 0`; `dt = 0` is `cont`). -/
def Dt.valid : Dt → Prop
  | .disc h => 0 < h
  | _ => True

instance : (d : Dt) → Decidable d.valid
  | .disc h => inferInstanceAs (Decidable (0 < h))
  | .none => isTrue trivial | .cont => isTrue trivial | .dtrue => isTrue trivial

/-- lift to results, for folding over expression trees. -/
def common' (a b : Except Err Dt) : Except Err Dt := do
  let x ← a
  let y ← b
  common x y

end CtrlVerif
