/-
Meaning of the NumPy / Python primitives that `harness/core/py2lean_eval.py` emits when it translates
the EVALUATION code of python-control into Lean (`Generated/Eval*.lean`): `TransferFunction.horner`,
`StateSpace.horner`, `StateSpace._has_zero_at`, the two `__call__` methods, `LTI._dcgain`,
`LTI.frequency_response` and the `freqresp` / `dcgain` wrappers.  Hand-written; together with the
translator (and `Model/PyMat.lean`, `Model/PyTF.lean`, `Model/PyArith.lean`, whose primitives are
reused) this file is the trusted base of the source-text tie of property C04
(notes/NOTES-py2lean-eval.md, DESIGN §10.3).

Value model.
* Python floats / complex numbers are EXACT elements of an arbitrary field `K`; what the code reads
  of the components of a complex number is a `Eval.Parts K` (a parameter `P` of every function).
* an IEEE complex VALUE is a `Eval.Cx K`: finite, or the component pattern `a/0 + (b/0) j` of a
  division by zero (`div0 reInf imInf`; `complex(np.inf, np.nan)` is `div0 true false`,
  `complex(np.nan, np.nan)` is `div0 false false`).  Division is IEEE division (`cdiv`:
  `x/0 = inf`, `0/0 = nan`, component by component); `*` and `+` are exact on finite operands, and
  UNSPECIFIED (`none`) as soon as an operand is not finite — the IEEE pattern of `inf * b + d` is
  not modelled.  An array entry is therefore an `Option (Cx K)`; `none` also stands for the
  uninitialised memory of `numpy.empty`.  Nothing that is returned may still be `none` if it is to
  equal the model (`Props/C04Gen*.lean` prove that every entry is written).
* a 3-D array `out[i, j, k]` is an `NArr`: three sizes and the entries (`none` outside the sizes);
  a 1-D array of points is a `List K`, of values a `List (Cx K)`, a boolean mask a `List Bool`.
  The argument `x` of `horner` / `__call__` is a scalar or a 1-D array (`XArg`); arrays of higher
  dimension are outside the modelled domain (`ndim` is constantly 1).
* NumPy broadcasting of two 3-D arrays is modelled exactly (`bdim`: sizes equal, or one of them 1).
* `slycot` is absent in the environment of the check: `StateSpace.slycot_laub` raises `ImportError`
  at its first statement (`from slycot import tb05ad`), carried by `Err.notImplemented`.
* `_process_frequency_response` only squeezes / reshapes (property C18): the identity on values.
* frequencies are rationals; `1j * omega` and `numpy.exp(1j * omega * dt)` are the two fields of the
  model's `Env` (NumPy's `exp` is a parameter of the model, DESIGN §3.3).

Only TYPES of the model are used (`Eval.Cx`, `Eval.IVal`, `Eval.Parts`, `LTI`, `Env`, `Dt`, `DSS`,
`DTF`) — none of its functions, except `polyval` of `Model/Poly.lean` (the exact counterpart of
`numpy.polyval`, as in the other translators).
-/
import CtrlVerif.Model.Eval
import CtrlVerif.Model.PyMat
import CtrlVerif.Model.PyTF

namespace CtrlVerif.PyEval

open CtrlVerif CtrlVerif.Eval

variable {K : Type} [Field K] [DecidableEq K]

/-! ## arguments and 1-D arrays -/

/-- the argument `x` of `horner` / `__call__`: a (complex) scalar or a 1-D array of points. -/
inductive XArg (K : Type) where
  | scalar (z : K)
  | arr (xs : List K)

/-- `np.atleast_1d(x).astype(complex, copy=False)` -/
def atleast1dComplex : XArg K → List K
  | .scalar z => [z]
  | .arr xs => xs

/-- `len(x_arr.shape)` of a 1-D array. -/
def ndim (_xs : List K) : Nat := 1

/-- `np.ones_like(x_arr, dtype=complex)` -/
def onesLike (xs : List K) : List K := xs.map fun _ => 1

/-- `x_arr - a` for a number `a`. -/
def subNum (xs : List K) (a : K) : List K := xs.map fun x => x - a

/-- `x_arr + a` for a number `a`. -/
def addNum (xs : List K) (a : K) : List K := xs.map fun x => x + a

/-- `x_arr == a` for a number `a` (a boolean mask). -/
def eqNum (xs : List K) (a : K) : List Bool := xs.map fun x => decide (x = a)

/-- `np.any(mask)` -/
def anyB (mask : List Bool) : Bool := mask.any id

/-- `numpy.polyval(c, x_arr)` -/
def polyvalArr (c : List K) (xs : List K) : List K := xs.map (polyval c)

/-- `enumerate(xs)` -/
def enumerate {α : Type} (xs : List α) : List (Nat × α) := (List.range xs.length).zip xs

/-! ## IEEE values -/

/-- `complex(a, b)` for `a, b ∈ {np.inf, np.nan}`: which components are infinite. -/
def cplx (reInf imInf : Bool) : Cx K := .div0 reInf imInf

/-- complex IEEE division `n / d` as NumPy computes it: exact for `d ≠ 0`; `re n / 0 + (im n / 0) j`
for `d = 0`, a component being `±inf` when the numerator's component is not zero and `nan` when it
is. -/
def cdiv (P : Parts K) (n d : K) : Cx K :=
  if d = 0 then .div0 (!P.reZero n) (!P.isReal n) else .fin (n / d)

/-- `a / b` for two 1-D arrays of the same length (another length: `ValueError`). -/
def cdivArr (P : Parts K) (a b : List K) : Except Err (List (Cx K)) :=
  if a.length = b.length then .ok (List.zipWith (cdiv P) a b) else .error .shape

/-- `*` on array entries: exact on finite operands, unspecified otherwise. -/
def vmul : Option (Cx K) → Option (Cx K) → Option (Cx K)
  | some (.fin a), some (.fin b) => some (.fin (a * b))
  | _, _ => none

/-- `+` on array entries. -/
def vadd : Option (Cx K) → Option (Cx K) → Option (Cx K)
  | some (.fin a), some (.fin b) => some (.fin (a + b))
  | _, _ => none

/-- `/` on array entries: IEEE division of finite operands, unspecified otherwise. -/
def vdiv (P : Parts K) : Option (Cx K) → Option (Cx K) → Option (Cx K)
  | some (.fin a), some (.fin b) => some (cdiv P a b)
  | _, _ => none

/-! ## 3-D arrays -/

/-- a 3-D array with entries in `α`: the sizes and the entries, `none` = unspecified (and outside
the sizes). -/
structure NArr (α : Type) where
  p : Nat
  m : Nat
  n : Nat
  get : Nat → Nat → Nat → Option α

/-- a 3-D complex array. -/
abbrev Arr3 (K : Type) := NArr (Cx K)

/-- the array with the given entries. -/
def NArr.ofFn {α : Type} (p m n : Nat) (f : Fin p → Fin m → Fin n → α) : NArr α :=
  ⟨p, m, n, fun i j k => if h : i < p ∧ j < m ∧ k < n then some (f ⟨i, h.1⟩ ⟨j, h.2.1⟩ ⟨k, h.2.2⟩)
    else none⟩

/-- `numpy.empty((p, m, n), dtype=complex)`: every entry unspecified. -/
def empty3 (p m n : Nat) : Arr3 K := ⟨p, m, n, fun _ _ _ => none⟩

/-- `X[:, :, np.newaxis]` for a 2-D array `X`: shape `(r, c, 1)`. -/
def Arr3.ofMat (X : PMat K) : Arr3 K := NArr.ofFn X.r X.c 1 fun i j _ => .fin (X.M i j)

/-- a 1-D array of numbers as an operand of an operator with a 3-D array (NumPy aligns the
trailing dimensions): shape `(1, 1, len)`. -/
def Arr3.ofVec (xs : List K) : Arr3 K := NArr.ofFn 1 1 xs.length fun _ _ k => .fin (xs.get k)

/-- the size of a broadcast dimension (`ValueError` unless equal or one of them 1). -/
def bdim (a b : Nat) : Except Err Nat :=
  if a = b then .ok a else if a = 1 then .ok b else if b = 1 then .ok a else .error .shape

/-- the position read in a dimension of size `d` for the position `k` of the broadcast result. -/
def bidx (d k : Nat) : Nat := if d = 1 then 0 else k

/-- an element-wise binary operator on two 3-D arrays with NumPy broadcasting. -/
def Arr3.zipWith (f : Option (Cx K) → Option (Cx K) → Option (Cx K)) (a b : Arr3 K) :
    Except Err (Arr3 K) := do
  let p ← bdim a.p b.p
  let m ← bdim a.m b.m
  let n ← bdim a.n b.n
  pure ⟨p, m, n, fun i j k =>
    if i < p ∧ j < m ∧ k < n then
      f (a.get (bidx a.p i) (bidx a.m j) (bidx a.n k)) (b.get (bidx b.p i) (bidx b.m j) (bidx b.n k))
    else none⟩

/-- `a * b` -/
def Arr3.mul (a b : Arr3 K) : Except Err (Arr3 K) := Arr3.zipWith vmul a b
/-- `a + b` -/
def Arr3.add (a b : Arr3 K) : Except Err (Arr3 K) := Arr3.zipWith vadd a b
/-- `a / b` (under `np.errstate(divide='ignore', invalid='ignore')`: IEEE results, no exception) -/
def Arr3.div (P : Parts K) (a b : Arr3 K) : Except Err (Arr3 K) := Arr3.zipWith (vdiv P) a b

/-- `out[i][j] = v` / `out[i, j] = v` for a 1-D array `v` of values (`IndexError` for an index out of
range, `ValueError` unless `len(v)` is the third size). -/
def Arr3.setRow (a : Arr3 K) (i j : Int) (v : List (Cx K)) : Except Err (Arr3 K) :=
  match PyArith.normIdx a.p i, PyArith.normIdx a.m j with
  | .ok r, .ok c =>
    if v.length = a.n then
      .ok ⟨a.p, a.m, a.n, fun r' c' k => if r' = r ∧ c' = c then v[k]? else a.get r' c' k⟩
    else .error .shape
  | .error e, _ => .error e
  | _, .error e => .error e

/-- `out[:, :, k] = V` for a 2-D array `V` of numbers (`IndexError` for `k` out of range,
`ValueError` unless `V` has the first two sizes). -/
def Arr3.setSlab (a : Arr3 K) (k : Int) (V : PMat K) : Except Err (Arr3 K) :=
  match PyArith.normIdx a.n k with
  | .ok k' =>
    if h : V.r = a.p ∧ V.c = a.m then
      .ok ⟨a.p, a.m, a.n, fun i j k'' =>
        if k'' = k' then (if h' : i < V.r ∧ j < V.c then some (.fin (V.M ⟨i, h'.1⟩ ⟨j, h'.2⟩)) else none)
        else a.get i j k''⟩
    else .error .shape
  | .error e => .error e

/-- `out[:, :, k] = v` for one value `v`. -/
def Arr3.setSlabConst (a : Arr3 K) (k : Int) (v : Cx K) : Except Err (Arr3 K) :=
  match PyArith.normIdx a.n k with
  | .ok k' =>
    .ok ⟨a.p, a.m, a.n, fun i j k'' =>
      if k'' = k' then (if i < a.p ∧ j < a.m then some v else none) else a.get i j k''⟩
  | .error e => .error e

/-- `out[:, :, mask] = v` for a boolean mask over the third dimension (`IndexError` unless the mask
has the third size). -/
def Arr3.setMask (a : Arr3 K) (mask : List Bool) (v : Cx K) : Except Err (Arr3 K) :=
  if mask.length = a.n then
    .ok ⟨a.p, a.m, a.n, fun i j k =>
      if mask[k]? = some true then (if i < a.p ∧ j < a.m then some v else none) else a.get i j k⟩
  else .error .indexRange

/-- `X[i, j]` for a 2-D array and Python ints (`IndexError` out of range). -/
def matItem (X : PMat K) (i j : Int) : Except Err K :=
  match PyArith.normIdx X.r i, PyArith.normIdx X.c j with
  | .ok r, .ok c => if h : r < X.r ∧ c < X.c then .ok (X.M ⟨r, h.1⟩ ⟨c, h.2⟩) else .error .indexRange
  | .error e, _ => .error e
  | _, .error e => .error e

/-! ## Slycot, exceptions, `_process_frequency_response` -/

/-- `StateSpace.slycot_laub(x_arr)` in an environment without Slycot: `from slycot import tb05ad`
raises `ImportError` (carried by `Err.notImplemented`). -/
def slycotLaub (_self : DSS K) (_xs : List K) : Except Err (Arr3 K) := .error .notImplemented

/-- is the exception an `ImportError`?  (the only source in the translated functions is
`slycotLaub`). -/
def isImportError : Err → Bool
  | .notImplemented => true
  | _ => false

/-- `_process_frequency_response(sys, x, out, squeeze=…)`: squeezing / reshaping only (C18). -/
def processFrequencyResponse (out : Arr3 K) (_squeeze : Option Bool) : Arr3 K := out

/-! ## `_dcgain`: the real / complex post-processing -/

/-- `np.isreal(z)` entry by entry: the imaginary component is `0` (never for a non-finite value
with the patterns above: their imaginary component is `±inf` or `nan`). -/
def isreal (P : Parts K) (a : Arr3 K) : NArr Bool :=
  ⟨a.p, a.m, a.n, fun i j k => (a.get i j k).map fun
    | .fin z => P.isReal z
    | .div0 _ _ => false⟩

/-- `np.isnan(z.imag)` entry by entry. -/
def isnanImag (a : Arr3 K) : NArr Bool :=
  ⟨a.p, a.m, a.n, fun i j k => (a.get i j k).map fun
    | .fin _ => false
    | .div0 _ imInf => !imInf⟩

/-- `np.logical_or(a, b)` for two boolean arrays of the same shape. -/
def logicalOr (a b : NArr Bool) : Except Err (NArr Bool) :=
  if a.p = b.p ∧ a.m = b.m ∧ a.n = b.n then
    .ok ⟨a.p, a.m, a.n, fun i j k =>
      match a.get i j k, b.get i j k with
      | some x, some y => some (x || y)
      | _, _ => none⟩
  else .error .shape

/-- `np.all(a)`: unspecified entries inside the shape have no truth value (`badArg`). -/
def allB (a : NArr Bool) : Except Err Bool :=
  if (List.range a.p).all fun i => (List.range a.m).all fun j => (List.range a.n).all fun k =>
      (a.get i j k).isSome
  then .ok ((List.range a.p).all fun i => (List.range a.m).all fun j => (List.range a.n).all fun k =>
      a.get i j k == some true)
  else .error .badArg

/-- `z.real` entry by entry, as an IEEE real: finite, `±inf` or `nan`. -/
def realPart (P : Parts K) (a : Arr3 K) : NArr (IVal K) :=
  ⟨a.p, a.m, a.n, fun i j k => (a.get i j k).map fun
    | .fin z => .fin (P.re z)
    | .div0 reInf _ => if reInf then .inf else .nan⟩

/-- what `_dcgain` returns: a real array or a complex array. -/
inductive DcRes (K : Type) where
  | real (a : NArr (IVal K))
  | cplx (a : Arr3 K)

/-! ## `frequency_response` -/

/-- `np.sort(np.array(omega, ndmin=1))` for a list of (real) frequencies. -/
def npSort (omega : List ℚ) : List ℚ := omega.mergeSort fun a b => decide (a ≤ b)

/-- a timebase as a factor of a product with an array: `True` is `1`, `None` is a `TypeError`. -/
def dtNum : Dt → Except Err ℚ
  | .none => .error .badArg
  | .cont => .ok 0
  | .dtrue => .ok 1
  | .disc h => .ok h

/-- `1j * omega` -/
def jwArr (E : Env K) (omega : List ℚ) : List K := omega.map E.jw

/-- `np.exp(1j * omega * h)` -/
def expjArr (E : Env K) (h : ℚ) (omega : List ℚ) : List K := omega.map (E.expj h)

/-- what is kept of the returned `FrequencyResponseData` object: the frequency grid, the response
data and the timebase (names, labels and the plot type are not modelled). -/
structure FResp (K : Type) where
  omega : List ℚ
  data : Arr3 K
  dt : Dt

/-- `FrequencyResponseData(response, omega, …, dt=dt, …)`: the third size of the data must be the
number of frequencies (`ValueError`). -/
def mkFRD (response : Arr3 K) (omega : List ℚ) (dt : Dt) : Except Err (FResp K) :=
  if response.n = omega.length then .ok ⟨omega, response, dt⟩ else .error .shape

end CtrlVerif.PyEval
