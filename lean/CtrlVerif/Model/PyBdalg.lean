/-
TRUSTED primitive layer of the translator `harness/core/py2lean_bdalgfn.py` (tag py2lean-bdalgfn):
the Python objects the functional wrappers of `control/bdalg.py` (`feedback`, `negate`, `series`,
`parallel`, `append`) handle, and what the operations they use do to them.  The wrappers
themselves are NOT here: `Generated/BdalgFn*.lean` is rewritten from their source text on every run.

What is fixed here by hand (the reading of Python the tie trusts):
* the objects: a Python / NumPy number (with the classes it is an instance of), a 2-D `ndarray`, a
  `TransferFunction` (the model's `DTF K`), and - outside C01, opaque - `StateSpace`,
  `FrequencyResponseData`, anything else;
* `isinstance` against the classes named in `bdalg.py`;
* method / operator dispatch on these objects: `a.feedback(other, sign, **kw)` (an `AttributeError` for
  a number / array, a `TypeError` when naming keywords reach `TransferFunction.feedback(self, other=1,
  sign=-1)` - the translator pins that signature -, otherwise the model's method with the method's own
  defaults), `y * x`, `x + y`, `-x`, `a.append(b)` as Python dispatches them
  (`__mul__` of a system on the left, else `__rmul__` of the system on the right, ...);
* `update_names(**kw)` and `deepcopy` leave the VALUE unchanged (naming is outside C01);
  `a is b` is not a function of values: it is read from the oracle `World.sameObj`;
* which of the model's errors Python raises as a `TypeError` is not fixed either: oracle
  `World.errIsTypeError` (the equality theorems hold for every oracle);
* `try: return E  except (classes): ...`, indexing / slicing of the argument tuple, `reduce`.
-/
import CtrlVerif.Model.TFCall

namespace CtrlVerif.PyBdalg

open CtrlVerif

/-- the classes a number can be an instance of -/
inductive NumKind where
  | pyInt | pyFloat | pyComplex | npFloat64 | npComplex128 | npOther
  deriving DecidableEq, Repr

/-- the class names `bdalg.py` uses in `isinstance` -/
inductive Cls where
  | int | float | complex | npNumber | ndarray | InputOutputSystem
  | TransferFunction | StateSpace | FrequencyResponseData | LTI | other
  deriving DecidableEq, Repr

/-- Python exceptions (`err e`: whatever the model's operator raises; `outside s`: the computation
left C01 - state-space / FRD arithmetic, plain number arithmetic -, `s` says where). -/
inductive Exc where
  | attributeError | typeError | indexError | valueError
  | err (e : Err)
  | outside (s : String)
  | untranslated
  deriving DecidableEq, Repr

/-- exception classes of an `except` clause -/
inductive ExcCls where
  | AttributeError | TypeError | IndexError | ValueError | Exception | other
  deriving DecidableEq, Repr

/-- what values do not determine -/
structure World where
  sameObj : Bool
  errIsTypeError : Err → Bool

/-- naming keywords (`name=`, `inputs=`, ...): keyword and an opaque value -/
abbrev Kw := List (String × String)

variable {K : Type}

/-- Python objects -/
inductive Val (K : Type) where
  | num (k : NumKind) (c : K)
  | arr (p m : Nat) (D : Fin p → Fin m → K)
  | tf (G : DTF K)
  | ss (tag : Nat)
  | frd (tag : Nat)
  | other

/-- an operand of the model as a Python object (`k`: the class of a scalar) -/
def Val.ofOp (k : NumKind) : Operand K → Val K
  | .sys G => .tf G
  | .scalar c => .num k c
  | .array p m D => .arr p m D

/-- `Except Err (DTF K)` of the model as a Python outcome -/
def liftR : Except Err (DTF K) → Except Exc (Val K)
  | .ok G => .ok (.tf G)
  | .error e => .error (.err e)

def NumKind.isinstance : NumKind → Cls → Bool
  | .pyInt, .int => true
  | .pyFloat, .float => true
  | .pyComplex, .complex => true
  | .npFloat64, .float => true
  | .npFloat64, .npNumber => true
  | .npComplex128, .complex => true
  | .npComplex128, .npNumber => true
  | .npOther, .npNumber => true
  | _, _ => false

def Val.isinstance1 : Val K → Cls → Bool
  | .num k _, c => k.isinstance c
  | .arr .., c => c == .ndarray
  | .tf _, c => c == .TransferFunction || c == .LTI || c == .InputOutputSystem
  | .ss _, c => c == .StateSpace || c == .LTI || c == .InputOutputSystem
  | .frd _, c => c == .FrequencyResponseData || c == .LTI || c == .InputOutputSystem
  | .other, _ => false

/-- `isinstance(v, (c1, ..., cn))` -/
def isinstance (v : Val K) (cs : List Cls) : Bool := cs.any v.isinstance1

/-- does `except (cs)` catch `e`? -/
def excMatches (w : World) (e : Exc) (cs : List ExcCls) : Bool :=
  cs.any fun c =>
    match c, e with
    | .AttributeError, .attributeError => true
    | .TypeError, .typeError => true
    | .TypeError, .err e => w.errIsTypeError e
    | .IndexError, .indexError => true
    | .ValueError, .valueError => true
    | .Exception, .untranslated => false
    | .Exception, _ => true
    | _, _ => false

/-- `a is b` -/
def isObj (w : World) (_a _b : Val K) : Bool := w.sameObj

/-- `deepcopy(x)` -/
def deepcopy (x : Val K) : Val K := x

/-- `bool(kwargs)` -/
def kwTruthy (kw : Kw) : Bool := !kw.isEmpty

variable [Field K] [DecidableEq K]

/-- the argument of a method of `TransferFunction` as the model's operand -/
def Val.toOperand : Val K → Except Exc (Operand K)
  | .num _ c => .ok (.scalar c)
  | .arr p m D => .ok (.array p m D)
  | .tf G => .ok (.sys G)
  | .ss _ => .error (.outside "TransferFunction method with a StateSpace operand")
  | .frd _ => .error (.outside "TransferFunction method with an FRD operand")
  | .other => .error .typeError

/-- `self.feedback(other, sign, **kw)` with the method's own defaults `other=1, sign=-1` -/
def Val.feedbackM (self : Val K) (other : Option (Val K)) (sign : Option K) (kw : Kw) :
    Except Exc (Val K) :=
  match self with
  | .num .. => .error .attributeError
  | .arr .. => .error .attributeError
  | .other => .error .attributeError
  | .ss _ => .error (.outside "StateSpace.feedback")
  | .frd _ => .error (.outside "FrequencyResponseData.feedback")
  | .tf G =>
    if !kw.isEmpty then .error .typeError else
    match (other.getD (.num .pyInt 1)).toOperand with
    | .error e => .error e
    | .ok b => liftR (G.feedback b (sign.getD (-1)))

/-- `self.update_names(**kw)`: renames, the value stays -/
def Val.updateNames (self : Val K) (_kw : Kw) : Except Exc Unit :=
  match self with
  | .tf _ => .ok ()
  | .ss _ => .ok ()
  | .frd _ => .ok ()
  | _ => .error .attributeError

/-- `y * x` -/
def Val.mul (y x : Val K) : Except Exc (Val K) :=
  match y, x with
  | .tf H, x => match x.toOperand with
    | .ok o => liftR (H.mul o)
    | .error e => .error e
  | .num _ c, .tf G => liftR (G.rmul (.scalar c))
  | .arr p m D, .tf G => liftR (G.rmul (.array p m D))
  | .other, .tf _ => .error .typeError
  | _, _ => .error (.outside "a product without a TransferFunction factor on a side C01 models")

/-- `x + y` -/
def Val.add (x y : Val K) : Except Exc (Val K) :=
  match x, y with
  | .tf G, y => match y.toOperand with
    | .ok o => liftR (G.add o)
    | .error e => .error e
  | .num _ c, .tf G => liftR (G.add (.scalar c))
  | .arr p m D, .tf G => liftR (G.add (.array p m D))
  | .other, .tf _ => .error .typeError
  | _, _ => .error (.outside "a sum without a TransferFunction term on a side C01 models")

/-- `-x` -/
def Val.neg : Val K → Except Exc (Val K)
  | .tf G => liftR G.neg
  | .other => .error .typeError
  | _ => .error (.outside "negation of a number / StateSpace / FRD")

/-- `tf._convert_to_transfer_function(x)` (no shape requested) -/
def convertToTF : Val K → Except Exc (Val K)
  | .num _ c => .ok (.tf (DTF.ofScalar c 1 1))
  | .arr p m D => .ok (.tf (DTF.ofArray p m D))
  | .tf G => .ok (.tf G)
  | .ss _ => .error (.outside "_convert_to_transfer_function(StateSpace)")
  | .frd _ => .error .typeError
  | .other => .error .typeError

/-- `a.append(b)` -/
def Val.appendM (a b : Val K) : Except Exc (Val K) :=
  match a with
  | .tf G => match convertToTF b with
    | .ok (.tf H) => liftR (G.append H)
    | .ok _ => .error .typeError
    | .error e => .error e
  | .ss _ => .error (.outside "StateSpace.append")
  | .frd _ => .error (.outside "FrequencyResponseData.append")
  | _ => .error .attributeError

/-- `x.omega` -/
def Val.omega : Val K → Except Exc (Val K)
  | .frd t => .ok (.frd t)
  | _ => .error .attributeError

/-- `frd._convert_to_frd(x, omega)`: leaves C01 -/
def convertToFRD (_x _omega : Val K) : Except Exc (Val K) := .ok (.frd 0)

/-- `ss._convert_to_statespace(x)`: leaves C01 -/
def convertToSS (_x : Val K) : Except Exc (Val K) := .ok (.ss 0)

/-- normalised index into a sequence of length `n` -/
def normIdx (n : Nat) (i : Int) : Int := if i < 0 then i + n else i

/-- `xs[i]` -/
def item (xs : List (Val K)) (i : Int) : Except Exc (Val K) :=
  let j := normIdx xs.length i
  if j < 0 then .error .indexError else
  match xs[j.toNat]? with
  | some v => .ok v
  | none => .error .indexError

/-- `xs[lo:hi]` (step 1) -/
def slice (xs : List (Val K)) (lo hi : Option Int) : List (Val K) :=
  let n := xs.length
  let clamp (i : Int) : Nat := (max 0 (min (normIdx n i) n)).toNat
  let a := match lo with | some i => clamp i | none => 0
  let b := match hi with | some i => clamp i | none => n
  (xs.take b).drop a

end CtrlVerif.PyBdalg
