/-
Meaning of the NumPy / Python primitives that `harness/core/py2lean_frd.py` emits when it translates
the arithmetic METHODS of `class FrequencyResponseData` (control/frdata.py: `__neg__ __add__ __radd__
__sub__ __rsub__ __mul__ __rmul__ __truediv__ __rtruediv__ __pow__ feedback append __getitem__ eval`)
and the function `_convert_to_frd` into Lean (`Generated/FRD*.lean`).  Hand-written; together with the
translator (and `Model/PyMat.lean`, whose 2-D arrays are re-used for the slices `frdata[:, :, k]`) this
file is the trusted base of the source-text tie of property C09 (notes/NOTES-py2lean-frd.md).

* `PArr3 K` — an UNTYPED 3-D NumPy array of shape `(p, m, n)` in the layout of `frdata`: for every
  index `k` of the LAST axis the `p × m` matrix `A[:, :, k]`.  `np.moveaxis(A, 2, 0)` (the "stack of
  matrices" view used by `feedback`) has the same representation; the translator keeps track of
  which view a value is and emits the `PStk.*` operations (`@`, `-`, `inv` act on the matrices of the
  stack, a stack of length 1 is broadcast as NumPy does) for that view.
  Every operation whose operands must fit checks at run time and is an error otherwise.
* `FVec` — a 1-D array of real numbers (`omega`: rationals, like the model), `PBVec` a 1-D array of
  booleans, `PKVec K` a 1-D array over the field.
* floats / complex numbers are an arbitrary field `K` with EXACT arithmetic (DESIGN §3.1): a division
  by an exact zero is an error `zeroDen` (NumPy: `inf` / `nan` and a warning), `numpy.linalg.inv` of a
  stack raises (`illPosed`, NumPy: `LinAlgError`) iff some matrix of the stack has determinant zero,
  otherwise it is `det⁻¹ • adjugate`.  `dtype=` arguments are ignored, `empty(shape)` is `zeros(shape)`
  (no generated function reads an entry before writing it on a returning path: consequence of the
  equality theorems).
* a `FrequencyResponseData` object is a `PyFRD K`: the number of grid points, the model's record
  `DFRD K n` (shape, `omega`, `frdata[:, :, k]`, whether `_ifunc is not None`) and the timebase, which
  the C09 model itself does not carry.  `PyFRD.ctor` is the constructor call `FRD(frdata, omega, dt=…,
  smooth=…)`: `TypeError` unless `len(omega) == frdata.shape[-1]`; with `smooth=True` a `ValueError`
  for fewer than two frequencies (the spline itself is external: `smooth` is only a flag).
* the other operand of an operator is a `PyOpd K`: an FRD object, a Python / NumPy number, a 2-D
  `ndarray`, or a TransferFunction / StateSpace (`LTI K` of the model).  Calling an LTI system on a
  vector of points (`sys(1j * omega)`) is the primitive `PyLTI.call` WITH THE MODEL'S MEANING
  (`LTI.valueAt`, error `zeroDen` at a pole `LTI.singularAt`); `1j * omega` and
  `np.exp(1j * omega * dt)` are the parameters `Env.jw` / `Env.expj` of the model; `-sys` is
  `LTI.neg`.  The result of `sys(x)` is always taken in its 3-D form (for a SISO system NumPy returns
  a 1-D array that the code re-expands).
* `common_timebase` is `CtrlVerif.common` (tied to its own source by `C05Gen`), `sys.isctime()` is
  `dt ∈ {0, None}` (`C05Pred`).

Only TYPES of the model (`DFRD FRD LTI Env Dt Err`), `common`, and for LTI operands `LTI.valueAt
singularAt neg p m dt` are used — none of the model's FRD operators.
-/
import CtrlVerif.Model.PyMat
import CtrlVerif.Model.FRDDyn

namespace CtrlVerif

open Matrix

/-- a 1-D array of reals. -/
structure FVec where
  n : Nat
  v : Fin n → ℚ

/-- a 1-D array of booleans. -/
structure PBVec where
  n : Nat
  v : Fin n → Bool

/-- a 1-D array over the field. -/
structure PKVec (K : Type) where
  n : Nat
  v : Fin n → K

/-- an untyped 3-D array of shape `(p, m, n)`: `d k` is `A[:, :, k]`. -/
structure PArr3 (K : Type) where
  p : Nat
  m : Nat
  n : Nat
  d : Fin n → Matrix (Fin p) (Fin m) K

namespace PBVec

/-- `b.all()` -/
def all (b : PBVec) : Bool := decide (∀ k, b.v k = true)

/-- `b.any()` / `any(b)` -/
def any (b : PBVec) : Bool := decide (∃ k, b.v k = true)

/-- `np.flatnonzero(b)`: the indices of the true entries, ascending. -/
def flatnonzero (b : PBVec) : List Nat := ((List.finRange b.n).filter fun k => b.v k).map Fin.val

end PBVec

namespace FVec

/-- a Python list of reals as a 1-D array. -/
def ofList (l : List ℚ) : FVec := ⟨l.length, fun k => l[k]⟩

/-- iteration over a 1-D array. -/
def toList (a : FVec) : List ℚ := List.ofFn a.v

/-- `np.array(x, ndmin=1)` of a 1-D array. -/
def array1 (a : FVec) : FVec := a

/-- `a - b` for two 1-D arrays of the same length (other lengths: error). -/
def sub (a b : FVec) : Except Err FVec :=
  if h : b.n = a.n then .ok ⟨a.n, fun k => a.v k - b.v (Fin.cast h.symm k)⟩ else .error .shape

/-- `abs(a)` -/
def abs (a : FVec) : FVec := ⟨a.n, fun k => |a.v k|⟩

/-- `a < c` -/
def ltNum (a : FVec) (c : ℚ) : PBVec := ⟨a.n, fun k => decide (a.v k < c)⟩

/-- `a > c` -/
def gtNum (a : FVec) (c : ℚ) : PBVec := ⟨a.n, fun k => decide (a.v k > c)⟩

/-- `a == c` -/
def eqNum (a : FVec) (c : ℚ) : PBVec := ⟨a.n, fun k => decide (a.v k = c)⟩

/-- `a.imag` of a real array. -/
def imag (a : FVec) : FVec := ⟨a.n, fun _ => 0⟩

/-- `np.sort(a)`. -/
def sort (a : FVec) : FVec := ofList ((List.ofFn a.v).mergeSort fun x y => decide (x ≤ y))

variable {K : Type}

/-- `1j * omega` -/
def jw (E : Env K) (a : FVec) : PKVec K := ⟨a.n, fun k => E.jw (a.v k)⟩

/-- `np.exp(1j * omega * dt)` for the timebase attribute `dt` of a system: `True` counts as `1`,
`None` is a `TypeError`. -/
def expj (E : Env K) (a : FVec) : Dt → Except Err (PKVec K)
  | .none => .error .badArg
  | .cont => .ok ⟨a.n, fun k => E.expj 0 (a.v k)⟩
  | .dtrue => .ok ⟨a.n, fun k => E.expj 1 (a.v k)⟩
  | .disc h => .ok ⟨a.n, fun k => E.expj h (a.v k)⟩

end FVec

namespace PKVec

variable {K : Type} [Field K]

/-- `np.ones(n)` -/
def ones (n : Nat) : PKVec K := ⟨n, fun _ => 1⟩

end PKVec

namespace PMat

variable {K : Type} [Field K]

/-- `np.eye(r, c)`: ones on the main diagonal of an `r × c` array. -/
def eyeRect (r c : Nat) : PMat K := ⟨r, c, Matrix.of fun i j => if i.val = j.val then 1 else 0⟩

/-- `X[i, j]` for non-negative Python ints (`IndexError` out of range). -/
def get (X : PMat K) (i j : Nat) : Except Err K :=
  if h : i < X.r ∧ j < X.c then .ok (X.M ⟨i, h.1⟩ ⟨j, h.2⟩) else .error .indexRange

end PMat

namespace PArr3

variable {K : Type} [Field K]

/-- `np.zeros((p, m, n))` -/
def zeros (p m n : Nat) : PArr3 K := ⟨p, m, n, fun _ => 0⟩

/-- `np.empty((p, m, n))`: contents unspecified in NumPy; zeros here (see the header). -/
def empty (p m n : Nat) : PArr3 K := zeros p m n

/-- `np.ones((p, m, n))` -/
def ones (p m n : Nat) : PArr3 K := ⟨p, m, n, fun _ => Matrix.of fun _ _ => 1⟩

/-- `-A` -/
def neg (A : PArr3 K) : PArr3 K := ⟨A.p, A.m, A.n, fun k => -A.d k⟩

/-- `A * c` for a number `c`. -/
def mulNum (A : PArr3 K) (c : K) : PArr3 K :=
  ⟨A.p, A.m, A.n, fun k => Matrix.of fun i j => A.d k i j * c⟩

/-- `A + B` for two arrays of the same shape (other shapes: error). -/
def add (A B : PArr3 K) : Except Err (PArr3 K) :=
  if h : B.p = A.p ∧ B.m = A.m ∧ B.n = A.n then
    .ok ⟨A.p, A.m, A.n, fun k => A.d k + PMat.retype h.1 h.2.1 (B.d (Fin.cast h.2.2.symm k))⟩
  else .error .shape

/-- `M[:, :, np.newaxis]`: a 2-D array as a 3-D array with one point on the last axis. -/
def ofMat (M : PMat K) : PArr3 K := ⟨M.r, M.c, 1, fun _ => M.M⟩

/-- `A * v` for a 3-D array and a 1-D array: NumPy broadcasts along the LAST axis (`A.n = 1`: every
entry of `A[:, :, 0]` times `v[k]`; equal lengths: entry by entry; anything else: error). -/
def mulKVec (A : PArr3 K) (v : PKVec K) : Except Err (PArr3 K) :=
  if h1 : A.n = 1 then
    .ok ⟨A.p, A.m, v.n, fun k => Matrix.of fun i j => A.d ⟨0, by omega⟩ i j * v.v k⟩
  else if h : v.n = A.n then
    .ok ⟨A.p, A.m, A.n, fun k => Matrix.of fun i j => A.d k i j * v.v (Fin.cast h.symm k)⟩
  else .error .shape

variable [DecidableEq K]

/-- `A / B` where `B` has shape `(1, 1, n)` (the response of a SISO system): NumPy broadcasts over
the first two axes.  A zero divisor is an error.  Other shapes of `B` are not modelled (error). -/
def div (A B : PArr3 K) : Except Err (PArr3 K) :=
  if h : B.n = A.n ∧ B.p = 1 ∧ B.m = 1 then
    let b : Fin A.n → K := fun k => B.d (Fin.cast h.1.symm k) ⟨0, by omega⟩ ⟨0, by omega⟩
    if ∃ k, b k = 0 then .error .zeroDen
    else .ok ⟨A.p, A.m, A.n, fun k => Matrix.of fun i j => A.d k i j / b k⟩
  else .error .shape

/-- `c / A` for a number `c`: entry by entry; a zero entry of `A` is an error. -/
def rdivNum (c : K) (A : PArr3 K) : Except Err (PArr3 K) :=
  if ∃ k, ∃ ij : Fin A.p × Fin A.m, A.d k ij.1 ij.2 = 0 then .error .zeroDen
  else .ok ⟨A.p, A.m, A.n, fun k => Matrix.of fun i j => c / A.d k i j⟩

omit [DecidableEq K]

/-- `A[:, :, k]` for a non-negative Python int (`IndexError` out of range). -/
def getFreq (A : PArr3 K) (k : Nat) : Except Err (PMat K) :=
  if h : k < A.n then .ok ⟨A.p, A.m, A.d ⟨k, h⟩⟩ else .error .indexRange

/-- `A[:, :, k] = M` (the updated array); `M` must have the shape `(p, m)`. -/
def setFreq (A : PArr3 K) (k : Nat) (M : PMat K) : Except Err (PArr3 K) :=
  if h : k < A.n then
    if hs : M.r = A.p ∧ M.c = A.m then
      .ok ⟨A.p, A.m, A.n, Function.update A.d ⟨k, h⟩ (PMat.retype hs.1 hs.2 M.M)⟩
    else .error .shape
  else .error .indexRange

/-- `A[i, j, :] = c` for a number `c` (the updated array). -/
def setFiber (A : PArr3 K) (i j : Nat) (c : K) : Except Err (PArr3 K) :=
  if h : i < A.p ∧ j < A.m then
    .ok ⟨A.p, A.m, A.n, fun k => Matrix.of fun i' j' =>
      if i'.val = i ∧ j'.val = j then c else A.d k i' j'⟩
  else .error .indexRange

/-- `np.reshape(A, (p, m, -1))` of a 3-D array: the identity when the first two sizes are the
array's own and the `-1` can be inferred (`p * m ≠ 0`), otherwise an error (a genuine re-arrangement
of the entries is not modelled). -/
def reshape (A : PArr3 K) (p m : Nat) : Except Err (PArr3 K) :=
  if p = A.p ∧ m = A.m ∧ p * m ≠ 0 then .ok A else .error .shape

/-- the entry `A[i, j, k]` for indices that are in range wherever this is used (`0` otherwise). -/
def entry (A : PArr3 K) (i j k : Nat) : K :=
  if h : i < A.p ∧ j < A.m ∧ k < A.n then A.d ⟨k, h.2.2⟩ ⟨i, h.1⟩ ⟨j, h.2.1⟩ else 0

/-- `A[r0:r1, c0:c1, :] = B` (the updated array): `B` must have the shape of the slice. -/
def setBlock (A : PArr3 K) (r0 r1 c0 c1 : Option Int) (B : PArr3 K) : Except Err (PArr3 K) :=
  let a := PMat.sliceBound A.p 0 r0
  let b := PMat.sliceBound A.p A.p r1
  let c := PMat.sliceBound A.m 0 c0
  let d := PMat.sliceBound A.m A.m c1
  if B.p = b - a ∧ B.m = d - c ∧ B.n = A.n then
    .ok ⟨A.p, A.m, A.n, fun k => Matrix.of fun i j =>
      if a ≤ i.val ∧ i.val < b ∧ c ≤ j.val ∧ j.val < d then B.entry (i.val - a) (j.val - c) k.val
      else A.d k i j⟩
  else .error .shape

/-- `A[rows, :]` for a list of non-negative ints (`IndexError` out of range). -/
def takeRows (A : PArr3 K) (rows : List Nat) : Except Err (PArr3 K) :=
  if h : ∀ r ∈ rows, r < A.p then
    .ok ⟨rows.length, A.m, A.n, fun k => Matrix.of fun (i : Fin rows.length) j =>
      A.d k ⟨rows[i], h _ (List.getElem_mem _)⟩ j⟩
  else .error .indexRange

/-- `A[:, cols]` for a list of non-negative ints (`IndexError` out of range). -/
def takeCols (A : PArr3 K) (cols : List Nat) : Except Err (PArr3 K) :=
  if h : ∀ c ∈ cols, c < A.m then
    .ok ⟨A.p, cols.length, A.n, fun k => Matrix.of fun i (j : Fin cols.length) =>
      A.d k i ⟨cols[j], h _ (List.getElem_mem _)⟩⟩
  else .error .indexRange

/-- `A[:, :, idx]` for a list of non-negative ints (`IndexError` out of range). -/
def takeFreq (A : PArr3 K) (idx : List Nat) : Except Err (PArr3 K) :=
  if h : ∀ k ∈ idx, k < A.n then
    .ok ⟨A.p, A.m, idx.length, fun (k : Fin idx.length) => A.d ⟨idx[k], h _ (List.getElem_mem _)⟩⟩
  else .error .indexRange

/-- `np.moveaxis(A, 2, 0)`: the same data seen as a stack (first axis) of matrices. -/
def toStack (A : PArr3 K) : PArr3 K := A

/-- `np.moveaxis(S, 0, 2)`: a stack of matrices back in the `frdata` layout. -/
def ofStack (S : PArr3 K) : PArr3 K := S

end PArr3

/-! Operations on the "stack of matrices" view (`np.moveaxis(frdata, 2, 0)`, shape `(n, p, m)`):
NumPy's `@`, `-`, `inv` act on the last two axes and broadcast the first one. -/
namespace PStk

variable {K : Type} [Field K]

/-- length of the broadcast of two first axes. -/
def bcLen (a b : Nat) : Nat := if a = 1 then b else a

/-- two first axes can be broadcast: equal, or one of them is 1. -/
def bcOk (a b : Nat) : Prop := a = b ∨ a = 1 ∨ b = 1

instance (a b : Nat) : Decidable (bcOk a b) := by unfold bcOk; infer_instance

/-- the index into the left operand. -/
def bcL {a b : Nat} (h : bcOk a b) (k : Fin (bcLen a b)) : Fin a :=
  if h1 : a = 1 then ⟨0, by omega⟩ else ⟨k.val, by have := k.isLt; unfold bcLen at this; simp [h1] at this; exact this⟩

/-- the index into the right operand. -/
def bcR {a b : Nat} (h : bcOk a b) (k : Fin (bcLen a b)) : Fin b :=
  if h1 : a = 1 then ⟨k.val, by have := k.isLt; unfold bcLen at this; simp [h1] at this; exact this⟩
  else if h2 : a = b then ⟨k.val, by have := k.isLt; unfold bcLen at this; simp [h1] at this; omega⟩
  else ⟨0, by unfold bcOk at h; omega⟩

/-- `M[np.newaxis, :, :]`: a stack of length one. -/
def ofMat (M : PMat K) : PArr3 K := ⟨M.r, M.c, 1, fun _ => M.M⟩

/-- `c * S` for a number `c`. -/
def smul (c : K) (S : PArr3 K) : PArr3 K := ⟨S.p, S.m, S.n, fun k => c • S.d k⟩

/-- `S - T`: the matrices must have the same shape, the first axis is broadcast. -/
def sub (S T : PArr3 K) : Except Err (PArr3 K) :=
  if h : T.p = S.p ∧ T.m = S.m ∧ bcOk S.n T.n then
    .ok ⟨S.p, S.m, bcLen S.n T.n, fun k =>
      S.d (bcL h.2.2 k) - PMat.retype h.1 h.2.1 (T.d (bcR h.2.2 k))⟩
  else .error .shape

/-- `S @ T`: matrix products along the stack, inner sizes must agree, first axis broadcast. -/
def matmul (S T : PArr3 K) : Except Err (PArr3 K) :=
  if h : T.p = S.m ∧ bcOk S.n T.n then
    .ok ⟨S.p, T.m, bcLen S.n T.n, fun k =>
      S.d (bcL h.2 k) * PMat.retype h.1 rfl (T.d (bcR h.2 k))⟩
  else .error .shape

variable [DecidableEq K]

/-- `numpy.linalg.inv(S)`: every matrix of the stack is inverted; not square: `LinAlgError`
(`shape` here, it never happens after the size check of `feedback`), some matrix singular:
`LinAlgError` (`illPosed`). -/
def inv (S : PArr3 K) : Except Err (PArr3 K) :=
  if h : S.m = S.p then
    let F : Fin S.n → Matrix (Fin S.p) (Fin S.p) K := fun k => PMat.retype rfl h (S.d k)
    if ∃ k, (F k).det = 0 then .error .illPosed
    else .ok ⟨S.p, S.p, S.n, fun k => PMat.inverse (F k)⟩
  else .error .shape

end PStk

/-! Python-level access to `FrequencyResponseData` objects. -/

/-- a `FrequencyResponseData` object. -/
structure PyFRD (K : Type) where
  n : Nat
  d : DFRD K n
  dt : Dt

/-- the other operand of an FRD operator. -/
inductive PyOpd (K : Type) where
  | frd (F : PyFRD K)
  | scalar (c : K)
  | array (p m : Nat) (D : Matrix (Fin p) (Fin m) K)
  | lti (L : LTI K)

namespace PyFRD

variable {K : Type} [Field K]

/-- `sys.frdata` -/
def frdata (G : PyFRD K) : PArr3 K := ⟨G.d.p, G.d.m, G.n, G.d.sys.data⟩

/-- `sys.omega` -/
def omega (G : PyFRD K) : FVec := ⟨G.n, G.d.sys.omega⟩

/-- `sys.noutputs` -/
def noutputs (G : PyFRD K) : Nat := G.d.p

/-- `sys.ninputs` -/
def ninputs (G : PyFRD K) : Nat := G.d.m

/-- `sys._ifunc is not None` -/
def smooth (G : PyFRD K) : Bool := G.d.smooth

/-- `sys.issiso()` -/
def issiso (G : PyFRD K) : Bool := G.d.p == 1 && G.d.m == 1

/-- `FRD(frdata, omega, dt=dt, smooth=smooth)`. -/
def ctor (A : PArr3 K) (w : FVec) (dt : Dt) (smooth : Bool) : Except Err (PyFRD K) :=
  if h : w.n = A.n then
    if smooth = true ∧ A.n < 2 then .error .shape
    else .ok ⟨A.n, ⟨A.p, A.m, ⟨fun k => w.v (Fin.cast h.symm k), A.d⟩, smooth⟩, dt⟩
  else .error .notImplemented

/-- `bdalg.append(*([g] * k))` given the method `append`: `s1 = sys[0]` (`IndexError` for an empty
list), then `s1 = s1.append(s)` for the remaining `k - 1` copies. -/
def appendCopies (append : PyFRD K → PyOpd K → Except Err (PyFRD K)) (g : PyFRD K) :
    Nat → Except Err (PyFRD K)
  | 0 => .error .indexRange
  | 1 => .ok g
  | k + 2 => (appendCopies append g (k + 1)).bind fun a => append a (.frd g)

end PyFRD

namespace PyOpd

variable {K : Type} [Field K]

/-- a 2-D array as an operand. -/
def ofMat (X : PMat K) : PyOpd K := .array X.r X.c X.M

end PyOpd

namespace PyLTI

variable {K : Type} [Field K] [DecidableEq K]

/-- `sys.isctime()` -/
def isctime (L : LTI K) : Bool :=
  match L.dt with
  | .cont | .none => true
  | _ => false

/-- `sys(x)` for a 1-D array of points `x` (3-D form; a pole among the points is an error). -/
def call (L : LTI K) (x : PKVec K) : Except Err (PArr3 K) :=
  if ∃ k, L.singularAt (x.v k) = true then .error .zeroDen
  else .ok ⟨L.p, L.m, x.n, fun k => L.valueAt (x.v k)⟩

end PyLTI

namespace PyList

/-- `xs[0]` (`IndexError` for an empty list). -/
def get0 {α : Type} : List α → Except Err α
  | [] => .error .indexRange
  | a :: _ => .ok a

end PyList

end CtrlVerif
