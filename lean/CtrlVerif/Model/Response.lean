/-
C18 model, part 2: `TimeResponseData` (constructor, `__call__`, `time/outputs/states/inputs`,
`_legacy_states`, `__iter__`, `__getitem__`, `__len__`), the raw-array layout produced by the
five time-response functions, `FrequencyResponseData` (constructor, `magnitude/phase/complex`,
`__iter__`, `__call__`, `eval`), `LTI.__call__` / `evalfr` / `LTI.frequency_response`, and
`NamedSignal._parse_key` for names, integers and pairs.  The three configuration defaults are
inputs (`Cfg`).

The model follows control/timeresp.py, control/lti.py, control/frdata.py, control/iosys.py
branch by branch, except at three places where the code that exists contradicts the property
(see NOTES-C18.md): `TimeResponseData.states` (squeeze default route / transpose),
`TimeResponseData.states` without state data, `LTI.frequency_response` under a configured
squeeze default.  There the model is the repaired behaviour.
-/
import CtrlVerif.Model.Shape

namespace CtrlVerif

open NDArr

/-- the three package-wide defaults the property talks about. -/
structure Cfg where
  sqTime : Sq := .none      -- config.defaults['control.squeeze_time_response']
  sqFreq : Sq := .none      -- config.defaults['control.squeeze_frequency_response']
  returnX : Bool := false   -- config.defaults['forced_response.return_x']
  deriving DecidableEq, Repr

/-- `np.atleast_1d` / `np.array(x, ndmin=1)` on the shape. -/
def NDArr.atleast1d {α : Type} (a : NDArr α) : NDArr α :=
  match a.shape with
  | [] => ⟨[1], a.data⟩
  | _ => a

/-- `a.reshape(1, -1)` of a 1-D array. -/
def NDArr.row {α : Type} (a : NDArr α) : NDArr α := ⟨1 :: a.shape, a.data⟩

/-! ### TimeResponseData -/

structure TRD (α : Type) where
  t : NDArr α
  y : NDArr α
  x : Option (NDArr α)
  u : Option (NDArr α)
  issiso : Bool
  ninputs : Nat
  noutputs : Nat
  nstates : Nat
  ntraces : Nat
  squeeze : Sq
  transpose : Bool
  returnX : Bool
  deriving Repr

/-- what `TimeResponseData.__init__` derives from its array arguments. -/
structure TRDCore (α : Type) where
  t : NDArr α
  y : NDArr α
  x : Option (NDArr α)
  u : Option (NDArr α)
  issiso : Bool
  ninputs : Nat
  noutputs : Nat
  nstates : Nat
  ntraces : Nat

namespace TRD

variable {α : Type}

/-- `TimeResponseData.__init__`, the part that depends on the arrays only (shape logic and
validation; labels are not modelled): the stored arrays and the derived counts. -/
def initCore (time outputs : NDArr α) (states inputs : Option (NDArr α)) (issiso : Option Bool)
    (multiTrace : Bool) : Except Err (TRDCore α) := do
  let t := time.atleast1d
  if t.ndim ≠ 1 then throw Err.shape
  -- output vector and number of traces
  let (y, multi, noutputs, ntraces) ← match outputs.shape with
    | [p, k, _] => pure (outputs, true, p, k)
    | [a, _] => if multiTrace then pure (outputs, true, 1, a) else pure (outputs, false, a, 0)
    | [_] => if multiTrace then throw Err.shape else pure (outputs.row, false, 1, 0)
    | _ => throw Err.shape
  if t.shape.getLast? ≠ y.shape.getLast? then throw Err.shape
  -- state vector
  let nstates ← match states with
    | none => pure 0
    | some x =>
      match x.shape with
      | [] => throw Err.indexRange
      | n :: _ =>
        if (multi && (x.ndim ≠ 3 || x.shape[1]? ≠ some ntraces)) || (!multi && x.ndim ≠ 2) then
          throw Err.shape
        else if t.shape.getLast? ≠ x.shape.getLast? then throw Err.shape
        else pure n
  -- input vector
  let (u, ninputs) ← match inputs with
    | none => pure (none, 0)
    | some u =>
      let r ← match u.shape with
        | [m, k, _] => if multi && k = ntraces then pure (u, m) else throw Err.shape
        | [a, _] =>
          if multi && a = ntraces then pure (u, 1)
          else if !multi && ntraces = 0 then pure (u, a)
          else throw Err.shape
        | [_] => if !multi then pure (u.row, 1) else throw Err.shape
        | _ => throw Err.shape
      if t.shape.getLast? ≠ r.1.shape.getLast? then throw Err.shape
      pure (some r.1, r.2)
  -- SISO flag
  let siso ← match issiso with
    | none =>
      if ninputs = 1 then pure (decide (noutputs = 1))
      else if ninputs > 1 then pure false
      else throw Err.badArg
    | some b => if b && (ninputs > 1 || noutputs > 1) then throw Err.badArg else pure b
  pure ⟨t, y, states, u, siso, ninputs, noutputs, nstates, ntraces⟩

/-- `TimeResponseData.__init__`: the array part, then the processing keywords are validated
("Unknown squeeze value") and stored as attributes. -/
def init (time outputs : NDArr α) (states inputs : Option (NDArr α)) (issiso : Option Bool)
    (transpose returnX : Bool) (squeeze : Sq) (multiTrace : Bool) : Except Err (TRD α) := do
  let c ← initCore time outputs states inputs issiso multiTrace
  if squeeze = .other then throw Err.badArg
  pure ⟨c.t, c.y, c.x, c.u, c.issiso, c.ninputs, c.noutputs, c.nstates, c.ntraces,
        squeeze, transpose, returnX⟩

/-- `response(squeeze=…, transpose=…, return_x=…)`: a copy with the given keywords replaced. -/
def call (r : TRD α) (squeeze : Option Sq) (transpose returnX : Option Bool) : TRD α :=
  { r with squeeze := squeeze.getD r.squeeze, transpose := transpose.getD r.transpose,
           returnX := returnX.getD r.returnX }

def time (r : TRD α) : NDArr α := r.t

def outputs (r : TRD α) (cfg : Cfg) : Except Err (NDArr α) :=
  processTime r.y r.issiso r.transpose r.squeeze cfg.sqTime

/-- `states` (repaired): the trace axis of a SISO single-trace response is dropped *before* the
data is transposed, and exactly when the resolved squeeze setting is `None`; no state data gives
`None`. -/
def states (r : TRD α) (cfg : Cfg) : Except Err (Option (NDArr α)) :=
  match r.x with
  | none => pure none
  | some x => do
    let sq := r.squeeze.resolve cfg.sqTime
    let x0 ← if r.issiso && r.ntraces = 1 && x.ndim = 3 && sq = .none then x.dropTrace else pure x
    let x1 ← processTime x0 false r.transpose sq cfg.sqTime
    pure (some x1)

def inputs (r : TRD α) (cfg : Cfg) : Except Err (Option (NDArr α)) :=
  match r.u with
  | none => pure none
  | some u => do
    let u1 ← processTime u r.issiso r.transpose r.squeeze cfg.sqTime
    pure (some u1)

/-- `_legacy_states`: not affected by `squeeze`. -/
def legacyStates (r : TRD α) : Except Err (Option (NDArr α)) :=
  match r.x with
  | none => pure none
  | some x => do
    let x0 ← if r.ninputs = 1 && r.noutputs = 1 && r.ntraces = 1 && x.ndim = 3 then x.dropTrace
             else pure x
    let x1 ← if r.transpose then x0.timeFirst else pure x0
    pure (some x1)

/-- `tuple(response)`: `(time, outputs)` or `(time, outputs, legacy states)`. -/
def iter (r : TRD α) (cfg : Cfg) : Except Err (List (Option (NDArr α))) := do
  let y ← r.outputs cfg
  if r.returnX then do
    let x ← r.legacyStates
    pure [some r.time, some y, x]
  else pure [some r.time, some y]

/-- `response[i]` for an integer `i`. -/
def getitem (r : TRD α) (cfg : Cfg) (i : Nat) : Except Err (Option (NDArr α)) :=
  match i with
  | 0 => pure (some r.time)
  | 1 => do let y ← r.outputs cfg; pure (some y)
  | 2 => r.legacyStates
  | _ => throw Err.indexRange

def len (r : TRD α) : Nat := if r.returnX then 3 else 2

end TRD

/-! ### raw array layout of the response-producing functions -/

inductive TFn where
  | forced | io | initial | step | impulse
  deriving DecidableEq, Repr

/-- shapes of the arrays a response function hands to the constructor, for a system with `p`
outputs, `m` inputs, `n` states on `T` time points; `inp`/`out` are the optional
`input`/`output` selections of step/impulse/initial responses, `u1d` says that the user gave a
1-D input array to `forced_response`. -/
structure RawSpec where
  yShape : List Nat
  xShape : Option (List Nat)
  uShape : Option (List Nat)
  issiso : Bool
  deriving DecidableEq, Repr

def rawSpec (fn : TFn) (p m n T : Nat) (inp out : Option Nat) (u1d : Bool) : Except Err RawSpec :=
  let siso := decide (p = 1) && decide (m = 1)
  match fn with
  | .forced =>
    if inp.isSome || out.isSome then throw Err.badArg
    else pure ⟨[p, T], some [n, T],
      some (if m = 1 then (if u1d then [T] else [1, T]) else [m, T]), siso⟩
  | .io =>
    if inp.isSome || out.isSome then throw Err.badArg
    else pure ⟨[p, T], if n = 0 then none else some [n, T], some [m, T], siso⟩
  | .initial =>
    if inp.isSome then throw Err.badArg
    else match out with
      | none => pure ⟨[p, T], some [n, T], none, siso⟩
      | some o =>
        if o < p then pure ⟨[T], some [n, T], none, true⟩ else throw Err.indexRange
  | .step | .impulse =>
    if (match inp with | some i => decide (m ≤ i) | none => false) ||
       (match out with | some o => decide (p ≤ o) | none => false) then throw Err.indexRange
    else
      let m' := if inp.isSome then 1 else m
      let p' := if out.isSome then 1 else p
      pure ⟨[p', m', T], some [n, m', T], some [m', m', T],
            siso || (inp.isSome && out.isSome)⟩

/-- the response object a time-response function returns, given the simulated raw arrays
(external: C06) whose shapes must be the ones of `rawSpec`.  `squeeze`, `transpose`,
`returnX` are the keyword arguments (`returnX = none`: not given). -/
def timeResponse {α : Type} (fn : TFn) (p m n T : Nat) (inp out : Option Nat) (u1d : Bool)
    (t y : NDArr α) (x u : Option (NDArr α))
    (squeeze : Sq) (transpose : Bool) (returnX : Option Bool) (cfg : Cfg) :
    Except Err (TRD α) := do
  let spec ← rawSpec fn p m n T inp out u1d
  if t.shape ≠ [T] || y.shape ≠ spec.yShape || x.map (·.shape) ≠ spec.xShape ||
     u.map (·.shape) ≠ spec.uShape then throw Err.shape
  let rx := match returnX with
    | some b => b
    | none => if fn = .forced then cfg.returnX else false
  TRD.init t y x u (some spec.issiso) transpose rx squeeze false

/-! ### FrequencyResponseData and evaluation -/

structure RespFRD (α : Type) where
  frdata : NDArr α
  nomega : Nat
  squeeze : Sq
  returnMagphase : Bool
  deriving Repr

/-- what `__iter__` yields / what a property returns: the frequency vector, or an elementwise
function (`np.abs`, `np.angle`, identity) of a processed array. -/
inductive FItem (α : Type) where
  | omega
  | mag (a : NDArr α)
  | phase (a : NDArr α)
  | cplx (a : NDArr α)
  deriving Repr

namespace RespFRD

variable {α : Type}

/-- `FrequencyResponseData(response, omega, squeeze=…, return_magphase=…)` -/
def init (response : NDArr α) (omegaShape : List Nat) (squeeze : Sq) (returnMagphase : Bool) :
    Except Err (RespFRD α) := do
  let r := response.atleast1d
  let d : NDArr α := if r.ndim = 1 then ⟨1 :: 1 :: r.shape, r.data⟩ else r
  let om := if omegaShape = [] then [1] else omegaShape
  match d.shape, om with
  | [_, _, N], [N'] =>
    if N ≠ N' then throw Err.shape
    else if squeeze = .other then throw Err.badArg
    else pure ⟨d, N, squeeze, returnMagphase⟩
  | _, _ => throw Err.shape

def noutputs (F : RespFRD α) : Option Nat := F.frdata.shape[0]?
def ninputs (F : RespFRD α) : Option Nat := F.frdata.shape[1]?
def issiso (F : RespFRD α) : Bool := F.noutputs = some 1 && F.ninputs = some 1

def processed (F : RespFRD α) (cfg : Cfg) : Except Err (NDArr α) :=
  processFreq F.issiso 1 F.frdata F.squeeze cfg.sqFreq

def magnitude (F : RespFRD α) (cfg : Cfg) : Except Err (FItem α) := do
  let a ← F.processed cfg; pure (.mag a)
def phase (F : RespFRD α) (cfg : Cfg) : Except Err (FItem α) := do
  let a ← F.processed cfg; pure (.phase a)
def complex (F : RespFRD α) (cfg : Cfg) : Except Err (FItem α) := do
  let a ← F.processed cfg; pure (.cplx a)

/-- `tuple(F)`: `(mag, phase, omega)` or `(omega, complex)`. -/
def iter (F : RespFRD α) (cfg : Cfg) : Except Err (List (FItem α)) := do
  let a ← F.processed cfg
  if F.returnMagphase then pure [.mag a, .phase a, .omega] else pure [.omega, .cplx a]

/-- `F(squeeze=…, return_magphase=…)` without a point: a copy with new settings
(`squeeze=None` keeps the attribute). -/
def callCopy (F : RespFRD α) (squeeze : Sq) (returnMagphase : Option Bool) : RespFRD α :=
  { F with squeeze := if squeeze = .none then F.squeeze else squeeze,
           returnMagphase := returnMagphase.getD F.returnMagphase }

/-- `F.eval(omega, squeeze)` / `F(x, squeeze)` of a non-interpolating RespFRD whose requested
frequencies are the stored ones at the positions `ks`, one position per requested point, in the
order requested (any order, repeats allowed; `scalar`: `omega` is a scalar). -/
def eval (F : RespFRD α) (ks : List Nat) (scalar : Bool) (squeeze : Sq) (cfg : Cfg) :
    Except Err (NDArr α) := do
  let out ← F.frdata.selectLast ks
  processFreq F.issiso (if scalar then 0 else 1) out squeeze cfg.sqFreq

/-- the look-up step of `FrequencyResponseData.eval`: the index of each requested frequency in
the stored frequency list (`np.flatnonzero(self.omega == w)[0]`, i.e. the first match: the stored
list of a user-built FRD is neither sorted nor duplicate-free), one index per requested point in
the order requested; a requested frequency that is not stored raises ("not all frequencies are
in frequency list of FRD system").  `ω` is the type of frequency values. -/
def lookupFreqs {ω : Type} [DecidableEq ω] (stored req : List ω) : Except Err (List Nat) :=
  req.mapM fun w => match stored.idxOf? w with
    | some i => pure i
    | Option.none => throw Err.missing

/-- `F.eval(omega, squeeze)` / `F(x, squeeze)` / `evalfr(F, x, squeeze)` of a non-interpolating
FRD with the stored frequency list `stored`, at the evaluation points `omega` (an array of
frequency *values*: 0-d for a scalar point).  `offAxis`: some point is not a real frequency
(`F(x)` with a non-zero real part, `F.eval(w)` with a positive imaginary part).  Branch order of
the code: "input list must be 1D", the real-frequency test, the look-up, the selection
`frdata[:, :, indices]`, `_process_frequency_response`. -/
def evalAt {ω : Type} [DecidableEq ω] (F : RespFRD α) (stored : List ω) (omega : NDArr ω)
    (offAxis : Bool) (squeeze : Sq) (cfg : Cfg) : Except Err (NDArr α) := do
  if omega.ndim > 1 then throw Err.badArg
  if offAxis then throw Err.badArg
  let ks ← lookupFreqs stored omega.data
  let out ← F.frdata.selectLast ks
  processFreq F.issiso omega.ndim out squeeze cfg.sqFreq

end RespFRD

/-- `sys(x, squeeze)` / `evalfr(sys, x, squeeze)` for a `p × m` system; `horner` is the value
array `sys.horner(x)` (external: C04) of shape `(p, m, len(atleast_1d(x)))`. -/
def ltiCall {α : Type} (p m : Nat) (xShape : List Nat) (horner : NDArr α) (squeeze : Sq)
    (cfg : Cfg) : Except Err (NDArr α) := do
  let len ← match xShape with
    | [] => pure 1
    | [k] => pure k
    | _ => throw Err.badArg
  if horner.shape ≠ [p, m, len] then throw Err.shape
  processFreq (decide (p = 1) && decide (m = 1)) xShape.length horner squeeze cfg.sqFreq

/-- `sys.frequency_response(omega, squeeze)` (repaired: the raw data is taken with
`squeeze=False`, whatever the configured default). -/
def ltiFreqResp {α : Type} (p m N : Nat) (horner : NDArr α) (squeeze : Sq) (cfg : Cfg) :
    Except Err (RespFRD α) := do
  let resp ← ltiCall p m [N] horner .false cfg
  RespFRD.init resp [N] squeeze true

/-! ### NamedSignal -/

inductive Key where
  | name (s : String)
  | int (i : Nat)
  | pair (a b : Key)
  deriving DecidableEq, Repr

structure NamedSignal (α : Type) where
  arr : NDArr α
  signalLabels : Option (List String)
  traceLabels : Option (List String)

namespace NamedSignal

variable {α : Type}

/-- `labels.index(name)` -/
def lookup (labels : Option (List String)) (s : String) : Except Err Nat :=
  match labels with
  | none => throw Err.badArg
  | some l => match l.idxOf? s with
    | some i => pure i
    | none => throw Err.unknownName

def Key.isName : Key → Bool
  | .name _ => true
  | _ => false

/-- element of a tuple key (level 1): a name is replaced by its position. -/
def parseElem (labels : Option (List String)) : Key → Except Err Nat
  | .name s => lookup labels s
  | .int i => pure i
  | .pair _ _ => throw Err.badArg

/-- `_parse_key(key)` at level 0: the integer index tuple NumPy is then given (`[]` = the whole
array). -/
def parseKey (ns : NamedSignal α) : Key → Except Err (List Nat)
  | .int i => pure [i]
  | .name s => do
    let i ← lookup ns.signalLabels s
    if ns.arr.ndim < 2 then pure [] else pure [i]
  | .pair a b => do
    let k0 ← parseElem ns.signalLabels a
    -- `_parse_key(key[1], labels=self.trace_labels)`: "if labels is None: labels = self.signal_labels"
    let k1 ← parseElem (match ns.traceLabels with | some l => some l | none => ns.signalLabels) b
    if (Key.isName a || Key.isName b) && ns.arr.ndim < 3 then throw Err.indexRange
    else pure [k0, k1]

/-- `a[i₀, i₁, …]` with a (possibly partial) tuple of non-negative integers. -/
def indexMany (a : NDArr α) : List Nat → Except Err (NDArr α)
  | [] => pure a
  | i :: is => do let b ← a.index i; indexMany b is

/-- `signal[key]` -/
def getitem (ns : NamedSignal α) (key : Key) : Except Err (NDArr α) := do
  let idx ← ns.parseKey key
  indexMany ns.arr idx

end NamedSignal

/-! ### the labelled signals the properties return (default labels `pre0, pre1, …`;
`_process_labels` stores `None` for an empty list) -/

def defaultLabels (pre : String) (n : Nat) : Option (List String) :=
  if n = 0 then none else some ((List.range n).map fun i => pre ++ toString i)

namespace TRD

variable {α : Type}

/-- `NamedSignal(y, output_labels, input_labels)` -/
def outputsSignal (r : TRD α) (cfg : Cfg) : Except Err (NamedSignal α) := do
  let y ← r.outputs cfg
  pure ⟨y, defaultLabels "y" r.noutputs, defaultLabels "u" r.ninputs⟩

/-- `NamedSignal(x, state_labels, input_labels)` -/
def statesSignal (r : TRD α) (cfg : Cfg) : Except Err (Option (NamedSignal α)) := do
  match (← r.states cfg) with
  | none => pure none
  | some x => pure (some ⟨x, defaultLabels "x" r.nstates, defaultLabels "u" r.ninputs⟩)

/-- `NamedSignal(u, input_labels, input_labels)` -/
def inputsSignal (r : TRD α) (cfg : Cfg) : Except Err (Option (NamedSignal α)) := do
  match (← r.inputs cfg) with
  | none => pure none
  | some u => pure (some ⟨u, defaultLabels "u" r.ninputs, defaultLabels "u" r.ninputs⟩)

end TRD

/-- `NamedSignal(f(frdata), output_labels, input_labels)` of a frequency response. -/
def RespFRD.signal {α : Type} (F : RespFRD α) (cfg : Cfg) : Except Err (NamedSignal α) := do
  let a ← F.processed cfg
  match F.frdata.shape with
  | [p, m, _] => pure ⟨a, defaultLabels "y" p, defaultLabels "u" m⟩
  | _ => throw Err.shape

end CtrlVerif
