/-
Primitives of the source-text tie of `TransferFunction.minreal` (harness/core/py2lean_minreal.py).
Hand-written, part of the trusted base: the meaning of the NumPy / Python constructs the loop
body uses.  `K` is the field the roots live in, `R` the ordered field of magnitudes.

  `roots(c)`                       ↦ `X.roots c`      (external; contract stated where it is used)
  `abs(w)`                         ↦ `X.abs w`
  `float_info.epsilon`             ↦ `X.eps`
  `real(c)`                        ↦ `X.real c`       (identity on real coefficient lists)
  `tol or d`                       ↦ `tolOr tol d`    (Python truthiness: `None` and `0` are falsy)
  `where(abs(z - poles) < t)[0]`   ↦ `whereLt (poles.map fun p => X.abs (z - p)) t`  (indices, ascending)
  `len(idx)` as a condition        ↦ `idx.length ≠ 0`
  `delete(poles, k)`               ↦ `delete poles k` (`List.eraseIdx`)
  `poly(rs)`                       ↦ `polyFromRoots rs`
  `np.atleast_1d(c)`               ↦ `c`              (`polyFromRoots` always returns a list)
  `c[0]`                           ↦ `getItem0 c`     (`IndexError` on an empty array)
  `a / b`                          ↦ `div a b`        (a zero divisor is rejected: the constructor
                                                       refuses the resulting non-finite coefficients)
-/
import CtrlVerif.Model.Minreal

namespace CtrlVerif.PyMin

/-- the external functions the loop body calls. -/
structure Ext (K R : Type) where
  roots : List K → List K
  abs : K → R
  eps : R
  real : List K → List K

variable {K R : Type}

def tolOr [Zero R] [DecidableEq R] (tol : Option R) (d : R) : R :=
  match tol with
  | some t => if t = 0 then d else t
  | none => d

/-- indices (ascending, starting at `k`) of the entries below `t`. -/
def whereLtFrom [LT R] [DecidableLT R] (t : R) : List R → Nat → List Nat
  | [], _ => []
  | x :: xs, k => if x < t then k :: whereLtFrom t xs (k + 1) else whereLtFrom t xs (k + 1)

def whereLt [LT R] [DecidableLT R] (l : List R) (t : R) : List Nat := whereLtFrom t l 0

def delete (l : List K) (k : Nat) : List K := l.eraseIdx k

def getItem0 (c : List K) : Except Err K :=
  match c with
  | x :: _ => .ok x
  | [] => .error .badArg

def getIdx0 (c : List Nat) : Except Err Nat :=
  match c with
  | x :: _ => .ok x
  | [] => .error .indexRange

def div [Field K] [DecidableEq K] (a b : K) : Except Err K :=
  if b = 0 then .error .zeroDen else .ok (a / b)

end CtrlVerif.PyMin
