/-
Meaning of the further NumPy / SciPy / Python primitives that `harness/core/py2lean_tr.py` emits when
it translates the simulation blocks of `forced_response` (control/timeresp.py) into Lean
(`Generated/TimeResp*.lean`).  Hand-written; together with the translator and the primitive files it
builds on (`Model/PyMat.lean`: untyped 2-D arrays `PMat`, `Model/PyArith.lean`: `range`, Python
indexing, division) this file is the trusted base of the source-text tie of property C06
(notes/NOTES-py2lean-timeresp.md, DESIGN §10.3).

* `PVec K`   a 1-D array of floats (`X0`, a column `xout[:, i]`): its length and its entries.
* `PSig K`   a 2-D array indexed (channel, time) — `U`, `xout`, `yout` —: the number of channels
  (rows) and ONE STORED COLUMN PER TIME POINT.  `X[:, i]` / `X[:, i] = v` are Python indexing on the
  list of columns (negative indices wrap, out of range = `IndexError`), a column of the wrong length
  is an error (NumPy would broadcast a length-1 array; no such assignment occurs on a returning path).
* `PSigT K`  the transposed layout (time, channel): what `np.transpose(U)` is and what
  `scipy.signal.dlsim` takes and returns; `X[::k, :]` is Python's extended slice on the list of rows.
* the time vector `T` (a 1-D array that is indexed, differenced and shifted) is a `List K`.
* floats are EXACT numbers of a field `K` (DESIGN §3.1).  Consequently `np.isclose(a, b)` /
  `np.allclose(x, c)` are EQUALITY (as in the hand-written model `Model/TimeResp.lean`: grids are
  either exactly equally spaced or clearly not), `a % b` is `a - b ⌊a / b⌋`, `int(round(x))` rounds
  half to even, `int(np.floor(x))` is `⌊x⌋`.
* external routines are PARAMETERS of the generated functions, never axioms:
  `scipy.linalg.expm`  — a `SqFun K` (a function on square matrices of every size), applied by
     `PMat.applySq` (a non-square argument is a `ValueError`);
  `scipy.signal.dlsim` — a `DlsimFun K` on a typed system, applied by `PyTR.callDlsim`, which checks
     that the five arrays fit (what `dlti(A, B, C, D, dt)` and the loop of `dlsim` check);
  `np.nextafter(x, np.inf)` — a function `K → K` (float-specific; it is only called inside the
     `while` loop of the sample-count work-around).
* `while c: body` is `PyTR.whileFuel fuel c body`: at most `fuel` iterations, running out of fuel is
  an error; the equality theorems hold for EVERY `fuel`.

Only the TYPES `SS`, `Dt`, `Err` of the model are used here — none of its functions.
-/
import CtrlVerif.Model.PyMat
import CtrlVerif.Model.PyArith
import Mathlib.Algebra.Order.Floor.Ring
import Mathlib.Algebra.Order.Field.Basic
import Mathlib.Data.Rat.Floor

namespace CtrlVerif

open Matrix

/-- a 1-D array: length and entries. -/
structure PVec (K : Type) where
  n : Nat
  v : Fin n → K

/-- a 2-D array indexed (channel, time): `rows` channels, one stored column per time point. -/
structure PSig (K : Type) where
  rows : Nat
  cols : List (Fin rows → K)

/-- a 2-D array indexed (time, channel): `width` channels, one stored row per time point. -/
structure PSigT (K : Type) where
  width : Nat
  rws : List (Fin width → K)

/-- an external function on square matrices of every size (`scipy.linalg.expm`). -/
abbrev SqFun (K : Type) := (k : Nat) → Matrix (Fin k) (Fin k) K → Matrix (Fin k) (Fin k) K

/-- an external simulation routine (`scipy.signal.dlsim`) on a typed system: system matrices,
sampling time, input (one row per time point), time vector, initial state ↦ `(tout, yout, xout)`. -/
abbrev DlsimFun (K : Type) := (n m p : Nat) → SS (Fin n) (Fin m) (Fin p) K → K → List (Fin m → K) →
  List K → (Fin n → K) → Except Err (List K × List (Fin p → K) × List (Fin n → K))

namespace PVec

variable {K : Type} [Field K]

/-- the entries re-typed along an equality of lengths. -/
def retype {n n' : Nat} (h : n = n') (v : Fin n → K) : Fin n' → K := fun j => v (Fin.cast h.symm j)

/-- `u + v` for two 1-D arrays of the same length. -/
def add (u v : PVec K) : Except Err (PVec K) :=
  if h : v.n = u.n then .ok ⟨u.n, u.v + retype h v.v⟩ else .error .shape

end PVec

namespace PMat

variable {K : Type} [Field K]

/-- `X @ v` for a 2-D array and a 1-D array. -/
def matvec (X : PMat K) (v : PVec K) : Except Err (PVec K) :=
  if h : v.n = X.c then .ok ⟨X.r, X.M *ᵥ PVec.retype h v.v⟩ else .error .shape

/-- `X @ S` for a 2-D array and a signal (column by column). -/
def matsig (X : PMat K) (S : PSig K) : Except Err (PSig K) :=
  if h : S.rows = X.c then .ok ⟨X.r, S.cols.map fun c => X.M *ᵥ PVec.retype h c⟩ else .error .shape

/-- `np.identity(n)` -/
def identity (n : Nat) : PMat K := ⟨n, n, 1⟩

/-- `f(X)` for an external function on square matrices (`ValueError` for a non-square `X`). -/
def applySq (f : SqFun K) (X : PMat K) : Except Err (PMat K) :=
  if h : X.c = X.r then .ok ⟨X.r, X.r, f X.r (retype rfl h X.M)⟩ else .error .shape

end PMat

namespace PSig

variable {K : Type} [Field K]

/-- `np.zeros((r, k))` -/
def zeros (r k : Nat) : PSig K := ⟨r, List.replicate k 0⟩

/-- `X[:, i]` -/
def getCol (X : PSig K) (i : Int) : Except Err (PVec K) :=
  match PyArith.getItem X.cols i with
  | .error e => .error e
  | .ok c => .ok ⟨X.rows, c⟩

/-- `X[:, i] = v` (the updated array). -/
def setCol (X : PSig K) (i : Int) (v : PVec K) : Except Err (PSig K) :=
  match PyArith.normIdx X.cols.length i with
  | .error e => .error e
  | .ok j => if h : v.n = X.rows then .ok ⟨X.rows, X.cols.set j (PVec.retype h v.v)⟩ else .error .shape

/-- `X + Y` for two signals of the same shape. -/
def add (X Y : PSig K) : Except Err (PSig K) :=
  if h : Y.rows = X.rows ∧ Y.cols.length = X.cols.length then
    .ok ⟨X.rows, List.zipWith (fun a b => a + PVec.retype h.1 b) X.cols Y.cols⟩
  else .error .shape

/-- `np.all(X == 0)` -/
def allZero [DecidableEq K] (X : PSig K) : Bool := X.cols.all fun c => decide (∀ j, c j = 0)

/-- `np.transpose(X)` -/
def T (X : PSig K) : PSigT K := ⟨X.rows, X.cols⟩

end PSig

namespace PyTR

/-- the elements `l[0], l[k], l[2k], …` (`k ≥ 1`): the first element, then the same after dropping
`k - 1` further elements. -/
def everyNth {α : Type} (k : Nat) : List α → List α
  | [] => []
  | a :: l => a :: everyNth k (l.drop (k - 1))
termination_by l => l.length
decreasing_by simp only [List.length_drop, List.length_cons]; omega

/-- `l[::step]`: `step = 0` is a `ValueError`, a negative step walks backwards from the last
element. -/
def stepSlice {α : Type} (l : List α) (step : Int) : Except Err (List α) :=
  if step = 0 then .error .badArg
  else if 0 < step then .ok (everyNth step.toNat l)
  else .ok (everyNth (-step).toNat l.reverse)

end PyTR

namespace PSigT

variable {K : Type}

/-- `np.transpose(X)` -/
def T (X : PSigT K) : PSig K := ⟨X.width, X.rws⟩

/-- `X[::step, :]` -/
def stepRows (X : PSigT K) (step : Int) : Except Err (PSigT K) :=
  match PyTR.stepSlice X.rws step with
  | .error e => .error e
  | .ok l => .ok ⟨X.width, l⟩

end PSigT

namespace PyTR

section field
variable {K : Type} [Field K]

/-- `np.diff(T)` -/
def diff : List K → List K
  | a :: b :: t => (b - a) :: diff (b :: t)
  | _ => []

/-- `np.allclose(xs, c)` in exact arithmetic: every entry equals `c`. -/
def allclose [DecidableEq K] (xs : List K) (c : K) : Bool := xs.all fun x => decide (x = c)

/-- `np.isclose(a, b)` in exact arithmetic. -/
def isclose (a b : K) : Prop := a = b

instance [DecidableEq K] (a b : K) : Decidable (isclose a b) := inferInstanceAs (Decidable (a = b))

/-- `T - c` for a 1-D array and a number. -/
def subNum (l : List K) (c : K) : List K := l.map (· - c)

/-- `T + c` for a 1-D array and a number. -/
def addNum (l : List K) (c : K) : List K := l.map (· + c)

/-- `scipy.signal.dlsim((A, B, C, D, dt), U, t, x0)` for an external routine on typed systems: the
arrays must fit (`A` square, `B` with as many rows, `C` with as many columns, `D` with the rows of
`C` and the columns of `B`, `U` with one entry per input, `x0` with one entry per state); anything
else is a `ValueError`. -/
def callDlsim (f : DlsimFun K) (A B C D : PMat K) (dt : K) (U : PSigT K) (t : List K) (x0 : PVec K) :
    Except Err (List K × PSigT K × PSigT K) :=
  if h : A.c = A.r ∧ B.r = A.r ∧ C.c = A.r ∧ D.r = C.r ∧ D.c = B.c ∧ U.width = B.c ∧ x0.n = A.r then
    match f A.r B.c C.r
        ⟨PMat.retype rfl h.1 A.M, PMat.retype h.2.1 rfl B.M, PMat.retype rfl h.2.2.1 C.M,
          PMat.retype h.2.2.2.1 h.2.2.2.2.1 D.M⟩
        dt (U.rws.map (PVec.retype h.2.2.2.2.2.1)) t (PVec.retype h.2.2.2.2.2.2 x0.v) with
    | .error e => .error e
    | .ok (tout, yout, xout) => .ok (tout, ⟨C.r, yout⟩, ⟨A.r, xout⟩)
  else .error .shape

end field

/-- `while cond(s): s = body(s)` with at most `fuel` iterations (out of fuel: an error); the test may
itself raise. -/
def whileFuel {σ : Type} (cond : σ → Except Err Bool) (body : σ → Except Err σ) : Nat → σ → Except Err σ
  | 0, s => (cond s).bind fun c => if c then .error .notImplemented else .ok s
  | fuel + 1, s => (cond s).bind fun c => if c then (body s).bind (whileFuel cond body fuel) else .ok s

section ordered
variable {K : Type} [Field K] [LinearOrder K] [IsStrictOrderedRing K] [FloorRing K]

/-- `int(np.floor(x))` -/
def floorInt (x : K) : Int := ⌊x⌋

/-- `int(round(x))`: round half to even. -/
def roundInt (x : K) : Int :=
  let f : Int := ⌊x⌋
  let r : K := x - (f : K)
  if r < 1 / 2 then f else if 1 / 2 < r then f + 1 else if f % 2 = 0 then f else f + 1

/-- the float `a % b` (sign of the divisor; a zero divisor is an error / `nan`). -/
def fmod (a b : K) : Except Err K :=
  if b = 0 then .error .zeroDen else .ok (a - b * ((⌊a / b⌋ : Int) : K))

end ordered

end PyTR

end CtrlVerif
