/-
Model of nonlinear input/output systems (control/nlsys.py), typed layer.

* `IOSys σ ι o K`: an update map `f` (`_rhs`) and an output map `h` (`_out`); both may raise
  (`InterconnectedSystem._compute_static_io` raises "algebraic loop detected"), so they are
  `Except Err`-valued.
* `ufun`: the input interpolation closure of `input_output_response`
  (`np.searchsorted(T, t, 'left')`, `np.clip(., 1, len(T)-1)`, linear interpolation).
* `simulate`: the discrete-time loop `for t in t_eval: …` of `input_output_response`.
* `linearize`: `NonlinearIOSystem.linearize` (forward differences with step `eps`).
* `iterate` / `ic1` / `ic2`: `InterconnectedSystem._compute_static_io`, `_rhs`, `_out` for one and
  two subsystems, and on top of them the operator constructions `__mul__`, `__rmul__`, `__add__`,
  `__sub__`, `__neg__`, `feedback` with exactly the `connect_map` / `input_map` / `output_map`
  the code builds.

The same definitions are executed by the driver (`Driver/IOSys.lean`) over `ℚ`.
-/
import CtrlVerif.Model.Err
import CtrlVerif.Model.SS
import Mathlib.Data.Matrix.Mul
import Mathlib.Data.Fintype.Pi
import Mathlib.Data.Fintype.Sum
import Mathlib.Order.Defs.LinearOrder

namespace CtrlVerif

open Matrix

/-- an input/output system: `f = _rhs(t, x, u)`, `h = _out(t, x, u)`. -/
structure IOSys (σ ι o : Type*) (K : Type*) where
  f : K → (σ → K) → (ι → K) → Except Err (σ → K)
  h : K → (σ → K) → (ι → K) → Except Err (o → K)

namespace IOSys

variable {K : Type*} [Field K]
variable {σ σ₁ σ₂ ι ι₁ ι₂ o o₁ o₂ : Type*}

/-- a linear system used as an I/O system (`StateSpace._rhs`, `StateSpace._out`). -/
def ofSS [Fintype σ] [Fintype ι] (G : SS σ ι o K) : IOSys σ ι o K where
  f _ x u := .ok (G.A.mulVec x + G.B.mulVec u)
  h _ x u := .ok (G.C.mulVec x + G.D.mulVec u)

/-- an affine system `f = A x + B u + cf`, `h = C x + D u + ch`. -/
def affine [Fintype σ] [Fintype ι] (G : SS σ ι o K) (cf : σ → K) (ch : o → K) : IOSys σ ι o K where
  f _ x u := .ok (G.A.mulVec x + G.B.mulVec u + cf)
  h _ x u := .ok (G.C.mulVec x + G.D.mulVec u + ch)

/-! ### `ufun` -/

section Ufun
variable [LinearOrder K]

/-- `np.searchsorted(T, t, side='left')` on a sorted list: the number of leading entries `< t`. -/
def searchLeft (T : List K) (t : K) : Nat := (T.takeWhile (· < t)).length

/-- `np.clip(i, lo, hi)` = `minimum(maximum(i, lo), hi)`. -/
def clipIdx (i lo hi : Nat) : Nat := min (max i lo) hi

/-- the closure `ufun(t)` of `input_output_response`: `T` the time points, `U` the input samples
(one vector per time point).  Fewer than two time points, or `T[idx] = T[idx-1]`, make the real
code divide by zero (NaN, no exception): the model rejects these. -/
def ufun (T : List K) (U : List (ι → K)) (t : K) : Except Err (ι → K) :=
  let idx := clipIdx (searchLeft T t) 1 (T.length - 1)
  match T[idx - 1]?, T[idx]?, U[idx - 1]?, U[idx]? with
  | some t0, some t1, some u0, some u1 =>
    if t1 - t0 = 0 then .error .zeroDen
    else .ok (fun i => u0 i * (1 - (t - t0) / (t1 - t0)) + u1 i * ((t - t0) / (t1 - t0)))
  | _, _, _, _ => .error .indexRange

end Ufun

/-! ### the discrete-time simulation loop -/

/-- `for t in t_eval: soln.y.append(x); u.append(ufun(t)); y.append(_out(t,x,u)); x = _rhs(t,x,u)`.
Returns the list of `(x[k], u[k], y[k])`. -/
def simulate (G : IOSys σ ι o K) (uf : K → Except Err (ι → K)) :
    List K → (σ → K) → Except Err (List ((σ → K) × (ι → K) × (o → K)))
  | [], _ => .ok []
  | t :: ts, x =>
    match uf t with
    | .error e => .error e
    | .ok u =>
      match G.h t x u with
      | .error e => .error e
      | .ok y =>
        match G.f t x u with
        | .error e => .error e
        | .ok x' =>
          match simulate G uf ts x' with
          | .error e => .error e
          | .ok rest => .ok ((x, u, y) :: rest)

/-- the maps are homogeneous of degree 1 in `(x, u)`: scaling state and input by `c ≠ 0` scales
update and output by `c` and keeps an error an error (linear maps, possibly time-varying; in the
polynomial systems of the run-time layer: every term of degree exactly 1 in the signals). -/
def Homog (G : IOSys σ ι o K) : Prop :=
  ∀ (c : K), c ≠ 0 → ∀ (t : K) (x : σ → K) (u : ι → K),
    G.f t (c • x) (c • u) = (G.f t x u).map (c • ·) ∧
    G.h t (c • x) (c • u) = (G.h t x u).map (c • ·)

/-! ### linearisation by forward differences -/

/-- evaluate `g 0, g 1, …` in order, stop at the first error. -/
def seqFin {α : Type*} : {n : Nat} → (Fin n → Except Err α) → Except Err (Fin n → α)
  | 0, _ => .ok Fin.elim0
  | _ + 1, g =>
    match g 0 with
    | .error e => .error e
    | .ok a =>
      match seqFin (fun i => g i.succ) with
      | .error e => .error e
      | .ok r => .ok (Fin.cons a r)

/-- `NonlinearIOSystem.linearize(x0, u0, t, eps)`: column `j` of `A` is
`(f(x0 + eps e_j, u0) - f(x0, u0)) / eps`, likewise `C`, `B`, `D`. -/
def linearize {n m : Nat} (G : IOSys (Fin n) (Fin m) o K) (t : K) (x0 : Fin n → K) (u0 : Fin m → K)
    (eps : K) : Except Err (SS (Fin n) (Fin m) o K) :=
  match G.h t x0 u0 with
  | .error e => .error e
  | .ok H0 =>
  match G.f t x0 u0 with
  | .error e => .error e
  | .ok F0 =>
  match seqFin fun j => G.f t (x0 + Pi.single j eps) u0 with
  | .error e => .error e
  | .ok Ac =>
  match seqFin fun j => G.h t (x0 + Pi.single j eps) u0 with
  | .error e => .error e
  | .ok Cc =>
  match seqFin fun j => G.f t x0 (u0 + Pi.single j eps) with
  | .error e => .error e
  | .ok Bc =>
  match seqFin fun j => G.h t x0 (u0 + Pi.single j eps) with
  | .error e => .error e
  | .ok Dc =>
    .ok ⟨fun i j => (Ac j i - F0 i) / eps, fun i j => (Bc j i - F0 i) / eps,
         fun i j => (Cc j i - H0 i) / eps, fun i j => (Dc j i - H0 i) / eps⟩

/-! ### interconnections -/

/-- the `while cycle_count > 0` loop of `_compute_static_io`: `F ul` computes the subsystem
outputs `yl` from the current subsystem inputs `ul` and the new inputs `connect_map @ yl +
input_map @ u`; stop when the inputs did not change; after `c` rounds without a fixed point
raise "algebraic loop detected". -/
def iterate {U Y : Type*} [DecidableEq U] (F : U → Except Err (Y × U)) : Nat → U → Except Err (U × Y)
  | 0, _ => .error .illPosed
  | c + 1, ul =>
    match F ul with
    | .error e => .error e
    | .ok r => if ul = r.2 then .ok (ul, r.1) else iterate F c r.2

section IC
variable [Fintype ι] [Fintype ι₁] [Fintype ι₂] [Fintype o₁] [Fintype o₂]

/-- one pass over a single subsystem. -/
def step1 (G : IOSys σ₁ ι₁ o₁ K) (Cm : Matrix ι₁ o₁ K) (Im : Matrix ι₁ ι K)
    (t : K) (x : σ₁ → K) (u : ι → K) (ul : ι₁ → K) : Except Err ((o₁ → K) × (ι₁ → K)) :=
  match G.h t x ul with
  | .error e => .error e
  | .ok y => .ok (y, Cm.mulVec y + Im.mulVec u)

/-- one pass over the two subsystems of the list. -/
def step2 (G₁ : IOSys σ₁ ι₁ o₁ K) (G₂ : IOSys σ₂ ι₂ o₂ K)
    (Cm : Matrix (ι₁ ⊕ ι₂) (o₁ ⊕ o₂) K) (Im : Matrix (ι₁ ⊕ ι₂) ι K)
    (t : K) (x : σ₁ ⊕ σ₂ → K) (u : ι → K) (ul : ι₁ ⊕ ι₂ → K) :
    Except Err ((o₁ ⊕ o₂ → K) × (ι₁ ⊕ ι₂ → K)) :=
  match G₁.h t (x ∘ Sum.inl) (ul ∘ Sum.inl) with
  | .error e => .error e
  | .ok y₁ =>
    match G₂.h t (x ∘ Sum.inr) (ul ∘ Sum.inr) with
    | .error e => .error e
    | .ok y₂ => .ok (Sum.elim y₁ y₂, Cm.mulVec (Sum.elim y₁ y₂) + Im.mulVec u)

variable [DecidableEq K] [DecidableEq ι₁] [DecidableEq ι₂]

/-- `InterconnectedSystem` with one subsystem (`cycle_count = 2`). -/
def ic1 (G : IOSys σ₁ ι₁ o₁ K) (Cm : Matrix ι₁ o₁ K) (Im : Matrix ι₁ ι K)
    (Om : Matrix o (o₁ ⊕ ι₁) K) : IOSys σ₁ ι o K where
  f t x u :=
    match iterate (step1 G Cm Im t x u) 2 (Im.mulVec u) with
    | .error e => .error e
    | .ok r => G.f t x r.1
  h t x u :=
    match iterate (step1 G Cm Im t x u) 2 (Im.mulVec u) with
    | .error e => .error e
    | .ok r => .ok (Om.mulVec (Sum.elim r.2 r.1))

/-- `InterconnectedSystem` with two subsystems (`cycle_count = 3`): `_rhs` and `_out`. -/
def ic2 (G₁ : IOSys σ₁ ι₁ o₁ K) (G₂ : IOSys σ₂ ι₂ o₂ K)
    (Cm : Matrix (ι₁ ⊕ ι₂) (o₁ ⊕ o₂) K) (Im : Matrix (ι₁ ⊕ ι₂) ι K)
    (Om : Matrix o ((o₁ ⊕ o₂) ⊕ (ι₁ ⊕ ι₂)) K) : IOSys (σ₁ ⊕ σ₂) ι o K where
  f t x u :=
    match iterate (step2 G₁ G₂ Cm Im t x u) 3 (Im.mulVec u) with
    | .error e => .error e
    | .ok r =>
      match G₁.f t (x ∘ Sum.inl) (r.1 ∘ Sum.inl) with
      | .error e => .error e
      | .ok x₁ =>
        match G₂.f t (x ∘ Sum.inr) (r.1 ∘ Sum.inr) with
        | .error e => .error e
        | .ok x₂ => .ok (Sum.elim x₁ x₂)
  h t x u :=
    match iterate (step2 G₁ G₂ Cm Im t x u) 3 (Im.mulVec u) with
    | .error e => .error e
    | .ok r => .ok (Om.mulVec (Sum.elim r.2 r.1))

end IC

/-! ### the operators -/

section Ops
variable [DecidableEq K]

/-- `self * other` (`__mul__`; also `other.__rmul__(self)`): system list `(other, self)`,
`connect_map = [[0, 0], [I, 0]]`, inputs of `other`, outputs of `self`. -/
def mul [Fintype ι] [DecidableEq ι] [Fintype ι₁] [DecidableEq ι₁] [Fintype o] [DecidableEq o]
    (G₁ : IOSys σ₁ ι₁ o K) (G₂ : IOSys σ₂ ι ι₁ K) : IOSys (σ₂ ⊕ σ₁) ι o K :=
  ic2 G₂ G₁ (fromBlocks 0 0 1 0) (fromRows 1 0) (fromCols (fromCols 0 1) 0)

/-- `self + other`: both subsystems get the input, the outputs are summed. -/
def add [Fintype ι] [DecidableEq ι] [Fintype o] [DecidableEq o]
    (G₁ : IOSys σ₁ ι o K) (G₂ : IOSys σ₂ ι o K) : IOSys (σ₁ ⊕ σ₂) ι o K :=
  ic2 G₁ G₂ 0 (fromRows 1 1) (fromCols (fromCols 1 1) 0)

/-- `self - other`: output list `[(0, i), (1, i, -1)]`. -/
def sub [Fintype ι] [DecidableEq ι] [Fintype o] [DecidableEq o]
    (G₁ : IOSys σ₁ ι o K) (G₂ : IOSys σ₂ ι o K) : IOSys (σ₁ ⊕ σ₂) ι o K :=
  ic2 G₁ G₂ 0 (fromRows 1 1) (fromCols (fromCols 1 (-1)) 0)

/-- `-self`: one subsystem, output list `[(0, i, -1)]`. -/
def neg [Fintype ι] [DecidableEq ι] [Fintype o] [DecidableEq o]
    (G : IOSys σ ι o K) : IOSys σ ι o K :=
  ic1 G 0 1 (fromCols (-1) 0)

/-- `self.feedback(other, sign)`: `connect_map = [[0, sign I], [I, 0]]`, inputs and outputs of
`self`. -/
def feedback [Fintype ι] [DecidableEq ι] [Fintype o] [DecidableEq o]
    (G₁ : IOSys σ₁ ι o K) (G₂ : IOSys σ₂ o ι K) (sign : K) : IOSys (σ₁ ⊕ σ₂) ι o K :=
  ic2 G₁ G₂ (fromBlocks 0 (sign • 1) 1 0) (fromRows 1 0) (fromCols (fromCols 1 0) 0)

end Ops

/-! ### re-typing -/

/-- relabel states, inputs and outputs along equivalences. -/
def reindex {σ' ι' o' : Type*} (G : IOSys σ ι o K) (es : σ ≃ σ') (ei : ι ≃ ι') (eo : o ≃ o') :
    IOSys σ' ι' o' K where
  f t x u := (G.f t (x ∘ es) (u ∘ ei)).map (· ∘ es.symm)
  h t x u := (G.h t (x ∘ es) (u ∘ ei)).map (· ∘ eo.symm)

end IOSys

end CtrlVerif
