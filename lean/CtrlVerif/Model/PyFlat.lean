/-
Meaning of the further NumPy / python-control primitives that `harness/core/py2lean_flat.py` emits when
it translates `LinearFlatSystem.__init__ / forward / reverse` (control/flatsys/linflat.py),
`BasisFamily.var_ncoefs` (basis.py), `_basis_flag_matrix` and the boundary-condition statements of
`point_to_point` (flatsys.py) and `SystemTrajectory.eval` (systraj.py) into Lean
(`Generated/Flat*.lean`).  Hand-written; together with the translator and the primitive files it builds
on (`Model/PyMat.lean`: untyped 2-D arrays `PMat`, `Model/PyCanon.lean`: `X[i, j] = v`,
`Model/PyArith.lean`: `range`, Python indexing of lists) this file is the trusted base of the
source-text tie of property C20 (notes/NOTES-py2lean-flat.md, DESIGN §10.3).

* a 1-D float array (`x`, `u`, a flag `zflag[i]`, `alpha`, `self.F`) is a `List K`; a flat flag
  (a Python list with one 1-D array per flat output) is a `List (List K)`; indexing is Python
  indexing (`PyArith.getItem / setItem`: negative = from the end, out of range = `IndexError`).
  Floats are EXACT elements of a field `K` (DESIGN §3.1), Python ints are `Int`, sizes `Nat`.
* `PyLinFlat K` — a `LinearFlatSystem` object: its `StateSpace` part (what
  `StateSpace.__init__(self, linsys, **kwargs)` stores; names and labels are not modelled) and the four
  attributes `F` (1-D), `T`, `Tinv`, `Cf` (2-D) that `__init__` assigns.
* `PyTraj K` — a `SystemTrajectory` object: `nstates`, `ninputs`, `basis`, `coeffs` (one 1-D array
  per flat output), `flaglen`.  Its `system` is represented by the `reverse` method of the system, a
  PARAMETER of the generated `eval`.
* a basis object is a `Basis K` (the TYPE of `Model/Flat.lean`: `PolyFamily(N, T)` / `BezierFamily(N, T)`;
  none of the model's functions on it is used here).  For these two families `basis.nvars` is `None`
  (`BasisFamily.__init__` sets it, the two subclasses do not change it), `basis.N` is `N`.
* every operation NumPy rejects is an error (`Except Err`): shapes that do not fit are `shape`
  (`ValueError`), an index out of range is `indexRange` (`IndexError`), a singular matrix `illPosed`.
  NumPy BROADCASTING between arrays of different shapes is not modelled: such an operation is an
  error here (the only place where the translated code could broadcast, `A @ x + B @ u` in `forward`
  for an input with other than one entry, then raises in `.item()` anyway).
* `numpy.linalg.lstsq` is a PARAMETER of the generated boundary-condition block (`LstsqFn`): a function
  from the matrix and the right-hand side to the solution and the rank it reports; its contract
  (minimum-norm solution) is a hypothesis of the theorems that need it, never an axiom.
-/
import CtrlVerif.Model.PyCanon
import CtrlVerif.Model.DtPred
import CtrlVerif.Model.Flat

namespace CtrlVerif

open Matrix

/-- a `LinearFlatSystem` object. -/
structure PyLinFlat (K : Type) where
  /-- the `StateSpace` part (`self.A … self.D`, `self.dt`, `self.nstates`, `self.ninputs`, …) -/
  sys : DSS K
  /-- `self.F`, a 1-D array -/
  F : List K
  /-- `self.T` -/
  T : PMat K
  /-- `self.Tinv` -/
  Tinv : PMat K
  /-- `self.Cf` -/
  Cf : PMat K

/-- a `SystemTrajectory` object (without its `system`, whose `reverse` is a parameter of `eval`). -/
structure PyTraj (K : Type) where
  nstates : Nat
  ninputs : Nat
  basis : Basis K
  /-- `self.coeffs`: one 1-D array per flat output -/
  coeffs : List (List K)
  /-- `self.flaglen`: one int per flat output -/
  flaglen : List Int

/-- `numpy.linalg.lstsq(M, Z, rcond=None)`: the solution and the rank (the residuals and the singular
values are not used by the translated statements). -/
abbrev LstsqFn (K : Type) := PMat K → List K → Except Err (List K × Int)

namespace PyFlat

variable {K : Type} [Field K]

/-- `X[::-1, ::]`: the rows in reverse order. -/
def flipRows (X : PMat K) : PMat K := ⟨X.r, X.c, Matrix.of fun i j => X.M (Fin.rev i) j⟩

/-- `X[i, :]` for a Python int `i` as a 1-D array (negative: from the end; `IndexError`). -/
def row (X : PMat K) (i : Int) : Except Err (List K) :=
  match PyArith.normIdx X.r i with
  | .ok a => if h : a < X.r then .ok (List.ofFn fun j => X.M ⟨a, h⟩ j) else .error .indexRange
  | .error e => .error e

/-- `X.item()` of a 2-D array: the only entry (`ValueError` unless there is exactly one). -/
def item (X : PMat K) : Except Err K :=
  if h : X.r = 1 ∧ X.c = 1 then .ok (X.M ⟨0, by omega⟩ ⟨0, by omega⟩) else .error .shape

/-- `np.reshape(x, (-1, 1))` of a 1-D array: a column. -/
def colOf (x : List K) : PMat K := ⟨x.length, 1, Matrix.of fun i _ => x.get i⟩

/-- `np.reshape(x, (1, -1))` of a 1-D array: a row. -/
def rowOf (x : List K) : PMat K := ⟨1, x.length, Matrix.of fun _ j => x.get j⟩

/-- `X @ v` for a 2-D array and a 1-D array: a 1-D array (`ValueError` unless the sizes fit). -/
def matVec (X : PMat K) (v : List K) : Except Err (List K) :=
  if h : v.length = X.c then .ok (List.ofFn (X.M *ᵥ fun j => v.get (Fin.cast h.symm j)))
  else .error .shape

/-- `u @ v` for two 1-D arrays: the inner product (`ValueError` unless the lengths agree). -/
def dot (u v : List K) : Except Err K :=
  if h : v.length = u.length then .ok ((fun i => u.get i) ⬝ᵥ fun i => v.get (Fin.cast h.symm i))
  else .error .shape

/-- `xs[lo:hi]` on a 1-D array / list (Python slice with step 1: clipped, never raises). -/
def sliceList {α : Type} (xs : List α) (lo hi : Option Int) : List α :=
  let a := PMat.sliceBound xs.length 0 lo
  let b := PMat.sliceBound xs.length xs.length hi
  (xs.drop a).take (b - a)

/-- `np.reshape(x, n)` of a 1-D array to the shape `(n,)` (`ValueError` unless it has `n` entries). -/
def reshapeVec (x : List K) (n : Nat) : Except Err (List K) :=
  if x.length = n then .ok x else .error .shape

/-- `np.reshape(a, n)` of a number to the shape `(n,)` (`ValueError` unless `n = 1`). -/
def reshapeNum (a : K) (n : Nat) : Except Err (List K) :=
  if n = 1 then .ok [a] else .error .shape

/-- `np.zeros(n)` for a Python int (`ValueError` for a negative size). -/
def zeros1 (n : Int) : Except Err (List K) :=
  if n < 0 then .error .shape else .ok (List.replicate n.toNat 0)

/-- `itertools.product(a, b)`: all pairs, the second component running fastest. -/
def product {α β : Type} (a : List α) (b : List β) : List (α × β) :=
  a.flatMap fun x => b.map fun y => (x, y)

/-- `enumerate(xs)`: the elements with their positions as Python ints. -/
def enumerate {α : Type} (xs : List α) : List (Int × α) :=
  xs.zipIdx.map fun p => ((p.2 : Int), p.1)

/-- `X[:, j] = v` (the updated array) for a Python int `j` and a 1-D array `v` with one entry per
row (`IndexError` for a column out of range; NumPy would broadcast a one-entry `v`, which is an
error here). -/
def setCol (X : PMat K) (j : Int) (v : List K) : Except Err (PMat K) :=
  match PyArith.normIdx X.c j with
  | .ok b =>
    if h : v.length = X.r then
      .ok ⟨X.r, X.c, Matrix.of fun i' j' => if j'.val = b then v.get (Fin.cast h.symm i') else X.M i' j'⟩
    else .error .shape
  | .error e => .error e

/-- `basis.N` -/
def basisN (bs : Basis K) : Nat :=
  match bs with
  | .poly N _ => N
  | .bezier N _ => N

end PyFlat

end CtrlVerif
