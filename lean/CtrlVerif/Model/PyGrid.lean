/-
Meaning of the Python / NumPy primitives that `harness/core/py2lean_grid.py` emits when it translates
`control.freqplot._default_frequency_range`, `_determine_omega_vector`, the grid statements of
`nyquist_response` (property C13).
Hand-written, part of the trusted base of the source-text tie (DESIGN §10.3, notes/NOTES-py2lean-grid.md).

Value model: a Python `float` / NumPy float64 is an element of an ordered field `K` with floor, EXACT
arithmetic; a 1-D float array (also a Python list of floats) is a `List K`; a boolean array a `List Bool`.
`/` is the division of the field when NumPy evaluates it (no exception in NumPy), `pdiv` when both operands are
Python scalars (`ZeroDivisionError`).  A system is the record `Sys` of what the translated code reads of it.
External functions (`np.log10`, `np.log`, `10 ** x`, `math.pi`, the configuration dictionary) are the fields of `Ext`:
parameters of every generated function, never assumptions of the logic.
-/
import CtrlVerif.Model.PyNyq
import CtrlVerif.Model.DtPred

namespace CtrlVerif.PyGrid

/-- what `_default_frequency_range` / `nyquist_response` read of one system -/
structure Sys (K : Type) where
  /-- `isinstance(sys, FrequencyResponseData)` -/
  frd : Bool
  /-- `sys.dt` -/
  dt : Dt
  /-- `np.abs(sys.poles())` -/
  absPoles : List K
  /-- `np.abs(sys.zeros())` -/
  absZeros : List K
  /-- `sys.omega` (frequency response data) -/
  omega : List K
  /-- `sys.issiso()` -/
  siso : Bool
  /-- `sys._ifunc is None` -/
  ifuncNone : Bool

/-- the first argument: one system, or a list / tuple of systems -/
inductive SysArg (K : Type) where
  | one (s : Sys K)
  | many (l : List (Sys K))

/-- a frequency argument (`omega`, `omega_limits`): `None`, a list / tuple, an array -/
inductive OmArg (K : Type) where
  | none
  | seq (l : List K)
  | arr (l : List K)

/-- external functions and constants -/
structure Ext (K : Type) where
  /-- `np.log10` -/
  log10 : K → K
  /-- `np.log` -/
  ln : K → K
  /-- `10 ** x` -/
  pow10 : K → K
  /-- `math.pi` = `np.pi` -/
  pi : K
  /-- `config.defaults.get(key, defval)` for a float-valued key -/
  cfgK : String → K → K
  /-- `config.defaults.get(key, None)` for an int-valued key -/
  cfgN : String → Option ℕ

variable {K : Type}

/-- `hasattr(x, '__iter__')`, `isinstance(x, (list, tuple))` -/
def hasIter : SysArg K → Bool
  | .one _ => false
  | .many _ => true

/-- `(x,)` / `[x]` of a single system (a sequence of systems inside a sequence: the loop body then fails on the
inner list, `AttributeError`) -/
def single : SysArg K → Except Err (SysArg K)
  | .one s => .ok (.many [s])
  | .many _ => .error .badArg

/-- the items a `for` loop / `enumerate` visits (`TypeError: object is not iterable` for a single system) -/
def iter : SysArg K → Except Err (List (Sys K))
  | .one _ => .error .badArg
  | .many l => .ok l

/-- `argval if argval is not None else default` (`config._get_param`) -/
def getParam {α : Type} (d : α) : Option α → α
  | none => d
  | some v => v

/-- the same with a default that may itself be `None` -/
def getParamO {α : Type} (d : Option α) : Option α → Option α
  | none => d
  | some v => some v

/-- truth value of an `int`-or-`None` -/
def truthyN : Option ℕ → Bool
  | some n => decide (n ≠ 0)
  | none => false

/-- an `int`-or-`None` where an `int` is required (`TypeError` for `None`) -/
def natOf : Option ℕ → Except Err ℕ
  | some n => .ok n
  | none => .error .badArg

def OmArg.isNone : OmArg K → Bool
  | .none => true
  | _ => false

/-- `isinstance(x, (list, tuple))` -/
def OmArg.isSeq : OmArg K → Bool
  | .seq _ => true
  | _ => false

/-- `len(x)` (`TypeError` for `None`) -/
def OmArg.len : OmArg K → Except Err ℕ
  | .none => .error .badArg
  | .seq l => .ok l.length
  | .arr l => .ok l.length

/-- `np.asarray(x)` / `np.copy(x)` as a 1-D float array (`None` is not one) -/
def OmArg.toArr : OmArg K → Except Err (List K)
  | .none => .error .badArg
  | .seq l => .ok l
  | .arr l => .ok l

/-- `a[i]` for a literal `i ≥ 0` -/
def item (l : List K) (i : ℕ) : Except Err K :=
  match l[i]? with
  | some x => .ok x
  | none => .error .indexRange

/-- `a[i] = v` for a literal `i ≥ 0` on an array the function owns -/
def setItem (l : List K) (i : ℕ) (v : K) : Except Err (List K) :=
  if i < l.length then .ok (l.set i v) else .error .indexRange

section field
variable [Field K]

/-- `np.linspace(a, b, n)` -/
def linspace (a b : K) (n : ℕ) : List K :=
  if n = 1 then [a]
  else (List.range n).map fun (k : ℕ) => a + (k : K) * ((b - a) / ((n : K) - 1))

/-- `np.logspace(a, b, num=n, endpoint=True)`: `10 ** np.linspace(a, b, n)` -/
def logspace (pow10 : K → K) (a b : K) (n : ℕ) : List K := (linspace a b n).map pow10

/-- `a / b` of two Python scalars -/
def pdiv [DecidableEq K] (a b : K) : Except Err K := if b = 0 then .error .zeroDen else .ok (a / b)

end field

section order
variable [LinearOrder K]

/-- `np.min(a)` / `min(a)` of a sequence (`ValueError` when empty) -/
def minOf : List K → Except Err K
  | [] => .error .badArg
  | a :: t => .ok (t.foldl min a)

/-- `np.max(a)` / `max(a)` of a sequence (`ValueError` when empty) -/
def maxOf : List K → Except Err K
  | [] => .error .badArg
  | a :: t => .ok (t.foldl max a)

end order

/-- `np.isclose(a, b)` with the default tolerances `rtol = 1e-5`, `atol = 1e-8` -/
def isclose [Field K] [LinearOrder K] (a b : K) : Bool :=
  decide (|a - b| ≤ 1 / 100000000 + 1 / 100000 * |b|)

/-- `np.abs(x / (1j * c))` for real `x`, `c`: `|x / c|` -/
def absDivJ [Field K] [LinearOrder K] (x c : K) : K := |x / c|

/-- `sys.dt` used as a number (`True` is `1`; `None`: `TypeError`) -/
def dtNum [Field K] : Dt → Except Err K
  | .none => .error .badArg
  | .cont => .ok 0
  | .dtrue => .ok 1
  | .disc h => .ok (h : K)

/-- `try: x except NotImplementedError: h` -/
def catchNotImpl {α : Type} (x h : Except Err α) : Except Err α :=
  match x with
  | .error .notImplemented => h
  | r => r

end CtrlVerif.PyGrid
