/-
Model of the timebase bookkeeping of python-control (property C05): `_process_dt_keyword`
(control/iosys.py), the `dt` handling of the class constructors, and for every operator /
factory / transform function the expression the *code* uses for the timebase of the result.
Core Lean only (no Mathlib): the same definitions are executed by the driver.

Where the unchanged code has a defect with respect to C05 (FRD operators and `_convert_to_frd`
drop `dt`; `frd(sys)` of a system with `dt=None` takes the config default; `model_reduction`,
`nlsys(StateSpace)` and `TransferFunction.__pow__(0)` build the result without `dt`) the model is
the repaired behaviour; each such place is marked `-- FIXED:`.
-/
import CtrlVerif.Model.Dt

namespace CtrlVerif

/-! ### `_process_dt_keyword` -/

/-- a value given for `dt`: `None`, `True`, an `int`/`float`, or anything else (str, complex,
`np.int64`, …).  (`False` is accepted by the code and behaves like `0`; not modelled.) -/
inductive DtArg where
  | none
  | btrue
  | num (q : Rat)
  | other
  deriving DecidableEq, Repr, Inhabited

/-- the validation at the end of `_process_dt_keyword` ("invalid timebase") and the reading of an
accepted value as a timebase. -/
def DtArg.check : DtArg → Except Err Dt
  | .none => .ok .none
  | .btrue => .ok .dtrue
  | .num q => if q < 0 then .error .badArg else if q = 0 then .ok .cont else .ok (.disc q)
  | .other => .error .badArg

/-- a timebase as a `dt=` value. -/
def Dt.toArg : Dt → DtArg
  | .none => .none
  | .cont => .num 0
  | .dtrue => .btrue
  | .disc h => .num h

/-- `_process_dt_keyword(keywords, defaults, static)`; `kw` / `dflt` are `some v` when the key
`'dt'` is present in the respective dictionary, `cfg` is `config.defaults['control.default_dt']`. -/
def processDt (kw dflt : Option DtArg) (static : Bool) (cfg : DtArg) : Except Err Dt :=
  let dt : DtArg :=
    if static && kw.isNone && dflt.isNone then .none
    else match kw with
      | some v => v
      | none => match dflt with
        | some v => v
        | none => cfg
  dt.check

/-- `_process_iosys_keywords` followed by `InputOutputSystem.__init__(dt=dt)`, which runs
`_process_dt_keyword` a second time on the value found. -/
def ctorDt (kw dflt : Option DtArg) (static : Bool) (cfg : DtArg) : Except Err Dt := do
  let d ← processDt kw dflt static cfg
  processDt (some d.toArg) Option.none false cfg

/-- a constructor called with an explicit timebase `d` (`StateSpace(A, B, C, D, dt)`,
`TransferFunction(num, den, dt)`, `FRD(data, omega, dt=dt)`, `InterconnectedSystem(..., dt=dt)`). -/
def givenDt (d : Dt) (cfg : DtArg) : Except Err Dt := ctorDt (some d.toArg) Option.none false cfg

/-! ### classes, systems, operands -/

inductive Cls where
  | ss | tf | frd | nl | ic
  deriving DecidableEq, Repr, Inhabited

def Cls.toString : Cls → String
  | .ss => "ss" | .tf => "tf" | .frd => "frd" | .nl => "nl" | .ic => "ic"

/-- what the timebase calculus sees of a system. -/
structure Sys where
  cls : Cls
  dt : Dt
  deriving DecidableEq, Repr, Inhabited

/-- an operand of a binary operation. -/
inductive Arg where
  | sys (s : Sys)
  | scalar
  | array
  deriving DecidableEq, Repr, Inhabited

/-- the timebase an operand brings into an operation (`None` for constants). -/
def Arg.dt : Arg → Dt
  | .sys s => s.dt
  | _ => .none

/-- factory call `ss(A,B,C,D[,dt=…])`, `tf(num,den[,dt=…])`, `frd(data,omega[,dt=…])`,
`nlsys(updfcn,outfcn,…[,dt=…])`; `ic` is `interconnect([nlsys(...)], …)` of one such system.
Only `StateSpace` and `TransferFunction` pass `static` on. -/
def factoryDt (c : Cls) (static : Bool) (kw : Option DtArg) (cfg : DtArg) : Except Err Dt :=
  match c with
  | .ss | .tf => ctorDt kw Option.none static cfg
  | .frd | .nl => ctorDt kw Option.none false cfg
  | .ic => do
    let d ← ctorDt kw Option.none false cfg
    let d' ← common .none d            -- InterconnectedSystem.__init__: fold from `dt=None`
    givenDt d' cfg

/-! ### conversions used inside the operators -/

/-- `_convert_to_statespace(sys)`: `StateSpace` as is, `TransferFunction` → `StateSpace(.., sys.dt)`,
constants → static `StateSpace([],[],[],D)` (timebase `None` by the static rule); FRD and
non-linear systems raise `TypeError`. -/
def toSS (a : Arg) (cfg : DtArg) : Except Err Dt :=
  match a with
  | .sys ⟨.ss, d⟩ => .ok d
  | .sys ⟨.tf, d⟩ => givenDt d cfg
  | .sys _ => .error .notImplemented
  | _ => ctorDt Option.none Option.none true cfg

/-- `_convert_to_transfer_function(sys)`: TF as is, SS → `TransferFunction(num, den, sys.dt)`,
constants → static `TransferFunction(num, den)`; FRD / others raise `TypeError`. -/
def toTF (a : Arg) (cfg : DtArg) : Except Err Dt :=
  match a with
  | .sys ⟨.tf, d⟩ => .ok d
  | .sys ⟨.ss, d⟩ => givenDt d cfg
  | .sys _ => .error .notImplemented
  | _ => ctorDt Option.none Option.none true cfg

/-- `_convert_to_frd(sys, omega)`: FRD as is, LTI → `FRD(.., dt=sys.dt)`, constants →
`FRD(.., dt=None)`; anything else raises `TypeError`.
-- FIXED: the unchanged code builds all three without `dt` (config default). -/
def toFRD (a : Arg) (cfg : DtArg) : Except Err Dt :=
  match a with
  | .sys ⟨.frd, d⟩ => .ok d
  | .sys ⟨.ss, d⟩ => givenDt d cfg
  | .sys ⟨.tf, d⟩ => givenDt d cfg
  | .sys _ => .error .notImplemented
  | _ => givenDt .none cfg

/-- `_convert_to_iosystem(sys)`: I/O systems as is, constants → `NonlinearIOSystem(.., dt=None)`. -/
def toIO (a : Arg) (cfg : DtArg) : Except Err Sys :=
  match a with
  | .sys s => .ok s
  | _ => do let d ← givenDt .none cfg; .ok ⟨.nl, d⟩

/-- one step of the loop in `InterconnectedSystem.__init__`: transfer functions are converted to
state space (same timebase), `dt = common_timebase(dt, sys.dt)`, then systems without states
(FRD) are rejected with `TypeError`. -/
def icStep (cfg : DtArg) (acc : Dt) (s : Sys) : Except Err Dt := do
  let sd ← (if s.cls = .tf then givenDt s.dt cfg else .ok s.dt)
  let d ← common acc sd
  if s.cls = .frd then .error .notImplemented else .ok d

/-- `InterconnectedSystem(syslist, dt=kw)`: `dt = kwargs.pop('dt', None)`, fold, constructor. -/
def icDt (kw : Option Dt) (l : List Sys) (cfg : DtArg) : Except Err Sys := do
  let d ← l.foldlM (icStep cfg) (kw.getD .none)
  let d' ← givenDt d cfg
  .ok ⟨.ic, d'⟩

/-! ### special methods; `none` = the method returns `NotImplemented` -/

abbrev Meth := Except Err (Option Sys)

def isConst : Arg → Bool
  | .sys _ => false
  | _ => true

def mkSys (c : Cls) (d : Except Err Dt) (cfg : DtArg) : Meth := do
  let x ← d
  let y ← givenDt x cfg
  .ok (some ⟨c, y⟩)

/-- `StateSpace.__add__` / `__mul__` (same timebase logic): TF converted, constants use `self.dt`,
non-`StateSpace` → `NotImplemented`, else `common_timebase(self.dt, other.dt)`. -/
def ssAddMul (self : Dt) (other : Arg) (cfg : DtArg) : Meth :=
  match other with
  | .sys ⟨.tf, d⟩ => mkSys .ss (do let o ← givenDt d cfg; common self o) cfg
  | .sys ⟨.ss, d⟩ => mkSys .ss (common self d) cfg
  | .sys _ => .ok Option.none
  | _ => mkSys .ss (.ok self) cfg

/-- `StateSpace.__rmul__`: TF converted, constants use `self.dt`, non-`StateSpace` →
`NotImplemented`, else `other * self`. -/
def ssRmul (self : Dt) (other : Arg) (cfg : DtArg) : Meth :=
  match other with
  | .sys ⟨.tf, d⟩ => mkSys .ss (do let o ← givenDt d cfg; common o self) cfg
  | .sys ⟨.ss, d⟩ => mkSys .ss (common d self) cfg
  | .sys _ => .ok Option.none
  | _ => mkSys .ss (.ok self) cfg

/-- `TransferFunction.__add__` / `__mul__`: SS and constants converted, non-TF → `NotImplemented`. -/
def tfAddMul (self : Dt) (other : Arg) (cfg : DtArg) : Meth :=
  match other with
  | .sys ⟨.tf, d⟩ => mkSys .tf (common self d) cfg
  | .sys ⟨.ss, _⟩ => mkSys .tf (do let o ← toTF other cfg; common self o) cfg
  | .sys _ => .ok Option.none
  | _ => mkSys .tf (do let o ← toTF other cfg; common self o) cfg

/-- `TransferFunction.__rmul__`, `__truediv__`, `feedback`, `append`: `other` goes through
`_convert_to_transfer_function` (raises `TypeError` for FRD / non-linear systems). -/
def tfConv (self : Dt) (other : Arg) (cfg : DtArg) (flip : Bool) : Meth :=
  mkSys .tf (do
    let o ← toTF other cfg
    if flip then common o self else common self o) cfg

/-- FRD operators: scalars in `__mul__`, `__rmul__`, `__truediv__`, `__rtruediv__` use `self.dt`
directly; everything else goes through `_convert_to_frd`.
-- FIXED: the unchanged code constructs every result without `dt`. -/
def frdOp (self : Dt) (other : Arg) (cfg : DtArg) (scalarShortcut flip : Bool) : Meth :=
  match other, scalarShortcut with
  | .scalar, true => mkSys .frd (.ok self) cfg
  | _, _ => mkSys .frd (do
      let o ← toFRD other cfg
      if flip then common o self else common self o) cfg

/-- `NonlinearIOSystem.__add__/__radd__/__sub__/__rsub__`: `_convert_to_iosystem`, then
`InterconnectedSystem((first, second))`. -/
def nlPair (first second : Arg) (cfg : DtArg) : Meth := do
  let a ← toIO first cfg
  let b ← toIO second cfg
  let r ← icDt Option.none [a, b] cfg
  .ok (some r)

/-- `NonlinearIOSystem.__mul__(self, other)`: explicit `common_timebase(other.dt, self.dt)`, then
`InterconnectedSystem((other, self))`; `__rmul__(self, other)`: `common_timebase(self.dt, other.dt)`,
`InterconnectedSystem((self, other))`.  Both: series with `inner` feeding `outer`. -/
def nlSeries (inner outer : Arg) (cfg : DtArg) : Meth := do
  let a ← toIO inner cfg
  let b ← toIO outer cfg
  let _ ← common a.dt b.dt
  let r ← icDt Option.none [a, b] cfg
  .ok (some r)

/-- `NonlinearIOSystem.feedback(self, other)`: `dt = common_timebase(self.dt, other.dt)` is passed
as `dt=` to `InterconnectedSystem((self, other))`, which folds the subsystem timebases onto it. -/
def nlFeedback (self : Sys) (other : Arg) (cfg : DtArg) : Except Err Sys := do
  let b ← toIO other cfg
  let d ← common self.dt b.dt
  icDt (some d) [self, b] cfg

/-! ### binary operators with Python's dispatch -/

inductive BinOp where
  | add | sub | mul | div
  deriving DecidableEq, Repr, Inhabited

/-- `-x` for an operand (constants stay constants). -/
def negArg (a : Arg) (cfg : DtArg) : Except Err Arg :=
  match a with
  | .sys ⟨.ss, d⟩ => do let y ← givenDt d cfg; .ok (.sys ⟨.ss, y⟩)
  | .sys ⟨.tf, d⟩ => do let y ← givenDt d cfg; .ok (.sys ⟨.tf, y⟩)
  | .sys ⟨.frd, d⟩ => do let y ← givenDt d cfg; .ok (.sys ⟨.frd, y⟩)   -- FIXED (dropped dt)
  | .sys s => do let r ← icDt (some s.dt) [s] cfg; .ok (.sys r)
  | x => .ok x

mutual

/-- forward special method `x.__op__(other)`. -/
def fwd (fuel : Nat) (op : BinOp) (x : Sys) (other : Arg) (cfg : DtArg) : Meth :=
  match fuel with
  | 0 => .error .badArg
  | fuel + 1 =>
  match x.cls, op with
  | .ss, .add | .ss, .mul => ssAddMul x.dt other cfg
  | .ss, .sub => do                       -- `self + (-other)`
      let n ← negArg other cfg
      let r ← binop fuel .add (.sys x) n cfg
      .ok (some r)
  | .ss, .div =>                          -- `try: self * (1/other) except ValueError: NotImplemented`
      match (do let inv ← recip fuel other cfg; binop fuel .mul (.sys x) inv cfg) with
      | .ok r => .ok (some r)
      | .error .notImplemented => .error .notImplemented   -- TypeError propagates
      | .error _ => .ok Option.none
  | .tf, .add | .tf, .mul => tfAddMul x.dt other cfg
  | .tf, .sub => do
      let n ← negArg other cfg
      let r ← binop fuel .add (.sys x) n cfg
      .ok (some r)
  | .tf, .div => tfConv x.dt other cfg false
  | .frd, .add => frdOp x.dt other cfg false false
  | .frd, .sub => do
      let n ← negArg other cfg
      let r ← binop fuel .add (.sys x) n cfg
      .ok (some r)
  | .frd, .mul | .frd, .div => frdOp x.dt other cfg true false
  | _, .add => nlPair (.sys x) other cfg
  | _, .sub => nlPair (.sys x) other cfg
  | _, .mul => nlSeries other (.sys x) cfg
  | _, .div =>                            -- `self * (1/other)` for constants only
      if isConst other then nlSeries other (.sys x) cfg else .ok Option.none

/-- reflected special method `y.__rop__(other)`. -/
def rev (fuel : Nat) (op : BinOp) (y : Sys) (other : Arg) (cfg : DtArg) : Meth :=
  match fuel with
  | 0 => .error .badArg
  | fuel + 1 =>
  match y.cls, op with
  | .ss, .add => ssAddMul y.dt other cfg          -- `self + other`
  | .ss, .sub => do                               -- `other + (-self)`
      let n ← negArg (.sys y) cfg
      let r ← binop fuel .add other n cfg
      .ok (some r)
  | .ss, .mul => ssRmul y.dt other cfg
  | .ss, .div => do                               -- `other * self**-1`
      let i ← givenDt y.dt cfg
      let r ← binop fuel .mul other (.sys ⟨.ss, i⟩) cfg
      .ok (some r)
  | .tf, .add => tfAddMul y.dt other cfg
  | .tf, .sub => do
      let n ← negArg (.sys y) cfg
      let r ← binop fuel .add other n cfg
      .ok (some r)
  | .tf, .mul => tfConv y.dt other cfg true
  | .tf, .div => tfConv y.dt other cfg true       -- `other / self` after conversion
  | .frd, .add => frdOp y.dt other cfg false false
  | .frd, .sub => do
      let n ← negArg (.sys y) cfg
      let r ← binop fuel .add other n cfg
      .ok (some r)
  | .frd, .mul => frdOp y.dt other cfg true true
  | .frd, .div => frdOp y.dt other cfg true true
  | _, .add => nlPair other (.sys y) cfg
  | _, .sub => do                                 -- `other - self` after `_convert_to_iosystem`
      let o ← toIO other cfg
      let r ← binop fuel .sub (.sys o) (.sys y) cfg
      .ok (some r)
  | _, .mul => nlSeries (.sys y) other cfg
  | _, .div => .ok Option.none                    -- no `__rtruediv__`

/-- `1 / other` as used by `StateSpace.__truediv__`. -/
def recip (fuel : Nat) (other : Arg) (cfg : DtArg) : Except Err Arg :=
  match fuel with
  | 0 => .error .badArg
  | fuel + 1 =>
  match other with
  | .sys s => do
      match ← rev fuel .div s .scalar cfg with
      | some r => .ok (.sys r)
      | Option.none => .error .notImplemented
  | x => .ok x

/-- Python's binary-operator protocol: the reflected method of the right operand is tried first
when its class is a proper subclass of the left operand's class *and overrides the reflected
method* (`StateSpace` derives from `NonlinearIOSystem` and defines its own `__radd__`, `__rsub__`,
`__rmul__`, `__rtruediv__`; `InterconnectedSystem` inherits them unchanged, so it gets no
priority); otherwise forward, then (for operands of different classes) reflected; `TypeError`
when both return `NotImplemented`. -/
def binop (fuel : Nat) (op : BinOp) (a b : Arg) (cfg : DtArg) : Except Err Sys :=
  match fuel with
  | 0 => .error .badArg
  | fuel + 1 =>
  match a, b with
  | .sys x, .sys y =>
    if x.cls = .nl ∧ y.cls = .ss then do
      match ← rev fuel op y a cfg with
      | some r => .ok r
      | Option.none =>
        match ← fwd fuel op x b cfg with
        | some r => .ok r
        | Option.none => .error .notImplemented
    else do
      match ← fwd fuel op x b cfg with
      | some r => .ok r
      | Option.none =>
        if x.cls = y.cls then .error .notImplemented
        else
          match ← rev fuel op y a cfg with
          | some r => .ok r
          | Option.none => .error .notImplemented
  | .sys x, c => do
      match ← fwd fuel op x c cfg with
      | some r => .ok r
      | Option.none => .error .notImplemented
  | c, .sys y => do
      match ← rev fuel op y c cfg with
      | some r => .ok r
      | Option.none => .error .notImplemented
  | _, _ => .error .badArg

end

/-- enough fuel for every call chain of the operators above (longest: `ss / x` →
`ss * (1/x)` → `x.__rtruediv__` → `1 * x**-1`). -/
def opFuel : Nat := 12

def binDt (op : BinOp) (a b : Arg) (cfg : DtArg) : Except Err Sys := binop opFuel op a b cfg

/-! ### named binary functions -/

/-- `feedback(sys1, sys2)` / `sys1.feedback(sys2)` for a system `sys1`. -/
def feedbackDt (x : Sys) (other : Arg) (cfg : DtArg) : Except Err Sys :=
  match x.cls with
  | .ss =>
    -- `_convert_to_statespace(other)` in a bare `try`; non-StateSpace → NonlinearIOSystem.feedback
    match other with
    | .sys ⟨.frd, _⟩ | .sys ⟨.nl, _⟩ | .sys ⟨.ic, _⟩ => nlFeedback x other cfg
    | _ => do
      let o ← toSS other cfg
      let d ← common x.dt o
      let y ← givenDt d cfg
      .ok ⟨.ss, y⟩
  | .tf => do
      match ← tfConv x.dt other cfg false with
      | some r => .ok r
      | Option.none => .error .notImplemented
  | .frd => do
      match ← frdOp x.dt other cfg false false with
      | some r => .ok r
      | Option.none => .error .notImplemented
  | _ => nlFeedback x other cfg

/-- `feedback(c, sys2)` for a constant `c` (`bdalg.feedback`): `c` is converted to the class of
`sys2` (TransferFunction → TF, FRD → FRD, anything else → StateSpace), which gives it the timebase
`None`; then `sys1.feedback(sys2)`. -/
def feedbackConstDt (other : Sys) (cfg : DtArg) : Except Err Sys := do
  let c : Cls := match other.cls with
    | .tf => .tf
    | .frd => .frd
    | _ => .ss
  let d ← (match c with
    | .frd => givenDt .none cfg
    | _ => ctorDt Option.none Option.none true cfg)
  feedbackDt ⟨c, d⟩ (.sys other) cfg

/-- `sys1.append(sys2)` (`bdalg.append`): SS / TF / FRD convert `other` to their own class;
non-linear systems have no `append` (`AttributeError`); FRD.append needs `other.ninputs`. -/
def appendDt (x : Sys) (other : Arg) (cfg : DtArg) : Except Err Sys :=
  match x.cls with
  | .ss => do
      let o ← toSS other cfg
      let d ← common x.dt o
      let y ← givenDt d cfg
      .ok ⟨.ss, y⟩
  | .tf => do
      -- `combine_tf([[self, 0], [0, other]])`: fold of `common_timebase` from `None` over the
      -- blocks (the zero blocks have no `dt`), then `TransferFunction(num, den, dt=dt)`
      let o ← toTF other cfg
      let d1 ← common .none x.dt
      let d2 ← common d1 .none
      let d3 ← common d2 .none
      let d ← common d3 o
      let y ← givenDt d cfg
      .ok ⟨.tf, y⟩
  | .frd =>
      if isConst other then .error .notImplemented else do
      match ← frdOp x.dt other cfg false false with
      | some r => .ok r
      | Option.none => .error .notImplemented
  | _ => .error .notImplemented

/-- `P.lft(K[, nu, ny])` (`StateSpace.lft`, the only class that has the method; a `LinearICSystem`
is a `StateSpace`): `other = _convert_to_statespace(other)` (TF converted, constants become a static
`StateSpace` with timebase `None`, FRD / non-linear systems raise `TypeError`), then
`dt = common_timebase(self.dt, other.dt)` and `StateSpace(Ares, Bres, Cres, Dres, dt)`.  Every other
class has no attribute `lft` (`AttributeError`). -/
def lftDt (x : Sys) (other : Arg) (cfg : DtArg) : Except Err Sys :=
  match x.cls with
  | .ss => do
      let o ← toSS other cfg
      let d ← common x.dt o
      let y ← givenDt d cfg
      .ok ⟨.ss, y⟩
  | _ => .error .notImplemented

/-! ### unary operations, conversions, transforms -/

inductive UnOp where
  | neg | pow (k : Int) | getitem | copy | rename
  | toSS | toTF | toFRD | toNL        -- `ss(sys)`/`tf2ss`, `tf(sys)`/`ss2tf`, `frd(sys, omega)` / `frd(F)`, `nlsys(sys)`
  | similarity | reachable | observable | modelReduction | minreal | linearize
  | sample (ts : Rat)
  deriving DecidableEq, Repr, Inhabited

/-- `sys ** k` by the recursion of the respective `__pow__`. -/
def powDt (c : Cls) (d : Dt) (cfg : DtArg) : Nat → Int → Except Err Sys
  | 0, _ => .error .badArg
  | fuel + 1, k =>
    match c with
    | .ss =>
      if k = 1 then .ok ⟨.ss, d⟩
      else if k = 0 ∨ k = -1 then do let y ← givenDt d cfg; .ok ⟨.ss, y⟩
      else if k < -1 then do
        let i ← powDt c d cfg fuel (-1)
        powDt .ss i.dt cfg fuel (-k)
      else do
        let r ← powDt c d cfg fuel (k - 1)
        binDt .mul (.sys ⟨.ss, d⟩) (.sys r) cfg
    | .tf =>
      if k = 0 then do let y ← givenDt d cfg; .ok ⟨.tf, y⟩          -- FIXED (was `TransferFunction([1],[1])`)
      else if k > 0 then do
        let r ← powDt c d cfg fuel (k - 1)
        binDt .mul (.sys ⟨.tf, d⟩) (.sys r) cfg
      else do
        let one ← ctorDt Option.none Option.none true cfg     -- `TransferFunction([1], [1])`
        let q ← binDt .div (.sys ⟨.tf, one⟩) (.sys ⟨.tf, d⟩) cfg
        let r ← powDt c d cfg fuel (k + 1)
        binDt .mul (.sys q) (.sys r) cfg
    | .frd =>
      if k = 0 then do let y ← givenDt d cfg; .ok ⟨.frd, y⟩         -- FIXED
      else if k > 0 then do
        let r ← powDt c d cfg fuel (k - 1)
        binDt .mul (.sys ⟨.frd, d⟩) (.sys r) cfg
      else do
        let one ← givenDt d cfg                                      -- FIXED
        let q ← binDt .div (.sys ⟨.frd, one⟩) (.sys ⟨.frd, d⟩) cfg
        let r ← powDt c d cfg fuel (k + 1)
        binDt .mul (.sys q) (.sys r) cfg
    | _ => .error .notImplemented

/-- `isctime(sys)` (non-strict): `dt is None` or `dt == 0`. -/
def isCTime : Dt → Bool
  | .none | .cont => true
  | _ => false

/-- timebase (and class) of the result of a unary operation / conversion / transform. -/
def unDt (op : UnOp) (x : Sys) (cfg : DtArg) : Except Err Sys :=
  let same (c : Cls) : Except Err Sys := do let y ← givenDt x.dt cfg; .ok ⟨c, y⟩
  match op, x.cls with
  | .neg, _ => do
      match ← negArg (.sys x) cfg with
      | .sys r => .ok r
      | _ => .error .badArg
  | .pow k, c => powDt c x.dt cfg (k.natAbs + 2) k
  | .getitem, .ss | .getitem, .tf | .getitem, .frd => same x.cls
  | .getitem, _ => .error .notImplemented
  -- `copy.deepcopy` + renaming, `update_names`: no constructor runs
  | .copy, _ | .rename, _ => .ok x
  -- `ss(sys)`: copy constructor `StateSpace(sys)` sets `kwargs['dt'] = sys.dt`
  | .toSS, .ss => same .ss
  | .toSS, .tf => do                       -- `_convert_to_statespace` then `StateSpace(sys)`
      let y ← givenDt x.dt cfg
      let z ← givenDt y cfg
      .ok ⟨.ss, z⟩
  -- `tf(sys)`: `ss2tf` → `TransferFunction(num, den, sys.dt)`; TF: copy constructor with
  -- `defaults = sys` (so `'dt' in defaults`)
  | .toTF, .ss => same .tf
  | .toTF, .tf => do
      let y ← ctorDt Option.none (some x.dt.toArg) false cfg
      .ok ⟨.tf, y⟩
  -- `frd(sys, omega)`: `arg_dt = sys.dt`; `common_timebase(sys.dt, arg_dt)` when not `None`.
  -- FIXED: for `sys.dt is None` the unchanged code falls through to the config default.
  -- `frd(F)` / `FrequencyResponseData(F)` of an FRD `F` (one-argument copy constructor): `arg_dt = F.dt`,
  -- then the same two lines.
  | .toFRD, .ss | .toFRD, .tf | .toFRD, .frd => do
      let d ← (if x.dt = .none then .ok .none else common x.dt x.dt)
      let y ← givenDt d cfg
      .ok ⟨.frd, y⟩
  -- `nlsys(StateSpace)`  -- FIXED: the unchanged code does not pass `dt`
  | .toNL, .ss => same .nl
  -- `similarity_transform`, `reachable_form`, `observable_form`: `StateSpace(xsys)`
  | .similarity, .ss | .reachable, .ss | .observable, .ss => same .ss
  -- `model_reduction`: `StateSpace(Ar, Br, Cr, Dr, sys.dt)`  -- FIXED (no `dt`)
  | .modelReduction, .ss => same .ss
  | .minreal, .tf => same .tf
  -- `linearize`: `StateSpace(A, B, C, D, self.dt)` then `StateSpace(linsys, **kwargs)`
  | .linearize, .ss | .linearize, .nl | .linearize, .ic => do
      let y ← givenDt x.dt cfg
      let z ← givenDt y cfg
      .ok ⟨.ss, z⟩
  -- `sys.sample(Ts)` / `c2d`: continuous-time systems only; `StateSpace(Ad, Bd, C, D, Ts)` then copy
  | .sample ts, .ss | .sample ts, .tf =>
      if isCTime x.dt then do
        let y ← ctorDt (some (.num ts)) Option.none false cfg
        let z ← givenDt y cfg
        .ok ⟨x.cls, z⟩
      else .error .badArg
  | _, _ => .error .notImplemented

/-! ### n-ary functions and expression trees -/

/-- `combine_tf([[b₁, b₂, …]])`: fold of `common_timebase` from `None` over the blocks
(constants count as `None`), `_ensure_tf` re-checks each block, `TransferFunction(num, den, dt=dt)`. -/
def combineTfDt (blocks : List Arg) (cfg : DtArg) : Except Err Sys := do
  let d ← blocks.foldlM (fun acc b => common acc b.dt) .none
  let _ ← blocks.foldlM (fun (_ : Unit) b =>
    match b with
    | .sys s => if d = .none then .ok () else (do let _ ← common s.dt d; .ok ())
    | _ => .ok ()) ()
  let y ← givenDt d cfg
  .ok ⟨.tf, y⟩

/-- `series(s₁, …, sₙ)` = `reduce(lambda x, y: y * x)`, `parallel` = `reduce(x + y)`,
`append` = repeated `.append`. -/
def seriesDt (first : Sys) (rest : List Arg) (cfg : DtArg) : Except Err Sys :=
  rest.foldlM (fun acc y => binDt .mul y (.sys acc) cfg) first

def parallelDt (first : Sys) (rest : List Arg) (cfg : DtArg) : Except Err Sys :=
  rest.foldlM (fun acc y => binDt .add (.sys acc) y cfg) first

def appendAllDt (first : Sys) (rest : List Arg) (cfg : DtArg) : Except Err Sys :=
  rest.foldlM (fun acc y => appendDt acc y cfg) first

/-- expression trees over systems and constants. -/
inductive Tree where
  | leaf (a : Arg)
  | neg (t : Tree)
  | bin (op : BinOp) (l r : Tree)
  | feedback (l r : Tree)
  | append (l r : Tree)
  deriving Repr, Inhabited

/-- `feedback` / `append` need a system on the left. -/
def feedbackArg (a b : Arg) (cfg : DtArg) : Except Err Sys :=
  match a with
  | .sys x => feedbackDt x b cfg
  | _ => .error .badArg

def appendArg (a b : Arg) (cfg : DtArg) : Except Err Sys :=
  match a with
  | .sys x => appendDt x b cfg
  | _ => .error .badArg

/-- `a.lft(b)`: a method of `StateSpace` only (a constant has no attribute `lft`). -/
def lftArg (a b : Arg) (cfg : DtArg) : Except Err Sys :=
  match a with
  | .sys x => lftDt x b cfg
  | _ => .error .notImplemented

def evalTree (cfg : DtArg) : Tree → Except Err Arg
  | .leaf a => .ok a
  | .neg t => do negArg (← evalTree cfg t) cfg
  | .bin op l r => do
      let a ← evalTree cfg l
      let b ← evalTree cfg r
      let s ← binDt op a b cfg
      .ok (.sys s)
  | .feedback l r => do
      let a ← evalTree cfg l
      let b ← evalTree cfg r
      let s ← feedbackArg a b cfg
      .ok (.sys s)
  | .append l r => do
      let a ← evalTree cfg l
      let b ← evalTree cfg r
      let s ← appendArg a b cfg
      .ok (.sys s)

def Tree.leaves : Tree → List Arg
  | .leaf a => [a]
  | .neg t => t.leaves
  | .bin _ l r => l.leaves ++ r.leaves
  | .feedback l r => l.leaves ++ r.leaves
  | .append l r => l.leaves ++ r.leaves

end CtrlVerif
