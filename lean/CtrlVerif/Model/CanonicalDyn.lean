/-
Run-time shaped layer of the C15 model: argument checks, the branches that raise, certified
inverses, keep/elim key processing of `model_reduction` (`_process_elim_or_keep`), following
control/canonical.py and control/modelsimp.py step by step.  The formulas themselves are the
typed definitions of `Model/Canonical.lean`.

Intermediate matrices are tabulated (`Mat.tab` / `Mat.ofTab`, proved to be the identity) so that
the driver does not re-evaluate closures.
-/
import CtrlVerif.Model.Canonical
import CtrlVerif.Model.SSDyn
import Mathlib.Data.Finset.Sort
import Mathlib.LinearAlgebra.Matrix.NonsingularInverse

namespace CtrlVerif

open Matrix

variable {K : Type} [Field K] [DecidableEq K]

/-! ### tabulation -/

namespace Mat

/-- entries of a matrix as an array of rows. -/
def tab {p m : Nat} (M : Matrix (Fin p) (Fin m) K) : Array (Array K) :=
  Array.ofFn fun i : Fin p => Array.ofFn fun j : Fin m => M i j

/-- read a table back; entries outside the table (there are none for `tab M`) read as `0`. -/
def ofTab {p m : Nat} (t : Array (Array K)) : Matrix (Fin p) (Fin m) K :=
  fun i j => if h : i.val < t.size then (if h2 : j.val < t[i.val].size then t[i.val][j.val] else 0) else 0

theorem ofTab_tab {p m : Nat} (M : Matrix (Fin p) (Fin m) K) : ofTab (tab M) = M := by
  ext i j
  simp [ofTab, tab]

end Mat

/-! ### certified inverse (DESIGN §3.4) -/

/-- Gauss–Jordan elimination on the rows of `[F | I]`: an *unverified* candidate generator; its
result is only used after the check `F * X = 1` in `certInv`. -/
def gjRows (n : Nat) (rows : Array (Array K)) : Option (Array (Array K)) := Id.run do
  let mut M := rows
  for c in [0:n] do
    let mut piv : Option Nat := none
    for r in [c:n] do
      if piv.isNone && (M.getD r #[]).getD c 0 ≠ 0 then piv := some r
    match piv with
    | none => return none
    | some r =>
      let rowr := M.getD r #[]
      let rowc := M.getD c #[]
      M := (M.setIfInBounds r rowc).setIfInBounds c rowr
      let pv := rowr.getD c 0
      let prow := rowr.map (· / pv)
      M := M.setIfInBounds c prow
      for r2 in [0:n] do
        if r2 ≠ c then
          let row2 := M.getD r2 #[]
          let f := row2.getD c 0
          if f ≠ 0 then
            M := M.setIfInBounds r2 (Array.zipWith (fun x y => x - f * y) row2 prow)
  return some M

/-- `det⁻¹ • adjugate` when `det ≠ 0`. -/
def certInvSlow {n : Nat} (F : Matrix (Fin n) (Fin n) K) : Option (Matrix (Fin n) (Fin n) K) :=
  if F.det = 0 then none else some (SS.invQ F)

/-- rows of `[F | I]`. -/
def augRows {n : Nat} (F : Matrix (Fin n) (Fin n) K) : Array (Array K) :=
  Array.ofFn fun i : Fin n =>
    Array.ofFn fun j : Fin (n + n) =>
      if h : j.val < n then F i ⟨j.val, h⟩ else if j.val - n = i.val then 1 else 0

/-- the right half of the reduced rows, read as a matrix (missing entries read as `0`; the
result is only used after the check in `certInv`). -/
def candOf {n : Nat} (M : Array (Array K)) : Matrix (Fin n) (Fin n) K :=
  fun i j => (M.getD i.val #[]).getD (n + j.val) 0

/-- the inverse of `F`, or `none` when `F` is singular: the Gauss–Jordan candidate is accepted iff
`F * X = 1`; otherwise `det`/`adjugate` decide. -/
def certInv {n : Nat} (F : Matrix (Fin n) (Fin n) K) : Option (Matrix (Fin n) (Fin n) K) :=
  match gjRows n (augRows F) with
  | some M => if F * candOf M = 1 then some (candOf M) else certInvSlow F
  | none => certInvSlow F

/-! ### `similarity_transform`, canonical forms -/

/-- result of a canonical-form routine: the system and the transformation matrix. -/
structure CanonOut (K : Type) where
  sys : DSS K
  T : Matrix (Fin sys.n) (Fin sys.n) K

namespace DSS

/-- `similarity_transform(xsys, T, timescale=c, inverse=inv)` for a `q × q` array `T`. -/
def similarity (G : DSS K) (q : Nat) (T : Matrix (Fin q) (Fin q) K) (c : K) (inv : Bool) :
    Except Err (DSS K) :=
  if h : q = G.n then
    let T' : Matrix (Fin G.n) (Fin G.n) K := T.submatrix (Fin.cast h.symm) (Fin.cast h.symm)
    match certInv T' with
    | none => .error .illPosed                      -- LinAlgError: Singular matrix
    | some Ti =>
      if c = 0 ∧ G.n ≠ 0 then .error .zeroDen       -- division by zero: no finite result
      else
        let Z := if inv then G.sys.similarityInv T' Ti c else G.sys.similarity T' Ti c
        let a := Mat.tab Z.A
        let b := Mat.tab Z.B
        let cc := Mat.tab Z.C
        pure ⟨G.n, G.p, G.m, ⟨Mat.ofTab a, Mat.ofTab b, Mat.ofTab cc, G.sys.D⟩, G.dt⟩
  else .error .shape

/-- `reachable_form(xsys)`; `ap` is what `numpy.poly(xsys.A)` returns. -/
def reachableForm (G : DSS K) (ap : List K) : Except Err (CanonOut K) :=
  if h : G.p = 1 ∧ G.m = 1 then
    if G.n = 0 then .error .indexRange               -- `zsys.B[0, 0] = 1` on an empty array
    else if ap.length ≠ G.n + 1 then .error .badArg  -- not a coefficient array of degree n
    else
      let a : Nat → K := fun k => ap.getD k 0
      if a 0 = 0 then .error .zeroDen
      else
        let S : SS (Fin G.n) (Fin 1) (Fin 1) K := G.sys.castIO h.1 h.2
        let wx := Mat.tab (SS.ctrb1 S.A S.B)
        match certInv (Mat.ofTab wx : Matrix (Fin G.n) (Fin G.n) K) with
        | none => .error .illPosed                   -- "System not controllable"
        | some Wi =>
          let wi := Mat.tab Wi
          let wz := Mat.tab (SS.ctrb1 (SS.companionR G.n a) (SS.e1col G.n))
          let tt := Mat.tab ((Mat.ofTab wz : Matrix (Fin G.n) (Fin G.n) K) * Mat.ofTab wi)
          match certInv (Mat.ofTab tt : Matrix (Fin G.n) (Fin G.n) K) with
          | none => .error .illPosed                 -- "Transformation matrix singular"
          | some Ti =>
            let cz := Mat.tab (S.C * Ti)
            pure ⟨⟨G.n, 1, 1, ⟨SS.companionR G.n a, SS.e1col G.n, Mat.ofTab cz, S.D⟩, G.dt⟩,
              Mat.ofTab tt⟩
  else .error .notImplemented

/-- `observable_form(xsys)`. -/
def observableForm (G : DSS K) (ap : List K) : Except Err (CanonOut K) :=
  if h : G.p = 1 ∧ G.m = 1 then
    if G.n = 0 then .error .indexRange
    else if ap.length ≠ G.n + 1 then .error .badArg
    else
      let a : Nat → K := fun k => ap.getD k 0
      if a 0 = 0 then .error .zeroDen
      else
        let S : SS (Fin G.n) (Fin 1) (Fin 1) K := G.sys.castIO h.1 h.2
        let wx := Mat.tab (SS.obsv1 S.A S.C)
        let wz := Mat.tab (SS.obsv1 (SS.companionO G.n a) (SS.e1row G.n))
        match certInv (Mat.ofTab wz : Matrix (Fin G.n) (Fin G.n) K) with
        | none => .error .illPosed                   -- cannot happen: `Wrz` is unitriangular
        | some Wzi =>
          let tt := Mat.tab (Wzi * (Mat.ofTab wx : Matrix (Fin G.n) (Fin G.n) K))
          let T : Matrix (Fin G.n) (Fin G.n) K := Mat.ofTab tt
          if T.det = 0 then .error .illPosed         -- "Transformation matrix singular"
          else
            let bz := Mat.tab (T * S.B)
            pure ⟨⟨G.n, 1, 1, ⟨SS.companionO G.n a, Mat.ofTab bz, SS.e1row G.n, S.D⟩, G.dt⟩, T⟩
  else .error .notImplemented

/-- the `form` argument of `canonical_form` (`'modal'` is not modelled). -/
inductive Form where
  | reachable | observable | other
  deriving DecidableEq, Repr

/-- `canonical_form(xsys, form)`. -/
def canonicalForm (G : DSS K) (form : Form) (ap : List K) : Except Err (CanonOut K) :=
  match form with
  | .reachable => reachableForm G ap
  | .observable => observableForm G ap
  | .other => .error .notImplemented

end DSS

/-! ### `model_reduction` -/

namespace Reduce

/-- one element of a keep/elim list: an offset or a signal name. -/
inductive Atom where
  | idx (i : Int)
  | name (s : String)
  deriving DecidableEq, Repr

/-- a keep/elim argument: `None`, a single offset or name, a list, or a `slice`. -/
inductive Key where
  | none
  | atom (a : Atom)
  | list (l : List Atom)
  | slice (start stop step : Option Int)
  deriving Repr

/-- `labels.index(key)`. -/
def resolveAtom (labels : List String) : Atom → Except Err Int
  | .idx i => pure i
  | .name s =>
    let i := labels.idxOf s
    if i < labels.length then pure (i : Int) else .error .unknownName

/-- `range(n)[slice(start, stop, step)]` (CPython `PySlice_AdjustIndices`). -/
def pySlice (n : Nat) (start stop step : Option Int) : Except Err (List Int) :=
  let st : Int := match step with | some v => v | none => 1
  if st = 0 then .error .badArg
  else
    let len : Int := n
    let lower : Int := if st > 0 then 0 else -1
    let upper : Int := if st > 0 then len else len - 1
    let clamp (x : Option Int) (dflt : Int) : Int :=
      match x with
      | none => dflt
      | some v => if v < 0 then max (v + len) lower else min v upper
    let s := clamp start (if st > 0 then lower else upper)
    let e := clamp stop (if st > 0 then upper else lower)
    let count : Nat :=
      if st > 0 then (if s < e then ((e - s - 1) / st + 1).toNat else 0)
      else (if e < s then ((s - e - 1) / (-st) + 1).toNat else 0)
    pure ((List.range count).map fun k => s + (k : Int) * st)

/-- `_expand_key`. -/
def expandKey (labels : List String) : Key → Except Err (List Int)
  | .none => pure []
  | .atom a => do pure [← resolveAtom labels a]
  | .list l => l.mapM (resolveAtom labels)
  | .slice a b c => pySlice labels.length a b c

/-- an offset into a vector of length `n`, Python style (`-n ≤ i < n`). -/
def normIdx (n : Nat) (i : Int) : Except Err Nat :=
  if 0 ≤ i ∧ i < n then pure i.toNat
  else if -(n : Int) ≤ i ∧ i < 0 then pure (i + n).toNat
  else .error .indexRange

/-- the selected set as the sorted duplicate-free list. -/
def canonIdx (l : List Nat) : List Nat := l.toFinset.sort (· ≤ ·)

/-- the offsets in `range(n)` that are not in `l`, ascending. -/
def complIdx (n : Nat) (l : List Nat) : List Nat := (List.range n).filter (· ∉ l)

/-- `_process_elim_or_keep`: returns `(elim, keep)`. -/
def processElimKeep (labels : List String) (elim keep : Key) :
    Except Err (List Nat × List Nat) := do
  let n := labels.length
  let e ← expandKey labels elim
  let k ← expandKey labels keep
  if e ≠ [] ∧ k ≠ [] then .error .badArg
  else if k ≠ [] then
    let k' := canonIdx (← k.mapM (normIdx n))
    pure (complIdx n k', k')
  else
    let e' := canonIdx (← e.mapM (normIdx n))
    pure (e', complIdx n e')

/-- the `method` argument. -/
inductive Method where
  | truncate | matchdc | other
  deriving DecidableEq, Repr

/-- a list of offsets below `n` as an index function. -/
def idxFn (n : Nat) (l : List Nat) (h : ∀ x ∈ l, x < n) : Fin l.length → Fin n :=
  fun i => ⟨l[i], h _ (List.getElem_mem _)⟩

end Reduce

namespace DSS

open Reduce

/-- `isdtime(strict=True)`. -/
def isDiscreteStrict : Dt → Bool
  | .dtrue => true
  | .disc _ => true
  | _ => false

/-- `model_reduction(sys, elim_states, method, elim_inputs, elim_outputs, keep_states,
keep_inputs, keep_outputs)` with the signal labels of `sys`. -/
def modelReduction (G : DSS K) (sl il ol : List String)
    (es ks ei ki eo ko : Key) (method : Method) : Except Err (DSS K) := do
  if sl.length ≠ G.n ∨ il.length ≠ G.m ∨ ol.length ≠ G.p then .error .badArg
  else
    let (elimS, keepS) ← processElimKeep sl es ks
    let (_, keepI) ← processElimKeep il ei ki
    let (_, keepO) ← processElimKeep ol eo ko
    if h : (∀ x ∈ elimS, x < G.n) ∧ (∀ x ∈ keepS, x < G.n) ∧ (∀ x ∈ keepI, x < G.m)
        ∧ (∀ x ∈ keepO, x < G.p) then
      let fk := idxFn G.n keepS h.2.1
      let fe := idxFn G.n elimS h.1
      let red : Except Err (SS (Fin keepS.length) (Fin G.m) (Fin G.p) K) :=
        if method = .matchdc ∧ elimS ≠ [] then
          if isDiscreteStrict G.dt then .error .notImplemented
          else
            let a22 := Mat.tab (G.sys.A.submatrix fe fe)
            match certInv (Mat.ofTab a22 : Matrix (Fin elimS.length) (Fin elimS.length) K) with
            | none => .error .illPosed              -- "Matrix A22 is singular"
            | some A22i => pure (G.sys.matchdc fk fe A22i)
        else if method = .truncate ∨ elimS = [] then pure (G.sys.truncate fk)
        else .error .badArg                          -- "Oops, method is not supported!"
      let R ← red
      let R' := R.select (idxFn G.p keepO h.2.2.2) (idxFn G.m keepI h.2.2.1)
      let a := Mat.tab R'.A
      let b := Mat.tab R'.B
      let c := Mat.tab R'.C
      let d := Mat.tab R'.D
      pure ⟨keepS.length, keepO.length, keepI.length,
        ⟨Mat.ofTab a, Mat.ofTab b, Mat.ofTab c, Mat.ofTab d⟩, G.dt⟩
    else .error .indexRange

end DSS

end CtrlVerif
