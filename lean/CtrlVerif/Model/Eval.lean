/-
Model of evaluation, frequency response, DC gain and the pole / zero plumbing of LTI systems
(property C04):

* `TransferFunction.horner` (control/xferfcn.py): `polyval(num, x) / polyval(den, x)` entry by
  entry, with the IEEE outcome classes of a complex division (`finite | inf | nan`);
* `StateSpace.horner` (control/statesp.py): the 0-state path, the 1-state fast path, the general
  path `C (xI - A)⁻¹ B + D` and the singular branch that consults `x ∈ self.zeros()`;
* `LTI.frequency_response` (control/lti.py): sort the frequencies, map them to `jω` or
  `exp(jω·dt)` (`freqPoint`, shared with the FRD model), evaluate;
* `LTI._dcgain`: evaluate at `0` (continuous, `dt = None`) or `1` (discrete, `dt = True`);
* `poles()` / `zeros()`: which matrix / polynomial is handed to `eigvals` / `roots`.

Deviation from the code (a defect with respect to C04, see `Props/C04.lean` and NOTES-C04.md):
the 1-state fast path of `StateSpace.horner` maps every NaN to `inf`, so a pole that is cancelled
by a zero is reported as `inf` where the general path (≥ 2 states) reports `nan`.  The model uses
the convention of the general path for every number of states; `horner1Code` is the literal code,
kept for the counterexample theorem.  Second deviation: the singular branch of the code decides
"a zero cancels the pole" by `x in self.zeros()`, an exact floating-point membership test on the
output of the QZ algorithm (it misses zeros that QZ returns with a rounding error) which moreover
raises `NotImplementedError` for non-square systems without Slycot, so that `sys(pole)` and
`dcgain()` raise.  The model decides it by the rank of the system matrix `[[A - xI, B], [C, D]]`
(what the proposed repair `_has_zero_at` computes).
-/
import CtrlVerif.Model.FRDDyn
import CtrlVerif.Model.QI
import Mathlib.LinearAlgebra.Matrix.Determinant.Basic
import Mathlib.Algebra.BigOperators.Fin
import Mathlib.Data.Matrix.Block
import Mathlib.Algebra.Order.Field.Rat

namespace CtrlVerif

open Matrix

namespace Eval

variable {K : Type} [Field K] [DecidableEq K]

/-- the outcome classes of an IEEE complex value as python-control uses them: a finite number,
"infinite" (`complex(inf, nan)` and the other patterns with an infinite component), or
`complex(nan, nan)`. -/
inductive IVal (K : Type) where
  | fin (z : K)
  | inf
  | nan
  deriving DecidableEq, Repr

/-- IEEE division on outcome classes: `n/d`, `x/0 = inf` for `x ≠ 0`, `0/0 = nan`. -/
def ieeeDiv (n d : K) : IVal K :=
  if d = 0 then (if n = 0 then .nan else .inf) else .fin (n / d)

/-- determinant by Laplace expansion along the first row (what the driver executes; equal to
`Matrix.det`, see `detFin_eq_det` in `Lemmas/Eval.lean`).  Zero entries are skipped. -/
def detFin : {n : Nat} → Matrix (Fin n) (Fin n) K → K
  | 0, _ => 1
  | _ + 1, M => ∑ j, if M 0 j = 0 then 0
      else (-1) ^ (j : ℕ) * M 0 j * detFin (M.submatrix Fin.succ j.succAbove)

/-! ### transfer functions -/

/-- `TransferFunction.horner` at one point: entry by entry `polyval(num, x) / polyval(den, x)`. -/
def tfHorner {p m : Nat} (e : Fin p → Fin m → Frac K) (x : K) : Matrix (Fin p) (Fin m) (IVal K) :=
  Matrix.of fun i j => ieeeDiv (polyval (e i j).num x) (polyval (e i j).den x)

/-! ### state space -/

/-- `xI - A`. -/
def resolv {n : Nat} (A : Matrix (Fin n) (Fin n) K) (x : K) : Matrix (Fin n) (Fin n) K :=
  x • (1 : Matrix (Fin n) (Fin n) K) - A

/-- the pencil `L - xM` of `StateSpace.zeros()` (`L = [A B; C D]`, `M = [I 0; 0 0]`) for a square
system. -/
def rosenbrock {n m : Nat} (G : SS (Fin n) (Fin m) (Fin m) K) (x : K) :
    Matrix (Fin n ⊕ Fin m) (Fin n ⊕ Fin m) K :=
  fromBlocks (G.A - x • (1 : Matrix (Fin n) (Fin n) K)) G.B G.C G.D

/-- the same pencil with rows and columns numbered `0 … n+m-1`. -/
def rosenFin {n m : Nat} (G : SS (Fin n) (Fin m) (Fin m) K) (x : K) :
    Matrix (Fin (n + m)) (Fin (n + m)) K :=
  (rosenbrock G x).submatrix finSumFinEquiv.symm finSumFinEquiv.symm

/-- re-type the outputs along `p = m`. -/
def squareOf {n p m : Nat} (h : p = m) (G : SS (Fin n) (Fin m) (Fin p) K) :
    SS (Fin n) (Fin m) (Fin m) K :=
  ⟨G.A, G.B, G.C.submatrix (Fin.cast h.symm) id, G.D.submatrix (Fin.cast h.symm) id⟩

/-- the system matrix `[[A - xI, B], [C, D]]` with rows and columns numbered from 0. -/
def sysMat {n p m : Nat} (G : SS (Fin n) (Fin m) (Fin p) K) (x : K) :
    Matrix (Fin (n + p)) (Fin (n + m)) K :=
  (fromBlocks (G.A - x • (1 : Matrix (Fin n) (Fin n) K)) G.B G.C G.D).submatrix
    finSumFinEquiv.symm finSumFinEquiv.symm

/-- all maximal minors of a wide matrix (`r ≤ c`; one minor per increasing choice of `r` columns)
vanish, i.e. the rows are linearly dependent. -/
def maxMinorsVanish {r c : Nat} (R : Matrix (Fin r) (Fin c) K) : Bool :=
  (List.sublistsLen r (List.finRange c)).all fun sel =>
    decide (detFin (Matrix.of fun (i j : Fin r) =>
      if h : j.val < sel.length then R i sel[j.val] else 0) = 0)

/-- the zero test of the singular branch: the system matrix loses rank at `x`
(`rank [[A - xI, B], [C, D]] < n + min(p, m)`, decided through the maximal minors).  For a square
system this is `det (L - xM) = 0`, i.e. `x` is a generalised eigenvalue of the pencil of
`StateSpace.zeros()` (`zeroTest_square`). -/
def zeroTest {n p m : Nat} (G : SS (Fin n) (Fin m) (Fin p) K) (x : K) : Bool :=
  if h : p = m then decide (detFin (rosenFin (squareOf h G) x) = 0)
  else if p < m then maxMinorsVanish (sysMat G x)
  else maxMinorsVanish (sysMat G x)ᵀ

/-- the value written into *every* entry by the singular branch. -/
def poleVal (isZero : Bool) : IVal K := if isZero then .nan else .inf

/-- the general path of `StateSpace.horner` at one point: `solve(xI - A, B)` raises `LinAlgError`
exactly when `xI - A` is singular; otherwise `C X + D`. -/
def ssHornerGen {n p m : Nat} (G : SS (Fin n) (Fin m) (Fin p) K) (x : K) :
    Matrix (Fin p) (Fin m) (IVal K) :=
  if detFin (resolv G.A x) = 0 then Matrix.of fun _ _ => poleVal (zeroTest G x)
  else Matrix.of fun i j => .fin ((G.C * (SS.invQ (resolv G.A x) * G.B) + G.D) i j)

/-- certified execution of the general path (DESIGN §3.4): a candidate state response `X` (from an
unverified elimination) is accepted only if `(xI - A) X = B`; then `C X + D` is the value
(`ssGenCert_eq`: whenever this returns, it returns `ssHornerGen G x`). -/
def ssGenCert {n p m : Nat} (G : SS (Fin n) (Fin m) (Fin p) K) (x : K)
    (X : Matrix (Fin n) (Fin m) K) : Option (Matrix (Fin p) (Fin m) (IVal K)) :=
  if detFin (resolv G.A x) = 0 then some (Matrix.of fun _ _ => poleVal (zeroTest G x))
  else if resolv G.A x * X = G.B then some (Matrix.of fun i j => .fin ((G.C * X + G.D) i j))
  else none

/-- the literal 1-state fast path of the code:
`out = C / (x - A[0,0]) * B + D; out[isnan(out)] = inf`: at `x = A[0,0]` every entry is NaN
(`c/0` is `inf + nan j` or `nan + nan j`, and a product with it has a NaN component), so every
entry becomes `inf`. -/
def horner1Code {p m : Nat} (G : SS (Fin 1) (Fin m) (Fin p) K) (x : K) :
    Matrix (Fin p) (Fin m) (IVal K) :=
  if x - G.A 0 0 = 0 then Matrix.of fun _ _ => .inf
  else Matrix.of fun i j => .fin (G.C i 0 / (x - G.A 0 0) * G.B 0 j + G.D i j)

/-- the 1-state fast path with the pole convention of the general path: off the pole the code's
formula; at the pole `nan` when a zero cancels it, `inf` otherwise. -/
def horner1 {p m : Nat} (G : SS (Fin 1) (Fin m) (Fin p) K) (x : K) :
    Matrix (Fin p) (Fin m) (IVal K) :=
  if x - G.A 0 0 = 0 then Matrix.of fun _ _ => poleVal (zeroTest G x)
  else Matrix.of fun i j => .fin (G.C i 0 / (x - G.A 0 0) * G.B 0 j + G.D i j)

/-- `StateSpace.horner` at one point, by the number of states as the code branches. -/
def ssHorner : {n p m : Nat} → SS (Fin n) (Fin m) (Fin p) K → K →
    Matrix (Fin p) (Fin m) (IVal K)
  | 0, _, _, G, _ => Matrix.of fun i j => .fin (G.D i j)
  | 1, _, _, G, x => horner1 G x
  | _ + 2, _, _, G, x => ssHornerGen G x

/-- `StateSpace.horner` executed with a certificate for the general path. -/
def ssHornerCert : {n p m : Nat} → SS (Fin n) (Fin m) (Fin p) K → K → Matrix (Fin n) (Fin m) K →
    Option (Matrix (Fin p) (Fin m) (IVal K))
  | 0, _, _, G, _, _ => some (Matrix.of fun i j => .fin (G.D i j))
  | 1, _, _, G, x, _ => some (horner1 G x)
  | _ + 2, _, _, G, x, X => ssGenCert G x X

/-! ### systems, `__call__`, `frequency_response`, `dcgain` -/

/-- `sys(x)` for an LTI operand (`LTI` of the FRD model: a transfer function or a state-space
system with its timebase) at one point. -/
def call1 : (L : LTI K) → K → Matrix (Fin L.p) (Fin L.m) (IVal K)
  | .tf _ _ e _, x => tfHorner e x
  | .ss _ _ _ G _, x => ssHorner G x

/-- `sys(x)` for a scalar or 1-D array `x`: point by point. -/
def call (L : LTI K) (xs : List K) : List (Matrix (Fin L.p) (Fin L.m) (IVal K)) :=
  xs.map (call1 L)

/-- `np.sort(omega)`. -/
def sortW (ws : List ℚ) : List ℚ := ws.mergeSort (fun a b => decide (a ≤ b))

/-- the points at which `frequency_response(omega)` evaluates the system. -/
def freqPoints (E : Env K) (dt : Dt) (ws : List ℚ) : List K :=
  (sortW ws).map (freqPoint E dt)

/-- `LTI.frequency_response(omega)`: the grid of the result is the sorted input, the data are the
values at `jω` / `exp(jω·dt)` in that order. -/
def freqResp (E : Env K) (L : LTI K) (ws : List ℚ) :
    List ℚ × List (Matrix (Fin L.p) (Fin L.m) (IVal K)) :=
  (sortW ws, call L (freqPoints E L.dt ws))

/-- the point of `_dcgain`: `0 if self.isctime() else 1` (`isctime()` is true for `dt = 0` and
`dt = None`). -/
def dcPoint : Dt → K
  | .cont => 0
  | .none => 0
  | .dtrue => 1
  | .disc _ => 1

/-- `sys.dcgain()`: the value at the DC point (the real-part post-processing of `_dcgain` is
`dcPost` below; `C04.dcgain_code_value`: it never changes a value). -/
def dcgain (L : LTI K) : Matrix (Fin L.p) (Fin L.m) (IVal K) :=
  call1 L (dcPoint L.dt)

/-! ### `_dcgain`: the real-part post-processing

`_dcgain` returns `zeroresp.real` when **every** entry of the zero-frequency response is real
(`np.isreal`) or has a NaN imaginary component (the `inf + nan j` / `nan + nan j` written at a
pole), and the complex array otherwise.  With real coefficients every entry passes; a
`TransferFunction` with complex coefficients can have a gain matrix in which some entries pass and
others do not.  The test reads the *components* of an IEEE complex value, so the outcome of a
division by zero is modelled one level finer than `IVal`: NumPy computes `(a + bj) / (0 + 0j)` as
`a/0 + (b/0) j`, each component `±inf` (non-zero over zero) or `nan` (`0/0`). -/

/-- what `_dcgain` reads of a scalar: `z.real`, `np.isreal z` (the imaginary component is 0) and
whether the real component is 0.  `ℚ(i)` (the driver) and `ℂ` have the obvious instance; the
theorems use only the two laws. -/
structure Parts (K : Type) [Field K] where
  re : K → K
  isReal : K → Bool
  reZero : K → Bool
  re_of_real : ∀ z, isReal z = true → re z = z
  zero_iff : ∀ z, z = 0 ↔ (reZero z = true ∧ isReal z = true)

/-- the components over `ℚ(i)`. -/
def partsQI : Parts QI where
  re z := ⟨z.re, 0⟩
  isReal z := decide (z.im = 0)
  reZero z := decide (z.re = 0)
  re_of_real z h := by
    have h' : z.im = 0 := of_decide_eq_true h
    exact QuadraticAlgebra.ext rfl h'.symm
  zero_iff z := by
    constructor
    · rintro rfl; exact ⟨by simp, by simp⟩
    · rintro ⟨h1, h2⟩
      exact QuadraticAlgebra.ext (of_decide_eq_true h1) (of_decide_eq_true h2)

/-- an IEEE complex value with the component pattern of a division by zero: finite, or
`a/0 + (b/0) j` where a component is infinite (`true`) or NaN (`false`). -/
inductive Cx (K : Type) where
  | fin (z : K)
  | div0 (reInf imInf : Bool)
  deriving DecidableEq, Repr

/-- the outcome class of a pattern: `nan + nan j` is `nan`, any infinite component is `inf`. -/
def Cx.cls : Cx K → IVal K
  | .fin z => .fin z
  | .div0 r i => if r || i then .inf else .nan

/-- complex division with the component pattern: `n / d`, and `re n / 0 + (im n / 0) j` for
`d = 0`. -/
def ieeeDivCx (P : Parts K) (n d : K) : Cx K :=
  if d = 0 then .div0 (!P.reZero n) (!P.isReal n) else .fin (n / d)

/-- `TransferFunction.horner` with component patterns. -/
def tfHornerCx (P : Parts K) {p m : Nat} (e : Fin p → Fin m → Frac K) (x : K) :
    Matrix (Fin p) (Fin m) (Cx K) :=
  Matrix.of fun i j => ieeeDivCx P (polyval (e i j).num x) (polyval (e i j).den x)

/-- the singular branch of `StateSpace.horner` writes `complex(inf, nan)` / `complex(nan, nan)`. -/
def ssCx : IVal K → Cx K
  | .fin z => .fin z
  | .inf => .div0 true false
  | .nan => .div0 false false

/-- `sys(x)` with component patterns. -/
def call1Cx (P : Parts K) : (L : LTI K) → K → Matrix (Fin L.p) (Fin L.m) (Cx K)
  | .tf _ _ e _, x => tfHornerCx P e x
  | .ss _ _ _ G _, x => Matrix.of fun i j => ssCx (ssHorner G x i j)

/-- the entry test of `_dcgain`: `np.isreal(z) or np.isnan(z.imag)`. -/
def Parts.passes (P : Parts K) : Cx K → Bool
  | .fin z => P.isReal z
  | .div0 _ i => !i

/-- the class of `z.real`. -/
def Parts.reCls (P : Parts K) : Cx K → IVal K
  | .fin z => .fin (P.re z)
  | .div0 r _ => if r then .inf else .nan

/-- do all entries pass (`np.all`)? -/
def allPass (P : Parts K) {p m : Nat} (M : Matrix (Fin p) (Fin m) (Cx K)) : Bool :=
  (List.finRange p).all fun i => (List.finRange m).all fun j => P.passes (M i j)

/-- does some entry pass (`np.any`; not what the code does, see `dcPostAny`)? -/
def anyPass (P : Parts K) {p m : Nat} (M : Matrix (Fin p) (Fin m) (Cx K)) : Bool :=
  (List.finRange p).any fun i => (List.finRange m).any fun j => P.passes (M i j)

/-- the post-processing of `_dcgain`: `(is the result a real array, its values)`. -/
def dcPost (P : Parts K) {p m : Nat} (M : Matrix (Fin p) (Fin m) (Cx K)) :
    Bool × Matrix (Fin p) (Fin m) (IVal K) :=
  if allPass P M then (true, Matrix.of fun i j => P.reCls (M i j))
  else (false, Matrix.of fun i j => (M i j).cls)

/-- the same with `np.any` in place of `np.all` (a plausible slip; `C04.dcPostAny_changes`). -/
def dcPostAny (P : Parts K) {p m : Nat} (M : Matrix (Fin p) (Fin m) (Cx K)) :
    Bool × Matrix (Fin p) (Fin m) (IVal K) :=
  if anyPass P M then (true, Matrix.of fun i j => P.reCls (M i j))
  else (false, Matrix.of fun i j => (M i j).cls)

/-- `sys.dcgain()` as the code computes it: evaluate at the DC point, then post-process. -/
def dcgainCode (P : Parts K) (L : LTI K) : Bool × Matrix (Fin L.p) (Fin L.m) (IVal K) :=
  dcPost P (call1Cx P L (dcPoint L.dt))

/-! ### a pole test that is not exact, and histories of queries on one object -/

/-- the 1-state fast path with an *approximate* pole test `near x a` (for instance
`np.isclose(x, a)`) in place of `x == a` — not what the code does; `C04.horner1Near_changes`:
every point that passes the test without being the pole loses its finite value. -/
def horner1Near (near : K → K → Bool) {p m : Nat} (G : SS (Fin 1) (Fin m) (Fin p) K) (x : K) :
    Matrix (Fin p) (Fin m) (IVal K) :=
  if near x (G.A 0 0) then Matrix.of fun _ _ => poleVal (zeroTest G (G.A 0 0))
  else Matrix.of fun i j => .fin (G.C i 0 / (x - G.A 0 0) * G.B 0 j + G.D i j)

/-- an object that is asked a sequence of queries: a step maps the data the object holds and a
query to the data it holds afterwards and the answer. -/
def runHist {S Q A : Type} (step : S → Q → S × A) : S → List Q → S × List A
  | s, [] => (s, [])
  | s, q :: qs => ((runHist step (step s q).1 qs).1, (step s q).2 :: (runHist step (step s q).1 qs).2)

/-- a query that only observes (`sys(x)`, `frequency_response`, `dcgain`, `poles`, `zeros` are
specified to be of this kind): the answer is a function of the data, the data stay what they
were. -/
def observe {S Q A : Type} (ans : S → Q → A) (s : S) (q : Q) : S × A := (s, ans s q)

/-- a step that is not an observer: queries selected by `insp` (an "inspection", e.g. `poles()`
handing `A` to LAPACK with `overwrite_a=True`) answer correctly but leave the data transformed
by `f` (`C04.hist_inplace_changes`). -/
def stepInplace {S Q A : Type} (f : S → S) (insp : Q → Bool) (ans : S → Q → A) (s : S) (q : Q) :
    S × A :=
  (if insp q then f s else s, ans s q)

/-- the value queries of this property. -/
inductive Query (K : Type) where
  | call (xs : List K)
  | freq (ws : List ℚ)
  | dc

/-- the model's answer to a value query: the grid (frequency responses only) and the values. -/
def answer (E : Env K) (L : LTI K) :
    Query K → List ℚ × List (Matrix (Fin L.p) (Fin L.m) (IVal K))
  | .call xs => ([], call L xs)
  | .freq ws => freqResp E L ws
  | .dc => ([], [dcgain L])

/-- the answer packed with the system it belongs to (the sizes depend on the system). -/
def answerOf (E : Env K) (L : LTI K) (q : Query K) :
    Σ L : LTI K, List ℚ × List (Matrix (Fin L.p) (Fin L.m) (IVal K)) :=
  ⟨L, answer E L q⟩

/-! ### poles and zeros: what is handed to the root finders -/

/-- `StateSpace.poles()`: `eigvals(self.A)` when there are states, otherwise the empty array. -/
def ssPolesArg {n p m : Nat} (G : SS (Fin n) (Fin m) (Fin p) K) :
    Option (Matrix (Fin n) (Fin n) K) :=
  if n = 0 then none else some G.A

/-- certificate check for a characteristic polynomial: `d` is monic of degree `n` and
`d(x) = det(xI - A)` at the `n + 1` pairwise distinct points `pts`. -/
def charpolyCert {n : Nat} (A : Matrix (Fin n) (Fin n) K) (d : List K) (pts : List K) : Bool :=
  decide (d.length = n + 1) && decide (d.head? = some 1) && decide (pts.length = n + 1)
    && decide pts.Nodup && pts.all fun x => decide (polyval d x = detFin (resolv A x))

/-- the sample points `0, 1, …, n` (distinct in characteristic 0). -/
def samplePts (n : Nat) : List K := (List.range (n + 1)).map fun k => (k : K)

/-- the polynomial whose roots `StateSpace.poles()` asks for: a candidate `d` (from an unverified
computation) is accepted only with its certificate. -/
def ssPolesPoly {n p m : Nat} (G : SS (Fin n) (Fin m) (Fin p) K) (cand : List K) :
    Option (List K) :=
  if charpolyCert G.A cand (samplePts n) then some cand else none

/-- `TransferFunction.zeros()`: SISO only, `roots(num[0][0])`. -/
def tfZerosArg {p m : Nat} (e : Fin p → Fin m → Frac K) : Except Err (List K) :=
  if h : p = 1 ∧ m = 1 then .ok (e ⟨0, by omega⟩ ⟨0, by omega⟩).num
  else .error .notImplemented

/-- `TransferFunction.poles()` for a SISO system: `_common_den` collects `roots(den[0][0])`. -/
def tfPolesArgSiso (e : Fin 1 → Fin 1 → Frac K) : List K := (e 0 0).den

/-- certificate check for the common denominator of one input column (`_common_den`: the pole
lists of the entries are merged keeping the largest multiplicity, i.e. the least common multiple):
`l = dens[i] * cof[i]` for every `i`, and `∑ bez[i] * cof[i] = 1`. -/
def lcmCert (dens cof bez : List (List K)) (l : List K) : Bool :=
  decide (dens.length = cof.length) && decide (cof.length = bez.length)
    && (List.zip dens cof).all (fun dc => decide (trim (polymul dc.1 dc.2) = trim l))
    && decide (trim ((List.zip bez cof).foldl (fun acc bc => polyadd acc (polymul bc.1 bc.2)) [])
        = [1])

/-- the column of denominators of input `j`. -/
def colDens {p m : Nat} (e : Fin p → Fin m → Frac K) (j : Fin m) : List (List K) :=
  (List.finRange p).map fun i => (e i j).den

/-- `TransferFunction.poles()`: per input column the roots of the common denominator; the
candidates come with their certificates. -/
def tfPolesPolys {p m : Nat} (e : Fin p → Fin m → Frac K)
    (cands : Fin m → List K × List (List K) × List (List K)) : Option (List (List K)) :=
  if (List.finRange m).all fun j => lcmCert (colDens e j) (cands j).2.1 (cands j).2.2 (cands j).1
  then some ((List.finRange m).map fun j => (cands j).1) else none

/-- `StateSpace.zeros()` without Slycot: no states → empty; non-square → `NotImplementedError`;
otherwise the finite generalised eigenvalues of the pencil `(L, M)`: the arguments handed to
`scipy.linalg.eigvals`. -/
def ssZerosArg {n p m : Nat} (G : SS (Fin n) (Fin m) (Fin p) K) :
    Except Err (Option (Matrix (Fin n ⊕ Fin m) (Fin n ⊕ Fin m) K
      × Matrix (Fin n ⊕ Fin m) (Fin n ⊕ Fin m) K)) :=
  if n = 0 then .ok none
  else if h : p = m then
    .ok (some (fromBlocks G.A G.B (squareOf h G).C (squareOf h G).D, fromBlocks 1 0 0 0))
  else .error .notImplemented

/-- certificate check for the zero polynomial `z(λ) = det(L - λM)` (degree ≤ `n + m`): agreement at
`n + m + 1` pairwise distinct points. -/
def zeroPolyCert {n m : Nat} (G : SS (Fin n) (Fin m) (Fin m) K) (z : List K) (pts : List K) :
    Bool :=
  decide (z.length ≤ n + m + 1) && decide (pts.length = n + m + 1) && decide pts.Nodup
    && pts.all fun x => decide (polyval z x = detFin (rosenFin G x))

end Eval

end CtrlVerif
