/-
Model of the linear time responses of control/timeresp.py (`forced_response`, `step_response`,
`impulse_response`, `initial_response`).

Two layers.

* Spec layer (arbitrary field `K`, arbitrary finite index types; vectors are functions, signals are
  lists of vectors, one per time point).  `dStates` is the recursion `scipy.signal.dlsim`
  implements, `interp` the linear interpolation `dlsim` applies to the input between the given
  samples when the requested grid is a multiple of the sampling time, `decimate` the slice
  `[::inc]`, `fohStates` the continuous-time loop of `forced_response` with `Ad, Bd0, Bd1` as
  parameters, `freeStates` its zero-input fast path, `fohM` the block matrix handed to
  `scipy.linalg.expm` and `fohAd / fohBd0 / fohBd1` the blocks cut out of the result.
  The theorems of Props/C06.lean are about these definitions.

* Executable layer (`Fin`-indexed, vectors are `Vector K n`, i.e. stored data, so that the driver
  never re-evaluates closures): the same recursions, proved equal to the spec layer in
  Lemmas/TimeResp.lean, then argument validation (`_check_convert_array`, time-grid checks,
  sampling-multiple check) and the derived responses over `ℚ`.
-/
import CtrlVerif.Model.SS
import CtrlVerif.Model.SSDyn
import Mathlib.Data.Matrix.Mul
import Mathlib.Data.Matrix.Block
import Mathlib.Logic.Equiv.Fin.Basic
import Mathlib.Algebra.Order.Field.Rat

namespace CtrlVerif.TimeResp

open Matrix

/-! ## Spec layer -/

section Spec

variable {K : Type*} [Field K] {σ ι o : Type*} [Fintype σ] [Fintype ι]

/-- one step of the difference equation: `A x + B u`. -/
def next (G : SS σ ι o K) (x : σ → K) (u : ι → K) : σ → K := G.A *ᵥ x + G.B *ᵥ u

/-- the output equation: `C x + D u`. -/
def out (G : SS σ ι o K) (x : σ → K) (u : ι → K) : o → K := G.C *ᵥ x + G.D *ᵥ u

/-- `dlsim`: `xout[0] = x0`, `xout[i+1] = A xout[i] + B u[i]`; as many states as input samples. -/
def dStates (G : SS σ ι o K) : (σ → K) → List (ι → K) → List (σ → K)
  | _, [] => []
  | x, u :: us => x :: dStates G (next G x u) us

/-- `yout[i] = C xout[i] + D u[i]`. -/
def outputs (G : SS σ ι o K) (xs : List (σ → K)) (us : List (ι → K)) : List (o → K) :=
  List.zipWith (out G) xs us

/-- the value at fine step `r` of `inc` between two given samples (linear interpolation). -/
def lerp (inc r : ℕ) (u v : ι → K) : ι → K := u + ((r : K) / (inc : K)) • (v - u)

/-- `make_interp_spline(t, u, k=1)(tout)`: `inc` fine samples per given interval, the last given
sample once. -/
def interp (inc : ℕ) : List (ι → K) → List (ι → K)
  | [] => []
  | [u] => [u]
  | u :: v :: rest => (List.range inc).map (fun r => lerp inc r u v) ++ interp inc (v :: rest)

/-- `l[c::inc]` for `inc ≥ 1` (`c` = number of elements still to skip). -/
def decimateAux {α : Type*} (inc : ℕ) : ℕ → List α → List α
  | _, [] => []
  | 0, a :: l => a :: decimateAux inc (inc - 1) l
  | c + 1, _ :: l => decimateAux inc c l

/-- `l[::inc]`. -/
def decimate {α : Type*} (inc : ℕ) (l : List α) : List α := decimateAux inc 0 l

/-- the discrete branch of `forced_response` without `interpolate`: simulate at the sampling
rate with the interpolated input, return every `inc`-th state and output. -/
def simDiscrete (G : SS σ ι o K) (inc : ℕ) (x0 : σ → K) (us : List (ι → K)) :
    List (σ → K) × List (o → K) :=
  let uf := interp inc us
  let xf := dStates G x0 uf
  (decimate inc xf, decimate inc (outputs G xf uf))

/-- the continuous-time loop: `xout[i] = Ad xout[i-1] + Bd0 u[i-1] + Bd1 u[i]`. -/
def fohStates (Ad : Matrix σ σ K) (Bd0 Bd1 : Matrix σ ι K) : (σ → K) → List (ι → K) → List (σ → K)
  | _, [] => []
  | x, [_] => [x]
  | x, u :: v :: rest =>
    x :: fohStates Ad Bd0 Bd1 (Ad *ᵥ x + Bd0 *ᵥ u + Bd1 *ᵥ v) (v :: rest)

/-- the zero-input fast path: `xout[i] = expAdt xout[i-1]`, `k` samples. -/
def freeStates (E : Matrix σ σ K) : (σ → K) → ℕ → List (σ → K)
  | _, 0 => []
  | x, k + 1 => x :: freeStates E (E *ᵥ x) k

/-- the general continuous-time branch: states by `fohStates`, `yout = C xout + D U`. -/
def simFOH (G : SS σ ι o K) (Ad : Matrix σ σ K) (Bd0 Bd1 : Matrix σ ι K) (x0 : σ → K)
    (us : List (ι → K)) : List (σ → K) × List (o → K) :=
  let xs := fohStates Ad Bd0 Bd1 x0 us
  (xs, outputs G xs us)

/-- the zero-input continuous-time branch: `yout = C xout`. -/
def simFree (G : SS σ ι o K) (E : Matrix σ σ K) (x0 : σ → K) (k : ℕ) :
    List (σ → K) × List (o → K) :=
  let xs := freeStates E x0 k
  (xs, xs.map (fun x => G.C *ᵥ x))

variable [DecidableEq ι]

/-- the matrix `forced_response` hands to `expm`:
`[[A dt, B dt, 0], [0, 0, I], [0, 0, 0]]` with block sizes `(n, m, m)`. -/
def fohM (A : Matrix σ σ K) (B : Matrix σ ι K) (dt : K) :
    Matrix ((σ ⊕ ι) ⊕ ι) ((σ ⊕ ι) ⊕ ι) K :=
  fromBlocks (fromBlocks (dt • A) (dt • B) 0 0) (fromRows 0 1) 0 0

/-- `Ad = expM[:n, :n]`. -/
def fohAd (E : Matrix ((σ ⊕ ι) ⊕ ι) ((σ ⊕ ι) ⊕ ι) K) : Matrix σ σ K := E.toBlocks₁₁.toBlocks₁₁

/-- `Bd1 = expM[:n, n+m:]`. -/
def fohBd1 (E : Matrix ((σ ⊕ ι) ⊕ ι) ((σ ⊕ ι) ⊕ ι) K) : Matrix σ ι K :=
  E.toBlocks₁₂.submatrix Sum.inl id

/-- `expM[:n, n:n+m]`. -/
def fohMid (E : Matrix ((σ ⊕ ι) ⊕ ι) ((σ ⊕ ι) ⊕ ι) K) : Matrix σ ι K := E.toBlocks₁₁.toBlocks₁₂

/-- `Bd0 = expM[:n, n:n+m] - Bd1`. -/
def fohBd0 (E : Matrix ((σ ⊕ ι) ⊕ ι) ((σ ⊕ ι) ⊕ ι) K) : Matrix σ ι K := fohMid E - fohBd1 E

/-- truncated exponential series `Σ_{k ≤ N} X^k / k!`. -/
def expSum {τ : Type*} [Fintype τ] [DecidableEq τ] (N : ℕ) (X : Matrix τ τ K) : Matrix τ τ K :=
  ∑ k ∈ Finset.range (N + 1), ((k.factorial : K)⁻¹) • X ^ k

end Spec

/-! ## Executable layer: stored vectors -/

section Exec

variable {K : Type*} [Field K] {n m p : ℕ}

/-- the entries of a stored vector. -/
abbrev vget (v : Vector K n) : Fin n → K := v.get

def nextV (G : SS (Fin n) (Fin m) (Fin p) K) (x : Vector K n) (u : Vector K m) : Vector K n :=
  Vector.ofFn (next G x.get u.get)

def outV (G : SS (Fin n) (Fin m) (Fin p) K) (x : Vector K n) (u : Vector K m) : Vector K p :=
  Vector.ofFn (out G x.get u.get)

def dStatesV (G : SS (Fin n) (Fin m) (Fin p) K) : Vector K n → List (Vector K m) → List (Vector K n)
  | _, [] => []
  | x, u :: us => x :: dStatesV G (nextV G x u) us

def outputsV (G : SS (Fin n) (Fin m) (Fin p) K) (xs : List (Vector K n)) (us : List (Vector K m)) :
    List (Vector K p) :=
  List.zipWith (outV G) xs us

def lerpV (inc r : ℕ) (u v : Vector K m) : Vector K m := Vector.ofFn (lerp inc r u.get v.get)

def interpV (inc : ℕ) : List (Vector K m) → List (Vector K m)
  | [] => []
  | [u] => [u]
  | u :: v :: rest => (List.range inc).map (fun r => lerpV inc r u v) ++ interpV inc (v :: rest)

def simDiscreteV (G : SS (Fin n) (Fin m) (Fin p) K) (inc : ℕ) (x0 : Vector K n)
    (us : List (Vector K m)) : List (Vector K n) × List (Vector K p) :=
  let uf := interpV inc us
  let xf := dStatesV G x0 uf
  (decimate inc xf, decimate inc (outputsV G xf uf))

def fohStatesV (Ad : Matrix (Fin n) (Fin n) K) (Bd0 Bd1 : Matrix (Fin n) (Fin m) K) :
    Vector K n → List (Vector K m) → List (Vector K n)
  | _, [] => []
  | x, [_] => [x]
  | x, u :: v :: rest =>
    x :: fohStatesV Ad Bd0 Bd1
      (Vector.ofFn (Ad *ᵥ x.get + Bd0 *ᵥ u.get + Bd1 *ᵥ v.get)) (v :: rest)

def freeStatesV (E : Matrix (Fin n) (Fin n) K) : Vector K n → ℕ → List (Vector K n)
  | _, 0 => []
  | x, k + 1 => x :: freeStatesV E (Vector.ofFn (E *ᵥ x.get)) k

def simFOHV (G : SS (Fin n) (Fin m) (Fin p) K) (Ad : Matrix (Fin n) (Fin n) K)
    (Bd0 Bd1 : Matrix (Fin n) (Fin m) K) (x0 : Vector K n) (us : List (Vector K m)) :
    List (Vector K n) × List (Vector K p) :=
  let xs := fohStatesV Ad Bd0 Bd1 x0 us
  (xs, outputsV G xs us)

def simFreeV (G : SS (Fin n) (Fin m) (Fin p) K) (E : Matrix (Fin n) (Fin n) K) (x0 : Vector K n)
    (k : ℕ) : List (Vector K n) × List (Vector K p) :=
  let xs := freeStatesV E x0 k
  (xs, xs.map (fun x => Vector.ofFn (G.C *ᵥ x.get)))

/-- the index bookkeeping of the slices `[:n]`, `[n:n+m]`, `[n+m:]` of `expM`. -/
def eFoh (n m : ℕ) : (Fin n ⊕ Fin m) ⊕ Fin m ≃ Fin (n + m + m) :=
  (Equiv.sumCongr finSumFinEquiv (Equiv.refl _)).trans finSumFinEquiv

/-- the block matrix of the code with run-time sizes. -/
def fohMFin (A : Matrix (Fin n) (Fin n) K) (B : Matrix (Fin n) (Fin m) K) (dt : K) :
    Matrix (Fin (n + m + m)) (Fin (n + m + m)) K :=
  (fohM A B dt).submatrix (eFoh n m).symm (eFoh n m).symm

/-- the three blocks cut out of a run-time sized `expM`. -/
def fohBlocksFin (E : Matrix (Fin (n + m + m)) (Fin (n + m + m)) K) :
    Matrix (Fin n) (Fin n) K × Matrix (Fin n) (Fin m) K × Matrix (Fin n) (Fin m) K :=
  let E' := E.submatrix (eFoh n m) (eFoh n m)
  (fohAd E', fohBd0 E', fohBd1 E')

end Exec

/-! ## Argument validation and the response functions, over `ℚ` -/

/-- an `array_like` argument as `np.asarray` sees it: a scalar, a 1-D array, or a 2-D array with
`r` rows stored column by column (one column per time point). -/
inductive Arr where
  | scalar (c : ℚ)
  | d1 (v : List ℚ)
  | d2 (r : ℕ) (cols : List (Vector ℚ r))

/-- `_check_convert_array(X0, [(n,), (n, 1)], squeeze=True)`. -/
def convertX0 (n : ℕ) : Arr → Except Err (Vector ℚ n)
  | .scalar c => .ok (Vector.replicate n c)
  | .d1 v => if h : v.length = n then .ok ⟨v.toArray, by simp [h]⟩ else .error .badArg
  | .d2 r [x] => if h : r = n then .ok (x.cast h) else .error .badArg
  | .d2 _ _ => .error .badArg

/-- `_check_convert_array(U, [(k,), (1, k)] if m == 1 else [(m, k)], squeeze=False)` followed by
the reshape to 2-D; a scalar is filled into the first legal shape. -/
def convertU (m k : ℕ) : Arr → Except Err (List (Vector ℚ m))
  | .scalar c => .ok (List.replicate k (Vector.replicate m c))
  | .d1 v => if m = 1 ∧ v.length = k then .ok (v.map fun a => Vector.replicate m a)
             else .error .badArg
  | .d2 r cols => if h : r = m then
                    if cols.length = k then .ok (cols.map fun c => c.cast h) else .error .badArg
                  else .error .badArg

/-- all consecutive differences equal `dt`. -/
def equallySpaced (dt : ℚ) : List ℚ → Bool
  | a :: b :: rest => decide (b - a = dt) && equallySpaced dt (b :: rest)
  | _ => true

/-- `dt = (T[-1] - T[0]) / (n_steps - 1)` and the equal-spacing test (`np.allclose` is modelled
as equality: the generated grids are either exactly equally spaced or clearly not).  Fewer than
two time points are rejected (the code divides by zero there). -/
def gridStep (T : List ℚ) : Except Err ℚ :=
  match T with
  | t0 :: t1 :: rest =>
    let last := (t1 :: rest).getLast (by simp)
    let dt := (last - t0) / ((t1 :: rest).length : ℚ)
    if equallySpaced dt T then .ok dt else .error .badArg
  | _ => .error .badArg

/-- the decimation factor of the discrete branch: `1` for `dt = True / None` (the system is run
at the spacing of the grid), otherwise `dt / sys.dt`, which must be a positive integer. -/
def decimation (sysdt : Dt) (dt : ℚ) : Except Err ℕ :=
  match sysdt with
  | .disc h =>
    let r := dt / h
    if 0 < h ∧ r.den = 1 ∧ 1 ≤ r then .ok r.num.toNat else .error .badArg
  | _ => if 0 < dt then .ok 1 else .error .badArg

/-- what a response function returns (raw arrays, time major). -/
structure Trace (n p m : ℕ) where
  t : List ℚ
  x : List (Vector ℚ n)
  y : List (Vector ℚ p)
  u : List (Vector ℚ m)

/-- results of `scipy.linalg.expm` handed in by the harness for a continuous-time system:
`expA = expm(A dt)` and `expM = expm(fohM A B dt)`. -/
structure ExpmVals (n m : ℕ) where
  expA : Matrix (Fin n) (Fin n) ℚ
  expM : Matrix (Fin (n + m + m)) (Fin (n + m + m)) ℚ

def allZero {m : ℕ} (us : List (Vector ℚ m)) : Bool := us.all fun u => u.toList.all (· = 0)

/-- the time vector of `forced_response`: given, or (discrete time only) `range(n_steps) * dt`
with `n_steps` the number of input samples and `dt = 1` for `dt = True / None`. -/
def timeVector (sysdt : Dt) (T : Option (List ℚ)) (U : Arr) : Except Err (List ℚ) :=
  match T with
  | some T => .ok T
  | none =>
    match sysdt with
    | .cont => .error .badArg
    | d =>
      let h : ℚ := match d with | .disc h => h | _ => 1
      match U with
      | .scalar _ => .error .badArg
      | .d1 v => .ok ((List.range v.length).map fun k => (k : ℚ) * h)
      | .d2 _ cols => .ok ((List.range cols.length).map fun k => (k : ℚ) * h)

/-- `forced_response(sys, T, U, X0)` for a state-space system, `interpolate=False`,
`transpose=False`.  `ex` is consulted only for continuous-time systems. -/
def forced (G : DSS ℚ) (T : Option (List ℚ)) (U X0 : Arr) (ex : Option (ExpmVals G.n G.m)) :
    Except Err (Trace G.n G.p G.m) := do
  let T ← timeVector G.dt T U
  let dt ← gridStep T
  let x0 ← convertX0 G.n X0
  let us ← convertU G.m T.length U
  match G.dt with
  | .cont =>
    match ex with
    | none => .error .missing
    | some ex =>
      if allZero us then
        let r := simFreeV G.sys ex.expA x0 T.length
        pure ⟨T, r.1, r.2, us⟩
      else
        let b := fohBlocksFin ex.expM
        let r := simFOHV G.sys b.1 b.2.1 b.2.2 x0 us
        pure ⟨T, r.1, r.2, us⟩
  | d =>
    let inc ← decimation d dt
    let r := simDiscreteV G.sys inc x0 us
    pure ⟨T, r.1, r.2, us⟩

/-- the input `U[i, :] = 1`, other rows zero, as a 2-D array `(m, k)`. -/
def unitRow (m k i : ℕ) (c0 c : ℚ) : Arr :=
  .d2 m ((List.range k).map fun j =>
    Vector.ofFn fun r : Fin m => if r.val = i then (if j = 0 then c0 else c) else 0)

/-- the channels simulated by `step_response` / `impulse_response`: all inputs, or the one
selected (an index outside `range(ninputs)` leaves the loop without a response). -/
def channels (m : ℕ) (input : Option ℕ) : Except Err (List (Fin m)) :=
  match input with
  | none => .ok (List.finRange m)
  | some i => if h : i < m then .ok [⟨i, h⟩] else .error .indexRange

/-- a response with one trace per simulated input channel; outputs and inputs after selection. -/
structure MultiTrace (n : ℕ) where
  t : List ℚ
  x : List (List (Vector ℚ n))          -- per trace, per time
  y : List (List (List ℚ))              -- per trace, per time, per (selected) output
  u : List (List (List ℚ))              -- per trace, per time, per (selected) input

/-- `response.y if output is None else response.y[output]`. -/
def selectRows {p : ℕ} (sel : Option ℕ) (ys : List (Vector ℚ p)) : Except Err (List (List ℚ)) :=
  match sel with
  | none => .ok (ys.map Vector.toList)
  | some j => if h : j < p then .ok (ys.map fun v => [v[j]]) else .error .indexRange

/-- `step_response(sys, T, X0, input, output)`: `forced_response` with a unit step in one input
channel at a time. -/
def step (G : DSS ℚ) (T : List ℚ) (X0 : Arr) (input output : Option ℕ)
    (ex : Option (ExpmVals G.n G.m)) : Except Err (MultiTrace G.n) := do
  let chans ← channels G.m input
  let traces ← chans.mapM fun i => do
    let r ← forced G (some T) (unitRow G.m T.length i.val 1 1) X0 ex
    let y ← selectRows output r.y
    let u ← selectRows (input.map fun _ => i.val) r.u
    pure (r.x, y, u)
  if traces.isEmpty then .error .indexRange
  else pure ⟨T, traces.map (·.1), traces.map (·.2.1), traces.map (·.2.2)⟩

/-- is the system simulated in discrete time by `forced_response`? (`dt = None` counts as
discrete there: `isdtime(sys)` / `isctime(sys, strict=True)`.) -/
def isDiscrete : Dt → Bool
  | .cont => false
  | _ => true

/-- `impulse_response(sys, T, input, output)`.  Continuous time: the free response from
`x0 = B e_i` (the direct-term impulse is omitted); discrete time (incl. `dt = True / None`, where
the time step is taken as 1): from rest with `u_i[0] = 1/dt`. -/
def impulse (G : DSS ℚ) (T : List ℚ) (input output : Option ℕ)
    (ex : Option (ExpmVals G.n G.m)) : Except Err (MultiTrace G.n) := do
  let chans ← channels G.m input
  let traces ← chans.mapM fun i => do
    let r ← if isDiscrete G.dt then
        let h : ℚ := match G.dt with | .disc h => h | _ => 1
        forced G (some T) (unitRow G.m T.length i.val (1 / h) 0) (.scalar 0) ex
      else
        forced G (some T) (unitRow G.m T.length i.val 0 0)
          (.d1 ((List.finRange G.n).map fun s => G.sys.B s i)) ex
    let y ← selectRows output r.y
    let u ← selectRows (input.map fun _ => i.val) r.u
    pure (r.x, y, u)
  if traces.isEmpty then .error .indexRange
  else pure ⟨T, traces.map (·.1), traces.map (·.2.1), traces.map (·.2.2)⟩

/-- `initial_response(sys, T, X0, output)`: `forced_response(sys, T, 0, X0)`; no inputs stored. -/
def initial (G : DSS ℚ) (T : List ℚ) (X0 : Arr) (output : Option ℕ)
    (ex : Option (ExpmVals G.n G.m)) : Except Err (MultiTrace G.n) := do
  let r ← forced G (some T) (.scalar 0) X0 ex
  let y ← selectRows output r.y
  pure ⟨T, [r.x], [y], []⟩

end CtrlVerif.TimeResp
