/-
Expression trees over state-space systems (DESIGN §3.5) for C02.

* `AnySS ι o K`: a state-space system with inputs `ι`, outputs `o` and an existentially
  quantified finite state type (every binary operator of `Model/SS.lean` changes the state type
  to a `Sum`, so a tree of operators has no fixed state type).
* `Expr K o ι`: finite trees of the operators of `control/statesp.py`, indexed by the output and
  input index types, so that every shape (incl. non-square I/O and empty index types) is covered
  by typing: a tree that type-checks is one on which Python raises no shape error.
* `Expr.evalModel`: the tree interpreted by exactly the typed block constructions of
  `Model/SS.lean` (`SS.add`, `SS.mul`, `SS.feedback`, `SS.inv`, `SS.lft`, …) — the constructions
  the per-operator theorems of `Props/C02.lean` are about and the run-time layer
  (`Model/SSDyn.lean`) executes — with the well-posedness test of the code
  (`det (I - sign D₂ D₁) = 0`, `det D = 0`, `det F = 0` raise) and the certified inverse
  `SS.invQ`.
* `Expr.Sem e s Y`: the relational semantics "the algebra of transfer matrices assigns the value
  `Y` to `e` at the point `s`".
* `Expr.dterm`, `Expr.IllPosed`: the same tree read in the algebra of constant matrices (the
  value "at `s = ∞`"), which is what decides whether the model raises.
-/
import CtrlVerif.Model.SS
import CtrlVerif.Model.Err
import CtrlVerif.Lemmas.SS

namespace CtrlVerif

open Matrix

/-- a state-space system whose (finite) state index type is part of the data. -/
structure AnySS (ι o : Type) (K : Type) where
  σ : Type
  [fintype : Fintype σ]
  [decEq : DecidableEq σ]
  sys : SS σ ι o K

attribute [instance] AnySS.fintype AnySS.decEq

namespace AnySS

variable {K : Type} [Field K] {ι o : Type}

/-- number of states (`nstates`). -/
def nstates (G : AnySS ι o K) : Nat := Fintype.card G.σ

/-- package a typed system. -/
def of {σ : Type} [Fintype σ] [DecidableEq σ] (G : SS σ ι o K) : AnySS ι o K := ⟨σ, G⟩

/-- a constant matrix as a system without states (`_convert_to_statespace(array)`). -/
def static (D : Matrix o ι K) : AnySS ι o K := ⟨Empty, SS.static D⟩

end AnySS

/-- finite expression trees; `Expr K o ι` has outputs `o` and inputs `ι`. -/
inductive Expr (K : Type) : Type → Type → Type 1 where
  /-- a state-space leaf -/
  | sys {o ι : Type} (G : AnySS ι o K) : Expr K o ι
  /-- a constant matrix leaf (a scalar is a `1 × 1` matrix) -/
  | const {o ι : Type} (M : Matrix o ι K) : Expr K o ι
  /-- `-a` -/
  | neg {o ι : Type} (a : Expr K o ι) : Expr K o ι
  /-- `a + b` -/
  | add {o ι : Type} (a b : Expr K o ι) : Expr K o ι
  /-- `a - b` (`a + (-b)` in the code) -/
  | sub {o ι : Type} (a b : Expr K o ι) : Expr K o ι
  /-- `a * b`: series connection, `b` first -/
  | mul {o κ ι : Type} [Fintype κ] (a : Expr K o κ) (b : Expr K κ ι) : Expr K o ι
  /-- `a * M` for a constant matrix -/
  | mulConst {o κ ι : Type} [Fintype κ] (a : Expr K o κ) (M : Matrix κ ι K) : Expr K o ι
  /-- `M * a` for a constant matrix -/
  | constMul {o κ ι : Type} [Fintype κ] (M : Matrix o κ K) (a : Expr K κ ι) : Expr K o ι
  /-- `a * c`, `c * a` for a scalar (`a / c` is `smul (1 / c) a`) -/
  | smul {o ι : Type} (c : K) (a : Expr K o ι) : Expr K o ι
  /-- `a + M`, `M + a` for a constant matrix (`a + c` for a scalar is `M = fun _ _ => c`) -/
  | addConst {o ι : Type} (a : Expr K o ι) (M : Matrix o ι K) : Expr K o ι
  /-- `append(a, b)` -/
  | append {o₁ o₂ ι₁ ι₂ : Type} (a : Expr K o₁ ι₁) (b : Expr K o₂ ι₂) : Expr K (o₁ ⊕ o₂) (ι₁ ⊕ ι₂)
  /-- `a.feedback(b, sign)` -/
  | feedback {o ι : Type} [Fintype ι] [DecidableEq ι] [Fintype o] [DecidableEq o]
      (a : Expr K o ι) (b : Expr K ι o) (sign : K) : Expr K o ι
  /-- `a ** -1` (square I/O) -/
  | inv {ι : Type} [Fintype ι] [DecidableEq ι] (a : Expr K ι ι) : Expr K ι ι
  /-- `a.lft(b, nu, ny)`: `a` has its `nu` control inputs `ι₂` last and its `ny` measured outputs
  `o₂` last; `b` has the measurements first among its inputs, the controls first among its
  outputs. -/
  | lft {o₁ o₂ ι₁ ι₂ κ μ : Type} [Fintype o₂] [DecidableEq o₂] [Fintype ι₂] [DecidableEq ι₂]
      [Fintype ι₁] [DecidableEq ι₁] [Fintype κ] [DecidableEq κ]
      (a : Expr K (o₁ ⊕ o₂) (ι₁ ⊕ ι₂)) (b : Expr K (ι₂ ⊕ μ) (o₂ ⊕ κ)) : Expr K (o₁ ⊕ μ) (ι₁ ⊕ κ)
  /-- `a[rows, cols]`; with equivalences this is also the re-typing of `Fin p ⊕ Fin q` as
  `Fin (p + q)` that the run-time layer applies after `append` / `lft`. -/
  | select {o ι o' ι' : Type} (r : o' → o) (c : ι' → ι) (a : Expr K o ι) : Expr K o' ι'

namespace Expr

variable {K : Type}

/-- the number of leaves' states: what `nstates` of the result must be. -/
def leafStates : {o ι : Type} → Expr K o ι → Nat
  | _, _, .sys G => Fintype.card G.σ
  | _, _, .const _ => 0
  | _, _, .neg a => leafStates a
  | _, _, .add a b => leafStates a + leafStates b
  | _, _, .sub a b => leafStates a + leafStates b
  | _, _, @Expr.mul _ _ _ _ _ a b => leafStates a + leafStates b
  | _, _, @Expr.mulConst _ _ _ _ _ a _ => leafStates a
  | _, _, @Expr.constMul _ _ _ _ _ _ a => leafStates a
  | _, _, .smul _ a => leafStates a
  | _, _, .addConst a _ => leafStates a
  | _, _, .append a b => leafStates a + leafStates b
  | _, _, @Expr.feedback _ _ _ _ _ _ _ a b _ => leafStates a + leafStates b
  | _, _, @Expr.inv _ _ _ _ a => leafStates a
  | _, _, @Expr.lft _ _ _ _ _ _ _ _ _ _ _ _ _ _ _ a b => leafStates a + leafStates b
  | _, _, .select _ _ a => leafStates a

variable [Field K]

/-- `a ** n` for `n ≥ 0` as the code computes it: `a ** 0 = I` (static), `a ** 1 = a`,
`a ** (k+1) = a * a ** k`. -/
def pow {ι : Type} [Fintype ι] [DecidableEq ι] (a : Expr K ι ι) :
    Nat → Expr K ι ι
  | 0 => .const 1
  | 1 => a
  | k + 2 => .mul a (pow a (k + 1))

/-- `a ** k` for an integer `k`: negative powers are powers of the inverse. -/
def zpow {ι : Type} [Fintype ι] [DecidableEq ι] (a : Expr K ι ι) :
    Int → Expr K ι ι
  | .ofNat n => pow a n
  | .negSucc n => pow (.inv a) (n + 1)

/-! ### the model operators on packaged systems -/

section ops
variable {o ι κ o₁ o₂ ι₁ ι₂ μ : Type}

/-- `feedback`: the loop matrix of the code, `F = I - sign D₂ D₁`. -/
def fbF [Fintype ι] [DecidableEq ι] [Fintype o] (x : AnySS ι o K) (y : AnySS o ι K) (sign : K) :
    Matrix ι ι K := 1 - sign • (y.sys.D * x.sys.D)

/-- `feedback` of two packaged systems: ill-posed when `det F = 0`, else `SS.feedback` with the
certified inverse. -/
def fbOp [DecidableEq K] [Fintype ι] [DecidableEq ι] [Fintype o] [DecidableEq o]
    (x : AnySS ι o K) (y : AnySS o ι K) (sign : K) : Except Err (AnySS ι o K) :=
  if (fbF x y sign).det = 0 then .error .illPosed
  else .ok ⟨x.σ ⊕ y.σ, SS.feedback x.sys y.sys sign (SS.invQ (fbF x y sign))⟩

/-- `** -1`: a singular direct term raises, else `SS.inv` with the certified inverse. -/
def invOp [DecidableEq K] [Fintype ι] [DecidableEq ι] (x : AnySS ι ι K) :
    Except Err (AnySS ι ι K) :=
  if x.sys.D.det = 0 then .error .illPosed
  else .ok ⟨x.σ, x.sys.inv (SS.invQ x.sys.D)⟩

/-- `lft`: ill-posed when `det [[I, -D22], [-Dbar11, I]] = 0`. -/
def lftOp [DecidableEq K] [Fintype o₂] [DecidableEq o₂] [Fintype ι₂] [DecidableEq ι₂]
    (x : AnySS (ι₁ ⊕ ι₂) (o₁ ⊕ o₂) K) (y : AnySS (o₂ ⊕ κ) (ι₂ ⊕ μ) K) :
    Except Err (AnySS (ι₁ ⊕ κ) (o₁ ⊕ μ) K) :=
  if (SS.lftF x.sys y.sys).det = 0 then .error .illPosed
  else .ok ⟨x.σ ⊕ y.σ, SS.lft x.sys y.sys (SS.invQ (SS.lftF x.sys y.sys))⟩

end ops

/-- the tree interpreted by the model operators. -/
def evalModel [DecidableEq K] : {o ι : Type} → Expr K o ι → Except Err (AnySS ι o K)
  | _, _, .sys G => .ok G
  | _, _, .const M => .ok (AnySS.static M)
  | _, _, .neg a => (evalModel a).bind fun x => .ok ⟨x.σ, x.sys.neg⟩
  | _, _, .add a b => (evalModel a).bind fun x => (evalModel b).bind fun y =>
      .ok ⟨x.σ ⊕ y.σ, x.sys.add y.sys⟩
  | _, _, .sub a b => (evalModel a).bind fun x => (evalModel b).bind fun y =>
      .ok ⟨x.σ ⊕ y.σ, x.sys.add y.sys.neg⟩
  | _, _, @Expr.mul _ _ _ _ _ a b => (evalModel a).bind fun x => (evalModel b).bind fun y =>
      .ok ⟨y.σ ⊕ x.σ, x.sys.mul y.sys⟩
  | _, _, @Expr.mulConst _ _ _ _ _ a M => (evalModel a).bind fun x => .ok ⟨x.σ, x.sys.mulConst M⟩
  | _, _, @Expr.constMul _ _ _ _ _ M a => (evalModel a).bind fun x => .ok ⟨x.σ, SS.constMul M x.sys⟩
  | _, _, .smul c a => (evalModel a).bind fun x => .ok ⟨x.σ, x.sys.smulRight c⟩
  | _, _, .addConst a M => (evalModel a).bind fun x => .ok ⟨x.σ, x.sys.addConst M⟩
  | _, _, .append a b => (evalModel a).bind fun x => (evalModel b).bind fun y =>
      .ok ⟨x.σ ⊕ y.σ, x.sys.append y.sys⟩
  | _, _, @Expr.feedback _ _ _ _ _ _ _ a b sign => (evalModel a).bind fun x => (evalModel b).bind fun y =>
      fbOp x y sign
  | _, _, @Expr.inv _ _ _ _ a => (evalModel a).bind fun x => invOp x
  | _, _, @Expr.lft _ _ _ _ _ _ _ _ _ _ _ _ _ _ _ a b => (evalModel a).bind fun x => (evalModel b).bind fun y => lftOp x y
  | _, _, .select r c a => (evalModel a).bind fun x => .ok ⟨x.σ, x.sys.select r c⟩

/-! ### semantics in the algebra of transfer matrices -/

/-- `Sem e s Y`: the algebra of transfer matrices assigns the value `Y` to the tree `e` at the
point `s`.  Leaves: `Resp` (a system) / the matrix itself (a constant).  Nodes: the matrix
operations; a feedback loop has the value `Y₁ N` for a right inverse `N` of `I - sign Y₂ Y₁`
(as in `feedback_resp`; for square matrices a right inverse is the inverse), an inverse node
the inverse matrix, an `lft` node the lower linear fractional transformation of the blocks with
`N` a right inverse of `I - Y22 Ybar11` (as in `lft_resp_inv`). -/
inductive Sem : {o ι : Type} → Expr K o ι → K → Matrix o ι K → Prop
  | sys {o ι : Type} {G : AnySS ι o K} {s : K} {Y : Matrix o ι K} (h : G.sys.Resp s Y) :
      Sem (.sys G) s Y
  | const {o ι : Type} (M : Matrix o ι K) (s : K) : Sem (.const M) s M
  | neg {o ι : Type} {a : Expr K o ι} {s : K} {Y : Matrix o ι K} (h : Sem a s Y) :
      Sem (.neg a) s (-Y)
  | add {o ι : Type} {a b : Expr K o ι} {s : K} {Y₁ Y₂ : Matrix o ι K}
      (h₁ : Sem a s Y₁) (h₂ : Sem b s Y₂) : Sem (.add a b) s (Y₁ + Y₂)
  | sub {o ι : Type} {a b : Expr K o ι} {s : K} {Y₁ Y₂ : Matrix o ι K}
      (h₁ : Sem a s Y₁) (h₂ : Sem b s Y₂) : Sem (.sub a b) s (Y₁ - Y₂)
  | mul {o κ ι : Type} [Fintype κ] {a : Expr K o κ} {b : Expr K κ ι} {s : K}
      {Y₁ : Matrix o κ K} {Y₂ : Matrix κ ι K}
      (h₁ : Sem a s Y₁) (h₂ : Sem b s Y₂) : Sem (.mul a b) s (Y₁ * Y₂)
  | mulConst {o κ ι : Type} [Fintype κ] {a : Expr K o κ} {M : Matrix κ ι K} {s : K}
      {Y : Matrix o κ K} (h : Sem a s Y) : Sem (.mulConst a M) s (Y * M)
  | constMul {o κ ι : Type} [Fintype κ] {M : Matrix o κ K} {a : Expr K κ ι} {s : K}
      {Y : Matrix κ ι K} (h : Sem a s Y) : Sem (.constMul M a) s (M * Y)
  | smul {o ι : Type} {c : K} {a : Expr K o ι} {s : K} {Y : Matrix o ι K} (h : Sem a s Y) :
      Sem (.smul c a) s (c • Y)
  | addConst {o ι : Type} {a : Expr K o ι} {M : Matrix o ι K} {s : K} {Y : Matrix o ι K}
      (h : Sem a s Y) : Sem (.addConst a M) s (Y + M)
  | append {o₁ o₂ ι₁ ι₂ : Type} {a : Expr K o₁ ι₁} {b : Expr K o₂ ι₂} {s : K}
      {Y₁ : Matrix o₁ ι₁ K} {Y₂ : Matrix o₂ ι₂ K}
      (h₁ : Sem a s Y₁) (h₂ : Sem b s Y₂) : Sem (.append a b) s (fromBlocks Y₁ 0 0 Y₂)
  | feedback {o ι : Type} [Fintype ι] [DecidableEq ι] [Fintype o] [DecidableEq o]
      {a : Expr K o ι} {b : Expr K ι o} {sign : K} {s : K}
      {Y₁ : Matrix o ι K} {Y₂ : Matrix ι o K} (h₁ : Sem a s Y₁) (h₂ : Sem b s Y₂)
      (N : Matrix ι ι K) (hN : (1 - sign • (Y₂ * Y₁)) * N = 1) :
      Sem (.feedback a b sign) s (Y₁ * N)
  | inv {ι : Type} [Fintype ι] [DecidableEq ι] {a : Expr K ι ι} {s : K} {Y Y' : Matrix ι ι K}
      (h : Sem a s Y) (hY : Y * Y' = 1) : Sem (.inv a) s Y'
  | lft {o₁ o₂ ι₁ ι₂ κ μ : Type} [Fintype o₂] [DecidableEq o₂] [Fintype ι₂] [DecidableEq ι₂]
      [Fintype ι₁] [DecidableEq ι₁] [Fintype κ] [DecidableEq κ]
      {a : Expr K (o₁ ⊕ o₂) (ι₁ ⊕ ι₂)} {b : Expr K (ι₂ ⊕ μ) (o₂ ⊕ κ)} {s : K}
      {Y11 : Matrix o₁ ι₁ K} {Y12 : Matrix o₁ ι₂ K} {Y21 : Matrix o₂ ι₁ K} {Y22 : Matrix o₂ ι₂ K}
      {Yb11 : Matrix ι₂ o₂ K} {Yb12 : Matrix ι₂ κ K} {Yb21 : Matrix μ o₂ K} {Yb22 : Matrix μ κ K}
      (h₁ : Sem a s (fromBlocks Y11 Y12 Y21 Y22)) (h₂ : Sem b s (fromBlocks Yb11 Yb12 Yb21 Yb22))
      (N : Matrix o₂ o₂ K) (hN : (1 - Y22 * Yb11) * N = 1) :
      Sem (.lft a b) s
        (fromBlocks (Y11 + Y12 * Yb11 * N * Y21) (Y12 * (1 + Yb11 * N * Y22) * Yb12)
          (Yb21 * N * Y21) (Yb22 + Yb21 * N * Y22 * Yb12))
  | select {o ι o' ι' : Type} {r : o' → o} {c : ι' → ι} {a : Expr K o ι} {s : K}
      {Y : Matrix o ι K} (h : Sem a s Y) : Sem (.select r c a) s (Y.submatrix r c)

/-! ### the tree in the algebra of constant matrices (direct terms) -/

/-- the lower LFT of two partitioned constant matrices with `N = (I - Y22 Ybar11)⁻¹`. -/
def lftMat {o₁ o₂ ι₁ ι₂ κ μ : Type} [Fintype o₂] [DecidableEq o₂] [Fintype ι₂] [DecidableEq ι₂]
    (Y : Matrix (o₁ ⊕ o₂) (ι₁ ⊕ ι₂) K) (Yb : Matrix (ι₂ ⊕ μ) (o₂ ⊕ κ) K) (N : Matrix o₂ o₂ K) :
    Matrix (o₁ ⊕ μ) (ι₁ ⊕ κ) K :=
  fromBlocks (Y.toBlocks₁₁ + Y.toBlocks₁₂ * Yb.toBlocks₁₁ * N * Y.toBlocks₂₁)
    (Y.toBlocks₁₂ * (1 + Yb.toBlocks₁₁ * N * Y.toBlocks₂₂) * Yb.toBlocks₁₂)
    (Yb.toBlocks₂₁ * N * Y.toBlocks₂₁)
    (Yb.toBlocks₂₂ + Yb.toBlocks₂₁ * N * Y.toBlocks₂₂ * Yb.toBlocks₁₂)

/-- the direct term of the tree, computed in the algebra of constant matrices from the direct
terms of the leaves — the same algebra as `Sem`, with the inverses made explicit; `none` where an
inverse does not exist (a loop that is singular "at `s = ∞`"). -/
def dterm [DecidableEq K] : {o ι : Type} → Expr K o ι → Option (Matrix o ι K)
  | _, _, .sys G => some G.sys.D
  | _, _, .const M => some M
  | _, _, .neg a => (dterm a).bind fun x => some (-x)
  | _, _, .add a b => (dterm a).bind fun x => (dterm b).bind fun y => some (x + y)
  | _, _, .sub a b => (dterm a).bind fun x => (dterm b).bind fun y => some (x - y)
  | _, _, @Expr.mul _ _ _ _ _ a b => (dterm a).bind fun x => (dterm b).bind fun y => some (x * y)
  | _, _, @Expr.mulConst _ _ _ _ _ a M => (dterm a).bind fun x => some (x * M)
  | _, _, @Expr.constMul _ _ _ _ _ M a => (dterm a).bind fun x => some (M * x)
  | _, _, .smul c a => (dterm a).bind fun x => some (c • x)
  | _, _, .addConst a M => (dterm a).bind fun x => some (x + M)
  | _, _, .append a b => (dterm a).bind fun x => (dterm b).bind fun y => some (fromBlocks x 0 0 y)
  | _, _, @Expr.feedback _ _ _ _ _ _ _ a b sign => (dterm a).bind fun x => (dterm b).bind fun y =>
      if (1 - sign • (y * x) : Matrix _ _ K).det = 0 then none else some (x * SS.invQ (1 - sign • (y * x) : Matrix _ _ K))
  | _, _, @Expr.inv _ _ _ _ a => (dterm a).bind fun x => if x.det = 0 then none else some (SS.invQ x)
  | _, _, @Expr.lft _ _ _ _ _ _ _ _ _ _ _ _ _ _ _ a b => (dterm a).bind fun x => (dterm b).bind fun y =>
      if (1 - x.toBlocks₂₂ * y.toBlocks₁₁ : Matrix _ _ K).det = 0 then none
      else some (lftMat x y (SS.invQ (1 - x.toBlocks₂₂ * y.toBlocks₁₁ : Matrix _ _ K)))
  | _, _, .select r c a => (dterm a).bind fun x => some (x.submatrix r c)

/-- some `feedback` / `** -1` / `lft` node of the tree is ill-posed: its operands have direct
terms `D₁`, `D₂` (computed by `dterm`) and `det (I - sign D₂ D₁) = 0`, resp. `det D₁ = 0`, resp.
`det (I - D22 Dbar11) = 0`. -/
def IllPosed [DecidableEq K] : {o ι : Type} → Expr K o ι → Prop
  | _, _, .sys _ => False
  | _, _, .const _ => False
  | _, _, .neg a => IllPosed a
  | _, _, .add a b => IllPosed a ∨ IllPosed b
  | _, _, .sub a b => IllPosed a ∨ IllPosed b
  | _, _, @Expr.mul _ _ _ _ _ a b => IllPosed a ∨ IllPosed b
  | _, _, @Expr.mulConst _ _ _ _ _ a _ => IllPosed a
  | _, _, @Expr.constMul _ _ _ _ _ _ a => IllPosed a
  | _, _, .smul _ a => IllPosed a
  | _, _, .addConst a _ => IllPosed a
  | _, _, .append a b => IllPosed a ∨ IllPosed b
  | _, _, @Expr.feedback _ _ _ _ _ _ _ a b sign => IllPosed a ∨ IllPosed b ∨
      ∃ x y, dterm a = some x ∧ dterm b = some y ∧ (1 - sign • (y * x) : Matrix _ _ K).det = 0
  | _, _, @Expr.inv _ _ _ _ a => IllPosed a ∨ ∃ x, dterm a = some x ∧ x.det = 0
  | _, _, @Expr.lft _ _ _ _ _ _ _ _ _ _ _ _ _ _ _ a b => IllPosed a ∨ IllPosed b ∨
      ∃ x y, dterm a = some x ∧ dterm b = some y ∧ (1 - x.toBlocks₂₂ * y.toBlocks₁₁ : Matrix _ _ K).det = 0
  | _, _, .select _ _ a => IllPosed a

end Expr

end CtrlVerif
