/-
The parameter state of I/O-system objects (control/nlsys.py) and call histories.

Every `NonlinearIOSystem` object carries `self.params` (the dictionary given at construction) and a
mutable `self._current_params`, which `_rhs` / `_out` hand to the update / output callables.  Every
public entry point (`input_output_response`, `linearize`, `dynamics`, `output`, `__call__`,
`find_operating_point`) starts with `sys._update_params(params)`:

```
NonlinearIOSystem._update_params(self, params):
    self._current_params = self.params.copy()
    if params: self._current_params.update(params)

InterconnectedSystem._update_params(self, params):
    for sys in self.syslist:
        local = sys.params.copy()
        local.update(self.params)
        if params: local.update(params)
        sys._update_params(local)
```

The subsystem objects of an interconnection are shared with whoever else holds them, so a call on
one object changes the state another call starts from.  `PObj` is that state, `update` the two
methods above, `callAt` a call on any object inside a tree, `runHist` a sequence of calls.  The
functional description used by `DIO.build` (`Model/IOSysDyn.lean`: an interconnection passes
`env ++ params` down, a leaf evaluates with `env ++ params ++ defaults`) is `chain`.

A dictionary is a `ParamEnv` (association list, first binding wins): `d.update(e)` is `e ++ d`.
-/
import CtrlVerif.Model.IOSysDyn

namespace CtrlVerif

mutual
/-- an I/O-system object as far as parameters are concerned. -/
inductive PObj where
  /-- a `NonlinearIOSystem` (or `StateSpace`: no parameters): `self.params`, the defaults its
  callables read with `params.get(name, default)`, `self._current_params`. -/
  | leaf (params defaults cur : ParamEnv)
  /-- an `InterconnectedSystem`: `self.params`, `self.syslist`. -/
  | node (params : ParamEnv) (subs : PObjs)
/-- `syslist`. -/
inductive PObjs where
  | nil
  | cons (o : PObj) (rest : PObjs)
end

namespace PObj

/-- `self.params`. -/
def params : PObj → ParamEnv
  | leaf ps _ _ => ps
  | node ps _ => ps

mutual
/-- `self._update_params(env)`. -/
def update : PObj → ParamEnv → PObj
  | leaf ps d _, env => leaf ps d (env ++ ps)
  | node ps subs, env => node ps (updateSubs subs (env ++ ps))
/-- the loop over `syslist`: `pre` is the call's dictionary over the interconnection's. -/
def updateSubs : PObjs → ParamEnv → PObjs
  | .nil, _ => .nil
  | .cons s rest, pre => .cons (update s (pre ++ s.params)) (updateSubs rest pre)
end

mutual
/-- the dictionaries the callables of the leaves work with, in order: `_current_params`, and behind
it the defaults written in the callable. -/
def seen : PObj → List ParamEnv
  | leaf _ d cur => [cur ++ d]
  | node _ subs => seenSubs subs
def seenSubs : PObjs → List ParamEnv
  | .nil => []
  | .cons s rest => seen s ++ seenSubs rest
end

mutual
/-- the functional description: what `DIO.build env` gives the leaves (`Model/IOSysDyn.lean`:
`ofPolyD` evaluates with `env ++ params ++ defaults`, every operator passes `env ++ params` to its
operands). -/
def chain : PObj → ParamEnv → List ParamEnv
  | leaf ps d _, env => [env ++ ps ++ d]
  | node ps subs, env => chainSubs subs (env ++ ps)
def chainSubs : PObjs → ParamEnv → List ParamEnv
  | .nil, _ => []
  | .cons s rest, env => chain s env ++ chainSubs rest env
end

mutual
/-- a call with `params = env` on the object reached by `path` (indices into the `syslist`s); a
path that leads nowhere is no call. -/
def callAt : PObj → List Nat → ParamEnv → PObj
  | o, [], env => update o env
  | leaf ps d c, _ :: _, _ => leaf ps d c
  | node ps subs, i :: path, env => node ps (callAtSubs subs i path env)
def callAtSubs : PObjs → Nat → List Nat → ParamEnv → PObjs
  | .nil, _, _, _ => .nil
  | .cons s rest, 0, path, env => .cons (callAt s path env) rest
  | .cons s rest, i + 1, path, env => .cons s (callAtSubs rest i path env)
end

/-- a sequence of calls, each on some object of the tree with some `params`. -/
def runHist (o : PObj) : List (List Nat × ParamEnv) → PObj
  | [] => o
  | (path, env) :: rest => runHist (callAt o path env) rest

mutual
/-- the object with its mutable state erased. -/
def forget : PObj → PObj
  | leaf ps d _ => leaf ps d []
  | node ps subs => node ps (forgetSubs subs)
def forgetSubs : PObjs → PObjs
  | .nil => .nil
  | .cons s rest => .cons (forget s) (forgetSubs rest)
end

mutual
/-- the object reached by `path`. -/
def sub : PObj → List Nat → Option PObj
  | o, [] => some o
  | leaf _ _ _, _ :: _ => none
  | node _ subs, i :: path => subSubs subs i path
def subSubs : PObjs → Nat → List Nat → Option PObj
  | .nil, _, _ => none
  | .cons s _, 0, path => sub s path
  | .cons _ rest, i + 1, path => subSubs rest i path
end

end PObj

/-- two dictionaries with the same entries (all a callable can observe). -/
def ParamEnv.Same (a b : ParamEnv) : Prop := ∀ k : String, a.lookup k = b.lookup k

end CtrlVerif
