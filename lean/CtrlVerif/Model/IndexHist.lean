/-
Call histories of `sys[outputs, inputs]` (C17): the caller keeps selector objects (lists of names,
lists of ints, mixed lists, tuples, …) in variables and uses the same object in several indexing
calls, on the same or on another system.

What the code does with the caller's object (control/iosys.py): `NamedSignal._parse_key` walks over
the list and collects the translated entries in a *new* list `keylist`; `key = keylist` rebinds the
local name.  `_process_subsys_index` rebinds `idx` (`idx = idx[0]`, `idx += len(...)`, `idx = slice(…)`).
No statement writes into the object the caller passed.  So, in the model, a call reads the store of
the caller's objects and hands it back as it was; what the next call sees is what the caller wrote.
(The source-text tie `Generated/SubsysIndex.lean` has `key := keylist` as a rebinding of a local
`let mut`; an item or slice assignment to `key` is not translatable and breaks the tie.)
-/
import CtrlVerif.Model.Index

namespace CtrlVerif.Index

/-- the caller's selector objects, by variable number. -/
abbrev Store := List Sel

/-- reading a variable; a variable that does not exist holds no selector (`bad`). -/
def Store.read (st : Store) (v : Nat) : Sel := st.getD v .bad

/-- one indexing call of a history: `run` is the indexing operation of the system used in this call
(`getitem ctor cfg S`, for any of the three classes), `rowVar` / `colVar` are the caller's variables
that hold the two selector objects. -/
structure Call (ρ : Type) where
  run : Sel → Sel → ρ
  rowVar : Nat
  colVar : Nat

/-- one call: the result, and the caller's objects after the call (not written to). -/
def callStep {ρ : Type} (st : Store) (c : Call ρ) : ρ × Store :=
  (c.run (st.read c.rowVar) (st.read c.colVar), st)

/-- a history of calls: the results in order and the caller's objects at the end. -/
def runHist {ρ : Type} : Store → List (Call ρ) → List ρ × Store
  | st, [] => ([], st)
  | st, c :: cs =>
    let r := callStep st c
    let rest := runHist r.2 cs
    (r.1 :: rest.1, rest.2)

/-- what the caller does, step by step: an indexing call, or an edit of one of its own selector
objects (in place: `outs[:] = […]`, `outs.append(…)`; every holder of the object sees the edit). -/
inductive Event (ρ : Type) where
  | call (c : Call ρ)
  | write (v : Nat) (s : Sel)

/-- a history of calls and edits: the results of the calls in order and the caller's objects at the
end.  A call sees the objects as the caller last wrote them (nothing is remembered per object). -/
def runEvents {ρ : Type} : Store → List (Event ρ) → List ρ × Store
  | st, [] => ([], st)
  | st, .call c :: es =>
    let r := callStep st c
    let rest := runEvents r.2 es
    (r.1 :: rest.1, rest.2)
  | st, .write v s :: es => runEvents (st.set v s) es

end CtrlVerif.Index
