/-
C18 model, part 1: NumPy arrays as (shape, flat row-major data) and the few NumPy operations
the response classes use: `np.squeeze(a)`, `np.squeeze(a, axis=k)`, `a[i]`, `a[:, 0, :]`,
`np.transpose(a, np.roll(range(a.ndim), 1))`, and the two decision functions
`_process_time_response` (control/timeresp.py) and `_process_frequency_response`
(control/lti.py).  Everything is polymorphic in the element type: the operations only select
and move entries, so the driver runs them on *positions* and the harness applies the
returned positions to the implementation's own raw data.
-/
import CtrlVerif.Model.Err

namespace CtrlVerif

/-- a NumPy array: shape tuple and flat data in C (row-major) order. -/
structure NDArr (α : Type) where
  shape : List Nat
  data : List α
  deriving DecidableEq, Repr

/-- the three legal values of a `squeeze` keyword / attribute / configuration default, and
anything else (`other`: a value that is none of `None`, `True`, `False`). -/
inductive Sq where
  | none | true | false | other
  deriving DecidableEq, Repr, Inhabited

namespace NDArr

variable {α β : Type}

/-- class invariant of an array: as many entries as the shape says. -/
def WF (a : NDArr α) : Prop := a.data.length = a.shape.prod

instance (a : NDArr α) : Decidable a.WF := inferInstanceAs (Decidable (_ = _))

def ndim (a : NDArr α) : Nat := a.shape.length

def map (f : α → β) (a : NDArr α) : NDArr β := ⟨a.shape, a.data.map f⟩

/-- row-major flat position of a multi-index (`none` when out of range / wrong rank). -/
def flatIdx : List Nat → List Nat → Option Nat
  | [], [] => some 0
  | d :: ds, i :: is => if i < d then (flatIdx ds is).map (fun r => i * ds.prod + r) else none
  | _, _ => none

/-- `a[i₀, i₁, …]` with a full multi-index (the observable meaning of an array). -/
def get? (a : NDArr α) (idx : List Nat) : Option α := (flatIdx a.shape idx).bind (a.data[·]?)

/-- new flat data of length `n` whose `k`-th entry is the old entry at `f k`; an index outside
the data is an error, never a default. -/
def gather (d : List α) (n : Nat) (f : Nat → Nat) : Except Err (List α) :=
  if h : ∀ k, k < n → f k < d.length then
    .ok (List.ofFn fun k : Fin n => d[f k.val]'(h k.val k.isLt))
  else .error .shape

/-- `np.squeeze(a)`: every axis of length one is dropped, the data is untouched. -/
def squeeze (a : NDArr α) : NDArr α := ⟨a.shape.filter (· ≠ 1), a.data⟩

/-- `np.squeeze(a, axis=k)`: raises unless that axis has length one. -/
def squeezeAxis (a : NDArr α) (k : Nat) : Except Err (NDArr α) :=
  if a.shape[k]? = some 1 then .ok ⟨a.shape.eraseIdx k, a.data⟩ else .error .shape

/-- `a[i]` for a non-negative integer `i` (IndexError for a 0-d array or `i` out of range). -/
def index (a : NDArr α) (i : Nat) : Except Err (NDArr α) :=
  match a.shape with
  | [] => .error .indexRange
  | d :: ds => if i < d then .ok ⟨ds, (a.data.drop (i * ds.prod)).take ds.prod⟩
               else .error .indexRange

/-- `a[0]` -/
def index0 (a : NDArr α) : Except Err (NDArr α) := a.index 0

/-- `a[:, 0, :]` (only used on 3-D arrays; IndexError otherwise or when the axis is empty). -/
def dropTrace (a : NDArr α) : Except Err (NDArr α) :=
  match a.shape with
  | [n, m, T] =>
    if m = 0 then .error .indexRange
    else (gather a.data (n * T) fun k => (k / T) * (m * T) + k % T).map fun d => ⟨[n, T], d⟩
  | _ => .error .indexRange

/-- `np.transpose(a, np.roll(range(a.ndim), 1))`: the last axis (time) becomes the first, the
others keep their order. -/
def timeFirst (a : NDArr α) : Except Err (NDArr α) :=
  match a.shape.getLast? with
  | Option.none => .ok a
  | some T =>
    let pre := a.shape.dropLast
    (gather a.data (T * pre.prod) fun k => (k % pre.prod) * T + k / pre.prod).map
      fun d => ⟨T :: pre, d⟩

/-- flat source position of the flat entry `k` of `a[:, :, ks]` (`N`: length of the last axis of
`a`; an out-of-range source, `len`, if `ks` is empty). -/
def selIdx (ks : List Nat) (N len : Nat) (k : Nat) : Nat :=
  match ks[k % ks.length]? with
  | some j => (k / ks.length) * N + j
  | Option.none => len

/-- `a[:, :, ks]` on a 3-D array with a list of positions (integer-array indexing of the last
axis: the result has one slice per element of `ks`, in the order of `ks`, repeats included —
the selection of `FrequencyResponseData.eval`). -/
def selectLast (a : NDArr α) (ks : List Nat) : Except Err (NDArr α) :=
  match a.shape with
  | [p, m, N] =>
    if ks.all (· < N) then
      (gather a.data (p * m * ks.length) (selIdx ks N a.data.length)).map
        fun d => ⟨[p, m, ks.length], d⟩
    else .error .indexRange
  | _ => .error .indexRange

end NDArr

open NDArr

/-- "if squeeze is None: squeeze = config.defaults[...]" -/
def Sq.resolve (arg cfg : Sq) : Sq := if arg = .none then cfg else arg

/-- the squeeze stage of `_process_time_response` for a resolved squeeze value. -/
def squeezeTime {α : Type} (signal : NDArr α) (issiso : Bool) : Sq → Except Err (NDArr α)
  | .true => .ok signal.squeeze                 -- squeeze all dimensions
  | .false => .ok signal                        -- squeeze no dimensions
  | .none =>                                    -- squeeze signals if SISO
    if issiso then
      if signal.ndim = 3 then signal.index0.bind NDArr.index0   -- signal[0][0]
      else signal.index0                                        -- signal[0]
    else .ok signal
  | .other => .error .badArg                    -- "Unknown squeeze value"

/-- `_process_time_response(signal, issiso, transpose, squeeze)` with the configuration default
`cfg = config.defaults['control.squeeze_time_response']` as an input. -/
def processTime {α : Type} (signal : NDArr α) (issiso : Bool) (transpose : Bool) (squeeze cfg : Sq) :
    Except Err (NDArr α) :=
  (squeezeTime signal issiso (squeeze.resolve cfg)).bind fun s =>
    if transpose then s.timeFirst else .ok s

/-- the squeeze stage of `_process_frequency_response` for a resolved squeeze value. -/
def squeezeFreq {α : Type} (o : NDArr α) (issiso : Bool) : Sq → Except Err (NDArr α)
  | .true => .ok o.squeeze
  | .none => if issiso then o.index0.bind NDArr.index0 else .ok o
  | .false => .ok o
  | .other => .error .badArg

/-- `_process_frequency_response(sys, omega, out, squeeze)`; `omegaNdim = np.asarray(omega).ndim`,
`cfg = config.defaults['control.squeeze_frequency_response']`. -/
def processFreq {α : Type} (issiso : Bool) (omegaNdim : Nat) (out : NDArr α) (squeeze cfg : Sq) :
    Except Err (NDArr α) :=
  (if omegaNdim < 1 then out.squeezeAxis 2 else .ok out).bind fun o =>
    squeezeFreq o issiso (squeeze.resolve cfg)

end CtrlVerif
