/-
Dynamic (run-time shaped) layer of the state-space model: operand conversion, SISO promotion,
shape checks, operator dispatch and the timebase, following `StateSpace.__add__ … feedback`,
`lft`, `append`, `__pow__`, `__truediv__` of control/statesp.py step by step.  The block
constructions themselves are the typed definitions of `Model/SS.lean` (the ones the theorems of
`Props/C02.lean` are about); this layer only decides *which* of them is applied to *what*, checks
dimensions and re-types `Fin a ⊕ Fin b` as `Fin (a + b)`.
-/
import CtrlVerif.Model.SS
import CtrlVerif.Model.Dt
import Mathlib.Logic.Equiv.Fin.Basic

namespace CtrlVerif

open Matrix

variable {K : Type} [Field K] [DecidableEq K]

/-- a state-space object: number of states / outputs / inputs, the quadruple, the timebase. -/
structure DSS (K : Type) where
  n : Nat
  p : Nat
  m : Nat
  sys : SS (Fin n) (Fin m) (Fin p) K
  dt : Dt

namespace SS

/-- states `Fin a ⊕ Fin b` re-typed as `Fin (a + b)` (first block first). -/
def flatS {a b : Nat} {ι o : Type*} (G : SS (Fin a ⊕ Fin b) ι o K) : SS (Fin (a + b)) ι o K :=
  G.reindex finSumFinEquiv

/-- inputs and outputs `Fin c ⊕ Fin d` re-typed as `Fin (c + d)`. -/
def flatIO {σ : Type*} {c d e f : Nat} (G : SS σ (Fin c ⊕ Fin d) (Fin e ⊕ Fin f) K) :
    SS σ (Fin (c + d)) (Fin (e + f)) K :=
  G.select finSumFinEquiv.symm finSumFinEquiv.symm

/-- re-type inputs/outputs along equalities of the dimensions. -/
def castIO {σ : Type*} {p p' m m' : Nat} (hp : p = p') (hm : m = m')
    (G : SS σ (Fin m) (Fin p) K) : SS σ (Fin m') (Fin p') K :=
  G.select (Fin.cast hp.symm) (Fin.cast hm.symm)

/-- inputs `Fin (c + d)` and outputs `Fin (e + f)` partitioned (first block first). -/
def splitIO {σ : Type*} {c d e f : Nat} (G : SS σ (Fin (c + d)) (Fin (e + f)) K) :
    SS σ (Fin c ⊕ Fin d) (Fin e ⊕ Fin f) K :=
  G.select finSumFinEquiv finSumFinEquiv

/-- the entries of a square matrix over `Fin a ⊕ Fin b`, computed once (an `Array`, not a
closure): the executable model looks the certified inverse up instead of re-evaluating
determinants on every access.  `ofTable_table`: this is the identity. -/
@[noinline] def table {a b : Nat} (M : Matrix (Fin a ⊕ Fin b) (Fin a ⊕ Fin b) K) :
    Array (Array K) :=
  Array.ofFn fun i : Fin (a + b) => Array.ofFn fun j : Fin (a + b) =>
    M (finSumFinEquiv.symm i) (finSumFinEquiv.symm j)

def ofTable {a b : Nat} (t : Array (Array K)) : Matrix (Fin a ⊕ Fin b) (Fin a ⊕ Fin b) K :=
  fun i j => ((t[(finSumFinEquiv i).val]?).bind (fun r => r[(finSumFinEquiv j).val]?)).getD 0

theorem ofTable_table {a b : Nat} (M : Matrix (Fin a ⊕ Fin b) (Fin a ⊕ Fin b) K) :
    ofTable (table M) = M := by
  funext i j
  simp [ofTable, table]

end SS

namespace DSS

def isSiso (G : DSS K) : Bool := G.p == 1 && G.m == 1

/-- `_convert_to_statespace(array)` / `StateSpace([], [], [], D, dt=None)`. -/
def ofMatrix (p m : Nat) (D : Matrix (Fin p) (Fin m) K) : DSS K :=
  ⟨0, p, m, SS.static D, .none⟩

/-- `_convert_to_statespace(scalar)`: a 1×1 static gain. -/
def ofScalar (c : K) : DSS K := ofMatrix 1 1 (fun _ _ => c)

/-- `__neg__`. -/
def neg (G : DSS K) : DSS K := { G with sys := G.sys.neg }

/-- `StateSpace.append`. -/
def append (G H : DSS K) : Except Err (DSS K) := do
  let dt ← common G.dt H.dt
  pure ⟨G.n + H.n, G.p + H.p, G.m + H.m, (SS.append G.sys H.sys).flatS.flatIO, dt⟩

/-- `bdalg.append(*([g] * k))` for `k ≥ 1` (left fold of `append`). -/
def appendN (g : DSS K) : Nat → Except Err (DSS K)
  | 0 => .error .badArg
  | 1 => pure g
  | k + 1 => do
    let a ← appendN g k
    a.append g

/-- `self * M` for an array `M` (`q × r`), SISO `self` broadcast to `q` copies. -/
def mulArray (G : DSS K) (q r : Nat) (M : Matrix (Fin q) (Fin r) K) : Except Err (DSS K) := do
  let G' ← if G.isSiso then appendN G q else pure G
  if h : G'.m = q then
    pure ⟨G'.n, G'.p, r, (G'.sys.castIO rfl h).mulConst M, G'.dt⟩
  else .error .shape

/-- `M * self` for an array `M` (`q × r`), SISO `self` broadcast to `r` copies. -/
def rmulArray (G : DSS K) (q r : Nat) (M : Matrix (Fin q) (Fin r) K) : Except Err (DSS K) := do
  let G' ← if G.isSiso then appendN G r else pure G
  if h : G'.p = r then
    pure ⟨G'.n, q, G'.m, SS.constMul M (G'.sys.castIO h rfl), G'.dt⟩
  else .error .shape

/-- `self * c` (`B c`, `D c`) and `c * self` (`c B`, `c D`) coincide over a field. -/
def mulScalar (G : DSS K) (c : K) : DSS K := { G with sys := G.sys.smulRight c }

/-- `np.ones((q, r)) * g`. -/
def onesTimes (q r : Nat) (g : DSS K) : Except Err (DSS K) :=
  rmulArray g q r (fun _ _ => 1)

/-- `__mul__` for two systems (after SISO promotion): `G * H`, `H` first. -/
def mulSS (G H : DSS K) : Except Err (DSS K) := do
  let G' ← if G.isSiso && !H.isSiso then appendN G H.p else pure G
  let H' ← if !G.isSiso && H.isSiso then appendN H G.m else pure H
  if h : G'.m = H'.p then
    let dt ← common G'.dt H'.dt
    pure ⟨H'.n + G'.n, G'.p, H'.m, (SS.mul G'.sys (H'.sys.castIO h.symm rfl)).flatS, dt⟩
  else .error .shape

/-- `__rmul__` for a system on the left: `other * self`. -/
def rmulSS (self other : DSS K) : Except Err (DSS K) := do
  let self' ← if self.isSiso && !other.isSiso then appendN self other.m else pure self
  let other' ← if !self.isSiso && other.isSiso then appendN other self.p else pure other
  mulSS other' self'

/-- `__add__` for two systems. -/
def addSS (G H : DSS K) : Except Err (DSS K) := do
  let G' ← if G.isSiso && !H.isSiso then onesTimes H.p H.m G else pure G
  let H' ← if !G.isSiso && H.isSiso then onesTimes G.p G.m H else pure H
  if h : G'.m = H'.m ∧ G'.p = H'.p then
    let dt ← common G'.dt H'.dt
    pure ⟨G'.n + H'.n, G'.p, G'.m, (SS.add G'.sys (H'.sys.castIO h.2.symm h.1.symm)).flatS, dt⟩
  else .error .shape

/-- `self + c` for a scalar: `D + c` (NumPy broadcasting adds `c` to every entry). -/
def addScalar (G : DSS K) (c : K) : DSS K :=
  { G with sys := G.sys.addConst (fun _ _ => c) }

/-- `self + M` for an array of the system's shape; a SISO `self` is broadcast first
(`np.ones_like(M) * self`).  Any other shape is an error. -/
def addArray (G : DSS K) (q r : Nat) (M : Matrix (Fin q) (Fin r) K) : Except Err (DSS K) := do
  let G' ← if G.isSiso then onesTimes q r G else pure G
  if h : G'.p = q ∧ G'.m = r then
    pure { G' with sys := G'.sys.addConst (M.submatrix (Fin.cast h.1) (Fin.cast h.2)) }
  else .error .shape

/-- `self ** -1`: square I/O and invertible `D` (decided by `det D ≠ 0`, inverse certified by
`SS.invQ_spec`). -/
def inv (G : DSS K) : Except Err (DSS K) :=
  if h : G.m = G.p then
    let D : Matrix (Fin G.p) (Fin G.p) K := G.sys.D.submatrix id (Fin.cast h.symm)
    if D.det = 0 then .error .illPosed
    else
      let Di : Matrix (Fin G.m) (Fin G.p) K := (SS.invQ D).submatrix (Fin.cast h) id
      pure ⟨G.n, G.m, G.p, G.sys.inv Di, G.dt⟩
  else .error .notImplemented

/-- `self ** k`, `k ≥ 0` (`self * self ** (k-1)`, `self ** 0 = I`). -/
def powNat (G : DSS K) : Nat → Except Err (DSS K)
  | 0 => pure ⟨0, G.m, G.m, SS.static 1, G.dt⟩
  | 1 => pure G
  | k + 1 => do
    let r ← powNat G k
    mulSS G r

/-- `__pow__`. -/
def pow (G : DSS K) (k : Int) : Except Err (DSS K) :=
  if G.m ≠ G.p then .error .notImplemented
  else if k < -1 then do
    let gi ← G.inv
    gi.powNat k.natAbs
  else if k = -1 then G.inv
  else G.powNat k.toNat

/-- `feedback(self, other, sign)` for two systems. -/
def feedbackSS (G H : DSS K) (sign : K) : Except Err (DSS K) :=
  if h : G.m = H.p ∧ G.p = H.m then do
    let dt ← common G.dt H.dt
    let H' : SS (Fin H.n) (Fin G.p) (Fin G.m) K := H.sys.castIO h.1.symm h.2.symm
    let F : Matrix (Fin G.m) (Fin G.m) K := 1 - sign • (H'.D * G.sys.D)
    if F.det = 0 then .error .illPosed
    else pure ⟨G.n + H.n, G.p, G.m, (SS.feedback G.sys H' sign (SS.invQ F)).flatS, dt⟩
  else .error .shape

/-- the upper system of `lft` partitioned as the code slices it: inputs `[:m-nu] | [m-nu:]`,
outputs `[:p-ny] | [p-ny:]`. -/
def lftUpper (G : DSS K) (nu ny : Nat) (hu : nu ≤ G.m) (hy : ny ≤ G.p) :
    SS (Fin G.n) (Fin (G.m - nu) ⊕ Fin nu) (Fin (G.p - ny) ⊕ Fin ny) K :=
  (G.sys.castIO (p' := (G.p - ny) + ny) (m' := (G.m - nu) + nu) (by omega) (by omega)).splitIO

/-- the lower system of `lft`: inputs `[:ny] | [ny:]`, outputs `[:nu] | [nu:]`. -/
def lftLower (H : DSS K) (nu ny : Nat) (hu : nu ≤ H.p) (hy : ny ≤ H.m) :
    SS (Fin H.n) (Fin ny ⊕ Fin (H.m - ny)) (Fin nu ⊕ Fin (H.p - nu)) K :=
  (H.sys.castIO (p' := nu + (H.p - nu)) (m' := ny + (H.m - ny)) (by omega) (by omega)).splitIO

/-- `lft` for a resolved partition on which the operation is defined (`nu` control inputs of
`G` = first `nu` outputs of `H`, `ny` measured outputs of `G` = first `ny` inputs of `H`) and
the common timebase `dt`: well-posedness is `det F ≠ 0` (the code: `matrix_rank(F) = ny + nu`),
the inverse is the certified `det⁻¹ • adjugate` (tabulated once). -/
def lftSS (G H : DSS K) (nu ny : Nat) (h : nu ≤ G.m ∧ nu ≤ H.p ∧ ny ≤ G.p ∧ ny ≤ H.m) (dt : Dt) :
    Except Err (DSS K) :=
  let G' := lftUpper G nu ny h.1 h.2.2.1
  let H' := lftLower H nu ny h.2.1 h.2.2.2
  let F := SS.lftF G' H'
  if F.det = 0 then .error .illPosed
  else
    let t := SS.table (SS.invQ F)
    pure ⟨G.n + H.n, (G.p - ny) + (H.p - nu), (G.m - nu) + (H.m - ny),
      (SS.lft G' H' (SS.ofTable t)).flatS.flatIO, dt⟩

/-- `sys[rows, cols]` for index lists already resolved and range-checked. -/
def select (G : DSS K) (rows cols : List Nat) : Except Err (DSS K) :=
  if h : (∀ r ∈ rows, r < G.p) ∧ (∀ c ∈ cols, c < G.m) then
    pure ⟨G.n, rows.length, cols.length,
      G.sys.select (fun i : Fin rows.length => ⟨rows[i], h.1 _ (List.getElem_mem _)⟩)
        (fun j : Fin cols.length => ⟨cols[j], h.2 _ (List.getElem_mem _)⟩), G.dt⟩
  else .error .indexRange

end DSS

/-- operands of the Python operators: a system, a Python/NumPy scalar, or a 2-D array. -/
inductive SOperand (K : Type) where
  | sys (G : DSS K)
  | scalar (c : K)
  | array (p m : Nat) (D : Matrix (Fin p) (Fin m) K)

namespace DSS

def SOperand.neg : SOperand K → SOperand K
  | .sys H => .sys H.neg
  | .scalar c => .scalar (-c)
  | .array p m D => .array p m (-D)

/-- `_convert_to_statespace`. -/
def toSys : SOperand K → DSS K
  | .sys G => G
  | .scalar c => ofScalar c
  | .array p m D => ofMatrix p m D

/-- `self + other` (`__radd__` is the same call). -/
def add (G : DSS K) : SOperand K → Except Err (DSS K)
  | .sys H => addSS G H
  | .scalar c => pure (G.addScalar c)
  | .array p m D => G.addArray p m D

/-- `self - other` = `self + (-other)`. -/
def sub (G : DSS K) (x : SOperand K) : Except Err (DSS K) := G.add (SOperand.neg x)

/-- `other - self` = `other + (-self)`. -/
def rsub (G : DSS K) (x : SOperand K) : Except Err (DSS K) :=
  match x with
  | .sys H => addSS H G.neg
  | y => G.neg.add y

/-- `self * other`. -/
def mul (G : DSS K) : SOperand K → Except Err (DSS K)
  | .sys H => mulSS G H
  | .scalar c => pure (G.mulScalar c)
  | .array p m D => G.mulArray p m D

/-- `other * self` for `other` on the left. -/
def rmul (G : DSS K) : SOperand K → Except Err (DSS K)
  | .sys H => rmulSS G H
  | .scalar c => pure (G.mulScalar c)
  | .array p m D => G.rmulArray p m D

/-- `self / other` = `self * (1 / other)`; only scalars and systems are modelled. -/
def truediv (G : DSS K) : SOperand K → Except Err (DSS K)
  | .sys H => do
    let hi ← H.pow (-1)
    mulSS G hi
  | .scalar c => if c = 0 then .error .zeroDen else pure (G.mulScalar (1 / c))
  | .array _ _ _ => .error .notImplemented

/-- `other / self` = `other * self ** -1`. -/
def rtruediv (G : DSS K) (x : SOperand K) : Except Err (DSS K) := do
  let gi ← G.pow (-1)
  gi.rmul x

/-- `self.feedback(other, sign)`. -/
def feedback (G : DSS K) (x : SOperand K) (sign : K) : Except Err (DSS K) :=
  feedbackSS G (toSys x) sign

/-- `self.lft(other, nu, ny)`: `-1` means the maximal value; then the common timebase; the
partition must be one for which the slices of the code have the sizes `nu` / `ny` (the code has
`# dimension check  # TODO`: for other values NumPy's slicing / `np.block` / `np.eye` raise), then
`lftSS`. -/
def lft (G : DSS K) (x : SOperand K) (nu ny : Int) : Except Err (DSS K) := do
  let H := toSys x
  let ny' : Int := if ny = -1 then min (H.m : Int) (G.p : Int) else ny
  let nu' : Int := if nu = -1 then min (H.p : Int) (G.m : Int) else nu
  let dt ← common G.dt H.dt
  if h : 0 ≤ nu' ∧ 0 ≤ ny' ∧ nu'.toNat ≤ G.m ∧ nu'.toNat ≤ H.p ∧ ny'.toNat ≤ G.p ∧ ny'.toNat ≤ H.m
  then lftSS G H nu'.toNat ny'.toNat h.2.2 dt
  else .error .shape

end DSS

end CtrlVerif
