/-
Meaning of the NumPy operations on COMPLEX coefficient arrays that `harness/core/py2lean_arith.py`
emits for control/margins.py (`_poly_iw_sqr`, `_poly_iw_mag1_crossing`, `_poly_iw_wstab`).  A complex
array is the pair (real parts, imaginary parts) of equal length.  Hand-written, part of the trusted
base of the source-text tie (the real-array operations `np.polymul / polysub / polyadd / polyder`
are `Margins.npmul / npsub`, `polyadd`, `Margins.polyder` of the model, whose agreement with NumPy
is part of the C12 correspondence).
-/
import CtrlVerif.Model.Margins

namespace CtrlVerif.PyNumpy

open CtrlVerif CtrlVerif.Margins

variable {K : Type} [Field K]

/-- `p.conj()` -/
def cconj (p : List K × List K) : List K × List K := (p.1, pneg p.2)

/-- `np.polymul(p, q)` on complex arrays: both operands pass through `poly1d` (leading complex zeros
stripped, `ctrim`), then `convolve`: `(a + ib)(c + id) = (ac - bd) + i(ad + bc)`. -/
def cpolymul [DecidableEq K] (p q : List K × List K) : List K × List K :=
  (npsub (polymul (ctrim p.1 p.2).1 (ctrim q.1 q.2).1) (polymul (ctrim p.1 p.2).2 (ctrim q.1 q.2).2),
   polyadd (polymul (ctrim p.1 p.2).1 (ctrim q.1 q.2).2) (polymul (ctrim p.1 p.2).2 (ctrim q.1 q.2).1))

end CtrlVerif.PyNumpy
