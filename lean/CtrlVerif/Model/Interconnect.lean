/-
Model of `interconnect()` (control/nlsys.py), `_parse_spec` / `_find_signals` (control/iosys.py),
`InterconnectedSystem.__init__` (the three maps), `_compute_static_io` and the linearisation
that `LinearICSystem` stores (control/statesp.py).

Strings are modelled after tokenisation: the harness applies the *same* regular expressions as
the code (`([\w$]+)\[([\d]*):([\d]*)\]$`, `([\w$]+)$`, `([\w$]+)\[([\d]+)\]$`, split on '.',
leading '-') and passes the groups; everything after that (dictionary look-ups, slices, base
names, gains, range checks, the pre-processing loops of `interconnect`, offsets, accumulation
into the maps, the propagation loop, the closed-loop matrices) is computed here.

Two stages, as in the code: `interconnect` pre-processes its arguments into lists of low-level
specs (`(isys, [indices], gain)` tuples, `(sysname, label, gain)` for subsystem inputs used as
outputs), `InterconnectedSystem.__init__` (`buildMaps`) parses those again and fills the maps.

The operator forms on I/O systems (`NonlinearIOSystem.__add__`, `__radd__`, `__sub__`, `__mul__`,
`__rmul__`, `__neg__`, `feedback`, control/nlsys.py) are modelled by `opParallel`, `opSeries`,
`opNeg`, `opFeedback`: the index-tuple lists the code writes, evaluated by `buildMaps`, and the
`np.eye` blocks of `set_connect_map`.

The model is the code with the two missing `raise` statements of `_parse_spec` restored
(an out-of-range system or signal index is an error), and with `connections=[]` meaning "no
connections" (the code wraps it into `[[]]` and dies with an IndexError).
-/
import CtrlVerif.Model.Err
import CtrlVerif.Model.SS

namespace CtrlVerif.IC

/-! ### signal dictionaries and `_find_signals` -/

/-- a signal label together with the groups of `([\w$]+)\[([\d]+)\]$` (if it matches). -/
structure Label where
  raw : String
  idx : Option (String × Nat)
  deriving DecidableEq, Repr, Inhabited

/-- what `interconnect` looks at in a subsystem: name, input labels, output labels
(position in the list = value in `input_index` / `output_index`). -/
structure SysSig where
  name : String
  inputs : List Label
  outputs : List Label
  deriving Repr, Inhabited

inductive Dict | input | output
  deriving DecidableEq, Repr

def SysSig.labels (S : SysSig) : Dict → List Label
  | .input => S.inputs
  | .output => S.outputs

/-- a signal name as `_find_signals` classifies it. -/
inductive NameTok where
  | slice (base : String) (start stop : Option Nat)   -- `base[start:stop]`
  | base (name : String)                              -- matches `[\w$]+$`
  | exact (name : String)                             -- anything else, e.g. `u[1]`
  deriving DecidableEq, Repr, Inhabited

/-- classification of a label used as a name (labels are `\w+` or `\w+[\d+]`). -/
def Label.tok (l : Label) : NameTok :=
  match l.idx with
  | some _ => .exact l.raw
  | none => .base l.raw

/-- `sigdict.get(name)` -/
def lookup (labels : List Label) (name : String) : Option Nat :=
  labels.findIdx? (fun l => l.raw == name)

def inRange (lo hi : Option Nat) (n : Nat) : Bool :=
  lo.all (fun a => decide (a ≤ n)) && hi.all (fun b => decide (n < b))

/-- positions of the labels `b[n]` with `ok n`, in dictionary order. -/
def withBase (labels : List Label) (b : String) (ok : Nat → Bool) : List Nat :=
  labels.zipIdx.filterMap fun lk =>
    match lk.1.idx with
    | some (b', n) => if b' == b && ok n then some lk.2 else none
    | none => none

def findOne (labels : List Label) : NameTok → List (Option Nat)
  | .slice b lo hi => (withBase labels b (inRange lo hi)).map some
  | .base nm =>
    match lookup labels nm with
    | some k => [some k]
    | none => (withBase labels nm fun _ => true).map some
  | .exact nm => [lookup labels nm]

/-- `_find_signals(name_list, sigdict)`: `none` when nothing or something unknown was named. -/
def findSignals (labels : List Label) (names : List NameTok) : Option (List Nat) :=
  let l := names.flatMap (findOne labels)
  if l.isEmpty then none else l.mapM id

/-! ### `_parse_spec` -/

inductive SysRef where
  | idx (i : Int)
  | name (s : String)
  deriving DecidableEq, Repr, Inhabited

inductive SigRef where
  | all                         -- no signal part
  | idx (i : Int)
  | idxs (l : List Int)
  | names (l : List NameTok)    -- a string, or a list of strings
  deriving DecidableEq, Repr, Inhabited

/-- a signal specification after tokenisation: system part (with "had a leading '-'"), signal
part (idem), explicit gain (third tuple entry); `malformed` = a spec `_parse_spec` cannot
split (wrong type, more than one '.', tuple longer than 3, system part not int/str). -/
inductive Spec (K : Type) where
  | mk (sys : SysRef) (sysNeg : Bool) (sig : SigRef) (sigNeg : Bool) (gain : Option K)
  | malformed
  deriving Repr, Inhabited

variable {K : Type} [Field K] [DecidableEq K]

/-- system part to index; a name is looked up in `{sys.name: i}` (last one wins).  The range
check is the one `_parse_spec` means to make (the `raise` is missing in the unrepaired code). -/
def sysIndex (sigs : List SysSig) : SysRef → Except Err Nat
  | .idx i => if i < 0 ∨ (sigs.length : Int) ≤ i then .error .indexRange else .ok i.toNat
  | .name s =>
    match (sigs.zipIdx.filter fun Sk => Sk.1.name == s).getLast? with
    | some Sk => .ok Sk.2
    | none => .error .unknownName

def gainConflict (sneg gneg : Bool) (gain : Option K) : Bool :=
  (sneg && gain.isSome) || (gneg && gain.isSome) || (sneg && gneg)

def gainOf (sneg gneg : Bool) (gain : Option K) : K :=
  if sneg || gneg then -1 else match gain with | some g => g | none => 1

/-- the signal indices named by the signal part, before the range check. -/
def sigIndices (labels : List Label) : SigRef → Except Err (List Int)
  | .all => .ok ((List.range labels.length).map Int.ofNat)
  | .idx i => .ok [i]
  | .idxs l => .ok l
  | .names l =>
    match findSignals labels l with
    | some r => .ok (r.map Int.ofNat)
    | none => .error .unknownName

def idxBad (n : Nat) (i : Int) : Bool := decide (i < 0) || decide ((n : Int) ≤ i)

/-- `_parse_spec(syslist, spec, signame)`: subsystem index, signal indices, gain. -/
def parseSpec (sigs : List SysSig) (d : Dict) : Spec K → Except Err (Nat × List Nat × K)
  | .malformed => .error .badArg
  | .mk sys sneg sig gneg gain =>
    if gainConflict sneg gneg gain then .error .badArg
    else
      match sysIndex sigs sys with
      | .error e => .error e
      | .ok si =>
        match sigs[si]? with
        | none => .error .indexRange
        | some S =>
          match sigIndices (S.labels d) sig with
          | .error e => .error e
          | .ok idxs =>
            if idxs.any (idxBad (S.labels d).length) then .error .indexRange
            else .ok (si, idxs.map Int.toNat, gainOf sneg gneg gain)

/-! ### `InterconnectedSystem.__init__`: offsets and the three maps -/

/-- `input_offset[k]` / `output_offset[k]`; `offset … sigs.length` is the total. -/
def offset (sigs : List SysSig) (d : Dict) (k : Nat) : Nat :=
  ((sigs.take k).map fun S => (S.labels d).length).sum

def total (sigs : List SysSig) (d : Dict) : Nat := offset sigs d sigs.length

/-- `_parse_input_spec`: indices into the stacked subsystem inputs; no gain allowed. -/
def parseInputSpec (sigs : List SysSig) (s : Spec K) : Except Err (List Nat) :=
  match parseSpec sigs .input s with
  | .error e => .error e
  | .ok (si, idxs, g) =>
    if g ≠ 1 then .error .badArg else .ok (idxs.map fun i => offset sigs .input si + i)

/-- `_parse_output_spec`: indices into `ylist` (subsystem outputs, then subsystem inputs) and
gain; a spec that does not parse as an output is tried as an input. -/
def parseOutputSpec (sigs : List SysSig) (s : Spec K) : Except Err (List Nat × K) :=
  match parseSpec sigs .output s with
  | .ok (si, idxs, g) => .ok (idxs.map fun i => offset sigs .output si + i, g)
  | .error _ =>
    match parseSpec sigs .input s with
    | .ok (si, idxs, g) =>
      .ok (idxs.map fun i => total sigs .output + offset sigs .input si + i, g)
    | .error e => .error e

/-- one `+=` into a map: row, column, value. -/
abbrev Entry (K : Type) := Nat × Nat × K

/-- a map as a matrix: duplicate entries accumulate. -/
def toMat (r c : Nat) (es : List (Entry K)) : Matrix (Fin r) (Fin c) K :=
  fun i j => ((es.filter fun e => e.1 == i.val && e.2.1 == j.val).map fun e => e.2.2).sum

/-- entries contributed by one output-spec of a connection whose input-spec gave `iidx`. -/
def connPart (sigs : List SysSig) (iidx : List Nat) (o : Spec K) : Except Err (List (Entry K)) :=
  match parseOutputSpec sigs o with
  | .error e => .error e
  | .ok (oidx, g) =>
    if oidx.length ≠ iidx.length then .error .shape
    else .ok ((iidx.zip oidx).map fun (ij : Nat × Nat) => (ij.1, ij.2, g))

/-- entries of one connection `[input-spec, output-spec, …]` of `connect_map`. -/
def connEntries (sigs : List SysSig) (c : Spec K × List (Spec K)) : Except Err (List (Entry K)) :=
  match parseInputSpec sigs c.1 with
  | .error e => .error e
  | .ok iidx => (c.2.mapM (connPart sigs iidx)).map List.flatten

def inpPart (sigs : List SysSig) (index : Nat) (s : Spec K) : Except Err (List (Entry K)) :=
  match parseInputSpec sigs s with
  | .error e => .error e
  | .ok us => .ok (us.zipIdx.map fun (uj : Nat × Nat) => (uj.1, index + uj.2, (1 : K)))

/-- entries of one element (a list of specs) of `inplist` at position `index`. -/
def inpEntries (sigs : List SysSig) (index : Nat) (entry : List (Spec K)) :
    Except Err (List (Entry K)) :=
  (entry.mapM (inpPart sigs index)).map List.flatten

def outPart (sigs : List SysSig) (index : Nat) (s : Spec K) : Except Err (List (Entry K)) :=
  match parseOutputSpec sigs s with
  | .error e => .error e
  | .ok (ys, g) => .ok (ys.zipIdx.map fun (yj : Nat × Nat) => (index + yj.2, yj.1, g))

/-- entries of one element of `outlist` at position `index`. -/
def outEntries (sigs : List SysSig) (index : Nat) (entry : List (Spec K)) :
    Except Err (List (Entry K)) :=
  (entry.mapM (outPart sigs index)).map List.flatten

/-- the three maps as entry lists, with the sizes of the arrays they are written into. -/
structure Maps (K : Type) where
  nu : Nat                      -- stacked subsystem inputs
  ny : Nat                      -- stacked subsystem outputs
  nin : Nat                     -- inputs of the interconnected system
  nout : Nat                    -- outputs of the interconnected system
  connect : List (Entry K)      -- `nu × ny`
  inp : List (Entry K)          -- `nu × nin`
  out : List (Entry K)          -- `nout × (ny + nu)`
  deriving Repr, DecidableEq

/-- `InterconnectedSystem.__init__` from pre-processed arguments.  `nin`, `nout` are the sizes
the constructor derives from `inputs` / `outputs` (or the list lengths); an entry outside the
array is NumPy's IndexError. -/
def buildMaps (sigs : List SysSig) (conns : List (Spec K × List (Spec K)))
    (inplist outlist : List (List (Spec K))) (nin nout : Nat) : Except Err (Maps K) :=
  match conns.mapM (connEntries sigs) with
  | .error e => .error e
  | .ok ce =>
    match inplist.zipIdx.mapM fun ek => inpEntries sigs ek.2 ek.1 with
    | .error e => .error e
    | .ok ie =>
      if ie.flatten.any (fun e => decide (nin ≤ e.2.1)) then .error .shape
      else
        match outlist.zipIdx.mapM fun ek => outEntries sigs ek.2 ek.1 with
        | .error e => .error e
        | .ok oe =>
          if oe.flatten.any (fun e => decide (nout ≤ e.1)) then .error .shape
          else .ok ⟨total sigs .input, total sigs .output, nin, nout,
                    ce.flatten, ie.flatten, oe.flatten⟩

/-! ### `interconnect`: pre-processing -/

/-- `(isys, [indices], gain)` -/
def tupleSpec (si : Nat) (idxs : List Nat) (g : K) : Spec K :=
  .mk (.idx si) false (.idxs (idxs.map Int.ofNat)) false (some g)

/-- `(isys, isig, gain)` -/
def tripleSpec (si i : Nat) (g : K) : Spec K := .mk (.idx si) false (.idx i) false (some g)

/-- `(isys, isig)` -/
def pairSpec (si i : Nat) : Spec K := .mk (.idx si) false (.idx i) false none

/-- `'sysname.label'` or `(sysname, label, gain)` -/
def namedSpec (sys : String) (l : Label) (g : Option K) : Spec K :=
  .mk (.name sys) false (.names [l.tok]) false g

/-- an element of the `connections` argument: a str/tuple, or a list of specs. -/
inductive ConnEntry (K : Type) where
  | atom (s : Spec K)
  | list (l : List (Spec K))
  deriving Repr

/-- the `connections` argument: `None`, `False`, or a list. -/
inductive ConnArg (K : Type) where
  | implicit
  | off
  | explicit (l : List (ConnEntry K))
  deriving Repr

/-- `connections=None`: every subsystem input is fed by all outputs with the same label. -/
def implicitConnections (sigs : List SysSig) : List (List (Spec K)) :=
  sigs.flatMap fun S => S.inputs.filterMap fun l =>
    let c : List (Spec K) := namedSpec S.name l none ::
      (sigs.filter fun T => T.outputs.any fun m => m.raw == l.raw).map
        fun T => namedSpec T.name l none
    if c.length > 1 then some c else none

def ConnEntry.isAtom : ConnEntry K → Bool
  | .atom _ => true
  | .list _ => false

/-- "invalid connection …: should be a list" -/
def ConnEntry.asList : ConnEntry K → Except Err (List (Spec K))
  | .atom _ => .error .badArg
  | .list c => .ok c

/-- a flat list of str/tuples is a single connection; otherwise every element must be a list. -/
def normConns (l : List (ConnEntry K)) : Except Err (List (List (Spec K))) :=
  if l.isEmpty then .ok []
  else if l.all ConnEntry.isAtom then
    .ok [l.filterMap fun e => match e with | .atom s => some s | .list _ => none]
  else l.mapM ConnEntry.asList

/-- an output-spec of a connection, parsed and expanded to `(osys, [indices], gain)`. -/
def preSource (sigs : List SysSig) (o : Spec K) : Except Err (Spec K) :=
  match parseSpec sigs .output o with
  | .error e => .error e
  | .ok (so, oi, og) => .ok (tupleSpec so oi og)

/-- pre-processing of one connection: parse and expand both sides. -/
def preConnection (sigs : List SysSig) (c : List (Spec K)) :
    Except Err (Spec K × List (Spec K)) :=
  match c with
  | [] => .error .badArg
  | inp :: outs =>
    match parseSpec sigs .input inp with
    | .error e => .error e
    | .ok (si, idxs, g) =>
      match outs.mapM (preSource sigs) with
      | .error e => .error e
      | .ok outs' => .ok (tupleSpec si idxs g, outs')

def preConnections (sigs : List SysSig) : ConnArg K →
    Except Err (List (Spec K × List (Spec K)))
  | .implicit => (implicitConnections sigs).mapM (preConnection sigs)
  | .off => .ok []
  | .explicit l =>
    match normConns l with
    | .error e => .error e
    | .ok cs => cs.mapM (preConnection sigs)

/-- an element of `inplist` / `outlist`: a string without '.', another single spec, a list. -/
inductive IOEntry (K : Type) where
  | bare (neg : Bool) (raw : String) (tok : NameTok)
  | single (s : Spec K)
  | list (l : List (Spec K))
  deriving Repr

/-- state of the loop over the subsystems for a bare name. -/
structure BareAcc (K : Type) where
  sysEntries : List (List (Spec K)) := []
  conns : List (List (Spec K)) := []
  foundSys : Bool := false
  foundSig : Bool := false
  added : Nat := 0

/-- `new_connections[i].append(cnx)` for the `i`-th new signal. -/
def zipAppend {α : Type} : List (List α) → List α → List (List α)
  | c :: cs, x :: xs => (c ++ [x]) :: zipAppend cs xs
  | cs, [] => cs
  | [], _ :: _ => []

def bareStep (d : Dict) (g : K) (raw : String) (tok : NameTok) (acc : BareAcc K)
    (Sk : SysSig × Nat) : Except Err (BareAcc K) :=
  if raw == Sk.1.name then
    .ok { acc with
          sysEntries := acc.sysEntries ++
            (List.range (Sk.1.labels d).length).map fun i => [tripleSpec Sk.2 i g]
          foundSys := true }
  else
    match findSignals (Sk.1.labels d) [tok] with
    | none => .ok acc
    | some idxs =>
      let newc : List (Spec K) := idxs.map fun i => tripleSpec Sk.2 i g
      if acc.conns.isEmpty then
        .ok { acc with conns := newc.map fun c => [c], foundSig := true,
                       added := acc.added + idxs.length }
      else if acc.conns.length < newc.length then .error .shape
      else .ok { acc with conns := zipAppend acc.conns newc, foundSig := true }

/-- a string without '.' in `inplist`/`outlist`: a subsystem name (all its signals, one entry
each) or a signal name looked up in every subsystem (matches are summed). -/
def preBare (sigs : List SysSig) (d : Dict) (neg : Bool) (raw : String) (tok : NameTok) :
    Except Err (List (List (Spec K)) × Nat) :=
  match sigs.zipIdx.foldlM (bareStep d (if neg then (-1 : K) else 1) raw tok) {} with
  | .error e => .error e
  | .ok acc =>
    if acc.foundSys && acc.foundSig then .error .badArg
    else if acc.foundSig then .ok (acc.conns, acc.added)
    else if !acc.foundSys then .error .unknownName
    else .ok (acc.sysEntries, acc.added)

/-- expansion of a parsed spec into one `(isys, isig, gain)` per signal. -/
def triples (r : Nat × List Nat × K) : List (Spec K) := r.2.1.map fun i => tripleSpec r.1 i r.2.2

def preInEntry (sigs : List SysSig) : IOEntry K → Except Err (List (List (Spec K)) × Nat)
  | .bare neg raw tok => preBare sigs .input neg raw tok
  | .list l =>
    match l.mapM fun s => (parseSpec sigs .input s).map triples with
    | .error e => .error e
    | .ok ts => .ok ([ts.flatten], 0)
  | .single s =>
    match parseSpec sigs .input s with
    | .error e => .error e
    | .ok r => .ok ((triples r).map fun t => [t], 0)

/-- `_find_output_or_input_signal`: subsystem outputs as `(osys, osig, gain)`, subsystem inputs
as `(sysname, label, gain)`. -/
def outOrIn (sigs : List SysSig) (s : Spec K) : Except Err (List (Spec K)) :=
  match parseSpec sigs .output s with
  | .ok r => .ok (triples r)
  | .error _ =>
    match parseSpec sigs .input s with
    | .error e => .error e
    | .ok (si, idxs, g) =>
      match sigs[si]? with
      | none => .error .indexRange
      | some S =>
        idxs.mapM fun i =>
          match S.inputs[i]? with
          | none => (.error .indexRange : Except Err (Spec K))
          | some l => .ok (namedSpec S.name l (some g))

def preOutEntry (sigs : List SysSig) : IOEntry K → Except Err (List (List (Spec K)) × Nat)
  | .bare neg raw tok => preBare sigs .output neg raw tok
  | .list l =>
    match l.mapM (outOrIn sigs) with
    | .error e => .error e
    | .ok ts => .ok ([ts.flatten], 0)
  | .single s =>
    match outOrIn sigs s with
    | .error e => .error e
    | .ok ts => .ok (ts.map fun t => [t], 0)

/-- run the per-entry pre-processing over a list; returns the new list and the number of names
appended to `new_inputs` / `new_outputs`. -/
def preList (f : IOEntry K → Except Err (List (List (Spec K)) × Nat)) (l : List (IOEntry K)) :
    Except Err (List (List (Spec K)) × Nat) :=
  match l.mapM f with
  | .error e => .error e
  | .ok rs => .ok ((rs.map Prod.fst).flatten, (rs.map Prod.snd).sum)

/-- the `inputs` value after pre-processing, as a count: rewritten when `inplist` was omitted. -/
def finalCount (listNone : Bool) (added : Nat) (given : Option Nat) : Option Nat :=
  if listNone then some added else given

/-- "`inputs` incompatible with `inplist`" -/
def countOK (cnt : Option Nat) (len : Nat) : Bool :=
  match cnt with
  | some k => k == 0 || k == len
  | none => true

/-- number of inputs the constructor creates. -/
def width (cnt : Option Nat) (len : Nat) : Nat :=
  match cnt with
  | some k => k
  | none => len

/-- accumulated value of a map entry. -/
def accum (es : List (Entry K)) (r c : Nat) : K :=
  ((es.filter fun e => e.1 == r && e.2.1 == c).map fun e => e.2.2).sum

def rowUsed (es : List (Entry K)) (r : Nat) : Bool :=
  es.any fun e => e.1 == r && decide (accum es r e.2.1 ≠ 0)

def colUsed (es : List (Entry K)) (c : Nat) : Bool :=
  es.any fun e => e.2.1 == c && decide (accum es e.1 c ≠ 0)

/-- flat index in the stacked signal list back to `(isys, isig)`. -/
def unflat (sigs : List SysSig) (d : Dict) (k : Nat) : Option (Nat × Nat) :=
  (sigs.zipIdx.filterMap fun Sj =>
    if offset sigs d Sj.2 ≤ k ∧ k < offset sigs d Sj.2 + (Sj.1.labels d).length
    then some (Sj.2, k - offset sigs d Sj.2) else none).head?

/-- `unused_signals()`: subsystem inputs / outputs whose row / column is zero in every map. -/
def unusedInputs (sigs : List SysSig) (m : Maps K) : List (Nat × Nat) :=
  (List.range m.nu).filterMap fun r =>
    if rowUsed m.inp r || rowUsed m.connect r then none else unflat sigs .input r

def unusedOutputs (sigs : List SysSig) (m : Maps K) : List (Nat × Nat) :=
  (List.range m.ny).filterMap fun c =>
    if colUsed m.out c || colUsed m.connect c then none else unflat sigs .output c

/-- arguments of `interconnect`, tokenised. -/
structure Args (K : Type) where
  sigs : List SysSig
  conns : ConnArg K
  inplistNone : Bool              -- `inplist` omitted: the entries are the names in `inputs`
  inplist : List (IOEntry K)
  inputs : Option Nat             -- number of names in `inputs` (when `inplist` is given)
  outlistNone : Bool
  outlist : List (IOEntry K)
  outputs : Option Nat
  addUnused : Bool

/-- `interconnect(...)` up to the three maps. -/
def interconnect (a : Args K) : Except Err (Maps K) :=
  match preConnections a.sigs a.conns with
  | .error e => .error e
  | .ok conns =>
    match preList (preInEntry a.sigs) a.inplist with
    | .error e => .error e
    | .ok (inl, addIn) =>
      match preList (preOutEntry a.sigs) a.outlist with
      | .error e => .error e
      | .ok (outl, addOut) =>
        let cin := finalCount a.inplistNone addIn a.inputs
        let cout := finalCount a.outlistNone addOut a.outputs
        if !countOK cin inl.length || !countOK cout outl.length then .error .badArg
        else
          match buildMaps a.sigs conns inl outl (width cin inl.length) (width cout outl.length) with
          | .error e => .error e
          | .ok m =>
            if !a.addUnused then .ok m
            else
              let di := unusedInputs a.sigs m
              let dout := unusedOutputs a.sigs m
              let inl' := inl ++ di.map fun p => [pairSpec p.1 p.2]
              let outl' := outl ++ dout.map fun p => [pairSpec p.1 p.2]
              buildMaps a.sigs conns inl' outl'
                (width (cin.map (· + di.length)) inl'.length)
                (width (cout.map (· + dout.length)) outl'.length)

/-! ### `add_unused`: which signals are appended and what they are called -/

/-- the labels `add_unused=True` appends to `inputs` / `outputs`, one per appended list entry
`(isys, isig)`: `newsys.syslist[isys].input_labels[isig]` (resp. `output_labels`). -/
def unusedLabels (sigs : List SysSig) (d : Dict) (l : List (Nat × Nat)) : List String :=
  l.filterMap fun p => (sigs[p.1]?).bind fun S => ((S.labels d)[p.2]?).map (·.raw)

/-- `(dropped_inputs, dropped_outputs)` of the first construction — the `(isys, isig)` pairs
that `add_unused=True` appends to `inplist` / `outlist`, in the order of the model (increasing
flat index; the code iterates a Python set, so only the *pairing* of the appended list entry
with the appended label is observable, not the order). -/
def addedSignals (a : Args K) : Except Err (List (Nat × Nat) × List (Nat × Nat)) :=
  if !a.addUnused then .ok ([], [])
  else
    match interconnect { a with addUnused := false } with
    | .error e => .error e
    | .ok m => .ok (unusedInputs a.sigs m, unusedOutputs a.sigs m)

/-- the names of the appended external inputs / outputs, aligned with the appended columns of
`input_map` / rows of `output_map` of `interconnect a`. -/
def addedLabels (a : Args K) : Except Err (List String × List String) :=
  match addedSignals a with
  | .error e => .error e
  | .ok (di, dout) => .ok (unusedLabels a.sigs .input di, unusedLabels a.sigs .output dout)

/-! ### `_compute_static_io` -/

/-- the propagation loop: `step u` recomputes the subsystem inputs from the outputs the
subsystems produce for inputs `u`; at most `cycles` comparisons; an algebraic loop is reported
when none of them found `u` unchanged. -/
def staticLoop {V : Type*} [DecidableEq V] (step : V → V) : Nat → V → Except Err V
  | 0, _ => .error .illPosed
  | c + 1, u => if u = step u then .ok u else staticLoop step c (step u)

/-- `_compute_static_io` for subsystem output maps `h` (at the current states), connection map
`Kc` and external contribution `r = input_map @ u`: starts from `r`, `nsys + 1` cycles.
Returns `(ulist, ylist)`. -/
def staticIO {U Y : Type*} [DecidableEq U] (nsys : Nat) (h : U → Y) (Kc : Y → U) (add : U → U → U)
    (r : U) : Except Err (U × Y) :=
  (staticLoop (fun u => add (Kc (h u)) r) (nsys + 1) r).map fun u => (u, h u)

/-- the discrete-time stepping loop of `input_output_response` (`isdtime(sys)` branch): at
every sample the current state and the output `_out(t, x, u)` are recorded and the state becomes
`_rhs(t, x, u)`; `f x w` is the pair `(_rhs, _out)` at `(x, w)` (both call
`_compute_static_io`, which may raise).  The state is fed back **as it is returned**. -/
def dtTraj {X Wt Z ε : Type*} (f : X → Wt → Except ε (X × Z)) :
    X → List Wt → Except ε (List (X × Z))
  | _, [] => .ok []
  | x, w :: ws =>
    match f x w with
    | .error e => .error e
    | .ok (x', y) => (dtTraj f x' ws).map fun r => (x, y) :: r

/-- the same loop for total maps `next` / `outp`: the recorded `(x_k, y_k)`. -/
def dtTrajLin {X Wt Z : Type*} (next : X → Wt → X) (outp : X → Wt → Z) :
    X → List Wt → List (X × Z)
  | _, [] => []
  | x, w :: ws => (x, outp x w) :: dtTrajLin next outp (next x w) ws

/-! ### operator forms on I/O systems

`NonlinearIOSystem.__add__` / `__radd__` / `__sub__` / `__mul__` / `__rmul__` / `__neg__` /
`feedback` (control/nlsys.py) build an `InterconnectedSystem` directly: `inplist` / `outlist` are
lists of index tuples (parsed by `buildMaps` like any other spec), and the series and feedback
forms overwrite the connection map with `np.eye` blocks (`set_connect_map`).  Only the numbers of
inputs and outputs of the operands matter. -/

def SysSig.nin (S : SysSig) : Nat := S.inputs.length

def SysSig.nout (S : SysSig) : Nat := S.outputs.length

/-- `g * np.eye(n)` written with its upper-left corner at `(ro, co)`. -/
def eyeEntries (ro co n : Nat) (g : K) : List (Entry K) :=
  (List.range n).map fun i => (ro + i, co + i, g)

/-- `set_connect_map` -/
def Maps.setConnect (m : Maps K) (es : List (Entry K)) : Maps K := { m with connect := es }

/-- `(1, i)` for a sum, `(1, i, g)` for a difference. -/
def secondSpec (g : Option K) (i : Nat) : Spec K :=
  match g with
  | none => pairSpec 1 i
  | some g => tripleSpec 1 i g

/-- `sys1 + sys2` (`g = none`, also `__radd__` with the operands in written order) and
`sys1 - sys2` (`g = some (-1)`): subsystems `(sys1, sys2)`, `inplist = [[(0, i), (1, i)]]` over
the inputs, `outlist = [[(0, i), (1, i[, g])]]` over the **outputs**. -/
def opParallel (S₁ S₂ : SysSig) (g : Option K) : Except Err (Maps K) :=
  if S₁.nin ≠ S₂.nin ∨ S₁.nout ≠ S₂.nout then .error .shape
  else
    buildMaps [S₁, S₂] []
      ((List.range S₁.nin).map fun i => [pairSpec 0 i, pairSpec 1 i])
      ((List.range S₁.nout).map fun i => [pairSpec 0 i, secondSpec g i])
      S₁.nin S₁.nout

def opAdd (S₁ S₂ : SysSig) : Except Err (Maps K) := opParallel S₁ S₂ none

def opSub (S₁ S₂ : SysSig) : Except Err (Maps K) := opParallel S₁ S₂ (some (-1))

/-- `self * other` and `other.__rmul__`: first `S₁` (the right factor), then `S₂` (the left
factor); subsystems `(S₁, S₂)`, inputs of `S₁`, outputs of `S₂`, connection map
`[[0, 0], [eye(S₂.nin, S₁.nout), 0]]`. -/
def opSeries (S₁ S₂ : SysSig) : Except Err (Maps K) :=
  if S₁.nout ≠ S₂.nin then .error .shape
  else
    (buildMaps [S₁, S₂] []
      ((List.range S₁.nin).map fun i => [pairSpec 0 i])
      ((List.range S₂.nout).map fun i => [pairSpec 1 i])
      S₁.nin S₂.nout).map
      fun m => m.setConnect (eyeEntries S₁.nin 0 (min S₂.nin S₁.nout) 1)

/-- `-sys`: one subsystem, `outlist = [(0, i, -1)]`. -/
def opNeg (S : SysSig) : Except Err (Maps K) :=
  buildMaps [S] []
    ((List.range S.nin).map fun i => [pairSpec 0 i])
    ((List.range S.nout).map fun i => [tripleSpec 0 i (-1)])
    S.nin S.nout

/-- `sys1.feedback(sys2, sign)`: subsystems `(sys1, sys2)`, inputs and outputs of `sys1`,
connection map `[[0, sign * eye], [eye, 0]]`. -/
def opFeedback (S₁ S₂ : SysSig) (sign : K) : Except Err (Maps K) :=
  if S₁.nout ≠ S₂.nin ∨ S₂.nout ≠ S₁.nin then .error .shape
  else
    (buildMaps [S₁, S₂] []
      ((List.range S₁.nin).map fun i => [pairSpec 0 i])
      ((List.range S₁.nout).map fun i => [pairSpec 0 i])
      S₁.nin S₁.nout).map
      fun m => m.setConnect
        (eyeEntries 0 S₁.nout (min S₁.nin S₂.nout) sign
          ++ eyeEntries S₁.nin 0 (min S₂.nin S₁.nout) 1)

end CtrlVerif.IC

/-! ### the linear case: signal-flow matrices -/

namespace CtrlVerif

open Matrix

/-- the three maps as matrices over index types: `Kc = connect_map`, `M = input_map`,
`output_map = [Oy | Ou]` (subsystem outputs | subsystem inputs). -/
structure Wiring (ι o w z : Type*) (K : Type*) where
  Kc : Matrix ι o K
  M : Matrix ι w K
  Oy : Matrix z o K
  Ou : Matrix z ι K

namespace Wiring

variable {K : Type*} [Field K]
variable {σ ι o w z κ : Type*} [Fintype σ] [Fintype ι] [Fintype o] [Fintype w]

/-- one cycle of `_compute_static_io`, for a batch `κ` of (state, external input) pairs given as
the columns of `Xs`, `Ws`: new subsystem inputs from the current ones.  `G` is the stacked
(block-diagonal) subsystem. -/
def step (W : Wiring ι o w z K) (G : SS σ ι o K) (Xs : Matrix σ κ K) (Ws : Matrix w κ K)
    (U : Matrix ι κ K) : Matrix ι κ K :=
  W.Kc * (G.C * Xs + G.D * U) + W.M * Ws

/-- the same cycle with the constant parts multiplied out: `N = Kc D`, `R = Kc C Xs + M Ws`
(`step_eq_stepN` in `Lemmas/Interconnect.lean`); this is the form the driver iterates. -/
def stepN (N : Matrix ι ι K) (R : Matrix ι κ K) (U : Matrix ι κ K) : Matrix ι κ K :=
  N * U + R

/-- `_rhs` of the interconnection once the subsystem inputs `U` are known. -/
def rhs (G : SS σ ι o K) (Xs : Matrix σ κ K) (U : Matrix ι κ K) : Matrix σ κ K :=
  G.A * Xs + G.B * U

/-- `_out` of the interconnection: `output_map @ ylist`, `ylist = [y; u]`. -/
def out (W : Wiring ι o w z K) (G : SS σ ι o K) (Xs : Matrix σ κ K) (U : Matrix ι κ K) :
    Matrix z κ K :=
  W.Oy * (G.C * Xs + G.D * U) + W.Ou * U

/-- the interconnected linear system in closed form, `E = (I - Kc D)⁻¹`. -/
def linearIC (W : Wiring ι o w z K) (G : SS σ ι o K) (E : Matrix ι ι K) : SS σ w z K where
  A := G.A + G.B * (E * (W.Kc * G.C))
  B := G.B * (E * W.M)
  C := W.Oy * G.C + (W.Oy * G.D + W.Ou) * (E * (W.Kc * G.C))
  D := (W.Oy * G.D + W.Ou) * (E * W.M)

/-- `(_rhs, _out)` of the interconnection evaluated at a batch of points: the columns of `Xs`
(states) and `Ws` (external inputs) — `dynamics` / `output` at one point (`κ` a singleton),
`linearize` (`κ` = the unit perturbations), each step of a simulation.  The propagation loop of
`_compute_static_io` (started at `input_map @ u`, budget `nsys + 1`), then `_rhs` / `_out`.
The number type in which the caller holds the state (Python ints, an integer array, floats) is
not part of the model: the values are elements of the field `K`. -/
def eval [DecidableEq (Matrix ι κ K)] (W : Wiring ι o w z K) (G : SS σ ι o K) (nsys : Nat)
    (Xs : Matrix σ κ K) (Ws : Matrix w κ K) : Except Err (Matrix σ κ K × Matrix z κ K) :=
  (IC.staticLoop (W.step G Xs Ws) (nsys + 1) (W.M * Ws)).map
    fun U => (rhs G Xs U, W.out G Xs U)

/-- the same wiring with the signals re-indexed. -/
def reindex {ι' o' w' z' : Type*} (W : Wiring ι o w z K) (eι : ι' ≃ ι) (eo : o' ≃ o) (ew : w' ≃ w)
    (ez : z' ≃ z) : Wiring ι' o' w' z' K where
  Kc := W.Kc.submatrix eι eo
  M := W.M.submatrix eι ew
  Oy := W.Oy.submatrix ez eo
  Ou := W.Ou.submatrix ez eι

end Wiring

/-- three entry lists as a `Wiring` (`output_map` split into its subsystem-output and
subsystem-input columns). -/
def IC.wiringOf {K : Type} [Field K] [DecidableEq K] (nu ny nin nout : Nat)
    (connect inp out : List (IC.Entry K)) : Wiring (Fin nu) (Fin ny) (Fin nin) (Fin nout) K where
  Kc := IC.toMat nu ny connect
  M := IC.toMat nu nin inp
  Oy := fun i j => IC.toMat nout (ny + nu) out i (Fin.castAdd nu j)
  Ou := fun i j => IC.toMat nout (ny + nu) out i (Fin.natAdd ny j)

/-- the three maps of an `InterconnectedSystem` as a `Wiring`. -/
def IC.Maps.wiring {K : Type} [Field K] [DecidableEq K] (mp : IC.Maps K) :
    Wiring (Fin mp.nu) (Fin mp.ny) (Fin mp.nin) (Fin mp.nout) K :=
  IC.wiringOf mp.nu mp.ny mp.nin mp.nout mp.connect mp.inp mp.out

/-! ### the three classical wirings as `Wiring`s over the stacked pair `G₁.append G₂` -/

section classical

variable {K : Type*} [Field K] {ι ι₁ o o₁ o₂ : Type*}
variable [DecidableEq ι] [DecidableEq ι₁] [DecidableEq o] [DecidableEq o₁] [DecidableEq o₂]

/-- series: `connections=[[G₂.u, G₁.y]]`, `inplist=[G₁.u]`, `outlist=[G₂.y]`. -/
def Wiring.series : Wiring (ι₁ ⊕ o₁) (o₁ ⊕ o₂) ι₁ o₂ K where
  Kc := fromBlocks 0 0 1 0
  M := fromRows 1 0
  Oy := fromCols 0 1
  Ou := 0

/-- parallel: no connections, `inplist=[[G₁.u, G₂.u]]`, `outlist=[[G₁.y, G₂.y]]`. -/
def Wiring.parallel : Wiring (ι ⊕ ι) (o ⊕ o) ι o K where
  Kc := 0
  M := fromRows 1 1
  Oy := fromCols 1 1
  Ou := 0

/-- difference: as `parallel`, the second subsystem's outputs with gain `g` (`-1` for `-`). -/
def Wiring.parallelGain (g : K) : Wiring (ι ⊕ ι) (o ⊕ o) ι o K where
  Kc := 0
  M := fromRows 1 1
  Oy := fromCols 1 (g • 1)
  Ou := 0

/-- negation: one subsystem, `outlist=[(G.y, -1)]`. -/
def Wiring.negate : Wiring ι o ι o K where
  Kc := 0
  M := 1
  Oy := -1
  Ou := 0

/-- feedback: `connections=[[G₁.u, (G₂.y, sign)], [G₂.u, G₁.y]]`, `inplist=[G₁.u]`,
`outlist=[G₁.y]`. -/
def Wiring.feedback (sign : K) : Wiring (ι ⊕ o) (o ⊕ ι) ι o K where
  Kc := fromBlocks 0 (sign • 1) 1 0
  M := fromRows 1 0
  Oy := fromCols 1 0
  Ou := 0

/-- `(I - Kc D)⁻¹` of the feedback wiring in terms of `E = (I - sign D₂ D₁)⁻¹`. -/
def Wiring.feedbackE [Fintype ι] [Fintype o] (D₁ : Matrix o ι K) (D₂ : Matrix ι o K) (sign : K)
    (E : Matrix ι ι K) : Matrix (ι ⊕ o) (ι ⊕ o) K :=
  fromBlocks E (sign • (E * D₂)) (D₁ * E) (1 + sign • (D₁ * (E * D₂)))

end classical

end CtrlVerif
