/-
Model of system indexing `sys[outputs, inputs]` (property C17):

* `clamp`, `sliceIndices`, `rangeLen`, `rangeList`, `sliceList` — CPython's `slice.indices(n)`
  (`PySlice_AdjustIndices`) and `range(start, stop, step)` over `Int`;
* `labelIndex`, `parseItem`, `parseSel` — `NamedSignal._parse_key(key, level=1)`
  (control/iosys.py:66-106): names become the index of the name, lists element by element,
  everything else is passed through;
* `normIdx`, `processIdx` — `_process_subsys_index` (control/iosys.py:1323) together with what
  NumPy / Python list indexing then do with its result (negative list entries count from the
  end, out-of-range list entries raise `IndexError`).  The integer branch is the *repaired*
  one: the int is normalised and range-checked before it becomes `slice(k, k+1, 1)`
  (the unrepaired code built `slice(-1, 0, 1)`, an empty selection: DESIGN §6.2);
* `getitem` — the common skeleton of `StateSpace/TransferFunction/FrequencyResponseData
  .__getitem__`: parse both selectors, process rows then columns, build the sub-system with the
  class constructor, labels of the selected signals, same `dt`, name `prefix + name + suffix`;
* `ssCtor`, `tfCtor`, `frdCtor` — the three class-specific bodies, with the constructor quirks
  that exist (a `1 × 0` `B` or `D` is reshaped to `0 × 0` by `_ssmatrix` and then rejected; a transfer
  function cannot have zero outputs or inputs).
-/
import CtrlVerif.Model.Err
import CtrlVerif.Model.Dt
import CtrlVerif.Model.SS
import CtrlVerif.Model.TF

namespace CtrlVerif.Index

open CtrlVerif

/-! ### Python slices and ranges -/

/-- lower clamp bound of `PySlice_AdjustIndices`: `-1` for a negative step, else `0`. -/
def lowerB (neg : Bool) : Int := if neg then -1 else 0

/-- upper clamp bound: `n - 1` for a negative step, else `n`. -/
def upperB (n : Nat) (neg : Bool) : Int := if neg then (n : Int) - 1 else n

/-- adjustment of one explicit bound: negative values count from the end, then clamp. -/
def clamp (n : Nat) (neg : Bool) (v : Int) : Int :=
  if v < 0 then max (v + n) (lowerB neg) else min v (upperB n neg)

/-- the step of a slice: `None` means `1`. -/
def stepOf : Option Int → Int
  | none => 1
  | some s => s

/-- adjusted start: `None` means the far end in the direction of travel. -/
def startOf (a : Option Int) (n : Nat) (neg : Bool) : Int :=
  match a with
  | none => if neg then upperB n neg else lowerB neg
  | some v => clamp n neg v

/-- adjusted stop. -/
def stopOf (b : Option Int) (n : Nat) (neg : Bool) : Int :=
  match b with
  | none => if neg then lowerB neg else upperB n neg
  | some v => clamp n neg v

/-- `slice(a, b, c).indices(n)` = `(start, stop, step)`; `ValueError` for a zero step. -/
def sliceIndices (a b c : Option Int) (n : Nat) : Except Err (Int × Int × Int) :=
  if stepOf c = 0 then .error .badArg
  else
    let neg := decide (stepOf c < 0)
    .ok (startOf a n neg, stopOf b n neg, stepOf c)

/-- `len(range(start, stop, step))`. -/
def rangeLen (start stop step : Int) : Nat :=
  if 0 < step then
    if start < stop then ((stop - start - 1) / step + 1).toNat else 0
  else if step < 0 then
    if stop < start then ((start - stop - 1) / (-step) + 1).toNat else 0
  else 0

/-- `list(range(start, start + len*step, step))`. -/
def rangeList (start step : Int) (len : Nat) : List Int :=
  (List.range len).map fun (k : Nat) => start + (k : Int) * step

/-- a non-negative in-range integer as an index (no wrap-around). -/
def toFin (n : Nat) (i : Int) : Except Err (Fin n) :=
  if h : 0 ≤ i ∧ i < n then .ok ⟨i.toNat, by omega⟩ else .error .indexRange

/-- the channels selected by a slice of a length-`n` axis (`labels[slice]`, `array[slice]`,
`range(n)[slice]`). -/
def sliceList (a b c : Option Int) (n : Nat) : Except Err (List (Fin n)) := do
  let (start, stop, step) ← sliceIndices a b c n
  (rangeList start step (rangeLen start stop step)).mapM (toFin n)

/-! ### selectors -/

/-- an element of a list selector. -/
inductive Item where
  | idx (i : Int)
  | name (s : String)
  deriving DecidableEq, Repr

/-- a selector as the user writes it.  `bad` stands for any object that is not an `int`,
`slice`, `list` or `str` (float, `None`, ndarray, NumPy integer, tuple). -/
inductive Sel where
  | idx (i : Int)
  | name (s : String)
  | slice (a b c : Option Int)
  | list (l : List Item)
  | bad
  deriving DecidableEq, Repr

/-- a selector after `_parse_key`: no names left. -/
inductive Key where
  | idx (i : Int)
  | slice (a b c : Option Int)
  | list (l : List Int)
  | bad
  deriving DecidableEq, Repr

/-- `labels.index(s)`: the first position of `s`; `ValueError` → "unknown signal name". -/
def labelIndex {n : Nat} (labels : Fin n → String) (s : String) : Except Err Int :=
  match (List.finRange n).find? (fun i => labels i = s) with
  | some i => .ok (i.val : Int)
  | none => .error .unknownName

def parseItem {n : Nat} (labels : Fin n → String) : Item → Except Err Int
  | .idx i => .ok i
  | .name s => labelIndex labels s

/-- `NamedSignal._parse_key` applied to one component of the key tuple (`level ≥ 1`). -/
def parseSel {n : Nat} (labels : Fin n → String) : Sel → Except Err Key
  | .idx i => .ok (.idx i)
  | .name s => do
    let i ← labelIndex labels s
    pure (.idx i)
  | .slice a b c => .ok (.slice a b c)
  | .list l => do
    let l' ← l.mapM (parseItem labels)
    pure (.list l')
  | .bad => .ok .bad

/-- the name-free selector as a user selector. -/
def Key.toSel : Key → Sel
  | .idx i => .idx i
  | .slice a b c => .slice a b c
  | .list l => .list (l.map Item.idx)
  | .bad => .bad

/-- Python list / NumPy integer indexing: negative values count from the end, `IndexError`
outside `-n … n-1`. -/
def normIdx (n : Nat) (i : Int) : Except Err (Fin n) :=
  if h : 0 ≤ i ∧ i < n then .ok ⟨i.toNat, by omega⟩
  else if h' : -(n : Int) ≤ i ∧ i < 0 then .ok ⟨(i + n).toNat, by omega⟩
  else .error .indexRange

/-- the integer branch of `_process_subsys_index` (repaired): normalise, range-check, then
`slice(k, k+1, 1)` "so that numpy doesn't drop the dimension". -/
def intIdx (n : Nat) (i : Int) : Except Err (List (Fin n)) := do
  let k ← normIdx n i
  sliceList (some (k.val : Int)) (some ((k.val : Int) + 1)) (some 1) n

/-- the integer branch as it was before the repair (`idx = slice(idx, idx+1, 1)` on the raw
integer).  Not used by the model; kept so that the defect has a machine-checked witness
(`Props/C17.lean: unrepaired_*_counterexample`). -/
def intIdxUnrepaired (n : Nat) (i : Int) : Except Err (List (Fin n)) :=
  sliceList (some i) (some (i + 1)) (some 1) n

/-- `_process_subsys_index` + the indexing done with its result: the list of selected channels,
in the selected order. -/
def processIdx (n : Nat) : Key → Except Err (List (Fin n))
  | .bad => .error .badArg                      -- TypeError
  | .idx i => intIdx n i
  | .list [i] => intIdx n i                     -- singleton lists become integers
  | .list l => l.mapM (normIdx n)
  | .slice a b c => sliceList a b c n

/-! ### systems -/

/-- what all three LTI classes share: shape, labels, timebase, name; `body` is class specific. -/
structure Sys (P : Nat → Nat → Type) where
  p : Nat
  m : Nat
  body : P p m
  outs : Fin p → String
  ins : Fin m → String
  dt : Dt
  name : String

/-- `config.defaults['iosys.indexed_system_name_prefix' / '…_suffix']`. -/
structure Cfg where
  pre : String
  suf : String

/-- the class-specific part of `__getitem__`: sub-arrays + constructor. -/
abbrev Ctor (P : Nat → Nat → Type) :=
  ∀ {p m : Nat} (rows : List (Fin p)) (cols : List (Fin m)), P p m →
    Except Err (P rows.length cols.length)

/-- `sys[kr, kc]`. -/
def getitem {P : Nat → Nat → Type} (ctor : Ctor P) (cfg : Cfg) (S : Sys P) (kr kc : Sel) :
    Except Err (Sys P) := do
  let r ← parseSel S.outs kr
  let c ← parseSel S.ins kc
  let rows ← processIdx S.p r
  let cols ← processIdx S.m c
  let body ← ctor rows cols S.body
  pure { p := rows.length, m := cols.length, body := body,
         outs := fun i => S.outs (rows.get i), ins := fun j => S.ins (cols.get j),
         dt := S.dt, name := cfg.pre ++ S.name ++ cfg.suf }

variable {K : Type} [Field K]

/-- state-space body with `n` states. -/
abbrev SSB (K : Type) (n : Nat) (p m : Nat) : Type := SS (Fin n) (Fin m) (Fin p) K

/-- `StateSpace(A, B[:, inpdx], C[outdx, :], D[outdx, :][:, inpdx], …)`.  `_ssmatrix` turns a
`1 × 0` matrix into `0 × 0`, after which the dimension check fails (`ControlDimension`): with no
column selected that happens to `D` when one row is selected and to `B` when there is one state. -/
def ssCtor {n : Nat} : Ctor (SSB K n) := fun rows cols G =>
  if cols.length = 0 ∧ (n = 1 ∨ rows.length = 1) then .error .shape
  else .ok (SS.select G (fun i => rows.get i) (fun j => cols.get j))

/-- transfer-function body. -/
abbrev TFB (K : Type) (p m : Nat) : Type := TFM (Fin p) (Fin m) K

/-- the double loop over `outdx`, `inpdx` and `TransferFunction(num, den, …)`; the constructor
cannot build a system without outputs or inputs (`IndexError`). -/
def tfCtor [DecidableEq K] : Ctor (TFB K) := fun rows cols G =>
  if rows.length = 0 ∨ cols.length = 0 then .error .indexRange
  else TFM.reindex G (fun i => rows.get i) (fun j => cols.get j)

/-- frequency-response body: the frequency grid and, per channel pair, the responses on the
grid (values of an arbitrary type `β`: indexing never looks at them). -/
structure FRDB (K β : Type) (p m : Nat) where
  omega : List K
  data : Fin p → Fin m → List β

/-- `FrequencyResponseData(frdata[outdx, :][:, inpdx], omega, …)`. -/
def frdCtor {β : Type} : Ctor (FRDB K β) := fun rows cols F =>
  .ok ⟨F.omega, fun i j => F.data (rows.get i) (cols.get j)⟩

/-- the response matrix stored at grid position `k`. -/
def FRDB.resp {β : Type} {p m : Nat} (F : FRDB K β p m) (k : Nat) :
    Fin p → Fin m → Option β := fun i j => (F.data i j)[k]?

end CtrlVerif.Index
