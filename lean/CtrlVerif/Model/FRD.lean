/-
Model of `FrequencyResponseData` arithmetic (control/frdata.py), typed layer.

A frequency-response-data system is a grid of `n` frequencies and, for every grid index, a
`p × m` complex response matrix (`frdata[:, :, k]`).  Every operator of the code acts on the
third axis index by index, so the typed model is a pair of functions on `Fin n`.  The same
definitions are what the theorems in `Props/C09.lean` are about and what the driver executes
(over `K = ℚ(i)`).

Where the code has a defect with respect to property C09 the model is the correct behaviour:
* `feedback` uses `1 - sign • H G` (the code forms `1 + H G` whatever `sign` is);
* `eval` returns the stored matrices in the order of the request (the code applies an
  `np.isin` mask, i.e. stored order, and miscounts repeated requests).
-/
import CtrlVerif.Model.Err
import CtrlVerif.Model.SS
import Mathlib.Data.Matrix.Block
import Mathlib.LinearAlgebra.Matrix.Adjugate
import Mathlib.Algebra.Order.Field.Rat

namespace CtrlVerif

open Matrix

/-- frequency response data on a grid of `n` points: `omega k` is the `k`-th stored frequency
and `data k` the response matrix stored with it. -/
structure FRD (n : Nat) (o ι : Type*) (K : Type*) where
  omega : Fin n → ℚ
  data : Fin n → Matrix o ι K

namespace FRD

variable {K : Type*} [Field K]
variable {n : Nat} {o ι κ o₂ ι₂ : Type*}

/-- `__neg__`: `FRD(-self.frdata, self.omega)`. -/
def neg (G : FRD n o ι K) : FRD n o ι K := ⟨G.omega, fun k => - G.data k⟩

/-- the last line of `__add__`: `FRD(self.frdata + other.frdata, other.omega)`. -/
def add (G H : FRD n o ι K) : FRD n o ι K := ⟨H.omega, fun k => G.data k + H.data k⟩

/-- the loop of `__mul__`: `frdata[:, :, i] = self.frdata[:, :, i] @ other.frdata[:, :, i]`,
on `self.omega`. -/
def mul [Fintype κ] (G : FRD n o κ K) (H : FRD n κ ι K) : FRD n o ι K :=
  ⟨G.omega, fun k => G.data k * H.data k⟩

/-- the loop of `__rmul__` (`other * self`): `other.frdata[:, :, i] @ self.frdata[:, :, i]`,
on `self.omega`. -/
def rmul [Fintype κ] (self : FRD n κ ι K) (other : FRD n o κ K) : FRD n o ι K :=
  ⟨self.omega, fun k => other.data k * self.data k⟩

/-- scalar fast path of `__mul__`/`__rmul__`: `self.frdata * other`. -/
def smul (c : K) (G : FRD n o ι K) : FRD n o ι K := ⟨G.omega, fun k => c • G.data k⟩

/-- constant response on a grid (`_convert_to_frd` of a scalar or a constant matrix). -/
def const (omega : Fin n → ℚ) (D : Matrix o ι K) : FRD n o ι K := ⟨omega, fun _ => D⟩

/-- response tabulated from a function of the grid index (LTI operand evaluated on the grid). -/
def ofFun (omega : Fin n → ℚ) (f : Fin n → Matrix o ι K) : FRD n o ι K := ⟨omega, f⟩

/-- `self.frdata / other.frdata` with a SISO `other` (NumPy broadcasting over the first two
axes): every entry is divided by the scalar response of `other` at the same grid index.
Division by a zero response does not exist (NumPy produces `inf`/`nan`). -/
def divSiso [DecidableEq K] (G : FRD n o ι K) (h : Fin n → K) : Except Err (FRD n o ι K) :=
  if ∃ k, h k = 0 then .error .zeroDen
  else .ok ⟨G.omega, fun k => (h k)⁻¹ • G.data k⟩

/-- scalar branch of `__rtruediv__` on a SISO system: `other / self.frdata`. -/
def rdivScalar [DecidableEq K] (c : K) (g : Fin n → K) (omega : Fin n → ℚ) :
    Except Err (FRD n (Fin 1) (Fin 1) K) :=
  if ∃ k, g k = 0 then .error .zeroDen
  else .ok ⟨omega, fun k => Matrix.of fun _ _ => c * (g k)⁻¹⟩

/-- `append`: block diagonal at every grid index, on `self.omega`. -/
def append (G : FRD n o ι K) (H : FRD n o₂ ι₂ K) : FRD n (o ⊕ o₂) (ι ⊕ ι₂) K :=
  ⟨G.omega, fun k => fromBlocks (G.data k) 0 0 (H.data k)⟩

/-- `bdalg.append(*[g] * r)` for a SISO `g`: the `r × r` diagonal with `g` on it. -/
def diag (g : FRD n (Fin 1) (Fin 1) K) (r : Nat) : FRD n (Fin r) (Fin r) K :=
  ⟨g.omega, fun k => Matrix.diagonal fun _ => g.data k 0 0⟩

/-- `__getitem__` with resolved index lists: `self.frdata[outdx, :][:, inpdx]`. -/
def select {o' ι' : Type*} (G : FRD n o ι K) (r : o' → o) (c : ι' → ι) : FRD n o' ι' K :=
  ⟨G.omega, fun k => (G.data k).submatrix r c⟩

/-- the loop matrix of `feedback`: `I - sign • H G` (the code, defectively, always forms
`I + H G`). -/
def loopMat [Fintype o] [DecidableEq ι] (G : FRD n o ι K) (H : FRD n ι o K) (sign : K)
    (k : Fin n) : Matrix ι ι K :=
  1 - sign • (H.data k * G.data k)

/-- `feedback(other, sign)`: `G (I - sign H G)⁻¹` at every grid index, on `other.omega`;
a singular loop matrix is an error (`numpy.linalg.inv` raises `LinAlgError`). -/
def feedback [Fintype o] [Fintype ι] [DecidableEq ι] [DecidableEq K]
    (G : FRD n o ι K) (H : FRD n ι o K) (sign : K) : Except Err (FRD n o ι K) :=
  if ∃ k, (loopMat G H sign k).det = 0 then .error .illPosed
  else .ok ⟨H.omega, fun k => G.data k * SS.invQ (loopMat G H sign k)⟩

/-- index of the first stored frequency equal to `w` (`numpy.isin` is exact equality). -/
def find? (G : FRD n o ι K) (w : ℚ) : Option (Fin n) :=
  (List.finRange n).find? fun k => G.omega k = w

/-- `eval` at one frequency without interpolation: the stored matrix, or an error when the
frequency is not stored. -/
def evalAt (G : FRD n o ι K) (w : ℚ) : Except Err (Matrix o ι K) :=
  match G.find? w with
  | some k => .ok (G.data k)
  | none => .error .missing

/-- `eval` on a list of frequencies: the stored matrices in the order of the request; raises
when some requested frequency is not stored. -/
def eval (G : FRD n o ι K) (ws : List ℚ) : Except Err (List (Matrix o ι K)) :=
  ws.mapM G.evalAt

/-- `_convert_to_frd` on an FRD operand: the grids match when they have the same length and
every pair of frequencies differs by less than `_epsw = 1e-8`.  (The code first sorts the
caller's `omega` in place; on a sorted grid that is the identity, on an unsorted grid it is a
defect — the model compares in stored order.) -/
def gridMatch (w₁ w₂ : Fin n → ℚ) : Bool :=
  decide (∀ k, |w₁ k - w₂ k| < 1 / 100000000)

end FRD

end CtrlVerif
