/-
C13 — model of `control.ctrlutil.unwrap` and of the encirclement count / contour construction of
`control.freqplot.nyquist_response` (lines 1375-1546).

Everything is written over an ordered field `K` with a floor function (the driver runs it over
`ℚ`; the theorems also instantiate it at `ℝ` with period `2π`).  Complex numbers are pairs
`(re, im) : K × K` (only `+`, `-`, squared modulus and sign tests of the parts are used).

External (parameters, never axioms):
* `np.angle`  – the list of principal angles is an *input* of `unwrap`/`count`; the driver checks
  the quadrant contract of every supplied angle against the exact sample (`angleQuadOK`);
* `np.sqrt`   – `SqrtFn` (function + contract), used only by `applyIndent`;
* `np.log`/`np.exp` of the discrete-time mapping and `poles()` – the s-plane poles are inputs.
-/
import Mathlib.Algebra.Order.Floor.Ring
import Mathlib.Algebra.Order.Field.Basic
import CtrlVerif.Model.Err

namespace CtrlVerif.Nyquist

variable {K : Type} [Field K] [LinearOrder K] [IsStrictOrderedRing K] [FloorRing K]

/-! ### `ctrlutil.unwrap` -/

/-- NumPy's float `x % p` (sign of the divisor): `x - p * floor (x / p)`. -/
def pmod (x p : K) : K := x - p * ((⌊x / p⌋ : ℤ) : K)

/-- `np.diff` of a 1-D array. -/
def diff : List K → List K
  | a :: b :: t => (b - a) :: diff (b :: t)
  | _ => []

/-- `np.cumsum`, with the running sum as accumulator. -/
def cumsumFrom (acc : K) : List K → List K
  | [] => []
  | x :: t => (acc + x) :: cumsumFrom (acc + x) t

/-- `dangle_desired = (dangle + period/2) % period - period/2` (one entry). -/
def desired (period d : K) : K := pmod (d + period / 2) period - period / 2

/-- `ctrlutil.unwrap(angle, period)`, line by line:
```
dangle = np.diff(angle)
dangle_desired = (dangle + period/2.) % period - period/2.
correction = np.cumsum(dangle_desired - dangle)
angle[1:] += correction
``` -/
def unwrap (period : K) (angle : List K) : List K :=
  let dangle := diff angle
  let dangleDesired := dangle.map (desired period)
  let correction := cumsumFrom 0 (List.zipWith (fun a b => a - b) dangleDesired dangle)
  match angle with
  | [] => []
  | a :: t => a :: List.zipWith (fun x c => x + c) t correction

/-! ### the count (`freqplot.py` 1500-1503) -/

/-- `np.round(x, 0)` followed by `int`: round half to even. -/
def roundHalfEven (x : K) : ℤ :=
  let f : ℤ := ⌊x⌋
  let r : K := x - (f : K)
  if r < 1 / 2 then f else if 1 / 2 < r then f + 1 else if f % 2 = 0 then f else f + 1

/-- `phase = -unwrap(angles)` with `unwrap`'s default period `2*math.pi`;
`encirclements = np.sum(np.diff(phase)) / np.pi`.  `pi` is the constant `math.pi = np.pi`. -/
def encirclements (pi : K) (angles : List K) : K :=
  (diff ((unwrap (2 * pi) angles).map fun x => -x)).sum / pi

/-- `count = int(np.round(encirclements, 0))`. -/
def count (pi : K) (angles : List K) : ℤ := roundHalfEven (encirclements pi angles)

/-- the `+ 1` of `np.angle(resp + 1)`. -/
def addOne (z : K × K) : K × K := (z.1 + 1, z.2)

/-- Quadrant contract of `np.angle` (`atan2`): the supplied angle `a` of the sample `w` lies in
the closed quadrant of `w` (slack `eps` for the rounding of `pi`); `w = 0` gives `0`. -/
def angleQuadOK (pi eps : K) (w : K × K) (a : K) : Bool :=
  let lo (x : K) := decide (x - eps ≤ a)
  let hi (x : K) := decide (a ≤ x + eps)
  if 0 ≤ w.1 ∧ 0 ≤ w.2 ∧ lo 0 ∧ hi (pi / 2) then true
  else if w.1 ≤ 0 ∧ 0 ≤ w.2 ∧ lo (pi / 2) ∧ hi pi then true
  else if w.1 ≤ 0 ∧ w.2 ≤ 0 ∧ lo (-pi) ∧ hi (-pi / 2) then true
  else if 0 ≤ w.1 ∧ w.2 ≤ 0 ∧ lo (-pi / 2) ∧ hi 0 then true
  else false

/-- smallest distance of any `dangle + period/2` from a multiple of the period, i.e. how far
the branch decision of `%` is from flipping (exactness guard for the harness). -/
def branchMargin (period : K) (angles : List K) : Option K :=
  ((diff angles).map fun d =>
      let m := pmod (d + period / 2) period
      min m (period - m)).min?

/-! ### P / Z conventions of the consistency warning (`freqplot.py` 1520-1546) -/

/-- `indent_direction` (any other string is `other`). -/
inductive Dir where
  | right | left | none | other
  deriving DecidableEq, Repr

def normSq (z : K × K) : K := z.1 * z.1 + z.2 * z.2

/-- `P`: open-loop poles counted as unstable.  Continuous: `real > 0` for `'right'`, `real >= 0`
otherwise; discrete: `abs > 1` resp. `abs >= 1`. -/
def countP (ctime : Bool) (dir : Dir) (poles : List (K × K)) : ℕ :=
  if ctime then
    if dir = .right then poles.countP (fun p => decide (0 < p.1))
    else poles.countP (fun p => decide (0 ≤ p.1))
  else
    if dir = .right then poles.countP (fun p => decide (1 < normSq p))
    else poles.countP (fun p => decide (1 ≤ normSq p))

/-- `Z`: closed-loop poles with `real >= 0` resp. `abs >= 1`. -/
def countZ (ctime : Bool) (clpoles : List (K × K)) : ℕ :=
  if ctime then clpoles.countP (fun p => decide (0 ≤ p.1))
  else clpoles.countP (fun p => decide (1 ≤ normSq p))

/-- the warning "number of encirclements does not match Nyquist criterion" is issued iff this
is false. -/
def criterionOK (Z : ℕ) (cnt : ℤ) (P : ℕ) : Bool := decide ((Z : ℤ) = cnt + P)

/-! ### contour: extra points near poles (`freqplot.py` 1425-1455) -/

/-- `np.linspace(a, b, n)`. -/
def linspace (a b : K) (n : ℕ) : List K :=
  if n = 1 then [a]
  else (List.range n).map fun (k : ℕ) => a + (k : K) * ((b - a) / ((n : K) - 1))

/-- index of the last element satisfying `f` (`np.argwhere(..)[-1]`). -/
def lastIdx (f : K → Bool) (l : List K) : Option ℕ :=
  (l.zipIdx.filter fun x => f x.1).getLast?.map (·.2)

/-- index of the first element satisfying `f` (`np.argwhere(..)[0]`). -/
def firstIdx (f : K → Bool) (l : List K) : Option ℕ :=
  (l.zipIdx.find? fun x => f x.1).map (·.2)

/-- One pass of the loop body for pole `p` on the (still purely imaginary) contour `om`
(`splane_contour = 1j * om`), default frequency range (`omega_range_given = False`). -/
def insertNear (r : K) (npts : ℕ) (om : List K) (p : K × K) : Except Err (List K) :=
  if p.2 < 0 ∨ r < |p.1| then .ok om
  else do
    let (firstPoint, startFreq) ←
      match lastIdx (fun w => decide (w - |p.2| < -r)) om with
      | some i => (pure (i, p.2 - r) : Except Err (ℕ × K))
      | none =>
        -- `assert splane_contour[0] == 0`
        match om with
        | w0 :: _ => if w0 = 0 then pure (0, 0) else .error .badArg
        | [] => .error .indexRange
    match firstIdx (fun w => decide (r < w - |p.2|)) om with
    | none => .error .indexRange          -- `above_points[0]` on an empty array
    | some lastPoint =>
      pure (om.take (firstPoint + 1) ++ linspace startFreq (p.2 + r) npts ++ om.drop lastPoint)

/-- the loop over all s-plane poles. -/
def insertAll (r : K) (npts : ℕ) (om : List K) (poles : List (K × K)) : Except Err (List K) :=
  poles.foldlM (insertNear r npts) om

/-! ### contour: indentation (`freqplot.py` 1457-1483) -/

inductive Side where
  | right | left
  deriving DecidableEq, Repr

/-- which way to offset the contour point, from the real part of the nearest pole. -/
def side (dir : Dir) (pre : K) : Except Err Side :=
  if pre < 0 ∨ (pre = 0 ∧ dir = .right) then .ok .right
  else if 0 < pre ∨ (pre = 0 ∧ dir = .left) then .ok .left
  else .error .badArg     -- ValueError("unknown value for indent_direction")

/-- `splane_poles[(np.abs(splane_poles - s)).argmin()]`: the first pole at minimal distance. -/
def nearest (s : K × K) : List (K × K) → Option (K × K)
  | [] => none
  | p :: t =>
    match nearest s t with
    | none => some p
    | some q => if normSq (s - p) ≤ normSq (s - q) then some p else some q

/-- decision for one contour point: `none` = not moved; `some (sd, q, dx)` = moved to side `sd`
with `offset = sqrt q - dx`. -/
def indentDecision (r : K) (dir : Dir) (poles : List (K × K)) (s : K × K) :
    Except Err (Option (Side × K × K)) :=
  match nearest s poles with
  | none => .ok none
  | some p =>
    if normSq (s - p) < r * r then do
      let sd ← side dir p.1
      pure (some (sd, r * r - (s.2 - p.2) * (s.2 - p.2), s.1 - p.1))
    else .ok none

/-- `np.sqrt` with the contract used. -/
structure SqrtFn (K : Type) [Field K] [LinearOrder K] where
  sqrt : K → K
  nonneg : ∀ x, 0 ≤ x → 0 ≤ sqrt x
  sq : ∀ x, 0 ≤ x → sqrt x * sqrt x = x

def applyIndent (S : SqrtFn K) (s : K × K) : Option (Side × K × K) → K × K
  | none => s
  | some (.right, q, dx) => (s.1 + (S.sqrt q - dx), s.2)
  | some (.left, q, dx) => (s.1 - (S.sqrt q - dx), s.2)

/-- one contour point after indentation. -/
def indentPoint (S : SqrtFn K) (r : K) (dir : Dir) (poles : List (K × K)) (s : K × K) :
    Except Err (K × K) :=
  (indentDecision r dir poles s).map (applyIndent S s)

/-- decisions for the whole s-plane contour built from the frequency vector `om`
(`indent_direction != 'none'`; no poles ⇒ nothing is moved). -/
def contourDecisions (r : K) (npts : ℕ) (dir : Dir) (poles : List (K × K)) (om : List K) :
    Except Err (List (K × Option (Side × K × K))) := do
  let om' ← insertAll r npts om poles
  om'.mapM fun w => do
    let d ← indentDecision r dir poles ((0 : K), w)
    pure (w, d)

end CtrlVerif.Nyquist
