/-
C13 — `nyquist_response` called with a *list* of loops: one common default grid for all systems of the call
(`_default_frequency_range` 2761-2829 collects the features of every system; `nyquist_response` 1334-1369 builds the
common vector once, before the loop over the systems, and derives `omega_sys` of every system from it).

```
features = np.array(()); freq_interesting = []
for sys in syslist:
    ...                                                  # the branch of the system's timebase (`featureBranch`)
    features = np.concatenate([features, features_])
if features.shape[0] == 0: features = np.array([1.])
...
omega = np.concatenate((np.linspace(0, omega[0], indent_points), omega[1:]))       # the common vector
for idx, sys in enumerate(syslist):
    omega_sys = np.asarray(omega)                        # the common vector ITSELF (no copy is made)
    if sys.isdtime(strict=True):
        nyq_freq = math.pi / sys.dt
        omega_sys = np.hstack((omega_sys[omega_sys < nyq_freq], nyq_freq))          # a NEW array; `omega` untouched
```

The loop is modelled with its state: the common vector is threaded through the iterations (`sysOmegaStep` returns the
common vector the next iteration sees together with `omega_sys` of this one), because `omega_sys` starts as an alias of
it.  The code as it exists never writes through the alias; `Props/C13List.lean` proves what follows: every system of
the list gets exactly the vector it would get from the common grid on its own, whatever comes before it.
-/
import CtrlVerif.Model.NyquistGrid

namespace CtrlVerif.Nyquist

variable {K : Type} [Field K] [LinearOrder K] [IsStrictOrderedRing K] [FloorRing K]

/-- `omega_sys` of one system, from the common vector it is handed (lines 1360-1369, default arguments). -/
def sysOmega (pi : K) (common : List K) (dt : Dt) : List K :=
  match nyquistFreq pi dt with
  | none => common
  | some f => truncNyquist f common

/-- one iteration of the loop over `syslist` (lines 1349-1369), with the state it could touch:
`(the common vector after the iteration, omega_sys of this system)`.  `np.hstack` and the boolean-mask selection
`omega_sys[omega_sys < nyq_freq]` build new arrays, so the common vector is handed on unchanged. -/
def sysOmegaStep (pi : K) (common : List K) (dt : Dt) : List K × List K :=
  (common, sysOmega pi common dt)

/-- the loop over `syslist`: `omega_sys` of every system, in the order of the list. -/
def listOmega (pi : K) (common : List K) : List Dt → List (List K)
  | [] => []
  | dt :: rest =>
    let st := sysOmegaStep pi common dt
    st.2 :: listOmega pi st.1 rest

/-- lines 1344-1369 for a list of systems with the timebases `dts` and the logarithmic grid `raw`. -/
def listDefaultOmega (pi : K) (npts : ℕ) (raw : List K) (dts : List Dt) : Except Err (List (List K)) := do
  let common ← prependLinspace npts raw
  pure (listOmega pi common dts)

/-- `_default_frequency_range` over a list of systems: `fs` = per system (`log10` of its features, `log10` of its
`freq_interesting`), concatenated in the order of the list; the empty test is applied to the union. -/
def listExponents (cfg : K) (fs : List (List K × List K)) : K × K :=
  nyquistExponents cfg (fs.flatMap (·.1)) (fs.flatMap (·.2))

end CtrlVerif.Nyquist
