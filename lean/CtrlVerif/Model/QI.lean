/-
Exact complex arithmetic for the drivers: `ℚ(i)` as Mathlib's `QuadraticAlgebra ℚ (-1) 0`
(`x = re + im·i`, `i² = -1 + 0·i`), a computable field (DESIGN §3.1, Appendix A.3).
-/
import Mathlib.Algebra.QuadraticAlgebra.Basic
import Mathlib.Algebra.Order.Field.Rat
import Mathlib.Tactic.Linarith

namespace CtrlVerif

/-- the Gaussian rationals. -/
abbrev QI := QuadraticAlgebra ℚ (-1) 0

instance QI.fact : Fact (∀ r : ℚ, r ^ 2 ≠ (-1 : ℚ) + 0 * r) := ⟨by
  intro r h
  have : 0 ≤ r ^ 2 := sq_nonneg r
  simp at h
  linarith⟩

/-- the imaginary unit. -/
def QI.I : QI := ⟨0, 1⟩

end CtrlVerif
