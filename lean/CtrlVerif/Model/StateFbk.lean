/-
Model of the state-feedback / estimator synthesis routines of `control/statefbk.py` and
`control/stochsys.py` (typed layer: Mathlib matrices over arbitrary finite index types, so the
same definitions are what the theorems of `Props/C11.lean` are about and what the driver runs).

* `ctrbBlock`, `ctrb`, `obsvBlock`, `obsv`      — `ctrb(A, B, t)`, `obsv(A, C, t)` (the loops)
* `polyFromRoots`, `pmat`, `ctrbVec`, `ackerGain` — `place_acker`
* `augA`, `augB`, `lqr`, `lqrInt`, `lqe`         — argument processing of `lqr/dlqr/lqe/dlqe`;
  `care` / `dare` (control/mateqn.py, property C10, SciPy underneath) are *parameters*
* `ctrlA … ctrlD`, `closedLoop`                  — the linear controller built by
  `create_statefbk_iosystem` (pattern 'trajgen', `controller_type='linear'`) and the closed loop
  that `interconnect` assembles from it and a linear plant.
-/
import CtrlVerif.Model.SS
import CtrlVerif.Model.Poly
import CtrlVerif.Model.Err
import Mathlib.Data.Matrix.Block
import Mathlib.Data.Matrix.ColumnRowPartitioned
import Mathlib.LinearAlgebra.Matrix.Adjugate

namespace CtrlVerif.StateFbk

open Matrix

variable {K : Type*} [Field K]

/-! ### `ctrb` / `obsv` -/

section Gram
variable {n m p : Type*} [Fintype n] [DecidableEq n]

/-- block `k` of the controllability matrix as the loop of `ctrb` builds it:
`ctrb[:, :m] = B`, `ctrb[:, k m:(k+1) m] = A @ ctrb[:, (k-1) m:k m]`. -/
def ctrbBlock (A : Matrix n n K) (B : Matrix n m K) : ℕ → Matrix n m K
  | 0 => B
  | k + 1 => A * ctrbBlock A B k

/-- `ctrb(A, B, t)` for an already clipped horizon `t`: column `(k, j)` is column `j` of
block `k`. -/
def ctrb (A : Matrix n n K) (B : Matrix n m K) (t : ℕ) : Matrix n (Fin t × m) K :=
  of fun i km => ctrbBlock A B km.1 i km.2

/-- block `k` of the observability matrix: `obsv[:p] = C`, `obsv[k p:(k+1) p] = obsv[(k-1) p:k p] @ A`. -/
def obsvBlock (A : Matrix n n K) (C : Matrix p n K) : ℕ → Matrix p n K
  | 0 => C
  | k + 1 => obsvBlock A C k * A

/-- `obsv(A, C, t)` for an already clipped horizon. -/
def obsv (A : Matrix n n K) (C : Matrix p n K) (t : ℕ) : Matrix (Fin t × p) n K :=
  of fun kp j => obsvBlock A C kp.1 kp.2 j

end Gram

/-- `if t is None or t > n: t = n`. -/
def horizon (n : ℕ) : Option ℕ → ℕ
  | none => n
  | some t => if t > n then n else t

/-! ### `place_acker` -/

/-- `numpy.poly(roots)`: `a = [1]; for z in roots: a = convolve(a, [1, -z])`. -/
def polyFromRoots {R : Type*} [Zero R] [One R] [Add R] [Mul R] [Neg R] (roots : List R) : List R :=
  roots.foldl (fun a z => polymul a [1, -z]) [1]

section Acker
variable {N : ℕ}

/-- `pmat = Σ_i p[n-i-1] A^i` for a coefficient list `p` (highest power first). -/
def pmat (A : Matrix (Fin N) (Fin N) K) : List K → Matrix (Fin N) (Fin N) K
  | [] => 0
  | a :: p => a • A ^ p.length + pmat A p

/-- the (square) controllability matrix of a single-input pair: column `k` is `A^k b`. -/
def ctrbVec (A : Matrix (Fin N) (Fin N) K) (b : Fin N → K) : Matrix (Fin N) (Fin N) K :=
  of fun i k => ctrbBlock A (of fun i (_ : Fin 1) => b i) k i 0

/-- `K = np.linalg.solve(ct, pmat)[-1, :]` with the certified inverse `det⁻¹ • adjugate`
(`N + 1` states so that the last row exists), as a function of the two matrices. -/
def ackerGainOf (Ct P : Matrix (Fin (N + 1)) (Fin (N + 1)) K) : Fin (N + 1) → K :=
  fun j => (SS.invQ Ct * P) (Fin.last N) j

/-- Ackermann's gain for `(A, b)` and the coefficient list `p`. -/
def ackerGain (A : Matrix (Fin (N + 1)) (Fin (N + 1)) K) (b : Fin (N + 1) → K) (p : List K) :
    Fin (N + 1) → K :=
  ackerGainOf (ctrbVec A b) (pmat A p)

/-- the branches of `place_acker` given the controllability matrix `Ct`, `P = pmat` and the
number of coefficients of the requested polynomial. -/
def placeAckerOf [DecidableEq K] (Ct P : Matrix (Fin (N + 1)) (Fin (N + 1)) K) (plen : ℕ) :
    Except Err (Fin (N + 1) → K) :=
  if Ct.det = 0 then .error .illPosed
  else if plen ≠ N + 2 then .error .badArg
  else .ok (ackerGainOf Ct P)

/-- `place_acker(A, B, poles)` for a single-input pair, from the real coefficient list
`p = np.real(np.poly(poles))`.  The unreachable pair raises (`np.linalg.matrix_rank(ct) != n`,
for a square matrix: `det = 0`).  A requested polynomial whose degree is not the number of
states is rejected (`badArg`): no gain can give `n` states another number of eigenvalues. -/
def placeAcker [DecidableEq K] (A : Matrix (Fin (N + 1)) (Fin (N + 1)) K) (b : Fin (N + 1) → K)
    (p : List K) : Except Err (Fin (N + 1) → K) :=
  placeAckerOf (ctrbVec A b) (pmat A p) p.length

end Acker

/-! ### `lqr`, `dlqr`, `lqe`, `dlqe`: argument processing around `care` / `dare` -/

section LQ
variable {n m q o g ε : Type*}

/-- `np.block([[A, 0], [C, J]])`: the dynamics augmented with the integrators of
`integral_action = C`; `J = 0` in continuous time (`lqr`), `J = I` in discrete time (`dlqr`). -/
def augA (A : Matrix n n K) (C : Matrix q n K) (J : Matrix q q K) : Matrix (n ⊕ q) (n ⊕ q) K :=
  fromBlocks A 0 C J

/-- `np.vstack([B, 0])`. -/
def augB (B : Matrix n m K) : Matrix (n ⊕ q) m K := fromRows B 0

/-- the Riccati routine of control/mateqn.py as `lqr`/`dlqr`/`lqe`/`dlqe` see it:
`care(A, B, Q, R, S, None)` / `dare(A, B, Q, R, S)` return `(X, L, G)` or raise. -/
abbrev Riccati (n m ε : Type*) (K : Type*) :=
  Matrix n n K → Matrix n m K → Matrix n n K → Matrix m m K → Option (Matrix n m K) →
    Except Err (Matrix n n K × ε × Matrix m n K)

/-- `lqr(A, B, Q, R[, N])` / `dlqr(…)` without integral action:
`X, L, G = care(A, B, Q, R, N); return G, X, L`.  (`dlqr` passes `N = zeros` when `N` is omitted;
that is the `some 0` instance.) -/
def lqr (ric : Riccati n m ε K) (A : Matrix n n K) (B : Matrix n m K) (Q : Matrix n n K)
    (R : Matrix m m K) (Nc : Option (Matrix n m K)) :
    Except Err (Matrix m n K × Matrix n n K × ε) :=
  (ric A B Q R Nc).map fun r => (r.2.2, r.1, r.2.1)

/-- `lqr(…, integral_action=C)` (`J = 0`) / `dlqr(…, integral_action=C)` (`J = 1`): the same
call on the augmented pair. -/
def lqrInt (ric : Riccati (n ⊕ q) m ε K) (A : Matrix n n K) (B : Matrix n m K)
    (C : Matrix q n K) (J : Matrix q q K) (Q : Matrix (n ⊕ q) (n ⊕ q) K) (R : Matrix m m K)
    (Nc : Option (Matrix (n ⊕ q) m K)) :
    Except Err (Matrix m (n ⊕ q) K × Matrix (n ⊕ q) (n ⊕ q) K × ε) :=
  lqr ric (augA A C J) (augB B) Q R Nc

/-- `lqe(A, G, C, QN, RN)` / `dlqe(…)`:
`P, E, LT = care(A.T, C.T, G @ QN @ G.T, RN); return LT.T, P, E`. -/
def lqe [Fintype g] (ric : Riccati n o ε K) (A : Matrix n n K) (G : Matrix n g K)
    (C : Matrix o n K) (QN : Matrix g g K) (RN : Matrix o o K) :
    Except Err (Matrix n o K × Matrix n n K × ε) :=
  (ric Aᵀ Cᵀ (G * QN * Gᵀ) RN none).map fun r => (r.2.2ᵀ, r.1, r.2.1)

end LQ

/-! ### `create_statefbk_iosystem`: linear controller and closed loop -/

section Ctrl
variable {n m q : Type*} [Fintype n] [DecidableEq n] [Fintype m] [DecidableEq m]
  [Fintype q] [DecidableEq q]

/-- proportional part `K[:, 0:sys_nstates]`. -/
def Kp (Kg : Matrix m (n ⊕ q) K) : Matrix m n K := Kg.submatrix id Sum.inl

/-- integral part `K[:, sys_nstates:]`. -/
def Ki (Kg : Matrix m (n ⊕ q) K) : Matrix m q K := Kg.submatrix id Sum.inr

/-- the controller `ss(A_lqr, B_lqr, C_lqr, D_lqr)` of the 'trajgen' pattern; its inputs are
`(x_d ⊕ u_d) ⊕ x`, its states the integrators, its outputs the plant inputs.
`ctime = isctime(sys)`: `A_lqr = zeros` (integrator) or `eye` (summer). -/
def ctrl (ctime : Bool) (C : Matrix q n K) (Kg : Matrix m (n ⊕ q) K) :
    SS q ((n ⊕ m) ⊕ n) m K where
  A := if ctime then 0 else 1
  B := fromCols (fromCols (-C) 0) C
  C := -(Ki Kg)
  D := fromCols (fromCols (Kp Kg) 1) (-(Kp Kg))

/-- what `interconnect([sys, ctrl], inplist = (x_d, u_d), outlist = sys outputs + sys inputs)`
assembles: plant `ẋ = A x + B u`, `y = Cp x` (no direct term), controller input `(x_d, u_d, y)`,
`u` = controller output.  States: plant then controller; inputs `x_d ⊕ u_d`; outputs `y ⊕ u`. -/
def closedLoop {o : Type*} [Fintype o] (A : Matrix n n K) (B : Matrix n m K) (Cp : Matrix o n K)
    (c : SS q ((n ⊕ m) ⊕ o) m K) : SS (n ⊕ q) (n ⊕ m) (o ⊕ m) K :=
  let Dy : Matrix m o K := c.D.submatrix id Sum.inr
  let Dr : Matrix m (n ⊕ m) K := c.D.submatrix id Sum.inl
  let By : Matrix q o K := c.B.submatrix id Sum.inr
  let Br : Matrix q (n ⊕ m) K := c.B.submatrix id Sum.inl
  { A := fromBlocks (A + B * Dy * Cp) (B * c.C) (By * Cp) c.A
    B := fromRows (B * Dr) Br
    C := fromBlocks Cp 0 (Dy * Cp) c.C
    D := fromRows 0 Dr }

end Ctrl

/-! ### `create_statefbk_iosystem(..., control_indices=…)`: the controller drives a selection of
the plant inputs -/

section Sel
variable {n mt m r q o : Type*} [Fintype n] [DecidableEq n] [Fintype mt] [DecidableEq mt]
  [Fintype m] [DecidableEq m] [Fintype q] [DecidableEq q] [Fintype o]

/-- the connection `interconnect` makes from the signal names: the controller is created with
`outputs = [sys.input_labels[i] for i in control_indices]`, so its output `j` carries the name of
plant input `sel j` and is wired to that input (`sel = control_indices` as a function; the names of
the plant inputs are distinct).  Entry `(i, j)` is `1` iff controller output `j` drives plant
input `i`. -/
def wire (sel : m → mt) : Matrix mt m K := Matrix.of fun i j => if sel j = i then 1 else 0

/-- the closed loop for `control_indices = sel`: the plant input vector is
`wire sel · u_ctrl + wire rest · d`, where `rest` lists the plant inputs the controller does not
drive; `add_unused=True` keeps those as further inputs `d` of the closed loop.
States: plant then controller; inputs `(x_d ⊕ u_d) ⊕ d`; outputs `y ⊕ u_ctrl`
(`outlist = sys.output_labels + [sys.input_labels[i] for i in control_indices]`). -/
def closedLoopSel (A : Matrix n n K) (B : Matrix n mt K) (Cp : Matrix o n K)
    (sel : m → mt) (rest : r → mt) (c : SS q ((n ⊕ m) ⊕ o) m K) :
    SS (n ⊕ q) ((n ⊕ m) ⊕ r) (o ⊕ m) K :=
  let cl := closedLoop A (B * wire sel) Cp c
  { A := cl.A
    B := fromCols cl.B (fromRows (B * wire rest) 0)
    C := cl.C
    D := fromCols cl.D 0 }

end Sel

end CtrlVerif.StateFbk
