/-
Expression trees over FRD systems of one square shape on one grid (DESIGN §3.5), interpreted
(a) by the model operators and (b) index by index in the algebra of matrices.
-/
import CtrlVerif.Model.FRD
import Mathlib.LinearAlgebra.Matrix.NonsingularInverse

namespace CtrlVerif

open Matrix

/-- trees of the operators `neg + - * (scalar *) feedback` over FRD leaves. -/
inductive FExpr (n : Nat) (ι : Type*) (K : Type*) where
  | leaf (F : FRD n ι ι K)
  | neg (a : FExpr n ι K)
  | add (a b : FExpr n ι K)
  | sub (a b : FExpr n ι K)
  | mul (a b : FExpr n ι K)
  | smul (c : K) (a : FExpr n ι K)
  | fb (a b : FExpr n ι K) (sign : K)

namespace FExpr

variable {n : Nat} {ι : Type*} {K : Type*} [Field K] [Fintype ι] [DecidableEq ι]

/-- interpretation by the model operators. -/
def evalModel [DecidableEq K] : FExpr n ι K → Except Err (FRD n ι ι K)
  | leaf F => .ok F
  | neg a => do let x ← evalModel a; pure x.neg
  | add a b => do let x ← evalModel a; let y ← evalModel b; pure (x.add y)
  | sub a b => do let x ← evalModel a; let y ← evalModel b; pure (x.add y.neg)
  | mul a b => do let x ← evalModel a; let y ← evalModel b; pure (x.mul y)
  | smul c a => do let x ← evalModel a; pure (x.smul c)
  | fb a b s => do let x ← evalModel a; let y ← evalModel b; x.feedback y s

/-- interpretation in the algebra of `ι × ι` matrices at the grid index `k`; `none` where the
closed loop does not exist. -/
noncomputable def evalSem (k : Fin n) : FExpr n ι K → Option (Matrix ι ι K)
  | leaf F => some (F.data k)
  | neg a => (evalSem k a).map fun x => -x
  | add a b => do let x ← evalSem k a; let y ← evalSem k b; pure (x + y)
  | sub a b => do let x ← evalSem k a; let y ← evalSem k b; pure (x - y)
  | mul a b => do let x ← evalSem k a; let y ← evalSem k b; pure (x * y)
  | smul c a => (evalSem k a).map fun x => c • x
  | fb a b s => do
    let x ← evalSem k a
    let y ← evalSem k b
    haveI := Classical.dec ((1 - s • (y * x)).det = 0)
    if (1 - s • (y * x)).det = 0 then none else some (x * (1 - s • (y * x))⁻¹)

end FExpr

end CtrlVerif
