/-
What a caller may pass for a documented boolean option (`inverse=` of `similarity_transform`,
`warn_unstable=` of `model_reduction`, `verbose=` of `minimal_realization`): not only the literals
`False` / `True` but any object, of which the code may use only the truth value (`if flag:`,
`if not flag:`).  `PyFlag` lists the kinds of objects callers really pass (a Python `bool`, an `int`,
a `numpy.bool_` as produced by a NumPy comparison such as `np.linalg.det(T) < 0`, a NumPy integer,
a finite `float`, `None`, a `str`, a 0-d `ndarray` of bools) and `truthy` is CPython's / NumPy's
`__bool__` for each of them.  Hand-written, part of the trusted base like `Model/PyVal.lean`;
own namespace `CtrlVerif.PyFlag`.

The source-text tie types such a parameter `BOOL` (`harness/core/py2lean_canon.py`): the generated
function receives `truthy flag`, and the translator refuses every other use of the parameter
(`flag is False`, `flag == 0`, …), so "only the truth value is used" is checked on the source text
on every run; the correspondence family passes the *objects* to the real code and the *kind tokens*
to this model.
-/
import CtrlVerif.Model.CanonicalDyn

namespace CtrlVerif

inductive PyFlag where
  | pyBool (b : Bool)            -- `False`, `True`
  | pyInt (i : Int)              -- `0`, `1`, `2`, `-1`
  | npBool (b : Bool)            -- `numpy.bool_`
  | npInt (i : Int)              -- `numpy.int64`
  | pyFloat (x : ℚ)              -- a finite `float` / `numpy.float64` (`nan` is outside)
  | pyNone                       -- `None`
  | pyStr (s : String)           -- `''` is false, every other string (also `'False'`) is true
  | arr0 (b : Bool)              -- 0-d `ndarray` of dtype bool
  deriving DecidableEq, Repr

namespace PyFlag

/-- `bool(flag)` -/
def truthy : PyFlag → Bool
  | pyBool b => b
  | pyInt i => i != 0
  | npBool b => b
  | npInt i => i != 0
  | pyFloat x => x != 0
  | pyNone => false
  | pyStr s => s != ""
  | arr0 b => b

/-- `flag is False`: the test a careless edit puts in place of `not flag`; it is *not* the
negation of the truth value (`is_False_ne_not_truthy` in `Props/C15Flag.lean`). -/
def isLiteralFalse : PyFlag → Bool
  | pyBool false => true
  | _ => false

/-- `flag is True` -/
def isLiteralTrue : PyFlag → Bool
  | pyBool true => true
  | _ => false

end PyFlag

/-- `similarity_transform(xsys, T, timescale=c, inverse=flag)` for an arbitrary flag object: the code
tests `if not inverse:`. -/
def DSS.similarityF {K : Type} [Field K] [DecidableEq K] (G : DSS K) (q : Nat)
    (T : Matrix (Fin q) (Fin q) K) (c : K) (flag : PyFlag) : Except Err (DSS K) :=
  G.similarity q T c flag.truthy

end CtrlVerif
