/-
Hand-written model of `control/timeresp.py:_check_convert_array(in_obj, legal_shapes, msg,
squeeze, transpose)` — the argument validation used by `forced_response` (T, X0, U),
`input_output_response` (U) and `point_to_point` / `solve_flat_optimal` (x0, u0, xf, uf).

Specification: after the optional transposition the element type must be numeric; a 0-d array
(scalar) is filled into the first legal shape without joker; the call succeeds iff the shape
then matches one of the legal shapes (joker entries match every length), otherwise it raises;
`squeeze` removes the axes of length one but never returns a 0-d array.
-/
import CtrlVerif.Model.PyCCA

namespace CtrlVerif.CheckConvert

open PyCCA

variable {α : Type}

/-- a legal shape matches an actual shape: same number of axes, every entry the joker or equal. -/
def Matches (s : LegalShape) (a : List Nat) : Prop :=
  s.length = a.length ∧ ∀ p ∈ List.zip s a, p.1 = Dim.any ∨ p.1 = Dim.n p.2

instance (s : LegalShape) (a : List Nat) : Decidable (Matches s a) := by
  unfold Matches; infer_instance

/-- the first legal shape without joker. -/
def firstConcrete : List LegalShape → Option LegalShape
  | [] => none
  | s :: rest => if Dim.any ∈ s then firstConcrete rest else some s

/-- a scalar is filled into the first joker-free legal shape (if there is one). -/
def fillScalar (legal : List LegalShape) (a : Arr α) : Except Err (Arr α) :=
  if a.shape = [] then
    match firstConcrete legal with
    | some s => do let v ← item a; full s v
    | none => .ok a
  else .ok a

/-- `np.squeeze` followed by the `(1,)` reshape of a 0-d result. -/
def squeezed (a : Arr α) : Except Err (Arr α) :=
  let b := squeeze a
  if b.shape = [] then reshape b [1] else .ok b

def checkConvert (x : Arr α) (legal : List LegalShape) (sq tr : Bool) : Except Err (Arr α) :=
  let a := if tr then transpose x else x
  if a.kind = Kind.other then .error .badArg
  else do
    let a ← fillScalar legal a
    if ∃ s ∈ legal, Matches s a.shape then
      if sq then squeezed a else .ok a
    else .error .badArg

end CtrlVerif.CheckConvert
