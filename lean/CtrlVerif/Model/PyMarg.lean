/-
Meaning of the NumPy / Python primitives that `harness/core/py2lean_marg.py` emits when it translates
the selection logic of `control/margins.py` (the part of every `_poly_*` function after its call of
`np.roots`, `_z_filter`, the body of `stability_margins` after the system has been recognised as a
transfer function, `margin`, `phase_crossover_frequencies`) and `LTI.bandwidth` (`control/lti.py`).
Hand-written, part of the trusted base of the source-text tie of C12 (DESIGN §10.3,
notes/NOTES-py2lean-margins.md).

Value model
* a finite Python `float` / NumPy float64 is an element of an arbitrary linearly ordered field `K`,
  EXACT arithmetic (rounding is not modelled); a 1-D float array whose entries are finite by
  construction (frequencies) is a `List K`;
* a float that may be non-finite is an `XF K` (`fin x | pinf | ninf | nan`) with IEEE-754 rules for the
  operations below (`1/0 = inf` for the zero of the field — the sign of a floating-point zero is not
  modelled —, `inf - inf = nan`, `0·inf = nan`, every comparison with `nan` is false);
* a finite complex number is `Cx K` (`re + im·j`), a 1-D complex array a `List (Cx K)`; the value of
  the loop transfer function at a point — complex, possibly non-finite (`inf + nan j` at a pole) — is an
  `Option (Cx K)` (`none` = not finite); real-valued functions of a non-finite response are `nan`
  (which of `inf` / `nan` NumPy produces there is not modelled);
* a boolean array is a `List Bool`, an index array a `List Nat`; arrays are values (no aliasing).
* transcendental functions and external numerical routines are PARAMETERS, collected in `Prims`:
  nothing is assumed about them here; the contracts the theorems need are hypotheses
  (`Lemmas/PyMarg.lean: PrimsSpec`).
Every partial operation is partial (`Except Err`): boolean index of the wrong length, index out of
range, `[0]` of an empty array (`IndexError` -> `indexRange`), `np.amin` of an empty array
(`ValueError` -> `badArg`), use of an unbound local (`UnboundLocalError` -> `unknownName`).
-/
import Mathlib.Algebra.Order.Floor.Ring
import Mathlib.Algebra.Order.Field.Basic
import CtrlVerif.Model.PyArith
import CtrlVerif.Model.Margins

namespace CtrlVerif.PyMarg

open CtrlVerif CtrlVerif.Margins

/-- the transcendental functions and external routines the translated code calls. -/
structure Prims (K : Type) [CommRing K] where
  /-- `np.roots(p)` -/
  npRoots : List K → List (Cx K)
  /-- `np.abs(z)` / `abs(z)` of a finite complex number -/
  cabs : Cx K → K
  /-- `np.angle(z)` (radians) -/
  angle : Cx K → K
  /-- `np.angle(z, deg=True)` -/
  angleDeg : Cx K → K
  /-- `np.log(x)` of a positive finite float -/
  log : K → K
  /-- `np.pi` / `math.pi` -/
  pi : K
  /-- `np.finfo(float).eps ** x` -/
  epsPow : K → K
  /-- `10 ** x` -/
  pow10 : K → K
  /-- `np.exp(1j * x)` for a real `x` -/
  expj : K → Cx K

/-- a float that may be non-finite. -/
inductive XF (K : Type) where
  | fin (x : K)
  | pinf
  | ninf
  | nan
  deriving DecidableEq, Repr

namespace XF
variable {K : Type} [Field K] [LinearOrder K]

def neg : XF K → XF K
  | fin x => fin (-x) | pinf => ninf | ninf => pinf | nan => nan

/-- `np.abs(x)` / `abs(x)` -/
def abs : XF K → XF K
  | fin x => fin |x| | pinf => pinf | ninf => pinf | nan => nan

def add : XF K → XF K → XF K
  | fin x, fin y => fin (x + y)
  | nan, _ => nan | _, nan => nan
  | pinf, ninf => nan | ninf, pinf => nan
  | pinf, _ => pinf | _, pinf => pinf
  | ninf, _ => ninf | _, ninf => ninf

def sub (a b : XF K) : XF K := add a (neg b)

/-- the infinity with the sign of `x`; `nan` for `x = 0` (`0·inf`). -/
def signedInf (x : K) : XF K := if 0 < x then pinf else if x < 0 then ninf else nan

def mul : XF K → XF K → XF K
  | fin x, fin y => fin (x * y)
  | nan, _ => nan | _, nan => nan
  | fin x, pinf => signedInf x | pinf, fin x => signedInf x
  | fin x, ninf => signedInf (-x) | ninf, fin x => signedInf (-x)
  | pinf, pinf => pinf | ninf, ninf => pinf
  | pinf, ninf => ninf | ninf, pinf => ninf

/-- `1 / x` (NumPy: division by zero gives `inf`, no exception). -/
def recip : XF K → XF K
  | fin x => if x = 0 then pinf else fin x⁻¹
  | pinf => fin 0 | ninf => fin 0 | nan => nan

/-- `a / b` for NumPy floats. -/
def div (a b : XF K) : XF K := mul a (recip b)

/-- `a < b`, `a <= b`, `a == b` (false whenever an operand is `nan`). -/
def lt : XF K → XF K → Bool
  | fin x, fin y => decide (x < y)
  | nan, _ => false | _, nan => false
  | ninf, ninf => false | ninf, _ => true
  | _, ninf => false
  | pinf, _ => false
  | fin _, pinf => true

def le : XF K → XF K → Bool
  | fin x, fin y => decide (x ≤ y)
  | nan, _ => false | _, nan => false
  | ninf, _ => true
  | _, pinf => true
  | pinf, _ => false
  | fin _, ninf => false

def beq : XF K → XF K → Bool
  | fin x, fin y => decide (x = y)
  | pinf, pinf => true | ninf, ninf => true
  | _, _ => false

/-- `np.isinf(x)` -/
def isInf : XF K → Bool
  | pinf => true | ninf => true | _ => false

def isNan : XF K → Bool
  | nan => true | _ => false

/-- `np.log(x)`: `log 0 = -inf`, `log` of a negative number is `nan`. -/
def log (logf : K → K) : XF K → XF K
  | fin x => if 0 < x then fin (logf x) else if x = 0 then ninf else nan
  | pinf => pinf | ninf => nan | nan => nan

/-- `np.remainder(x, p)` for a non-zero finite literal `p`: `x - p·floor(x/p)` (sign of the divisor);
`nan` for a non-finite `x`. -/
def remainder [IsStrictOrderedRing K] [FloorRing K] (x : XF K) (p : K) : XF K :=
  match x with
  | fin x => fin (x - p * ((⌊x / p⌋ : ℤ) : K))
  | _ => nan

/-- the smaller of two non-`nan` values (`-inf < finite < inf`); `nan` if one of them is `nan`
(`np.amin` propagates `nan`). -/
def min (a b : XF K) : XF K :=
  if isNan a || isNan b then nan else if le a b then a else b

end XF

section arrays
variable {K : Type} [Field K] [LinearOrder K]

/-- `a[b]` for a boolean array `b`: the entries of `a` where `b` is `True`; `IndexError` when the
lengths differ. -/
def mask {α : Type} (xs : List α) (bs : List Bool) : Except Err (List α) :=
  if xs.length = bs.length then .ok ((xs.zip bs).filterMap fun p => if p.2 then some p.1 else none)
  else .error .indexRange

/-- `a ∘ b` for two 1-D arrays with NumPy broadcasting (equal lengths, or a length-1 operand). -/
def zipB {α β γ : Type} (f : α → β → γ) (xs : List α) (ys : List β) : Except Err (List γ) :=
  if xs.length = ys.length then .ok (List.zipWith f xs ys)
  else match xs, ys with
    | [a], _ => .ok (ys.map fun y => f a y)
    | _, [b] => .ok (xs.map fun x => f x b)
    | _, _ => .error .shape

/-- `np.argsort(a)` of a 1-D float array: the positions in ascending order of the values; equal
values keep their order (NumPy's default sort does not promise an order among equal values: the
model takes the stable one). -/
def argsort (xs : List K) : List Nat :=
  ((xs.zipIdx).mergeSort fun a b => decide (a.1 ≤ b.1)).map (·.2)

/-- `a[idx]` for an index array of non-negative positions. -/
def take {α : Type} (xs : List α) (idx : List Nat) : Except Err (List α) :=
  idx.mapM fun i => match xs[i]? with
    | some v => .ok v
    | none => .error .indexRange

/-- `a[0]` of a 1-D array. -/
def first {α : Type} (xs : List α) : Except Err α :=
  match xs with
  | [] => .error .indexRange
  | a :: _ => .ok a

/-- the positions of the `True` entries (`np.where(b)[0]`, `np.nonzero(b)[0]`). -/
def whereTrue (bs : List Bool) : List Nat :=
  (bs.zipIdx.filter (·.1)).map (·.2)

/-- a variable that holds either the tuple returned by `np.where(b)` or a Python `int`. -/
inductive WIdx where
  | tup (idx : List Nat)
  | int (i : Int)
  deriving DecidableEq, Repr

/-- `x != c` for such a variable and an `int` literal `c`: a tuple is never equal to an `int`. -/
def WIdx.neInt : WIdx → Int → Bool
  | .tup _, _ => true
  | .int i, c => decide (i ≠ c)

/-- `a[x][0]`: for the tuple of `np.where` the first selected entry; for an `int` index `a[i]` is a
scalar and `[0]` of it is an `IndexError`. -/
def itemW0 {α : Type} (xs : List α) : WIdx → Except Err α
  | .tup idx => (take xs idx).bind first
  | .int _ => .error .indexRange

/-- the value of a local variable that is bound on some paths only (`UnboundLocalError`). -/
def bound {α : Type} : Option α → Except Err α
  | some a => .ok a
  | none => .error .unknownName

/-- `np.amin(a)` / `np.min(a)`: `ValueError` for an empty array, `nan` if an entry is `nan`. -/
def amin : List (XF K) → Except Err (XF K)
  | [] => .error .badArg
  | a :: l => .ok (l.foldl XF.min a)

/-- the same for an array of finite floats. -/
def aminK : List K → Except Err K
  | [] => .error .badArg
  | a :: l => .ok (l.foldl Min.min a)

/-! ### the loop response (complex, possibly not finite) -/

/-- `r <= 0.` in NumPy's ordering of complex numbers (real part first); false for a non-finite `r`. -/
def cle0 : Option (Cx K) → Bool
  | some r => lexLe0 r
  | none => false

/-- `np.abs(r)` -/
def rabs (cabs : Cx K → K) : Option (Cx K) → XF K
  | some r => .fin (cabs r)
  | none => .nan

/-- `np.angle(r, deg=True)` -/
def rangle (ang : Cx K → K) : Option (Cx K) → XF K
  | some r => .fin (ang r)
  | none => .nan

/-- `r + c` for a real `c` -/
def raddS : Option (Cx K) → K → Option (Cx K)
  | some r, c => some (r + QuadraticAlgebra.C c)
  | none, _ => none

/-- `np.real(r)` -/
def rreal : Option (Cx K) → XF K
  | some r => .fin r.re
  | none => .nan

end arrays

/-! ### results -/

/-- what `stability_margins` returns: six arrays (`returnall=True`) or six floats. -/
inductive SmOut (K : Type) where
  | all (GM PM SM : List (XF K)) (w180 wc wstab : List K)
  | mins (gm pm sm wpc wgc wms : XF K)
  deriving DecidableEq, Repr

/-- the argument of `stability_margins`: one object or a sequence of objects. -/
inductive SysData (α : Type) where
  | obj (a : α)
  | seq (l : List α)

end CtrlVerif.PyMarg
