/-
Meaning of the Python / NumPy / python-control primitives that `harness/core/py2lean_tf.py` emits
when it translates the ARITHMETIC METHODS of `class TransferFunction` (control/xferfcn.py) into
Lean (`Generated/TF*.lean`).  Hand-written, small, and — together with the translator — the trusted
base of the source-text tie of C01 (notes/NOTES-py2lean-tf.md); everything else about the generated
methods is proved (`Props/C01Gen.lean`).

Value model.  A `TransferFunction` object is the model's run-time object `DTF K` (shape, entries,
timebase); `x.ninputs / x.noutputs` are Python ints (`Int`); `x.num_array`, `x.den_array` and the
arrays made by `_create_poly_array` are 2-D object arrays of coefficient arrays (`PolyArr`, entries
`None` until assigned); a coefficient array is a `List K` (highest power first, `Model/Poly.lean`);
Python floats are exact field elements (rounding is not modelled: for integer-dtype arrays the real
code wraps around at 2^63, known finding `C01-int64-wrap`; the generated functions, like the model,
are the exact-arithmetic reading).  Every partial operation is partial (`Except Err`).
-/
import CtrlVerif.Model.TFDyn
import CtrlVerif.Model.PyArith

namespace CtrlVerif.PyTF

open CtrlVerif

variable {K : Type} [Field K] [DecidableEq K]

/-! ## operands and the `isinstance` dispatch -/

/-- what may stand on the other side of an operator, by the classes the methods test with
`isinstance`: `TransferFunction`; `StateSpace` (described by what `_convert_to_transfer_function`
returns for it and for its negation — that conversion is property C03's, here it is data);
`int / float / complex / np.number`; a 2-D `np.ndarray`; anything else (an object none of the
`isinstance` tests accepts and `_convert_to_transfer_function` rejects with `TypeError`). -/
inductive Operand (K : Type) where
  | tf (G : DTF K)
  | ss (conv negConv : DTF K)
  | scalar (c : K)
  | array (p m : Nat) (D : Fin p → Fin m → K)
  | foreign

/-- the model's operands (`Model/TFDyn.lean`) are three of these kinds. -/
def ofOperand : CtrlVerif.Operand K → Operand K
  | .sys G => .tf G
  | .scalar c => .scalar c
  | .array p m D => .array p m D

/-- the exponent of `**`: `type(other) == int` or not. -/
inductive Exponent where
  | int (n : Int)
  | notInt

/-- `_convert_to_transfer_function(x, inputs=…, outputs=…)` per operand kind, as `Model/TFDyn.lean`
models it: a transfer function is returned as it is; a scalar becomes the `outputs × inputs` system
with every entry the scalar (`range` of a negative number is empty); an array the static system with
these gains (`inputs / outputs` ignored); anything else is a `TypeError`. -/
def convert (x : Operand K) (inputs outputs : Int) : Except Err (DTF K) :=
  match x with
  | .tf G => .ok G
  | .ss c _ => .ok c
  | .scalar c => .ok (DTF.ofScalar c outputs.toNat inputs.toNat)
  | .array p m D => .ok (DTF.ofArray p m D)
  | .foreign => .error .notImplemented

/-- `np.eye(n) * c` for a scalar `c` (an `n × n` array). -/
def scaledEye (n : Int) (c : K) : Operand K :=
  .array n.toNat n.toNat fun i j => if i = j then c else 0

/-- `-x` on an operand, with `negTF` the `__neg__` of `TransferFunction`. -/
def negOperand (negTF : DTF K → Except Err (DTF K)) : Operand K → Except Err (Operand K)
  | .tf G => do let r ← negTF G; pure (.tf r)
  | .ss c n => pure (.ss n c)
  | .scalar c => pure (.scalar (-c))
  | .array p m D => pure (.array p m fun i j => - D i j)
  | .foreign => .error .notImplemented

/-- `x + g` for an arbitrary left operand `x` and a transfer function `g` (Python's binary-operator
protocol): a `TransferFunction` on the left runs its own `__add__`; `int / float / ndarray.__add__`
return `NotImplemented` for a `TransferFunction` (`__array_priority__`), so `g.__radd__(x)` runs; a
foreign object likewise (and `__radd__` decides); `StateSpace.__add__` is not part of this model. -/
def addLeft (addTF raddTF : DTF K → Operand K → Except Err (DTF K)) (x : Operand K) (g : DTF K) :
    Except Err (DTF K) :=
  match x with
  | .tf H => addTF H (.tf g)
  | .ss _ _ => .error .notImplemented
  | x => raddTF g x

/-! ## fields of a `TransferFunction` object -/

def ninputs (G : DTF K) : Int := (G.m : Int)
def noutputs (G : DTF K) : Int := (G.p : Int)

/-- the entry at `(r, c)` when it exists. -/
def entry? (G : DTF K) (r c : Nat) : Option (Frac K) :=
  if h : r < G.p ∧ c < G.m then some (G.sys.e ⟨r, h.1⟩ ⟨c, h.2⟩) else none

/-- a 2-D object array of coefficient arrays (`np.empty(shape, dtype=np.ndarray)`): entries are
`None` until assigned; `get` is `none` outside the shape. -/
structure PolyArr (K : Type) where
  p : Nat
  m : Nat
  get : Nat → Nat → Option (List K)

/-- `x.num_array` (also `x.num`, its nested-list copy, which the constructor re-packs). -/
def numArray (G : DTF K) : PolyArr K := ⟨G.p, G.m, fun r c => (entry? G r c).map (·.num)⟩
/-- `x.den_array` (also `x.den`). -/
def denArray (G : DTF K) : PolyArr K := ⟨G.p, G.m, fun r c => (entry? G r c).map (·.den)⟩

/-- `_create_poly_array((a, b), default)`: `np.empty` rejects negative dimensions. -/
def createPolyArray (a b : Int) (default : Option (List K)) : Except Err (PolyArr K) :=
  if a < 0 ∨ b < 0 then .error .badArg
  else .ok ⟨a.toNat, b.toNat, fun r c => if r < a.toNat ∧ c < b.toNat then default else none⟩

/-- `arr[i, j]` read as a coefficient array (indices with Python meaning; an entry that is still
`None` cannot be used as one). -/
def PolyArr.getItem (a : PolyArr K) (i j : Int) : Except Err (List K) :=
  match PyArith.normIdx a.p i, PyArith.normIdx a.m j with
  | .ok r, .ok c =>
    match a.get r c with
    | some v => .ok v
    | none => .error .badArg
  | .error e, _ => .error e
  | _, .error e => .error e

/-- `arr[i, j] = v` (also written `arr[i][j] = v`: a row of a NumPy array is a view). -/
def PolyArr.setItem (a : PolyArr K) (i j : Int) (v : List K) : Except Err (PolyArr K) :=
  match PyArith.normIdx a.p i, PyArith.normIdx a.m j with
  | .ok r, .ok c => .ok ⟨a.p, a.m, fun r' c' => if r' = r ∧ c' = c then some v else a.get r' c'⟩
  | .error e, _ => .error e
  | _, .error e => .error e

/-! ## the constructor -/

/-- the pair of entries at `(r, c)` when both arrays hold a coefficient array there. -/
def frac? (num den : PolyArr K) (r c : Nat) : Option (Frac K) :=
  match num.get r c, den.get r c with
  | some n, some d => some ⟨n, d⟩
  | _, _ => none

/-- `TransferFunction(num, den, dt)` on 2-D arrays: the shapes must agree (`ValueError`), every
entry must be a coefficient array (`TypeError` otherwise), then the model's constructor `TFM.mk'`
(zero denominator ⇒ `ValueError`; zero numerator ⇒ denominator `[1]`; `_truncatecoeff`).  An
explicit `dt` is kept. -/
def mkTF (num den : PolyArr K) (dt : Dt) : Except Err (DTF K) :=
  if num.p = den.p ∧ num.m = den.m then
    if h : ∀ (i : Fin num.p) (j : Fin num.m), (frac? num den i.val j.val).isSome = true then
      do
        let s ← TFM.mk' (o := Fin num.p) (ι := Fin num.m)
          fun i j => (frac? num den i.val j.val).get (h i j)
        pure ⟨num.p, num.m, s, dt⟩
    else .error .badArg
  else .error .shape

/-- `TransferFunction(num, den[, dt])` on two coefficient arrays (a SISO system).  Without a `dt`
argument the timebase is `None` for a static system (both arrays of length ≤ 1, decided before
`_truncatecoeff`) and `0` otherwise. -/
def mkSiso (num den : List K) (dt : Option Dt) : Except Err (DTF K) := do
  let s ← TFM.mk' (o := Fin 1) (ι := Fin 1) fun _ _ => (⟨num, den⟩ : Frac K)
  pure ⟨1, 1, s, match dt with
    | some d => d
    | none => if num.length ≤ 1 ∧ den.length ≤ 1 then .none else .cont⟩

/-- a consequence of the definition (used by the termination proof of the generated, mutually
recursive `__truediv__` / `__pow__`): what `TransferFunction(num, den)` returns is SISO. -/
theorem isSiso_of_mkSiso {num den : List K} {dt : Option Dt} {G : DTF K}
    (h : mkSiso num den dt = .ok G) : G.isSiso = true := by
  unfold mkSiso at h
  cases hs : TFM.mk' (o := Fin 1) (ι := Fin 1) fun _ _ => (⟨num, den⟩ : Frac K) with
  | error e => rw [hs] at h; cases h
  | ok s => rw [hs] at h; cases h; rfl

/-! ## SISO promotion, scaling -/

/-- `np.ones((a, b)) * g`: the model's promotion function (`__rmul__` with the ones array;
`Props/C01Gen.lean: generated_rmul_ones` shows the generated `__rmul__` agrees). -/
def onesTimes (a b : Int) (g : DTF K) : Except Err (DTF K) := DTF.onesTimes a.toNat b.toNat g

/-- `bdalg.append(*([g] * n))` for a SISO `g`: `n` copies on the diagonal, `0/1` elsewhere, the
timebase of `g` (the model's promotion function). -/
def appendCopies (g : DTF K) (n : Int) : Except Err (DTF K) := .ok (g.diagOf n.toNat)

/-! ## lists (the constructor core: `__init__`'s zero checks, `_truncatecoeff`) -/

/-- `xs[n:]` (a slice with a lower bound only): from position `n`; a negative `n` counts from the
end; out-of-range bounds are clamped. -/
def sliceFrom {α : Type} (xs : List α) (n : Int) : List α :=
  if 0 ≤ n then xs.drop n.toNat else xs.drop (xs.length - (-n).toNat)

/-- `[a, b] = xs`: unpacking needs exactly two items (`ValueError` otherwise). -/
def unpack2 {α : Type} (xs : List α) : Except Err (α × α) :=
  match xs with
  | [a, b] => .ok (a, b)
  | _ => .error .badArg

/-- the function returned without `return` (Python's `None`): no modelled value. -/
def fellOff {α : Type} : Except Err α := .error .badArg

end CtrlVerif.PyTF
