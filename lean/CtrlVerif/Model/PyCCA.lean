/-
Primitives of the source-text tie of `control/timeresp.py:_check_convert_array`
(harness/core/py2lean_cca.py).  Hand-written, part of the trusted base: the meaning of the NumPy
calls the function makes, on an abstract `ndarray` (shape, elements in row-major order, dtype kind).

  `np.asarray(in_obj)`            ↦ the argument itself (the caller hands over the array NumPy builds)
  `np.transpose(a)`               ↦ `transpose a`   (all axes reversed)
  `a.dtype.kind`                  ↦ `a.kind`
  `a.ndim`, `a.shape`             ↦ `a.shape.length`, `a.shape`
  `"any" in s_legal`              ↦ `anyIn s_legal`
  `a[()]`                         ↦ `item a`        (the element of a 0-d array)
  `np.empty(s, 'd')` + `.fill(v)` ↦ `full s v`      (dtype kind `f`)
  `n_legal == "any"`, `n_legal != n_actual` ↦ `isAny`, `dimNe`
  `np.squeeze(a)`                 ↦ `squeeze a`     (axes of length one removed; element order kept)
  `a.reshape((1,))`               ↦ `reshape a [1]`
-/
import CtrlVerif.Model.Err

namespace CtrlVerif.PyCCA

/-- one entry of a legal shape: a number or the joker `'any'`. -/
inductive Dim where
  | n (k : Nat)
  | any
  deriving DecidableEq, Repr

abbrev LegalShape := List Dim

/-- `dtype.kind`: integer, float, complex, or anything else (`b`, `O`, `U`, `S`, `M`, …). -/
inductive Kind where
  | i | f | c | other
  deriving DecidableEq, Repr

/-- an `ndarray`: shape, elements in row-major (C) order, dtype kind. -/
structure Arr (α : Type) where
  shape : List Nat
  data : List α
  kind : Kind
  deriving Repr

variable {α : Type}

def asarray (a : Arr α) : Arr α := a

/-- flat row-major position of a multi-index. -/
def ravel : List Nat → List Nat → Nat
  | d :: ds, i :: is => i * ds.prod + ravel ds is
  | _, _ => 0

/-- multi-index of a flat row-major position. -/
def unravel : List Nat → Nat → List Nat
  | [], _ => []
  | _ :: ds, k => k / ds.prod :: unravel ds (k % ds.prod)

/-- `np.transpose(a)`: the axes reversed; element `(i_{k-1}, …, i_0)` of the result is element
`(i_0, …, i_{k-1})` of `a`. -/
def transpose (a : Arr α) : Arr α :=
  let sh := a.shape.reverse
  { shape := sh
    data := (List.range sh.prod).filterMap fun k => a.data[ravel a.shape (unravel sh k).reverse]?
    kind := a.kind }

def ndim (a : Arr α) : Nat := a.shape.length

def anyIn (s : LegalShape) : Bool := s.contains Dim.any

def isAny (d : Dim) : Bool := d == Dim.any

/-- `n_legal != n_actual` for a legal entry and an actual axis length (`'any' != 3` is `True`). -/
def dimNe (d : Dim) (k : Nat) : Bool := d != Dim.n k

/-- `a[()]` of a 0-d array. -/
def item (a : Arr α) : Except Err α :=
  match a.data with
  | v :: _ => .ok v
  | [] => .error .indexRange

/-- the numbers of a legal shape without joker (`np.empty` rejects a string). -/
def concrete : LegalShape → Except Err (List Nat)
  | [] => .ok []
  | .n k :: ds => do let r ← concrete ds; pure (k :: r)
  | .any :: _ => .error .badArg

/-- `out = np.empty(s, 'd'); out.fill(v)`. -/
def full (s : LegalShape) (v : α) : Except Err (Arr α) := do
  let sh ← concrete s
  pure { shape := sh, data := List.replicate sh.prod v, kind := .f }

/-- `np.squeeze(a)`. -/
def squeeze (a : Arr α) : Arr α := { a with shape := a.shape.filter (· != 1) }

/-- `a.reshape(sh)`; the number of elements must not change. -/
def reshape (a : Arr α) (sh : List Nat) : Except Err (Arr α) :=
  if sh.prod = a.shape.prod then .ok { a with shape := sh } else .error .shape

end CtrlVerif.PyCCA
