/-
Model of `TransferFunction` arithmetic (control/xferfcn.py, control/bdalg.py).

A transfer matrix is a matrix of coefficient-list fractions.  Every operator of the code is
"raw arithmetic on coefficient arrays, then the constructor", so every operator here is a raw
function followed by `TFM.mk` (zero-denominator check, zero numerator ⇒ denominator `[1]`,
`_truncatecoeff`).
-/
import CtrlVerif.Model.Poly
import CtrlVerif.Model.Err
import CtrlVerif.Model.Dt
import Mathlib.Data.Fintype.Basic
import Mathlib.Data.Fin.Basic
import Mathlib.Data.List.FinRange

namespace CtrlVerif

variable {K : Type*}

/-- one entry `num/den` of a transfer matrix. -/
structure Frac (K : Type*) where
  num : List K
  den : List K
  deriving DecidableEq, Repr

/-- typed transfer matrix: outputs `o`, inputs `ι`. -/
structure TFM (o ι : Type*) (K : Type*) where
  e : o → ι → Frac K

section ops
variable [Field K] [DecidableEq K]

/-- per-entry constructor normalisation (`__init__` + `_truncatecoeff`), assuming `den ≠ 0`. -/
def Frac.norm (f : Frac K) : Frac K :=
  if isZero f.num then ⟨[0], [1]⟩ else ⟨trim f.num, trim f.den⟩

/-- `_add_siso`. -/
def addSiso (a b : Frac K) : Frac K :=
  ⟨polyadd (polymul a.num b.den) (polymul b.num a.den), polymul a.den b.den⟩

/-- the summand `polymul(num,num) / polymul(den,den)` of `__mul__`. -/
def mulSiso (a b : Frac K) : Frac K := ⟨polymul a.num b.num, polymul a.den b.den⟩

def Frac.neg (a : Frac K) : Frac K := ⟨pneg a.num, a.den⟩

def Frac.zero : Frac K := ⟨[0], [1]⟩
def Frac.one : Frac K := ⟨[1], [1]⟩
def Frac.const (c : K) : Frac K := ⟨[c], [1]⟩

variable {o ι κ : Type*} [Fintype o] [Fintype ι]

/-- `TransferFunction(num, den)`: raises on a zero denominator, otherwise normalises. -/
def TFM.mk' (raw : o → ι → Frac K) : Except Err (TFM o ι K) :=
  if ∃ i j, isZero (raw i j).den = true then .error .zeroDen
  else .ok ⟨fun i j => (raw i j).norm⟩

/-- `__neg__`. -/
def TFM.neg (G : TFM o ι K) : Except Err (TFM o ι K) :=
  TFM.mk' fun i j => (G.e i j).neg

/-- `__add__` for equal shapes. -/
def TFM.add (G H : TFM o ι K) : Except Err (TFM o ι K) :=
  TFM.mk' fun i j => addSiso (G.e i j) (H.e i j)

/-- `__sub__` is `self + (-other)`. -/
def TFM.sub (G H : TFM o ι K) : Except Err (TFM o ι K) := do
  let H' ← H.neg
  G.add H'

/-- the accumulate loop of `__mul__`/`__rmul__`: start from `0/1`, add the summands in order. -/
def mulEntry {n : Nat} (row : Fin n → Frac K) (col : Fin n → Frac K) : Frac K :=
  (List.finRange n).foldl (fun acc k => addSiso acc (mulSiso (row k) (col k))) Frac.zero

/-- `__mul__` (inner dimension `Fin n`). -/
def TFM.mul {n : Nat} (G : TFM o (Fin n) K) (H : TFM (Fin n) ι K) : Except Err (TFM o ι K) :=
  TFM.mk' fun i j => mulEntry (fun k => G.e i k) (fun k => H.e k j)

/-- constant matrix as a static transfer function (`_convert_to_transfer_function(array)`). -/
def TFM.ofConst (D : o → ι → K) : TFM o ι K :=
  ⟨fun i j => (Frac.const (D i j)).norm⟩

/-- `append` / block diagonal via `combine_tf` with zero blocks. -/
def TFM.append {o₂ ι₂ : Type*} (G : TFM o ι K) (H : TFM o₂ ι₂ K) : TFM (o ⊕ o₂) (ι ⊕ ι₂) K :=
  ⟨fun i j => match i, j with
    | .inl i, .inl j => G.e i j
    | .inr i, .inr j => H.e i j
    | _, _ => Frac.zero⟩

/-- `bdalg.append(*[g] * n)` for a SISO `g`: `n × n` diagonal. -/
def TFM.diag (g : Frac K) (n : Nat) : TFM (Fin n) (Fin n) K :=
  ⟨fun i j => if i = j then g else Frac.zero⟩

/-- SISO `truediv`: `num = polymul(n1, d2)`, `den = polymul(d1, n2)`. -/
def divSiso (a b : Frac K) : Frac K := ⟨polymul a.num b.den, polymul a.den b.num⟩

/-- SISO `feedback`: `num = n1 d2`, `den = d2 d1 - sign * n2 n1`. -/
def fbSiso (a b : Frac K) (sign : K) : Frac K :=
  ⟨polymul a.num b.den,
   polyadd (polymul b.den a.den) (scale (-sign) (polymul b.num a.num))⟩

/-- a SISO system. -/
def TFM.siso (f : Frac K) : TFM (Fin 1) (Fin 1) K := ⟨fun _ _ => f⟩

def TFM.truedivSiso (G H : TFM (Fin 1) (Fin 1) K) : Except Err (TFM (Fin 1) (Fin 1) K) :=
  TFM.mk' fun _ _ => divSiso (G.e 0 0) (H.e 0 0)

def TFM.feedbackSiso (G H : TFM (Fin 1) (Fin 1) K) (sign : K) :
    Except Err (TFM (Fin 1) (Fin 1) K) :=
  TFM.mk' fun _ _ => fbSiso (G.e 0 0) (H.e 0 0) sign

/-- `__getitem__` on index lists / `split_tf` entry / `combine_tf` re-assembly all are
re-indexings of the entry matrix followed by the constructor. -/
def TFM.reindex {o' ι' : Type*} [Fintype o'] [Fintype ι'] (G : TFM o ι K)
    (r : o' → o) (c : ι' → ι) : Except Err (TFM o' ι' K) :=
  TFM.mk' fun i j => G.e (r i) (c j)

end ops

end CtrlVerif
