/-
Python values and the fixed meaning of the primitives that `harness/core/py2lean_select.py` emits
(`isinstance`, `len`, `x[i]`, `x[slice]`, `slice(...)`, `slice.indices`, `range`, iteration,
`list.index`, `list.append`, `tuple(...)`, `!=`).  Hand-written, part of the trusted base of the source-text tie
(DESIGN §2.5), like `Model/PyDt.lean`.  Slices and ranges are CPython's `PySlice_AdjustIndices` /
`range` as already defined in `Model/Index.lean` (`sliceIndices`, `rangeLen`, `rangeList`, about
which `Props/C17.lean` proves `slice_indices_spec`, `slice_mem_pos/neg`); nothing is re-defined.

Exceptions are the shared `Err` enum: TypeError ↦ `badArg`, IndexError ↦ `indexRange`,
ValueError ↦ `badArg` (`list.index`: `unknownName`, the only use is a label look-up),
KeyError ↦ `unknownName`.

Domain restrictions (say so where used): the fields of a `slice` are `int`/`bool`/`None` (Python
accepts any object and fails at `indices()`); `other` stands for an object of any class that is
not named here (float, ndarray, NumPy scalar, dict, …): every primitive rejects it with TypeError
and `isinstance(other, C)` is false for the classes `C` below — the translator refuses an
`isinstance` test against any other class.
-/
import CtrlVerif.Model.Index

namespace CtrlVerif

inductive PyVal where
  | none
  | bool (b : Bool)
  | int (i : Int)
  | str (s : String)
  | slice (start stop step : Option Int)
  | range (start stop step : Int)
  | list (xs : List PyVal)
  | tuple (xs : List PyVal)
  | other

/-- the classes an `isinstance` test may name. -/
inductive PyCls where
  | int | bool | str | slice | range | list | tuple | NoneType
  deriving DecidableEq, Repr

namespace Py

open Index

/-- `isinstance(v, C)`; `bool` is a subclass of `int`. -/
def isinstance1 : PyVal → PyCls → Bool
  | .int _, .int => true
  | .bool _, .int => true
  | .bool _, .bool => true
  | .str _, .str => true
  | .slice .., .slice => true
  | .range .., .range => true
  | .list _, .list => true
  | .tuple _, .tuple => true
  | .none, .NoneType => true
  | _, _ => false

/-- `isinstance(v, (C1, C2, …))`. -/
def isinstance (v : PyVal) (cs : List PyCls) : Bool := cs.any (isinstance1 v)

/-- `v is None` -/
def isNone : PyVal → Bool
  | .none => true
  | _ => false

/-- the integer behind an `int` / `bool` (`__index__`); TypeError otherwise. -/
def toInt : PyVal → Except Err Int
  | .int i => .ok i
  | .bool b => .ok (if b then 1 else 0)
  | _ => .error .badArg

/-- a field of `slice(a, b, c)`. -/
def sliceField : PyVal → Except Err (Option Int)
  | .none => .ok Option.none
  | v => (toInt v).map some

/-- `slice(a, b, c)` -/
def mkSlice (a b c : PyVal) : Except Err PyVal := do
  pure (.slice (← sliceField a) (← sliceField b) (← sliceField c))

/-- `range(n)` -/
def range1 (n : Int) : PyVal := .range 0 n 1

/-- `seq[i]` for a sequence of length `xs.length`: negative indices count from the end,
IndexError outside `-n … n-1`. -/
def seqIndex {α : Type} (xs : List α) (i : Int) : Except Err α :=
  let k : Int := if i < 0 then i + xs.length else i
  if 0 ≤ k then
    match xs[k.toNat]? with
    | some x => .ok x
    | Option.none => .error .indexRange
  else .error .indexRange

/-- `seq[a:b:c]` = `[seq[k] for k in range(*slice(a, b, c).indices(len(seq)))]`. -/
def seqSlice {α : Type} (xs : List α) (a b c : Option Int) : Except Err (List α) := do
  let (start, stop, step) ← sliceIndices a b c xs.length
  (rangeList start step (rangeLen start stop step)).mapM (seqIndex xs)

/-- `len(v)` -/
def len : PyVal → Except Err Int
  | .list xs => .ok xs.length
  | .tuple xs => .ok xs.length
  | .str s => .ok s.length
  | .range a b c => .ok (rangeLen a b c)
  | _ => .error .badArg

/-- `v[k]`: integer and slice subscripts of lists, tuples, strings and ranges
(`range[slice]` is CPython's `compute_slice`). -/
def getitem : PyVal → PyVal → Except Err PyVal
  | .list xs, .slice a b c => (seqSlice xs a b c).map .list
  | .tuple xs, .slice a b c => (seqSlice xs a b c).map .tuple
  | .str s, .slice a b c => (seqSlice s.toList a b c).map (fun cs => .str (String.ofList cs))
  | .range s e st, .slice a b c => do
    let (a', b', c') ← sliceIndices a b c (rangeLen s e st)
    pure (.range (s + a' * st) (s + b' * st) (st * c'))
  | .list xs, k => do seqIndex xs (← toInt k)
  | .tuple xs, k => do seqIndex xs (← toInt k)
  | .str s, k => do pure (.str (String.singleton (← seqIndex s.toList (← toInt k))))
  | .range s e st, k => do
    pure (.int (← seqIndex (rangeList s st (rangeLen s e st)) (← toInt k)))
  | _, _ => .error .badArg

/-- the elements `for x in v` visits. -/
def iter : PyVal → Except Err (List PyVal)
  | .list xs => .ok xs
  | .tuple xs => .ok xs
  | .str s => .ok (s.toList.map fun c => .str (String.singleton c))
  | .range s e st => .ok ((rangeList s st (rangeLen s e st)).map .int)
  | _ => .error .badArg

/-- `labels.index(s)` for a string `s` in a list: position of the first element that is the
string `s`; ValueError ("unknown signal name") when absent; TypeError for other arguments. -/
def indexStr : PyVal → PyVal → Except Err Int
  | .list xs, .str s =>
    match xs.findIdx? (fun x => match x with | .str t => t == s | _ => false) with
    | some k => .ok k
    | Option.none => .error .unknownName
  | _, _ => .error .badArg

/-- `list(range(a, b))` as Lean integers (`for i in range(a, b)`). -/
def rangeInts (a b : Int) : List Int := rangeList a 1 (rangeLen a b 1)

/-- `x.append(v)` on a list (AttributeError ↦ `badArg` otherwise); the new list. -/
def append : PyVal → PyVal → Except Err PyVal
  | .list xs, v => .ok (.list (xs ++ [v]))
  | _, _ => .error .badArg

/-- `for v in vs: x.append(v)` -/
def extend : PyVal → List PyVal → Except Err PyVal
  | .list xs, vs => .ok (.list (xs ++ vs))
  | _, _ => .error .badArg

/-- `tuple(v)` -/
def tupleOf (v : PyVal) : Except Err PyVal := (iter v).map .tuple

/-- built from `None`, `int`, `str`, `slice`, lists and tuples only: on these Python's `==` is
structural (a `bool` equals an `int`, a `range` equals a range with the same elements, an `other`
object is not known: left out). -/
def plain : PyVal → Bool
  | .none | .int _ | .str _ | .slice .. => true
  | .list xs => xs.attach.all fun ⟨x, _⟩ => plain x
  | .tuple xs => xs.attach.all fun ⟨x, _⟩ => plain x
  | _ => false

/-- structural equality (the type has no derived `DecidableEq`: it is nested). -/
def same : PyVal → PyVal → Bool
  | .none, .none => true
  | .bool a, .bool b => a == b
  | .int a, .int b => a == b
  | .str a, .str b => a == b
  | .slice a b c, .slice a' b' c' => a == a' && b == b' && c == c'
  | .range a b c, .range a' b' c' => a == a' && b == b' && c == c'
  | .list xs, .list ys => sameList xs ys
  | .tuple xs, .tuple ys => sameList xs ys
  | .other, .other => true
  | _, _ => false
where sameList : List PyVal → List PyVal → Bool
  | [], [] => true
  | x :: xs, y :: ys => same x y && sameList xs ys
  | _, _ => false

/-- `a != b` on plain values; not known here (`notImplemented`) otherwise. -/
def ne (a b : PyVal) : Except Err Bool :=
  if plain a && plain b then .ok (!same a b) else .error .notImplemented

/-- the string behind a `str`. -/
def toStr : PyVal → Except Err String
  | .str s => .ok s
  | _ => .error .badArg

end Py

end CtrlVerif
