/-
Run-time expression trees for C02: the trees the driver (`Driver/SS.lean`) executes, over the
run-time operands (`SOperand`: a `DSS`, a Python scalar, a 2-D array) and the run-time operators
of `Model/SSDyn.lean`, with the driver's operand dispatch.

* `DSS.Resp G s p m Y`: the run-time form of `SS.Resp` — "`G` has `p` outputs and `m` inputs and
                    `Y` is a value of its transfer matrix at `s`" — with the dimensions as data, so
                    that operands whose dimensions agree only propositionally can be combined;
                    `bc`, `bdiag`, `flatMat`, `splitUpper`, `splitLower`, `lftRes`: the values of
                    the run-time algebra.
* `DSS.binop`     : the dispatch of the binary operators (`Driver.SS.binop` is this function over
                    `ℚ`: `C02.RT.driver_binop`).
* `SSTree`, `SSTree.eval`: the tree and its evaluation by the run-time entry points
                    (`SOperand.neg`, `DSS.add / sub / rsub / mul / rmul / truediv / rtruediv`,
                    `append ∘ toSys`, `pow`, `feedback`, `lft`, `select`), left operand first, the
                    first error wins — what the postfix program of the driver computes.
* `DSem e s p m Y`: the algebra of transfer matrices with NumPy's broadcasting rules: "the tree
                    `e` has the `p × m` value `Y` at `s`".  Python scalars and SISO systems are
                    broadcast (`bc`), arrays are not.
* `SSShape`, `SSTree.shape`: kind / states / outputs / inputs of the result predicted from the
                    leaves alone.
-/
import CtrlVerif.Model.SSDyn
import CtrlVerif.Model.C02Expr
import Mathlib.LinearAlgebra.Matrix.ZPow

namespace CtrlVerif

open Matrix

namespace DSS

variable {K : Type} [Field K]

/-- **Run-time response.**  `G` has `p` outputs and `m` inputs and `Y` is a value of its transfer
matrix at `s` (`SS.Resp` of the typed quadruple, the dimensions being data). -/
def Resp (G : DSS K) (s : K) (p m : Nat) (Y : Matrix (Fin p) (Fin m) K) : Prop :=
  ∃ (hp : G.p = p) (hm : G.m = m), G.sys.Resp s (Y.submatrix (Fin.cast hp) (Fin.cast hm))

/-- NumPy broadcasting of a `1 × 1` value to `p × m`. -/
def bc (p m : Nat) (y : Matrix (Fin 1) (Fin 1) K) : Matrix (Fin p) (Fin m) K :=
  Matrix.of fun _ _ => y 0 0

/-- block diagonal of two run-time matrices (`append`), first block first. -/
def bdiag {p p' m m' : Nat} (Y : Matrix (Fin p) (Fin m) K) (Y' : Matrix (Fin p') (Fin m') K) :
    Matrix (Fin (p + p')) (Fin (m + m')) K :=
  (fromBlocks Y 0 0 Y').submatrix finSumFinEquiv.symm finSumFinEquiv.symm

/-- `Fin a ⊕ Fin b` re-typed as `Fin (a + b)` on rows and columns of a matrix (what `flatIO` does
to the response). -/
def flatMat {a b c d : Nat} (M : Matrix (Fin a ⊕ Fin b) (Fin c ⊕ Fin d) K) :
    Matrix (Fin (a + b)) (Fin (c + d)) K :=
  M.submatrix finSumFinEquiv.symm finSumFinEquiv.symm

/-- a run-time matrix partitioned as `lft` slices its upper operand: rows `[:p-ny] | [p-ny:]`,
columns `[:m-nu] | [m-nu:]`. -/
def splitUpper {p m : Nat} (Y : Matrix (Fin p) (Fin m) K) (nu ny : Nat) (hu : nu ≤ m) (hy : ny ≤ p) :
    Matrix (Fin (p - ny) ⊕ Fin ny) (Fin (m - nu) ⊕ Fin nu) K :=
  (Y.submatrix (Fin.cast (show (p - ny) + ny = p by omega))
    (Fin.cast (show (m - nu) + nu = m by omega))).submatrix finSumFinEquiv finSumFinEquiv

/-- a run-time matrix partitioned as `lft` slices its lower operand: rows `[:nu] | [nu:]`,
columns `[:ny] | [ny:]`. -/
def splitLower {p m : Nat} (Y : Matrix (Fin p) (Fin m) K) (nu ny : Nat) (hu : nu ≤ p) (hy : ny ≤ m) :
    Matrix (Fin nu ⊕ Fin (p - nu)) (Fin ny ⊕ Fin (m - ny)) K :=
  (Y.submatrix (Fin.cast (show nu + (p - nu) = p by omega))
    (Fin.cast (show ny + (m - ny) = m by omega))).submatrix finSumFinEquiv finSumFinEquiv

/-- the direct term of a square run-time system as a square matrix (the matrix whose determinant
`** -1` tests). -/
def sqD (G : DSS K) (h : G.m = G.p) : Matrix (Fin G.p) (Fin G.p) K :=
  G.sys.D.submatrix id (Fin.cast h.symm)

/-- the loop matrix `I - sign D₂ D₁` the run-time `feedback` tests (`D₂` re-typed along the
dimension equalities). -/
def fbF (G H : DSS K) (h : G.m = H.p ∧ G.p = H.m) (sign : K) : Matrix (Fin G.m) (Fin G.m) K :=
  1 - sign • ((H.sys.castIO h.1.symm h.2.symm).D * G.sys.D)

/-- `nu = -1` / `ny = -1` means the largest admissible value. -/
def lftRes (a b : Nat) (k : Int) : Int := if k = -1 then min (a : Int) (b : Int) else k

end DSS

/-- what an operand is for the dispatch / broadcasting rules. -/
inductive SSKind where
  | sys | scalar | array
  deriving DecidableEq, Repr

/-- the binary operators of the driver's postfix programs. -/
inductive SSOp where
  | add | sub | mul | div | append
  deriving DecidableEq, Repr

/-- the driver's token of a binary operator. -/
def SSOp.name : SSOp → String
  | .add => "add" | .sub => "sub" | .mul => "mul" | .div => "div" | .append => "append"

/-- evaluation errors: `bad` = not a program of the family (the driver prints `bad-op`), `err e` =
the model operator raised `e` (the driver prints `err e`). -/
inductive SSEvalErr where
  | bad
  | err (e : Err)
  deriving DecidableEq, Repr

variable {K : Type} [Field K]

def SOperand.kind : SOperand K → SSKind
  | .sys _ => .sys
  | .scalar _ => .scalar
  | .array _ _ _ => .array

namespace DSS

variable [DecidableEq K]

/-- the dispatch of the binary operators on operands (`Driver.SS.binop`): the left system's
`__op__`, else the right system's `__rop__`; `none` when neither operand is a system (no such
program is generated). -/
def binop (op : SSOp) (a b : SOperand K) : Option (Except Err (SOperand K)) :=
  let wrap (r : Except Err (DSS K)) : Except Err (SOperand K) := r.map SOperand.sys
  match op, a, b with
  | .add, .sys G, x => some (wrap (G.add x))
  | .add, x, .sys G => some (wrap (G.add x))
  | .sub, .sys G, x => some (wrap (G.sub x))
  | .sub, x, .sys G => some (wrap (G.rsub x))
  | .mul, .sys G, x => some (wrap (G.mul x))
  | .mul, x, .sys G => some (wrap (G.rmul x))
  | .div, .sys G, x => some (wrap (G.truediv x))
  | .div, x, .sys G => some (wrap (G.rtruediv x))
  | .append, a, b => some (wrap ((toSys a).append (toSys b)))
  | _, _, _ => none

end DSS

/-- run-time expression trees. -/
inductive SSTree (K : Type) where
  | leaf (x : SOperand K)
  | neg (a : SSTree K)
  | bin (op : SSOp) (a b : SSTree K)
  | pow (a : SSTree K) (k : Int)
  | fb (a b : SSTree K) (sign : K)
  | lft (a b : SSTree K) (nu ny : Int)
  | sel (a : SSTree K) (rows cols : List Nat)

namespace SSTree

/-- the kind of the value of a tree: operators return systems, `neg` keeps the kind. -/
def kind : SSTree K → SSKind
  | .leaf x => x.kind
  | .neg a => kind a
  | _ => .sys

/-- a result of a model operator as an evaluation result. -/
def lift (r : Except Err (DSS K)) : Except SSEvalErr (SOperand K) :=
  match r with
  | .ok G => .ok (.sys G)
  | .error e => .error (.err e)

variable [DecidableEq K]

/-- evaluation by the run-time operators, as the driver's postfix program does it: operands left
to right, the first error ends the run; `pow`, `sel`, and the left operand of `fb` / `lft` must be
systems. -/
def eval : SSTree K → Except SSEvalErr (SOperand K)
  | .leaf x => .ok x
  | .neg a => (eval a).bind fun x => .ok (DSS.SOperand.neg x)
  | .bin op a b => (eval a).bind fun x => (eval b).bind fun y =>
      match DSS.binop op x y with
      | none => .error .bad
      | some (.error e) => .error (.err e)
      | some (.ok r) => .ok r
  | .pow a k => (eval a).bind fun x =>
      match x with
      | .sys G => lift (G.pow k)
      | _ => .error .bad
  | .fb a b sign => (eval a).bind fun x => (eval b).bind fun y =>
      match x with
      | .sys G => lift (G.feedback y sign)
      | _ => .error .bad
  | .lft a b nu ny => (eval a).bind fun x => (eval b).bind fun y =>
      match x with
      | .sys G => lift (G.lft y nu ny)
      | _ => .error .bad
  | .sel a rows cols => (eval a).bind fun x =>
      match x with
      | .sys G => lift (G.select rows cols)
      | _ => .error .bad

/-- **The algebra of transfer matrices with NumPy's broadcasting**: `DSem e s p m Y` — the tree
`e` has the `p × m` value `Y` at the point `s`.  Leaves: `DSS.Resp` / the constant itself.  `+ -
* /` have three rules each: equal (compatible) shapes; a broadcast left operand; a broadcast right
operand — where only Python scalars and SISO *systems* (`kind ≠ array`) are broadcast.  A `1 × 1`
value `y` broadcasts to `bc p m y` under `+ -` and to `y • I` under `* /`.  `feedback`, `** k`,
`lft` as in `Expr.Sem` (`C02Expr.lean`), `lft` on the partition the code slices
(`splitUpper` / `splitLower`), with the `-1` defaults. -/
inductive DSem : SSTree K → K → (p m : Nat) → Matrix (Fin p) (Fin m) K → Prop
  | sys {G : DSS K} {s : K} {p m : Nat} {Y : Matrix (Fin p) (Fin m) K} (h : G.Resp s p m Y) :
      DSem (.leaf (.sys G)) s p m Y
  | scalar (c : K) (s : K) : DSem (.leaf (.scalar c)) s 1 1 (Matrix.of fun _ _ => c)
  | array (p m : Nat) (D : Matrix (Fin p) (Fin m) K) (s : K) : DSem (.leaf (.array p m D)) s p m D
  | neg {a : SSTree K} {s : K} {p m : Nat} {Y : Matrix (Fin p) (Fin m) K} (h : DSem a s p m Y) :
      DSem (.neg a) s p m (-Y)
  | add {a b : SSTree K} {s : K} {p m : Nat} {Y₁ Y₂ : Matrix (Fin p) (Fin m) K}
      (h₁ : DSem a s p m Y₁) (h₂ : DSem b s p m Y₂) : DSem (.bin .add a b) s p m (Y₁ + Y₂)
  | add_bcL {a b : SSTree K} {s : K} {p m : Nat} {y : Matrix (Fin 1) (Fin 1) K}
      {Y₂ : Matrix (Fin p) (Fin m) K} (hk : a.kind ≠ .array)
      (h₁ : DSem a s 1 1 y) (h₂ : DSem b s p m Y₂) : DSem (.bin .add a b) s p m (DSS.bc p m y + Y₂)
  | add_bcR {a b : SSTree K} {s : K} {p m : Nat} {y : Matrix (Fin 1) (Fin 1) K}
      {Y₁ : Matrix (Fin p) (Fin m) K} (hk : b.kind ≠ .array)
      (h₁ : DSem a s p m Y₁) (h₂ : DSem b s 1 1 y) : DSem (.bin .add a b) s p m (Y₁ + DSS.bc p m y)
  | sub {a b : SSTree K} {s : K} {p m : Nat} {Y₁ Y₂ : Matrix (Fin p) (Fin m) K}
      (h₁ : DSem a s p m Y₁) (h₂ : DSem b s p m Y₂) : DSem (.bin .sub a b) s p m (Y₁ - Y₂)
  | sub_bcL {a b : SSTree K} {s : K} {p m : Nat} {y : Matrix (Fin 1) (Fin 1) K}
      {Y₂ : Matrix (Fin p) (Fin m) K} (hk : a.kind ≠ .array)
      (h₁ : DSem a s 1 1 y) (h₂ : DSem b s p m Y₂) : DSem (.bin .sub a b) s p m (DSS.bc p m y - Y₂)
  | sub_bcR {a b : SSTree K} {s : K} {p m : Nat} {y : Matrix (Fin 1) (Fin 1) K}
      {Y₁ : Matrix (Fin p) (Fin m) K} (hk : b.kind ≠ .array)
      (h₁ : DSem a s p m Y₁) (h₂ : DSem b s 1 1 y) : DSem (.bin .sub a b) s p m (Y₁ - DSS.bc p m y)
  | mul {a b : SSTree K} {s : K} {p k m : Nat} {Y₁ : Matrix (Fin p) (Fin k) K}
      {Y₂ : Matrix (Fin k) (Fin m) K}
      (h₁ : DSem a s p k Y₁) (h₂ : DSem b s k m Y₂) : DSem (.bin .mul a b) s p m (Y₁ * Y₂)
  | mul_bcL {a b : SSTree K} {s : K} {p m : Nat} {y : Matrix (Fin 1) (Fin 1) K}
      {Y₂ : Matrix (Fin p) (Fin m) K} (hk : a.kind ≠ .array)
      (h₁ : DSem a s 1 1 y) (h₂ : DSem b s p m Y₂) : DSem (.bin .mul a b) s p m (y 0 0 • Y₂)
  | mul_bcR {a b : SSTree K} {s : K} {p m : Nat} {y : Matrix (Fin 1) (Fin 1) K}
      {Y₁ : Matrix (Fin p) (Fin m) K} (hk : b.kind ≠ .array)
      (h₁ : DSem a s p m Y₁) (h₂ : DSem b s 1 1 y) : DSem (.bin .mul a b) s p m (y 0 0 • Y₁)
  | div {a b : SSTree K} {s : K} {p k : Nat} {Y₁ : Matrix (Fin p) (Fin k) K}
      {Y₂ Y₂' : Matrix (Fin k) (Fin k) K}
      (h₁ : DSem a s p k Y₁) (h₂ : DSem b s k k Y₂) (hY : Y₂ * Y₂' = 1) :
      DSem (.bin .div a b) s p k (Y₁ * Y₂')
  | div_bcL {a b : SSTree K} {s : K} {k : Nat} {y : Matrix (Fin 1) (Fin 1) K}
      {Y₂ Y₂' : Matrix (Fin k) (Fin k) K} (hk : a.kind ≠ .array)
      (h₁ : DSem a s 1 1 y) (h₂ : DSem b s k k Y₂) (hY : Y₂ * Y₂' = 1) :
      DSem (.bin .div a b) s k k (y 0 0 • Y₂')
  | div_bcR {a b : SSTree K} {s : K} {p m : Nat} {y y' : Matrix (Fin 1) (Fin 1) K}
      {Y₁ : Matrix (Fin p) (Fin m) K} (hk : b.kind ≠ .array)
      (h₁ : DSem a s p m Y₁) (h₂ : DSem b s 1 1 y) (hY : y * y' = 1) :
      DSem (.bin .div a b) s p m (y' 0 0 • Y₁)
  | append {a b : SSTree K} {s : K} {p m p' m' : Nat} {Y : Matrix (Fin p) (Fin m) K}
      {Y' : Matrix (Fin p') (Fin m') K} (h₁ : DSem a s p m Y) (h₂ : DSem b s p' m' Y') :
      DSem (.bin .append a b) s (p + p') (m + m') (DSS.bdiag Y Y')
  | pow {a : SSTree K} {s : K} {n : Nat} {Y : Matrix (Fin n) (Fin n) K} (h : DSem a s n n Y)
      (k : Int) (hk : 0 ≤ k ∨ IsUnit Y.det) : DSem (.pow a k) s n n (Y ^ k)
  | fb {a b : SSTree K} {sign s : K} {p m : Nat} {Y₁ : Matrix (Fin p) (Fin m) K}
      {Y₂ : Matrix (Fin m) (Fin p) K} (h₁ : DSem a s p m Y₁) (h₂ : DSem b s m p Y₂)
      (N : Matrix (Fin m) (Fin m) K) (hN : (1 - sign • (Y₂ * Y₁)) * N = 1) :
      DSem (.fb a b sign) s p m (Y₁ * N)
  | lft {a b : SSTree K} {s : K} {p m p' m' : Nat} {Y : Matrix (Fin p) (Fin m) K}
      {Yb : Matrix (Fin p') (Fin m') K} (h₁ : DSem a s p m Y) (h₂ : DSem b s p' m' Yb)
      (nu ny : Int) (nuN nyN : Nat) (hnu : DSS.lftRes p' m nu = nuN) (hny : DSS.lftRes m' p ny = nyN)
      (hu : nuN ≤ m) (hu' : nuN ≤ p') (hy : nyN ≤ p) (hy' : nyN ≤ m')
      (N : Matrix (Fin nyN) (Fin nyN) K)
      (hN : (1 - (DSS.splitUpper Y nuN nyN hu hy).toBlocks₂₂
                * (DSS.splitLower Yb nuN nyN hu' hy').toBlocks₁₁) * N = 1) :
      DSem (.lft a b nu ny) s ((p - nyN) + (p' - nuN)) ((m - nuN) + (m' - nyN))
        (DSS.flatMat (Expr.lftMat (DSS.splitUpper Y nuN nyN hu hy)
          (DSS.splitLower Yb nuN nyN hu' hy') N))
  | sel {a : SSTree K} {s : K} {p m : Nat} {Y : Matrix (Fin p) (Fin m) K} (h : DSem a s p m Y)
      (rows cols : List Nat) (hr : ∀ r ∈ rows, r < p) (hc : ∀ c ∈ cols, c < m) :
      DSem (.sel a rows cols) s rows.length cols.length
        (Y.submatrix (fun i : Fin rows.length => ⟨rows[i], hr _ (List.getElem_mem _)⟩)
          (fun j : Fin cols.length => ⟨cols[j], hc _ (List.getElem_mem _)⟩))

end SSTree

/-! ### shapes: states / outputs / inputs predicted from the leaves -/

/-- kind, number of states, outputs, inputs of an operand. -/
structure SSShape where
  kind : SSKind
  n : Nat
  p : Nat
  m : Nat
  deriving DecidableEq, Repr

def SOperand.shape (x : SOperand K) : SSShape :=
  ⟨x.kind, (DSS.toSys x).n, (DSS.toSys x).p, (DSS.toSys x).m⟩

namespace SSShape

def siso (a : SSShape) : Bool := a.p == 1 && a.m == 1

/-- the shape of `g + x`, `x + g`, `g - x`, `x - g` for a system `g`: the states add up, a SISO
system broadcast against a `p × m` operand contributes its states once per column. -/
def add (g x : SSShape) : SSShape :=
  match x.kind with
  | .sys => ⟨.sys, (if g.siso && !x.siso then x.m * g.n else g.n)
                  + (if !g.siso && x.siso then g.m * x.n else x.n),
             if g.siso && !x.siso then x.p else g.p, if g.siso && !x.siso then x.m else g.m⟩
  | .scalar => ⟨.sys, g.n, g.p, g.m⟩
  | .array => ⟨.sys, if g.siso then x.m * g.n else g.n, x.p, x.m⟩

/-- the shape of `g * x` (and of `g / x`: the inverse has the shape of `x`) for a system `g`: a
SISO factor is broadcast to one copy per channel of the other factor. -/
def mulL (g x : SSShape) : SSShape :=
  match x.kind with
  | .sys => ⟨.sys, (if !g.siso && x.siso then g.m * x.n else x.n)
                  + (if g.siso && !x.siso then x.p * g.n else g.n),
             if g.siso && !x.siso then x.p else g.p, if !g.siso && x.siso then g.m else x.m⟩
  | .scalar => ⟨.sys, g.n, g.p, g.m⟩
  | .array => ⟨.sys, if g.siso then x.p * g.n else g.n, if g.siso then x.p else g.p, x.m⟩

/-- the shape of `x * g` (and of `x / g`) for a system `g` and a scalar / array `x`. -/
def mulR (g x : SSShape) : SSShape :=
  match x.kind with
  | .sys => mulL x g
  | .scalar => ⟨.sys, g.n, g.p, g.m⟩
  | .array => ⟨.sys, if g.siso then x.m * g.n else g.n, x.p, if g.siso then x.m else g.m⟩

def append (a b : SSShape) : SSShape := ⟨.sys, a.n + b.n, a.p + b.p, a.m + b.m⟩

/-- the shape of `a op b` with the dispatch of `DSS.binop`. -/
def binop (op : SSOp) (a b : SSShape) : SSShape :=
  match op, a.kind with
  | .add, .sys => add a b
  | .add, _ => add b a
  | .sub, .sys => add a b
  | .sub, _ => add b a
  | .mul, .sys => mulL a b
  | .mul, _ => mulR b a
  | .div, .sys => mulL a b
  | .div, _ => mulR b a
  | .append, _ => append a b

end SSShape

namespace SSTree

/-- **the shape a tree must evaluate to**, computed from the shapes of the leaves only: the
number of states is the sum of the leaves' states (a SISO operand that is broadcast counted once
per channel, `a ** k` counted `|k|` times). -/
def shape : SSTree K → SSShape
  | .leaf x => x.shape
  | .neg a => shape a
  | .bin op a b => SSShape.binop op (shape a) (shape b)
  | .pow a k => ⟨.sys, k.natAbs * (shape a).n, (shape a).p, (shape a).m⟩
  | .fb a b _ => ⟨.sys, (shape a).n + (shape b).n, (shape a).p, (shape a).m⟩
  | .lft a b nu ny =>
    let nu' := (DSS.lftRes (shape b).p (shape a).m nu).toNat
    let ny' := (DSS.lftRes (shape b).m (shape a).p ny).toNat
    ⟨.sys, (shape a).n + (shape b).n, ((shape a).p - ny') + ((shape b).p - nu'),
      ((shape a).m - nu') + ((shape b).m - ny')⟩
  | .sel a rows cols => ⟨.sys, (shape a).n, rows.length, cols.length⟩

end SSTree

end CtrlVerif
