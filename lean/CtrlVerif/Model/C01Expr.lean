/-
Expression trees over transfer-function matrices (DESIGN §3.5, property C01).

`TExpr K o ι` is the type of finite expression trees whose value is an `o × ι` transfer matrix.
The tree type is indexed by the (finite) output and input index types, so that incompatible
shapes are excluded by typing: `mul : TExpr K o (Fin n) → TExpr K (Fin n) ι → TExpr K o ι`,
`append : TExpr K o ι → TExpr K o₂ ι₂ → TExpr K (o ⊕ o₂) (ι ⊕ ι₂)`, …  (the run-time shape
checks and the SISO-promotion *dispatch* live in `Model/TFDyn.lean`; the promotions themselves
— `diag`, multiplication by a ones matrix — are nodes / derived forms here).

Two interpretations:

* `TExpr.evalModel : TExpr K o ι → Except Err (TFM o ι K)` uses exactly the typed model
  operators of `Model/TF.lean` (every one of them is "raw coefficient arithmetic, then the
  constructor `TFM.mk'`"); it is executable.
* `TExpr.evalSem : TExpr K o ι → Option (Matrix o ι (RatFunc K))` is the algebra of rational
  matrices; `none` exactly where the mathematical result does not exist (a zero denominator in
  a constructor call, division by the zero function, `1 - sign * H * G` identically zero).

The tree theorems (`tree_sound`, `tree_error`, …) are in `Props/C01.lean`.
-/
import CtrlVerif.Lemmas.TF
import Mathlib.Data.Matrix.ColumnRowPartitioned

namespace CtrlVerif

open Matrix

section typedops
variable {K : Type*} [Field K] [DecidableEq K]
variable {o ι ι₂ o₂ : Type*}

/-- one block row of `combine_tf` (typed form of `DTF.hcat`): `[G H]`, then the constructor. -/
def TFM.hcat [Fintype o] [Fintype ι] [Fintype ι₂] (G : TFM o ι K) (H : TFM o ι₂ K) :
    Except Err (TFM o (ι ⊕ ι₂) K) :=
  TFM.mk' fun i j => match j with
    | .inl j => G.e i j
    | .inr j => H.e i j

/-- stacking of block rows of `combine_tf` (typed form of `DTF.vcat`). -/
def TFM.vcat [Fintype o] [Fintype o₂] [Fintype ι] (G : TFM o ι K) (H : TFM o₂ ι K) :
    Except Err (TFM (o ⊕ o₂) ι K) :=
  TFM.mk' fun i j => match i with
    | .inl i => G.e i j
    | .inr i => H.e i j

/-- `self ** (k + 1)` for a square system by the recursion of `__pow__`
(`self * self ** (other - 1)`, bottoming out at `self ** 0 = TransferFunction([1], [1])`, a SISO
system which `__mul__` broadcasts to `n` copies on the diagonal): typed form of `DTF.powNat`. -/
def TFM.powSucc {n : Nat} (G : TFM (Fin n) (Fin n) K) : Nat → Except Err (TFM (Fin n) (Fin n) K)
  | 0 => G.mul (TFM.diag Frac.one n)
  | k + 1 => do
    let r ← TFM.powSucc G k
    G.mul r

end typedops

/-- finite expression trees over transfer-function matrices, indexed by the shape. -/
inductive TExpr (K : Type) [Field K] [DecidableEq K] : Type → Type → Type 1 where
  /-- a transfer-function object that exists (class invariant `WF`: no zero denominator). -/
  | sys {o ι : Type} (G : TFM o ι K) (hG : G.WF) : TExpr K o ι
  /-- a constructor call `TransferFunction(num, den)` on raw coefficient arrays. -/
  | ctor {o ι : Type} [Fintype o] [Fintype ι] (raw : o → ι → Frac K) : TExpr K o ι
  /-- a constant matrix operand (`_convert_to_transfer_function(ndarray)`); scalar operands are
  the constant matrices `TExpr.scalar`, `TExpr.scaledEye`, `TExpr.full` below. -/
  | const {o ι : Type} (D : o → ι → K) : TExpr K o ι
  | neg {o ι : Type} [Fintype o] [Fintype ι] (a : TExpr K o ι) : TExpr K o ι
  | add {o ι : Type} [Fintype o] [Fintype ι] (a b : TExpr K o ι) : TExpr K o ι
  | sub {o ι : Type} [Fintype o] [Fintype ι] (a b : TExpr K o ι) : TExpr K o ι
  /-- matrix product; the inner dimension matches by typing. -/
  | mul {o ι : Type} [Fintype o] [Fintype ι] {n : Nat}
      (a : TExpr K o (Fin n)) (b : TExpr K (Fin n) ι) : TExpr K o ι
  /-- SISO broadcast of `*` and `/`: `append(*[g] * n)`. -/
  | diag (n : Nat) (g : TExpr K (Fin 1) (Fin 1)) : TExpr K (Fin n) (Fin n)
  /-- `a ** (k + 1)` (square). -/
  | powSucc {n : Nat} (a : TExpr K (Fin n) (Fin n)) (k : Nat) : TExpr K (Fin n) (Fin n)
  /-- SISO `a / b`. -/
  | div (a b : TExpr K (Fin 1) (Fin 1)) : TExpr K (Fin 1) (Fin 1)
  /-- SISO `a.feedback(b, sign)`. -/
  | fb (a b : TExpr K (Fin 1) (Fin 1)) (sign : K) : TExpr K (Fin 1) (Fin 1)
  /-- block diagonal. -/
  | append {o ι o₂ ι₂ : Type} (a : TExpr K o ι) (b : TExpr K o₂ ι₂) : TExpr K (o ⊕ o₂) (ι ⊕ ι₂)
  /-- `[a b]` (`combine_tf`, one block row). -/
  | hcat {o ι ι₂ : Type} [Fintype o] [Fintype ι] [Fintype ι₂]
      (a : TExpr K o ι) (b : TExpr K o ι₂) : TExpr K o (ι ⊕ ι₂)
  /-- `[a; b]` (`combine_tf`, stacking block rows). -/
  | vcat {o o₂ ι : Type} [Fintype o] [Fintype o₂] [Fintype ι]
      (a : TExpr K o ι) (b : TExpr K o₂ ι) : TExpr K (o ⊕ o₂) ι
  /-- indexing / `split_tf` / flattening of block index types (`Fin a ⊕ Fin b ≃ Fin (a + b)`). -/
  | reindex {o ι o' ι' : Type} [Fintype o'] [Fintype ι']
      (a : TExpr K o ι) (r : o' → o) (c : ι' → ι) : TExpr K o' ι'

namespace TExpr

variable {K : Type} [Field K] [DecidableEq K]

/-- interpretation by the model operators of `Model/TF.lean`. -/
def evalModel : {o ι : Type} → TExpr K o ι → Except Err (TFM o ι K)
  | _, _, sys G _ => .ok G
  | _, _, ctor raw => TFM.mk' raw
  | _, _, const D => .ok (TFM.ofConst D)
  | _, _, neg a => do let x ← evalModel a; x.neg
  | _, _, add a b => do let x ← evalModel a; let y ← evalModel b; x.add y
  | _, _, sub a b => do let x ← evalModel a; let y ← evalModel b; x.sub y
  | _, _, mul a b => do let x ← evalModel a; let y ← evalModel b; x.mul y
  | _, _, diag n g => do let x ← evalModel g; pure (TFM.diag (x.e 0 0) n)
  | _, _, powSucc a k => do let x ← evalModel a; x.powSucc k
  | _, _, div a b => do let x ← evalModel a; let y ← evalModel b; x.truedivSiso y
  | _, _, fb a b s => do let x ← evalModel a; let y ← evalModel b; x.feedbackSiso y s
  | _, _, append a b => do let x ← evalModel a; let y ← evalModel b; pure (x.append y)
  | _, _, hcat a b => do let x ← evalModel a; let y ← evalModel b; x.hcat y
  | _, _, vcat a b => do let x ← evalModel a; let y ← evalModel b; x.vcat y
  | _, _, reindex a r c => do let x ← evalModel a; x.reindex r c

/-- interpretation in the algebra of matrices of rational functions; `none` where the
mathematical result does not exist. -/
noncomputable def evalSem : {o ι : Type} → TExpr K o ι → Option (Matrix o ι (RatFunc K))
  | _, _, sys G _ => some G.sem
  | _, _, ctor raw =>
    haveI := Classical.dec (∃ i j, toPoly (raw i j).den = 0)
    if ∃ i j, toPoly (raw i j).den = 0 then none else some (Matrix.of fun i j => (raw i j).sem)
  | _, _, const D => some (Matrix.of fun i j => RatFunc.C (D i j))
  | _, _, neg a => (evalSem a).map fun x => -x
  | _, _, add a b => do let x ← evalSem a; let y ← evalSem b; pure (x + y)
  | _, _, sub a b => do let x ← evalSem a; let y ← evalSem b; pure (x - y)
  | _, _, mul a b => do let x ← evalSem a; let y ← evalSem b; pure (x * y)
  | _, _, diag n g => (evalSem g).map fun x => x 0 0 • (1 : Matrix (Fin n) (Fin n) (RatFunc K))
  | _, _, powSucc a k => (evalSem a).map fun x => x ^ (k + 1)
  | _, _, div a b => do
    let x ← evalSem a
    let y ← evalSem b
    haveI := Classical.dec (y 0 0 = 0)
    if y 0 0 = 0 then none else some (Matrix.of fun _ _ => x 0 0 / y 0 0)
  | _, _, fb a b s => do
    let x ← evalSem a
    let y ← evalSem b
    haveI := Classical.dec (1 - RatFunc.C s * y 0 0 * x 0 0 = 0)
    if 1 - RatFunc.C s * y 0 0 * x 0 0 = 0 then none
    else some (Matrix.of fun _ _ => x 0 0 / (1 - RatFunc.C s * y 0 0 * x 0 0))
  | _, _, append a b => do let x ← evalSem a; let y ← evalSem b; pure (Matrix.fromBlocks x 0 0 y)
  | _, _, hcat a b => do let x ← evalSem a; let y ← evalSem b; pure (Matrix.fromCols x y)
  | _, _, vcat a b => do let x ← evalSem a; let y ← evalSem b; pure (Matrix.fromRows x y)
  | _, _, reindex a r c => (evalSem a).map fun x => x.submatrix r c

/-! ### operand conversions and SISO promotion as the code performs them (derived forms)

`_convert_to_transfer_function` turns a scalar into a constant matrix whose shape depends on the
operator; a SISO operand of `*`, `/` is replaced by `n` copies on the diagonal, a SISO operand of
`+`, `-` by `np.ones((p, m)) * g`.  Each is a tree over the nodes above. -/

/-- a scalar as a `1 × 1` system (`sys / c`, `feedback(sys, c)`, SISO `sys * c`). -/
def scalar (c : K) : TExpr K (Fin 1) (Fin 1) := const fun _ _ => c

/-- `np.eye(n) * c` (`sys * c`, `c * sys`). -/
def scaledEye (c : K) (n : Nat) : TExpr K (Fin n) (Fin n) :=
  const fun i j => if i = j then c else 0

/-- a scalar broadcast to a full `o × ι` matrix (`sys + c`, `sys - c`). -/
def full (o ι : Type) (c : K) : TExpr K o ι := const fun _ _ => c

/-- `TransferFunction([1], [1])`. -/
def unity : TExpr K (Fin 1) (Fin 1) := ctor fun _ _ => Frac.one

/-- `c * a` (`__rmul__` with a scalar). -/
def smulL {n : Nat} {ι : Type} [Fintype ι] (c : K) (a : TExpr K (Fin n) ι) : TExpr K (Fin n) ι :=
  mul (scaledEye c n) a

/-- `a * c` (`__mul__` with a scalar). -/
def smulR {o : Type} [Fintype o] {n : Nat} (a : TExpr K o (Fin n)) (c : K) : TExpr K o (Fin n) :=
  mul a (scaledEye c n)

/-- `a + c`. -/
def addScalar {o ι : Type} [Fintype o] [Fintype ι] (a : TExpr K o ι) (c : K) : TExpr K o ι :=
  add a (full o ι c)

/-- `a - c` (`a + (-c)`; Python negates the scalar before dispatch). -/
def subScalar {o ι : Type} [Fintype o] [Fintype ι] (a : TExpr K o ι) (c : K) : TExpr K o ι :=
  add a (full o ι (-c))

/-- `g * a` for a SISO `g` and an `n × ι` system `a`. -/
def mulSisoL {n : Nat} {ι : Type} [Fintype ι] (g : TExpr K (Fin 1) (Fin 1))
    (a : TExpr K (Fin n) ι) : TExpr K (Fin n) ι :=
  mul (diag n g) a

/-- `a * g` for a SISO `g`. -/
def mulSisoR {o : Type} [Fintype o] {n : Nat} (a : TExpr K o (Fin n))
    (g : TExpr K (Fin 1) (Fin 1)) : TExpr K o (Fin n) :=
  mul a (diag n g)

/-- `np.ones((p, m)) * g`: the SISO operand of `+` broadcast to `p × m` (`DTF.onesTimes`). -/
def onesTimes (p m : Nat) (g : TExpr K (Fin 1) (Fin 1)) : TExpr K (Fin p) (Fin m) :=
  mul (full (Fin p) (Fin m) 1) (diag m g)

/-- `a + g` for a SISO `g` and a `p × m` system `a`. -/
def addSisoR {p m : Nat} (a : TExpr K (Fin p) (Fin m)) (g : TExpr K (Fin 1) (Fin 1)) :
    TExpr K (Fin p) (Fin m) :=
  add a (onesTimes p m g)

/-- `1 / h` (`TransferFunction([1], [1]) / h`). -/
def recip (h : TExpr K (Fin 1) (Fin 1)) : TExpr K (Fin 1) (Fin 1) := div unity h

/-- `a / c` for a SISO `a` and a scalar `c`. -/
def divScalar (a : TExpr K (Fin 1) (Fin 1)) (c : K) : TExpr K (Fin 1) (Fin 1) := div a (scalar c)

/-- `h ** (-k)` for SISO `h` by the recursion of `__pow__`
(`(1 / self) * self ** (other + 1)`, `self ** 0 = 1`): tree form of `DTF.powNegNat`. -/
def powNeg (h : TExpr K (Fin 1) (Fin 1)) : Nat → TExpr K (Fin 1) (Fin 1)
  | 0 => unity
  | k + 1 => mul (recip h) (powNeg h k)

/-- `a / h` for a MIMO `a` and a SISO `h`: `a * append(*[h ** -1] * a.ninputs)`. -/
def divSisoR {o : Type} [Fintype o] {n : Nat} (a : TExpr K o (Fin n))
    (h : TExpr K (Fin 1) (Fin 1)) : TExpr K o (Fin n) :=
  mulSisoR a (powNeg h 1)

/-- `TransferFunction.append` of the run-time layer: block diagonal, then the block index types
are flattened (`DTF.append`). -/
def appendFlat {p m p₂ m₂ : Nat} (a : TExpr K (Fin p) (Fin m)) (b : TExpr K (Fin p₂) (Fin m₂)) :
    TExpr K (Fin (p + p₂)) (Fin (m + m₂)) :=
  reindex (append a b) finSumFinEquiv.symm finSumFinEquiv.symm

end TExpr

end CtrlVerif
