/-
Error enumeration shared by all models.  The harness maps Python exception classes onto it.
-/
namespace CtrlVerif

inductive Err where
  | shape           -- incompatible dimensions (ValueError / ControlDimension)
  | zeroDen         -- zero denominator / division by the zero function (ValueError)
  | illPosed        -- singular feedback loop / non-invertible direct term
  | timebase        -- incompatible timebases (ValueError)
  | notImplemented  -- NotImplemented / ControlMIMONotImplemented / TypeError from dispatch
  | badArg          -- argument validation (ValueError / TypeError)
  | indexRange      -- IndexError / out-of-range index
  | unknownName     -- unknown system or signal name
  | nonProper       -- non-proper transfer function to state space
  | missing         -- frequency not stored
  deriving DecidableEq, Repr, Inhabited

def Err.toString : Err → String
  | .shape => "shape" | .zeroDen => "zeroDen" | .illPosed => "illPosed"
  | .timebase => "timebase" | .notImplemented => "notImplemented" | .badArg => "badArg"
  | .indexRange => "indexRange" | .unknownName => "unknownName" | .nonProper => "nonProper"
  | .missing => "missing"

instance : ToString Err := ⟨Err.toString⟩

end CtrlVerif
