/-
Primitives of the source-text tie of `control/statesp.py:_ssmatrix` (harness/core/py2lean_ssmat.py),
on the abstract `ndarray` of `Model/PyCCA.lean`.  Hand-written, part of the trusted base.

  `np.array(data, dtype=float)`   ↦ `arrayFloat data`   (a new array, dtype kind `f`; the caller's object
                                                          is never the result — aliasing is C19's concern)
  `shape[k]`                      ↦ `item shape k`      (`IndexError` outside the tuple)
  `square` as a condition         ↦ `truthy square`     (`None` and `False` are falsy)
  `rows is not None`              ↦ `rows.isSome`
  `arr.reshape(shape)`            ↦ `PyCCA.reshape arr shape`
-/
import CtrlVerif.Model.PyCCA

namespace CtrlVerif.PySS

open PyCCA

variable {α : Type}

def arrayFloat (a : Arr α) : Arr α := { a with kind := Kind.f }

def item (sh : List Nat) (k : Nat) : Except Err Nat :=
  match sh[k]? with
  | some v => .ok v
  | none => .error .indexRange

def truthy (b : Option Bool) : Bool := b == some true

end CtrlVerif.PySS
