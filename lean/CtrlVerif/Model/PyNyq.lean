/-
Meaning of the NumPy / Python primitives that `harness/core/py2lean_nyq.py` emits when it translates
`control.ctrlutil.unwrap` and the statements of `control.freqplot.nyquist_response` that compute the
encirclement count, the indentation side and the `P` / `Z` conventions.  Hand-written, part of the
trusted base of the source-text tie of C13 (DESIGN §10.3, notes/NOTES-py2lean-unwrap.md).

Value model: a Python `float` / NumPy float64 is an element of an arbitrary linearly ordered field `K`
with a floor function, EXACT arithmetic (rounding, `nan`, `inf` are not modelled); a 1-D float array
is a `List K`; a complex number is the pair `(re, im) : K × K`, a 1-D complex array a `List (K × K)`;
a boolean array is a `List Bool`; a Python `str` is a `String`.  Arrays are values: the translator
itself refuses an in-place update of an array that may alias an argument.
Every partial operation is partial (`Except Err`): a zero divisor of `/` or `%` (Python `float`:
`ZeroDivisionError`; NumPy: `inf` / `nan` + a warning — "not a number of the field" either way),
operands whose shapes do not broadcast.

Array ∘ scalar operations are emitted directly as `List.map (fun x => x ∘ c)`; `np.sum` as `List.sum`;
`/` between scalars as `PyArith.div` (as `/` of the field when the divisor is a non-zero literal).
-/
import Mathlib.Algebra.Order.Floor.Ring
import Mathlib.Algebra.Order.Field.Basic
import CtrlVerif.Model.PyArith

namespace CtrlVerif.PyNyq

section arrays
variable {K : Type} [Field K]

/-- `np.array(x, dtype=float)`: a NEW 1-D float array holding the values of `x`. -/
def arrayCopy (xs : List K) : List K := xs

/-- `np.diff(a)` of a 1-D array, by NumPy's own definition `a[1:] - a[:-1]`. -/
def diff (xs : List K) : List K := List.zipWith (fun b a => b - a) xs.tail xs.dropLast

/-- `np.cumsum(a)` of a 1-D array: the running sums `a[0], a[0]+a[1], …`. -/
def cumsum (xs : List K) : List K := (List.scanl (fun acc x => acc + x) 0 xs).tail

/-- `a ∘ b` for two 1-D arrays with NumPy broadcasting: equal lengths elementwise, a length-1
operand is stretched, anything else is `ValueError: operands could not be broadcast together`. -/
def zipB (f : K → K → K) (xs ys : List K) : Except Err (List K) :=
  if xs.length = ys.length then .ok (List.zipWith f xs ys)
  else match xs, ys with
    | [a], _ => .ok (ys.map fun y => f a y)
    | _, [b] => .ok (xs.map fun x => f x b)
    | _, _ => .error .shape

/-- `a[k:] += c` (`k ≥ 0` a literal) on a 1-D array `a`, returning the updated array: `c` must have
the length of `a[k:]` or length 1 (the *target* is never stretched: `non-broadcastable output`). -/
def iaddFrom (k : Nat) (xs c : List K) : Except Err (List K) :=
  if c.length = (xs.drop k).length then .ok (xs.take k ++ List.zipWith (fun x y => x + y) (xs.drop k) c)
  else match c with
    | [b] => .ok (xs.take k ++ (xs.drop k).map fun x => x + b)
    | _ => .error .shape

/-- `z + c` for a complex array `z` and a real scalar `c`. -/
def caddS (zs : List (K × K)) (c : K) : List (K × K) := zs.map fun z => (z.1 + c, z.2)

/-- `z.real` of a complex array. -/
def real (zs : List (K × K)) : List K := zs.map Prod.fst

/-- `z1 - z2` of two complex scalars. -/
def csub (a b : K × K) : K × K := (a.1 - b.1, a.2 - b.2)

/-- `z += c`, `z -= c` for a complex scalar `z` (an element of a complex array) and a real scalar `c`. -/
def caddR (z : K × K) (c : K) : K × K := (z.1 + c, z.2)
def csubR (z : K × K) (c : K) : K × K := (z.1 - c, z.2)

/-- `(b).sum()` of a boolean array: the number of `True` entries. -/
def countTrue (bs : List Bool) : Int := (bs.count true : Nat)

end arrays

section ordered
variable {K : Type} [Field K] [LinearOrder K]

/-- `a > c`, `a >= c` for a real array and a real scalar (boolean arrays). -/
def gtS (xs : List K) (c : K) : List Bool := xs.map fun x => decide (c < x)
def geS (xs : List K) (c : K) : List Bool := xs.map fun x => decide (c ≤ x)

/-- `np.abs(z) > c`, `np.abs(z) >= c` for a complex array `z` and a NON-NEGATIVE real literal `c`
(the translator emits these only for such a literal): `|z| > c ⇔ re² + im² > c²`. -/
def absGtS (zs : List (K × K)) (c : K) : List Bool := zs.map fun z => decide (c * c < z.1 * z.1 + z.2 * z.2)
def absGeS (zs : List (K × K)) (c : K) : List Bool := zs.map fun z => decide (c * c ≤ z.1 * z.1 + z.2 * z.2)

/-- `abs(z) < r` for a complex scalar `z` and a real scalar `r` of either sign (`|z| ≥ 0`). -/
def absLt (z : K × K) (r : K) : Prop := 0 < r ∧ z.1 * z.1 + z.2 * z.2 < r * r

instance (z : K × K) (r : K) : Decidable (absLt z r) := by unfold absLt; infer_instance

/-- squared modulus (moduli are compared through their squares). -/
def dist2 (z : K × K) : K := z.1 * z.1 + z.2 * z.2

/-- `ps[(np.abs(ps - s)).argmin()]`: the FIRST entry of `ps` at minimal distance from `s` — a scan from
the left that replaces the best entry only by a strictly nearer one (`argmin` returns the first
occurrence of the minimum); `argmin` of an empty array is a `ValueError`. -/
def nearestTo (ps : List (K × K)) (s : K × K) : Except Err (K × K) :=
  match ps with
  | [] => .error .badArg
  | p :: t => .ok (t.foldl (fun best q => if dist2 (csub q s) < dist2 (csub best s) then q else best) p)

end ordered

section floor
variable {K : Type} [Field K] [LinearOrder K] [IsStrictOrderedRing K] [FloorRing K]

/-- Python / NumPy float `x % p`: `x - p·floor(x/p)` — the result has the sign of the divisor
(`0 ≤ r < p` for `p > 0`, `p < r ≤ 0` for `p < 0`); a zero divisor is an error. -/
def fmod (x p : K) : Except Err K :=
  if p = 0 then .error .zeroDen else .ok (x - p * ((⌊x / p⌋ : ℤ) : K))

/-- `a % p` for a 1-D array `a` and a scalar `p` (an empty array never divides). -/
def modS (xs : List K) (p : K) : Except Err (List K) := xs.mapM fun x => fmod x p

/-- the integer nearest to `x`, halfway cases to the even neighbour (`np.round`, `np.rint`). -/
def rint (x : K) : ℤ :=
  let lo : ℤ := ⌊x⌋
  let hi : ℤ := ⌈x⌉
  if x - (lo : K) < (hi : K) - x then lo
  else if (hi : K) - x < x - (lo : K) then hi
  else if lo % 2 = 0 then lo else hi

/-- `np.round(x, 0)` (also `np.round(x)`): a float with an integral value. -/
def round0 (x : K) : K := ((rint x : ℤ) : K)

/-- `int(x)` of a float: truncation towards zero. -/
def toInt (x : K) : ℤ := if 0 ≤ x then ⌊x⌋ else ⌈x⌉

end floor

end CtrlVerif.PyNyq
