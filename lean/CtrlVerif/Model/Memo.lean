/-
The "last call" cache of a problem object that is called several times
(`OptimalControlProblem._compute_states_inputs` in control/optimal.py):

    if np.array_equal(coeffs, self.last_coeffs) and np.array_equal(self.x, self.last_x):
        states = self.last_states
    else:
        states = self._simulate_states(self.x, inputs)
        self.last_x, self.last_states, self.last_coeffs = self.x, states, coeffs

The *key* of an evaluation is everything the computed value depends on (here the coefficient vector
and the initial state of the present call); `same` is the test the code makes to decide that the
stored value belongs to the present key.  Core Lean only.
-/
namespace CtrlVerif.Memo

variable {κ α : Type}

/-- what the object keeps between calls: the key and the value of the last computation -/
structure Cache (κ α : Type) where
  last : Option (κ × α)

/-- a freshly built object -/
def Cache.empty : Cache κ α := ⟨none⟩

/-- one evaluation through the cache: returned value and new cache -/
def call (same : κ → κ → Bool) (f : κ → α) (c : Cache κ α) (k : κ) : α × Cache κ α :=
  match c.last with
  | some (k', v) => if same k' k then (v, c) else (f k, ⟨some (k, f k)⟩)
  | none => (f k, ⟨some (k, f k)⟩)

/-- the cache after a history of evaluations -/
def run (same : κ → κ → Bool) (f : κ → α) : Cache κ α → List κ → Cache κ α
  | c, [] => c
  | c, k :: ks => run same f (call same f c k).2 ks

/-- the stored value is the value of the stored key -/
def Sound (f : κ → α) (c : Cache κ α) : Prop := ∀ k v, c.last = some (k, v) → v = f k

end CtrlVerif.Memo
