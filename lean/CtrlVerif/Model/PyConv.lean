/-
Meaning of the Python / NumPy / python-control primitives that `harness/core/py2lean_conv.py`
emits when it translates the CONVERSION functions between the LTI representations
(control/statesp.py `_convert_to_statespace`, `ssdata`; control/xferfcn.py
`_convert_to_transfer_function`, `tfdata`) into Lean (`Generated/Conv*.lean`).
Hand-written, small, and — together with the translator — the trusted base of the source-text
tie of property C03 (notes/NOTES-py2lean-convert.md); everything else about the generated
functions is proved (`Props/C03Gen*.lean`).

Value model.
* a `StateSpace` / `TransferFunction` OBJECT is the model's run-time system (`DSS K` / `DTF K`:
  sizes, matrices or coefficient arrays, timebase) together with its names (`Convert.Meta`: system
  name, input labels, output labels) — `SSObj`, `TFObj`;
* an argument of unknown class is an `Opd K`, one constructor per class the functions test with
  `isinstance`: `StateSpace`, `TransferFunction`, `FrequencyResponseData`, a Python / NumPy number,
  an array_like whose `np.atleast_2d` / `np.array(…, ndmin=2)` is a 2-D numeric array, and anything
  else (`foreign`: the array conversion raises);
* sizes (`len`, `noutputs`, `ninputs`, `nstates`, loop indices) are `Nat`; Python floats are exact
  field elements (rounding is not modelled); coefficient arrays are `List K` (highest power first);
  `sys.num` / `sys.den` and the nested lists the functions build are `List (List (List K))` (rows =
  outputs); 2-D numeric arrays are `PMat K` (`Model/PyMat.lean`);
* `np.empty(shape)` is an array whose entries are UNINITIALISED (`none`) until assigned; handing an
  array with an uninitialised entry to a constructor is an error (the real value is unspecified);
* every partial operation is partial (`Except Err`): `max` of an empty sequence, an index out of
  range, a zero divisor (NumPy: `inf` / `nan`, outside the exact model), a ragged or empty nested
  list given to `TransferFunction`, …;
* Slycot is ABSENT (the model's standing assumption, DESIGN §7/C03): `slycot_check()` is `False`,
  `from slycot import …` raises `ImportError`;
* the configured name affixes are the defaults (`iosys.converted_system_name_prefix = ''`,
  `…_suffix = '$converted'`, `iosys.sampled_system_name_suffix = '$sampled'`), and
  `statesp.remove_useless_states` is `False` (its effect is modelled and proved separately,
  `Model/ConvertRus.lean`).

`scipy.signal.tf2ss / ss2tf` are NOT defined here: they are parameters of the generated
functions (instantiated in `Props/C03Gen*.lean` with the model's exact counterparts).
-/
import CtrlVerif.Model.Convert
import CtrlVerif.Model.PyMat

namespace CtrlVerif.PyConv

open CtrlVerif CtrlVerif.Convert

variable {K : Type} [Field K] [DecidableEq K]

/-! ## objects and the `isinstance` dispatch -/

/-- a `StateSpace` object. -/
structure SSObj (K : Type) where
  sys : DSS K
  names : Meta

/-- a `TransferFunction` object. -/
structure TFObj (K : Type) where
  sys : DTF K
  names : Meta

/-- an argument of unknown class. -/
inductive Opd (K : Type) where
  | ss (x : SSObj K)
  | tf (x : TFObj K)
  | frd
  | scalar (c : K)
  | array (D : PMat K)
  | foreign

/-! ## Python built-ins on lists and numbers -/

/-- Python's `>` on two lists, given `>` on the items: the first position where the items differ
decides; if there is none the longer list is the greater. -/
def listGt {α : Type} [DecidableEq α] (gt : α → α → Bool) : List α → List α → Bool
  | [], _ => false
  | _ :: _, [] => true
  | a :: as, b :: bs => if a = b then listGt gt as bs else gt a b

/-- `>` on ints that are sizes. -/
def natGt (a b : Nat) : Bool := decide (a > b)

/-- `numpy.any(b)` of a single bool. -/
def npAny (b : Bool) : Bool := b

/-- `max(xs)` of a sequence of sizes (`ValueError` for an empty sequence). -/
def maxNat : List Nat → Except Err Nat
  | [] => .error .badArg
  | a :: as => .ok (as.foldl max a)

/-- `xs[k]` for a non-negative index (`IndexError` outside). -/
def getNat {α : Type} (xs : List α) (k : Nat) : Except Err α :=
  match xs[k]? with
  | some v => .ok v
  | none => .error .indexRange

/-- `xs[i][j] = v` on a nested list (the updated nested list; `IndexError` outside). -/
def set2 {α : Type} (xs : List (List α)) (i j : Nat) (v : α) : Except Err (List (List α)) :=
  match xs[i]? with
  | none => .error .indexRange
  | some row => if j < row.length then .ok (xs.set i (row.set j v)) else .error .indexRange

/-- `itertools.product(xs, ys)`: all pairs, the second component running fastest. -/
def product {α β : Type} (xs : List α) (ys : List β) : List (α × β) :=
  xs.flatMap fun x => ys.map fun y => (x, y)

/-- `a / b` on NumPy floats (a zero divisor gives `inf` / `nan`: outside the exact model). -/
def npDiv (a b : K) : Except Err K := if b = 0 then .error .zeroDen else .ok (a / b)

/-- `slycot_check()`: Slycot is absent. -/
def slycotCheck : Bool := false

/-- `from slycot import …`: `ImportError`. -/
def importSlycot {α : Type} : Except Err α := .error .notImplemented

/-! ## `np.empty` arrays -/

/-- `np.empty((r, c), dtype=float)`: entries uninitialised until assigned. -/
structure EArr (K : Type) where
  r : Nat
  c : Nat
  get : Nat → Nat → Option K

def EArr.empty (r c : Nat) : EArr K := ⟨r, c, fun _ _ => none⟩

/-- `D[i, j] = v` for non-negative indices. -/
def EArr.setItem (D : EArr K) (i j : Nat) (v : K) : Except Err (EArr K) :=
  if i < D.r ∧ j < D.c then
    .ok ⟨D.r, D.c, fun i' j' => if i' = i ∧ j' = j then some v else D.get i' j'⟩
  else .error .indexRange

/-- an `np.empty` array used as a value: every entry must have been assigned. -/
def EArr.freeze (D : EArr K) : Except Err (PMat K) :=
  if h : ∀ (i : Fin D.r) (j : Fin D.c), (D.get i.val j.val).isSome = true then
    .ok ⟨D.r, D.c, Matrix.of fun i j => (D.get i.val j.val).get (h i j)⟩
  else .error .badArg

/-! ## fields of a `TransferFunction` object -/

namespace TF

def noutputs (x : TFObj K) : Nat := x.sys.p
def ninputs (x : TFObj K) : Nat := x.sys.m
def dt (x : TFObj K) : Dt := x.sys.dt

/-- `issiso(sys)` -/
def issiso (x : TFObj K) : Bool := x.sys.p == 1 && x.sys.m == 1

/-- the nested list of one component of the entries (rows = outputs). -/
def nested (x : TFObj K) (f : Frac K → List K) : List (List (List K)) :=
  (List.finRange x.sys.p).map fun i => (List.finRange x.sys.m).map fun j => f (x.sys.sys.e i j)

/-- `sys.num` -/
def num (x : TFObj K) : List (List (List K)) := nested x Frac.num
/-- `sys.den` -/
def den (x : TFObj K) : List (List (List K)) := nested x Frac.den

/-- `sys.num_array[i, j]` / `sys.den_array[i, j]` for non-negative indices. -/
def entryAt (x : TFObj K) (f : Frac K → List K) (i j : Nat) : Except Err (List K) :=
  if h : i < x.sys.p ∧ j < x.sys.m then .ok (f (x.sys.sys.e ⟨i, h.1⟩ ⟨j, h.2⟩))
  else .error .indexRange

def numAt (x : TFObj K) (i j : Nat) : Except Err (List K) := entryAt x Frac.num i j
def denAt (x : TFObj K) (i j : Nat) : Except Err (List K) := entryAt x Frac.den i j

end TF

/-- `np.squeeze(nested)` of the nested list of a SISO system: the one coefficient array (for any
other shape the result is not a coefficient array). -/
def squeezeSiso (xs : List (List (List K))) : Except Err (List K) :=
  match xs with
  | [[c]] => .ok c
  | _ => .error .badArg

/-! ## fields of a `StateSpace` object -/

namespace SSO

def nstates (x : SSObj K) : Nat := x.sys.n
def noutputs (x : SSObj K) : Nat := x.sys.p
def ninputs (x : SSObj K) : Nat := x.sys.m
def dt (x : SSObj K) : Dt := x.sys.dt
def A (x : SSObj K) : PMat K := PySS.A x.sys
def B (x : SSObj K) : PMat K := PySS.B x.sys
def C (x : SSObj K) : PMat K := PySS.C x.sys
def D (x : SSObj K) : PMat K := PySS.D x.sys

end SSO

/-- `X[i, j]` on a 2-D array for non-negative indices. -/
def matGet (X : PMat K) (i j : Nat) : Except Err K :=
  if h : i < X.r ∧ j < X.c then .ok (X.M ⟨i, h.1⟩ ⟨j, h.2⟩) else .error .indexRange

/-- `X.shape` -/
def matShape (X : PMat K) : Nat × Nat := (X.r, X.c)

/-! ## array conversion of the non-system operand kinds -/

/-- `np.atleast_2d(c)` / `np.array(c, ndmin=2)` of a number. -/
def scalar2d (c : K) : PMat K := ⟨1, 1, Matrix.of fun _ _ => c⟩

/-- the same of an object that is not array_like: raises. -/
def foreign2d : Except Err (PMat K) := .error .badArg

/-- `_ssmatrix(X, name=…)` of a 2-D numeric array: the array (as floats). -/
def ssmatrix (X : PMat K) : PMat K := X

/-! ## names -/

/-- `config.defaults['iosys.<tag>_system_name_suffix']` (the prefixes are `''`). -/
def configSuffix : String → Except Err String
  | "converted" => .ok "$converted"
  | "sampled" => .ok "$sampled"
  | _ => .error .badArg

/-- `_extended_system_name(name, prefix_suffix_name=tag)`. -/
def extendedName (name : String) : Option String → Except Err String
  | none => .ok name
  | some tag => do
    let s ← configSuffix tag
    pure (name ++ s)

/-- `new._copy_names(sys, prefix_suffix_name=tag)`: the (extended) system name and the signal
labels of `sys`. -/
def copyNames (src : Meta) (tag : Option String) : Except Err Meta := do
  let nm ← extendedName src.name tag
  pure ⟨nm, src.inputs, src.outputs⟩

def SSObj.copyNames (new : SSObj K) (src : Meta) (tag : Option String) : Except Err (SSObj K) := do
  let μ ← PyConv.copyNames src tag
  pure ⟨new.sys, μ⟩

def TFObj.copyNames (new : TFObj K) (src : Meta) (tag : Option String) : Except Err (TFObj K) := do
  let μ ← PyConv.copyNames src tag
  pure ⟨new.sys, μ⟩

/-! ## constructors -/

/-- `StateSpace(A, B, C, D, dt)` on four 2-D arrays: the shapes must fit; a new system has a
generic name and default labels. -/
def mkSS (A B C D : PMat K) (dt : Dt) : Except Err (SSObj K) := do
  let S ← PySS.mk A B C D dt
  pure ⟨S, Meta.default S.p S.m⟩

/-- `StateSpace([], [], [], D, dt)`: a static gain. -/
def mkStaticSS (D : PMat K) (dt : Dt) : SSObj K :=
  ⟨PySS.mkStatic D dt, Meta.default D.r D.c⟩

/-- the entry `(i, j)` of a pair of nested lists, when both have one. -/
def frac? (num den : List (List (List K))) (i j : Nat) : Option (Frac K) :=
  match (num[i]?).bind (·[j]?), (den[i]?).bind (·[j]?) with
  | some n, some d => some ⟨n, d⟩
  | _, _ => none

/-- `TransferFunction(num, den[, dt])` on two nested lists of coefficient arrays: `p = len(num)`
outputs and `m = len(num[0])` inputs, both positive, every row of both lists of length `m` and both
lists of length `p` (anything else raises), then the model's constructor `TFM.mk'` (zero
denominator ⇒ `ValueError`; zero numerator ⇒ denominator `[1]`; `_truncatecoeff`).  Without a `dt`
argument the timebase is `None` for a static system (every array of length ≤ 1, decided before
`_truncatecoeff`) and `0` otherwise.  A new system has a generic name and default labels. -/
def mkTF (num den : List (List (List K))) (dt : Option Dt) : Except Err (TFObj K) :=
  let p := num.length
  let m := (num.headD []).length
  if 0 < p ∧ 0 < m ∧ den.length = p ∧ (∀ r ∈ num, r.length = m) ∧ (∀ r ∈ den, r.length = m) then
    if h : ∀ (i : Fin p) (j : Fin m), (frac? num den i.val j.val).isSome = true then do
      let s ← TFM.mk' (o := Fin p) (ι := Fin m) fun i j => (frac? num den i.val j.val).get (h i j)
      let static : Bool := (num.all fun r => r.all fun c => decide (c.length ≤ 1)) &&
        (den.all fun r => r.all fun c => decide (c.length ≤ 1))
      pure ⟨⟨p, m, s, match dt with
        | some d => d
        | none => if static then .none else .cont⟩, Meta.default p m⟩
    else .error .badArg
  else .error .shape

/-- `TransferFunction(num, den, dt)` on two coefficient arrays (a SISO system). -/
def mkSisoTF (num den : List K) (dt : Option Dt) : Except Err (TFObj K) := mkTF [[num]] [[den]] dt

end CtrlVerif.PyConv
