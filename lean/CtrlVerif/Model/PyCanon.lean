/-
Meaning of the further NumPy / Python primitives that `harness/core/py2lean_canon.py` emits when it
translates `similarity_transform`, `reachable_form`, `observable_form` (control/canonical.py) and
`model_reduction` (control/modelsimp.py) into Lean (`Generated/Canon*.lean`).  Hand-written; with
the translator and with the files it builds on (`Model/PyMat.lean`: untyped 2-D arrays `PMat K`,
`Model/PyVal.lean`: Python values `PyVal`, `Model/PyArith.lean`: `range`, list items) this file is
the trusted base of the source-text tie of property C15 (notes/NOTES-py2lean-canon.md).

Conventions as in `Model/PyMat.lean`: floats are EXACT numbers of an arbitrary field `K`; an
operation NumPy answers with `inf` / `nan` (division of a non-empty array by `0`) has no value in
`K` and is an error (`zeroDen`), like the model; index errors are `indexRange` (IndexError), shape
errors `shape` (ValueError), a singular matrix `illPosed` (LinAlgError).

* `divNum X c`        `X / c` for an array and a number.
* `zerosLike X`       `numpy.zeros_like(X)`.
* `setItem X i j v`   `X[i, j] = v` for Python ints `i j` (negative = from the end; IndexError).
* `poly X`            `numpy.poly(X)` of a square non-empty array: the coefficients of the
                      characteristic polynomial `det(λI − X)`, highest power first (NumPy: product of
                      `λ − eigenvalue`; that its floating-point result is accurate is NOT claimed).
* `ctrb A B`, `obsv A C`   `control.ctrb`, `control.obsv` (statefbk.py, not translated here): the
                      blocks `A^k B` side by side / `C A^k` stacked, `k = 0 … n-1`.
* `takeRows X l`, `takeCols X l`   `X[l, :]`, `X[:, l]` for a list of Python ints (NumPy integer-array
                      indexing: negative = from the end, IndexError out of range, repetitions allowed).
* `size X`            `X.size`.
* `isdtime dt strict` `sys.isdtime(strict)` on the timebase of `sys`
                      (`InputOutputSystem.isdtime`, tied to its own source text by `C05Pred`).
* integer arrays (`List Int`): `atleast1d` (`np.atleast_1d` of what `_expand_key` returns),
  `arangeTake n idx` (`np.arange(n)[idx]`), `unique` (`np.unique`: the distinct values, ascending),
  `sortList` (`np.sort(x).tolist()`), `rangeFilter` (`[i for i in range(n) if i not in l]`).
-/
import CtrlVerif.Model.PyMat
import CtrlVerif.Model.PyVal
import CtrlVerif.Model.PyArith
import Mathlib.LinearAlgebra.Matrix.Charpoly.Basic
import Mathlib.Data.Finset.Sort

namespace CtrlVerif

open Matrix

namespace PyCanon

variable {K : Type} [Field K]

/-- `np.zeros_like(X)` -/
def zerosLike (X : PMat K) : PMat K := PMat.zeros X.r X.c

/-- `X.size` -/
def size (X : PMat K) : Nat := X.r * X.c

/-- `X[i, j] = v` (the updated array) for Python ints `i`, `j`. -/
def setItem (X : PMat K) (i j : Int) (v : K) : Except Err (PMat K) :=
  match PyArith.normIdx X.r i, PyArith.normIdx X.c j with
  | .ok a, .ok b =>
    .ok ⟨X.r, X.c, Matrix.of fun i' j' => if i'.val = a ∧ j'.val = b then v else X.M i' j'⟩
  | _, _ => .error .indexRange

/-- the rows (columns) a list of Python ints selects in a sequence of length `len`. -/
def positions (len : Nat) (l : List Int) : Except Err (List (Fin len)) :=
  l.mapM fun (i : Int) =>
    if h : 0 ≤ i ∧ i < (len : Int) then .ok ⟨i.toNat, by omega⟩
    else if h' : i < 0 ∧ -(len : Int) ≤ i then .ok ⟨(i + len).toNat, by omega⟩
    else .error .indexRange

/-- `X[l, :]` for a list of ints. -/
def takeRows (X : PMat K) (l : List Int) : Except Err (PMat K) :=
  (positions X.r l).map fun ps => ⟨ps.length, X.c, Matrix.of fun i j => X.M (ps.get i) j⟩

/-- `X[:, l]` for a list of ints. -/
def takeCols (X : PMat K) (l : List Int) : Except Err (PMat K) :=
  (positions X.c l).map fun ps => ⟨X.r, ps.length, Matrix.of fun i j => X.M i (ps.get j)⟩

variable [DecidableEq K]

/-- `X / c` for a number `c`: every entry divided; `c = 0` on a non-empty array gives `inf` / `nan`
in NumPy, which is no number: error. -/
def divNum (X : PMat K) (c : K) : Except Err (PMat K) :=
  if c = 0 ∧ X.r ≠ 0 ∧ X.c ≠ 0 then .error .zeroDen
  else .ok ⟨X.r, X.c, Matrix.of fun i j => X.M i j / c⟩

/-- `numpy.poly(X)`: `X` square and not empty (`ValueError` otherwise); the `n + 1` coefficients of
the characteristic polynomial, highest power first. -/
noncomputable def poly (X : PMat K) : Except Err (List K) :=
  if h : X.c = X.r ∧ X.r ≠ 0 then
    .ok ((List.range (X.r + 1)).map fun k =>
      (Matrix.charpoly (PMat.retype rfl h.1 X.M)).coeff (X.r - k))
  else .error .shape

/-- `ctrb(A, B)`: `A` square (`n × n`), `B` with `n` rows and `m` columns; the `n × (n m)` array
`[B, A B, …, A^(n-1) B]`: column `k m + l` is column `l` of `A^k B`. -/
def ctrb (A B : PMat K) : Except Err (PMat K) :=
  if h : A.c = A.r ∧ B.r = A.r then
    .ok ⟨A.r, A.r * B.c, Matrix.of fun i j =>
      ((PMat.retype rfl h.1 A.M : Matrix (Fin A.r) (Fin A.r) K) ^ (j.val / B.c)
        * (PMat.retype h.2 rfl B.M : Matrix (Fin A.r) (Fin B.c) K)) i
        ⟨j.val % B.c, Nat.mod_lt _ (Nat.pos_of_ne_zero (by
          intro h0; have := j.isLt; simp [h0] at this))⟩⟩
  else .error .shape

/-- `obsv(A, C)`: `A` square (`n × n`), `C` with `p` rows and `n` columns; the `(n p) × n` array of
the blocks `C, C A, …, C A^(n-1)` stacked: row `k p + l` is row `l` of `C A^k`. -/
def obsv (A C : PMat K) : Except Err (PMat K) :=
  if h : A.c = A.r ∧ C.c = A.r then
    .ok ⟨A.r * C.r, A.r, Matrix.of fun i j =>
      ((PMat.retype rfl h.2 C.M : Matrix (Fin C.r) (Fin A.r) K)
        * (PMat.retype rfl h.1 A.M : Matrix (Fin A.r) (Fin A.r) K) ^ (i.val / C.r))
        ⟨i.val % C.r, Nat.mod_lt _ (Nat.pos_of_ne_zero (by
          intro h0; have := i.isLt; simp [h0] at this))⟩ j⟩
  else .error .shape

/-- `sys.isdtime(strict)`: `dt is None` answers `not strict`, otherwise `dt > 0` (`True > 0`). -/
def isdtime (dt : Dt) (strict : Bool) : Bool :=
  match dt with
  | .none => !strict
  | .cont => false
  | .dtrue => true
  | .disc _ => true

/-! ### one-dimensional integer arrays and lists of ints (`List Int`) -/

/-- `np.atleast_1d(v)` as an integer index array, for the values `_expand_key` returns on the
modelled keys: an int, a list of ints (possibly empty), a `range`.  Anything else (bools = mask
indexing, strings, nested lists = 2-D index arrays, `None`, other objects) is outside the modelled
domain: `notImplemented`. -/
def atleast1d : PyVal → Except Err (List Int)
  | .int i => .ok [i]
  | .range s e st => .ok (Index.rangeList s st (Index.rangeLen s e st))
  | .list xs => xs.mapM fun x => match x with
    | .int i => .ok i
    | _ => .error .notImplemented
  | _ => .error .notImplemented

/-- `np.arange(n)[idx]` for an integer index array: negative = from the end, IndexError out of range. -/
def arangeTake (n : Int) (idx : List Int) : Except Err (List Int) :=
  idx.mapM fun i =>
    if 0 ≤ i ∧ i < n then .ok i
    else if i < 0 ∧ -n ≤ i then .ok (i + n)
    else .error .indexRange

/-- `np.unique(x)`: the distinct values in ascending order. -/
def unique (l : List Int) : List Int := l.toFinset.sort (· ≤ ·)

/-- `np.sort(x).tolist()`: ascending, repetitions kept. -/
def sortList (l : List Int) : List Int := l.insertionSort (· ≤ ·)

/-- `[i for i in range(n) if i not in l]` -/
def rangeFilter (n : Int) (l : List Int) : List Int := (PyArith.range 0 n).filter (· ∉ l)

end PyCanon

end CtrlVerif
