/-
Model of the ARGUMENT PROCESSING at the head of `point_to_point` / `solve_flat_optimal`
(control/flatsys/flatsys.py), C20 — what the call hands to the planning code that
`Model/Flat.lean`, `FlatMulti.lean`, `FlatParams.lean` model.  Hand-written; tied to the source text by
`Props/C20GenHead.lean` (generated counterparts: `Generated/P2PHead*.lean`).

* `TimeSpec`, `timeSel`   — `timepts` is a scalar (the final time; the initial time is the `T0` argument) or
                             a sequence (`T0 = timepts[0]`, `Tf = timepts[-1]` when it has at least two
                             entries; a one-entry sequence behaves like a scalar; an empty one raises IndexError);
  `sfoTime`                — `solve_flat_optimal`: `T0 = timepts[0]` for at least two entries, else `0`;
* parameter resolution     — `p2pParams` of `Model/FlatParams.lean` (the dict the dynamics see);
* `broadcast`, `boundaries` — a scalar boundary value stands for the constant vector of the system's size, a vector
                             must have that size;
* `headBasis`              — the default basis `PolyFamily(2 (nstates + ninputs))`;
* `Route`, `p2pRoute`      — basis too small → ValueError; a cost / constraints with a minimal basis are dropped
                             (warning) → direct linear solve; otherwise the optimiser iff a cost or constraints
                             are given;
* `p2pCallPar`             — the whole call on a parametrised flat system: head, then `p2pPar`.
-/
import CtrlVerif.Model.FlatParams

namespace CtrlVerif.FlatHead

open CtrlVerif

variable {K : Type}

/-- the `timepts` argument of the call. -/
inductive TimeSpec (K : Type) where
  | final (Tf : K)
  | grid (ts : List K)

/-- `(T0, Tf)` the planner uses. -/
def timeSel (tp : TimeSpec K) (T0arg : K) : Except Err (K × K) :=
  match tp with
  | .final Tf => .ok (T0arg, Tf)
  | .grid [] => .error .indexRange
  | .grid [t] => .ok (T0arg, t)
  | .grid (t0 :: t1 :: rest) => .ok (t0, (t1 :: rest).getLast (by simp))

/-- `T0` of `solve_flat_optimal` (the collocation points are the whole grid). -/
def sfoTime [Zero K] (tp : TimeSpec K) : K :=
  match tp with
  | .grid (t0 :: _ :: _) => t0
  | _ => 0

/-- a boundary value as passed: one number for all components, or the vector. -/
inductive Bnd (K : Type) where
  | all (v : K)
  | vec (xs : List K)

/-- the vector of size `n` a boundary value stands for. -/
def broadcast (n : Nat) : Bnd K → Except Err (List K)
  | .all v => .ok (List.replicate n v)
  | .vec xs => if xs.length = n then .ok xs else .error .shape

/-- the basis the planner uses. -/
def headBasis [One K] (n m : Nat) : Option (Basis K) → Basis K
  | none => .poly (2 * (n + m)) 1
  | some b => b

/-- the four boundary values of `point_to_point` (`x0`, `xf` of the state size, `u0`, `uf` of the input size),
converted in the order `x0, u0, xf, uf`. -/
def boundaries (n m : Nat) (x0 u0 xf uf : Bnd K) : Except Err (List K × List K × List K × List K) := do
  let a ← broadcast n x0
  let b ← broadcast m u0
  let c ← broadcast n xf
  let d ← broadcast m uf
  pure (a, b, c, d)

/-- which computation produces the coefficients. -/
inductive Route where
  | direct      -- least-squares solution of the boundary system
  | optimize    -- search over the null space (scipy.optimize.minimize)
  deriving DecidableEq, Repr

/-- the decision of `point_to_point` (`ncoefs` = total number of basis coefficients). -/
def p2pRoute (n m ncoefs : Nat) (cost cons : Bool) : Except Err Route :=
  if ncoefs < 2 * (n + m) then .error .badArg
  else if ncoefs = 2 * (n + m) then .ok .direct
  else if cost || cons then .ok .optimize else .ok .direct

variable [Field K] [DecidableEq K]

/-- `point_to_point(sys, timepts, x0, u0, xf, uf, T0, basis=basis, params=arg)` without cost / constraints on a
parametrised flat system, the boundary values already vectors: times and basis from the head, then `p2pPar`. -/
def p2pCallPar {n m np : Nat} {len : Fin m → Nat} (S : ParFlatSys n m len np K)
    (tp : TimeSpec K) (T0arg : K) (basis : Option (Basis K)) (arg : Option (PDict K))
    (x0 : Fin n → K) (u0 : Fin m → K) (xf : Fin n → K) (uf : Fin m → K) :
    Except FlatErr (K × K × (Σ bs : Basis K, Option (Fin (m * bs.N) → K))) :=
  match timeSel tp T0arg with
  | .error e => .error (.py e)
  | .ok (T0, Tf) =>
    match p2pPar S arg (headBasis n m basis) T0 Tf x0 u0 xf uf with
    | .error e => .error e
    | .ok r => .ok (T0, Tf, ⟨headBasis n m basis, r⟩)

end CtrlVerif.FlatHead
