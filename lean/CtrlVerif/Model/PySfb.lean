/-
Meaning of the further NumPy / python-control primitives that `harness/core/py2lean_sfb.py` emits
when it translates `ctrb`, `obsv`, `place_acker` / `acker`, `lqr`, `dlqr` (control/statefbk.py) and
`lqe`, `dlqe` (control/stochsys.py) into Lean (`Generated/Sfb*.lean`).  Hand-written; together with
the translator (and `Model/PyMat.lean`, `Model/PyArith.lean`, whose primitives are re-used) this file
is the trusted base of the source-text tie of property C11 (notes/NOTES-py2lean-statefbk.md).

* a 2-D `ndarray` is a `PMat K` (untyped: rows, columns, entries; `Model/PyMat.lean`), a 1-D array
  is a `List`; floats are EXACT elements of an arbitrary field `K`; Python ints are `Int`, sizes
  `Nat`.  Every operation that NumPy / python-control rejects is an error (`Except Err`), with the
  tag the C11 correspondence family maps the exception class to (`families/c11.py: classify_exc`):
  `ControlDimension`, NumPy shape / broadcast `ValueError`s and the `LinAlgError` "must be square" are
  `shape`, a singular matrix is `illPosed`, `ControlArgument` / `TypeError` are `badArg`,
  `ControlNotImplemented` is `notImplemented`, `IndexError` is `indexRange`.
* `ssmatrix`    — `_ssmatrix(X, square=…, rows=…, cols=…)` applied to a 2-D array: an array of
  shape `(1, 0)` becomes `(0, 0)`, then the three checks (`ControlDimension`).  (`axis`, `name`
  only matter for 1-D input / the message.)
* `broadcastTo`, `setSliceB` — `X[a:b, c:d] = V` with NumPy's broadcasting of `V` to the shape of the
  slot (an axis of length 1 is repeated; `ctrb(A, B, t=0)` relies on it: an `n × 1` array is
  assigned to an `n × 0` slot).
* `matrixPower` — `np.linalg.matrix_power(A, i)` for `i ≥ 0` (`LinAlgError` unless square).
* `row`         — `X[i, :]` for a Python int `i` (negative: from the end; `IndexError`).
* `poly`, `real` — `np.poly(roots)` is NumPy's own loop `a = [1]; for z in roots: a = convolve(a, [1, -z])`
  over the type `L` of the requested poles (real: `L = K`; complex: any field `L` with a map `re : L → K`);
  its exact meaning is the coefficient list of `∏ (X - zᵢ)` (`C11.toPoly_polyFromRoots`).
  `np.real(a)` takes real parts entry by entry.
* `Arg`, `Kw`, `KwVal` — what `lqr(*args, **kwargs)`, `dlqr`, `lqe`, `dlqe` can be called with: a
  positional argument is a `StateSpace` object, another LTI object (only its timebase matters: the
  code raises), or something array-like, read by `np.array(·, ndmin=2, dtype=float)` as a 2-D array;
  the keywords are `method` (passed through to `care` / `dare`, which are PARAMETERS of the generated
  functions: `RicFn`), `integral_action` (an ndarray or something else) and "any other keyword".
  `isdtime(sys, strict=True)` / `isctime(sys, strict=True)` on a system are `DtPred.isdtime true` /
  `DtPred.isctime true` of its timebase (`Model/DtPred.lean`, tied to control/iosys.py by `C05Pred`).
* `checkShape` — `_check_shape(M, n, m)` of control/mateqn.py with its default flags (no squareness /
  symmetry test: only the expected shape, `ControlDimension`; the function itself is tied to its
  source by `C10Gen.generated_checkShape_eq`).
-/
import CtrlVerif.Model.PyMat
import CtrlVerif.Model.PyArith
import CtrlVerif.Model.Poly
import CtrlVerif.Model.DtPred

namespace CtrlVerif.PySfb

open Matrix CtrlVerif

variable {K : Type} [Field K]

/-- the `(1, 0) → (0, 0)` rule of `_ssmatrix`. -/
def emptyRule (X : PMat K) : PMat K := if X.r = 1 ∧ X.c = 0 then ⟨0, 0, 0⟩ else X

/-- `_ssmatrix(X, square=square, rows=rows, cols=cols)` for a 2-D array `X`. -/
def ssmatrix (X : PMat K) (square : Bool) (rows cols : Option Nat) : Except Err (PMat K) :=
  let Y := emptyRule X
  if square = true ∧ Y.r ≠ Y.c then .error .shape
  else if rows.isSome = true ∧ rows ≠ some Y.r then .error .shape
  else if cols.isSome = true ∧ cols ≠ some Y.c then .error .shape
  else .ok Y

/-- NumPy broadcasting of a 2-D array to the shape `(r, c)`: every axis fits or has length 1. -/
def broadcastTo (V : PMat K) (r c : Nat) : Except Err (PMat K) :=
  if h : (V.r = r ∨ V.r = 1) ∧ (V.c = c ∨ V.c = 1) then
    .ok ⟨r, c, Matrix.of fun i j =>
      V.M ⟨if V.r = r then i.val else 0, by
          have := i.isLt
          split
          · omega
          · rcases h.1 with h1 | h1
            · contradiction
            · omega⟩
        ⟨if V.c = c then j.val else 0, by
          have := j.isLt
          split
          · omega
          · rcases h.2 with h1 | h1
            · contradiction
            · omega⟩⟩
  else .error .shape

/-- `X[r0:r1, c0:c1] = V` (the updated array): `V` is broadcast to the shape of the slot. -/
def setSliceB (X : PMat K) (r0 r1 c0 c1 : Option Int) (V : PMat K) : Except Err (PMat K) :=
  (broadcastTo V (PMat.sliceBound X.r X.r r1 - PMat.sliceBound X.r 0 r0)
      (PMat.sliceBound X.c X.c c1 - PMat.sliceBound X.c 0 c0)).bind
    fun V' => PMat.setSlice X r0 r1 c0 c1 V'

/-- `np.linalg.matrix_power(A, i)`, `i ≥ 0` (a negative power inverts: not modelled). -/
def matrixPower (A : PMat K) (i : Int) : Except Err (PMat K) :=
  if h : A.c = A.r then
    if i < 0 then .error .notImplemented
    else .ok ⟨A.r, A.r, (PMat.retype rfl h A.M) ^ i.toNat⟩
  else .error .shape

/-- `X[i, :]` for a Python int `i`. -/
def row (X : PMat K) (i : Int) : Except Err (List K) :=
  (PyArith.normIdx X.r i).bind fun j =>
    if h : j < X.r then .ok (List.ofFn fun c => X.M ⟨j, h⟩ c) else .error .indexRange

/-- `np.poly(roots)` for a sequence of roots (NumPy's loop of convolutions). -/
def poly {L : Type} [Field L] (roots : List L) : List L :=
  roots.foldl (fun a z => polymul a [1, -z]) [1]

/-- `np.real(a)` of a 1-D array. -/
def real {L : Type} (re : L → K) (a : List L) : List K := a.map re

/-! ### arguments of `lqr` / `dlqr` / `lqe` / `dlqe` -/

/-- a positional argument. -/
inductive Arg (K : Type) where
  /-- a `StateSpace` object -/
  | ss (G : DSS K)
  /-- an LTI object that is not a `StateSpace` (`TransferFunction`, `FrequencyResponseData`) with
  timebase `dt` -/
  | lti (dt : Dt)
  /-- array-like: what `np.array(·, ndmin=2, dtype=float)` makes of it -/
  | arr (X : PMat K)

/-- `args[i]` for a literal index (`IndexError` beyond the end). -/
def argAt (args : List (Arg K)) (i : Nat) : Except Err (Arg K) :=
  match args[i]? with
  | some a => .ok a
  | none => .error .indexRange

/-- `np.array(x, ndmin=2, dtype=float)` of a positional argument: an LTI object is not array-like
(`TypeError`). -/
def Arg.toArray : Arg K → Except Err (PMat K)
  | .arr X => .ok X
  | _ => .error .badArg

/-- the value of the keyword `integral_action`. -/
inductive KwVal (K : Type) where
  | arr (X : PMat K)
  | notArray

/-- `**kwargs`: was `method` given, the value of `integral_action` if given, is any other keyword
present. -/
structure Kw (K : Type) where
  hasMethod : Bool
  integralAction : Option (KwVal K)
  other : Bool

/-- truth value of `kwargs` after the named keys have been popped. -/
def Kw.rest (kw : Kw K) (poppedMethod poppedIntegralAction : Bool) : Bool :=
  kw.other || (!poppedMethod && kw.hasMethod) || (!poppedIntegralAction && kw.integralAction.isSome)

/-- `care` / `dare` of control/mateqn.py as `lqr`, `dlqr`, `lqe`, `dlqe` call them:
`(A, B, Q, R, S) ↦ (X, L, G)` or an exception (`E = None`; `method` and the `_Xs` name keywords only
select the back end / word the messages).  A parameter of the generated functions. -/
abbrev RicFn (K : Type) (ε : Type) :=
  PMat K → PMat K → PMat K → PMat K → Option (PMat K) → Except Err (PMat K × ε × PMat K)

/-- `_check_shape(M, n, m, name=…)` with the default flags `square=False, symmetric=False`. -/
def checkShape (M : PMat K) (n m : Nat) : Except Err Unit :=
  if M.r ≠ n ∨ M.c ≠ m then .error .shape else .ok ()

end CtrlVerif.PySfb
