/-
Model of the sampled-data route of `stability_margins` (`control/margins.py`, the `else:` branch taken
for `FrequencyResponseData` input, for a `(mag, phase, omega)` 3-sequence, for `method='frd'` and for
the numerical-inaccuracy fallback): the code locates every crossing by a sign pattern of the sampled
response on the frequency grid and refines it inside the bracket with `scipy.optimize.brentq` /
`minimize_scalar` (PARAMETERS, as the root finders of the polynomial route).

The model is a function of the DATA `r_i = L(j·ω_i)` (complex samples over an ordered field `K`):
which grid intervals are handed to the root finder.  It also contains the model of a *history* of
calls on data the caller keeps (`runCalls`): a call receives the caller's arrays and leaves them in
some state; the specification is that it leaves them as they were.
-/
import CtrlVerif.Model.Margins

namespace CtrlVerif.Margins

section sampled
variable {K : Type*} [Field K] [LinearOrder K]

/-- `np.sign` of a real number. -/
def sgn (x : K) : Int := if 0 < x then 1 else if x < 0 then -1 else 0

/-- `np.where(np.diff(np.sign(xs)))[0]`: the indices `i` with `sign xs[i] ≠ sign xs[i+1]`. -/
def signChangeIdx (xs : List K) : List Nat :=
  let a := (xs.map sgn).toArray
  (List.range (a.size - 1)).filter fun i => decide (a[i]? ≠ a[i + 1]?)

/-- `_mod(ω) = |L(jω)| − 1` has the sign of `|L|² − 1`: brackets of the gain crossovers. -/
def frdGainBrackets (rs : List (Cx K)) : List Nat :=
  signChangeIdx (rs.map fun r => normSq r - 1)

/-- `_arg(ω) = np.angle(−L(jω))` has the sign of `−Im L` when `Im L ≠ 0`.  For a sample exactly on the
real axis the code's decision depends on the sign of a floating-point zero, which data over `K` do not
carry: such data are outside the model (`none`).  Otherwise: sign changes of `_arg`, of which the code
keeps those with `np.real(L(jω_i)) <= 0` at the LEFT end of the interval. -/
def frdPhaseBrackets (rs : List (Cx K)) : Option (List Nat) :=
  if rs.any (fun r => decide (r.im = 0)) then none
  else some ((signChangeIdx (rs.map fun r => -r.im)).filter fun i =>
    match rs[i]? with
    | some r => decide (r.re ≤ 0)
    | none => false)

/-- `np.diff`. -/
def diffs : List K → List K
  | a :: b :: t => (b - a) :: diffs (b :: t)
  | _ => []

/-- `np.where(np.diff(e) > 0)[0]` for an integer sign list `e`. -/
def risesIdx (e : List Int) : List Nat :=
  let a := e.toArray
  (List.range (a.size - 1)).filter fun i =>
    match a[i]?, a[i + 1]? with
    | some x, some y => decide (x < y)
    | _, _ => false

/-- `np.where(np.diff(np.sign(np.diff(_dstab(omega)))) > 0)`: `_dstab = |1 + L|` is compared on squares
(monotone).  Index `i` means: the slope sign of `|1+L|` rises between the intervals `[ω_i, ω_{i+1}]` and
`[ω_{i+1}, ω_{i+2}]`, i.e. the sample `i+1` is a grid minimum. -/
def frdStabBrackets (rs : List (Cx K)) : List Nat :=
  risesIdx ((diffs (rs.map fun r => normSq (r + 1))).map sgn)

end sampled

/-! ### History of calls on data kept by the caller -/

/-- `n` successive calls of `f` on the state `s` of the caller's data: every call sees the data as
the previous call left them (`(f s).1`) and yields a result (`(f s).2`). -/
def runCalls {σ ρ : Type*} (f : σ → σ × ρ) : Nat → σ → List ρ
  | 0, _ => []
  | n + 1, s => (f s).2 :: runCalls f n (f s).1

end CtrlVerif.Margins
