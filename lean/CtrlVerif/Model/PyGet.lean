/-
Meaning of the Python / NumPy / python-control primitives that `harness/core/py2lean_getitem.py`
emits when it translates the INDEXING METHODS `StateSpace.__getitem__`, `TransferFunction.__getitem__`
and `FrequencyResponseData.__getitem__` (control/statesp.py, xferfcn.py, frdata.py) into Lean
(`Generated/GetitemSS.lean`, `GetitemTF.lean`, `GetitemFRD.lean`).  Hand-written, small, and —
together with the translator — the trusted base of this part of the source-text tie of property C17
(notes/NOTES-py2lean-getitem.md); everything else about the generated methods is proved
(`Props/C17GenItem*.lean`).

Value model.  Selectors, label lists and index objects are `PyVal` (`Model/PyVal.lean`).  A 2-D
float array is the untyped `PMat K` of `Model/PyMat.lean`, a 2-D object array of coefficient arrays
the `PolyArr K` of `Model/PyTF.lean`, a 3-D array (`frdata`: outputs × inputs × frequencies) an
`Arr3`.  The three classes are records of the attributes the methods read: the numerical content
(`DSS K`, `DTF K` — the run-time objects of the C02 / C01 models — resp. `Arr3` and the grid), the
system name and the two label lists.  Floats are exact field elements; nothing is rounded.

What is fixed here BY HAND (and therefore trusted, not proved):
* `axisIdx`: what NumPy does with the index object on ONE axis of length `n` when the other axes
  are taken whole (`X[:, idx]`, `X[idx, :]`): a `slice` selects `range(*slice.indices(n))`
  (`Index.sliceList`), a list of Python ints selects entry by entry, negative entries counting from
  the end, IndexError outside `-n … n-1` (`Index.normIdx`); a list that contains a `bool` would be a
  mask and a bare integer would drop the axis — neither is modelled (`notImplemented`).
* the three constructors as `__getitem__` calls them (`mkStateSpace`, `mkTransferFunction`,
  `mkFRD`): which shapes they accept, see each definition.  Labels are kept as given (a repeated
  label is kept twice: the real classes store labels in a dict and keep it once — known finding
  `C17-repeated-channel-labels`).
* `isIterable`: `isinstance(x, collections.abc.Iterable)` on the classes of `PyVal`.
-/
import CtrlVerif.Model.PyVal
import CtrlVerif.Model.PyMat
import CtrlVerif.Model.PyTF

namespace CtrlVerif.PyGet

open CtrlVerif Index

/-! ## configuration, key validation, `NamedSignal` -/

/-- `config.defaults` restricted to its string-valued entries. -/
abbrev Defaults := String → Option String

/-- `config.defaults[key]` (KeyError when absent). -/
def Defaults.getStr (d : Defaults) (key : String) : Except Err String :=
  match d key with
  | some v => .ok v
  | none => .error .unknownName

/-- `isinstance(x, Iterable)`: strings, ranges, lists and tuples are iterable, `None`, bools, ints
and slices are not; for an object of an unnamed class (`other`: a float is not iterable, an ndarray
is) it is not known. -/
def isIterable : PyVal → Except Err Bool
  | .str _ | .range .. | .list _ | .tuple _ => .ok true
  | .none | .bool _ | .int _ | .slice .. => .ok false
  | .other => .error .notImplemented

/-- a `NamedSignal` object as `_parse_key` sees it: the three attributes `__new__` stores. -/
structure NamedSignal where
  signal_labels : PyVal
  trace_labels : PyVal
  data_shape : PyVal

/-- the `.shape` tuple of an array with the given dimensions. -/
def shapeVal (dims : List Nat) : PyVal := .tuple (dims.map fun d => .int (d : Int))

/-- `NamedSignal(array, signal_labels, trace_labels)`; the array enters only through its shape. -/
def namedSignal (shape signal_labels trace_labels : PyVal) : NamedSignal :=
  ⟨signal_labels, trace_labels, shape⟩

/-- the shape of `np.empty((a, b))` (ValueError for a negative dimension). -/
def npEmptyShape (a b : Int) : Except Err PyVal :=
  if a < 0 ∨ b < 0 then .error .badArg else .ok (.tuple [.int a, .int b])

/-! ## NumPy indexing of one axis -/

/-- an element of an index list / a NumPy integer subscript: a Python `int`.  A `bool` would make
the list a mask (not modelled); anything else is an IndexError. -/
def asIndex : PyVal → Except Err Int
  | .int i => .ok i
  | .bool _ => .error .notImplemented
  | _ => .error .indexRange

/-- the positions an index object selects on an axis of length `n`, in the selected order (see
the header). -/
def axisIdx (n : Nat) : PyVal → Except Err (List (Fin n))
  | .slice a b c => sliceList a b c n
  | .list xs => xs.mapM fun x => (asIndex x).bind (normIdx n)
  | _ => .error .notImplemented

variable {K : Type}

/-- `X[idx, :]` -/
def takeRows (X : PMat K) (idx : PyVal) : Except Err (PMat K) := do
  let rows ← axisIdx X.r idx
  pure ⟨rows.length, X.c, X.M.submatrix (fun i => rows.get i) id⟩

/-- `X[:, idx]` -/
def takeCols (X : PMat K) (idx : PyVal) : Except Err (PMat K) := do
  let cols ← axisIdx X.c idx
  pure ⟨X.r, cols.length, X.M.submatrix id (fun j => cols.get j)⟩

/-- `X.shape` -/
def shape2 (X : PMat K) : PyVal := shapeVal [X.r, X.c]

/-- a label list handed to a constructor as `inputs=` / `outputs=`: a list of strings gives that
many signals (an int, a single string, `None` are other call forms: not modelled). -/
def labelCount : PyVal → Except Err Nat
  | .list xs => if xs.all (fun x => match x with | .str _ => true | _ => false) then .ok xs.length
                else .error .badArg
  | _ => .error .notImplemented

/-! ## `StateSpace` -/

/-- a `StateSpace` object: matrices and timebase (`DSS K`), name, labels. -/
structure SSObj (K : Type) where
  sys : DSS K
  name : String
  input_labels : PyVal
  output_labels : PyVal

section ss
variable [Field K]

/-- `_ssmatrix(X)` on a 2-D array: a `1 × 0` array becomes `0 × 0`, every other shape is kept. -/
def ssmatrix (X : PMat K) : PMat K := if X.r = 1 ∧ X.c = 0 then ⟨0, 0, 0⟩ else X

/-- `X.size` -/
def size (X : PMat K) : Nat := X.r * X.c

/-- `X.shape = (r, c)` on an array without entries (ValueError when it has entries). -/
def reshapeEmpty (X : PMat K) (r c : Nat) : Except Err (PMat K) :=
  if size X = 0 ∧ r * c = 0 then .ok ⟨r, c, 0⟩ else .error .shape

/-- `StateSpace(A, B, C, D, dt, name=…, inputs=…, outputs=…)` on four 2-D arrays and two label
lists, following `StateSpace.__init__`: the four arrays go through `_ssmatrix` (`A` must be square);
"if only the direct term is present" an empty `B` / `C` is replaced by `zeros((0, D.shape[1]))` /
`zeros((D.shape[0], 0))`; the signal counts are the lengths of the label lists, the state count is
`A.shape[0]`; for a static system (`A.size == 0`) `B` and `C` are re-shaped to `(0, ninputs)` and
`(noutputs, 0)`; finally `_check_shape` on all four (ControlDimension).  `remove_useless_states`
is off (the configuration default). -/
def mkStateSpace (A B C D : PMat K) (dt : Dt) (name : String) (inputs outputs : PyVal) :
    Except Err (SSObj K) := do
  let A := ssmatrix A
  if A.r ≠ A.c then throw Err.shape
  let B := ssmatrix B
  let C := ssmatrix C
  let D := ssmatrix D
  let B := if 0 < size D ∧ size B = 0 then PMat.zeros 0 D.c else B
  let C := if 0 < size D ∧ size C = 0 then PMat.zeros D.r 0 else C
  let m ← labelCount inputs
  let p ← labelCount outputs
  let B ← if size A = 0 then reshapeEmpty B 0 m else pure B
  let C ← if size A = 0 then reshapeEmpty C p 0 else pure C
  let G ← PySS.mk A B C D dt
  if G.m = m ∧ G.p = p then pure ⟨G, name, inputs, outputs⟩ else throw Err.shape

end ss

/-! ## `TransferFunction` -/

/-- a `TransferFunction` object: entries and timebase (`DTF K`), name, labels. -/
structure TFObj (K : Type) where
  sys : DTF K
  name : String
  input_labels : PyVal
  output_labels : PyVal

/-- `enumerate(x)` -/
def enumerate (x : PyVal) : Except Err (List (Int × PyVal)) := do
  let xs ← Py.iter x
  pure (xs.zipIdx.map fun vk => ((vk.2 : Int), vk.1))

section tf
variable [Field K] [DecidableEq K]

/-- `TransferFunction(num, den, dt, inputs=…, outputs=…, name=…)` on two 2-D object arrays: an
array without rows or columns is an IndexError (the constructor reads entry `[0][0]`); otherwise
the shape / entry checks and the normalisation of `PyTF.mkTF` (itself tied to the constructor's
text by `C01GenCtor`), and the label lists must have as many names as there are inputs / outputs
(ValueError). -/
def mkTransferFunction (num den : PyTF.PolyArr K) (dt : Dt) (inputs outputs : PyVal)
    (name : String) : Except Err (TFObj K) := do
  if num.p = 0 ∨ num.m = 0 then throw Err.indexRange
  let sys ← PyTF.mkTF num den dt
  let m ← labelCount inputs
  let p ← labelCount outputs
  if sys.m = m ∧ sys.p = p then pure ⟨sys, name, inputs, outputs⟩ else throw Err.shape

end tf

/-! ## `FrequencyResponseData` -/

/-- a 3-D array `r × c × w`; entry `(i, j)` is the list along the last axis. -/
structure Arr3 (β : Type) where
  r : Nat
  c : Nat
  w : Nat
  d : Fin r → Fin c → List β

/-- an FRD object: `frdata`, `omega`, timebase, name, labels. -/
structure FRDObj (K β : Type) where
  frdata : Arr3 β
  omega : List K
  dt : Dt
  name : String
  input_labels : PyVal
  output_labels : PyVal

variable {β : Type}

/-- `X[idx, :]` on a 3-D array (the last axis is kept). -/
def takeRows3 (X : Arr3 β) (idx : PyVal) : Except Err (Arr3 β) := do
  let rows ← axisIdx X.r idx
  pure ⟨rows.length, X.c, X.w, fun i j => X.d (rows.get i) j⟩

/-- `X[:, idx]` on a 3-D array. -/
def takeCols3 (X : Arr3 β) (idx : PyVal) : Except Err (Arr3 β) := do
  let cols ← axisIdx X.c idx
  pure ⟨X.r, cols.length, X.w, fun i j => X.d i (cols.get j)⟩

/-- the shape of `X[:, :, 0]` (IndexError when the last axis is empty). -/
def slice0Shape (X : Arr3 β) : Except Err PyVal :=
  if X.w = 0 then .error .indexRange else .ok (shapeVal [X.r, X.c])

/-- `FrequencyResponseData(data, omega, dt, inputs=…, outputs=…, name=…)`: the last axis of the
data must have the length of the frequency vector (TypeError); the label lists are taken as they
are (their lengths are NOT compared with the data shape by the constructor). -/
def mkFRD (data : Arr3 β) (omega : List K) (dt : Dt) (inputs outputs : PyVal) (name : String) :
    Except Err (FRDObj K β) := do
  if data.w ≠ omega.length then throw Err.badArg
  let _ ← labelCount inputs
  let _ ← labelCount outputs
  pure ⟨data, omega, dt, name, inputs, outputs⟩

/-- what `FrequencyResponseData.__getitem__` returns: a system, or — for a key that is not a pair —
element `key` of `list(self.__iter__())` (the legacy tuple interface; kept symbolic here). -/
inductive FRDItem (K β : Type) where
  | sys (F : FRDObj K β)
  | legacy (key : PyVal)

end CtrlVerif.PyGet
