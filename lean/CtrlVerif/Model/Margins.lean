/-
Model of `control/margins.py` (stability_margins / margin / phase_crossover_frequencies) and of
`LTI.bandwidth` (`control/lti.py`), function by function.

* coefficient lists are NumPy lists (highest power first) over an arbitrary commutative ring /
  ordered field `K`; the driver runs the same definitions over `ℚ`;
* complex numbers are `Cx K = QuadraticAlgebra K (-1) 0` (pairs `re, im` with `i² = -1`), which is a
  commutative ring for every commutative ring `K` (for `K = ℝ` it is `ℂ`);
* the root finders (`numpy.roots`, `scipy.optimize.minimize`, `scipy.optimize.root_scalar`) and
  the transcendental maps (`abs`, `angle`, `exp`, `10**x`) are PARAMETERS: the model receives the
  list of roots that was returned / the evaluation points, and applies the code's own selection
  logic to them.
-/
import CtrlVerif.Model.Poly
import CtrlVerif.Model.Err
import Mathlib.Algebra.QuadraticAlgebra.Defs
import Mathlib.Algebra.Order.Field.Basic

namespace CtrlVerif.Margins

open CtrlVerif

/-- complex numbers over `K` (`re + im·i`, `i² = -1`). -/
abbrev Cx (K : Type*) [CommRing K] := QuadraticAlgebra K (-1) 0

section ring
variable {K : Type*} [CommRing K]

/-- `|z|²` -/
def normSq (z : Cx K) : K := z.re * z.re + z.im * z.im

/-- complex conjugate -/
def conj (z : Cx K) : Cx K := ⟨z.re, -z.im⟩

/-- the point `j·w` on the imaginary axis -/
def jw (w : K) : Cx K := ⟨0, w⟩

/-- evaluation of a real coefficient list at a complex point (`np.polyval(num, x)` in `horner`). -/
def evalC (p : List K) (z : Cx K) : Cx K := polyval (p.map (QuadraticAlgebra.C)) z

/-! ### NumPy polynomial helpers as used by margins.py -/

/-- `np.polysub` (pads the shorter operand with leading zeros, no trimming). -/
def npsub (p q : List K) : List K := polyadd p (pneg q)

/-- `np.polymul`: both operands pass through `poly1d`, which strips leading zeros (the zero/empty
array becomes `[0]`), then `convolve`. -/
def npmul [DecidableEq K] (p q : List K) : List K := polymul (trim p) (trim q)

/-- `np.polyder` (first derivative): `p[:-1] * arange(n, 0, -1)`. -/
def polyder : List K → List K
  | [] => []
  | c :: t => match t with
    | [] => []
    | _ :: _ => ((t.length : ℕ) : K) * c :: polyder t

/-- coefficients of `p(j·w)` as a polynomial in `w`, lowest power first: `(Re, Im)`.
`p(jw) = c + jw·q(jw)` gives `Re = c - w·Im q`, `Im = w·Re q`. -/
def iwLow : List K → List K × List K
  | [] => ([], [])
  | c :: t => (c :: (iwLow t).2.map (- ·), 0 :: (iwLow t).1)

/-- `_poly_iw`: `(1J)**arange(len-1, -1, -1) * p`, returned as the pair `(.real, .imag)`
(highest power first, both of the length of `p`). -/
def polyIw (p : List K) : List K × List K :=
  ((iwLow p.reverse).1.reverse, (iwLow p.reverse).2.reverse)

/-- `poly1d` trimming of a complex coefficient array given by its real and imaginary parts:
leading entries are dropped while both parts vanish; the zero array becomes `[0]`. -/
def ctrim [DecidableEq K] : List K → List K → List K × List K
  | a :: re, b :: im => if a = 0 ∧ b = 0 then ctrim re im else (a :: re, b :: im)
  | [], [] => ([0], [0])
  | re, im => (re, im)

/-- `_poly_iw_sqr`: `real(polymul(p, conj p))` for the complex array `p = re + j im`. -/
def iwSqr [DecidableEq K] (p : List K × List K) : List K :=
  polyadd (polymul (ctrim p.1 p.2).1 (ctrim p.1 p.2).1) (polymul (ctrim p.1 p.2).2 (ctrim p.1 p.2).2)

/-- `np.polyadd` on two complex arrays. -/
def cadd (p q : List K × List K) : List K × List K := (polyadd p.1 q.1, polyadd p.2 q.2)

/-- test polynomial of `_poly_iw_real_crossing`: `Im(num(jw))·Re(den(jw)) - Re(num(jw))·Im(den(jw))`. -/
def realCrossingPoly [DecidableEq K] (num den : List K) : List K :=
  npsub (npmul (polyIw num).2 (polyIw den).1) (npmul (polyIw num).1 (polyIw den).2)

/-- test polynomial of `_poly_iw_mag1_crossing`: `|num(jw)|² - |den(jw)|²`. -/
def mag1Poly [DecidableEq K] (num den : List K) : List K :=
  npsub (iwSqr (polyIw num)) (iwSqr (polyIw den))

/-- numerator `|num(jw) + den(jw)|²` of `|1 + L(jw)|²`. -/
def wstabN [DecidableEq K] (num den : List K) : List K := iwSqr (cadd (polyIw num) (polyIw den))

/-- denominator `|den(jw)|²` of `|1 + L(jw)|²`. -/
def wstabD [DecidableEq K] (den : List K) : List K := iwSqr (polyIw den)

/-- test polynomial of `_poly_iw_wstab`: `n'·d - d'·n`. -/
def wstabPoly [DecidableEq K] (num den : List K) : List K :=
  npsub (npmul (polyder (wstabN num den)) (wstabD den)) (npmul (polyder (wstabD den)) (wstabN num den))

/-! ### discrete time: `_poly_z_invz`, `_poly_z_real_crossing`, `_poly_z_mag1_crossing` -/

/-- `[1] + [0]*k` -/
def shiftPoly (k : Nat) : List K := 1 :: List.replicate k 0

/-- `_poly_z_invz` raises for a non-proper transfer function. -/
def zProper (num den : List K) : Except Err Unit :=
  if num.length > den.length then .error .nonProper else .ok ()

/-- `p2` of `_poly_z_real_crossing` (its length sets the `|z| = 1` tolerance). -/
def zRealP2 [DecidableEq K] (num den : List K) : List K :=
  if num.length < den.length then
    npmul (npmul num.reverse den) (shiftPoly (den.length - num.length))
  else npmul num.reverse den

/-- test polynomial of `_poly_z_real_crossing`: `num(z)·den(1/z)·z^q - num(1/z)·z^p·den(z)·z^(q-p)`. -/
def zRealCrossingPoly [DecidableEq K] (num den : List K) : List K :=
  npsub (npmul num den.reverse) (zRealP2 num den)

def zMag1P1 [DecidableEq K] (num den : List K) : List K :=
  if num.length < den.length then
    npmul (npmul num num.reverse) (shiftPoly (den.length - num.length))
  else npmul num num.reverse

/-- `p2` of `_poly_z_mag1_crossing`. -/
def zMag1P2 [DecidableEq K] (den : List K) : List K := npmul den den.reverse

/-- test polynomial of `_poly_z_mag1_crossing`: `num(z)num(1/z)z^p·z^(q-p) - den(z)den(1/z)z^q`. -/
def zMag1Poly [DecidableEq K] (num den : List K) : List K :=
  npsub (zMag1P1 num den) (zMag1P2 den)

/-- sum of squares of the coefficients (`np.linalg.norm(p)**2`). -/
def coeffNormSq (p : List K) : K := (p.map fun c => c * c).sum

end ring

section field
variable {K : Type*} [Field K] [LinearOrder K]

/-- value of the loop transfer function at `z` (`sys(z)`); `none` where the denominator vanishes
(the code produces `inf`/`nan` there). -/
def respAt (num den : List K) (z : Cx K) : Option (Cx K) :=
  if normSq (evalC den z) = 0 then none
  else some ((normSq (evalC den z))⁻¹ • (evalC num z * conj (evalC den z)))

/-- NumPy's ordering of complex numbers against `0.`: lexicographic (`re` first, then `im`). -/
def lexLe0 (r : Cx K) : Bool := decide (r.re < 0) || (decide (r.re = 0) && decide (r.im ≤ 0))

/-- `np.real(w[np.isreal(w)])` -/
def realRoots (roots : List (Cx K)) : List K := (roots.filter fun z => z.im = 0).map (·.re)

/-- `argsort` on the frequency (first component). -/
def sortByW {β : Type*} (l : List (K × β)) : List (K × β) :=
  l.mergeSort fun a b => decide (a.1 ≤ b.1)

/-- first element with the smallest key (`np.where(key == np.min(key))[0][0]`). -/
def argminBy {α β : Type*} [LinearOrder β] (key : α → β) : List α → Option α
  | [] => none
  | a :: l => match argminBy key l with
    | none => some a
    | some b => if key a ≤ key b then some a else some b

/-! #### continuous time -/

/-- all candidate real-axis crossings: real roots `w ≥ epsw` of the test polynomial with the loop
response there (this is what `phase_crossover_frequencies` reports, with `epsw = 0`). -/
def realAxisCandidates (num den : List K) (epsw : K) (roots : List (Cx K)) : List (K × Option (Cx K)) :=
  ((realRoots roots).filter (fun w => epsw ≤ w)).map fun w => (w, respAt num den (jw w))

/-- `w_180`, `w180_resp` of `stability_margins`: candidates where the response is `≤ 0`, sorted.
A candidate at a pole of the loop (no response) is not a crossing. -/
def phaseCrossings (num den : List K) (epsw : K) (roots : List (Cx K)) : List (K × Cx K) :=
  sortByW ((realAxisCandidates num den epsw roots).filterMap fun c =>
    match c.2 with
    | some r => if lexLe0 r then some (c.1, r) else none
    | none => none)

/-- `wc`, `wc_resp`: real roots `w > epsw` of `|num|² - |den|²`, sorted. -/
def gainCrossings (num den : List K) (epsw : K) (roots : List (Cx K)) : List (K × Option (Cx K)) :=
  sortByW (((realRoots roots).filter (fun w => epsw < w)).map fun w => (w, respAt num den (jw w)))

/-- `wstab`, `ws_resp`: real roots `w > epsw` of the stationarity polynomial at which its derivative
is positive (a minimum of `|1+L|`), sorted. -/
def stabCrossings [DecidableEq K] (num den : List K) (epsw : K) (roots : List (Cx K)) :
    List (K × Option (Cx K)) :=
  sortByW ((((realRoots roots).filter (fun w => epsw < w)).filter
    (fun w => 0 < polyval (polyder (wstabPoly num den)) w)).map fun w => (w, respAt num den (jw w)))

/-! #### selection of the default (smallest) margins -/

/-- ordering key of `|log GM|` with `GM = 1/|r|`: `max(|r|², 1/|r|²)` (strictly increasing in
`|log GM|`); `⊤` for `|r| = 0` (`GM = inf`). -/
def gmKey (r : Cx K) : WithTop K :=
  if normSq r = 0 then ⊤ else ((max (normSq r) (normSq r)⁻¹ : K) : WithTop K)

/-- ordering key of `|PM|`, `PM = (arg r mod 360°) - 180°`: `|PM|` is the angle between `r` and the
negative real axis, which increases with `re·|re| / |r|²`; `arg 0 = 0` gives the largest key. -/
def pmKey (r : Cx K) : K :=
  if normSq r = 0 then 1 else r.re * |r.re| / normSq r

/-- ordering key of `SM = |r + 1|`. -/
def smKey (r : Cx K) : K := normSq (r + 1)

/-- default gain margin: the crossing with the smallest `|log GM|` among those with finite `GM`
(`none`: the code returns `(inf, nan)`). -/
def defaultGm {α : Type*} (l : List (α × Cx K)) : Option (α × Cx K) :=
  argminBy (fun c => gmKey c.2) (l.filter fun c => normSq c.2 ≠ 0)

/-- strip the `Option` from a response list; `none` when some response does not exist. -/
def allSome {α β : Type*} : List (α × Option β) → Option (List (α × β))
  | [] => some []
  | (a, some b) :: l => (allSome l).map ((a, b) :: ·)
  | (_, none) :: _ => none

def defaultPm {α : Type*} (l : List (α × Cx K)) : Option (α × Cx K) :=
  argminBy (fun c => pmKey c.2) l

def defaultSm {α : Type*} (l : List (α × Cx K)) : Option (α × Cx K) :=
  argminBy (fun c => smKey c.2) l

/-! #### discrete time -/

/-- `abs(abs(z) - 1) < eps`, decided on `|z|²`. -/
def inBand (eps : K) (z : Cx K) : Bool :=
  decide (0 < eps) && decide (normSq z < (1 + eps) * (1 + eps)) &&
    (decide (1 - eps < 0) || decide ((1 - eps) * (1 - eps) < normSq z))

/-- `0 <= angle(z) < pi` -/
def upperHalf (z : Cx K) : Bool := decide (0 < z.im) || (decide (z.im = 0) && decide (0 < z.re))

/-- `_z_filter` (the frequency `angle(z)/dt` is computed by the caller). -/
def zFilter (eps : K) (zs : List (Cx K)) : List (Cx K) :=
  zs.filter fun z => inBand eps z && upperHalf z

/-- ordering key of `angle(z)` on the closed upper half plane: decreasing `re/|z|`. -/
def angKey (z : Cx K) : K := -(z.re * |z.re| / normSq z)

def sortByAng {β : Type*} (l : List (Cx K × β)) : List (Cx K × β) :=
  l.mergeSort fun a b => decide (angKey a.1 ≤ angKey b.1)

/-- discrete real-axis candidates (`epsw = 0`: `w >= 0` holds for every filtered root). -/
def zRealAxisCandidates (num den : List K) (eps : K) (roots : List (Cx K)) :
    List (Cx K × Option (Cx K)) :=
  (zFilter eps roots).map fun z => (z, respAt num den z)

def zPhaseCrossings (num den : List K) (eps : K) (roots : List (Cx K)) : List (Cx K × Cx K) :=
  sortByAng ((zRealAxisCandidates num den eps roots).filterMap fun c =>
    match c.2 with
    | some r => if lexLe0 r then some (c.1, r) else none
    | none => none)

/-- discrete gain crossings (`epsw = 0`: `w > 0` means `angle(z) > 0`, i.e. `im z > 0`). -/
def zGainCrossings (num den : List K) (eps : K) (roots : List (Cx K)) :
    List (Cx K × Option (Cx K)) :=
  sortByAng (((zFilter eps roots).filter fun z => 0 < z.im).map fun z => (z, respAt num den z))

/-! #### discrete stability margin: minimality over the unit circle

`_poly_z_wstab` hands the search for the minimum of `|1 + L(exp(jθ))|` to `scipy.optimize.minimize`
(a parameter of the model).  What the property claims about its result — "the stability margin is
the minimum over frequency of `|1 + L|`" — is `CircleMin`; the model checks it against a list of
candidate points that lie *exactly* on the unit circle (`smRefuted`): one such point with a smaller
`|1 + L|` refutes minimality. -/

/-- `r` is a smallest value of `|1 + L(z)|` over the unit circle (where `L(z)` exists). -/
def CircleMin (num den : List K) (r : Cx K) : Prop :=
  ∀ z r', normSq z = 1 → respAt num den z = some r' → smKey r ≤ smKey r'

/-- the candidate points that lie exactly on the unit circle, with the loop response there
(points off the circle and poles of the loop are dropped). -/
def circleWitnesses (num den : List K) (ws : List (Cx K)) : List (Cx K × Cx K) :=
  ws.filterMap fun z =>
    if normSq z = 1 then (respAt num den z).map fun r => (z, r) else none

/-- the witness with the smallest `|1 + L|` (the first one among equals). -/
def bestWitness (num den : List K) (ws : List (Cx K)) : Option (Cx K × Cx K) :=
  argminBy (fun c => smKey c.2) (circleWitnesses num den ws)

/-- `true` when some candidate on the unit circle has a strictly smaller `|1 + L|` than the
response `r` at the reported point. -/
def smRefuted (num den : List K) (ws : List (Cx K)) (r : Cx K) : Bool :=
  match bestWitness num den ws with
  | some w => decide (smKey w.2 < smKey r)
  | none => false

/-- `_likely_numerical_inaccuracy`: `norm(p1) < 1e-4 * norm(p2)` (`tol2 = (1e-4)²`). -/
def likelyInaccurate [DecidableEq K] (num den : List K) (tol2 : K) : Bool :=
  decide (coeffNormSq (zMag1P1 num den) < tol2 * coeffNormSq (zMag1P2 den))

/-! ### bandwidth -/

inductive BwResult (K : Type*) where
  | nan                      -- infinite DC gain
  | inf                      -- the sampled gain never drops below the threshold
  | bracket (k : Nat)        -- the root is searched between grid points `k-1` and `k`
  deriving DecidableEq, Repr

/-- DC gain: `sys(0)` (continuous) or `sys(1)` (discrete); `none` when the denominator vanishes
there and the numerator does not (`inf`); the indeterminate `0/0` is `nan` in the code, for which
every comparison fails. -/
inductive DcGain (K : Type*) where
  | finite (g : K) | infinite | indeterminate
  deriving DecidableEq, Repr

def dcGain [DecidableEq K] (num den : List K) (p0 : K) : DcGain K :=
  if polyval den p0 = 0 then (if polyval num p0 = 0 then .indeterminate else .infinite)
  else .finite (polyval num p0 / polyval den p0)

/-- index of the first sample whose squared gain is below `t2` (`np.nonzero(mag - thr < 0)[0][0]`). -/
def firstDrop (num den : List K) (t2 : K) : List (Cx K) → Nat → Option Nat
  | [], _ => none
  | z :: zs, k =>
    match respAt num den z with
    | some r => if normSq r < t2 then some k else firstDrop num den t2 zs (k + 1)
    | none => firstDrop num den t2 zs (k + 1)

/-- `LTI.bandwidth` up to the bisection: `thr = 10**(dbdrop/20)`, `grid` = evaluation points of
`frequency_response` on `_default_frequency_range`.  The gain is compared with `|dcgain|·thr`
(the magnitude of the DC gain, as documented). -/
def bandwidth [DecidableEq K] (num den : List K) (p0 : K) (dbdrop thr : K) (grid : List (Cx K)) :
    Except Err (BwResult K) :=
  if 0 ≤ dbdrop then .error .badArg else
  match dcGain num den p0 with
  | .infinite => .ok .nan
  | .indeterminate => .ok .inf
  | .finite g =>
    match firstDrop num den ((|g| * thr) * (|g| * thr)) grid 0 with
    | none => .ok .inf
    | some k => .ok (.bracket k)

end field

end CtrlVerif.Margins
