/-
Meaning of the Python objects and primitives that `harness/core/py2lean_getitem.py` (part C18) emits
when it translates the DATA PROPERTIES of the response classes into Lean
(`Generated/ResponseTime.lean`: `TimeResponseData.time / outputs / states / inputs / _legacy_states /
__iter__ / __len__`, control/timeresp.py;  `Generated/ResponseFreq.lean`: `FrequencyResponseData.
magnitude / phase / frequency / complex / response / __iter__`, control/frdata.py).  Hand-written,
small, trusted (notes/NOTES-py2lean-getitem.md); everything else is proved in `Props/C18GenProps.lean`.

A response object is the record of the model (`TRD α`: stored arrays `t y x u`, the SISO flag, the
four counts, the stored settings `squeeze transpose return_x`;  `RespFRD α`: `frdata`, the number
of frequencies, `squeeze`, `return_magphase`) TOGETHER WITH the attributes the model leaves out:
the label lists handed to `NamedSignal`, for an FRD the signal counts `ninputs / noutputs` (which
`issiso()` reads — the constructor does not compare them with the data shape) and the legacy flag
`_return_singvals`.  Arrays are the `(shape, flat data)` arrays of `Model/Shape.lean`; `x[:, 0, :]`
is `NDArr.dropTrace`, `np.transpose(x, np.roll(range(x.ndim), 1))` is `NDArr.timeFirst`,
`np.abs / np.angle` of an array of arbitrary entries are the tags `FItem.mag / FItem.phase`, an array
passed on unchanged is `FItem.cplx`, the stored frequency vector is `FItem.omega`.
`_process_time_response` / `_process_frequency_response` are the functions regenerated from their own
source text (`Generated/ProcessResponse.lean`); the latter receives `sys.issiso()` and
`np.asarray(omega).ndim` — for the stored frequency vector of an FRD that is 1 (`omegaNdim`: the
constructor makes `omega` a 1-D array).
-/
import CtrlVerif.Model.Response

namespace CtrlVerif.PyResp

open CtrlVerif

variable {α : Type}

/-- a `TimeResponseData` object. -/
structure TRObj (α : Type) where
  core : TRD α
  output_labels : Option (List String)
  input_labels : Option (List String)
  state_labels : Option (List String)

/-- an element of the tuple `TimeResponseData.__iter__` yields: a plain array (`time`), a
`NamedSignal` (`outputs`), or an array-or-`None` (`_legacy_states`). -/
inductive Item (α : Type) where
  | arr (a : NDArr α)
  | sig (s : NamedSignal α)
  | opt (a : Option (NDArr α))

/-- the array behind an item (labels forgotten). -/
def Item.toArr : Item α → Option (NDArr α)
  | .arr a => some a
  | .sig s => some s.arr
  | .opt a => a

/-- a `FrequencyResponseData` object. -/
structure FRObj (α : Type) where
  core : RespFRD α
  ninputs : Nat
  noutputs : Nat
  output_labels : Option (List String)
  input_labels : Option (List String)
  return_singvals : Bool

/-- `InputOutputSystem.issiso(self)`: `self.ninputs == 1 and self.noutputs == 1`. -/
def FRObj.issiso (F : FRObj α) : Bool := decide (F.ninputs = 1) && decide (F.noutputs = 1)

/-- `np.asarray(self.omega).ndim` of the stored frequency vector. -/
def omegaNdim (_F : FRObj α) : Nat := 1

/-- `NamedSignal(f(frdata), output_labels, input_labels)` of a frequency response: the tagged
array with the two label lists. -/
structure FSignal (α : Type) where
  item : FItem α
  signalLabels : Option (List String)
  traceLabels : Option (List String)

end CtrlVerif.PyResp
