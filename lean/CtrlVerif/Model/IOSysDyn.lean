/-
Run-time shaped layer of the I/O-system model (control/nlsys.py): polynomial update/output maps
(the expression language the harness also turns into Python callables), parameter dictionaries,
`_process_vector_argument`, the input broadcasting of `input_output_response`, the time-grid
checks, operand conversion (`_convert_to_iosystem`), shape/timebase checks of the operators,
`find_operating_point`'s index bookkeeping.  The maps themselves are the typed definitions of
`Model/IOSys.lean` (the ones the theorems of `Props/C08.lean` are about); this layer decides which
of them is applied to what and re-types `Fin a ⊕ Fin b` as `Fin (a + b)`.

Everything here is over `ℚ` (the driver's field).
-/
import CtrlVerif.Model.IOSys
import CtrlVerif.Model.Dt
import Mathlib.Logic.Equiv.Fin.Basic
import Mathlib.Algebra.Field.Rat
import Mathlib.Algebra.Order.Ring.Rat

namespace CtrlVerif

open Matrix

abbrev Q := Rat

/-! ### strict vectors (evaluation device, provably the identity) -/

structure Box (α : Type) where
  val : α

/-- tabulate a vector once; the returned closure reads the table. -/
def memoBox {n : Nat} (g : Fin n → Q) : Box (Fin n → Q) :=
  let a : { a : Array Q // a.size = n } := ⟨Array.ofFn g, Array.size_ofFn⟩
  ⟨fun i => a.1[i.val]'(by rw [a.2]; exact i.isLt)⟩

theorem memoBox_val {n : Nat} (g : Fin n → Q) : (memoBox g).val = g := by
  funext i
  simp [memoBox]

namespace IOSys

/-- the same system, with every vector it returns tabulated (so that a trajectory is not a tower
of closures). -/
def strict {n m p : Nat} (G : IOSys (Fin n) (Fin m) (Fin p) Q) : IOSys (Fin n) (Fin m) (Fin p) Q where
  f t x u := match G.f t x u with
    | .error e => .error e
    | .ok v => .ok (memoBox v).val
  h t x u := match G.h t x u with
    | .error e => .error e
    | .ok v => .ok (memoBox v).val

theorem strict_eq {n m p : Nat} (G : IOSys (Fin n) (Fin m) (Fin p) Q) : G.strict = G := by
  cases G with
  | mk f h =>
    simp only [strict, memoBox_val]
    congr 1
    · funext t x u; cases f t x u <;> rfl
    · funext t x u; cases h t x u <;> rfl

/-- re-type along equalities of the dimensions. -/
def cast {n n' m m' p p' : Nat} (hn : n = n') (hm : m = m') (hp : p = p')
    (G : IOSys (Fin n) (Fin m) (Fin p) Q) : IOSys (Fin n') (Fin m') (Fin p') Q :=
  G.reindex (finCongr hn) (finCongr hm) (finCongr hp)

/-- states `Fin a ⊕ Fin b` as `Fin (a + b)`. -/
def flat {a b : Nat} {ι o : Type} (G : IOSys (Fin a ⊕ Fin b) ι o Q) : IOSys (Fin (a + b)) ι o Q :=
  G.reindex finSumFinEquiv (Equiv.refl _) (Equiv.refl _)

end IOSys

/-! ### polynomial maps with parameters -/

inductive PVar where
  | t
  | x (i : Nat)
  | u (i : Nat)
  | p (name : String)
  deriving Repr, DecidableEq

structure PTerm where
  coef : Q
  vars : List (PVar × Nat)

abbrev PPoly := List PTerm
/-- a parameter dictionary; the first binding of a name wins. -/
abbrev ParamEnv := List (String × Q)

def evalVar (env : ParamEnv) {n m : Nat} (t : Q) (x : Fin n → Q) (u : Fin m → Q) : PVar → Except Err Q
  | .t => .ok t
  | .x i => if h : i < n then .ok (x ⟨i, h⟩) else .error .indexRange
  | .u i => if h : i < m then .ok (u ⟨i, h⟩) else .error .indexRange
  | .p s => match env.lookup s with
    | some v => .ok v
    | none => .error .unknownName

def evalTerm (env : ParamEnv) {n m : Nat} (t : Q) (x : Fin n → Q) (u : Fin m → Q) (tm : PTerm) :
    Except Err Q :=
  tm.vars.foldlM (fun acc ve => do
    let v ← evalVar env t x u ve.1
    pure (acc * v ^ ve.2)) tm.coef

def evalPoly (env : ParamEnv) {n m : Nat} (t : Q) (x : Fin n → Q) (u : Fin m → Q) (p : PPoly) :
    Except Err Q :=
  p.foldlM (fun acc tm => do
    let v ← evalTerm env t x u tm
    pure (acc + v)) 0

/-- a list of the right length as a vector. -/
def vecOfList (n : Nat) (l : List Q) : Except Err (Fin n → Q) :=
  if h : l.length = n then .ok (fun i => l[i.val]'(h ▸ i.isLt)) else .error .shape

/-- `NonlinearIOSystem(updfcn, outfcn, inputs=m, outputs=p, states=n)` with polynomial
callables; `hs = none` is `outfcn=None` (the output is the state). -/
def polySys (n m p : Nat) (fs : List PPoly) (hs : Option (List PPoly)) (env : ParamEnv) :
    IOSys (Fin n) (Fin m) (Fin p) Q where
  f t x u := do
    let l ← fs.mapM (evalPoly env t x u)
    vecOfList n l
  h t x u :=
    match hs with
    | some hs => do
      let l ← hs.mapM (evalPoly env t x u)
      vecOfList p l
    | none => if h : p = n then .ok (fun i => x (Fin.cast h i)) else .error .badArg

/-! ### systems of run-time size -/

/-- an I/O system object: sizes, timebase, `self.params`, and the maps after
`_update_params(env)` (`env` = the `params` argument of the call). -/
structure DIO where
  n : Nat
  m : Nat
  p : Nat
  dt : Dt
  params : ParamEnv
  build : ParamEnv → IOSys (Fin n) (Fin m) (Fin p) Q
  /-- the matrices when the object is a `StateSpace` (Python tries its operators first: it is a
  subclass of `NonlinearIOSystem` that overrides the reflected operators). -/
  ss : Option (SS (Fin n) (Fin m) (Fin p) Q) := none
  /-- the object's class is exactly `NonlinearIOSystem` (not an `InterconnectedSystem`): then a
  `StateSpace` right operand is asked first (`__radd__`, `__rsub__`). -/
  plain : Bool := false

namespace DIO

/-- `NonlinearIOSystem._update_params`: `self.params` updated by the call's dictionary. -/
def ofPoly (n m p : Nat) (dt : Dt) (params : ParamEnv) (fs : List PPoly) (hs : Option (List PPoly)) :
    DIO :=
  ⟨n, m, p, dt, params, fun env => polySys n m p fs hs (env ++ params), none, true⟩

/-- `NonlinearIOSystem(updfcn, outfcn, …, params=params)` whose callables read further parameters
as `params.get(name, default)`: such a name is not in `self.params` (so it is not merged into the
`params` of an interconnection), it can be overridden by a call or by a dictionary passed down from an
interconnection, and otherwise has the value written in the callable. -/
def ofPolyD (n m p : Nat) (dt : Dt) (params defaults : ParamEnv) (fs : List PPoly)
    (hs : Option (List PPoly)) : DIO :=
  ⟨n, m, p, dt, params, fun env => polySys n m p fs hs (env ++ params ++ defaults), none, true⟩

/-- a `StateSpace` object (no parameters). -/
def ofSS (n m p : Nat) (dt : Dt) (G : SS (Fin n) (Fin m) (Fin p) Q) : DIO :=
  ⟨n, m, p, dt, [], fun _ => (IOSys.ofSS G).strict, some G, false⟩

def lin (G : DIO) : Bool := G.ss.isSome

/-- `-self` for a `StateSpace` (`StateSpace.__neg__`, C02). -/
def negSS (G : DIO) : DIO :=
  match G.ss with
  | some S => ofSS G.n G.m G.p G.dt S.neg
  | none => G

/-- `_convert_to_iosystem(array)`: a static gain, `dt=None`. -/
def ofMatrix (p m : Nat) (M : Matrix (Fin p) (Fin m) Q) : DIO :=
  ofSS 0 m p .none (SS.static M)

/-- `_convert_to_iosystem(scalar)`: 1×1. -/
def ofScalar (c : Q) : DIO := ofMatrix 1 1 (fun _ _ => c)

/-- timebase of `InterconnectedSystem((s1, s2))`: `common_timebase` folded from `None`. -/
def dt2 (a b : Dt) : Except Err Dt := do
  let d ← common .none a
  common d b

/-- `self * other`. -/
def mul (self other : DIO) : Except Err DIO :=
  if h : other.p = self.m then do
    let _ ← common other.dt self.dt
    let dt ← dt2 other.dt self.dt
    let ps := self.params ++ other.params
    pure ⟨other.n + self.n, other.m, self.p, dt, ps, fun env =>
      let G₁ := self.build (env ++ ps)
      let G₂ := (other.build (env ++ ps)).cast rfl rfl h
      (IOSys.mul G₁ G₂).flat.strict, none, false⟩
  else .error .shape

/-- `other * self` through `__rmul__`: system list `(self, other)`. -/
def rmul (self other : DIO) : Except Err DIO :=
  if h : self.p = other.m then do
    let _ ← common self.dt other.dt
    let dt ← dt2 self.dt other.dt
    let ps := other.params ++ self.params
    pure ⟨self.n + other.n, self.m, other.p, dt, ps, fun env =>
      let G₁ := other.build (env ++ ps)
      let G₂ := (self.build (env ++ ps)).cast rfl rfl h
      (IOSys.mul G₁ G₂).flat.strict, none, false⟩
  else .error .shape

/-- `first + second` / `first - second` with the system list `(first, second)`. -/
def addsub (first second : DIO) (minus : Bool) : Except Err DIO :=
  if h : first.m = second.m ∧ first.p = second.p then do
    let dt ← dt2 first.dt second.dt
    let ps := second.params ++ first.params
    pure ⟨first.n + second.n, first.m, first.p, dt, ps, fun env =>
      let G₁ := first.build (env ++ ps)
      let G₂ := (second.build (env ++ ps)).cast rfl h.1.symm h.2.symm
      (if minus then IOSys.sub G₁ G₂ else IOSys.add G₁ G₂).flat.strict, none, false⟩
  else .error .shape

/-- `-self`. -/
def neg (self : DIO) : DIO :=
  ⟨self.n, self.m, self.p, self.dt, self.params, fun env =>
    (IOSys.neg (self.build (env ++ self.params))).strict, none, false⟩

/-- `self.feedback(other, sign)`. -/
def feedback (self other : DIO) (sign : Q) : Except Err DIO :=
  if h : self.p = other.m ∧ other.p = self.m then do
    let dt0 ← common self.dt other.dt
    let dt ← dt2 self.dt other.dt
    let _ ← common dt0 dt
    let ps := other.params ++ self.params
    pure ⟨self.n + other.n, self.m, self.p, dt, ps, fun env =>
      let G₁ := self.build (env ++ ps)
      let G₂ := (other.build (env ++ ps)).cast rfl h.1.symm h.2
      (IOSys.feedback G₁ G₂ sign).flat.strict, none, false⟩
  else .error .shape

/-- `self.feedback(other, sign, params=given)`: a dictionary given at construction *is* the
`params` of the interconnection (`None`: the subsystems' dictionaries merged). -/
def feedbackP (self other : DIO) (sign : Q) (given : Option ParamEnv) : Except Err DIO :=
  if h : self.p = other.m ∧ other.p = self.m then do
    let dt0 ← common self.dt other.dt
    let dt ← dt2 self.dt other.dt
    let _ ← common dt0 dt
    let ps := given.getD (other.params ++ self.params)
    pure ⟨self.n + other.n, self.m, self.p, dt, ps, fun env =>
      let G₁ := self.build (env ++ ps)
      let G₂ := (other.build (env ++ ps)).cast rfl h.1.symm h.2
      (IOSys.feedback G₁ G₂ sign).flat.strict, none, false⟩
  else .error .shape

end DIO

/-- operands of the Python operators. -/
inductive IOperand where
  | sys (G : DIO)
  | scalar (c : Q)
  | array (p m : Nat) (D : Matrix (Fin p) (Fin m) Q)

/-- `_convert_to_iosystem`. -/
def IOperand.toSys : IOperand → DIO
  | .sys G => G
  | .scalar c => DIO.ofScalar c
  | .array p m D => DIO.ofMatrix p m D

namespace IOperand

/-- Python's dispatch of `a * b` when at least one operand is a (non-`StateSpace`) I/O system:
`a.__mul__(b)` unless `a` is a number, an array or a `StateSpace` (which returns
`NotImplemented`), then `b.__rmul__(a)`. -/
def mul : IOperand → IOperand → Except Err DIO
  | .sys A, b => if !A.lin then A.mul b.toSys else
      match b with
      | .sys B => if !B.lin then B.rmul A else .error .notImplemented
      | _ => .error .notImplemented
  | a, .sys B => if !B.lin then B.rmul a.toSys else .error .notImplemented
  | _, _ => .error .notImplemented

/-- `a + b`: `a.__add__(b)` builds the list `(a, b)`; `b.__radd__(a)` builds `(a, b)` as well.
When `b` is a `StateSpace` and the class of `a` is exactly `NonlinearIOSystem`, Python calls `b.__radd__(a)` first (`b`'s class
is a subclass overriding the reflected method), which evaluates `b + a` and ends in
`a.__radd__(b)`: the list is `(b, a)`. -/
def add : IOperand → IOperand → Except Err DIO
  | .sys A, b => if !A.lin then
      match b with
      | .sys B => if B.lin && A.plain then DIO.addsub B A false else DIO.addsub A B false
      | _ => DIO.addsub A b.toSys false
    else
      match b with
      | .sys B => if !B.lin then DIO.addsub A B false else .error .notImplemented
      | _ => .error .notImplemented
  | a, .sys B => if !B.lin then DIO.addsub a.toSys B false else .error .notImplemented
  | _, _ => .error .notImplemented

/-- `a - b`; `StateSpace.__sub__` is `self + (-other)`, so `ss - nl` is `(-nl).__radd__(ss)`;
`nl - ss` is first `ss.__rsub__(nl)` = `nl + (-ss)`, which ends in the list `(-ss, nl)`. -/
def sub : IOperand → IOperand → Except Err DIO
  | .sys A, b => if !A.lin then
      match b with
      | .sys B => if B.lin && A.plain then DIO.addsub B.negSS A false else DIO.addsub A B true
      | _ => DIO.addsub A b.toSys true
    else
      match b with
      | .sys B => if !B.lin then DIO.addsub A B.neg false else .error .notImplemented
      | _ => .error .notImplemented
  | a, .sys B => if !B.lin then DIO.addsub a.toSys B true else .error .notImplemented
  | _, _ => .error .notImplemented

/-- `a / c` for a number `c`: `a * (1/c)`. -/
def div : IOperand → IOperand → Except Err DIO
  | .sys A, .scalar c =>
    if A.lin then .error .notImplemented
    else if c = 0 then .error .zeroDen else A.mul (DIO.ofScalar (1 / c))
  | _, _ => .error .notImplemented

/-- `a.feedback(b, sign)` for a non-`StateSpace` `a`. -/
def feedback : IOperand → IOperand → Q → Except Err DIO
  | .sys A, b, sign => if !A.lin then A.feedback b.toSys sign else .error .notImplemented
  | _, _, _ => .error .notImplemented

/-- `a.feedback(b, sign, params=given)`. -/
def feedbackP : IOperand → IOperand → Q → Option ParamEnv → Except Err DIO
  | .sys A, b, sign, given =>
    if !A.lin then A.feedbackP b.toSys sign given else .error .notImplemented
  | _, _, _, _ => .error .notImplemented

def neg : IOperand → Except Err DIO
  | .sys A => if !A.lin then .ok A.neg else .error .notImplemented
  | _ => .error .notImplemented

end IOperand

/-! ### `_process_vector_argument` -/

/-- the forms of a vector argument: `None`, a scalar, a list/tuple (every element flattened),
an ndarray (flattened). -/
inductive VArg where
  | none
  | scalar (c : Q)
  | list (parts : List (List Q))
  | array (v : List Q)

/-- `_process_vector_argument(arg, name, size)` for a known `size`: the value zero-padded to
`size` (an empty value cannot be padded: `val[-1]` raises), `_find_size` rejects a longer one. -/
def processVector (arg : VArg) (size : Nat) : Except Err (Option (List Q)) :=
  let pad (val : List Q) : Except Err (Option (List Q)) :=
    if val.length < size then
      if val.isEmpty then .error .indexRange
      else .ok (some (val ++ List.replicate (size - val.length) 0))
    else if val.length = size then .ok (some val)
    else .error .shape
  match arg with
  | .none => .ok Option.none
  | .scalar c => pad (List.replicate size c)
  | .list parts => pad parts.flatten
  | .array v => pad v

/-! ### the input argument of `input_output_response` -/

inductive UElem where
  | scalar (c : Q)
  | vec (v : List Q)
  | mat (rows : List (List Q))

inductive UArg where
  | scalar (c : Q)
  | arr1 (v : List Q)
  | arr2 (rows : List (List Q))
  | list (es : List UElem)

/-- `_check_convert_array(U, legal_shapes)` for a 2-D array given by its rows. -/
def checkU2 (N m : Nat) (rows : List (List Q)) : Except Err (List (List Q)) :=
  if rows.length = m ∧ ∀ r ∈ rows, r.length = N then .ok rows else .error .shape

/-- … for a 1-D array: legal only for a single input. -/
def checkU1 (N m : Nat) (v : List Q) : Except Err (List (List Q)) :=
  if m = 1 ∧ v.length = N then .ok [v] else .error .shape

/-- the input as `m` rows of `N` samples: mixed lists are broadcast and stacked when
`len(U) != ntimepts`, otherwise the list is converted as it stands (`np.asarray`); a scalar fills
the first legal shape. -/
def processInputs (N m : Nat) : UArg → Except Err (List (List Q))
  | .scalar c => .ok (List.replicate (if m = 1 then 1 else m) (List.replicate N c))
  | .arr1 v => checkU1 N m v
  | .arr2 rows => checkU2 N m rows
  | .list es =>
    if es.length ≠ N then do
      let parts ← es.mapM fun e =>
        match e with
        | .scalar c => pure [List.replicate N c]
        | .vec v => if v.length ≠ N then pure (v.map (List.replicate N ·)) else pure [v]
        | .mat rows => if ∀ r ∈ rows, r.length = N then pure rows else .error .shape
      if es.isEmpty then .error .shape else checkU2 N m parts.flatten
    else
      -- np.asarray of the list as it stands
      if es.all (fun e => match e with | .scalar _ => true | _ => false) then
        checkU1 N m (es.filterMap fun e => match e with | .scalar c => some c | _ => none)
      else
        match es with
        | .vec v0 :: _ =>
          if es.all (fun e => match e with | .vec v => v.length == v0.length | _ => false) then
            checkU2 N m (es.filterMap fun e => match e with | .vec v => some v | _ => none)
          else .error .shape
        | _ => .error .shape

/-- column `k` of the row representation. -/
def column (m : Nat) (rows : List (List Q)) (k : Nat) : Except Err (Fin m → Q) := do
  let l ← rows.mapM fun r => match r[k]? with
    | some v => pure v
    | none => .error .indexRange
  vecOfList m l

/-! ### `input_output_response`, discrete time and static systems -/

def absQ (a : Q) : Q := if a < 0 then -a else a

/-- `np.allclose(t_eval[1:] - t_eval[:-1], dt)`. -/
def evenlySpaced (ts : List Q) (dt : Q) : Bool :=
  (ts.zip ts.tail).all fun ab => close (ab.2 - ab.1) dt

structure Traj where
  times : List Q
  xs : List (List Q)
  us : List (List Q)
  ys : List (List Q)

def listOf {n : Nat} (v : Fin n → Q) : List Q := List.ofFn v

/-- the body of `input_output_response` for a system with a discrete timebase (`dt = True` or
`dt > 0`) or without states. -/
def response (G : DIO) (env : ParamEnv) (T : List Q) (tEval : Option (List Q)) (U : UArg) (X0 : VArg) :
    Except Err Traj := do
  let t0 ← match T with
    | [] => .error .indexRange
    | t0 :: _ => pure t0
  let N := T.length
  let te := tEval.getD T
  let rows ← processInputs N G.m U
  let x0l ← match ← processVector X0 G.n with
    | some v => pure v
    | none => .error .badArg
  let x0 ← vecOfList G.n x0l
  let sys := G.build env
  let cols ← (List.range N).mapM (column G.m rows)
  let u00 ← match cols with
    | [] => .error .indexRange
    | c :: _ => pure c
  -- `noutputs = np.shape(sys._out(T[0], X0, U[:, 0]))[0]`
  let _ ← sys.h t0 x0 u00
  let uf := IOSys.ufun T cols
  if G.n = 0 then
    -- static system: no grid checks
    let tr ← te.mapM fun t => do
      let u ← uf t
      let y ← sys.h t x0 u
      pure (listOf u, listOf y)
    pure ⟨te, te.map fun _ => [], tr.map (·.1), tr.map (·.2)⟩
  else do
    match G.dt with
    | .dtrue => pure ()
    | .disc _ => pure ()
    | _ => .error .notImplemented        -- continuous time: `solve_ivp`, not modelled
    let dt ← match te with
      | a :: b :: _ => pure (b - a)
      | _ => .error .indexRange
    if !evenlySpaced te dt then .error .timebase
    match G.dt with
    | .disc h => if !close dt h then .error .timebase
    | _ => pure ()
    let tr ← IOSys.simulate sys uf te x0
    pure ⟨te, tr.map fun s => listOf s.1, tr.map fun s => listOf s.2.1, tr.map fun s => listOf s.2.2⟩

/-! ### `linearize` -/

/-- `sys.linearize(x0, u0, t, params, eps)`. -/
def linearizeD (G : DIO) (env : ParamEnv) (t : Q) (X0 U0 : VArg) (eps : Q) :
    Except Err (SS (Fin G.n) (Fin G.m) (Fin G.p) Q) := do
  let x0l ← match ← processVector X0 G.n with
    | some v => pure v
    | none => .error .badArg
  let u0l ← match ← processVector U0 G.m with
    | some v => pure v
    | none => .error .badArg
  let x0 ← vecOfList G.n x0l
  let u0 ← vecOfList G.m u0l
  IOSys.linearize (G.build env) t x0 u0 eps

/-- the first argument of `linearize`: a state vector or an `OperatingPoint` object (its
`states` and `inputs` attributes). -/
inductive XArg where
  | vec (x : VArg)
  | op (states inputs : VArg)

/-- the point at which `NonlinearIOSystem.linearize(x0, u0=None, …)` linearises (`u0 = .none`: the
argument is omitted or `None`; the function `linearize(sys, xeq, ueq=None, …)` passes its `ueq` on):
```
if isinstance(x0, OperatingPoint):
    u0 = x0.inputs if u0 is None else u0
    x0 = x0.states
elif u0 is None:
    u0 = 0
``` -/
def linPoint : XArg → VArg → VArg × VArg
  | .op xs us, .none => (xs, us)
  | .op xs _, u => (xs, u)
  | .vec x, .none => (x, .scalar 0)
  | .vec x, u => (x, u)

/-- `sys.linearize(x0[, u0], t, params, eps)` with the argument forms of `linPoint`. -/
def linearizeP (G : DIO) (env : ParamEnv) (t : Q) (X : XArg) (U : VArg) (eps : Q) :
    Except Err (SS (Fin G.n) (Fin G.m) (Fin G.p) Q) :=
  linearizeD G env t (linPoint X U).1 (linPoint X U).2 eps

/-! ### `dynamics`, `output` -/

/-- `sys.dynamics(t, x, u, params)`: `_update_params(params)`, then `_rhs`. -/
def dynamicsD (G : DIO) (env : ParamEnv) (t : Q) (x u : List Q) : Except Err (List Q) := do
  let x ← vecOfList G.n x
  let u ← vecOfList G.m u
  let v ← (G.build env).f t x u
  pure (listOf v)

/-- `sys.output(t, x, u, params)`: `_update_params(params)`, then `_out`. -/
def outputD (G : DIO) (env : ParamEnv) (t : Q) (x u : List Q) : Except Err (List Q) := do
  let x ← vecOfList G.n x
  let u ← vecOfList G.m u
  let v ← (G.build env).h t x u
  pure (listOf v)

/-! ### `find_operating_point`: the index bookkeeping -/

/-- Python/NumPy index normalisation: `-n ≤ i < 0` counts from the end. -/
def normIdx (n : Nat) (l : List Int) : Except Err (List (Fin n)) :=
  l.mapM fun (i : Int) =>
    if h : 0 ≤ i ∧ i.toNat < n then .ok ⟨i.toNat, h.2⟩
    else if h : i < 0 ∧ 0 ≤ i + (n : Int) ∧ (i + (n : Int)).toNat < n then
      .ok ⟨(i + (n : Int)).toNat, h.2.2⟩
    else .error .indexRange

/-- the four index lists. -/
structure OpIdx (n m p : Nat) where
  stateVars : List (Fin n)     -- states that vary
  inputVars : List (Fin m)     -- inputs that vary
  derivVars : List (Fin n)     -- constrained updates
  outputVars : List (Fin p)    -- constrained outputs (used when `y0` is given)

def complementOf {n : Nat} (fixed : List (Fin n)) : List (Fin n) :=
  (List.finRange n).filter (fun i => !fixed.contains i)

/-- `state_vars`, `input_vars`, `deriv_vars`, `output_vars` of `find_operating_point`; without any
index list the two special cases (inputs fixed / outputs fixed). -/
def opIndexing (n m p : Nat) (iu iy ix idx : Option (List Int)) (hasY0 : Bool) :
    Except Err (OpIdx n m p) :=
  match iu, iy, ix, idx with
  | none, none, none, none =>
    if hasY0 then .ok ⟨List.finRange n, List.finRange m, List.finRange n, List.finRange p⟩
    else .ok ⟨List.finRange n, [], List.finRange n, []⟩
  | _, _, _, _ => do
    -- `min(iy)`, `min(ix)`, `min(idx)` of an empty list raise (ValueError) while the lists are
    -- looked at; out-of-range entries only fail later, when the lists are used (`np.delete`,
    -- `dx[deriv_vars]`, `dy[output_vars]` — the latter only when `y0` is given).
    let emptyGiven (l : Option (List Int)) : Bool := match l with
      | some l => l.isEmpty
      | none => false
    if emptyGiven iy || emptyGiven ix || emptyGiven idx then .error .badArg
    -- without states `deriv_vars = np.array([])` is a float array: `dx[deriv_vars]` raises
    if n = 0 then .error .indexRange
    let ixL ← match ix with
      | some l => normIdx n l
      | none => pure []
    let iuL ← match iu with
      | some l => normIdx m l
      | none => pure []
    let idxL ← match idx with
      | some l => normIdx n l
      | none => pure (List.finRange n)
    let iyL ← match iy with
      | some l => if hasY0 then normIdx p l else pure []
      | none => pure (List.finRange p)
    pure ⟨complementOf ixL, complementOf iuL, idxL, iyL⟩

/-- `x[vars] = z`. -/
def scatter {n : Nat} (base : Fin n → Q) (vars : List (Fin n)) (z : List Q) : Fin n → Q :=
  fun i => match (vars.zip z).lookup i with
    | some v => v
    | none => base i

/-- the data of an operating-point problem. -/
structure OpSpec (n m p : Nat) where
  t : Q
  x0 : Fin n → Q
  u0 : Fin m → Q
  y0 : Option (Fin p → Q)
  dx0 : Option (Fin n → Q)
  discrete : Bool
  idx : OpIdx n m p

namespace OpSpec
variable {n m p : Nat}

def xOf (S : OpSpec n m p) (z : List Q) : Fin n → Q :=
  scatter S.x0 S.idx.stateVars (z.take S.idx.stateVars.length)

def uOf (S : OpSpec n m p) (z : List Q) : Fin m → Q :=
  scatter S.u0 S.idx.inputVars (z.drop S.idx.stateVars.length)

/-- requested value of update `i` at state `x`: `dx0[i]` (default 0), plus `x[i]` in discrete time. -/
def target (S : OpSpec n m p) (x : Fin n → Q) (i : Fin n) : Q :=
  (match S.dx0 with | some d => d i | none => 0) + (if S.discrete then x i else 0)

/-- `rootfun(z)`: the constrained updates, then (when `y0` is given) the constrained outputs. -/
def rootfun (S : OpSpec n m p) (G : IOSys (Fin n) (Fin m) (Fin p) Q) (z : List Q) :
    Except Err (List Q) := do
  let x := S.xOf z
  let u := S.uOf z
  let fx ← G.f S.t x u
  let dres := S.idx.derivVars.map fun i => fx i - S.target x i
  match S.y0 with
  | none => pure dres
  | some y0 => do
    let y ← G.h S.t x u
    pure (dres ++ S.idx.outputVars.map fun j => y j - y0 j)

/-- the operating point returned for the root `z`. -/
def result (S : OpSpec n m p) (G : IOSys (Fin n) (Fin m) (Fin p) Q) (z : List Q) :
    Except Err ((Fin n → Q) × (Fin m → Q) × (Fin p → Q)) := do
  let x := S.xOf z
  let u := S.uOf z
  let y ← G.h S.t x u
  pure (x, u, y)

end OpSpec

/-- argument processing of `find_operating_point` up to the definition of `rootfun`. -/
def opProblem (G : DIO) (t : Q) (X0 U0 Y0 : VArg) (dx0 : Option (List Q))
    (iu iy ix idx : Option (List Int)) : Except Err (OpSpec G.n G.m G.p) := do
  let x0l ← match ← processVector X0 G.n with
    | some v => pure v
    | none => .error .badArg
  let u0l ← match ← processVector U0 G.m with
    | some v => pure v
    | none => .error .badArg
  let y0l ← processVector Y0 G.p
  let x0 ← vecOfList G.n x0l
  let u0 ← vecOfList G.m u0l
  let y0 ← match y0l with
    | some l => do
      let v ← vecOfList G.p l
      pure (some v)
    | none => pure none
  let d ← match dx0 with
    | some l => do
      let v ← vecOfList G.n l
      pure (some v)
    | none => pure none
  let index ← opIndexing G.n G.m G.p iu iy ix idx y0.isSome
  let disc := match G.dt with
    | .dtrue => true
    | .disc _ => true
    | _ => false
  pure ⟨t, x0, u0, y0, d, disc, index⟩

end CtrlVerif
