/-
Model of discretisation (`StateSpace.sample`, `TransferFunction.sample`, `_c2d_matched`,
`sample_system` in control/statesp.py, xferfcn.py, dtime.py) and of `pade` (control/delay.py).

* `SS.gbt α h W G`       SciPy's `cont2discrete(..., method='gbt', alpha)` formulas, with
                         `W = (I - α h A)⁻¹` supplied (certified: the run-time layer decides
                         `det ≠ 0` and uses `SS.invQ`);
* `gbtAlpha`             the method → α map (`bilinear`/`tustin` ½, `euler`/`forward_diff` 0,
                         `backward_diff` 1, `gbt` → the argument, validated);
* `twarp`                the prewarp decision; `numpy.tan` is an external routine, its value
                         `tan(ω Ts / 2)` is an argument;
* `SS.zoh`               zero-order hold from the blocks of `expm(h [[A, B], [0, 0]])`, supplied
                         externally, or computed exactly (`zohAd`, `zohBd`) when `A` is nilpotent;
* `DSS.sample`           the run-time layer: continuous-time test, `Ts`, dispatch, result `dt := Ts`;
* `tfGbt`, `tfSample`    the SISO transfer-function path: the exact counterpart of
                         `cont2discrete((num, den), …)` (= `tf2ss → gbt → ss2tf`), written as the
                         substitution `s = (z-1)/(h(αz+1-α))` on coefficient lists, monic denominator;
* `c2dMatched`           pole/zero matching through an abstract map `E` (`exp`), DC gain kept;
* `sampleNames`          name / signal-label handling of `sample`;
* `pade`                 the two coefficient recursions, the normalisation by `den[0]`, argument checks.
-/
import CtrlVerif.Model.SSDyn
import CtrlVerif.Model.Poly
import Mathlib.Algebra.Order.Field.Basic

namespace CtrlVerif

open Matrix

/-- the `method` strings `scipy.signal.cont2discrete` / python-control know. -/
inductive C2dMethod where
  | zoh | gbt | bilinear | tustin | euler | forwardDiff | backwardDiff
  | foh | impulse            -- accepted by SciPy, outside the property: not modelled
  | matched                  -- TransferFunction only
  | unknown                  -- any other string
  deriving DecidableEq, Repr, Inhabited

/-- the external value `numpy.tan(ω Ts / 2)` together with `ω`. -/
structure Prewarp (K : Type) where
  w : K
  tanv : K

section gbt

variable {K : Type*} [Field K]
variable {σ ι o : Type*}

namespace SS

/-- `ima = I - α h A` of `cont2discrete`. -/
def gbtIma [Fintype σ] [DecidableEq σ] (α h : K) (G : SS σ ι o K) : Matrix σ σ K :=
  1 - (α * h) • G.A

/-- `cont2discrete(..., 'gbt', α)` given `W = ima⁻¹`:
`Ad = W (I + (1-α) h A)`, `Bd = W h B`, `Cd = C W`, `Dd = D + α C Bd`. -/
def gbt [Fintype σ] [DecidableEq σ] (α h : K) (W : Matrix σ σ K) (G : SS σ ι o K) : SS σ ι o K where
  A := W * (1 + ((1 - α) * h) • G.A)
  B := W * (h • G.B)
  C := G.C * W
  D := G.D + α • (G.C * (W * (h • G.B)))

/-- `cont2discrete(..., 'zoh')` given `E = expm(h [[A, B], [0, 0]])`: the upper blocks. -/
def zoh (E : Matrix (σ ⊕ ι) (σ ⊕ ι) K) (G : SS σ ι o K) : SS σ ι o K :=
  ⟨E.toBlocks₁₁, E.toBlocks₁₂, G.C, G.D⟩

/-- contract of the external matrix exponential as zero-order hold uses it: `Φ t` stands for
`expm(t [[A, B], [0, 0]])` — a one-parameter semigroup whose lower block rows are `[0, I]`
(the held input stays constant).  That `t ↦ Φ t (x₀, u)` solves `ẋ = A x + B u` is the documented
meaning of `expm` and is not used by the theorems. -/
structure ExpFlow (σ ι : Type*) (K : Type*) [Fintype σ] [Fintype ι] [DecidableEq σ] [DecidableEq ι]
    [Field K] where
  Φ : K → Matrix (σ ⊕ ι) (σ ⊕ ι) K
  add : ∀ s t, Φ (s + t) = Φ s * Φ t
  low₂₁ : ∀ t, (Φ t).toBlocks₂₁ = 0
  low₂₂ : ∀ t, (Φ t).toBlocks₂₂ = 1

/-- `Σ_{j<N} h^j/j! A^j`. -/
def zohAd [Fintype σ] [DecidableEq σ] (h : K) (A : Matrix σ σ K) (N : Nat) : Matrix σ σ K :=
  ∑ j ∈ Finset.range N, (h ^ j / (j.factorial : K)) • A ^ j

/-- `(Σ_{j<N} h^(j+1)/(j+1)! A^j) B`. -/
def zohBd [Fintype σ] [DecidableEq σ] (h : K) (A : Matrix σ σ K) (B : Matrix σ ι K) (N : Nat) :
    Matrix σ ι K :=
  (∑ j ∈ Finset.range N, (h ^ (j + 1) / ((j + 1).factorial : K)) • A ^ j) * B

end SS

end gbt

section tfpath

variable {K : Type} [Field K] [DecidableEq K]

/-! ### transfer-function path -/

/-- `p ^ k` on coefficient lists. -/
def ppow (p : List K) : Nat → List K
  | 0 => [1]
  | k + 1 => polymul p (ppow p k)

/-- homogeneous substitution: for `l = [c₀, c₁, …, c_n]` (ascending!) the coefficient list of
`Σ c_k a^k b^(n-k)`. -/
def homog (a b : List K) : List K → List K
  | [] => []
  | c :: rest => polyadd (scale c (ppow b rest.length)) (polymul a (homog a b rest))

/-- coefficient of `x^k` of a highest-power-first list. -/
def coeffAt (p : List K) (k : Nat) : K := p.reverse.getD k 0

/-- the generalised bilinear substitution on a SISO transfer function `num/den` (trimmed,
proper, `den` of degree `n`): numerator `Σ num_k (z-1)^k q^(n-k)`, denominator
`Σ den_k (z-1)^k q^(n-k)` with `q = h(αz + 1 - α)`, both divided by the `z^n` coefficient of the
denominator (SciPy's result is monic because `ss2tf` returns a characteristic polynomial);
that coefficient is zero exactly when `I - αhA` is singular. -/
def tfGbt (α h : K) (num den : List K) : Except Err (List K × List K) :=
  let num := trim num
  let den := trim den
  if isZero den then .error .zeroDen
  else if den.length < num.length then .error .nonProper
  else
    let n := den.length - 1
    let a : List K := [1, -1]
    let b : List K := [h * α, h * (1 - α)]
    let nd := homog a b (padLeft (n + 1) num).reverse
    let dd := homog a b den.reverse
    let lead := coeffAt dd n
    if lead = 0 then .error .illPosed
    else .ok (padLeft (n + 1) (trim (nd.map (· / lead))), padLeft (n + 1) (trim (dd.map (· / lead))))

/-- `Π (x - r)` as a coefficient list (`numpy.poly`). -/
def polyOfRoots (rs : List K) : List K :=
  rs.foldl (fun acc r => polymul acc [1, -r]) [1]

/-- `_c2d_matched`: `zeros`/`poles` are the roots `tf2zpk` returns (external), `E` stands for
`exp`; zeros and poles are mapped through `E (s Ts)`, the gain is fixed by the DC gain
`num(0)/den(0)`.  A root at `s = 0` (DC gain 0 or ∞) or a root mapped to `1` makes the gain
`0/0`, `∞/∞`: the model raises. -/
def c2dMatched (num den : List K) (zeros poles : List K) (E : K → K) (Ts : ℚ) :
    Except Err (List K × List K × Dt) :=
  if ¬ 0 < Ts then .error .badArg
  else
    let zz := zeros.map fun s => E (s * (Ts : K))
    let zp := poles.map fun s => E (s * (Ts : K))
    let gn := (zz.map fun z => 1 - z).prod
    let gd := (zp.map fun z => 1 - z).prod
    if polyval den 0 = 0 ∨ polyval num 0 = 0 ∨ gn = 0 ∨ gd = 0 then .error .illPosed
    else
      let gain := (polyval num 0 / polyval den 0) / (gn / gd)
      .ok (scale gain (polyOfRoots zz), polyOfRoots zp, .disc Ts)

end tfpath

section runtime

variable {K : Type} [Field K] [LinearOrder K] [IsStrictOrderedRing K]

/-- method → α (with SciPy's validation of `alpha` for `'gbt'`); `.error` for the methods that
are not members of the generalised bilinear family. -/
def gbtAlpha : C2dMethod → Option K → Except Err K
  | .gbt, none => .error .badArg
  | .gbt, some a => if a < 0 ∨ 1 < a then .error .badArg else .ok a
  | .bilinear, _ => .ok (1 / 2)
  | .tustin, _ => .ok (1 / 2)
  | .euler, _ => .ok 0
  | .forwardDiff, _ => .ok 0
  | .backwardDiff, _ => .ok 1
  | _, _ => .error .badArg

/-- is prewarping compatible with the method (`bilinear`, `tustin`, `gbt` with α = ½)? -/
def prewarpApplies (method : C2dMethod) (alpha : Option K) : Bool :=
  method = .bilinear || method = .tustin || (method = .gbt && alpha = some (1 / 2))

/-- the step `Twarp` handed to `cont2discrete`: `2 tan(ω Ts/2)/ω` when prewarping applies,
otherwise `Ts` (with a warning).  At `ω = 0` (documented as admissible: "within [0, infinity)")
the model takes the limit `Ts` — a Tustin transformation matches the DC value for every step;
the code computes `0/0 = nan` there and SciPy raises (known finding). -/
def twarp (method : C2dMethod) (alpha : Option K) (Ts : ℚ) : Option (Prewarp K) → Except Err K
  | none => .ok (Ts : K)
  | some pw =>
    if prewarpApplies method alpha then
      if pw.w = 0 then .ok (Ts : K) else .ok (2 * pw.tanv / pw.w)
    else .ok (Ts : K)

/-- `isctime(sys)` (non-strict): `dt == 0` or `dt is None`. -/
def Dt.isCt : Dt → Bool
  | .cont => true
  | .none => true
  | _ => false

namespace DSS

/-- the generalised bilinear branch of `cont2discrete`: α from the method, singular
`I - αhA` raises (`scipy.linalg.solve`), result timebase `Ts`. -/
def gbtCore (G : DSS K) (Ts : ℚ) (h : K) (method : C2dMethod) (alpha : Option K) :
    Except Err (DSS K) :=
  match gbtAlpha method alpha with
  | .error e => .error e
  | .ok a =>
    if (SS.gbtIma a h G.sys).det = 0 then .error .illPosed
    else .ok ⟨G.n, G.p, G.m, G.sys.gbt a h (SS.invQ (SS.gbtIma a h G.sys)), .disc Ts⟩

/-- the zero-order-hold branch: exact when `A` is nilpotent (`A ^ n = 0`), otherwise from the
externally computed `expm(h [[A, B], [0, 0]])`. -/
def zohCore (G : DSS K) (Ts : ℚ) (h : K)
    (ext : Option (Matrix (Fin G.n ⊕ Fin G.m) (Fin G.n ⊕ Fin G.m) K)) : Except Err (DSS K) :=
  if G.sys.A ^ G.n = 0 then
    .ok ⟨G.n, G.p, G.m,
      ⟨SS.zohAd h G.sys.A G.n, SS.zohBd h G.sys.A G.sys.B G.n, G.sys.C, G.sys.D⟩, .disc Ts⟩
  else match ext with
    | some E => .ok ⟨G.n, G.p, G.m, G.sys.zoh E, .disc Ts⟩
    | none => .error .missing

/-- `cont2discrete((A, B, C, D), h, method, alpha)` followed by `StateSpace(Ad, Bd, C, D, Ts)`. -/
def sampleCore (G : DSS K) (Ts : ℚ) (h : K) (method : C2dMethod) (alpha : Option K)
    (ext : Option (Matrix (Fin G.n ⊕ Fin G.m) (Fin G.n ⊕ Fin G.m) K)) : Except Err (DSS K) :=
  match method with
  | .zoh => zohCore G Ts h ext
  | .foh => .error .notImplemented
  | .impulse => .error .notImplemented
  | .matched => .error .badArg
  | .unknown => .error .badArg
  | .gbt => gbtCore G Ts h .gbt alpha
  | .bilinear => gbtCore G Ts h .bilinear alpha
  | .tustin => gbtCore G Ts h .tustin alpha
  | .euler => gbtCore G Ts h .euler alpha
  | .forwardDiff => gbtCore G Ts h .forwardDiff alpha
  | .backwardDiff => gbtCore G Ts h .backwardDiff alpha

/-- `StateSpace.sample(Ts, method, alpha, prewarp_frequency)` (numerical part).
`ext` = the externally computed `expm(Ts [[A, B], [0, 0]])` (used by `'zoh'` when `A` is not
nilpotent).  The result's timebase is `Ts` — never the warped step. -/
def sample (G : DSS K) (Ts : ℚ) (method : C2dMethod) (alpha : Option K)
    (pw : Option (Prewarp K))
    (ext : Option (Matrix (Fin G.n ⊕ Fin G.m) (Fin G.n ⊕ Fin G.m) K)) : Except Err (DSS K) :=
  if ¬ G.dt.isCt then .error .timebase
  else if ¬ 0 < Ts then .error .badArg
  else match twarp method alpha Ts pw with
    | .error e => .error e
    | .ok h => sampleCore G Ts h method alpha ext

end DSS

/-- the generalised bilinear branch of `cont2discrete((num, den), h, method, alpha)`. -/
def tfGbtCore (num den : List K) (Ts : ℚ) (h : K) (method : C2dMethod) (alpha : Option K) :
    Except Err (List K × List K × Dt) :=
  match gbtAlpha method alpha with
  | .error e => .error e
  | .ok a =>
    match tfGbt a h num den with
    | .error e => .error e
    | .ok r => .ok (r.1, r.2, .disc Ts)

/-- `TransferFunction.sample` for the generalised bilinear family (SISO): the timebase of the
result is `Ts`. -/
def tfSample (num den : List K) (dt : Dt) (Ts : ℚ) (method : C2dMethod) (alpha : Option K)
    (pw : Option (Prewarp K)) : Except Err (List K × List K × Dt) :=
  if ¬ dt.isCt then .error .timebase
  else if ¬ 0 < Ts then .error .badArg
  else match twarp method alpha Ts pw with
    | .error e => .error e
    | .ok h =>
      match method with
      | .zoh => .error .notImplemented
      | .foh => .error .notImplemented
      | .impulse => .error .notImplemented
      | .matched => .error .notImplemented     -- see `c2dMatched`
      | .unknown => .error .badArg
      | .gbt => tfGbtCore num den Ts h .gbt alpha
      | .bilinear => tfGbtCore num den Ts h .bilinear alpha
      | .tustin => tfGbtCore num den Ts h .tustin alpha
      | .euler => tfGbtCore num den Ts h .euler alpha
      | .forwardDiff => tfGbtCore num den Ts h .forwardDiff alpha
      | .backwardDiff => tfGbtCore num den Ts h .backwardDiff alpha

end runtime

/-! ### the sampling-period argument (C14 strengthening: `Ts = True`, second step) -/

/-- The sampling period as `sample` receives it: a number, or the Python value `True`
("discrete time, period unspecified").  NumPy / SciPy use `True` as the number 1 in every formula
(`True * A`, `tan(ω * True / 2)`), while the constructor `StateSpace(Ad, Bd, C, D, Ts)` /
`TransferFunction(numd, dend, Ts)` stores the argument itself: the result's timebase is `True`,
not `1.0`. -/
inductive Period where
  | num (q : ℚ)
  | btrue
  deriving DecidableEq, Repr

/-- the number the formulas compute with. -/
def Period.val : Period → ℚ
  | .num q => q
  | .btrue => 1

/-- the timebase stored in the result. -/
def Period.dt : Period → Dt
  | .num q => .disc q
  | .btrue => .dtrue

section period

variable {K : Type} [Field K] [LinearOrder K] [IsStrictOrderedRing K]

/-- `StateSpace.sample` with the period argument as given (number or `True`): the numbers are
those of `DSS.sample` at `P.val`, the stored timebase is `P.dt`. -/
def DSS.sampleP (G : DSS K) (P : Period) (method : C2dMethod) (alpha : Option K)
    (pw : Option (Prewarp K))
    (ext : Option (Matrix (Fin G.n ⊕ Fin G.m) (Fin G.n ⊕ Fin G.m) K)) : Except Err (DSS K) :=
  match G.sample P.val method alpha pw ext with
  | .error e => .error e
  | .ok R => .ok ⟨R.n, R.p, R.m, R.sys, P.dt⟩

/-- `TransferFunction.sample` (generalised bilinear family) with the period argument as given. -/
def tfSampleP (num den : List K) (dt : Dt) (P : Period) (method : C2dMethod) (alpha : Option K)
    (pw : Option (Prewarp K)) : Except Err (List K × List K × Dt) :=
  match tfSample num den dt P.val method alpha pw with
  | .error e => .error e
  | .ok r => .ok (r.1, r.2.1, P.dt)

/-- second step of a history: the sampled system is combined (series / parallel / feedback all go
through `common_timebase`) with a system of timebase `other`; `sampledFirst` says which operand
the sampled system is. -/
def joinDt (P : Period) (other : Dt) (sampledFirst : Bool) : Except Err Dt :=
  if sampledFirst then common P.dt other else common other P.dt

end period

/-- `_c2d_matched` with the period argument as given. -/
def c2dMatchedP {K : Type} [Field K] [DecidableEq K] (num den : List K) (zeros poles : List K)
    (E : K → K) (P : Period) : Except Err (List K × List K × Dt) :=
  match c2dMatched num den zeros poles E P.val with
  | .error e => .error e
  | .ok r => .ok (r.1, r.2.1, P.dt)

/-! ### names and signal labels -/

/-- system name (`none` = a generic `sys[id]`) and signal labels. -/
structure Names where
  name : Option String
  inputs : List String
  outputs : List String
  states : List String
  deriving DecidableEq, Repr

def genericLabels (pfx : String) (n : Nat) : List String :=
  (List.range n).map fun i => pfx ++ "[" ++ toString i ++ "]"

/-- a label override (`inputs=`, `outputs=`, `states=` keyword): must have the right length. -/
def overrideLabels (cur : List String) : Option (List String) → Except Err (List String)
  | none => .ok cur
  | some l => if l.length = cur.length then .ok l else .error .badArg

/-- names of the sampled system: with `copy_names` the source's labels and
`name + "$sampled"`; otherwise generic ones; an explicit `name` always wins; label keywords
override. -/
def sampleNames (src : Names) (copy : Bool) (name : Option String)
    (inputs outputs states : Option (List String)) : Except Err Names := do
  let base : Names :=
    if copy then ⟨src.name.map (· ++ "$sampled"), src.inputs, src.outputs, src.states⟩
    else ⟨none, genericLabels "u" src.inputs.length, genericLabels "y" src.outputs.length,
          genericLabels "x" src.states.length⟩
  let nm := match name with | some s => some s | none => base.name
  let i ← overrideLabels base.inputs inputs
  let o ← overrideLabels base.outputs outputs
  let s ← overrideLabels base.states states
  pure ⟨nm, i, o, s⟩

/-! ### how the arguments reach `sample` / `sample_system` / `c2d`: the binding of a call

Strengthening after seeded changes (round 3).  The documented parameter order of the three entry
points, and Python's binding of a call (positional arguments fill the parameters from the left,
keyword arguments by name) to that order.  What the model computes with (`method`, `alpha`,
`prewarp_frequency`, `name`, `copy_names`) is the value each *documented* parameter receives. -/

/-- where a parameter gets its value from: the `i`-th positional argument of the call, the `j`-th
keyword argument of the call, or its default. -/
inductive Slot where
  | pos (i : Nat)
  | kw (j : Nat)
  | dflt
  deriving DecidableEq, Repr

/-- position of the keyword `p` among the keyword arguments of the call. -/
def kwIndex (p : String) : List String → Option Nat
  | [] => none
  | k :: ks => if k = p then some 0 else (kwIndex p ks).map (· + 1)

/-- the slot of the parameter `p` with index `i` of the signature. -/
def slotOf (npos : Nat) (kws : List String) (i : Nat) (p : String) : Slot :=
  if i < npos then .pos i
  else match kwIndex p kws with
    | some j => .kw j
    | none => .dflt

def slotsFrom (npos : Nat) (kws : List String) : Nat → List String → List Slot
  | _, [] => []
  | i, p :: ps => slotOf npos kws i p :: slotsFrom npos kws (i + 1) ps

/-- Python's binding of a call with `npos` positional arguments and the keyword arguments `kws`
(their names in call order; a repeated keyword is a syntax error) to
`def f(params…, **kwargs)` (`varkw`) / `def f(params…)`, whose first `nreq` parameters have no default:
more positional arguments than parameters, a parameter filled positionally and named again by
keyword, a parameter without default left unfilled, and (without `**kwargs`) a keyword that names
no parameter all raise `TypeError`; a keyword that names no parameter otherwise travels on in
`**kwargs`.  Result: the slot of every parameter. -/
def bindArgs (params : List String) (nreq : Nat) (varkw : Bool) (npos : Nat) (kws : List String) :
    Except Err (List Slot) :=
  if params.length < npos then .error .badArg
  else if (params.take npos).any (fun p => kws.contains p) then .error .badArg
  else if ((params.take nreq).drop npos).any (fun p => !kws.contains p) then .error .badArg
  else if !varkw && kws.any (fun k => !params.contains k) then .error .badArg
  else .ok (slotsFrom npos kws 0 params)

/-- the value a slot delivers, given the positional and keyword values of the call. -/
def Slot.value {α : Type} (posv kwv : List α) : Slot → Option α
  | .pos i => posv[i]?
  | .kw j => kwv[j]?
  | .dflt => none

/-- `StateSpace.sample` / `TransferFunction.sample` (after `self`): documented order. -/
def sampleParams : List String :=
  ["Ts", "method", "alpha", "prewarp_frequency", "name", "copy_names"]

/-- `sample_system` = `c2d`: the system first, then the same order. -/
def sampleSystemParams : List String := "sysc" :: sampleParams

def bindSample (npos : Nat) (kws : List String) : Except Err (List Slot) :=
  bindArgs sampleParams 1 true npos kws

def bindSampleSystem (npos : Nat) (kws : List String) : Except Err (List Slot) :=
  bindArgs sampleSystemParams 2 true npos kws

/-- `pade(T, n=1, numdeg=None)`: no `**kwargs`. -/
def bindPade (npos : Nat) (kws : List String) : Except Err (List Slot) :=
  bindArgs ["T", "n", "numdeg"] 1 false npos kws

/-! ### Padé approximation of a delay -/

section pade

variable {K : Type*} [Field K]

/-- the accumulated coefficient of the loops in `pade`:
`c_0 = 1`, `c_k = c_{k-1} · c (p-k+1)/(p+q-k+1)/k` (`c = -T`, `p = numdeg`, `q = n` for the
numerator; `c = T`, `p = n`, `q = numdeg` for the denominator). -/
def padeCoef (c : K) (p q : Nat) : Nat → K
  | 0 => 1
  | k + 1 => padeCoef c p q k * (c * ((p - k : Nat) : K) / ((p + q - k : Nat) : K) / ((k + 1 : Nat) : K))

/-- coefficient list, highest power first: `[c_p, …, c_1, c_0]`. -/
def padeList (c : K) (p q : Nat) : List K :=
  ((List.range (p + 1)).map (padeCoef c p q)).reverse

end pade

section padeRun

variable {K : Type} [Field K] [LinearOrder K] [IsStrictOrderedRing K]

/-- `pade(T, n, numdeg)`. -/
def pade (T : K) (n : Int) (numdeg : Option Int) : Except Err (List K × List K) :=
  let nd : Int := match numdeg with
    | none => n
    | some d => if d < 0 then d + n else d
  if ¬ 0 ≤ T then .error .badArg
  else if ¬ 0 ≤ n then .error .badArg
  else if ¬ (0 ≤ nd ∧ nd ≤ n) then .error .badArg
  else if T = 0 then .ok ([1], [1])
  else
    let p := nd.toNat
    let q := n.toNat
    let d0 := padeCoef T q p q
    .ok ((padeList (-T) p q).map (· / d0), (padeList T q p).map (· / d0))

end padeRun

end CtrlVerif
