/-
Expression trees over frequency-response-data systems of RUN-TIME shape (property C09, the
"… and all finite expression trees" part; DESIGN §3.5).

Three readings of one tree `e : Expr K n` (`n` = number of grid points of its FRD leaves):

* `Expr.evalModel E e : Except Err (DFRD K n)` — the tree interpreted by exactly the run-time
  layer `Model/FRDDyn.lean` that `Driver/FRD.lean` executes and the correspondence check of C09
  compares with python-control: `DFRD.add sub rsub mul rmul truediv rtruediv pow feedback
  feedbackL append select neg`, i.e. operand conversion (`_convert_to_frd`), grid match, SISO
  promotion, shape checks, scalar fast paths, in the order of the code.  The left operand is
  evaluated first (the driver's postfix order; Python's evaluation order).  `Driver/FRDTree.lean`
  (family `frdtree`) cross-checks this evaluator against the postfix interpreter on every run.
* `Expr.evalSemE E k e : Except Err (PVal K)` / `Expr.evalSem E k e : Option (PVal K)` — the
  POINTWISE value at the grid index `k`: a frequency and a complex (`K`) matrix of run-time
  shape, computed in the algebra of matrices (`+`, `*`, `c • ·`, `⁻¹`, block diagonal,
  sub-matrix, matrix power).  It is partial: the `Except` version names the reason.
* `Expr.sig e : Except Err (Sig n)` — the grid-independent part: predicted shape, grid and
  `smooth` flag of the result, and the checks that do not look at response data.

The tree theorems (`Props/C09Tree.lean`) say that the three agree.

Operands keep their ORDER and KIND (`F * 2`, `2 * F`, `array * F`, `sys * F` take different
code paths): `bin op a b` is `a.__op__(b)` for two FRD-valued subtrees, `binV op a x` is
`a.__op__(x)` for an operand given by value (any `FOperand`: scalar, constant array, LTI system,
or an FRD object — the latter possibly on a grid of another length, which `_convert_to_frd`
rejects), `rbin op x a` is `x op a` for a non-FRD `x`, dispatched to `a.__rop__(x)`.
-/
import CtrlVerif.Model.FRDDyn
import Mathlib.LinearAlgebra.Matrix.NonsingularInverse

namespace CtrlVerif.FRDTree

open CtrlVerif Matrix

variable {K : Type} [Field K] [DecidableEq K]

/-! ### pointwise values and signatures -/

/-- re-type a matrix along equalities of its run-time shape (the identity on entries). -/
def castM {p p' m m' : Nat} (hp : p = p') (hm : m = m') (M : Matrix (Fin p) (Fin m) K) :
    Matrix (Fin p') (Fin m') K :=
  M.submatrix (Fin.cast hp.symm) (Fin.cast hm.symm)

/-- the value of an FRD object at one grid index: the stored frequency and the `p × m` response
matrix stored with it. -/
structure PVal (K : Type) where
  w : ℚ
  p : Nat
  m : Nat
  M : Matrix (Fin p) (Fin m) K

/-- what an FRD object is apart from its response data: shape, `smooth` flag, grid. -/
structure Sig (n : Nat) where
  p : Nat
  m : Nat
  smooth : Bool
  omega : Fin n → ℚ

variable {n : Nat}

/-- the value of `G` at the grid index `k`. -/
def pt (G : DFRD K n) (k : Fin n) : PVal K := ⟨G.sys.omega k, G.p, G.m, G.sys.data k⟩

/-- the signature of `G`. -/
def sigOf (G : DFRD K n) : Sig n := ⟨G.p, G.m, G.smooth, G.sys.omega⟩

/-- an operand of an FRD operator as seen at ONE grid index: an FRD operand is its value there
(`offgrid`: it has a different number of grid points, so there is no such value), the other
kinds are independent of the index. -/
inductive SArg (K : Type) where
  | pv (B : PVal K)
  | offgrid
  | scalar (c : K)
  | array (p m : Nat) (D : Matrix (Fin p) (Fin m) K)
  | lti (L : LTI K)

/-- an operand as seen by the grid-independent checks. -/
inductive TArg (K : Type) (n : Nat) where
  | sig (s : Sig n)
  | offgrid
  | scalar (c : K)
  | array (p m : Nat)
  | lti (p m : Nat)

/-- the operand `x` at the grid index `k` of an `n`-point grid. -/
def sargOf (k : Fin n) : FOperand K → SArg K
  | .frd n' H =>
    if h : n' = n then
      .pv ⟨H.sys.omega (Fin.cast h.symm k), H.p, H.m, H.sys.data (Fin.cast h.symm k)⟩
    else .offgrid
  | .scalar c => .scalar c
  | .array p m D => .array p m D
  | .lti L => .lti L

/-- the operand `x` for the grid-independent checks on an `n`-point grid. -/
def targOf : FOperand K → TArg K n
  | .frd n' H =>
    if h : n' = n then .sig ⟨H.p, H.m, H.smooth, fun k => H.sys.omega (Fin.cast h.symm k)⟩
    else .offgrid
  | .scalar c => .scalar c
  | .array p m _ => .array p m
  | .lti L => .lti L.p L.m

/-! ### the operators at one grid index, in the algebra of matrices

Every definition follows the corresponding function of `Model/FRDDyn.lean` check by check (so
that the error raised first is the same), but computes one matrix instead of a grid of them, and
states the SISO promotions by their meaning (`g • M`, `g + M i j`) instead of by the
construction the code uses (`append(*[g] * r)`, `np.ones((p, m)) * g`). -/

namespace PVal

def isSiso (A : PVal K) : Bool := A.p == 1 && A.m == 1

/-- the scalar value of a SISO response. -/
def s00 (A : PVal K) : K :=
  if h : 0 < A.p ∧ 0 < A.m then A.M ⟨0, h.1⟩ ⟨0, h.2⟩ else 0

/-- `_convert_to_frd` at one index: an FRD operand must have its frequency within `1e-8` of
`w` (`NotImplementedError` otherwise, and for a grid of another length); an LTI operand is
evaluated at `jw` / `exp(jw·dt)` and must not have a pole there; a scalar becomes the constant
`p × m` matrix, an array is itself. -/
def convert (E : Env K) (w : ℚ) (p m : Nat) : SArg K → Except Err (PVal K)
  | .pv B => if |w - B.w| < 1 / 100000000 then .ok B else .error .notImplemented
  | .offgrid => .error .notImplemented
  | .lti L =>
    if L.singularAt (freqPoint E L.dt w) = true then .error .zeroDen
    else .ok ⟨w, L.p, L.m, L.valueAt (freqPoint E L.dt w)⟩
  | .scalar c => .ok ⟨w, p, m, Matrix.of fun _ _ => c⟩
  | .array p' m' D => .ok ⟨w, p', m', D⟩

/-- `-A`. -/
def neg (A : PVal K) : PVal K := ⟨A.w, A.p, A.m, -A.M⟩

/-- `A + B` after conversion: a SISO operand is added to every entry of the other one, otherwise
the shapes must agree; the frequency is the one stored with `B`. -/
def addCore (A B : PVal K) : Except Err (PVal K) :=
  if A.isSiso && !B.isSiso then .ok ⟨B.w, B.p, B.m, Matrix.of fun i j => A.s00 + B.M i j⟩
  else if !A.isSiso && B.isSiso then .ok ⟨B.w, A.p, A.m, Matrix.of fun i j => A.M i j + B.s00⟩
  else if h : A.p = B.p ∧ A.m = B.m then .ok ⟨B.w, A.p, A.m, A.M + castM h.1.symm h.2.symm B.M⟩
  else .error .shape

/-- `A * B` after conversion: a SISO factor is a scalar factor, otherwise the matrix product
(inner sizes must agree); the frequency is the one stored with `A`. -/
def mulCore (A B : PVal K) : Except Err (PVal K) :=
  if A.isSiso && !B.isSiso then .ok ⟨A.w, B.p, B.m, A.s00 • B.M⟩
  else if !A.isSiso && B.isSiso then .ok ⟨A.w, A.p, A.m, B.s00 • A.M⟩
  else if h : A.m = B.p then .ok ⟨A.w, A.p, B.m, A.M * castM h.symm rfl B.M⟩
  else .error .shape

/-- `B * A` computed by `A.__rmul__(B)`: the frequency is the one stored with `A` (`self`). -/
def rmulCore (A B : PVal K) : Except Err (PVal K) :=
  if A.isSiso && !B.isSiso then .ok ⟨A.w, B.p, B.m, A.s00 • B.M⟩
  else if !A.isSiso && B.isSiso then .ok ⟨A.w, A.p, A.m, B.s00 • A.M⟩
  else if h : B.m = A.p then .ok ⟨A.w, B.p, A.m, castM rfl h B.M * A.M⟩
  else .error .shape

/-- `A / B` after conversion: only a SISO divisor (`NotImplemented` otherwise), which must not be
zero. -/
def truedivCore (A B : PVal K) : Except Err (PVal K) :=
  if !B.isSiso then .error .notImplemented
  else if B.s00 = 0 then .error .zeroDen
  else .ok ⟨A.w, A.p, A.m, (B.s00)⁻¹ • A.M⟩

/-- `A.feedback(B, sign)` after conversion: `A (I - sign B A)⁻¹`; the shapes must be transposes
of each other, the loop matrix must be invertible; the frequency is the one stored with `B`. -/
noncomputable def feedbackCore (A B : PVal K) (sign : K) : Except Err (PVal K) :=
  if h : A.p = B.m ∧ A.m = B.p then
    if (1 - sign • (castM h.2.symm h.1.symm B.M * A.M)).det = 0 then .error .illPosed
    else .ok ⟨B.w, A.p, A.m, A.M * (1 - sign • (castM h.2.symm h.1.symm B.M * A.M))⁻¹⟩
  else .error .shape

/-- `A.append(B)`: block diagonal. -/
def appendCore (A B : PVal K) : PVal K :=
  ⟨A.w, A.p + B.p, A.m + B.m,
    (fromBlocks A.M 0 0 B.M).submatrix finSumFinEquiv.symm finSumFinEquiv.symm⟩

/-- `A[rows, cols]`: the sub-matrix; indices out of range raise `IndexError`. -/
def select (A : PVal K) (rows cols : List Nat) : Except Err (PVal K) :=
  if h : (∀ r ∈ rows, r < A.p) ∧ (∀ c ∈ cols, c < A.m) then
    .ok ⟨A.w, rows.length, cols.length,
      A.M.submatrix (fun i : Fin rows.length => ⟨rows[i], h.1 _ (List.getElem_mem _)⟩)
        (fun j : Fin cols.length => ⟨cols[j], h.2 _ (List.getElem_mem _)⟩)⟩
  else .error .indexRange

/-- `A ** k`.  `k = 0`: the identity pattern of the shape of `A`; `k > 0`: the matrix power of a
square `A` (a non-square `A` raises a shape error in the first product); `k < 0`: only for a SISO
`A` (`NotImplemented` otherwise) that is not zero: `(1 / a) ^ (-k)`. -/
def pow (A : PVal K) : Int → Except Err (PVal K)
  | .ofNat 0 => .ok ⟨A.w, A.p, A.m, Matrix.of fun i j => if i.val = j.val then 1 else 0⟩
  | .ofNat (k + 1) =>
    if h : A.p = A.m then .ok ⟨A.w, A.p, A.m, castM rfl h (castM rfl h.symm A.M ^ (k + 1))⟩
    else .error .shape
  | .negSucc k =>
    if !A.isSiso then .error .notImplemented
    else if A.s00 = 0 then .error .zeroDen
    else .ok ⟨A.w, A.p, A.m, Matrix.of fun _ _ => (A.s00)⁻¹ ^ (k + 1)⟩

end PVal

namespace SArg

/-- `-x`, as Python evaluates it before the operator is dispatched. -/
def neg : SArg K → SArg K
  | .pv B => .pv B.neg
  | .offgrid => .offgrid
  | .scalar c => .scalar (-c)
  | .array p m D => .array p m (-D)
  | .lti L => .lti L.neg

end SArg

namespace PVal

/-- `A + x` (also `x + A`): a scalar is converted to the shape of `A`, anything else as it is. -/
def add (E : Env K) (A : PVal K) (x : SArg K) : Except Err (PVal K) := do
  let B ← match x with
    | .scalar _ => convert E A.w A.p A.m x
    | _ => convert E A.w 1 1 x
  addCore A B

/-- `A - x` = `A + (-x)`. -/
def sub (E : Env K) (A : PVal K) (x : SArg K) : Except Err (PVal K) := add E A x.neg

/-- `x - A` = `(-A) + x`. -/
def rsub (E : Env K) (A : PVal K) (x : SArg K) : Except Err (PVal K) := add E A.neg x

/-- `A * x`: `c • A` for a scalar, otherwise convert and multiply. -/
def mul (E : Env K) (A : PVal K) : SArg K → Except Err (PVal K)
  | .scalar c => .ok ⟨A.w, A.p, A.m, c • A.M⟩
  | x => do
    let B ← convert E A.w 1 1 x
    mulCore A B

/-- `x * A` for a non-FRD `x`. -/
def rmul (E : Env K) (A : PVal K) : SArg K → Except Err (PVal K)
  | .scalar c => .ok ⟨A.w, A.p, A.m, c • A.M⟩
  | x => do
    let B ← convert E A.w 1 1 x
    rmulCore A B

/-- `A / x`: `c⁻¹ • A` for a scalar `c ≠ 0` (`ZeroDivisionError` for `0`), otherwise convert and
divide by the SISO value. -/
def truediv (E : Env K) (A : PVal K) : SArg K → Except Err (PVal K)
  | .scalar c => if c = 0 then .error .zeroDen else .ok ⟨A.w, A.p, A.m, c⁻¹ • A.M⟩
  | x => do
    let B ← convert E A.w 1 1 x
    truedivCore A B

/-- `x / A` for a non-FRD `x`: only for a SISO `A` that is not zero. -/
def rtruediv (E : Env K) (A : PVal K) : SArg K → Except Err (PVal K)
  | .scalar c =>
    if !A.isSiso then .error .notImplemented
    else if A.s00 = 0 then .error .zeroDen
    else .ok ⟨A.w, 1, 1, Matrix.of fun _ _ => c * (A.s00)⁻¹⟩
  | x => do
    let B ← convert E A.w 1 1 x
    if !A.isSiso then .error .notImplemented else truedivCore B A

/-- `A.feedback(x, sign)`. -/
noncomputable def feedback (E : Env K) (A : PVal K) (x : SArg K) (sign : K) :
    Except Err (PVal K) := do
  let B ← convert E A.w 1 1 x
  feedbackCore A B sign

/-- `control.feedback(x, A, sign)` for a scalar / array `x` (the forward path). -/
noncomputable def feedbackL (E : Env K) (A : PVal K) (x : SArg K) (sign : K) :
    Except Err (PVal K) := do
  let B ← convert E A.w 1 1 x
  feedbackCore B A sign

/-- `A.append(x)`. -/
def append (E : Env K) (A : PVal K) (x : SArg K) : Except Err (PVal K) := do
  let B ← convert E A.w 1 1 x
  pure (appendCore A B)

end PVal

/-! ### the grid-independent part of the operators: shape, grid, `smooth`, and the checks that do
not read response data -/

namespace Sig

def isSiso (s : Sig n) : Bool := s.p == 1 && s.m == 1

/-- converted constants and LTI operands live on the caller's grid and interpolate. -/
def convert (omega : Fin n → ℚ) (p m : Nat) : TArg K n → Except Err (Sig n)
  | .sig s => .ok s
  | .offgrid => .error .notImplemented
  | .lti p' m' => .ok ⟨p', m', true, omega⟩
  | .scalar _ => .ok ⟨p, m, true, omega⟩
  | .array p' m' => .ok ⟨p', m', true, omega⟩

def neg (s : Sig n) : Sig n := ⟨s.p, s.m, false, s.omega⟩

def addCore (s t : Sig n) : Except Err (Sig n) :=
  if s.isSiso && !t.isSiso then .ok ⟨t.p, t.m, false, t.omega⟩
  else if !s.isSiso && t.isSiso then .ok ⟨s.p, s.m, false, t.omega⟩
  else if s.p = t.p ∧ s.m = t.m then .ok ⟨s.p, s.m, false, t.omega⟩
  else .error .shape

def mulCore (s t : Sig n) : Except Err (Sig n) :=
  if s.isSiso && !t.isSiso then .ok ⟨t.p, t.m, s.smooth && t.smooth, s.omega⟩
  else if !s.isSiso && t.isSiso then .ok ⟨s.p, s.m, s.smooth && t.smooth, s.omega⟩
  else if s.m = t.p then .ok ⟨s.p, t.m, s.smooth && t.smooth, s.omega⟩
  else .error .shape

def rmulCore (s t : Sig n) : Except Err (Sig n) :=
  if s.isSiso && !t.isSiso then .ok ⟨t.p, t.m, s.smooth && t.smooth, s.omega⟩
  else if !s.isSiso && t.isSiso then .ok ⟨s.p, s.m, s.smooth && t.smooth, s.omega⟩
  else if t.m = s.p then .ok ⟨t.p, s.m, s.smooth && t.smooth, s.omega⟩
  else .error .shape

def truedivCore (s t : Sig n) : Except Err (Sig n) :=
  if !t.isSiso then .error .notImplemented else .ok ⟨s.p, s.m, s.smooth && t.smooth, s.omega⟩

def feedbackCore (s t : Sig n) : Except Err (Sig n) :=
  if s.p = t.m ∧ s.m = t.p then .ok ⟨s.p, s.m, s.smooth, t.omega⟩ else .error .shape

def appendCore (s t : Sig n) : Sig n := ⟨s.p + t.p, s.m + t.m, s.smooth, s.omega⟩

def select (s : Sig n) (rows cols : List Nat) : Except Err (Sig n) :=
  if (∀ r ∈ rows, r < s.p) ∧ (∀ c ∈ cols, c < s.m) then
    .ok ⟨rows.length, cols.length, false, s.omega⟩
  else .error .indexRange

def pow (s : Sig n) : Int → Except Err (Sig n)
  | .ofNat 0 => .ok s
  | .ofNat (_ + 1) => if s.p = s.m then .ok s else .error .shape
  | .negSucc _ =>
    if !s.isSiso then .error .notImplemented else .ok ⟨s.p, s.m, false, s.omega⟩

end Sig

namespace TArg

def neg : TArg K n → TArg K n
  | .sig s => .sig s.neg
  | .offgrid => .offgrid
  | .scalar c => .scalar (-c)
  | .array p m => .array p m
  | .lti p m => .lti p m

end TArg

namespace Sig

def add (s : Sig n) (x : TArg K n) : Except Err (Sig n) := do
  let t ← match x with
    | .scalar _ => convert s.omega s.p s.m x
    | _ => convert s.omega 1 1 x
  addCore s t

def sub (s : Sig n) (x : TArg K n) : Except Err (Sig n) := add s x.neg

def rsub (s : Sig n) (x : TArg K n) : Except Err (Sig n) := add s.neg x

def mul (s : Sig n) : TArg K n → Except Err (Sig n)
  | .scalar _ => .ok s
  | x => do
    let t ← convert s.omega 1 1 x
    mulCore s t

def rmul (s : Sig n) : TArg K n → Except Err (Sig n)
  | .scalar _ => .ok s
  | x => do
    let t ← convert s.omega 1 1 x
    rmulCore s t

/-- a zero scalar divisor is detected without looking at the data. -/
def truediv (s : Sig n) : TArg K n → Except Err (Sig n)
  | .scalar c => if c = 0 then .error .zeroDen else .ok s
  | x => do
    let t ← convert s.omega 1 1 x
    truedivCore s t

def rtruediv (s : Sig n) : TArg K n → Except Err (Sig n)
  | .scalar _ => if !s.isSiso then .error .notImplemented else .ok ⟨1, 1, s.smooth, s.omega⟩
  | x => do
    let t ← convert s.omega 1 1 x
    if !s.isSiso then .error .notImplemented else truedivCore t s

def feedback (s : Sig n) (x : TArg K n) : Except Err (Sig n) := do
  let t ← convert s.omega 1 1 x
  feedbackCore s t

def feedbackL (s : Sig n) (x : TArg K n) : Except Err (Sig n) := do
  let t ← convert s.omega 1 1 x
  feedbackCore t s

def append (s : Sig n) (x : TArg K n) : Except Err (Sig n) := do
  let t ← convert s.omega 1 1 x
  pure (appendCore s t)

end Sig

/-! ### the trees -/

/-- the four arithmetic operators with two operands. -/
inductive BinOp where
  | add | sub | mul | div
  deriving DecidableEq, Repr

/-- a non-FRD operand: Python / NumPy scalar, constant array, LTI system (`TransferFunction` or
`StateSpace`). -/
inductive Opd (K : Type) where
  | scalar (c : K)
  | array (p m : Nat) (D : Matrix (Fin p) (Fin m) K)
  | lti (L : LTI K)

def Opd.toF : Opd K → FOperand K
  | .scalar c => .scalar c
  | .array p m D => .array p m D
  | .lti L => .lti L

/-- scalar or constant array. -/
def Opd.isConst : Opd K → Bool
  | .lti _ => false
  | _ => true

/-- FRD or LTI system (the operands `append` accepts). -/
def isSys : FOperand K → Bool
  | .frd _ _ => true
  | .lti _ => true
  | _ => false

/-- finite expression trees whose value is an FRD object on `n` grid points.  Shapes are
run-time data (every leaf has its own `p`, `m`); a tree need not be well-shaped. -/
inductive Expr (K : Type) (n : Nat) : Type where
  /-- an FRD object (any `p × m`, any grid, interpolating or not). -/
  | leaf (F : DFRD K n)
  /-- `-a` -/
  | neg (a : Expr K n)
  /-- `a op b`, both FRD-valued: `a.__op__(b)`. -/
  | bin (op : BinOp) (a b : Expr K n)
  /-- `a op x` for an operand given by value: `a.__op__(x)`. -/
  | binV (op : BinOp) (a : Expr K n) (x : FOperand K)
  /-- `x op a` for a non-FRD `x`: `a.__rop__(x)`. -/
  | rbin (op : BinOp) (x : Opd K) (a : Expr K n)
  /-- `a ** k`, `k` any integer. -/
  | pow (a : Expr K n) (k : Int)
  /-- `a.feedback(b, sign)` -/
  | fb (a b : Expr K n) (sign : K)
  /-- `a.feedback(x, sign)` for an operand given by value. -/
  | fbV (a : Expr K n) (x : FOperand K) (sign : K)
  /-- `control.feedback(x, a, sign)` for a scalar or constant array `x` as the forward path. -/
  | fbL (x : Opd K) (hx : x.isConst = true) (a : Expr K n) (sign : K)
  /-- `a.append(b)` -/
  | append (a b : Expr K n)
  /-- `a.append(x)` for a system given by value. -/
  | appendV (a : Expr K n) (x : FOperand K) (hx : isSys x = true)
  /-- `a[rows, cols]` with resolved index lists. -/
  | sel (a : Expr K n) (rows cols : List Nat)

/-- `self.__op__(x)` in the run-time layer. -/
def opF (E : Env K) : BinOp → DFRD K n → FOperand K → Except Err (DFRD K n)
  | .add, G, x => G.add E x
  | .sub, G, x => G.sub E x
  | .mul, G, x => G.mul E x
  | .div, G, x => G.truediv E x

/-- `self.__rop__(x)` in the run-time layer. -/
def ropF (E : Env K) : BinOp → DFRD K n → FOperand K → Except Err (DFRD K n)
  | .add, G, x => G.add E x
  | .sub, G, x => G.rsub E x
  | .mul, G, x => G.rmul E x
  | .div, G, x => G.rtruediv E x

def PVal.opF (E : Env K) : BinOp → PVal K → SArg K → Except Err (PVal K)
  | .add, A, x => A.add E x
  | .sub, A, x => A.sub E x
  | .mul, A, x => A.mul E x
  | .div, A, x => A.truediv E x

def PVal.ropF (E : Env K) : BinOp → PVal K → SArg K → Except Err (PVal K)
  | .add, A, x => A.add E x
  | .sub, A, x => A.rsub E x
  | .mul, A, x => A.rmul E x
  | .div, A, x => A.rtruediv E x

def Sig.opF : BinOp → Sig n → TArg K n → Except Err (Sig n)
  | .add, s, x => s.add x
  | .sub, s, x => s.sub x
  | .mul, s, x => s.mul x
  | .div, s, x => s.truediv x

def Sig.ropF : BinOp → Sig n → TArg K n → Except Err (Sig n)
  | .add, s, x => s.add x
  | .sub, s, x => s.rsub x
  | .mul, s, x => s.rmul x
  | .div, s, x => s.rtruediv x

namespace Expr

/-- interpretation by the run-time layer the driver executes. -/
def evalModel (E : Env K) : Expr K n → Except Err (DFRD K n)
  | leaf F => .ok F
  | neg a => do let x ← evalModel E a; pure x.neg
  | bin op a b => do let x ← evalModel E a; let y ← evalModel E b; opF E op x (.frd n y)
  | binV op a v => do let x ← evalModel E a; opF E op x v
  | rbin op v a => do let x ← evalModel E a; ropF E op x v.toF
  | pow a k => do let x ← evalModel E a; x.pow k
  | fb a b s => do let x ← evalModel E a; let y ← evalModel E b; x.feedback E (.frd n y) s
  | fbV a v s => do let x ← evalModel E a; x.feedback E v s
  | fbL v _ a s => do let x ← evalModel E a; x.feedbackL E v.toF s
  | append a b => do let x ← evalModel E a; let y ← evalModel E b; x.append E (.frd n y)
  | appendV a v _ => do let x ← evalModel E a; x.append E v
  | sel a r c => do let x ← evalModel E a; x.select r c

/-- the pointwise value at the grid index `k`, with the reason when there is none. -/
noncomputable def evalSemE (E : Env K) (k : Fin n) : Expr K n → Except Err (PVal K)
  | leaf F => .ok (pt F k)
  | neg a => do let A ← evalSemE E k a; pure A.neg
  | bin op a b => do let A ← evalSemE E k a; let B ← evalSemE E k b; PVal.opF E op A (.pv B)
  | binV op a v => do let A ← evalSemE E k a; PVal.opF E op A (sargOf k v)
  | rbin op v a => do let A ← evalSemE E k a; PVal.ropF E op A (sargOf k v.toF)
  | pow a j => do let A ← evalSemE E k a; A.pow j
  | fb a b s => do let A ← evalSemE E k a; let B ← evalSemE E k b; A.feedback E (.pv B) s
  | fbV a v s => do let A ← evalSemE E k a; A.feedback E (sargOf k v) s
  | fbL v _ a s => do let A ← evalSemE E k a; A.feedbackL E (sargOf k v.toF) s
  | append a b => do let A ← evalSemE E k a; let B ← evalSemE E k b; A.append E (.pv B)
  | appendV a v _ => do let A ← evalSemE E k a; A.append E (sargOf k v)
  | sel a r c => do let A ← evalSemE E k a; A.select r c

/-- the pointwise value at the grid index `k` in the algebra of complex matrices; `none` when
shapes or grids do not fit, a divisor is zero / not SISO, an LTI operand has a pole at the
frequency, a loop matrix is singular, an index is out of range. -/
noncomputable def evalSem (E : Env K) (k : Fin n) (e : Expr K n) : Option (PVal K) :=
  (evalSemE E k e).toOption

/-- predicted shape, grid and `smooth` flag; fails on what can be decided without the response
data (shapes, grid lengths, SISO-only operators, index ranges, a zero scalar divisor). -/
def sig : Expr K n → Except Err (Sig n)
  | leaf F => .ok (sigOf F)
  | neg a => do let s ← sig a; pure s.neg
  | bin op a b => do let s ← sig a; let t ← sig b; Sig.opF op s (.sig t : TArg K n)
  | binV op a v => do let s ← sig a; Sig.opF op s (targOf v : TArg K n)
  | rbin op v a => do let s ← sig a; Sig.ropF op s (targOf v.toF : TArg K n)
  | pow a k => do let s ← sig a; s.pow k
  | fb a b _ => do let s ← sig a; let t ← sig b; s.feedback (.sig t : TArg K n)
  | fbV a v _ => do let s ← sig a; s.feedback (targOf v : TArg K n)
  | fbL v _ a _ => do let s ← sig a; s.feedbackL (targOf v.toF : TArg K n)
  | append a b => do let s ← sig a; let t ← sig b; s.append (.sig t : TArg K n)
  | appendV a v _ => do let s ← sig a; s.append (targOf v : TArg K n)
  | sel a r c => do let s ← sig a; s.select r c

end Expr

end CtrlVerif.FRDTree
