/-
Model of control/mateqn.py (`lyap`, `dlyap`, `care`, `dare`, `_check_shape`, `_is_symmetric`),
`method='scipy'` paths (slycot is not installed).

Two layers, as for C02:
* a *typed* layer on Mathlib matrices over arbitrary finite index types: which SciPy solver is
  called with which (negated / transposed / defaulted) arguments (`lyapCall`, `sylvCall`,
  `dlyapCall`, `careCall`, `dareCall`), and what python-control computes from the matrix the
  solver returns (gain, closed-loop pencil);
* a *run-time shaped* layer (`DMat`, `checkShape`, `isSymD`, `lyapD`, `dlyapD`, `careD`, `dareD`)
  following the argument validation statement by statement, including every branch that raises.

The SciPy solvers are *parameters* (functions from the call record to the returned matrix); their
contracts live in `Props/C10.lean` as structures.  `numpy.linalg.solve(F, rhs)` is modelled by
the certified inverse `det⁻¹ • adjugate` (`SS.invQ`) and raises `illPosed` when `det F = 0`.
-/
import CtrlVerif.Model.Err
import CtrlVerif.Model.SS
import Mathlib.Algebra.Order.Ring.Defs
import Mathlib.Algebra.Order.Field.Basic

namespace CtrlVerif.MatEqn

open Matrix

/-! ## Typed layer -/

section typed

variable {K : Type*} [Field K]
variable {n m : Type*}

/-- arguments of `scipy.linalg.solve_continuous_lyapunov(a, q)` / `solve_discrete_lyapunov(a, q)` -/
structure LyapCall (n : Type*) (K : Type*) where
  a : Matrix n n K
  q : Matrix n n K

/-- arguments of `scipy.linalg.solve_sylvester(a, b, q)` -/
structure SylvCall (n m : Type*) (K : Type*) where
  a : Matrix n n K
  b : Matrix m m K
  q : Matrix n m K

/-- arguments of `scipy.linalg.solve_continuous_are(a, b, q, r, e, s)` /
`solve_discrete_are(a, b, q, r, e, s)`; `none` = the keyword is `None` / not passed. -/
structure AreCall (n m : Type*) (K : Type*) where
  a : Matrix n n K
  b : Matrix n m K
  q : Matrix n n K
  r : Matrix m m K
  e : Option (Matrix n n K)
  s : Option (Matrix n m K)

/-- `E` if given, else the identity (`np.eye(n)`); also SciPy's reading of `e=None`. -/
def eOf [DecidableEq n] : Option (Matrix n n K) → Matrix n n K
  | none => 1
  | some e => e

/-- `S` if given, else zero (`np.zeros((n, m))`); also SciPy's reading of `s=None`. -/
def sOf : Option (Matrix n m K) → Matrix n m K
  | none => 0
  | some s => s

/-- `lyap(A, Q)`: `sp.linalg.solve_continuous_lyapunov(A, -Q)` -/
def lyapCall (A Q : Matrix n n K) : LyapCall n K := ⟨A, -Q⟩

/-- `lyap(A, Q, C)`: `sp.linalg.solve_sylvester(A, Q, -C)` -/
def sylvCall (A : Matrix n n K) (Q : Matrix m m K) (C : Matrix n m K) : SylvCall n m K :=
  ⟨A, Q, -C⟩

/-- `dlyap(A, Q)`: `sp.linalg.solve_discrete_lyapunov(A, Q)` -/
def dlyapCall (A Q : Matrix n n K) : LyapCall n K := ⟨A, Q⟩

def lyap (solve : LyapCall n K → Matrix n n K) (A Q : Matrix n n K) : Matrix n n K :=
  solve (lyapCall A Q)

def sylv (solve : SylvCall n m K → Matrix n m K) (A : Matrix n n K) (Q : Matrix m m K)
    (C : Matrix n m K) : Matrix n m K :=
  solve (sylvCall A Q C)

def dlyap (solve : LyapCall n K → Matrix n n K) (A Q : Matrix n n K) : Matrix n n K :=
  solve (dlyapCall A Q)

variable [Fintype n] [Fintype m] [DecidableEq n] [DecidableEq m]

/-- `care`: the standard branch calls `solve_continuous_are(A, B, Q, R)`, the generalised one
`solve_continuous_are(A, B, Q, R, s=S, e=E)` after replacing a missing `S` by zeros and a missing
`E` by the identity. -/
def careCall (A : Matrix n n K) (B : Matrix n m K) (Q : Matrix n n K) (R : Matrix m m K)
    (S : Option (Matrix n m K)) (E : Option (Matrix n n K)) : AreCall n m K :=
  match S, E with
  | none, none => ⟨A, B, Q, R, none, none⟩
  | _, _ => ⟨A, B, Q, R, some (eOf E), some (sOf S)⟩

/-- `dare`: `solve_discrete_are(A, B, Q, R, e=E, s=S)` with `E`, `S` passed through as they are. -/
def dareCall (A : Matrix n n K) (B : Matrix n m K) (Q : Matrix n n K) (R : Matrix m m K)
    (S : Option (Matrix n m K)) (E : Option (Matrix n n K)) : AreCall n m K :=
  ⟨A, B, Q, R, E, S⟩

/-- what `care` / `dare` return: `X`, the gain `G`, and the pencil `(Acl, Ecl)` handed to the
eigenvalue routine (`Ecl = none`: the standard eigenproblem, `np.linalg.eig(Acl)` / `eigvals`). -/
structure AreResult (n m : Type*) (K : Type*) where
  X : Matrix n n K
  G : Matrix m n K
  Acl : Matrix n n K
  Ecl : Option (Matrix n n K)

/-- right-hand side of the linear solve for the `care` gain: `B.T @ X` in the standard branch,
`B.T @ X @ E + S.T` in the generalised one. -/
def careGainRhs (B : Matrix n m K) (X : Matrix n n K) (S : Option (Matrix n m K))
    (E : Option (Matrix n n K)) : Matrix m n K :=
  match S, E with
  | none, none => Bᵀ * X
  | _, _ => Bᵀ * X * eOf E + (sOf S)ᵀ

/-- the second argument of the eigenvalue call of `care`. -/
def carePencilE (S : Option (Matrix n m K)) (E : Option (Matrix n n K)) :
    Option (Matrix n n K) :=
  match S, E with
  | none, none => none
  | _, _ => some (eOf E)

/-- everything `care` does after the solver has returned `X`, given `Ri = R⁻¹` (the linear solve
`np.linalg.solve(R, rhs)`). -/
def careFinish (A : Matrix n n K) (B : Matrix n m K) (S : Option (Matrix n m K))
    (E : Option (Matrix n n K)) (X : Matrix n n K) (Ri : Matrix m m K) : AreResult n m K :=
  let G := Ri * careGainRhs B X S E
  ⟨X, G, A - B * G, carePencilE S E⟩

/-- `care` (validated arguments, `stabilizing=True`, `method='scipy'`). -/
def care [DecidableEq K] (solve : AreCall n m K → Matrix n n K)
    (A : Matrix n n K) (B : Matrix n m K) (Q : Matrix n n K) (R : Matrix m m K)
    (S : Option (Matrix n m K)) (E : Option (Matrix n n K)) : Except Err (AreResult n m K) :=
  let X := solve (careCall A B Q R S E)
  if R.det = 0 then .error .illPosed
  else .ok (careFinish A B S E X (SS.invQ R))

/-- right-hand side of the linear solve for the `dare` gain: `B.T @ X @ A` (`S is None`) or
`B.T @ X @ A + S.T`. -/
def dareGainRhs (A : Matrix n n K) (B : Matrix n m K) (X : Matrix n n K)
    (S : Option (Matrix n m K)) : Matrix m n K :=
  match S with
  | none => Bᵀ * X * A
  | some s => Bᵀ * X * A + sᵀ

/-- coefficient matrix of that solve: `B.T @ X @ B + R`. -/
def dareF (B : Matrix n m K) (R : Matrix m m K) (X : Matrix n n K) : Matrix m m K :=
  Bᵀ * X * B + R

/-- everything `dare` does after the solver has returned `X`, given `Fi = (BᵀXB + R)⁻¹`. -/
def dareFinish (A : Matrix n n K) (B : Matrix n m K) (S : Option (Matrix n m K))
    (E : Option (Matrix n n K)) (X : Matrix n n K) (Fi : Matrix m m K) : AreResult n m K :=
  let G := Fi * dareGainRhs A B X S
  ⟨X, G, A - B * G, E⟩

/-- `dare` (validated arguments, `stabilizing=True`, `method='scipy'`). -/
def dare [DecidableEq K] (solve : AreCall n m K → Matrix n n K)
    (A : Matrix n n K) (B : Matrix n m K) (Q : Matrix n n K) (R : Matrix m m K)
    (S : Option (Matrix n m K)) (E : Option (Matrix n n K)) : Except Err (AreResult n m K) :=
  let X := solve (dareCall A B Q R S E)
  if (dareF B R X).det = 0 then .error .illPosed
  else .ok (dareFinish A B S E X (SS.invQ (dareF B R X)))

end typed

/-! ## `_is_symmetric` -/

section symm

variable {K : Type*} [Field K] [LinearOrder K] {n : Type*}

/-- `_is_symmetric(M)` on a square array: for an inexact dtype (`tol = some eps`) the one-sided
test `((M - M.T) < eps).all()`, for an integer dtype (`tol = none`) `(M == M.T).all()`. -/
def IsSym (tol : Option K) (M : Matrix n n K) : Prop :=
  match tol with
  | some eps => ∀ i : n, ∀ j : n, M i j - M j i < eps
  | none => ∀ i : n, ∀ j : n, M i j = M j i

instance [Fintype n] : (tol : Option K) → (M : Matrix n n K) → Decidable (IsSym tol M)
  | some eps, M =>
    @Fintype.decidableForallFintype _ _ (fun i => @Fintype.decidableForallFintype _ _
      (fun j => inferInstanceAs (Decidable (M i j - M j i < eps))) _) _
  | none, M =>
    @Fintype.decidableForallFintype _ _ (fun i => @Fintype.decidableForallFintype _ _
      (fun j => inferInstanceAs (Decidable (M i j = M j i))) _) _

end symm

/-! ## Run-time shaped layer -/

section dyn

variable {K : Type} [Field K] [LinearOrder K]

/-- a 2-D array as python-control sees it after `np.array(·, ndmin=2)`: shape, entries, and the
tolerance `_is_symmetric` uses for its dtype (`some eps` for floats, `none` for integers). -/
structure DMat (K : Type) where
  p : Nat
  q : Nat
  M : Matrix (Fin p) (Fin q) K
  tol : Option K

/-- a typed matrix as a run-time array. -/
def DMat.of {p q : Nat} (M : Matrix (Fin p) (Fin q) K) (tol : Option K) : DMat K := ⟨p, q, M, tol⟩

/-- re-type an array along equalities of its dimensions. -/
def DMat.cast (M : DMat K) {p q : Nat} (hp : M.p = p) (hq : M.q = q) : Matrix (Fin p) (Fin q) K :=
  M.M.submatrix (Fin.cast hp.symm) (Fin.cast hq.symm)

/-- `_is_symmetric(M)`; on a non-square array `M - M.T` does not broadcast (ValueError). -/
def isSymD (M : DMat K) : Except Err Bool :=
  if h : M.q = M.p then .ok (decide (IsSym M.tol (M.cast rfl h)))
  else .error .shape

/-- `_check_shape(M, n, m, square, symmetric)`, in the order of the code: squareness
(ControlDimension), symmetry (ControlArgument), expected shape (ControlDimension).  Returns the
array typed with the expected shape. -/
def checkShape (M : DMat K) (n m : Nat) (square symmetric : Bool) :
    Except Err (Matrix (Fin n) (Fin m) K) := do
  if (square || symmetric) && M.p != M.q then throw .shape
  if symmetric then
    let s ← isSymD M
    if !s then throw .badArg
  if h : M.p = n ∧ M.q = m then pure (M.cast h.1 h.2)
  else throw .shape

/-- the SciPy entry points, for every run-time size. -/
structure Solvers (K : Type) where
  clyap : ∀ n : Nat, LyapCall (Fin n) K → Matrix (Fin n) (Fin n) K
  dlyap : ∀ n : Nat, LyapCall (Fin n) K → Matrix (Fin n) (Fin n) K
  sylv : ∀ n m : Nat, SylvCall (Fin n) (Fin m) K → Matrix (Fin n) (Fin m) K
  care : ∀ n m : Nat, AreCall (Fin n) (Fin m) K → Matrix (Fin n) (Fin n) K
  dare : ∀ n m : Nat, AreCall (Fin n) (Fin m) K → Matrix (Fin n) (Fin n) K

/-- the validated problem `lyap` / `dlyap` hands to the back end. -/
inductive LyapPlan (K : Type) where
  | lyap (n : Nat) (A Q : Matrix (Fin n) (Fin n) K)
  | sylv (n m : Nat) (A : Matrix (Fin n) (Fin n) K) (Q : Matrix (Fin m) (Fin m) K)
      (C : Matrix (Fin n) (Fin m) K)

/-- `lyap(A, Q, C, E, method='scipy')` up to the solver call. -/
def lyapPlan (A Q : DMat K) (C E : Option (DMat K)) : Except Err (LyapPlan K) := do
  let n := A.p
  let m := Q.p
  let A' ← checkShape A n n true false
  match C, E with
  | none, none =>
    let Q' ← checkShape Q n n true true
    pure (.lyap n A' Q')
  | some C, none =>
    let Q' ← checkShape Q m m true false
    let C' ← checkShape C n m false false
    pure (.sylv n m A' Q' C')
  | none, some E =>
    let _ ← checkShape Q n n true true
    let _ ← checkShape E n n true false
    -- "method='scipy' not valid for generalized Lyapunov equation"
    throw .badArg
  | some _, some _ =>
    -- "Invalid set of input parameters"
    throw .badArg

/-- `lyap(A, Q, C, E, method='scipy')`. -/
def lyapD (S : Solvers K) (A Q : DMat K) (C E : Option (DMat K)) : Except Err (DMat K) := do
  match ← lyapPlan A Q C E with
  | .lyap n A' Q' => pure (.of (lyap (S.clyap n) A' Q') none)
  | .sylv n m A' Q' C' => pure (.of (sylv (S.sylv n m) A' Q' C') none)

/-- the validated problem `dlyap` hands to the back end. -/
structure DLyapPlan (K : Type) where
  n : Nat
  A : Matrix (Fin n) (Fin n) K
  Q : Matrix (Fin n) (Fin n) K

/-- `dlyap(A, Q, C, E, method='scipy')` up to the solver call: only the standard equation is
available through SciPy. -/
def dlyapPlan (A Q : DMat K) (C E : Option (DMat K)) : Except Err (DLyapPlan K) := do
  let n := A.p
  let m := Q.p
  let A' ← checkShape A n n true false
  match C, E with
  | none, none =>
    let Q' ← checkShape Q n n true true
    pure ⟨n, A', Q'⟩
  | some C, none =>
    let _ ← checkShape Q m m true false
    let _ ← checkShape C n m false false
    -- "method='scipy' not valid for Sylvester equation"
    throw .badArg
  | none, some E =>
    let _ ← checkShape Q n n true true
    let _ ← checkShape E n n true false
    -- "method='scipy' not valid for generalized Lyapunov equation"
    throw .badArg
  | some _, some _ =>
    -- "Invalid set of input parameters"
    throw .badArg

/-- `dlyap(A, Q, C, E, method='scipy')`. -/
def dlyapD (S : Solvers K) (A Q : DMat K) (C E : Option (DMat K)) : Except Err (DMat K) := do
  let P ← dlyapPlan A Q C E
  pure (.of (dlyap (S.dlyap P.n) P.A P.Q) none)

/-- the validated Riccati problem. -/
structure ArePlan (K : Type) where
  n : Nat
  m : Nat
  A : Matrix (Fin n) (Fin n) K
  B : Matrix (Fin n) (Fin m) K
  Q : Matrix (Fin n) (Fin n) K
  R : Matrix (Fin m) (Fin m) K
  S : Option (Matrix (Fin n) (Fin m) K)
  E : Option (Matrix (Fin n) (Fin n) K)

/-- `R = np.eye(B.shape[1]) if R is None else np.array(R, ndmin=2)` -/
def rOf (B : DMat K) (eps : K) : Option (DMat K) → DMat K
  | none => .of (1 : Matrix (Fin B.q) (Fin B.q) K) (some eps)
  | some R => R

/-- `care(A, B, Q, R, S, E, stabilizing, method='scipy')` up to the solver call.  `eps` is the
machine epsilon of the identity matrix substituted for a missing `R`. -/
def carePlan (eps : K) (stabilizing : Bool) (A B Q : DMat K) (R S E : Option (DMat K)) :
    Except Err (ArePlan K) := do
  let R := rOf B eps R
  let n := A.p
  let m := B.q
  let A' ← checkShape A n n true false
  let B' ← checkShape B n m false false
  let Q' ← checkShape Q n n true true
  let R' ← checkShape R m m true true
  match S, E with
  | none, none =>
    if !stabilizing then throw .badArg
    pure ⟨n, m, A', B', Q', R', none, none⟩
  | S, E =>
    -- a missing E / S is replaced by eye / zeros, which pass their shape checks
    let E' ← match E with
      | none => pure none
      | some E => do let e ← checkShape E n n true false; pure (some e)
    let S' ← match S with
      | none => pure none
      | some S => do let s ← checkShape S n m false false; pure (some s)
    if !stabilizing then throw .badArg
    pure ⟨n, m, A', B', Q', R', S', E'⟩

/-- `dare(A, B, Q, R, S, E, stabilizing, method='scipy')` up to the solver call. -/
def darePlan (eps : K) (stabilizing : Bool) (A B Q : DMat K) (R S E : Option (DMat K)) :
    Except Err (ArePlan K) := do
  let R := rOf B eps R
  let n := A.p
  let m := B.q
  let A' ← checkShape A n n true false
  let B' ← checkShape B n m false false
  let Q' ← checkShape Q n n true true
  let R' ← checkShape R m m true true
  let E' ← match E with
    | none => pure none
    | some E => do let e ← checkShape E n n true false; pure (some e)
  let S' ← match S with
    | none => pure none
    | some S => do let s ← checkShape S n m false false; pure (some s)
  if !stabilizing then throw .badArg
  pure ⟨n, m, A', B', Q', R', S', E'⟩

/-- what `care` / `dare` return, with run-time sizes. -/
structure AreOut (K : Type) where
  n : Nat
  m : Nat
  res : AreResult (Fin n) (Fin m) K

def careD [DecidableEq K] (Sv : Solvers K) (eps : K) (stabilizing : Bool) (A B Q : DMat K)
    (R S E : Option (DMat K)) : Except Err (AreOut K) := do
  let P ← carePlan eps stabilizing A B Q R S E
  let r ← care (Sv.care P.n P.m) P.A P.B P.Q P.R P.S P.E
  pure ⟨P.n, P.m, r⟩

def dareD [DecidableEq K] (Sv : Solvers K) (eps : K) (stabilizing : Bool) (A B Q : DMat K)
    (R S E : Option (DMat K)) : Except Err (AreOut K) := do
  let P ← darePlan eps stabilizing A B Q R S E
  let r ← dare (Sv.dare P.n P.m) P.A P.B P.Q P.R P.S P.E
  pure ⟨P.n, P.m, r⟩

end dyn

end CtrlVerif.MatEqn
