/-
Model of NumPy coefficient-list polynomials (highest power first) as used by
`control/xferfcn.py`: `polyval`, `polyadd`, `polymul`, scalar scaling, and
`_truncatecoeff` (`trim`).  Executable over any (semi)ring; the driver runs it over `ℚ`.
-/
import Mathlib.Algebra.Field.Defs

namespace CtrlVerif

variable {K : Type*}

/-- `numpy.polyval` (Horner), highest power first. -/
def polyval [Semiring K] (p : List K) (x : K) : K :=
  p.foldl (fun acc c => acc * x + c) 0

/-- left-pad with zeros to length `n` (what `numpy.polyadd` does to the shorter operand). -/
def padLeft [Zero K] (n : Nat) (p : List K) : List K :=
  List.replicate (n - p.length) 0 ++ p

/-- `numpy.polyadd` on coefficient arrays. -/
def polyadd [Zero K] [Add K] (p q : List K) : List K :=
  List.zipWith (· + ·) (padLeft (max p.length q.length) p) (padLeft (max p.length q.length) q)

/-- scalar times coefficient array. -/
def scale [Mul K] (c : K) (p : List K) : List K := p.map (c * ·)

/-- negation of a coefficient array (`num *= -1`). -/
def pneg [Neg K] (p : List K) : List K := p.map (- ·)

/-- `numpy.polymul` (convolution), written as Horner accumulation over the first operand. -/
def polymul [Zero K] [Add K] [Mul K] (p q : List K) : List K :=
  p.foldl (fun acc c => polyadd (acc ++ [0]) (scale c q)) []

/-- all coefficients are zero (`not np.any(...)`). -/
def isZero [Zero K] [DecidableEq K] (p : List K) : Bool := p.all (· = 0)

/-- `_truncatecoeff`: drop leading zeros; the all-zero array becomes `[0]`. -/
def trim [Zero K] [DecidableEq K] (p : List K) : List K :=
  match p.dropWhile (· = 0) with
  | [] => [0]
  | l => l

end CtrlVerif
