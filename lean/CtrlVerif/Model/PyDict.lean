/-
The `collections.UserDict` behind `config.defaults`, as the state of the functions generated
from control/config.py by `harness/core/py2lean_select.py`, and the fixed meaning of the
primitives the translator emits on it.  Hand-written, trusted (like `Model/PyDt.lean`,
`Model/PyVal.lean`).  Core Lean only.

A generated configuration function runs in `CfgM = ExceptT Err (StateM Cfg)`: the state is the
dictionary (`self.data` of the `DefaultDict`, which is also the module-level `defaults`), an
exception keeps the changes made before it was raised (as in Python).  The dictionary itself is
the association list of `Model/Config.lean` (`get / put / has`); keys and values are strings
(values: the harness' opaque tokens; the value under `deprecated.<old>` is used as a key).

  `k in self`, `self.__contains__(k)`   ↦ `contains k`      (`UserDict.__contains__`: `k in self.data`)
  `self.data[k]`                        ↦ `dataGet k`       (KeyError ↦ `unknownName`)
  `super().__setitem__(k, v)`           ↦ `dataSet k v`     (`UserDict.__setitem__`: `self.data[k] = v`)
  `self[k]`                             ↦ `getitemWith missing k`   (`UserDict.__getitem__`: the stored value,
                                           else `__missing__(k)`); written `dataGet k` by the translator
                                           where the source has just tested `self.__contains__(k)`
  `self.update(table)`, `for k, v in d.items(): self[k] = v` are written out as loops over
  `self[k] = v` by the translator (`MutableMapping.update`).
-/
import CtrlVerif.Model.Config

namespace CtrlVerif

abbrev CfgM := ExceptT Err (StateM Config.Cfg)

namespace PyDict

open Config

def contains (k : String) : CfgM Bool :=
  ExceptT.mk fun c => (.ok (has c k), c)

def dataGet (k : String) : CfgM String :=
  ExceptT.mk fun c => (match Config.get c k with
    | some v => .ok v
    | none => .error Err.unknownName, c)

def dataSet (k v : String) : CfgM Unit :=
  ExceptT.mk fun c => (.ok (), put c k v)

def getitemWith (missing : String → CfgM String) (k : String) : CfgM String := do
  if (← contains k) then dataGet k else missing k

/-- run a generated function on a dictionary: (what it returned or raised, the dictionary after). -/
def run {α : Type} (m : CfgM α) (c : Cfg) : Except Err α × Cfg := (ExceptT.run m).run c

end PyDict

end CtrlVerif
