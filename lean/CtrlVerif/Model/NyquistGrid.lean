/-
C13 — model of the *default frequency grid* that `control.freqplot.nyquist_response` evaluates the loop on
(`_determine_omega_vector` 2686-2712, `_default_frequency_range` 2814-2840, `nyquist_response` 1334-1369).

```
feature_periphery_decades = config._get_param('freqplot', 'feature_periphery_decades', feature_periphery_decades, 1)
...
if features.shape[0] == 0: features = np.array([1.])
features = np.log10(features)
lsp_min = np.rint(np.min(features) - feature_periphery_decades)
lsp_max = np.rint(np.max(features) + feature_periphery_decades)
if freq_interesting:
    lsp_min = min(lsp_min, np.log10(min(freq_interesting)))
    lsp_max = max(lsp_max, np.log10(max(freq_interesting)))
omega = np.logspace(lsp_min, lsp_max, num=number_of_samples, endpoint=True)
```
and, in `nyquist_response` (which asks for `feature_periphery_decades=2`),
```
omega = np.concatenate((np.linspace(0, omega[0], indent_points), omega[1:]))
omega_sys = np.hstack((omega_sys[omega_sys < nyq_freq], nyq_freq))          # discrete time only
```

External (inputs, never axioms): `np.log10` (the model receives the list `logs = log10(features)`; the empty feature
list is replaced by `[1.]`, i.e. `logs = [0]`), the selection of the features from `poles()` / `zeros()` (done by the
harness exactly as the code does it), `10 ** x` of `np.logspace` (the harness applies it to the model's exponents).
`np.rint` rounds half to even: `roundHalfEven` of `Model/Nyquist.lean`.
-/
import CtrlVerif.Model.Nyquist

namespace CtrlVerif.Nyquist

variable {K : Type} [Field K] [LinearOrder K] [IsStrictOrderedRing K] [FloorRing K]

/-- `np.min` of a non-empty array `a :: t`. -/
def minL (a : K) (t : List K) : K := t.foldl min a

/-- `np.max` of a non-empty array `a :: t`. -/
def maxL (a : K) (t : List K) : K := t.foldl max a

/-- `config._get_param('freqplot', 'feature_periphery_decades', value, 1)` with the configured default `cfg`:
an explicitly passed value wins. -/
def peripheryParam (cfg : K) : Option K → K
  | none => cfg
  | some d => d

/-- `_default_frequency_range`, the exponents `(lsp_min, lsp_max)` of the logarithmic grid (`Hz = None`):
`logs` = `log10` of the features (empty: the code substitutes the single feature `1.`), `d` the periphery in decades,
`interesting` = `log10` of `freq_interesting` (discrete time: `0.9 * pi / dt`). -/
def rangeExponents (d : K) (logs interesting : List K) : K × K :=
  let at' : K × List K := match logs with
    | [] => (0, [])
    | a :: t => (a, t)
  let lo : K := ((roundHalfEven (minL at'.1 at'.2 - d) : ℤ) : K)
  let hi : K := ((roundHalfEven (maxL at'.1 at'.2 + d) : ℤ) : K)
  match interesting with
  | [] => (lo, hi)
  | b :: u => (min lo (minL b u), max hi (maxL b u))

/-- `_determine_omega_vector(syslist, None, None, num, feature_periphery_decades=dArg)`: the default range with the
caller's periphery *forwarded* to `_default_frequency_range`. -/
def determineExponents (cfg : K) (dArg : Option K) (logs interesting : List K) : K × K :=
  rangeExponents (peripheryParam cfg dArg) logs interesting

/-- the call in `nyquist_response` (line 1334): `feature_periphery_decades=2`. -/
def nyquistExponents (cfg : K) (logs interesting : List K) : K × K :=
  determineExponents cfg (some 2) logs interesting

/-- line 1344: `np.concatenate((np.linspace(0, omega[0], indent_points), omega[1:]))`
(`omega[0]` of an empty array raises `IndexError`). -/
def prependLinspace (npts : ℕ) : List K → Except Err (List K)
  | [] => .error .indexRange
  | a :: t => .ok (linspace 0 a npts ++ t)

/-- lines 1368-1369: `np.hstack((omega_sys[omega_sys < nyq_freq], nyq_freq))`. -/
def truncNyquist (nyq : K) (om : List K) : List K :=
  om.filter (fun w => decide (w < nyq)) ++ [nyq]

/-- `omega_sys` before any point is inserted near a pole: default arguments, `nyq = some (pi/dt)` for a
discrete-time system (`isdtime(strict=True)`), `none` otherwise. -/
def defaultOmega (npts : ℕ) (nyq : Option K) (om : List K) : Except Err (List K) := do
  let o ← prependLinspace npts om
  match nyq with
  | none => pure o
  | some f => pure (truncNyquist f o)

end CtrlVerif.Nyquist
