/-
C13 — model of the *default frequency grid* that `control.freqplot.nyquist_response` evaluates the loop on
(`_determine_omega_vector` 2686-2712, `_default_frequency_range` 2814-2840, `nyquist_response` 1334-1369).

```
feature_periphery_decades = config._get_param('freqplot', 'feature_periphery_decades', feature_periphery_decades, 1)
...
if features.shape[0] == 0: features = np.array([1.])
features = np.log10(features)
lsp_min = np.rint(np.min(features) - feature_periphery_decades)
lsp_max = np.rint(np.max(features) + feature_periphery_decades)
if freq_interesting:
    lsp_min = min(lsp_min, np.log10(min(freq_interesting)))
    lsp_max = max(lsp_max, np.log10(max(freq_interesting)))
omega = np.logspace(lsp_min, lsp_max, num=number_of_samples, endpoint=True)
```
and, in `nyquist_response` (which asks for `feature_periphery_decades=2`),
```
omega = np.concatenate((np.linspace(0, omega[0], indent_points), omega[1:]))
omega_sys = np.hstack((omega_sys[omega_sys < nyq_freq], nyq_freq))          # discrete time only
```

External (inputs, never axioms): `np.log10` (the model receives the list `logs = log10(features)`; the empty feature
list is replaced by `[1.]`, i.e. `logs = [0]`), the selection of the features from `poles()` / `zeros()` (done by the
harness exactly as the code does it), `10 ** x` of `np.logspace` (the harness applies it to the model's exponents).
`np.rint` rounds half to even: `roundHalfEven` of `Model/Nyquist.lean`.

Timebase (`sys.dt` in {`None`, `0`, `True`, `dt > 0`}): which branch of `_default_frequency_range` selects the features
of a system (lines 2779-2808), whether `nyquist_response` cuts the grid at the Nyquist frequency (1362-1369) and whether
it takes the poles as s-plane poles (1381) are decided by `sys.isctime()` / `sys.isdtime(strict=True)`
(`DtPred.isctime / isdtime` of `Model/DtPred.lean`, proved equal to the source text by C05): `featureBranch`,
`nyquistFreq`, `polesInSPlane` below.
-/
import CtrlVerif.Model.Nyquist
import CtrlVerif.Model.DtPred

namespace CtrlVerif.Nyquist

variable {K : Type} [Field K] [LinearOrder K] [IsStrictOrderedRing K] [FloorRing K]

/-- `np.min` of a non-empty array `a :: t`. -/
def minL (a : K) (t : List K) : K := t.foldl min a

/-- `np.max` of a non-empty array `a :: t`. -/
def maxL (a : K) (t : List K) : K := t.foldl max a

/-- `config._get_param('freqplot', 'feature_periphery_decades', value, 1)` with the configured default `cfg`:
an explicitly passed value wins. -/
def peripheryParam (cfg : K) : Option K → K
  | none => cfg
  | some d => d

/-- `_default_frequency_range`, the exponents `(lsp_min, lsp_max)` of the logarithmic grid (`Hz = None`):
`logs` = `log10` of the features (empty: the code substitutes the single feature `1.`), `d` the periphery in decades,
`interesting` = `log10` of `freq_interesting` (discrete time: `0.9 * pi / dt`). -/
def rangeExponents (d : K) (logs interesting : List K) : K × K :=
  let at' : K × List K := match logs with
    | [] => (0, [])
    | a :: t => (a, t)
  let lo : K := ((roundHalfEven (minL at'.1 at'.2 - d) : ℤ) : K)
  let hi : K := ((roundHalfEven (maxL at'.1 at'.2 + d) : ℤ) : K)
  match interesting with
  | [] => (lo, hi)
  | b :: u => (min lo (minL b u), max hi (maxL b u))

/-- `_determine_omega_vector(syslist, None, None, num, feature_periphery_decades=dArg)`: the default range with the
caller's periphery *forwarded* to `_default_frequency_range`. -/
def determineExponents (cfg : K) (dArg : Option K) (logs interesting : List K) : K × K :=
  rangeExponents (peripheryParam cfg dArg) logs interesting

/-- the call in `nyquist_response` (line 1334): `feature_periphery_decades=2`. -/
def nyquistExponents (cfg : K) (logs interesting : List K) : K × K :=
  determineExponents cfg (some 2) logs interesting

/-- line 1344: `np.concatenate((np.linspace(0, omega[0], indent_points), omega[1:]))`
(`omega[0]` of an empty array raises `IndexError`). -/
def prependLinspace (npts : ℕ) : List K → Except Err (List K)
  | [] => .error .indexRange
  | a :: t => .ok (linspace 0 a npts ++ t)

/-- lines 1368-1369: `np.hstack((omega_sys[omega_sys < nyq_freq], nyq_freq))`. -/
def truncNyquist (nyq : K) (om : List K) : List K :=
  om.filter (fun w => decide (w < nyq)) ++ [nyq]

/-- `omega_sys` before any point is inserted near a pole: default arguments, `nyq = some (pi/dt)` for a
discrete-time system (`isdtime(strict=True)`), `none` otherwise. -/
def defaultOmega (npts : ℕ) (nyq : Option K) (om : List K) : Except Err (List K) := do
  let o ← prependLinspace npts om
  match nyq with
  | none => pure o
  | some f => pure (truncNyquist f o)

/-! ### the timebase of the loop -/

/-- the branch of the `try:` block of `_default_frequency_range` (lines 2779-2808) a system takes -/
inductive FeatureBranch where
  /-- `if sys.isctime():` features = |poles|, |zeros|, those at the origin removed -/
  | continuous
  /-- `elif sys.isdtime(strict=True):` `freq_interesting += [0.9 pi/dt]`, features = `|log z / (j dt)|` -/
  | discrete
  /-- `else: raise NotImplementedError` (swallowed): the system contributes no feature at all -/
  | skipped
  deriving DecidableEq, Repr

/-- lines 2779 / 2787 / 2805, in the code's order -/
def featureBranch (dt : Dt) : FeatureBranch :=
  if DtPred.isctime false dt then .continuous
  else if DtPred.isdtime true dt then .discrete
  else .skipped

/-- the number `sys.dt` in `math.pi / sys.dt` (`True` is `1`) -/
def dtValue : Dt → K
  | .dtrue => 1
  | .disc h => (h : K)
  | _ => 0

/-- `nyquist_response` lines 1362-1364: `if sys.isdtime(strict=True): nyq_freq = math.pi / sys.dt`; `none`: the grid is
not cut (`pi` = `math.pi` is a parameter) -/
def nyquistFreq (pi : K) (dt : Dt) : Option K :=
  if DtPred.isdtime true dt then some (pi / dtValue dt) else none

/-- `nyquist_response` line 1381: `if sys.isctime(): splane_poles = sys.poles()` (otherwise `log(z)/dt`) -/
def polesInSPlane (dt : Dt) : Bool := DtPred.isctime false dt

/-- `omega_sys` of a system with timebase `dt` (default arguments) -/
def defaultOmegaDt (pi : K) (dt : Dt) (npts : ℕ) (om : List K) : Except Err (List K) :=
  defaultOmega npts (nyquistFreq pi dt) om

/-- the timebase of a loop formed as a product / series of parts (`common_timebase` folded from the left, as `__mul__`
does), then the three decisions -/
def loopTimebase : List Dt → Except Err Dt
  | [] => .ok .none
  | d :: t => t.foldl (fun acc x => common' acc (.ok x)) (.ok d)

end CtrlVerif.Nyquist
