/-
C02 under the documented option `remove_useless_states` (`StateSpace.__init__`, final processing,
control/statesp.py:239-279; `_remove_useless_states` 350-377).

Every operator of `StateSpace` ends in a constructor call `StateSpace(A, B, C, D, dt)`; when the
configured default `config.defaults['statesp.remove_useless_states']` is on (switched on by
`set_defaults('statesp', remove_useless_states=True)`, by assigning the dict entry, or by
`use_legacy_defaults('0.8.x')`) that call finishes with `_remove_useless_states()`.  The rule
itself is the one already modelled for C03 (`Convert.removeUseless` / `Convert.construct`,
`Model/ConvertRus.lean`); here it is applied to the operands of the run-time layer of C02:

* `rusOp flag x` — the constructor's final processing on an operand of the postfix program
  (driver instruction `rus`): a system goes through `Convert.construct flag`, constants are not
  systems yet and stay as they are.
* `SSTree.evalRus flag e` — the last constructor call of the evaluation of a tree.
-/
import CtrlVerif.Model.ConvertRus
import CtrlVerif.Model.C02Dyn

namespace CtrlVerif.C02Rus

open CtrlVerif

variable {K : Type} [Field K] [DecidableEq K]

/-- the end of `StateSpace.__init__` on an operand of the postfix program. -/
def rusOp (flag : Bool) : SOperand K → SOperand K
  | .sys G => .sys (Convert.construct flag G)
  | x => x

/-- evaluation of a run-time tree whose root operator's constructor call runs with the option
`flag`. -/
def evalRus (flag : Bool) (e : SSTree K) : Except SSEvalErr (SOperand K) :=
  (e.eval).map (rusOp flag)

end CtrlVerif.C02Rus
