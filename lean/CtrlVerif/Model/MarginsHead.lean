/-
Hand-written model of the HEAD of `control/margins.py: stability_margins(sysdata, returnall=False,
epsw=0.0, method='best')` — everything before the polynomial builders are called:

* `dispatch` — the class of `sysdata` decides what `sys` is: an FRD object is copied with `smooth=True`;
  a transfer function is used as it is; a 3-tuple / 3-list `(mag, phase, omega)` becomes the FRD of
  `mag · exp(j · phase · π / 180)` over `omega` (`bodeData`); anything else goes through
  `_convert_to_transfer_function`; every exception on the way is a `ValueError`;
* `resolve` — the SISO check (`ControlMIMONotImplemented`) and the `method` resolution: `'frd'` samples a
  transfer function on its default frequency range (below the Nyquist frequency in discrete time), `'best'`
  does so only for a discrete-time transfer function for which the numerical-inaccuracy switch
  (`Env.likely`, a parameter) fires, `'poly'` keeps the transfer function; an FRD operand stays an FRD
  whatever the method; any other method string is a `ValueError`;
* `routeOf` — a transfer function goes to the polynomial route with the builders of its time domain
  (`_poly_iw` in continuous, `_poly_z_invz` in discrete time), an FRD to the numerical route.

The model is PURE by construction (`headStep` returns its argument as the caller's data after the call);
`Props/C12GenHead.lean` proves that the function the source text defines is equal to it, so the text
does not modify `mag`, `phase`, `omega` in place.  The object classes and what the head does with the
objects are abstract (`PyHeads.Env`).  Theorems about this model: `Props/C12Head.lean`.
-/
import CtrlVerif.Model.PyHeads

namespace CtrlVerif.MarginsHead

open CtrlVerif CtrlVerif.Margins CtrlVerif.PyHeads

section
variable {K TF FRD Oth : Type} [Field K] [LinearOrder K]

/-- the complex response of Bode data: `mag * exp(1j * phase * pi / 180)` (NumPy broadcasting). -/
def bodeResp (P : PyMarg.Prims K) (mag phase : List K) : Except Err (List (Cx K)) :=
  PyMarg.zipB rmulc mag (phase.map fun x => P.expj (x * P.pi / 180))

/-- `FRD(mag * exp(1j * phase * pi / 180), omega, smooth=True)` -/
def bodeData (E : Env K TF FRD Oth) (P : PyMarg.Prims K) (mag phase omega : List K) : Except Err FRD :=
  (bodeResp P mag phase).bind fun r => E.frdOfData r omega true

/-- every exception inside the dispatch is reported as a `ValueError`. -/
def asValueError {α : Type} : Except Err α → Except Err α
  | .ok v => .ok v
  | .error _ => .error .badArg

/-- a tuple / list: exactly three items are Bode data, anything else is converted as an array_like. -/
def dispatchSeq (E : Env K TF FRD Oth) (P : PyMarg.Prims K) : List (List K) → Except Err (Sys TF FRD)
  | [mag, phase, omega] => asValueError ((bodeData E P mag phase omega).map Sys.frd)
  | items => asValueError ((E.convertSeq items).map Sys.tf)

/-- the dispatch on `sysdata`. -/
def dispatch (E : Env K TF FRD Oth) (P : PyMarg.Prims K) : SysData K TF FRD Oth → Except Err (Sys TF FRD)
  | .frd f => .ok (.frd (E.frdCopy f true))
  | .tf g => .ok (.tf g)
  | .seq items => dispatchSeq E P items
  | .iterNoLen _ => .error .badArg
  | .other o => asValueError ((E.convertOther o).map Sys.tf)

/-- `omega_sys[omega_sys < np.pi / sys.dt]` of the default frequency range. -/
def belowNyquist (E : Env K TF FRD Oth) (P : PyMarg.Prims K) (g : TF) : Except Err (List K) :=
  (PyArith.div P.pi (E.dt g)).map fun lim => (E.defaultRange g).filter fun w => decide (w < lim)

/-- the transfer function sampled for the numerical route (`method='frd'`). -/
def sampled (E : Env K TF FRD Oth) (P : PyMarg.Prims K) (g : TF) : Except Err FRD :=
  if E.isctime g then .ok (E.frdOfTF g (E.defaultRange g) false)
  else (belowNyquist E P g).map fun om => E.frdOfTF g om true

/-- the fall-back of `method='best'`: a discrete-time transfer function for which the switch fires. -/
def fallback (E : Env K TF FRD Oth) (P : PyMarg.Prims K) (g : TF) : Except Err (Sys TF FRD) :=
  if E.isctime g then .ok (.tf g)
  else (E.likely g).bind fun l =>
    if l then (belowNyquist E P g).map fun om => Sys.frd (E.frdOfTF g om true) else .ok (.tf g)

/-- is the method string one of the three known ones? -/
def knownMethod (method : String) : Bool := method = "frd" || method = "best" || method = "poly"

/-- SISO check and method resolution. -/
def resolve (E : Env K TF FRD Oth) (P : PyMarg.Prims K) (method : String) : Sys TF FRD → Except Err (Sys TF FRD)
  | .frd f =>
    if E.issisoFRD f then (if knownMethod method then .ok (.frd f) else .error .badArg)
    else .error .notImplemented
  | .tf g =>
    if E.issisoTF g then
      if method = "frd" then (sampled E P g).map Sys.frd
      else if method = "best" then fallback E P g
      else if method = "poly" then .ok (.tf g)
      else .error .badArg
    else .error .notImplemented

/-- the builders of the time domain. -/
def builders (E : Env K TF FRD Oth) (g : TF) : Builders := if E.isctime g then .iw else .zinvz

/-- continuous / discrete choice of the builders; an FRD goes to the numerical route. -/
def routeOf (E : Env K TF FRD Oth) : Sys TF FRD → Route TF FRD
  | .tf g => .poly (builders E g) g
  | .frd f => .frd f

/-- the head of `stability_margins`. -/
def head (E : Env K TF FRD Oth) (P : PyMarg.Prims K) (sysdata : SysData K TF FRD Oth) (method : String) :
    Except Err (Route TF FRD) :=
  (dispatch E P sysdata).bind fun s => (resolve E P method s).map (routeOf E)

/-- one call as a step on the caller's data: the result and the caller's `sysdata` after the call. -/
def headStep (E : Env K TF FRD Oth) (P : PyMarg.Prims K) (method : String) (sysdata : SysData K TF FRD Oth) :
    Except Err (Route TF FRD × SysData K TF FRD Oth) :=
  (head E P sysdata method).map fun r => (r, sysdata)

/-- the caller's data after a history of calls (a call that raises leaves it as it is — the model raises
before anything could be changed). -/
def afterCalls (step : SysData K TF FRD Oth → Except Err (Route TF FRD × SysData K TF FRD Oth)) :
    Nat → SysData K TF FRD Oth → SysData K TF FRD Oth
  | 0, d => d
  | n + 1, d =>
    match step d with
    | .ok r => afterCalls step n r.2
    | .error _ => afterCalls step n d

end

/-! ### `_likely_numerical_inaccuracy` as the code computes it -/

section
variable {K : Type} [Field K] [LinearOrder K]

/-- contract of `np.linalg.norm` on a 1-D float array: the non-negative square root of the sum of squares. -/
structure NormSpec (norm : List K → K) : Prop where
  nonneg : ∀ p, 0 ≤ norm p
  sq : ∀ p, norm p * norm p = coeffNormSq p

/-- `1e-4` squared: the `tol2` the driver hands to `Margins.likelyInaccurate`. -/
def tol2 : K := (PyHeads.decimal 1 10000 : K) * PyHeads.decimal 1 10000

end

end CtrlVerif.MarginsHead
