/-
Source-text tie of C15, part 6: `canonical_form` (control/canonical.py), the public entry point that
dispatches on the string `form`.  `Generated/CanonForm.lean` is rewritten from the source text on every
run (harness/core/py2lean_canon.py); it calls the generated `reachable_form` / `observable_form`
(`Generated/CanonReachable.lean`, `CanonObservable.lean`); `modal_form` is NOT translated and not
modelled: it is a parameter of the generated function, and the theorems hold for every value of it.
The run-time model `DSS.canonicalForm` (`'modal'` is outside it) is proved EQUAL to the generated
function for every system and every string other than `'modal'`.
-/
import CtrlVerif.Generated.CanonForm
import CtrlVerif.Props.C15GenReach
import CtrlVerif.Props.C15GenObs

namespace CtrlVerif.C15Gen

open Matrix CtrlVerif PyCanon

variable {K : Type} [Field K] [DecidableEq K]

/-- the `form` argument (a string) as the model's enumeration (`'modal'` is not modelled). -/
def formOf (s : String) : DSS.Form :=
  if s = "reachable" then .reachable else if s = "observable" then .observable else .other

/-- **`canonical_form`**: the function the source text defines is the model's `DSS.canonicalForm` for
every system and every `form` other than `'modal'`, whatever `modal_form` is. -/
theorem generated_canonical_form_eq (modal : DSS K → Except Err (DSS K × PMat K)) (G : DSS K)
    (form : String) (h : form ≠ "modal") :
    Generated.canonicalForm modal G form
      = (G.canonicalForm (formOf form) (charpolyList G.sys.A)).map canonOut := by
  unfold Generated.canonicalForm formOf DSS.canonicalForm
  by_cases h1 : form = "reachable"
  · simp only [h1, ↓reduceIte]
    exact generated_reachable_form_eq G
  · by_cases h2 : form = "observable"
    · subst h2
      simp only [h1, ↓reduceIte]
      exact generated_observable_form_eq G
    · simp only [h1, h2, h, ↓reduceIte]
      rfl

/-- `form='modal'` hands over to `modal_form` (not translated, not modelled). -/
theorem generated_canonical_form_modal (modal : DSS K → Except Err (DSS K × PMat K)) (G : DSS K) :
    Generated.canonicalForm modal G "modal" = modal G := by
  unfold Generated.canonicalForm
  have h1 : ¬ ("modal" = "reachable") := by decide
  have h2 : ¬ ("modal" = "observable") := by decide
  simp only [h1, h2, ↓reduceIte]

/-- **`canonical_unknown_form_raises` of the function the source text defines**: any other string
raises `ControlNotImplemented`. -/
theorem generated_canonical_unknown_form_raises (modal : DSS K → Except Err (DSS K × PMat K)) (G : DSS K)
    (form : String) (h1 : form ≠ "reachable") (h2 : form ≠ "observable") (h3 : form ≠ "modal") :
    Generated.canonicalForm modal G form = .error .notImplemented := by
  rw [generated_canonical_form_eq modal G form h3]
  simp only [formOf, h1, h2, ↓reduceIte]
  rfl

/-- non-vacuity: `'reachable'` and `'observable'` are not `'modal'`, `'foo'` is none of the three;
the default `form='reachable'` returns on the reachable example of `C15GenReach`. -/
example : ("reachable" : String) ≠ "modal" ∧ ("observable" : String) ≠ "modal"
    ∧ ("foo" : String) ≠ "reachable" ∧ ("foo" : String) ≠ "observable" ∧ ("foo" : String) ≠ "modal" := by
  decide

example (modal : DSS ℚ → Except Err (DSS ℚ × PMat ℚ)) :
    ∃ R, Generated.canonicalForm modal ⟨2, 1, 1, ⟨!![0, 1; -2, -3], !![0; 1], !![1, 0], !![2]⟩, .cont⟩
      "reachable" = .ok R := by
  rw [generated_canonical_form_eq modal _ _ (by decide)]
  have : formOf "reachable" = DSS.Form.reachable := by decide
  rw [this]
  show ∃ R, (DSS.reachableForm _ _).map canonOut = .ok R
  rw [← generated_reachable_form_eq]
  refine (generated_reachable_form_ok_iff _).mpr ⟨⟨rfl, rfl⟩, by decide, ?_⟩
  simp only [SS.castIO_rfl]
  decide +kernel

end CtrlVerif.C15Gen
