/-
Source-text tie of C02, part 4: `StateSpace.feedback`.
`Generated/SSFeedback.lean` is rewritten from control/statesp.py on every run
(harness/core/py2lean_ss.py); the theorem below proves the run-time model operator `DSS.feedback`
(`Model/SSDyn.lean: feedbackSS`, built on the typed `SS.feedback`) EQUAL to the generated function
for every kind of operand in the feedback path, all sizes, entries, gains `sign` and timebases.
Where the source computes differently from the model the equivalence is proved here:
`matrix_rank(F) != ninputs` is `det F = 0`; `solve(F, [D2 C2])` sliced into its two column blocks is
`(F⁻¹ D2, F⁻¹ C2)`; `sign * X @ Y` is `sign • (X Y)`.
-/
import CtrlVerif.Generated.SSFeedback
import CtrlVerif.Lemmas.PyMat

namespace CtrlVerif.C02Gen

open Matrix CtrlVerif

variable {K : Type} [Field K] [DecidableEq K]

/-- **`feedback`**: the function the source text defines is the model's `DSS.feedback`. -/
theorem generated_feedback_eq (G : DSS K) (x : SOperand K) (sign : K) :
    Generated.ssFeedback G x sign = DSS.feedback G x sign := by
  unfold DSS.feedback
  rw [DSS.feedbackSS_eq]
  unfold Generated.ssFeedback
  rw [PySS.convert_eq]
  generalize DSS.toSys x = H
  obtain ⟨n, p, m, ⟨A, B, C, D⟩, dt⟩ := G
  obtain ⟨n', p', m', ⟨A', B', C', D'⟩, dt'⟩ := H
  simp only [PySS.A, PySS.B, PySS.C, PySS.D]
  by_cases h : m = p' ∧ p = m'
  · obtain ⟨rfl, rfl⟩ := h
    simp only [ne_eq, not_true_eq_false, or_self, ↓reduceIte, and_self, ↓reduceDIte, bind]
    refine Except.bind_congr' fun d => ?_
    simp only [PMat.smul_mk, PMat.matmul_mk, PMat.eye_def, PMat.sub_mk, Except.bind, PMat.rank_mk_ne_iff,
      PMat.hcat_mk, PMat.solve_mk]
    have hF : (1 - (sign • D') * D : Matrix (Fin m) (Fin m) K)
        = DSS.fbF ⟨n, p, m, ⟨A, B, C, D⟩, dt⟩ ⟨n', m, p, ⟨A', B', C', D'⟩, dt'⟩ ⟨rfl, rfl⟩ sign := by
      simp [DSS.fbF, SS.castIO_rfl, Matrix.smul_mul]
    rw [hF]
    split
    · rfl
    · simp only [PMat.sliceCols_prefix, PMat.sliceCols_suffix, PMat.mul_submatrix_cols, PMat.hcat_castAdd,
        PMat.hcat_natAdd, PMat.smul_mk, PMat.matmul_mk, PMat.add_mk, PMat.eye_def, PMat.hcat_mk,
        PMat.vcat_mk, PySS.mk_mk, PMat.vcat_hcat_blocks, PMat.inverse_eq_invQ]
      simp [SS.feedback, SS.flatS, SS.reindex, SS.castIO_rfl, Matrix.smul_mul, Matrix.mul_assoc]
  · have h' : ¬m = p' ∨ ¬p = m' := by tauto
    simp [h, h', throw, throwThe, MonadExceptOf.throw]

end CtrlVerif.C02Gen
