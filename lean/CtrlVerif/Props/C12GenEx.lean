/-
Source-text tie of the selection logic of C12: NON-VACUITY.  (1) The contracts of the transcendental
parameters are met over `ℝ` (`Props/C12GenReal.lean`), so every theorem of `C12GenSel … C12GenBw` applies to
`realPrims`: the headline equalities are restated here without contract hypotheses.  (2) Worked instances over
`ℚ` with a toy `Prims` (exact on the data used), closed by `decide +kernel`: the generated functions compute.
-/
import CtrlVerif.Props.C12GenSmCor
import CtrlVerif.Props.C12GenMargin
import CtrlVerif.Props.C12GenBw
import CtrlVerif.Props.C12GenReal
import Mathlib.Algebra.Order.Field.Rat
import Mathlib.Algebra.Order.Ring.Rat
import Mathlib.Algebra.Order.Floor.Defs
import Mathlib.Data.Rat.Floor

namespace CtrlVerif.C12GenSel
open CtrlVerif CtrlVerif.Margins CtrlVerif.PyMarg

/-! ### (1) over ℝ, no contract left -/

/-- the four contracts are satisfiable. -/
theorem contracts_inhabited : ∃ P : Prims ℝ, CabsSpec P ∧ AngleSpec P ∧ AngleDegSpec P ∧ LogSpec P :=
  ⟨realPrims fun _ => [], realPrims_cabs _, realPrims_angle _, realPrims_angleDeg _, realPrims_log _⟩

/-- continuous time over ℝ with `np.abs = √(re²+im²)`, `np.angle = arg` (degrees), `np.log = log`: the default
return of the function the source text defines is the model's default selection, whatever `np.roots` returns. -/
theorem real_sm_continuous_mins (roots : List ℝ → List (Cx ℝ)) (num den n0 d0 : List ℝ) (dt0 : ℝ)
    (zw : List (Cx ℝ) × List ℝ) (epsw : ℝ) (Bs Ss : List (ℝ × Cx ℝ))
    (hB : allSome (gainCrossings num den epsw (roots (mag1Poly num den))) = some Bs)
    (hS : allSome (stabCrossings num den epsw (roots (wstabPoly num den))) = some Ss) :
    Generated.stabilityMarginsSel (realPrims roots) (respAt num den) true (polyIw num, polyIw den) n0 d0 dt0 zw
        false epsw
      = .ok (smMins (realPrims roots) id id id
          (defaultGm (phaseCrossings num den epsw (roots (realCrossingPoly num den))))
          (defaultPm Bs) (defaultSm Ss)) :=
  generated_sm_continuous_mins (realPrims roots) (realPrims_cabs _) (realPrims_angleDeg _) (realPrims_log _)
    num den n0 d0 dt0 zw epsw Bs Ss hB hS

/-- discrete time over ℝ (`epsw = 0`, `dt > 0`, proper loop, `|z| = 1` tolerances `≤ 1`). -/
theorem real_sm_discrete_all (roots : List ℝ → List (Cx ℝ)) (iw : (List ℝ × List ℝ) × (List ℝ × List ℝ))
    (num den : List ℝ) (dt : ℝ) (zs : List (Cx ℝ)) (ws : List ℝ) (hdt : 0 < dt)
    (hp : num.length ≤ den.length) (hzw : ws.length = zs.length)
    (heps1 : zEps (realPrims roots) (zRealP2 num den) ≤ 1) (heps2 : zEps (realPrims roots) (zMag1P2 den) ≤ 1) :
    Generated.stabilityMarginsSel (realPrims roots) (respAt num den) false iw num den dt (zs, ws) true 0
      = .ok (smAllOfZ (realPrims roots) dt
          (zPhaseCrossings num den (zEps (realPrims roots) (zRealP2 num den)) (roots (zRealCrossingPoly num den)))
          (zGainCrossings num den (zEps (realPrims roots) (zMag1P2 den)) (roots (zMag1Poly num den)))
          (sortByW (ws.zip (zs.map (respAt num den))))) :=
  generated_sm_discrete_all (realPrims roots) (realPrims_cabs _) (realPrims_angle _) iw num den dt zs ws hdt hp hzw
    heps1 heps2

/-- the tolerance hypothesis is met: `finfo.eps ** x ≤ 1` for `x ≥ 0`. -/
theorem real_zEps_le_one (roots : List ℝ → List (Cx ℝ)) (p2 : List ℝ) : zEps (realPrims roots) p2 ≤ 1 := by
  show Real.rpow (2 ^ (-52 : ℤ)) (1 / (p2.length : ℝ)) ≤ 1
  apply Real.rpow_le_one
  · positivity
  · rw [zpow_neg]; exact inv_le_one_of_one_le₀ (by norm_num)
  · positivity

/-- `10 ** x ≥ 0`: the hypothesis of `generated_bandwidth_eq`. -/
theorem real_pow10_nonneg (roots : List ℝ → List (Cx ℝ)) (x : ℝ) : 0 ≤ (realPrims roots).pow10 x :=
  Real.rpow_nonneg (by norm_num) x

/-! ### (2) worked instances over ℚ -/

/-- a toy `Prims ℚ`: `np.roots` knows the two polynomials used below, `np.abs` is exact on the axes. -/
def P0 : Prims ℚ where
  npRoots p := if p = [1, 0, -1, 0] then [⟨0, 0⟩, ⟨-1, 0⟩, ⟨1, 0⟩]
    else if p = [-1, 0, 16] then [⟨4, 0⟩, ⟨-4, 0⟩] else []
  cabs z := |z.re| + |z.im|
  angle z := if z.im = 0 then (if z.re < 0 then 3 else 0) else if 0 < z.im then 1 else -1
  angleDeg z := if z.im = 0 then (if z.re < 0 then 180 else 0) else if 0 < z.im then 90 else -90
  log x := x - 1 / x
  pi := 3
  epsPow _ := 1 / 100
  pow10 _ := 7 / 10
  expj _ := ⟨1, 0⟩

/-- `L = 1/(s(s+1)²)`: the real-axis candidates are `w = 0` (a pole: no response) and `w = 1` (`L = -1/2`). -/
example : Generated.polyIwRealCrossingSel P0 (polyIw [1]) (polyIw [1, 2, 1, 0]) 0 = .ok [0, 1] := by
  decide +kernel
example : Generated.polyIwRealCrossingSel P0 (polyIw [1]) (polyIw [1, 2, 1, 0]) (1 / 2) = .ok [1] := by
  decide +kernel
/-- `returnall`: one phase crossing at `w = 1` with `GM = 2`, nothing else (the toy `np.roots` returns no other roots). -/
example : Generated.stabilityMarginsSel P0 (respAt [1] [1, 2, 1, 0]) true (polyIw [1], polyIw [1, 2, 1, 0])
    [] [] 0 ([], []) true 0 = .ok (.all [.fin 2] [] [] [1] [] []) := by decide +kernel
/-- default return: `gm = 2` at `wpc = 1`, the other margins `inf` with frequency `nan`. -/
example : Generated.stabilityMarginsSel P0 (respAt [1] [1, 2, 1, 0]) true (polyIw [1], polyIw [1, 2, 1, 0])
    [] [] 0 ([], []) false 0 = .ok (.mins (.fin 2) .pinf .pinf (.fin 1) .nan .nan) := by decide +kernel
/-- `L = 5/(s+3)`: gain crossing at `w = 4`, `L = 3/5 - 4/5 j`, toy angle `-90` so `PM = 270 - 180 = 90`. -/
example : Generated.stabilityMarginsSel P0 (respAt [5] [1, 3]) true (polyIw [5], polyIw [1, 3])
    [] [] 0 ([], []) true 0 = .ok (.all [] [.fin 90] [] [] [4] []) := by decide +kernel
/-- `phase_crossover_frequencies`: the pole at `w = 0` is reported with a non-finite gain. -/
example : Generated.phaseCrossoverFrequencies P0 (respAt [1] [1, 2, 1, 0]) true true
    (polyIw [1], polyIw [1, 2, 1, 0]) [] [] 0 = .ok ([0, 1], [.nan, .fin (-1 / 2)]) := by decide +kernel
example : Generated.phaseCrossoverFrequencies P0 (respAt [1] [1, 2, 1, 0]) false true
    (polyIw [1], polyIw [1, 2, 1, 0]) [] [] 0 = .error .notImplemented := by decide +kernel
/-- a non-proper discrete loop is rejected by the generated discrete branch. -/
example : Generated.stabilityMarginsSel P0 (respAt [1, 2, 3] [1, 3]) false (([], []), ([], []))
    [1, 2, 3] [1, 3] 1 ([], []) true 0 = .error .nonProper := by decide +kernel
/-- `margin`: one argument / three arguments / two arguments. -/
example : Generated.smMargin P0 (fun (_ : SysData Nat) => .ok (.fin 2, .fin 45, .fin 1, .fin 3, .fin 4, .fin 5)) [7]
    = .ok (.fin 2, .fin 45, .fin 3, .fin 4) := by decide +kernel
example : Generated.smMargin P0 (fun (d : SysData Nat) => match d with
      | .seq _ => .ok (.fin 2, .fin 45, .fin 1, .fin 3, .fin 4, .fin 5) | .obj _ => .error .shape) [7, 8, 9]
    = .ok (.fin 2, .fin 45, .fin 3, .fin 4) := by decide +kernel
example : Generated.smMargin P0 (fun (_ : SysData Nat) => .ok (.fin 2, .fin 45, .fin 1, .fin 3, .fin 4, .fin 5)) [7, 8]
    = .error .badArg := by decide +kernel
/-- `bandwidth` of `1/(s+1)` (toy threshold `7/10` on the squared gain, grid `1/2, 1, 2`): the first dropped
sample is `w = 1` (`|L|² = 1/2 < 7/10`); the toy root finder returns the midpoint of the bracket `[1/2, 1]`. -/
example : Generated.ltiBandwidth P0 (respAt [1] [1, 1]) true false (.fin 1) [1 / 2, 1, 2]
    (fun om => (om.map fun w => rabs (fun z => normSq z) (respAt [1] [1, 1] (jw w)), [], om)) 0
    (fun _ _ a b => (true, (a + b) / 2)) (-3) = .ok (.fin (3 / 4)) := by decide +kernel
/-- a first sample that is already below the threshold brackets with the LAST grid point (`omega[-1]`). -/
example : Generated.ltiBandwidth P0 (respAt [1] [1, 1]) true false (.fin 1) [1, 2, 4]
    (fun om => (om.map fun w => rabs (fun z => normSq z) (respAt [1] [1, 1] (jw w)), [], om)) 0
    (fun _ _ a b => (true, a - b)) (-3) = .ok (.fin 3) := by decide +kernel
/-- a root finder that does not converge raises. -/
example : Generated.ltiBandwidth P0 (respAt [1] [1, 1]) true false (.fin 1) [1 / 2, 1, 2]
    (fun om => (om.map fun w => rabs (fun z => normSq z) (respAt [1] [1, 1] (jw w)), [], om)) 0
    (fun _ _ a _ => (false, a)) (-3) = .error .illPosed := by decide +kernel
example : Generated.ltiBandwidth P0 (respAt [1] [1, 1]) true false (.fin 1) [1 / 2, 1, 2]
    (fun om => (om.map fun _ => XF.fin 1, [], om)) 0 (fun _ _ a b => (true, (a + b) / 2)) 3 = .error .badArg := by
  decide +kernel
example : Generated.ltiBandwidth P0 (respAt [1] [1, 0]) true false .pinf [1 / 2, 1, 2]
    (fun om => (om.map fun _ => XF.fin 1, [], om)) 0 (fun _ _ a b => (true, (a + b) / 2)) (-3) = .ok .nan := by
  decide +kernel

end CtrlVerif.C12GenSel
