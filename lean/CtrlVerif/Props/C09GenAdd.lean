/-
Source-text tie of C09, part 4: `FrequencyResponseData.__add__`, `__radd__`, `__sub__`, `__rsub__`.
`Generated/FRDAdd.lean` is rewritten from control/frdata.py on every run (harness/core/py2lean_frd.py);
the theorems below prove the run-time model operators `DFRD.add`, `sub`, `rsub` (`Model/FRDDyn.lean`)
EQUAL to the generated functions: conversion of the operand (a number to the shape of `self`), SISO
promotion `np.ones((p, m)) * g` (through the GENERATED `__rmul__`, proved to be the model's
`onesTimes`), the two size checks, `self.frdata + other.frdata` on the grid of `other`, no `smooth`,
the common timebase; `-other` per operand kind, the operand order of `__rsub__`.

Hypothesis `2 ≤ n` (and an ascending grid for an LTI operand): the promotion converts a constant
array, which the code cannot do on a one-point grid (finding `C09-single-frequency-conversion`).
-/
import CtrlVerif.Generated.FRDAdd
import CtrlVerif.Props.C09GenMul

set_option linter.unusedSimpArgs false
set_option linter.unusedSectionVars false

namespace CtrlVerif.C09Gen

open Matrix CtrlVerif

variable {K : Type} [Field K] [DecidableEq K]

/-- `np.ones((p, m)) * g` through the generated `__rmul__` is the model's `onesTimes`. -/
theorem generated_onesTimes_eq (E : Env K) {n : Nat} (g : DFRD K n) (dt : Dt) (p m : Nat) (hn : 2 ≤ n)
    (hg : 0 < g.p) (hp : 0 < p) (hm : 0 < m) :
    Generated.frdRmul E (PyFRD.of g dt) (PyOpd.ofMat (PMat.ones p m))
      = (DFRD.onesTimes p m g).map fun R => PyFRD.of R dt := by
  have := generated_rmul_eq E g dt (.array p m (Matrix.of fun _ _ => (1 : K))) dt hn hg ⟨hp, hm⟩ (fun _ => hn) trivial
    (common_none_right dt)
  simp only [PyOpd.ofMat, PMat.ones]
  rw [this]
  rfl

/-- the part of `__add__` after the conversion. -/
theorem generated_addCore (E : Env K) {n : Nat} (G H : DFRD K n) (dt dt' d : Dt) (hd : common dt dt' = .ok d)
    (hn : 2 ≤ n) (hG : 0 < G.p ∧ 0 < G.m) (hH : 0 < H.p ∧ 0 < H.m) :
    Generated.frdAddCore E (PyFRD.of G dt) (PyFRD.of H dt') = (DFRD.addCore G H).map fun R => PyFRD.of R d := by
  have aligned : ∀ (G' H' : DFRD K n),
      (if PyFRD.ninputs (PyFRD.of G' dt) ≠ PyFRD.ninputs (PyFRD.of H' dt') then (throw Err.shape : Except Err (PyFRD K))
       else
        if PyFRD.noutputs (PyFRD.of G' dt) ≠ PyFRD.noutputs (PyFRD.of H' dt') then throw Err.shape
        else do
          let dt ← common (PyFRD.of G' dt).dt (PyFRD.of H' dt').dt
          let t1 ← PArr3.add (PyFRD.frdata (PyFRD.of G' dt)) (PyFRD.frdata (PyFRD.of H' dt'))
          PyFRD.ctor t1 (PyFRD.omega (PyFRD.of H' dt')) dt false)
      = (if hm : G'.m = H'.m then
          if hp : G'.p = H'.p then
            pure ⟨G'.p, G'.m, FRD.add G'.sys (FRD.castShape hp.symm hm.symm H'.sys), false⟩
          else .error .shape
        else .error .shape : Except Err (DFRD K n)).map fun R => PyFRD.of R d := by
    intro G' H'
    obtain ⟨p, m, ⟨w, X⟩, sm⟩ := G'
    obtain ⟨p', m', ⟨w', Y⟩, sm'⟩ := H'
    simp only [PyFRD.of, PyFRD.ninputs, PyFRD.noutputs, PyFRD.frdata, PyFRD.omega]
    by_cases h1 : m = m'
    · subst h1
      by_cases h2 : p = p'
      · subst h2
        simp only [ne_eq, not_true_eq_false, if_false, hd, bind, Except.bind, dite_true, PArr3.add_mk,
          PyFRD.ctor_mk_false, FRD.castShape_rfl, pure, Except.pure, Except.map, FRD.add]
      · simp [h2, throw, throwThe, MonadExceptOf.throw, Except.map]
    · simp [h1, throw, throwThe, MonadExceptOf.throw, Except.map]
  simp only [Generated.frdAddCore, DFRD.addCore, issiso_of]
  by_cases hGs : G.isSiso = true <;> by_cases hHs : H.isSiso = true <;>
    simp only [hGs, hHs, Bool.false_eq_true, not_false_eq_true, not_true_eq_false, and_true, and_false, false_and,
      true_and, and_self, if_true, if_false, Bool.not_true, Bool.not_false, Bool.and_true, Bool.and_false,
      Bool.false_and, Bool.true_and, Bool.not_eq_true, bind, Except.bind, pure, Except.pure]
  · exact aligned G H
  · rw [show PyFRD.noutputs (PyFRD.of H dt') = H.p from rfl, show PyFRD.ninputs (PyFRD.of H dt') = H.m from rfl,
      generated_onesTimes_eq E G dt H.p H.m hn hG.1 hH.1 hH.2]
    cases hO : DFRD.onesTimes H.p H.m G with
    | error e => rfl
    | ok G' => exact aligned G' H
  · rw [show PyFRD.noutputs (PyFRD.of G dt) = G.p from rfl, show PyFRD.ninputs (PyFRD.of G dt) = G.m from rfl,
      generated_onesTimes_eq E H dt' G.p G.m hn hH.1 hG.1 hG.2]
    cases hO : DFRD.onesTimes G.p G.m H with
    | error e => rfl
    | ok H' => exact aligned G H'
  · exact aligned G H

/-- the grid condition of `_convert_to_frd` on a grid of at least two points. -/
theorem gridOK_of_two {n : Nat} (omega : Fin n → ℚ) (x : PyOpd K) (hn : 2 ≤ n)
    (hasc : ∀ L, x = .lti L → Monotone omega) : GridOK omega x := by
  cases x with
  | frd F => trivial
  | scalar c => exact hn
  | array p m D => exact hn
  | lti L => exact ⟨hn, hasc L rfl⟩

/-- **`__add__`**: the function the source text defines is the model's `DFRD.add`, for every kind of
operand, with the common timebase. -/
theorem generated_add_eq (E : Env K) {n : Nat} (G : DFRD K n) (dt : Dt) (x : PyOpd K) (d : Dt)
    (hn : 2 ≤ n) (hasc : ∀ L, x = .lti L → Monotone G.sys.omega) (hG : 0 < G.p ∧ 0 < G.m) (hxne : x.NonEmpty)
    (hd : common dt x.dt = .ok d) :
    Generated.frdAdd E (PyFRD.of G dt) x = (DFRD.add E G x.erase).map fun R => PyFRD.of R d := by
  have hg := gridOK_of_two G.sys.omega x hn hasc
  have core : ∀ p m, 0 < p → 0 < m → ∀ H : DFRD K n, DFRD.convert E G.sys.omega p m x.erase = .ok H →
      Generated.frdAddCore E (PyFRD.of G dt) (PyFRD.of H x.dt) = (DFRD.addCore G H).map fun R => PyFRD.of R d :=
    fun p m hp hm H hH => generated_addCore E G H dt x.dt d hd hn hG (convert_pos E _ x p m H hH hxne hp hm)
  cases x with
  | scalar c => exact generated_convert_bind E G.sys.omega (.scalar c) _ _ hg _ _ d (core _ _ hG.1 hG.2)
  | frd F => exact generated_convert_bind E G.sys.omega (.frd F) _ _ hg _ _ d (core _ _ Nat.one_pos Nat.one_pos)
  | array p' m' D =>
    exact generated_convert_bind E G.sys.omega (.array p' m' D) _ _ hg _ _ d (core _ _ Nat.one_pos Nat.one_pos)
  | lti L => exact generated_convert_bind E G.sys.omega (.lti L) _ _ hg _ _ d (core _ _ Nat.one_pos Nat.one_pos)

/-- **`__radd__`** is `self + other`. -/
theorem generated_radd_eq (E : Env K) (self : PyFRD K) (x : PyOpd K) :
    Generated.frdRadd E self x = Generated.frdAdd E self x := by
  cases x <;> rfl

/-- `self + (-other)` with `-other` evaluated per operand kind (the generated `__neg__` for an FRD
object). -/
theorem generated_sub_eq_add (E : Env K) {n : Nat} (G : DFRD K n) (dt : Dt) (x : PyOpd K) :
    Generated.frdSub E (PyFRD.of G dt) x = Generated.frdAdd E (PyFRD.of G dt) x.neg := by
  cases x with
  | frd F =>
    obtain ⟨n', F, dt'⟩ := F
    simp only [Generated.frdSub, bind, Except.bind]
    rw [show (⟨n', F, dt'⟩ : PyFRD K) = PyFRD.of F dt' from rfl, generated_neg_eq]
    rfl
  | scalar c => rfl
  | array p m D => rfl
  | lti L => rfl

/-- **`__sub__`**: the function the source text defines is the model's `DFRD.sub`. -/
theorem generated_sub_eq (E : Env K) {n : Nat} (G : DFRD K n) (dt : Dt) (x : PyOpd K) (d : Dt)
    (hn : 2 ≤ n) (hasc : ∀ L, x = .lti L → Monotone G.sys.omega) (hG : 0 < G.p ∧ 0 < G.m) (hxne : x.NonEmpty)
    (hd : common dt x.dt = .ok d) :
    Generated.frdSub E (PyFRD.of G dt) x = (DFRD.sub E G x.erase).map fun R => PyFRD.of R d := by
  rw [generated_sub_eq_add, DFRD.sub, ← PyOpd.erase_neg]
  refine generated_add_eq E G dt x.neg d hn ?_ hG (PyOpd.nonEmpty_neg hxne) (by rw [PyOpd.dt_neg]; exact hd)
  intro L hL
  cases x with
  | lti L' => exact hasc L' rfl
  | _ => simp [PyOpd.neg] at hL

/-- **`__rsub__`** (`other - self` for a non-FRD `other`): `other + (-self)` is `(-self).__radd__(other)`,
the model's `DFRD.rsub`. -/
theorem generated_rsub_eq (E : Env K) {n : Nat} (G : DFRD K n) (dt : Dt) (x : PyOpd K) (d : Dt)
    (hx : ∀ F, x ≠ .frd F)
    (hn : 2 ≤ n) (hasc : ∀ L, x = .lti L → Monotone G.sys.omega) (hG : 0 < G.p ∧ 0 < G.m) (hxne : x.NonEmpty)
    (hd : common dt x.dt = .ok d) :
    Generated.frdRsub E (PyFRD.of G dt) x = (DFRD.rsub E G x.erase).map fun R => PyFRD.of R d := by
  have key : Generated.frdRsub E (PyFRD.of G dt) x = Generated.frdAdd E (PyFRD.of G.neg dt) x := by
    cases x with
    | frd F => exact absurd rfl (hx F)
    | scalar c => simp only [Generated.frdRsub, bind, Except.bind, generated_neg_eq, generated_radd_eq]
    | array p m D =>
      simp only [Generated.frdRsub, bind, Except.bind, generated_neg_eq, generated_radd_eq]; rfl
    | lti L => simp only [Generated.frdRsub, bind, Except.bind, generated_neg_eq, generated_radd_eq]
  rw [key, DFRD.rsub]
  exact generated_add_eq E G.neg dt x d hn hasc hG hxne hd

/-- `__rsub__` with an FRD object on the left (not reachable through the operator: Python calls
`other.__sub__` first) is `other.__add__(-self)`. -/
theorem generated_rsub_frd (E : Env K) {n : Nat} (G : DFRD K n) (dt : Dt) (F : PyFRD K) :
    Generated.frdRsub E (PyFRD.of G dt) (.frd F) = Generated.frdAdd E F (.frd (PyFRD.of G.neg dt)) := by
  simp only [Generated.frdRsub, bind, Except.bind, generated_neg_eq]

end CtrlVerif.C09Gen
