/-
C06 — Linear time responses are the exact solution of the state equations.

The definitions are those of Model/TimeResp.lean: `dStates` (the recursion `scipy.signal.dlsim`
runs for the discrete branch of `forced_response`), `interp` / `decimate` (input interpolation
and the slice `[::inc]` for grids that are multiples of the sampling time), `fohStates` /
`freeStates` (the two continuous-time loops, with the values of `expm` as parameters), `fohM` and
`fohAd / fohBd0 / fohBd1` (the matrix handed to `expm` and the blocks cut out of the result),
`forced / step / impulse / initial` (the response functions with argument validation, over `ℚ`).
`K` is an arbitrary field, the index types arbitrary finite types (all sizes, incl. no states).

Not a theorem: that `scipy.linalg.expm` returns the matrix exponential (contract).  That the limit of
the first-order-hold series solves `x' = A x + B u` for piecewise linear `u` is proved over `ℝ` in
Props/C06Exp.lean (`foh_blocks_partial` here proves the block structure for every truncation order).
-/
import CtrlVerif.Lemmas.TimeResp

namespace CtrlVerif.C06

open CtrlVerif Matrix TimeResp

variable {K : Type*} [Field K] {σ ι o : Type*} [Fintype σ] [Fintype ι]

/-! ### Discrete time -/

/-- the returned states satisfy `x[0] = x0`, `x[k+1] = A x[k] + B u[k]`; one state per sample. -/
theorem discrete_exact (G : SS σ ι o K) (x0 : σ → K) (us : List (ι → K)) :
    (dStates G x0 us).length = us.length ∧
    (∀ h : 0 < (dStates G x0 us).length, (dStates G x0 us)[0] = x0) ∧
    (∀ (k : ℕ) (h : k + 1 < (dStates G x0 us).length),
      (dStates G x0 us)[k + 1] =
        G.A *ᵥ ((dStates G x0 us)[k]'(by omega)) + G.B *ᵥ (us[k]'(by simp at h; omega))) :=
  ⟨dStates_length G x0 us, dStates_getElem_zero G x0 us, dStates_getElem_succ G x0 us⟩

/-- the returned outputs are `y[k] = C x[k] + D u[k]`. -/
theorem discrete_outputs (G : SS σ ι o K) (xs : List (σ → K)) (us : List (ι → K)) (k : ℕ)
    (h : k < (outputs G xs us).length) :
    (outputs G xs us)[k] =
      G.C *ᵥ (xs[k]'(by simp [outputs] at h; omega)) + G.D *ᵥ (us[k]'(by simp [outputs] at h; omega)) := by
  simp [outputs, out]

example : (dStates (⟨!![2], !![1], !![1], !![0]⟩ : SS (Fin 1) (Fin 1) (Fin 1) ℚ) ![1]
    [![1], ![0], ![3]]).map (fun v => v 0) = [1, 3, 6] := by decide +kernel

/-- grids that are multiples of the sampling time: the returned states / outputs are the states /
outputs of the recursion at the sampling rate (driven by the linearly interpolated input) at
every `inc`-th step, the interpolated input agrees with the given one at the requested times,
and there is one returned sample per requested time. -/
theorem discrete_exact_decimated (G : SS σ ι o K) (inc : ℕ) (hinc : 1 ≤ inc) (x0 : σ → K)
    (us : List (ι → K)) :
    (∀ j, (simDiscrete G inc x0 us).1[j]? = (dStates G x0 (interp inc us))[j * inc]?) ∧
    (∀ j, (simDiscrete G inc x0 us).2[j]? =
        (outputs G (dStates G x0 (interp inc us)) (interp inc us))[j * inc]?) ∧
    (∀ j, (interp inc us)[j * inc]? = us[j]?) ∧
    (simDiscrete G inc x0 us).1.length = us.length ∧ (simDiscrete G inc x0 us).2.length = us.length := by
  refine ⟨fun j => decimate_getElem? inc hinc _ j, fun j => decimate_getElem? inc hinc _ j,
    interp_getElem?_grid inc hinc us, ?_, ?_⟩
  · cases us with
    | nil => simp [simDiscrete, interp, dStates, decimate, decimateAux]
    | cons u us =>
      simp only [simDiscrete, decimate, decimateAux_length inc hinc, dStates_length, interp_length,
        List.length_cons, Nat.sub_zero]
      rw [show us.length * inc + 1 + (inc - 1) = (us.length + 1) * inc by
        rw [Nat.succ_mul]; omega]
      exact Nat.mul_div_cancel _ (by omega)
  · cases us with
    | nil => simp [simDiscrete, interp, dStates, decimate, decimateAux, outputs]
    | cons u us =>
      simp only [simDiscrete, decimate, decimateAux_length inc hinc, outputs, List.length_zipWith,
        dStates_length, interp_length, List.length_cons, Nat.sub_zero, Nat.min_self]
      rw [show us.length * inc + 1 + (inc - 1) = (us.length + 1) * inc by
        rw [Nat.succ_mul]; omega]
      exact Nat.mul_div_cancel _ (by omega)

/-- at the requested times the returned output is `C x + D u` with the *given* input sample. -/
theorem discrete_decimated_outputs (G : SS σ ι o K) (inc : ℕ) (hinc : 1 ≤ inc) (x0 : σ → K)
    (us : List (ι → K)) (j : ℕ) (x : σ → K) (u : ι → K)
    (hx : (simDiscrete G inc x0 us).1[j]? = some x) (hu : us[j]? = some u) :
    (simDiscrete G inc x0 us).2[j]? = some (G.C *ᵥ x + G.D *ᵥ u) := by
  obtain ⟨h1, h2, h3, _, _⟩ := discrete_exact_decimated G inc hinc x0 us
  rw [h2 j, outputs, List.getElem?_zipWith, ← h1 j, hx, h3 j, hu]
  rfl

/-- with spacing equal to the sampling time nothing is interpolated or dropped. -/
theorem discrete_inc_one (G : SS σ ι o K) (x0 : σ → K) (us : List (ι → K)) :
    simDiscrete G 1 x0 us = (dStates G x0 us, outputs G (dStates G x0 us) us) := by
  simp [simDiscrete, interp_one, decimate_one]

/- `x' = 2x + u`, `inc = 2`, given input `2, 4`: fine input `2, 3, 4`, fine states `0, 2, 7`. -/
example : ((simDiscrete (⟨!![2], !![1], !![1], !![0]⟩ : SS (Fin 1) (Fin 1) (Fin 1) ℚ) 2 ![0]
      [![2], ![4]]).1.map (fun v => v 0),
    (simDiscrete (⟨!![2], !![1], !![1], !![0]⟩ : SS (Fin 1) (Fin 1) (Fin 1) ℚ) 2 ![0]
      [![2], ![4]]).2.map (fun v => v 0)) = ([0, 7], [0, 7]) := by decide +kernel

/-- the response is linear in `(x0, u)` (states and outputs, also on decimated grids). -/
theorem superposition_discrete (G : SS σ ι o K) (inc : ℕ) (a b : K) (x x' : σ → K)
    (us us' : List (ι → K)) (h : us.length = us'.length) :
    simDiscrete G inc (a • x + b • x') (comb a b us us') =
      (comb a b (simDiscrete G inc x us).1 (simDiscrete G inc x' us').1,
       comb a b (simDiscrete G inc x us).2 (simDiscrete G inc x' us').2) := by
  have hl : (interp inc us).length = (interp inc us').length := by
    cases us with
    | nil => cases us' with
      | nil => rfl
      | cons _ _ => simp at h
    | cons u us => cases us' with
      | nil => simp at h
      | cons u' us' => rw [interp_length, interp_length]; simp at h; rw [h]
  simp only [simDiscrete, interp_comb inc a b us us' h, dStates_comb]
  rw [outputs_comb G a b _ _ _ _ (by simp [hl]) hl]
  simp only [comb, decimate_zipWith]

/-- restarting at step `k` from the state reached there, with the remaining input, reproduces the
remainder of the trajectory (states and outputs). -/
theorem restart_discrete (G : SS σ ι o K) (x0 : σ → K) (us : List (ι → K)) (k : ℕ)
    (h : k < (dStates G x0 us).length) :
    (dStates G x0 us).drop k = dStates G ((dStates G x0 us)[k]) (us.drop k) ∧
    (outputs G (dStates G x0 us) us).drop k =
      outputs G (dStates G ((dStates G x0 us)[k]) (us.drop k)) (us.drop k) := by
  refine ⟨dStates_drop G x0 us k h, ?_⟩
  rw [outputs, List.drop_zipWith, dStates_drop G x0 us k h]
  rfl

/-- zero input: the states are `A^j x0` (free response). -/
theorem initial_discrete (G : SS σ ι o K) [DecidableEq σ] (x0 : σ → K) (k j : ℕ) (h : j < k) :
    (dStates G x0 (List.replicate k 0))[j]? = some ((G.A ^ j) *ᵥ x0) := by
  rw [dStates_zero_input, freeStates_getElem? _ _ _ _ h]

/-- discrete impulse (`u[0] = u0`, zero afterwards, from rest): the state is `0` at the first
sample and afterwards the free response from `B u0`, i.e. `x[j+1] = A^j B u0`. -/
theorem impulse_discrete (G : SS σ ι o K) [DecidableEq σ] (u0 : ι → K) (k j : ℕ) (h : j < k) :
    dStates G 0 (u0 :: List.replicate k 0) = 0 :: freeStates G.A (G.B *ᵥ u0) k ∧
    (dStates G 0 (u0 :: List.replicate k 0))[j + 1]? = some ((G.A ^ j) *ᵥ (G.B *ᵥ u0)) := by
  refine ⟨dStates_impulse G u0 k, ?_⟩
  rw [dStates_impulse, List.getElem?_cons_succ, freeStates_getElem? _ _ _ _ h]

/-! ### Continuous time (for any values `Ad, Bd0, Bd1` of the exponential blocks) -/

/-- the loop of `forced_response`: `x[0] = x0`, `x[k+1] = Ad x[k] + Bd0 u[k] + Bd1 u[k+1]`. -/
theorem foh_exact (Ad : Matrix σ σ K) (Bd0 Bd1 : Matrix σ ι K) (x0 : σ → K) (us : List (ι → K)) :
    (fohStates Ad Bd0 Bd1 x0 us).length = us.length ∧
    (∀ h : 0 < (fohStates Ad Bd0 Bd1 x0 us).length, (fohStates Ad Bd0 Bd1 x0 us)[0] = x0) ∧
    (∀ (k : ℕ) (h : k + 1 < (fohStates Ad Bd0 Bd1 x0 us).length),
      (fohStates Ad Bd0 Bd1 x0 us)[k + 1] =
        Ad *ᵥ ((fohStates Ad Bd0 Bd1 x0 us)[k]'(by omega)) + Bd0 *ᵥ (us[k]'(by simp at h; omega))
          + Bd1 *ᵥ (us[k + 1]'(by simpa using h))) :=
  ⟨fohStates_length Ad Bd0 Bd1 x0 us, fohStates_getElem_zero Ad Bd0 Bd1 x0 us,
    fohStates_getElem_succ Ad Bd0 Bd1 x0 us⟩

theorem superposition_foh (G : SS σ ι o K) (Ad : Matrix σ σ K) (Bd0 Bd1 : Matrix σ ι K) (a b : K)
    (x x' : σ → K) (us us' : List (ι → K)) (h : us.length = us'.length) :
    simFOH G Ad Bd0 Bd1 (a • x + b • x') (comb a b us us') =
      (comb a b (simFOH G Ad Bd0 Bd1 x us).1 (simFOH G Ad Bd0 Bd1 x' us').1,
       comb a b (simFOH G Ad Bd0 Bd1 x us).2 (simFOH G Ad Bd0 Bd1 x' us').2) := by
  simp only [simFOH, fohStates_comb Ad Bd0 Bd1 a b x x' us us' h]
  rw [outputs_comb G a b _ _ _ _ (by simp [h]) h]

theorem restart_foh (G : SS σ ι o K) (Ad : Matrix σ σ K) (Bd0 Bd1 : Matrix σ ι K) (x0 : σ → K)
    (us : List (ι → K)) (k : ℕ) (h : k < (fohStates Ad Bd0 Bd1 x0 us).length) :
    (simFOH G Ad Bd0 Bd1 x0 us).1.drop k =
      (simFOH G Ad Bd0 Bd1 ((fohStates Ad Bd0 Bd1 x0 us)[k]) (us.drop k)).1 ∧
    (simFOH G Ad Bd0 Bd1 x0 us).2.drop k =
      (simFOH G Ad Bd0 Bd1 ((fohStates Ad Bd0 Bd1 x0 us)[k]) (us.drop k)).2 := by
  refine ⟨fohStates_drop Ad Bd0 Bd1 x0 us k h, ?_⟩
  simp only [simFOH]
  rw [outputs, List.drop_zipWith, fohStates_drop Ad Bd0 Bd1 x0 us k h]
  rfl

example : (fohStates (!![2] : Matrix (Fin 1) (Fin 1) ℚ) !![1] !![3] ![1]
    [![1], ![0], ![2]]).map (fun v => v 0) = [1, 3, 12] := by decide +kernel

/-- `initial_response` / zero input in continuous time: the fast path (`expAdt` loop, `y = C x`)
returns what the general first-order-hold loop returns for `u = 0` when `Ad = expAdt`, and the
states are `Ad^j x0`. -/
theorem initial_eq_forced (G : SS σ ι o K) [DecidableEq σ] (Ad : Matrix σ σ K) (Bd0 Bd1 : Matrix σ ι K)
    (x0 : σ → K) (k : ℕ) :
    simFOH G Ad Bd0 Bd1 x0 (List.replicate k 0) = simFree G Ad x0 k ∧
    ∀ j, j < k → (simFree G Ad x0 k).1[j]? = some ((Ad ^ j) *ᵥ x0) := by
  refine ⟨?_, fun j hj => freeStates_getElem? Ad x0 k j hj⟩
  simp only [simFOH, simFree, fohStates_zero_input]
  have := outputs_zero_input G (freeStates Ad x0 k)
  rw [freeStates_length] at this
  rw [this]

/-! ### The matrix handed to `expm` and the blocks cut out of the result -/

section Blocks
variable [DecidableEq σ] [DecidableEq ι]

/-- `foh_blocks_partial`.  Powers of the augmented matrix `M = [[A dt, B dt, 0],[0,0,I],[0,0,0]]`:
for `k ≥ 2` the blocks of `M^k` read by the code are `(A dt)^k`, `(A dt)^(k-1) B dt`,
`(A dt)^(k-2) B dt`; hence for every truncation order the blocks of `Σ_{k ≤ N} M^k / k!` are the
first-order-hold series `Σ (A dt)^k / k!`, `Σ (A dt)^k B dt / (k+1)!`, `Σ (A dt)^k B dt / (k+2)!`.
Full statement (not proved: analysis): `Ad = exp(A dt)`,
`Bd0 + Bd1 = ∫₀^dt exp(A s) ds B`, `Bd1 = ∫₀^dt exp(A (dt - s)) (s/dt) ds B`, and the loop
solves `x' = A x + B u` for piecewise linear `u`. -/
theorem foh_blocks_partial (A : Matrix σ σ K) (B : Matrix σ ι K) (dt : K) :
    (∀ k : ℕ, fohAd (fohM A B dt ^ (k + 2)) = (dt • A) ^ (k + 2) ∧
        fohMid (fohM A B dt ^ (k + 2)) = (dt • A) ^ (k + 1) * (dt • B) ∧
        fohBd1 (fohM A B dt ^ (k + 2)) = (dt • A) ^ k * (dt • B)) ∧
    (∀ N : ℕ, fohAd (expSum (N + 1) (fohM A B dt)) = expSum (N + 1) (dt • A) ∧
        fohBd0 (expSum (N + 1) (fohM A B dt)) + fohBd1 (expSum (N + 1) (fohM A B dt)) =
          ∑ k ∈ Finset.range (N + 1), (((k + 1).factorial : K)⁻¹) • ((dt • A) ^ k * (dt • B)) ∧
        fohBd1 (expSum (N + 1) (fohM A B dt)) =
          ∑ k ∈ Finset.range N, (((k + 2).factorial : K)⁻¹) • ((dt • A) ^ k * (dt • B))) := by
  refine ⟨fun k => ?_, fun N => ?_⟩
  · rw [fohM_pow]; simp
  · obtain ⟨h1, h2, h3⟩ := expSum_fohM_blocks A B dt N
    exact ⟨h1, by rw [fohBd0, sub_add_cancel, h2], h3⟩

/-- the first two powers, for completeness (`M⁰ = I`, `M¹ = M`). -/
theorem foh_blocks_low (A : Matrix σ σ K) (B : Matrix σ ι K) (dt : K) :
    fohAd (fohM A B dt) = dt • A ∧ fohMid (fohM A B dt) = dt • B ∧ fohBd1 (fohM A B dt) = 0 :=
  ⟨fohAd_fohM A B dt, fohMid_fohM A B dt, fohBd1_fohM A B dt⟩

example : fohBd1 (fohM (!![1] : Matrix (Fin 1) (Fin 1) ℚ) !![1] 2 ^ 2) 0 0 = 2 := by decide +kernel

end Blocks

/-! ### Realisations -/

/-- `tf_from_rest_partial`.  Two state-space systems (of any state dimensions) with the same direct
term and the same Markov parameters `C A^j B` — in particular two realisations of one transfer
function — produce the same outputs from rest for every input (discrete time).  The full statement
for discrete time is proved in Props/C06Real.lean: `markov_of_resp` (systems with the same transfer
matrix have equal `D` and Markov parameters, over an infinite field), `realisations_from_rest`
(hence equal outputs from rest), `tf_from_rest` / `tf2ss_from_rest` (any realisation of `num/den`,
in particular the one `tf2ss` returns, responds with the convolution of the input with the long
division of `num` by `den`).  Still open: continuous time (the exponential). -/
theorem tf_from_rest_partial {σ' : Type*} [Fintype σ'] [DecidableEq σ] [DecidableEq σ']
    (G : SS σ ι o K) (G' : SS σ' ι o K) (hD : G.D = G'.D)
    (hM : ∀ j : ℕ, G.C * G.A ^ j * G.B = G'.C * G'.A ^ j * G'.B) (us : List (ι → K)) :
    outputs G (dStates G 0 us) us = outputs G' (dStates G' 0 us) us :=
  markov_outputs_aux G G' hD hM us 0 0 (fun i => by simp)

/- a 1-state system and a non-minimal 2-state realisation of the same transfer function -/
example : (outputs (⟨!![2], !![1], !![1], !![0]⟩ : SS (Fin 1) (Fin 1) (Fin 1) ℚ)
      (dStates ⟨!![2], !![1], !![1], !![0]⟩ 0 [![1], ![0], ![3]]) [![1], ![0], ![3]]).map (fun v => v 0)
    = (outputs (⟨!![2, 0; 0, 5], !![1; 0], !![1, 7], !![0]⟩ : SS (Fin 2) (Fin 1) (Fin 1) ℚ)
      (dStates ⟨!![2, 0; 0, 5], !![1; 0], !![1, 7], !![0]⟩ 0 [![1], ![0], ![3]]) [![1], ![0], ![3]]).map
        (fun v => v 0) := by decide +kernel

/-! ### The executable layer computes the spec layer -/

/-- what the driver executes (stored vectors) is the spec-level simulation. -/
theorem exec_refines {n m p : ℕ} (G : SS (Fin n) (Fin m) (Fin p) K) (inc : ℕ) (x : Vector K n)
    (us : List (Vector K m)) (Ad : Matrix (Fin n) (Fin n) K) (Bd0 Bd1 : Matrix (Fin n) (Fin m) K)
    (k : ℕ) :
    ((simDiscreteV G inc x us).1.map Vector.get, (simDiscreteV G inc x us).2.map Vector.get) =
      simDiscrete G inc x.get (us.map Vector.get) ∧
    ((simFOHV G Ad Bd0 Bd1 x us).1.map Vector.get, (simFOHV G Ad Bd0 Bd1 x us).2.map Vector.get) =
      simFOH G Ad Bd0 Bd1 x.get (us.map Vector.get) ∧
    ((simFreeV G Ad x k).1.map Vector.get, (simFreeV G Ad x k).2.map Vector.get) =
      simFree G Ad x.get k :=
  ⟨simDiscreteV_refines G inc x us, simFOHV_refines G Ad Bd0 Bd1 x us, simFreeV_refines G Ad x k⟩

/-- the run-time index arithmetic is the slicing of the code: rows/columns `[:n]`, `[n:n+m]`,
`[n+m:]` of the `(n+2m)`-square `expM`. -/
theorem slices {n m : ℕ} (i : Fin n) (j : Fin m) :
    ((eFoh n m (Sum.inl (Sum.inl i))) : ℕ) = i ∧ ((eFoh n m (Sum.inl (Sum.inr j))) : ℕ) = n + j ∧
    ((eFoh n m (Sum.inr j)) : ℕ) = n + m + j :=
  ⟨eFoh_state i, eFoh_mid j, eFoh_last j⟩

/-! ### Argument validation and the derived responses (model over `ℚ`) -/

/-- fewer than two time points are rejected. -/
theorem gridStep_short (T : List ℚ) (h : T.length < 2) : gridStep T = .error .badArg := by
  match T with
  | [] => rfl
  | [_] => rfl
  | _ :: _ :: _ => simp at h

/-- an accepted time grid has at least two points and is equally spaced with the step `dt`
that is used for the simulation. -/
theorem gridStep_ok (T : List ℚ) (dt : ℚ) (h : gridStep T = .ok dt) :
    2 ≤ T.length ∧ ∀ (k : ℕ) (hk : k + 1 < T.length), T[k + 1] - T[k] = dt := by
  match T, h with
  | t0 :: t1 :: rest, h =>
    simp only [gridStep] at h
    split at h
    · rename_i he
      injection h with h
      subst h
      exact ⟨by simp, fun k hk => equallySpaced_spec _ _ he k hk⟩
    · cases h

/-- the sampling-multiple check: an accepted spacing is a positive integer multiple `inc` of the
sampling time … -/
theorem decimation_disc (h dt : ℚ) (inc : ℕ) (hd : decimation (.disc h) dt = .ok inc) :
    0 < h ∧ 1 ≤ inc ∧ dt = inc * h := by
  simp only [decimation] at hd
  split at hd
  · rename_i hc
    injection hd with hd
    obtain ⟨h0, hden, h1⟩ := hc
    have hr : ((dt / h).num : ℚ) = dt / h := Rat.coe_int_num_of_den_eq_one hden
    have hnum : (1 : ℤ) ≤ (dt / h).num := by
      have : (1 : ℚ) ≤ ((dt / h).num : ℚ) := by rw [hr]; exact h1
      exact_mod_cast this
    have hinc : ((inc : ℤ)) = (dt / h).num := by
      rw [← hd]; exact Int.toNat_of_nonneg (by omega)
    refine ⟨h0, by omega, ?_⟩
    have : (inc : ℚ) = dt / h := by
      rw [← hr, ← hinc]; simp
    rw [this, div_mul_cancel₀ _ (ne_of_gt h0)]
  · cases hd

/-- … and every positive integer multiple is accepted, with that decimation factor. -/
theorem decimation_disc_ok (h : ℚ) (inc : ℕ) (h0 : 0 < h) (hinc : 1 ≤ inc) :
    decimation (.disc h) (inc * h) = .ok inc := by
  have hr : (inc : ℚ) * h / h = inc := mul_div_cancel_right₀ _ (ne_of_gt h0)
  simp only [decimation, hr]
  rw [if_pos]
  · simp
  · refine ⟨h0, by simp, by exact_mod_cast hinc⟩

/-- the response is returned at exactly the requested times. -/
theorem forced_times (G : DSS ℚ) (T : List ℚ) (U X0 : Arr) (ex : Option (ExpmVals G.n G.m))
    (r : Trace G.n G.p G.m) (h : forced G (some T) U X0 ex = .ok r) : r.t = T := by
  simp only [forced, timeVector] at h
  cases hg : gridStep T with
  | error e => simp [hg, bind, Except.bind] at h
  | ok dt =>
    cases hx : convertX0 G.n X0 with
    | error e => simp [hg, hx, bind, Except.bind] at h
    | ok x0 =>
      cases hu : convertU G.m T.length U with
      | error e => simp [hg, hx, hu, bind, Except.bind] at h
      | ok us =>
        simp only [hg, hx, hu, bind, Except.bind, pure, Except.pure] at h
        split at h
        · split at h
          · cases h
          · split at h <;> (injection h with h; subst h; rfl)
        · cases hd : decimation G.dt dt with
          | error e => simp [hd] at h
          | ok inc => simp [hd] at h; subst h; rfl

/-! ### Continuous time: which loop runs (inputs of any magnitude) -/

/-- the two continuous-time branches of `forced`: the zero-input fast path (`expAdt` recursion,
`y = C x`) if `allZero`, the general first-order-hold loop otherwise. -/
theorem forced_cont_branches (G : DSS ℚ) (T : List ℚ) (U X0 : Arr) (e : ExpmVals G.n G.m)
    (hdt : G.dt = .cont) (dt : ℚ) (x0 : Vector ℚ G.n) (us : List (Vector ℚ G.m))
    (hg : gridStep T = .ok dt) (hx : convertX0 G.n X0 = .ok x0)
    (hu : convertU G.m T.length U = .ok us) :
    forced G (some T) U X0 (some e) = .ok
      (if allZero us then
        ⟨T, (simFreeV G.sys e.expA x0 T.length).1, (simFreeV G.sys e.expA x0 T.length).2, us⟩
       else
        ⟨T, (simFOHV G.sys (fohBlocksFin e.expM).1 (fohBlocksFin e.expM).2.1
              (fohBlocksFin e.expM).2.2 x0 us).1,
            (simFOHV G.sys (fohBlocksFin e.expM).1 (fohBlocksFin e.expM).2.1
              (fohBlocksFin e.expM).2.2 x0 us).2, us⟩) := by
  simp only [forced, timeVector, hg, hx, hu, bind, Except.bind, pure, Except.pure, hdt]
  split <;> rfl

/-- an input with a single non-zero sample in a single channel - of whatever magnitude - is not
"zero": the response is computed by the general loop, with the `B u` and `D u` terms
(`foh_exact`, `discrete_outputs`).  (`allZero_iff`: the fast-path test is exact.) -/
theorem forced_cont_nonzero_input (G : DSS ℚ) (T : List ℚ) (U X0 : Arr) (e : ExpmVals G.n G.m)
    (hdt : G.dt = .cont) (dt : ℚ) (x0 : Vector ℚ G.n) (us : List (Vector ℚ G.m))
    (hg : gridStep T = .ok dt) (hx : convertX0 G.n X0 = .ok x0)
    (hu : convertU G.m T.length U = .ok us) (u : Vector ℚ G.m) (hmem : u ∈ us) (i : Fin G.m)
    (hne : u.get i ≠ 0) :
    forced G (some T) U X0 (some e) = .ok
      ⟨T, (simFOHV G.sys (fohBlocksFin e.expM).1 (fohBlocksFin e.expM).2.1
              (fohBlocksFin e.expM).2.2 x0 us).1,
          (simFOHV G.sys (fohBlocksFin e.expM).1 (fohBlocksFin e.expM).2.1
              (fohBlocksFin e.expM).2.2 x0 us).2, us⟩ := by
  rw [forced_cont_branches G T U X0 e hdt dt x0 us hg hx hu]
  have hz : allZero us = false := by
    cases h : allZero us with
    | false => rfl
    | true => exact absurd ((allZero_iff us).1 h u hmem i) hne
  simp only [hz, Bool.false_eq_true, if_false]

/-- the fast path is only an optimisation: if `expA` is the `Ad` block of `expM` (both are
`exp(A dt)`; contract on `scipy.linalg.expm`, checked numerically by the harness), then for
EVERY input - zero, of tiny magnitude, or not - the continuous-time response is the general
first-order-hold loop on the converted arguments, returned at the requested times with the
given input.  Together with `superposition_foh` the response is linear in `(X0, U)` without a
threshold on the size of the input. -/
theorem forced_cont_any_input (G : DSS ℚ) (T : List ℚ) (U X0 : Arr) (e : ExpmVals G.n G.m)
    (hdt : G.dt = .cont) (dt : ℚ) (x0 : Vector ℚ G.n) (us : List (Vector ℚ G.m))
    (hg : gridStep T = .ok dt) (hx : convertX0 G.n X0 = .ok x0)
    (hu : convertU G.m T.length U = .ok us)
    (hA : e.expA = (fohBlocksFin e.expM).1) :
    ∃ r, forced G (some T) U X0 (some e) = .ok r ∧ r.t = T ∧ r.u = us ∧
      (r.x.map Vector.get, r.y.map Vector.get) =
        simFOH G.sys (fohBlocksFin e.expM).1 (fohBlocksFin e.expM).2.1 (fohBlocksFin e.expM).2.2
          x0.get (us.map Vector.get) := by
  rw [forced_cont_branches G T U X0 e hdt dt x0 us hg hx hu]
  have hlen := convertU_length G.m T.length U us hu
  by_cases hz : allZero us = true
  · refine ⟨_, rfl, ?_⟩
    simp only [hz, if_true]
    refine ⟨trivial, trivial, ?_⟩
    rw [simFreeV_refines, allZero_map_get us hz, hlen, hA]
    exact ((initial_eq_forced G.sys _ _ _ x0.get T.length).1).symm
  · refine ⟨_, rfl, ?_⟩
    have hz' : allZero us = false := by simpa using hz
    simp only [hz', Bool.false_eq_true, if_false]
    exact ⟨trivial, trivial, simFOHV_refines _ _ _ _ _ _⟩

example : allZero [(#v[0, 0] : Vector ℚ 2), #v[0, 1 / 1000000000000]] = false := by decide +kernel
example : allZero [(#v[0, 0] : Vector ℚ 2), #v[0, 0]] = true := by decide +kernel
/-- non-vacuity of `forced_cont_nonzero_input`: `x' = u` from rest with `u = 1e-9` on `[0, 1]`
(`expm` values of the augmented matrix given exactly): `x(1) = 1e-9`, not `0`. -/
example : (match forced (⟨1, 1, 1, ⟨!![0], !![1], !![1], !![0]⟩, .cont⟩ : DSS ℚ) (some [0, 1])
      (.d1 [1 / 1000000000, 1 / 1000000000]) (.scalar 0)
      (some ⟨!![1], (!![1, 1, 1/2; 0, 1, 1; 0, 0, 1] : Matrix (Fin 3) (Fin 3) ℚ)⟩) with
    | .ok r => r.x.map Vector.toList
    | .error _ => []) = [[0], [1 / 1000000000]] := by decide +kernel

/-- `initial_response` is `forced_response` with zero input (no inputs stored). -/
theorem initial_eq_forced_exec (G : DSS ℚ) (T : List ℚ) (X0 : Arr) (ex : Option (ExpmVals G.n G.m)) :
    initial G T X0 none ex =
      (forced G (some T) (.scalar 0) X0 ex).bind fun r =>
        .ok ⟨T, [r.x], [r.y.map Vector.toList], []⟩ := by
  simp only [initial, selectRows]
  cases forced G (some T) (.scalar 0) X0 ex <;> rfl

/-- `step_response` for input channel `i` is `forced_response` with a unit step in channel `i`. -/
theorem step_eq_forced (G : DSS ℚ) (T : List ℚ) (X0 : Arr) (i : ℕ) (hi : i < G.m) (output : Option ℕ)
    (ex : Option (ExpmVals G.n G.m)) :
    step G T X0 (some i) output ex =
      (forced G (some T) (unitRow G.m T.length i 1 1) X0 ex).bind fun r =>
        (selectRows output r.y).bind fun y =>
          (selectRows (some i) r.u).bind fun u => .ok ⟨T, [r.x], [y], [u]⟩ := by
  simp only [step, channels, dif_pos hi, bind, Except.bind, pure, Except.pure, List.mapM_cons,
    List.mapM_nil, Option.map]
  cases forced G (some T) (unitRow G.m T.length i 1 1) X0 ex with
  | error e => rfl
  | ok r =>
    simp only
    cases selectRows output r.y with
    | error e => rfl
    | ok y =>
      simp only
      cases selectRows (some i) r.u with
      | error e => rfl
      | ok u => rfl

/-- discrete-time `impulse_response`: from rest, `u_i[0] = 1/dt`, zero afterwards. -/
theorem impulse_eq_forced_discrete (G : DSS ℚ) (T : List ℚ) (i : ℕ) (hi : i < G.m) (output : Option ℕ)
    (h : ℚ) (hdt : G.dt = .disc h) :
    impulse G T (some i) output none =
      (forced G (some T) (unitRow G.m T.length i (1 / h) 0) (.scalar 0) none).bind fun r =>
        (selectRows output r.y).bind fun y =>
          (selectRows (some i) r.u).bind fun u => .ok ⟨T, [r.x], [y], [u]⟩ := by
  simp only [impulse, channels, dif_pos hi, bind, Except.bind, pure, Except.pure, List.mapM_cons,
    List.mapM_nil, Option.map, hdt, isDiscrete, if_true]
  cases forced G (some T) (unitRow G.m T.length i (1 / h) 0) (.scalar 0) none with
  | error e => rfl
  | ok r =>
    simp only
    cases selectRows output r.y with
    | error e => rfl
    | ok y =>
      simp only
      cases selectRows (some i) r.u with
      | error e => rfl
      | ok u => rfl

/-- continuous-time `impulse_response`: the free response from `x0 = B e_i` (zero input; the
direct-term impulse does not appear). -/
theorem impulse_eq_forced_continuous (G : DSS ℚ) (T : List ℚ) (i : ℕ) (hi : i < G.m)
    (output : Option ℕ) (ex : Option (ExpmVals G.n G.m)) (hdt : G.dt = .cont) :
    impulse G T (some i) output ex =
      (forced G (some T) (unitRow G.m T.length i 0 0)
          (.d1 ((List.finRange G.n).map fun s => G.sys.B s ⟨i, hi⟩)) ex).bind fun r =>
        (selectRows output r.y).bind fun y =>
          (selectRows (some i) r.u).bind fun u => .ok ⟨T, [r.x], [y], [u]⟩ := by
  simp only [impulse, channels, dif_pos hi, bind, Except.bind, pure, Except.pure, List.mapM_cons,
    List.mapM_nil, Option.map, hdt, isDiscrete]
  cases forced G (some T) (unitRow G.m T.length i 0 0)
      (.d1 ((List.finRange G.n).map fun s => G.sys.B s ⟨i, hi⟩)) ex with
  | error e => rfl
  | ok r =>
    simp only
    cases selectRows output r.y with
    | error e => rfl
    | ok y =>
      simp only
      cases selectRows (some i) r.u with
      | error e => rfl
      | ok u => rfl

example : gridStep [0, 1/2, 1, 3/2] = .ok (1/2) := by decide +kernel
example : gridStep [0, 1/2, 3/2] = .error .badArg := by decide +kernel
example : decimation (.disc (1/10)) (1/5) = .ok 2 := by decide +kernel
example : decimation (.disc (1/10)) (3/20) = .error .badArg := by decide +kernel
example : decimation (.disc (1/10)) (1/20) = .error .badArg := by decide +kernel

end CtrlVerif.C06
