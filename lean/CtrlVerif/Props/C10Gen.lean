/-
Source-text tie for the argument validation of C10 (DESIGN §2.5): `Generated/MatEqnCheck.lean` is
rewritten on every run from the text of `_check_shape` and `_is_symmetric` in
/repo/control/mateqn.py by `harness/core/py2lean_select.py` (arrays are the run-time shaped `DMat K`
of the model, the NumPy primitives have the fixed meaning of `Model/PyArr.lean`; the element-wise
tests `(M - M.T) < eps` / `M == M.T` are primitives = the model's `IsSym`).  The validation logic
of the hand-written model (`isSymD`, `checkShape` — the order squareness → symmetry → expected
shape and the three exception kinds, which `lyapD / dlyapD / careD / dareD` and the theorems of
`Props/C10.lean` rely on) is proved equal to the generated functions, for every array over every
ordered field, all expected shapes and all flag values.

One deviation is found by this tie and stated below: on an EMPTY array (`0 × q` or `p × 0`) the
source evaluates `M[0, 0]` and raises IndexError, where the model's `isSymD` answers `true` for the
`0 × 0` array.  (`lyap` on a system without states raises IndexError; outside the sizes the C10
correspondence generates.)  The equalities are stated for the arrays on which `M[0, 0]` exists.
-/
import CtrlVerif.Generated.MatEqnCheck
import Mathlib.LinearAlgebra.Matrix.Notation
import Mathlib.Algebra.Order.Field.Rat

namespace CtrlVerif.C10Gen

open CtrlVerif MatEqn

variable {K : Type} [Field K] [LinearOrder K]

/-- `_is_symmetric(M)` as written in the source is the model's `isSymD`, on every non-empty
array (square or not, inexact or integer dtype). -/
theorem generated_isSymmetric_eq (M : DMat K) (hne : 0 < M.p ∧ 0 < M.q) :
    Generated.isSymmetric M = isSymD M := by
  rcases M with ⟨p, q, A, tol⟩
  cases tol <;> by_cases h : q = p <;>
    simp [Generated.isSymmetric, isSymD, PyArr.atleast2d, PyArr.item00Inexact, PyArr.eps, PyArr.allDiffTLt,
      PyArr.allEqT, hne.1, hne.2, h, bind, Except.bind, pure, Except.pure] <;> simp_all <;> rfl

/-- the deviation: on an empty array the source raises IndexError (`M[0, 0]`) … -/
theorem generated_isSymmetric_empty (M : DMat K) (h : M.p = 0 ∨ M.q = 0) :
    Generated.isSymmetric M = .error .indexRange := by
  have : ¬ (0 < M.p ∧ 0 < M.q) := by omega
  simp [Generated.isSymmetric, PyArr.atleast2d, PyArr.item00Inexact, this, bind, Except.bind]

/-- … where the model calls the `0 × 0` array symmetric. -/
theorem model_isSymD_empty (A : Matrix (Fin 0) (Fin 0) K) (tol : Option K) :
    isSymD (DMat.of A tol) = .ok true := by
  cases tol <;> simp [isSymD, DMat.of, IsSym]

/-- `_check_shape(M, n, m, square, symmetric, name)` as written in the source is the model's
`checkShape`: it raises the same exception kind in the same order of tests (not square →
ControlDimension, not symmetric → ControlArgument, unexpected shape → ControlDimension) and
otherwise returns the array it was given — unless `symmetric` is requested for the `0 × 0` array
(the deviation above). -/
theorem generated_checkShape_eq (M : DMat K) (n m : Nat) (sq sy : Bool) (name : String)
    (hne : ¬ (sy = true ∧ M.p = 0 ∧ M.q = 0)) :
    Generated.checkShape M n m sq sy name = (checkShape M n m sq sy).map (fun _ => M) := by
  unfold Generated.checkShape checkShape
  by_cases hpq : M.p = M.q
  · cases sy
    · by_cases hn : M.p = n <;> by_cases hm : M.q = m <;> cases sq <;>
        simp [PyArr.atleast2d, PyArr.shape0, PyArr.shape1, hpq, hn, hm, bind, Except.bind, pure, Except.pure,
          throw, throwThe, MonadExceptOf.throw, Except.map] <;> simp_all
    · have hpos : 0 < M.p ∧ 0 < M.q := by
        simp only [true_and] at hne
        omega
      rcases hs : isSymD M with e | b
      · by_cases hn : M.p = n <;> by_cases hm : M.q = m <;> cases sq <;>
        simp [PyArr.atleast2d, PyArr.shape0, PyArr.shape1, hpq, hn, hm, bind, Except.bind, pure, Except.pure,
          throw, throwThe, MonadExceptOf.throw, Except.map, generated_isSymmetric_eq M hpos, hs] <;> simp_all
      · by_cases hn : M.p = n <;> by_cases hm : M.q = m <;> cases sq <;> cases b <;>
        simp [PyArr.atleast2d, PyArr.shape0, PyArr.shape1, hpq, hn, hm, bind, Except.bind, pure, Except.pure,
          throw, throwThe, MonadExceptOf.throw, Except.map, generated_isSymmetric_eq M hpos, hs] <;> simp_all
  · cases sy <;> cases sq <;> by_cases hn : M.p = n <;> by_cases hm : M.q = m <;>
      simp [PyArr.atleast2d, PyArr.shape0, PyArr.shape1, hpq, hn, hm, bind, Except.bind, pure, Except.pure,
        throw, throwThe, MonadExceptOf.throw, Except.map] <;> simp_all

/-- the deviation at the level of `_check_shape`: a `0 × 0` weight that must be symmetric raises
IndexError in the source where the model accepts it. -/
theorem generated_checkShape_empty_sym (M : DMat K) (hp : M.p = 0) (hq : M.q = 0) (n m : Int) (sq : Bool)
    (name : String) : Generated.checkShape M n m sq true name = .error .indexRange := by
  simp [Generated.checkShape, PyArr.atleast2d, PyArr.shape0, PyArr.shape1, hp, hq,
    generated_isSymmetric_empty M (Or.inl hp), bind, Except.bind, pure, Except.pure]

/-- for arbitrary Python ints `n`, `m` (also negative ones): the source returns only when the
shape is the expected one, and then returns the array it was given. -/
theorem generated_checkShape_ok (M M' : DMat K) (n m : Int) (sq sy : Bool) (name : String)
    (h : Generated.checkShape M n m sq sy name = .ok M') :
    M' = M ∧ (M.p : Int) = n ∧ (M.q : Int) = m := by
  unfold Generated.checkShape at h
  simp only [PyArr.atleast2d, PyArr.shape0, PyArr.shape1] at h
  by_cases hn : (M.p : Int) = n <;> by_cases hm : (M.q : Int) = m <;>
    by_cases hpq : (M.p : Int) = M.q <;> cases sq <;> cases sy <;>
    rcases hs : Generated.isSymmetric M with e | b <;> (try cases b) <;>
    simp [hn, hm, hpq, hs, bind, Except.bind, pure, Except.pure, throw, throwThe, MonadExceptOf.throw] at h ⊢ <;>
    first | exact h.symm | omega | (split at h <;> simp_all) | simp_all

/-- the `name` argument only feeds the error messages. -/
theorem generated_checkShape_name (M : DMat K) (n m : Int) (sq sy : Bool) (name name' : String) :
    Generated.checkShape M n m sq sy name = Generated.checkShape M n m sq sy name' := rfl

/-! non-vacuity: the generated functions accept and reject concrete arrays -/
example : Generated.isSymmetric (DMat.of (!![2, 1; 1, 3] : Matrix (Fin 2) (Fin 2) ℚ) (some (1/4503599627370496)))
    = .ok true := by decide +kernel
example : Generated.isSymmetric (DMat.of (!![2, -1; 1, 3] : Matrix (Fin 2) (Fin 2) ℚ) none) = .ok false := by
  decide +kernel
example : (Generated.checkShape (DMat.of (!![2, -1; 1, 3] : Matrix (Fin 2) (Fin 2) ℚ) none) 2 2 true true "Q").toBool
    = false := by decide +kernel
example : (Generated.checkShape (DMat.of (!![2, 1; 1, 3] : Matrix (Fin 2) (Fin 2) ℚ) none) 2 2 true true "Q").toBool
    = true := by decide +kernel
example : (Generated.checkShape (DMat.of (!![2, 1; 1, 3] : Matrix (Fin 2) (Fin 2) ℚ) none) 2 3 true true "Q").toBool
    = false := by decide +kernel

end CtrlVerif.C10Gen
