/-
Source-text tie of `LTI.bandwidth` (C12; DESIGN §10.3, notes/NOTES-py2lean-margins.md).
`Generated/MargBandwidth.lean` is rewritten on every run from the text of `LTI.bandwidth`
(control/lti.py) of the tree under check by `harness/core/py2lean_marg.py`.  The hand-written model
`Margins.bandwidth` (argument check, DC-gain cases, FIRST sample whose gain is below `|dc|·10^(dbdrop/20)`)
is proved to be what the source text computes up to the root finder, which is a parameter: the
bracket handed to `scipy.optimize.root_scalar` is `[omega[k-1], omega[k]]` for the model's `k`, the
function whose root is sought is `w ↦ |L(point w)| - |dc|·10^(dbdrop/20)`, the result is `|root|`.
-/
import CtrlVerif.Generated.MargBandwidth
import CtrlVerif.Lemmas.PyMarg
import CtrlVerif.Props.C12

namespace CtrlVerif.C12GenSel
open CtrlVerif CtrlVerif.Margins CtrlVerif.PyMarg

section
variable {K : Type} [Field K] [LinearOrder K] [IsStrictOrderedRing K]

/-- `self.dcgain()` as a float. -/
def dcXF : DcGain K → XF K
  | .finite g => .fin g
  | .infinite => .pinf
  | .indeterminate => .nan

/-- the point at which `_gain(w)` evaluates the system: `exp(1j·w·dt)` for a discrete-time system
(`isdtime(strict=True)`), `1j·w` otherwise. -/
def bwPoint (P : Prims K) (dtime : Bool) (dt : K) (w : K) : Cx K :=
  if dtime then P.expj (w * dt) else jw w

/-- the function handed to the root finder. -/
def bwFun (P : Prims K) (num den : List K) (dtime : Bool) (dt : K) (dc : XF K) (thr : K) (w : K) : XF K :=
  XF.sub (rabs P.cabs (respAt num den (bwPoint P dtime dt w))) (XF.mul (XF.abs dc) (.fin thr))

/-- what `bandwidth` returns, given the model's result: `nan`, `inf`, or `|root|` of the root finder on
the bracket `[omega[k-1], omega[k]]` (Python indexing: `k = 0` takes the LAST grid point as left end);
a run of the root finder that does not converge raises. -/
def bwFinish (P : Prims K) (rootScalar : String → (K → XF K) → K → K → Bool × K) (f : K → XF K)
    (omega : List K) : Except Err (BwResult K) → Except Err (XF K)
  | .error e => .error e
  | .ok .nan => .ok .nan
  | .ok .inf => .ok .pinf
  | .ok (.bracket k) =>
    (PyArith.getItem omega ((k : Int) - 1)).bind fun a =>
      (PyArith.getItem omega (k : Int)).bind fun b =>
        if (rootScalar "bisect" f a b).1 = true then .ok (.fin |(rootScalar "bisect" f a b).2|)
        else .error .illPosed

/-- one sample is below the threshold, as the code tests it (`mag - |dc|·thr < 0` in floats that may
be `nan`) and as the model does (`|r|² < (|g|·thr)²`). -/
theorem dropped_iff (P : Prims K) (hc : CabsSpec P) (g thr : K) (hthr : 0 ≤ thr) (r : Option (Cx K)) :
    XF.lt (XF.sub (rabs P.cabs r) (XF.mul (XF.abs (.fin g)) (.fin thr))) (.fin 0)
      = match r with
        | some r => decide (normSq r < (|g| * thr) * (|g| * thr))
        | none => false := by
  cases r with
  | none => rfl
  | some r =>
    simp only [rabs, XF.abs, XF.mul, XF.sub, XF.neg, XF.add, XF.lt]
    rw [Bool.eq_iff_iff]
    simp only [decide_eq_true_eq]
    rw [← hc.lt_iff r _ (mul_nonneg (abs_nonneg g) hthr)]
    constructor <;> intro h <;> linarith

/-- `firstDrop` is the first `True` position of the boolean array. -/
theorem firstDrop_eq (num den : List K) (t2 : K) (grid : List (Cx K)) (k0 : Nat) :
    firstDrop num den t2 grid k0 =
      ((((grid.map fun z => match respAt num den z with
          | some r => decide (normSq r < t2)
          | none => false).zipIdx k0).filter (·.1)).map (·.2)).head? := by
  induction grid generalizing k0 with
  | nil => rfl
  | cons z zs ih =>
    simp only [firstDrop, List.map_cons, List.zipIdx_cons, List.filter_cons]
    cases h : respAt num den z with
    | none => simp only [Bool.false_eq_true, if_false]; exact ih (k0 + 1)
    | some r =>
      by_cases hd : normSq r < t2
      · simp [hd]
      · simp only [hd, decide_false, Bool.false_eq_true, if_false]; exact ih (k0 + 1)

theorem whereTrue_nil_iff (bs : List Bool) : ((whereTrue bs).length : Int) = 0 ↔ (whereTrue bs).head? = none := by
  cases whereTrue bs <;> simp
  omega

/-- **`LTI.bandwidth` as written** (`sysEval = respAt num den`, `dcgain() = dcXF (dcGain num den p0)`,
`frequency_response(omega)` returns the gains `|L(point w)|` and `omega` itself, `10 ** x` is
`P.pow10`): it is the model's `bandwidth` on the grid of evaluation points, completed by the root
finder — under the contract of `np.abs` and `10 ** x ≥ 0`.  For a system that is SISO. -/
theorem generated_bandwidth_eq (P : Prims K) (hc : CabsSpec P) (num den : List K) (p0 : K) (dtime : Bool)
    (dt dbdrop : K) (omega : List K) (phase : List K → List K)
    (rootScalar : String → (K → XF K) → K → K → Bool × K) (hthr : 0 ≤ P.pow10 (dbdrop / 20)) :
    Generated.ltiBandwidth P (respAt num den) true dtime (dcXF (dcGain num den p0)) omega
        (fun om => (om.map fun w => rabs P.cabs (respAt num den (bwPoint P dtime dt w)), phase om, om))
        dt rootScalar dbdrop
      = bwFinish P rootScalar
          (bwFun P num den dtime dt (dcXF (dcGain num den p0)) (P.pow10 (dbdrop / 20))) omega
          (bandwidth num den p0 dbdrop (P.pow10 (dbdrop / 20)) (omega.map (bwPoint P dtime dt))) := by
  unfold Generated.ltiBandwidth bandwidth
  simp only [not_true_eq_false, if_false, false_or]
  by_cases hdb : 0 ≤ dbdrop
  · simp only [hdb, if_true]; rfl
  · simp only [hdb, if_false]
    cases hg : dcGain num den p0 with
    | infinite => simp [dcXF, XF.isInf, bwFinish, pure, Except.pure]
    | indeterminate =>
      have hno : (List.map (fun x => XF.lt x (XF.fin (0 : K)))
          (List.map (fun x => XF.sub x (XF.mul (XF.abs (XF.nan : XF K)) (XF.fin (P.pow10 (dbdrop / 20)))))
            (List.map (fun w => rabs P.cabs (respAt num den (bwPoint P dtime dt w))) omega)))
          = omega.map fun _ => false := by
        simp only [List.map_map, Function.comp_def]
        apply List.map_congr_left
        intro w _
        cases rabs P.cabs (respAt num den (bwPoint P dtime dt w)) <;> rfl
      have hw : whereTrue (omega.map fun _ => false) = [] := by
        unfold whereTrue
        rw [List.map_eq_nil_iff, List.filter_eq_nil_iff]
        rintro ⟨b, i⟩ hab
        have := List.mem_zipIdx hab
        simp only [Nat.zero_le, Nat.sub_zero, true_and, List.length_map, List.getElem_map] at this
        simp [this.2]
      simp only [dcXF, XF.isInf, Bool.false_eq_true, if_false, hno, hw]
      simp [bwFinish, pure, Except.pure]
    | finite g =>
      simp only [dcXF, XF.isInf, Bool.false_eq_true, if_false]
      have hmap : (List.map (fun x => XF.lt x (XF.fin (0 : K)))
          (List.map (fun x => XF.sub x (XF.mul (XF.abs (XF.fin g)) (XF.fin (P.pow10 (dbdrop / 20)))))
            (List.map (fun w => rabs P.cabs (respAt num den (bwPoint P dtime dt w))) omega)))
          = (omega.map (bwPoint P dtime dt)).map fun z => match respAt num den z with
              | some r => decide (normSq r < (|g| * P.pow10 (dbdrop / 20)) * (|g| * P.pow10 (dbdrop / 20)))
              | none => false := by
        simp only [List.map_map, Function.comp_def]
        apply List.map_congr_left
        intro w _
        exact dropped_iff P hc g _ hthr _
      simp only [hmap]
      rw [firstDrop_eq]
      show _ = bwFinish _ _ _ _ (match (whereTrue _).head? with | none => _ | some k => _)
      cases hw : whereTrue ((omega.map (bwPoint P dtime dt)).map fun z => match respAt num den z with
              | some r => decide (normSq r < (|g| * P.pow10 (dbdrop / 20)) * (|g| * P.pow10 (dbdrop / 20)))
              | none => false) with
      | nil => simp [bwFinish, pure, Except.pure]
      | cons k l =>
        have hne : ¬ (((k :: l).length : Nat) : Int) = 0 := by simp only [List.length_cons]; omega
        simp only [hne, if_false, List.head?_cons, bwFinish, first, ok_bind', pure_bind']
        by_cases hdt : dtime = true
        · subst hdt
          simp only [if_true, pure_bind', bwFun, bwPoint, dcXF, if_true]
          rfl
        · have hdt' : dtime = false := by simpa using hdt
          subst hdt'
          simp only [Bool.false_eq_true, if_false, pure_bind', bwFun, bwPoint, dcXF]
          rfl

/-- a system that is not SISO is rejected (`TypeError`). -/
theorem generated_bandwidth_mimo (P : Prims K) (sysEval : Cx K → Option (Cx K)) (dtime : Bool) (dc : XF K)
    (omega : List K) (fr : List K → List (XF K) × List K × List K) (dt : K)
    (rootScalar : String → (K → XF K) → K → K → Bool × K) (dbdrop : K) :
    Generated.ltiBandwidth P sysEval false dtime dc omega fr dt rootScalar dbdrop = .error .notImplemented := by
  unfold Generated.ltiBandwidth
  simp

/-- a non-negative `dbdrop` raises `ValueError` (whatever the system; `C12.bandwidth_nonneg_dbdrop_raises`
for the source text). -/
theorem generated_bandwidth_raises (P : Prims K) (sysEval : Cx K → Option (Cx K)) (dtime : Bool) (dc : XF K)
    (omega : List K) (fr : List K → List (XF K) × List K × List K) (dt : K)
    (rootScalar : String → (K → XF K) → K → K → Bool × K) (dbdrop : K) (h : 0 ≤ dbdrop) :
    Generated.ltiBandwidth P sysEval true dtime dc omega fr dt rootScalar dbdrop = .error .badArg := by
  unfold Generated.ltiBandwidth
  simp [h]

/-- the contract of the root finder: a converged run returns a root. -/
def RootSpec (rootScalar : String → (K → XF K) → K → K → Bool × K) : Prop :=
  ∀ m f a b, (rootScalar m f a b).1 = true → f (rootScalar m f a b).2 = .fin 0

/-- `bandwidth_def` for the function the source text defines: whenever it returns a finite `w`, the
DC gain `g` is finite, `dbdrop < 0`, the model's bracket index `k` is the FIRST grid sample whose gain
is below `|g|·10^(dbdrop/20)`, the root finder was run on `[omega[k-1], omega[k]]` and converged,
`w = |root|`; and if the root finder keeps its contract, the loop gain at the returned point is
exactly `|g|·10^(dbdrop/20)`. -/
theorem generated_bandwidth_def (P : Prims K) (hc : CabsSpec P) (num den : List K) (p0 : K) (dtime : Bool)
    (dt dbdrop : K) (omega : List K) (phase : List K → List K)
    (rootScalar : String → (K → XF K) → K → K → Bool × K) (hthr : 0 ≤ P.pow10 (dbdrop / 20)) (w : K)
    (h : Generated.ltiBandwidth P (respAt num den) true dtime (dcXF (dcGain num den p0)) omega
        (fun om => (om.map fun w => rabs P.cabs (respAt num den (bwPoint P dtime dt w)), phase om, om))
        dt rootScalar dbdrop = .ok (.fin w)) :
    dbdrop < 0 ∧ ∃ g k a b, dcGain num den p0 = .finite g ∧
      bandwidth num den p0 dbdrop (P.pow10 (dbdrop / 20)) (omega.map (bwPoint P dtime dt)) = .ok (.bracket k) ∧
      PyArith.getItem omega ((k : Int) - 1) = .ok a ∧ PyArith.getItem omega (k : Int) = .ok b ∧
      (rootScalar "bisect" (bwFun P num den dtime dt (.fin g) (P.pow10 (dbdrop / 20))) a b).1 = true ∧
      w = |(rootScalar "bisect" (bwFun P num den dtime dt (.fin g) (P.pow10 (dbdrop / 20))) a b).2| ∧
      (RootSpec rootScalar → ∃ r, respAt num den (bwPoint P dtime dt
          (rootScalar "bisect" (bwFun P num den dtime dt (.fin g) (P.pow10 (dbdrop / 20))) a b).2) = some r ∧
        P.cabs r = |g| * P.pow10 (dbdrop / 20)) := by
  rw [generated_bandwidth_eq P hc num den p0 dtime dt dbdrop omega phase rootScalar hthr] at h
  cases hb : bandwidth num den p0 dbdrop (P.pow10 (dbdrop / 20)) (omega.map (bwPoint P dtime dt)) with
  | error e => simp [hb, bwFinish] at h
  | ok res =>
    cases res with
    | nan => simp [hb, bwFinish] at h
    | inf => simp [hb, bwFinish] at h
    | bracket k =>
      obtain ⟨hdb, g, hg, _⟩ := C12.bandwidth_bracket _ _ _ _ _ _ k hb
      refine ⟨hdb, g, k, ?_⟩
      simp only [hb, bwFinish] at h
      cases ha : PyArith.getItem omega ((k : Int) - 1) with
      | error e => simp [ha, bind, Except.bind] at h
      | ok a =>
        cases hbb : PyArith.getItem omega (k : Int) with
        | error e => simp [ha, hbb, bind, Except.bind] at h
        | ok b =>
          simp only [ha, hbb, Except.bind, hg, dcXF] at h
          by_cases hconv : (rootScalar "bisect" (bwFun P num den dtime dt (.fin g) (P.pow10 (dbdrop / 20))) a b).1 = true
          · simp only [hconv, if_true, Except.ok.injEq, XF.fin.injEq] at h
            refine ⟨a, b, hg, rfl, rfl, rfl, hconv, h.symm, ?_⟩
            intro hspec
            have hroot := hspec _ _ _ _ hconv
            unfold bwFun at hroot
            cases hr : respAt num den (bwPoint P dtime dt
                (rootScalar "bisect" (bwFun P num den dtime dt (.fin g) (P.pow10 (dbdrop / 20))) a b).2) with
            | none =>
              unfold bwFun at hr
              rw [hr] at hroot
              simp [rabs, XF.abs, XF.mul, XF.sub, XF.neg, XF.add] at hroot
            | some r =>
              refine ⟨r, rfl, ?_⟩
              unfold bwFun at hr
              rw [hr] at hroot
              simp only [rabs, XF.abs, XF.mul, XF.sub, XF.neg, XF.add, XF.fin.injEq] at hroot
              linarith
          · simp [hconv] at h

end
end CtrlVerif.C12GenSel
