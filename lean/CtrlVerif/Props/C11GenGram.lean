/-
Source-text tie of C11, part 1: `ctrb(A, B, t=None)` and `obsv(A, C, t=None)` (control/statefbk.py).
`Generated/SfbGram.lean` is rewritten from the source text of the tree under check on every run
(harness/core/py2lean_sfb.py); the theorems below prove the run-time model functions `ctrbDyn` /
`obsvDyn` (`Model/StateFbkDyn.lean`; the ones the driver executes, built on the typed `ctrb` / `obsv`
that `Props/C11.lean` is about) EQUAL to the generated functions, for all sizes, entries and horizons.

The tie found three places where the hand-written model is not the function the source text defines
(all on empty arrays; stated as theorems below, the equalities carry the corresponding hypotheses):
* an array of shape `(1, 0)` is read by `_ssmatrix` as the `0 × 0` array (`generated_ctrb_emptyRow_A/_B`);
* `ctrb(A, B, 0)` with a `B` WITHOUT columns returns the `n × 0` array, the model raises
  (`generated_ctrb_noInputs`; same for `obsv` and a `C` without rows, `generated_obsv_noOutputs`) —
  NumPy's broadcast of an `n × m` block into an `n × 0` slot fails only for `m ≥ 2`;
* a negative horizon (the model's horizon is a `Nat`) raises unless `B` has no columns
  (`generated_ctrb_negative`).
-/
import CtrlVerif.Generated.SfbGram
import CtrlVerif.Lemmas.PySfb
import CtrlVerif.Props.C11

namespace CtrlVerif.C11Gen

open Matrix CtrlVerif CtrlVerif.StateFbk

variable {K : Type} [Field K] [DecidableEq K]

/-- a run-time sized result of the model (`ctrbDyn`) as an untyped array. -/
def ofSigmaCols {r : Nat} (s : Σ c : Nat, Matrix (Fin r) (Fin c) K) : PMat K := ⟨r, s.1, s.2⟩

/-- a run-time sized result of the model (`obsvDyn`) as an untyped array. -/
def ofSigmaRows {c : Nat} (s : Σ r : Nat, Matrix (Fin r) (Fin c) K) : PMat K := ⟨s.1, c, s.2⟩

/-- the horizon rule `if t is None or t > n: t = n` on a Python int. -/
def horizonI (n : Nat) : Option Int → Int
  | none => n
  | some t => if t > n then n else t

theorem horizonI_nat (n : Nat) (t : Option Nat) : horizonI n (t.map Nat.cast) = (horizon n t : Nat) := by
  cases t with
  | none => rfl
  | some t =>
    simp only [Option.map, horizonI, horizon]
    by_cases ht : t > n
    · rw [if_pos (by exact_mod_cast ht), if_pos ht]
    · rw [if_neg (by exact_mod_cast ht), if_neg ht]

/-- what `ctrb` returns on validated arguments (`A` square, `B` with as many rows) once the horizon
is resolved to the Python int `h`, in terms of the typed model `ctrb`: a negative horizon is a negative
array size unless `B` has no columns; horizon `0` assigns `B` to an `n × 0` slot. -/
def ctrbSpec {n m : Nat} (A : Matrix (Fin n) (Fin n) K) (B : Matrix (Fin n) (Fin m) K) (h : Int) :
    Except Err (PMat K) :=
  if h < 0 then (if 0 < m then .error .shape else .ok ⟨n, 0, 0⟩)
  else if h = 0 then (if 1 < m then .error .shape else .ok ⟨n, 0, 0⟩)
  else .ok ⟨n, h.toNat * m, (ctrb A B h.toNat).submatrix id finProdFinEquiv.symm⟩

theorem ctrbSpec_pos {n m : Nat} (A : Matrix (Fin n) (Fin n) K) (B : Matrix (Fin n) (Fin m) K) (t : Nat) :
    ctrbSpec A B ((t + 1 : Nat) : Int)
      = .ok ⟨n, (t + 1) * m, (ctrb A B (t + 1)).submatrix id finProdFinEquiv.symm⟩ := by
  unfold ctrbSpec
  rw [if_neg (by omega), if_neg (by omega)]
  rfl

/-- everything `ctrb` does once the arguments are validated and the horizon is `h`, for any loop body
`f` that performs the block step. -/
theorem ctrb_final {n m : Nat} (A : Matrix (Fin n) (Fin n) K) (B : Matrix (Fin n) (Fin m) K) (h : Int)
    (f : PMat K → Int → Except Err (PMat K))
    (hf : ∀ t j, j + 2 ≤ t →
      f (PySfb.ctrbSeq A B t j) ((1 : Int) + (j : Int)) = .ok (PySfb.ctrbSeq A B t (j + 1))) :
    (PMat.zerosI (n : Int) (h * (m : Int))).bind (fun c =>
      (PySfb.setSliceB c none none none (some (m : Int)) ⟨n, m, B⟩).bind (fun c =>
        List.foldlM f c (PyArith.range 1 h)))
    = ctrbSpec A B h := by
  unfold ctrbSpec
  by_cases hneg : h < 0
  · rw [if_pos hneg]
    by_cases hm : 0 < m
    · rw [if_pos hm]
      have : h * (m : Int) < 0 := Int.mul_neg_of_neg_of_pos hneg (by exact_mod_cast hm)
      simp [PMat.zerosI, this]
      rfl
    · have hm0 : m = 0 := by omega
      subst hm0
      rw [if_neg hm, PySfb.ctrb_tail_zero B f _ h (by simp) (by omega), if_neg (by omega)]
  · rw [if_neg hneg]
    by_cases h0 : h = 0
    · subst h0
      rw [if_pos rfl, PySfb.ctrb_tail_zero B f _ 0 (by simp) (by omega)]
    · rw [if_neg h0]
      obtain ⟨t, rfl⟩ : ∃ t : Nat, h = ((t + 1 : Nat) : Int) := ⟨(h - 1).toNat, by omega⟩
      rw [PySfb.ctrb_tail_pos A B t f (fun j hj => hf (t + 1) j hj)]
      rfl

/-- the loop body the source text defines performs the block step of `ctrb` (the integer slice
bounds are compared by value, so `k * m`, `m * k`, `(k - 1) * m + m` … are all accepted). -/
local macro "ctrb_loop" : tactic =>
  `(tactic| (intro t j hj
             show (PMat.matmul _ _).bind _ = _
             exact PySfb.ctrb_step _ _ t j hj _ _ _ _ (by push_cast; ring) (by push_cast; ring)
               (by push_cast; ring) (by push_cast; ring)))

/-- **`ctrb`, all arguments** (2-D arrays of any shape other than `(1, 0)`, any Python int or `None` as
horizon): the function the source text defines validates the shapes as `_ssmatrix` does, resolves the
horizon and returns `ctrbSpec` of the typed model. -/
theorem generated_ctrb_spec (ar ac br bc : Nat) (A : Matrix (Fin ar) (Fin ac) K)
    (B : Matrix (Fin br) (Fin bc) K) (t : Option Int)
    (hA : ¬(ar = 1 ∧ ac = 0)) (hB : ¬(br = 1 ∧ bc = 0)) :
    Generated.sfCtrb ⟨ar, ac, A⟩ ⟨br, bc, B⟩ t
      = if h : ac = ar ∧ br = ar then
          ctrbSpec (A.submatrix id (Fin.cast h.1.symm)) (B.submatrix (Fin.cast h.2.symm) id) (horizonI ar t)
        else .error .shape := by
  unfold Generated.sfCtrb
  simp only [bind, pure, Except.pure, PySfb.ssmatrix_square _ _ _ hA]
  by_cases h1 : ac = ar
  swap
  · rw [if_neg h1, dif_neg (fun h => h1 h.1)]; rfl
  subst h1
  simp only [if_true, Except.ok_bind', PySfb.ssmatrix_rows _ _ _ _ hB]
  by_cases h2 : br = ac
  swap
  · rw [if_neg h2, dif_neg (fun h => h2 h.2)]; rfl
  subst h2
  simp only [if_true, Except.ok_bind', true_and, dite_true, PySfb.submatrix_cast_cols,
    PySfb.submatrix_cast_rows]
  cases t with
  | none =>
    simp only [Except.ok_bind', horizonI]
    exact ctrb_final A B _ _ (by ctrb_loop)
  | some t =>
    simp only [horizonI]
    by_cases ht : t > br
    · rw [if_pos ht, Except.ok_bind', if_pos ht]
      exact ctrb_final A B _ _ (by ctrb_loop)
    · rw [if_neg ht, Except.ok_bind', if_neg ht]
      exact ctrb_final A B _ _ (by ctrb_loop)

/-- **`ctrb`**: the function the source text defines is the model's `ctrbDyn` — `_ssmatrix`
validation of both arguments, the horizon rule `t is None or t > n`, the zero-filled `n × t·m` array,
block `0 = B`, block `k = A · block (k-1)` — for all sizes, entries and horizons `t : Option ℕ`. -/
theorem generated_ctrb_eq (ar ac br bc : Nat) (A : Matrix (Fin ar) (Fin ac) K)
    (B : Matrix (Fin br) (Fin bc) K) (t : Option Nat)
    (hA : ¬(ar = 1 ∧ ac = 0)) (hB : ¬(br = 1 ∧ bc = 0)) (hT : ¬(bc = 0 ∧ horizon ar t = 0)) :
    Generated.sfCtrb ⟨ar, ac, A⟩ ⟨br, bc, B⟩ (t.map Nat.cast)
      = (ctrbDyn ar ac br bc A B t).map ofSigmaCols := by
  rw [generated_ctrb_spec _ _ _ _ A B _ hA hB, horizonI_nat]
  unfold ctrbDyn ctrbSpec
  by_cases h : ac = ar ∧ br = ar
  swap
  · rw [dif_neg h, dif_neg h]; rfl
  rw [dif_pos h, dif_pos h, if_neg (by omega)]
  simp only [Int.toNat_natCast, Nat.cast_eq_zero]
  by_cases h0 : horizon ar t = 0
  · rw [if_pos h0]
    by_cases h1 : 1 < bc
    · rw [if_pos h1, if_pos ⟨h0, by omega⟩]; rfl
    · have hb : bc = 1 := by omega
      subst hb
      rw [if_neg h1, if_neg (by simp)]
      simp only [Except.map, ofSigmaCols]
      congr 1
      refine PMat.ext' rfl (by simp [h0]) ?_
      ext i c
      have hc := c.isLt
      simp [h0] at hc
  · rw [if_neg h0, if_neg (fun hh => h0 hh.1)]
    rfl

/-- what `obsv` returns on validated arguments once the horizon is resolved to `h`. -/
def obsvSpec {n p : Nat} (A : Matrix (Fin n) (Fin n) K) (C : Matrix (Fin p) (Fin n) K) (h : Int) :
    Except Err (PMat K) :=
  if h < 0 then (if 0 < p then .error .shape else .ok ⟨0, n, 0⟩)
  else if h = 0 then (if 1 < p then .error .shape else .ok ⟨0, n, 0⟩)
  else .ok ⟨h.toNat * p, n, (obsv A C h.toNat).submatrix finProdFinEquiv.symm id⟩

/-- everything `obsv` does once the arguments are validated and the horizon is `h`. -/
theorem obsv_final {n p : Nat} (A : Matrix (Fin n) (Fin n) K) (C : Matrix (Fin p) (Fin n) K) (h : Int)
    (f : PMat K → Int → Except Err (PMat K))
    (hf : ∀ t j, j + 2 ≤ t →
      f (PySfb.obsvSeq A C t j) ((1 : Int) + (j : Int)) = .ok (PySfb.obsvSeq A C t (j + 1))) :
    (PMat.zerosI (h * (p : Int)) (n : Int)).bind (fun c =>
      (PySfb.setSliceB c none (some (p : Int)) none none ⟨p, n, C⟩).bind (fun c =>
        List.foldlM f c (PyArith.range 1 h)))
    = obsvSpec A C h := by
  unfold obsvSpec
  by_cases hneg : h < 0
  · rw [if_pos hneg]
    by_cases hm : 0 < p
    · rw [if_pos hm]
      have : h * (p : Int) < 0 := Int.mul_neg_of_neg_of_pos hneg (by exact_mod_cast hm)
      simp [PMat.zerosI, this]
      rfl
    · have hm0 : p = 0 := by omega
      subst hm0
      rw [if_neg hm, PySfb.obsv_tail_zero C f _ h (by simp) (by omega), if_neg (by omega)]
  · rw [if_neg hneg]
    by_cases h0 : h = 0
    · subst h0
      rw [if_pos rfl, PySfb.obsv_tail_zero C f _ 0 (by simp) (by omega)]
    · rw [if_neg h0]
      obtain ⟨t, rfl⟩ : ∃ t : Nat, h = ((t + 1 : Nat) : Int) := ⟨(h - 1).toNat, by omega⟩
      rw [PySfb.obsv_tail_pos A C t f (fun j hj => hf (t + 1) j hj)]
      rfl

local macro "obsv_loop" : tactic =>
  `(tactic| (intro t j hj
             show (PMat.matmul _ _).bind _ = _
             exact PySfb.obsv_step _ _ t j hj _ _ _ _ (by push_cast; ring) (by push_cast; ring)
               (by push_cast; ring) (by push_cast; ring)))

/-- **`obsv`, all arguments** (2-D arrays of any shape other than `(1, 0)`, any Python int or `None` as
horizon). -/
theorem generated_obsv_spec (ar ac cr cc : Nat) (A : Matrix (Fin ar) (Fin ac) K)
    (C : Matrix (Fin cr) (Fin cc) K) (t : Option Int)
    (hA : ¬(ar = 1 ∧ ac = 0)) (hC : ¬(cr = 1 ∧ cc = 0)) :
    Generated.sfObsv ⟨ar, ac, A⟩ ⟨cr, cc, C⟩ t
      = if h : ac = ar ∧ cc = ar then
          obsvSpec (A.submatrix id (Fin.cast h.1.symm)) (C.submatrix id (Fin.cast h.2.symm)) (horizonI ar t)
        else .error .shape := by
  unfold Generated.sfObsv
  simp only [bind, pure, Except.pure, PySfb.ssmatrix_square _ _ _ hA]
  by_cases h1 : ac = ar
  swap
  · rw [if_neg h1, dif_neg (fun h => h1 h.1)]; rfl
  subst h1
  simp only [if_true, Except.ok_bind', PySfb.ssmatrix_cols _ _ _ _ hC]
  by_cases h2 : cc = ac
  swap
  · rw [if_neg h2, dif_neg (fun h => h2 h.2)]; rfl
  subst h2
  simp only [if_true, Except.ok_bind', true_and, dite_true, PySfb.submatrix_cast_cols,
    PySfb.submatrix_cast_rows]
  cases t with
  | none =>
    simp only [Except.ok_bind', horizonI]
    exact obsv_final A C _ _ (by obsv_loop)
  | some t =>
    simp only [horizonI]
    by_cases ht : t > cc
    · rw [if_pos ht, Except.ok_bind', if_pos ht]
      exact obsv_final A C _ _ (by obsv_loop)
    · rw [if_neg ht, Except.ok_bind', if_neg ht]
      exact obsv_final A C _ _ (by obsv_loop)

/-- **`obsv`**: the function the source text defines is the model's `obsvDyn`, for all sizes, entries
and horizons `t : Option ℕ`. -/
theorem generated_obsv_eq (ar ac cr cc : Nat) (A : Matrix (Fin ar) (Fin ac) K)
    (C : Matrix (Fin cr) (Fin cc) K) (t : Option Nat)
    (hA : ¬(ar = 1 ∧ ac = 0)) (hC : ¬(cr = 1 ∧ cc = 0)) (hT : ¬(cr = 0 ∧ horizon ar t = 0)) :
    Generated.sfObsv ⟨ar, ac, A⟩ ⟨cr, cc, C⟩ (t.map Nat.cast)
      = (obsvDyn ar ac cr cc A C t).map ofSigmaRows := by
  rw [generated_obsv_spec _ _ _ _ A C _ hA hC, horizonI_nat]
  unfold obsvDyn obsvSpec
  by_cases h : ac = ar ∧ cc = ar
  swap
  · rw [dif_neg h, dif_neg h]; rfl
  rw [dif_pos h, dif_pos h, if_neg (by omega)]
  simp only [Int.toNat_natCast, Nat.cast_eq_zero]
  by_cases h0 : horizon ar t = 0
  · rw [if_pos h0]
    by_cases h1 : 1 < cr
    · rw [if_pos h1, if_pos ⟨h0, by omega⟩]; rfl
    · have hb : cr = 1 := by omega
      subst hb
      rw [if_neg h1, if_neg (by simp)]
      simp only [Except.map, ofSigmaRows]
      congr 1
      refine PMat.ext' (by simp [h0]) rfl ?_
      ext i c
      have hc := i.isLt
      simp [h0] at hc
  · rw [if_neg h0, if_neg (fun hh => h0 hh.1)]
    rfl

/-! ### the headline theorems of `Props/C11.lean` about `ctrb` / `obsv`, for the generated functions -/

/-- **`ctrb_apply` transported**: on a valid call (`A` square, `B` with as many rows and at least one
column, horizon at least one) the function the source text defines returns an `n × t·m` array whose
column `j` of block `k` is column `j` of `A^k B`. -/
theorem generated_ctrb_apply (n m : Nat) (A : Matrix (Fin n) (Fin n) K) (B : Matrix (Fin n) (Fin m) K)
    (t : Option Nat) (hm : 0 < m) (ht : 0 < horizon n t) :
    ∃ M : Matrix (Fin n) (Fin (horizon n t * m)) K,
      Generated.sfCtrb ⟨n, n, A⟩ ⟨n, m, B⟩ (t.map Nat.cast) = .ok ⟨n, horizon n t * m, M⟩ ∧
      ∀ (i : Fin n) (k : Fin (horizon n t)) (j : Fin m),
        M i (finProdFinEquiv (k, j)) = (A ^ (k : ℕ) * B) i j := by
  refine ⟨(ctrb A B (horizon n t)).submatrix id finProdFinEquiv.symm, ?_, fun i k j => ?_⟩
  · rw [generated_ctrb_eq n n n m A B t (by omega) (by omega) (by omega)]
    unfold ctrbDyn
    rw [dif_pos ⟨rfl, rfl⟩]
    simp only [PySfb.submatrix_cast_cols, PySfb.submatrix_cast_rows]
    rw [if_neg (by omega)]
    rfl
  · rw [Matrix.submatrix_apply, Equiv.symm_apply_apply, id, C11.ctrb_apply]

/-- **`obsv_apply` transported**: row `i` of block `k` of the returned array is row `i` of `C A^k`. -/
theorem generated_obsv_apply (n p : Nat) (A : Matrix (Fin n) (Fin n) K) (C : Matrix (Fin p) (Fin n) K)
    (t : Option Nat) (hp : 0 < p) (ht : 0 < horizon n t) :
    ∃ M : Matrix (Fin (horizon n t * p)) (Fin n) K,
      Generated.sfObsv ⟨n, n, A⟩ ⟨p, n, C⟩ (t.map Nat.cast) = .ok ⟨horizon n t * p, n, M⟩ ∧
      ∀ (k : Fin (horizon n t)) (i : Fin p) (j : Fin n),
        M (finProdFinEquiv (k, i)) j = (C * A ^ (k : ℕ)) i j := by
  have hn : 0 < n := by
    cases t with
    | none => exact ht
    | some t => simp only [horizon] at ht; split_ifs at ht <;> omega
  refine ⟨(obsv A C (horizon n t)).submatrix finProdFinEquiv.symm id, ?_, fun k i j => ?_⟩
  · rw [generated_obsv_eq n n p n A C t (by omega) (by omega) (by omega)]
    unfold obsvDyn
    rw [dif_pos ⟨rfl, rfl⟩]
    simp only [PySfb.submatrix_cast_cols]
    rw [if_neg (by omega)]
    rfl
  · rw [Matrix.submatrix_apply, Equiv.symm_apply_apply, id, C11.obsv_apply]

/-- **duality transported**: `obsv(A, C, t)` is the transpose of `ctrb(Aᵀ, Cᵀ, t)` — of the two
functions the source text defines, including the cases where both raise. -/
theorem generated_obsv_eq_ctrb_transpose (n p : Nat) (A : Matrix (Fin n) (Fin n) K)
    (C : Matrix (Fin p) (Fin n) K) (t : Option Nat) (hp : 0 < p) (hn : 0 < n) :
    (Generated.sfObsv ⟨n, n, A⟩ ⟨p, n, C⟩ (t.map Nat.cast)).map PMat.T
      = Generated.sfCtrb ⟨n, n, Aᵀ⟩ ⟨n, p, Cᵀ⟩ (t.map Nat.cast) := by
  rw [generated_obsv_eq n n p n A C t (by omega) (by omega) (by omega),
    generated_ctrb_eq n n n p Aᵀ Cᵀ t (by omega) (by omega) (by omega)]
  unfold obsvDyn ctrbDyn
  rw [dif_pos ⟨rfl, rfl⟩, dif_pos ⟨rfl, rfl⟩]
  simp only [PySfb.submatrix_cast_cols, PySfb.submatrix_cast_rows]
  by_cases h0 : horizon n t = 0 ∧ p ≠ 1
  · rw [if_pos h0, if_pos h0]; rfl
  · rw [if_neg h0, if_neg h0]
    simp only [Except.map, ofSigmaRows, ofSigmaCols, PMat.T, C11.obsv_eq_ctrb_transpose]
    rfl

/-! ### where the hand-written model is NOT the function of the source text (found by the tie) -/

/-- deviation 1: with a `B` WITHOUT columns and horizon `0` the source returns the `n × 0` array (an
`n × 0` block fits an `n × 0` slot); the model `ctrbDyn` raises. -/
theorem generated_ctrb_noInputs (n : Nat) (A : Matrix (Fin n) (Fin n) K) (B : Matrix (Fin n) (Fin 0) K)
    (t : Option Nat) (hn : n ≠ 1) (h0 : horizon n t = 0) :
    Generated.sfCtrb ⟨n, n, A⟩ ⟨n, 0, B⟩ (t.map Nat.cast) = .ok ⟨n, 0, 0⟩ ∧
      ctrbDyn n n n 0 A B t = .error .shape := by
  constructor
  · rw [generated_ctrb_spec n n n 0 A B _ (by omega) (by omega), dif_pos ⟨rfl, rfl⟩, horizonI_nat, h0]
    simp [ctrbSpec]
  · unfold ctrbDyn
    rw [dif_pos ⟨rfl, rfl⟩, if_pos ⟨h0, by omega⟩]

/-- deviation 1 for `obsv`: a `C` without rows and horizon `0`. -/
theorem generated_obsv_noOutputs (n : Nat) (A : Matrix (Fin n) (Fin n) K) (C : Matrix (Fin 0) (Fin n) K)
    (t : Option Nat) (h0 : horizon n t = 0) :
    Generated.sfObsv ⟨n, n, A⟩ ⟨0, n, C⟩ (t.map Nat.cast) = .ok ⟨0, n, 0⟩ ∧
      obsvDyn n n 0 n A C t = .error .shape := by
  constructor
  · rw [generated_obsv_spec n n 0 n A C _ (by omega) (by omega), dif_pos ⟨rfl, rfl⟩, horizonI_nat, h0]
    simp [obsvSpec]
  · unfold obsvDyn
    rw [dif_pos ⟨rfl, rfl⟩, if_pos ⟨h0, by omega⟩]

/-- deviation 2 (outside the model's argument space: its horizon is a `Nat`): a negative horizon
raises (`np.zeros` with a negative size) as soon as `B` has a column. -/
theorem generated_ctrb_negative (n m : Nat) (A : Matrix (Fin n) (Fin n) K) (B : Matrix (Fin n) (Fin m) K)
    (t : Int) (ht : t < 0) (hm : 0 < m) :
    Generated.sfCtrb ⟨n, n, A⟩ ⟨n, m, B⟩ (some t) = .error .shape := by
  rw [generated_ctrb_spec n n n m A B _ (by omega) (by omega), dif_pos ⟨rfl, rfl⟩]
  have hh : horizonI n (some t) = t := by
    simp only [horizonI]; rw [if_neg (by omega)]
  rw [hh]
  simp [ctrbSpec, ht, hm]

/-- the same for `obsv`. -/
theorem generated_obsv_negative (n p : Nat) (A : Matrix (Fin n) (Fin n) K) (C : Matrix (Fin p) (Fin n) K)
    (t : Int) (ht : t < 0) (hp : 0 < p) (hn : ¬(p = 1 ∧ n = 0)) :
    Generated.sfObsv ⟨n, n, A⟩ ⟨p, n, C⟩ (some t) = .error .shape := by
  rw [generated_obsv_spec n n p n A C _ (by omega) hn, dif_pos ⟨rfl, rfl⟩]
  have hh : horizonI n (some t) = t := by
    simp only [horizonI]; rw [if_neg (by omega)]
  rw [hh]
  simp [obsvSpec, ht, hp]

/-- deviation 3: an `A` of shape `(1, 0)` is read by `_ssmatrix` as the empty `0 × 0` array (the model
rejects it as not square). -/
theorem generated_ctrb_emptyRow_A (A : Matrix (Fin 1) (Fin 0) K) (B : PMat K) (t : Option Int) :
    Generated.sfCtrb ⟨1, 0, A⟩ B t = Generated.sfCtrb ⟨0, 0, 0⟩ B t := by
  unfold Generated.sfCtrb
  rw [PySfb.ssmatrix_emptyRow]

/-- deviation 3 for the second argument: a `B` of shape `(1, 0)` is the `0 × 0` array, so it only
fits a system without states. -/
theorem generated_ctrb_emptyRow_B (A : PMat K) (B : Matrix (Fin 1) (Fin 0) K) (t : Option Int) :
    Generated.sfCtrb A ⟨1, 0, B⟩ t = Generated.sfCtrb A ⟨0, 0, 0⟩ t := by
  unfold Generated.sfCtrb
  simp only [PySfb.ssmatrix_emptyRow]

theorem generated_obsv_emptyRow_A (A : Matrix (Fin 1) (Fin 0) K) (C : PMat K) (t : Option Int) :
    Generated.sfObsv ⟨1, 0, A⟩ C t = Generated.sfObsv ⟨0, 0, 0⟩ C t := by
  unfold Generated.sfObsv
  rw [PySfb.ssmatrix_emptyRow]

theorem generated_obsv_emptyRow_C (A : PMat K) (C : Matrix (Fin 1) (Fin 0) K) (t : Option Int) :
    Generated.sfObsv A ⟨1, 0, C⟩ t = Generated.sfObsv A ⟨0, 0, 0⟩ t := by
  unfold Generated.sfObsv
  simp only [PySfb.ssmatrix_emptyRow]

/-! ### non-vacuity -/

/-- the pair of the `place_acker` example: `ctrb` returns `[b, A b]` … -/
example : ∃ M : Matrix (Fin 2) (Fin (2 * 1)) ℚ,
    Generated.sfCtrb ⟨2, 2, !![0, 1; -2, -3]⟩ ⟨2, 1, !![0; 1]⟩ none = .ok ⟨2, 2 * 1, M⟩ ∧
      M 1 (finProdFinEquiv ((1 : Fin 2), (0 : Fin 1))) = -3 := by
  obtain ⟨M, h1, h2⟩ := generated_ctrb_apply 2 1 (!![0, 1; -2, -3] : Matrix (Fin 2) (Fin 2) ℚ)
    !![0; 1] none (by decide) (by decide)
  exact ⟨M, h1, (h2 1 ⟨1, by decide⟩ 0).trans (by decide +kernel)⟩

/-- … a non-square `A` raises, a `B` with the wrong number of rows raises, horizon `0` with two inputs
raises, with one input it returns the `2 × 0` array. -/
example : Generated.sfCtrb (K := ℚ) ⟨2, 3, 0⟩ ⟨2, 1, 0⟩ none = .error .shape := by
  rw [generated_ctrb_spec _ _ _ _ _ _ _ (by decide) (by decide), dif_neg (by decide)]
example : Generated.sfCtrb (K := ℚ) ⟨2, 2, 1⟩ ⟨3, 1, 0⟩ none = .error .shape := by
  rw [generated_ctrb_spec _ _ _ _ _ _ _ (by decide) (by decide), dif_neg (by decide)]
example : Generated.sfCtrb (K := ℚ) ⟨2, 2, 1⟩ ⟨2, 2, 1⟩ (some 0) = .error .shape := by
  rw [generated_ctrb_spec _ _ _ _ _ _ _ (by decide) (by decide), dif_pos (by decide)]
  simp [ctrbSpec, horizonI]
example : Generated.sfCtrb (K := ℚ) ⟨2, 2, 1⟩ ⟨2, 1, 0⟩ (some 0) = .ok ⟨2, 0, 0⟩ := by
  rw [generated_ctrb_spec _ _ _ _ _ _ _ (by decide) (by decide), dif_pos (by decide)]
  simp [ctrbSpec, horizonI]
example : Generated.sfCtrb (K := ℚ) ⟨2, 2, 1⟩ ⟨2, 1, 0⟩ (some (-1)) = .error .shape :=
  generated_ctrb_negative 2 1 _ _ _ (by decide) (by decide)
example : ∃ M : Matrix (Fin (2 * 1)) (Fin 2) ℚ,
    Generated.sfObsv ⟨2, 2, !![0, 1; -2, -3]⟩ ⟨1, 2, !![1, 0]⟩ (some 5) = .ok ⟨2 * 1, 2, M⟩ ∧
      M (finProdFinEquiv ((1 : Fin 2), (0 : Fin 1))) 1 = 1 := by
  obtain ⟨M, h1, h2⟩ := generated_obsv_apply 2 1 (!![0, 1; -2, -3] : Matrix (Fin 2) (Fin 2) ℚ)
    !![1, 0] (some 5) (by decide) (by decide)
  exact ⟨M, h1, (h2 ⟨1, by decide⟩ 0 1).trans (by decide +kernel)⟩

end CtrlVerif.C11Gen
