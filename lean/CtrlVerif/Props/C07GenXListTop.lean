/-
C07, source-text tie (tag py2lean-iolist), part 3: the whole `inplist` / `outlist` groups of `interconnect()`
(`Generated.icxInList`, `Generated.icxOutList`: the wrap of a non-list, the loop over the entries, the final
`inplist, inputs = new_inplist, new_inputs`) and the model's `preList` / `preBare`.
-/
import CtrlVerif.Props.C07GenXListBare

namespace CtrlVerif.C07GenXL

open CtrlVerif.IC CtrlVerif.PyIC CtrlVerif.PyICX CtrlVerif.PyIOL CtrlVerif.C07Gen CtrlVerif.C07GenX

variable {K : Type} [Field K] [DecidableEq K]

/-- `inplist` as the loop sees it: a value that is not a list is wrapped into a one-element list. -/
def asList : Val K → List (Val K)
  | .list l => l
  | v => [v]

/-- **`generated_inList_eq`: the `inplist` group as the source text says it**: a non-list is wrapped; the
entries are processed in order by the loop body (`icxInList_loop1`: `generated_inEntry_bare`,
`generated_inEntry_list`, `generated_inEntry_single`), starting from an empty list and from `[]` (list
omitted) or the given `inputs`; the results replace `inplist` and `inputs`. -/
theorem generated_inList_eq (sigs : List SysSig) (inplist inputs : Val K) (none_ : Bool) :
    Generated.icxInList sigs inplist inputs none_ =
      ((PyIC.enumerate (asList inplist)).foldlM (Generated.icxInList_loop1 none_ inputs sigs)
        ([], if none_ then .list [] else inputs)).map fun st => (.list st.1, st.2) := by
  unfold Generated.icxInList
  cases inplist <;> simp [asList, bind_ok_eq_map]

/-- **`generated_outList_eq`**: the same for the `outlist` group. -/
theorem generated_outList_eq (sigs : List SysSig) (outlist outputs : Val K) (none_ : Bool) :
    Generated.icxOutList sigs outlist outputs none_ =
      ((PyIC.enumerate (asList outlist)).foldlM (Generated.icxOutList_loop1 none_ outputs sigs)
        ([], if none_ then .list [] else outputs)).map fun st => (.list st.1, st.2) := by
  unfold Generated.icxOutList
  cases outlist <;> simp [asList, bind_ok_eq_map]

end CtrlVerif.C07GenXL
