/-
Source-text tie of C09, part 7: `FrequencyResponseData.feedback`.
`Generated/FRDFeedback.lean` is rewritten from control/frdata.py on every run
(harness/core/py2lean_frd.py); the theorems below prove the run-time model operator `DFRD.feedback`
(`Model/FRDDyn.lean`, `FRD.feedback`: `G (I - sign H G)^-1` at every grid index, on the grid of
`other`, a singular loop matrix raises) EQUAL to the generated function: conversion of the operand,
the size check, the stack-of-matrices computation `eye(m)[np.newaxis] - sign * other @ self`,
`numpy.linalg.inv` of the stack, `self @ inv`, the `smooth` flag of `self`, the common timebase.
-/
import CtrlVerif.Generated.FRDFeedback
import CtrlVerif.Props.C09GenMul

set_option linter.unusedSimpArgs false
set_option linter.unusedSectionVars false

namespace CtrlVerif.C09Gen

open Matrix CtrlVerif

variable {K : Type} [Field K] [DecidableEq K]

/-- the part of `feedback` after the conversion. -/
theorem generated_feedbackCore (E : Env K) {n : Nat} (G H : DFRD K n) (dt dt' d : Dt) (sign : K)
    (hd : common dt dt' = .ok d) (hwf : G.WF) :
    Generated.frdFeedbackCore E (PyFRD.of G dt) (PyFRD.of H dt') sign
      = (DFRD.feedbackCore G H sign).map fun R => PyFRD.of R d := by
  obtain ⟨p, m, ⟨w, X⟩, sm⟩ := G
  obtain ⟨p', m', ⟨w', Y⟩, sm'⟩ := H
  simp only [Generated.frdFeedbackCore, DFRD.feedbackCore, PyFRD.of, PyFRD.ninputs, PyFRD.noutputs, PyFRD.frdata,
    PyFRD.omega, PyFRD.smooth]
  by_cases h : p = m' ∧ m = p'
  · obtain ⟨h1, h2⟩ := h
    subst h1 h2
    simp only [ne_eq, not_true_eq_false, or_self, if_false, and_self, dite_true, hd, bind, Except.bind,
      PArr3.toStack, PArr3.ofStack, PStk.smul_mk, PStk.matmul_mk, PMat.eye_def, PStk.ofMat_mk, PStk.sub_ofMat,
      PStk.inv_mk, FRD.castShape_rfl, FRD.feedback, FRD.loopMat]
    simp only [Matrix.smul_mul]
    by_cases hz : ∃ k, (1 - sign • (Y k * X k)).det = 0
    · simp only [hz, if_true]
      rfl
    · simp only [hz, if_false, PStk.matmul_mk, PyFRD.ctor_mk, pure, Except.pure, Except.map]
      have : ¬ (sm = true ∧ n < 2) := fun hc => by
        have := hwf hc.1
        omega
      simp only [this, if_false, PMat.inverse_eq_invQ]
  · have h' : (¬ p = m' ∨ ¬ m = p') := by
      by_contra hc
      exact h ⟨by_contra fun h1 => hc (Or.inl h1), by_contra fun h2 => hc (Or.inr h2)⟩
    simp [h, h', throw, throwThe, MonadExceptOf.throw, Except.map]

/-- **`feedback`**: the function the source text defines is the model's `DFRD.feedback`, for every
kind of operand and EVERY `sign`. -/
theorem generated_feedback_eq (E : Env K) {n : Nat} (G : DFRD K n) (dt : Dt) (x : PyOpd K) (sign : K) (d : Dt)
    (hg : GridOK G.sys.omega x) (hwf : G.WF) (hd : common dt x.dt = .ok d) :
    Generated.frdFeedback E (PyFRD.of G dt) x sign
      = (DFRD.feedback E G x.erase sign).map fun R => PyFRD.of R d := by
  have core : ∀ H : DFRD K n, DFRD.convert E G.sys.omega 1 1 x.erase = .ok H →
      Generated.frdFeedbackCore E (PyFRD.of G dt) (PyFRD.of H x.dt) sign
        = (DFRD.feedbackCore G H sign).map fun R => PyFRD.of R d :=
    fun H _ => generated_feedbackCore E G H dt x.dt d sign hd hwf
  cases x with
  | scalar c =>
    exact generated_convert_bind E G.sys.omega (.scalar c) _ _ hg
      (fun o => Generated.frdFeedbackCore E (PyFRD.of G dt) o sign) (fun H => DFRD.feedbackCore G H sign) d core
  | frd F =>
    exact generated_convert_bind E G.sys.omega (.frd F) _ _ hg
      (fun o => Generated.frdFeedbackCore E (PyFRD.of G dt) o sign) (fun H => DFRD.feedbackCore G H sign) d core
  | array p' m' D =>
    exact generated_convert_bind E G.sys.omega (.array p' m' D) _ _ hg
      (fun o => Generated.frdFeedbackCore E (PyFRD.of G dt) o sign) (fun H => DFRD.feedbackCore G H sign) d core
  | lti L =>
    exact generated_convert_bind E G.sys.omega (.lti L) _ _ hg
      (fun o => Generated.frdFeedbackCore E (PyFRD.of G dt) o sign) (fun H => DFRD.feedbackCore G H sign) d core

end CtrlVerif.C09Gen
