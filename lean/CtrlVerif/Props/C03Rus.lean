/-
C03, the option `remove_useless_states` and the configuration history that switches it on
(`StateSpace.__init__` / `_remove_useless_states`, control/statesp.py:239-279, 350-377;
`set_defaults('statesp', remove_useless_states=True)`, `use_legacy_defaults('0.8.x')`).

Property theorems only (helpers: `Lemmas/ConvertRus.lean`).  `K` is an arbitrary field
(characteristic 0 where a state-space system is converted to a transfer function: the
Faddeev–LeVerrier divisions, `Props/C03FL.lean`).

The rule of the code drops a state when (row of `A`, row of `B`) are zero or (column of `A`,
column of `C`) are zero.  `removeUseless_val`: that never changes the transfer matrix at any
`s ≠ 0` (at `s = 0` a dropped state is a pole of the original realisation).  Pairing a row test
with a column test instead (row of `A` with column of `C`) is *not* sound: the double integrator
in controller form is the counterexample at the end of the file.
-/
import CtrlVerif.Lemmas.ConvertRus
import CtrlVerif.Props.C03FL

namespace CtrlVerif.C03

open CtrlVerif CtrlVerif.Convert Matrix

variable {K : Type} [Field K] [DecidableEq K]

/-! ### `_remove_useless_states` -/

/-- which states stay: exactly those that are neither undriven (`A` row, `B` row zero) nor
without effect (`A` column, `C` column zero), in their original order. -/
theorem removeUseless_kept (G : DSS K) (k : Fin G.n) :
    k ∈ keptStates G ↔ ¬ (G.sys.RowUseless k ∨ G.sys.ColUseless k) := by
  rw [mem_keptStates, ← uselessRow_iff, ← uselessCol_iff]
  unfold useless
  cases uselessRow G k <;> cases uselessCol G k <;> simp

theorem removeUseless_sorted (G : DSS K) : (keptStates G).Pairwise (· < ·) := by
  unfold keptStates
  exact (List.pairwise_lt_finRange G.n).filter _

/-- shape and timebase are kept, the number of states does not grow. -/
theorem removeUseless_shape (G : DSS K) :
    (removeUseless G).p = G.p ∧ (removeUseless G).m = G.m ∧ (removeUseless G).dt = G.dt ∧
      (removeUseless G).n ≤ G.n := by
  refine ⟨rfl, rfl, rfl, ?_⟩
  have h := List.length_filter_le (fun k => !useless G k) (List.finRange G.n)
  simpa [removeUseless, keptStates] using h

/-- a system without useless states is returned as it is (same number of states). -/
theorem removeUseless_none (G : DSS K) (h : ∀ k, ¬ (G.sys.RowUseless k ∨ G.sys.ColUseless k)) :
    keptStates G = List.finRange G.n ∧ (removeUseless G).n = G.n := by
  have hk : keptStates G = List.finRange G.n := by
    unfold keptStates
    rw [List.filter_eq_self]
    intro k _
    have := (removeUseless_kept G k).mpr (h k)
    rw [mem_keptStates] at this
    simp [this]
  refine ⟨hk, ?_⟩
  show (keptStates G).length = G.n
  rw [hk, List.length_finRange]

/-- **`_remove_useless_states` preserves the map**: at every `s ≠ 0` the values of the system
before and after are the same (both directions: nothing is lost, nothing is added). -/
theorem removeUseless_val (G : DSS K) (s : K) (hs : s ≠ 0) (Y : Nat → Nat → K) :
    SSVal (removeUseless G) s Y ↔ SSVal G s Y := by
  unfold SSVal
  constructor
  · intro h
    exact SS.Resp.of_restrict G.sys (keptStates G).get (keptStates_get_injective G)
      (not_kept_useless G) s hs _ h
  · intro h
    exact SS.Resp.restrict G.sys (keptStates G).get (keptStates_get_injective G)
      (not_kept_useless G) s hs _ h

/-- a dropped state is an eigenvalue `0` of the original state matrix: outside the spectrum of
`A` the hypothesis `s ≠ 0` costs nothing unless no state is dropped. -/
theorem useless_zero_eigenvalue (G : DSS K) (k : Fin G.n)
    (hk : G.sys.RowUseless k ∨ G.sys.ColUseless k) : G.sys.A.det = 0 := by
  rcases hk with h | h
  · exact Matrix.det_eq_zero_of_row_eq_zero k h.1
  · exact Matrix.det_eq_zero_of_column_eq_zero k h.1

/-- the constructor's final processing: shape, timebase and (off `s = 0`) values are those of the
arguments, whatever the keyword / the configured default says. -/
theorem construct_val (flag : Bool) (G : DSS K) :
    (construct flag G).p = G.p ∧ (construct flag G).m = G.m ∧ (construct flag G).dt = G.dt ∧
      (construct flag G).n ≤ G.n ∧
      ∀ s Y, s ≠ 0 → (SSVal (construct flag G) s Y ↔ SSVal G s Y) := by
  cases flag
  · exact ⟨rfl, rfl, rfl, le_refl _, fun _ _ _ => Iff.rfl⟩
  · obtain ⟨h1, h2, h3, h4⟩ := removeUseless_shape G
    exact ⟨h1, h2, h3, h4, fun s Y hs => removeUseless_val G s hs Y⟩

/-- with the option off the constructor does nothing. -/
theorem construct_off (G : DSS K) : construct false G = G := rfl

/-- non-vacuity: `A = [[0,1],[0,0]], B = 0, C = [1 0]` — state 1 is undriven and is dropped,
state 0 stays (its column of `A` is zero but the output reads it). -/
example : (keptStates (⟨2, 1, 1, ⟨!![0, 1; 0, 0], !![0; 0], !![1, 0], !![2]⟩, .cont⟩ : DSS ℚ)).map
    (·.val) = [0] := by decide +kernel

/-- non-vacuity: the controller form of `1/s²` (`A = [[0,0],[1,0]], B = e₀, C = e₁ᵀ`) has a zero
row of `A` and a zero column of `A`, and loses no state. -/
example : (keptStates (⟨2, 1, 1, ⟨!![0, 0; 1, 0], !![1; 0], !![0, 1], !![0]⟩, .cont⟩ : DSS ℚ)).map
    (·.val) = [0, 1] := by decide +kernel

/-! ### conversions under the option -/

/-- **`_convert_to_statespace` under a configured default**: shape and timebase are kept and every
value of the transfer function at `s ≠ 0` is a value of the result. -/
theorem toSSR_val (g : Bool) (G : DTF K) (S : DSS K) (h : toSSR g G = .ok S) :
    S.p = G.p ∧ S.m = G.m ∧ S.dt = G.dt ∧ ∀ s Y, s ≠ 0 → TFVal G s Y → SSVal S s Y := by
  unfold toSSR at h
  cases hS : toSS G with
  | error e => simp [hS, bind, Except.bind] at h
  | ok S0 =>
    simp only [hS, bind, Except.bind, pure, Except.pure, Except.ok.injEq] at h
    subst h
    obtain ⟨e1, e2, e3, hv⟩ := toSS_val G S0 hS
    obtain ⟨c1, c2, c3, _, cv⟩ := construct_val g S0
    exact ⟨c1.trans e1, c2.trans e2, c3.trans e3, fun s Y hs hY => (cv s Y hs).mpr (hv s Y hY)⟩

/-- a non-proper transfer function still raises, whatever the option says. -/
theorem toSSR_nonproper_raises (g : Bool) (G : DTF K)
    (h : ∃ i j, (G.sys.e i j).num.length > (G.sys.e i j).den.length) :
    toSSR g G = .error .nonProper ∨ toSSR g G = .error .notImplemented := by
  unfold toSSR
  rcases nonproper_raises G h with h' | h' <;> simp [h', bind, Except.bind]

/-- what a step needs at `s`: `s` is not an eigenvalue of the state matrix of the system that is
handed to `_convert_to_transfer_function` (for `ss2tf(A, B, C, D, dt)` that is the system the
constructor returns). -/
def StepEigR (g : Bool) : StepR → Rep K → K → Prop
  | .tf _, .ss G, s => s ∉ spectrum K G.sys.A
  | .ss2tf _, .ss G, s => s ∉ spectrum K G.sys.A
  | .tfdata, .ss G, s => s ∉ spectrum K G.sys.A
  | .ss2tf4, .ss G, s => s ∉ spectrum K (construct g G).sys.A
  | _, _, _ => True

/-- **one conversion under any configured default / keyword**: shape and timebase are kept and
values at `s ≠ 0` are carried over. -/
theorem stepR_val [CharZero K] (g : Bool) (st : StepR) (r r' : Rep K)
    (h : stepRepR g st r = .ok r') :
    r'.p = r.p ∧ r'.m = r.m ∧ r'.dt = r.dt ∧
      ∀ s Y, s ≠ 0 → StepEigR g st r s → Rep.Val r s Y → Rep.Val r' s Y := by
  have ss_case : ∀ (G : DSS K), (do let T ← toTF G; pure (Rep.tf T)) = Except.ok r' →
      r'.p = G.p ∧ r'.m = G.m ∧ r'.dt = G.dt ∧
        ∀ s Y, s ∉ spectrum K G.sys.A → SSVal G s Y → Rep.Val r' s Y := by
    intro G h
    obtain ⟨T, hT, e1, e2, e3, hv⟩ := toTF_correct G
    simp only [hT, bind, Except.bind, pure, Except.pure, Except.ok.injEq] at h
    subst h
    exact ⟨e1, e2, e3, fun s Y hs hY => hv s Y hs hY⟩
  have tf_case : ∀ (fl : Bool) (G : DTF K),
      (do let S ← toSSR g G; pure (Rep.ss (construct fl S))) = Except.ok r' →
      r'.p = G.p ∧ r'.m = G.m ∧ r'.dt = G.dt ∧ ∀ s Y, s ≠ 0 → TFVal G s Y → Rep.Val r' s Y := by
    intro fl G h
    cases hS : toSSR g G with
    | error e => simp [hS, bind, Except.bind] at h
    | ok S =>
      simp only [hS, bind, Except.bind, pure, Except.pure, Except.ok.injEq] at h
      subst h
      obtain ⟨e1, e2, e3, hv⟩ := toSSR_val g G S hS
      obtain ⟨c1, c2, c3, _, cv⟩ := construct_val fl S
      exact ⟨c1.trans e1, c2.trans e2, c3.trans e3,
        fun s Y hs hY => (cv s Y hs).mpr (hv s Y hs hY)⟩
  have copy_case : ∀ (fl : Bool) (G : DSS K),
      (pure (Rep.ss (construct fl G)) : Except Err (Rep K)) = Except.ok r' →
      r'.p = G.p ∧ r'.m = G.m ∧ r'.dt = G.dt ∧ ∀ s Y, s ≠ 0 → SSVal G s Y → Rep.Val r' s Y := by
    intro fl G h
    simp only [pure, Except.pure, Except.ok.injEq] at h
    subst h
    obtain ⟨c1, c2, c3, _, cv⟩ := construct_val fl G
    exact ⟨c1, c2, c3, fun s Y hs hY => (cv s Y hs).mpr hY⟩
  have id_case : ∀ (G : DTF K), (pure (Rep.tf G) : Except Err (Rep K)) = Except.ok r' →
      r'.p = G.p ∧ r'.m = G.m ∧ r'.dt = G.dt ∧ ∀ s Y, TFVal G s Y → Rep.Val r' s Y := by
    intro G h
    simp only [pure, Except.pure, Except.ok.injEq] at h
    subst h
    exact ⟨rfl, rfl, rfl, fun s Y hY => hY⟩
  cases st with
  | tf kw =>
    cases r with
    | ss G =>
      obtain ⟨e1, e2, e3, hv⟩ := ss_case G h
      exact ⟨e1, e2, e3, fun s Y _ hok hY => hv s Y hok hY⟩
    | tf G =>
      obtain ⟨e1, e2, e3, hv⟩ := id_case G h
      exact ⟨e1, e2, e3, fun s Y _ _ hY => hv s Y hY⟩
  | ss2tf kw =>
    cases r with
    | ss G =>
      obtain ⟨e1, e2, e3, hv⟩ := ss_case G h
      exact ⟨e1, e2, e3, fun s Y _ hok hY => hv s Y hok hY⟩
    | tf G => cases h
  | ss kw rus =>
    cases r with
    | ss G =>
      obtain ⟨e1, e2, e3, hv⟩ := copy_case (rus.getD g) G h
      exact ⟨e1, e2, e3, fun s Y hs _ hY => hv s Y hs hY⟩
    | tf G =>
      obtain ⟨e1, e2, e3, hv⟩ := tf_case (rus.getD g) G h
      exact ⟨e1, e2, e3, fun s Y hs _ hY => hv s Y hs hY⟩
  | tfdata =>
    cases r with
    | ss G =>
      obtain ⟨e1, e2, e3, hv⟩ := ss_case G h
      exact ⟨e1, e2, e3, fun s Y _ hok hY => hv s Y hok hY⟩
    | tf G =>
      obtain ⟨e1, e2, e3, hv⟩ := id_case G h
      exact ⟨e1, e2, e3, fun s Y _ _ hY => hv s Y hY⟩
  | ss2tf4 =>
    cases r with
    | ss G =>
      obtain ⟨e1, e2, e3, hv⟩ := ss_case (construct g G) h
      obtain ⟨c1, c2, c3, _, cv⟩ := construct_val g G
      exact ⟨e1.trans c1, e2.trans c2, e3.trans c3,
        fun s Y hs hok hY => hv s Y hok ((cv s Y hs).mpr hY)⟩
    | tf G =>
      obtain ⟨e1, e2, e3, hv⟩ := id_case G h
      exact ⟨e1, e2, e3, fun s Y _ _ hY => hv s Y hY⟩
  | ssdata =>
    cases r with
    | ss G =>
      obtain ⟨e1, e2, e3, hv⟩ := copy_case g G h
      exact ⟨e1, e2, e3, fun s Y hs _ hY => hv s Y hs hY⟩
    | tf G =>
      obtain ⟨e1, e2, e3, hv⟩ := tf_case g G h
      exact ⟨e1, e2, e3, fun s Y hs _ hY => hv s Y hs hY⟩

/-- the conditions of a whole session at `s`. -/
def SessionEig : List Item → Bool → Obj K → K → Prop
  | [], _, _, _ => True
  | .cfg e :: rest, g, x, s => SessionEig rest (e.apply g) x s
  | .step st :: rest, g, x, s =>
    StepEigR g st x.rep s ∧ ∀ y, applyStepR g st x = .ok y → SessionEig rest g y s

/-- **sessions of any length and any configuration history**: conversions interleaved with
`set_defaults('statesp', remove_useless_states=…)`, `use_legacy_defaults`, `reset_defaults`, with
or without the keyword on the individual calls — whenever the session returns, the final system has
the shape and the timebase of the first one, and every value of the first system at `s ≠ 0` is a
value of the final system.  By induction on the session. -/
theorem session_val [CharZero K] (items : List Item) (g g' : Bool) (x y : Obj K)
    (h : runSession items g x = .ok (y, g')) :
    y.rep.p = x.rep.p ∧ y.rep.m = x.rep.m ∧ y.rep.dt = x.rep.dt ∧
      ∀ s Y, s ≠ 0 → SessionEig items g x s → Rep.Val x.rep s Y → Rep.Val y.rep s Y := by
  induction items generalizing x g with
  | nil =>
    simp only [runSession, pure, Except.pure, Except.ok.injEq, Prod.mk.injEq] at h
    obtain ⟨rfl, rfl⟩ := h
    exact ⟨rfl, rfl, rfl, fun s Y _ _ hY => hY⟩
  | cons it rest ih =>
    cases it with
    | cfg e =>
      simp only [runSession] at h
      obtain ⟨e1, e2, e3, hv⟩ := ih (e.apply g) x h
      exact ⟨e1, e2, e3, fun s Y hs hok hY => hv s Y hs hok hY⟩
    | step st =>
      simp only [runSession] at h
      cases hz : applyStepR g st x with
      | error e => simp [hz, bind, Except.bind] at h
      | ok z =>
        simp only [hz, bind, Except.bind] at h
        obtain ⟨e1, e2, e3, hv⟩ := ih g z h
        have hz' := hz
        unfold applyStepR at hz'
        cases hr : stepRepR g st x.rep with
        | error e => simp [hr, bind, Except.bind] at hz'
        | ok r =>
          simp only [hr, bind, Except.bind, pure, Except.pure, Except.ok.injEq] at hz'
          obtain ⟨f1, f2, f3, hw⟩ := stepR_val g st x.rep r hr
          have hzr : z.rep = r := by rw [← hz']
          rw [hzr] at e1 e2 e3 hv
          refine ⟨e1.trans f1, e2.trans f2, e3.trans f3, fun s Y hs hok hY => ?_⟩
          obtain ⟨hok1, hok2⟩ := hok
          exact hv s Y hs (hok2 z hz) (hw s Y hs hok1 hY)

/-- the configured default at the end of a session is the fold of its events. -/
theorem session_cfg (items : List Item) (g g' : Bool) (x y : Obj K)
    (h : runSession items g x = .ok (y, g')) :
    g' = items.foldl (fun b it => match it with | .cfg e => e.apply b | .step _ => b) g := by
  induction items generalizing x g with
  | nil =>
    simp only [runSession, pure, Except.pure, Except.ok.injEq, Prod.mk.injEq] at h
    exact h.2.symm
  | cons it rest ih =>
    cases it with
    | cfg e => simp only [runSession] at h; exact ih _ x h
    | step st =>
      simp only [runSession] at h
      cases hz : applyStepR g st x with
      | error e => simp [hz, bind, Except.bind] at h
      | ok z =>
        simp only [hz, bind, Except.bind] at h
        exact ih g z h

/-- names and labels do not depend on the option or on the configured default: they are those
of the same step of `Model/Convert.lean` (`C03.step_names`, `labels_preserved`). -/
theorem stepR_names (g : Bool) (st : StepR) (x y : Obj K) (h : applyStepR g st x = .ok y) :
    y.names = stepMeta st.base x.rep x.names := by
  unfold applyStepR at h
  cases hr : stepRepR g st x.rep with
  | error e => simp [hr, bind, Except.bind] at h
  | ok r =>
    simp only [hr, bind, Except.bind, pure, Except.pure, Except.ok.injEq] at h
    rw [← h]

/-- **the labels survive every session without label keywords.** -/
theorem session_labels (items : List Item) (g g' : Bool) (x y : Obj K)
    (h : runSession items g x = .ok (y, g'))
    (hk : ∀ st, Item.step st ∈ items → st.base.keepsLabels = true) :
    y.names.inputs = x.names.inputs ∧ y.names.outputs = x.names.outputs := by
  induction items generalizing x g with
  | nil =>
    simp only [runSession, pure, Except.pure, Except.ok.injEq, Prod.mk.injEq] at h
    obtain ⟨rfl, _⟩ := h
    exact ⟨rfl, rfl⟩
  | cons it rest ih =>
    cases it with
    | cfg e =>
      simp only [runSession] at h
      exact ih _ x h (fun st hs => hk st (List.mem_cons_of_mem _ hs))
    | step st =>
      simp only [runSession] at h
      cases hz : applyStepR g st x with
      | error e => simp [hz, bind, Except.bind] at h
      | ok z =>
        simp only [hz, bind, Except.bind] at h
        obtain ⟨e1, e2⟩ := ih g z h (fun s hs => hk s (List.mem_cons_of_mem _ hs))
        have hn := stepR_names g st x z hz
        have hl := step_labels_kept st.base x.rep x.names (hk st List.mem_cons_self)
        rw [← hn] at hl
        exact ⟨e1.trans hl.1, e2.trans hl.2⟩

/-! ### the option off: the model of `Model/Convert.lean` -/

/-- a step of `Model/Convert.lean` as a step without keyword. -/
def liftStep : Step → StepR
  | .tf kw => .tf kw
  | .ss2tf kw => .ss2tf kw
  | .ss kw => .ss kw none
  | .tfdata => .tfdata
  | .ssdata => .ssdata

/-- with the default configuration and no keyword every step is the step of `Model/Convert.lean`
(so `C03.step_val`, `roundtrip`, … speak about the functions the driver executes). -/
theorem stepRepR_off (st : Step) (r : Rep K) : stepRepR false (liftStep st) r = stepRep st r := by
  cases st with
  | tf kw => cases r <;> rfl
  | ss2tf kw => cases r <;> rfl
  | tfdata => cases r <;> rfl
  | ss kw =>
    cases r with
    | ss G => rfl
    | tf G =>
      simp only [liftStep, stepRepR, stepRep, toSSR, bind, Except.bind, pure, Except.pure]
      cases toSS G <;> rfl
  | ssdata =>
    cases r with
    | ss G => rfl
    | tf G =>
      simp only [liftStep, stepRepR, stepRep, toSSR, bind, Except.bind, pure, Except.pure]
      cases toSS G <;> rfl

theorem appendNR_off (x : DSS K) (k : Nat) : appendNR false x k = DSS.appendN x k := by
  induction k with
  | zero => rfl
  | succ k ih =>
    cases k with
    | zero => rfl
    | succ k =>
      simp only [appendNR, DSS.appendN, ih, construct, Bool.false_eq_true, if_false, bind,
        Except.bind, pure, Except.pure]
      cases DSS.appendN x (k + 1) with
      | error e => rfl
      | ok a => simp only []; cases a.append x <;> rfl

theorem onesTimesR_off (q r : Nat) (x : DSS K) : onesTimesR false q r x = DSS.onesTimes q r x := by
  simp only [onesTimesR, rmulArrayR, DSS.onesTimes, DSS.rmulArray, appendNR_off, construct,
    Bool.false_eq_true, if_false]

theorem addSSR_off (G H : DSS K) : addSSR false G H = G.addSS H := by
  simp only [addSSR, DSS.addSS, onesTimesR_off, construct, Bool.false_eq_true, if_false]

theorem mulSSR_off (G H : DSS K) : mulSSR false G H = G.mulSS H := by
  simp only [mulSSR, DSS.mulSS, appendNR_off, construct, Bool.false_eq_true, if_false]

/-- with the default configuration the mixed-type operators are those of `Model/Convert.lean`. -/
theorem mixedRepR_off (op : MOp) (x y : Rep K) : mixedRepR false op x y = mixedRep op x y := by
  cases op <;> cases x <;> cases y <;>
    simp only [mixedRepR, mixedRep, addSSR_off, mulSSR_off, negR, toSSR, construct,
      Bool.false_eq_true, if_false, bind_pure]

/-! ### mixed-type operators under the option -/

/-- without SISO promotion `StateSpace.__add__` is the old operator followed by the constructor's
final processing. -/
theorem addSSR_eq (g : Bool) (G H : DSS K) (hs : G.isSiso = H.isSiso) :
    addSSR g G H = (do let R ← G.addSS H; pure (construct g R)) := by
  have c1 : (G.isSiso && !H.isSiso) = false := by rw [hs]; cases H.isSiso <;> rfl
  have c2 : (!G.isSiso && H.isSiso) = false := by rw [hs]; cases H.isSiso <;> rfl
  simp only [addSSR, DSS.addSS, c1, c2, Bool.false_eq_true, if_false, pure, Except.pure, bind,
    Except.bind]
  split
  · cases common G.dt H.dt <;> rfl
  · rfl

theorem mulSSR_eq (g : Bool) (G H : DSS K) (hs : G.isSiso = H.isSiso) :
    mulSSR g G H = (do let R ← G.mulSS H; pure (construct g R)) := by
  have c1 : (G.isSiso && !H.isSiso) = false := by rw [hs]; cases H.isSiso <;> rfl
  have c2 : (!G.isSiso && H.isSiso) = false := by rw [hs]; cases H.isSiso <;> rfl
  simp only [mulSSR, DSS.mulSS, c1, c2, Bool.false_eq_true, if_false, pure, Except.pure, bind,
    Except.bind]
  split
  · cases common G.dt H.dt <;> rfl
  · rfl

/-- `StateSpace.__add__` under any configured default (no SISO promotion): values at `s ≠ 0` add. -/
theorem addSSR_val (g : Bool) (G H R : DSS K) (h : addSSR g G H = .ok R) (hs : G.isSiso = H.isSiso)
    (s : K) (hs0 : s ≠ 0) (Y₁ Y₂ : Nat → Nat → K) (h₁ : SSVal G s Y₁) (h₂ : SSVal H s Y₂) :
    R.p = G.p ∧ R.m = G.m ∧ SSVal R s (fun i j => Y₁ i j + Y₂ i j) := by
  rw [addSSR_eq g G H hs] at h
  cases hR : G.addSS H with
  | error e => simp [hR, bind, Except.bind] at h
  | ok R0 =>
    simp only [hR, bind, Except.bind, pure, Except.pure, Except.ok.injEq] at h
    subst h
    obtain ⟨f1, f2, hv⟩ := addSS_val G H R0 hR hs s Y₁ Y₂ h₁ h₂
    obtain ⟨c1, c2, _, _, cv⟩ := construct_val g R0
    exact ⟨c1.trans f1, c2.trans f2, (cv s _ hs0).mpr hv⟩

/-- `StateSpace.__mul__` under any configured default (no SISO promotion): values multiply. -/
theorem mulSSR_val (g : Bool) (G H R : DSS K) (h : mulSSR g G H = .ok R) (hs : G.isSiso = H.isSiso)
    (s : K) (hs0 : s ≠ 0) (Y₁ Y₂ : Nat → Nat → K) (h₁ : SSVal G s Y₁) (h₂ : SSVal H s Y₂) :
    R.p = G.p ∧ R.m = H.m ∧ SSVal R s (fun i j => ∑ k : Fin G.m, Y₁ i k * Y₂ k j) := by
  rw [mulSSR_eq g G H hs] at h
  cases hR : G.mulSS H with
  | error e => simp [hR, bind, Except.bind] at h
  | ok R0 =>
    simp only [hR, bind, Except.bind, pure, Except.pure, Except.ok.injEq] at h
    subst h
    obtain ⟨f1, f2, hv⟩ := mulSS_val G H R0 hR hs s Y₁ Y₂ h₁ h₂
    obtain ⟨c1, c2, _, _, cv⟩ := construct_val g R0
    exact ⟨c1.trans f1, c2.trans f2, (cv s _ hs0).mpr hv⟩

/-- **same map as converting the operands first, under any configured default**:
`StateSpace + TransferFunction` (equal shapes) is a state-space system whose value at `s ≠ 0` is
the sum of the operands' values. -/
theorem mixedR_add_val (g : Bool) (G : DSS K) (H : DTF K) (r : Rep K)
    (h : mixedRepR g .add (.ss G) (.tf H) = .ok r) (hp : G.p = H.p) (hm : G.m = H.m)
    (s : K) (hs0 : s ≠ 0) (Y₁ Y₂ : Nat → Nat → K) (h₁ : SSVal G s Y₁) (h₂ : TFVal H s Y₂) :
    r.isSS = true ∧ r.p = G.p ∧ r.m = G.m ∧ Rep.Val r s (fun i j => Y₁ i j + Y₂ i j) := by
  simp only [mixedRepR, bind, Except.bind, pure, Except.pure] at h
  split at h
  · cases h
  · rename_i H' hH'
    split at h
    · cases h
    · rename_i R hR
      cases h
      obtain ⟨e1, e2, _, hv⟩ := toSSR_val g H H' hH'
      have hs : G.isSiso = H'.isSiso := by simp [DSS.isSiso, e1, e2, hp, hm]
      obtain ⟨f1, f2, hval⟩ := addSSR_val g G H' R hR hs s hs0 Y₁ Y₂ h₁ (hv s Y₂ hs0 h₂)
      exact ⟨rfl, f1, f2, hval⟩

/-- … and `StateSpace * TransferFunction` (both SISO or both MIMO): the matrix product. -/
theorem mixedR_mul_val (g : Bool) (G : DSS K) (H : DTF K) (r : Rep K)
    (h : mixedRepR g .mul (.ss G) (.tf H) = .ok r)
    (hs : G.isSiso = (H.p == 1 && H.m == 1))
    (s : K) (hs0 : s ≠ 0) (Y₁ Y₂ : Nat → Nat → K) (h₁ : SSVal G s Y₁) (h₂ : TFVal H s Y₂) :
    r.isSS = true ∧ r.p = G.p ∧ r.m = H.m ∧
      Rep.Val r s (fun i j => ∑ k : Fin G.m, Y₁ i k * Y₂ k j) := by
  simp only [mixedRepR, bind, Except.bind, pure, Except.pure] at h
  split at h
  · cases h
  · rename_i H' hH'
    split at h
    · cases h
    · rename_i R hR
      cases h
      obtain ⟨e1, e2, _, hv⟩ := toSSR_val g H H' hH'
      have hs' : G.isSiso = H'.isSiso := by rw [hs]; simp [DSS.isSiso, e1, e2]
      obtain ⟨f1, f2, hval⟩ := mulSSR_val g G H' R hR hs' s hs0 Y₁ Y₂ h₁ (hv s Y₂ hs0 h₂)
      exact ⟨rfl, f1, f2.trans e2, hval⟩

/-- the class of the result does not depend on the configured default. -/
theorem promoteR_class (g : Bool) (op : MOp) (x y r : Rep K) (h : mixedRepR g op x y = .ok r) :
    r.isSS = promoted x y := by
  cases op <;> cases x <;> cases y <;>
    simp only [mixedRepR, bind, Except.bind, pure, Except.pure] at h <;>
    (repeat' (split at h)) <;> first | cases h; rfl | cases h

/-! ### the pairing of the tests matters -/

/-- the double integrator `1/s²` as SciPy's `tf2ss` realises it. -/
def dblIntSS : SS (Fin 2) (Fin 1) (Fin 1) ℚ := ⟨!![0, 0; 1, 0], !![1; 0], !![0, 1], !![0]⟩

def dblInt : DSS ℚ := ⟨2, 1, 1, dblIntSS, .cont⟩

/-- `tf2ss` of `1/s²` under `set_defaults('statesp', remove_useless_states=True)`: the session
returns a state-space system that still has both states (`session_val` is not vacuous on a
session with a configuration event), and `_remove_useless_states` keeps `dblInt` as it is. -/
example : (match runSession [.cfg (.setRus true), .step (.ss {} none)]
      false (⟨.tf ⟨1, 1, TFM.siso ⟨[1], [1, 0, 0]⟩, .cont⟩, Meta.default 1 1⟩ : Obj ℚ) with
    | .ok (y, g') => decide (g' = true ∧ y.rep.isSS = true ∧ y.rep.p = 1) &&
        (match y.rep with | .ss S => decide (S.n = 2) | .tf _ => false)
    | .error _ => false) = true := by decide +kernel

example : (keptStates dblInt).map (·.val) = [0, 1] := by decide +kernel

/-- **pairing a row test on `A` with a column test on `C` is unsound**: state `0` of `dblInt` has
a zero row of `A` and a zero column of `C`, yet the system restricted to state `1` alone has the
value `0` at `s = 2`, while `dblInt` has the value `1/4` there (and not `0`). -/
example : (∀ j, dblIntSS.A 0 j = 0) ∧ (∀ i, dblIntSS.C i 0 = 0) ∧
    (dblIntSS.restrict (fun _ : Fin 1 => (1 : Fin 2))).Resp 2 (fun _ _ => 0) ∧
    dblIntSS.Resp 2 (fun _ _ => 1 / 4) ∧ ¬ dblIntSS.Resp 2 (fun _ _ => 0) := by
  refine ⟨by decide, by decide, ⟨(0 : Matrix (Fin 1) (Fin 1) ℚ), by decide +kernel, ?_⟩,
    ⟨!![1 / 2; 1 / 4], by decide +kernel, ?_⟩, ?_⟩
  · ext i j
    simp [SS.restrict, dblIntSS]
  · ext i j
    fin_cases i; fin_cases j
    rw [Matrix.add_apply, Matrix.mul_apply, Fin.sum_univ_two]
    simp [dblIntSS]
  · rintro ⟨X, hX, hY⟩
    have h00 := congrFun (congrFun hX 0) 0
    have h10 := congrFun (congrFun hX 1) 0
    have hy := congrFun (congrFun hY 0) 0
    rw [SS.resolvent_apply, Fin.sum_univ_two] at h00 h10
    rw [Matrix.add_apply, Matrix.mul_apply, Fin.sum_univ_two] at hy
    simp [dblIntSS] at h00 h10 hy
    linarith

end CtrlVerif.C03
