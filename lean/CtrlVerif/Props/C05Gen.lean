/-
Source-text tie for C05 (DESIGN §2.5): `Generated/CommonTimebase.lean` is rewritten on every run
from the text of `common_timebase` in /repo/control/iosys.py by `harness/core/py2lean.py`; the
hand-written model `common` (the one every C05 theorem is about) is proved equal to it for all
pairs of timebases.  A semantic edit of the source breaks this theorem.
-/
import CtrlVerif.Model.Dt
import CtrlVerif.Model.PyDt
import CtrlVerif.Generated.CommonTimebase
import CtrlVerif.Generated.ProcessDtKeyword
import Mathlib.Tactic.NormNum

namespace CtrlVerif.C05Gen

/-- the function the source text defines is the model, on all timebases (all sampling times). -/
theorem generated_common_eq (d1 d2 : Dt) : Generated.commonTimebase d1 d2 = common d1 d2 := by
  cases d1 with
  | none => cases d2 <;> simp [Generated.commonTimebase, common, PyDt.isNone]
  | cont =>
    cases d2 <;>
      simp [Generated.commonTimebase, common, PyDt.isNone, PyDt.isTrue, PyDt.gtZero, PyDt.isclose,
        PyDt.num, Dt.num] <;> congr
  | dtrue =>
    cases d2 with
    | disc h =>
      by_cases hh : 0 < h <;>
        simp [Generated.commonTimebase, common, PyDt.isNone, PyDt.isTrue, PyDt.gtZero, PyDt.num, hh]
    | _ => simp [Generated.commonTimebase, common, PyDt.isNone, PyDt.isTrue, PyDt.gtZero, PyDt.num]
  | disc h =>
    cases d2 with
    | dtrue =>
      by_cases hh : 0 < h <;>
        simp [Generated.commonTimebase, common, PyDt.isNone, PyDt.isTrue, PyDt.gtZero, PyDt.num, hh]
    | _ =>
      simp [Generated.commonTimebase, common, PyDt.isNone, PyDt.isTrue, PyDt.gtZero, PyDt.isclose,
        PyDt.num, Dt.num] <;> congr

/-- non-vacuity: the generated function distinguishes the cases. -/
example : Generated.commonTimebase .dtrue (.disc (1/10)) = .ok (.disc (1/10)) := by
  norm_num [Generated.commonTimebase, PyDt.isNone, PyDt.isTrue, PyDt.gtZero, PyDt.num]
example : Generated.commonTimebase .cont (.disc (1/10)) = .error .timebase := by
  norm_num [Generated.commonTimebase, PyDt.isNone, PyDt.isTrue, PyDt.isclose, PyDt.num, close]

/-- `_process_dt_keyword` as written in the source, followed by the reading of an accepted value
as a timebase, is the model `processDt` (the one `processDt_*`, `ctor_*`, `factory_given` and the
whole constructor table of `Props/C05.lean` are about) … -/
theorem generated_processDt_eq (kw dflt : Option DtArg) (static : Bool) (cfg : DtArg) :
    (Generated.processDtKeyword kw dflt static cfg).bind DtArg.check
      = processDt kw dflt static cfg := by
  rcases kw with _ | (_ | _ | a | _) <;> rcases dflt with _ | (_ | _ | b | _) <;>
    rcases cfg with (_ | _ | c | _) <;> cases static <;>
    (try by_cases ha : a < 0) <;> (try by_cases hb : b < 0) <;> (try by_cases hc : c < 0) <;>
    simp [Generated.processDtKeyword, processDt, PyDtArg.pop, PyDtArg.isNone, PyDtArg.isNumber,
      PyDtArg.ltZero, DtArg.check, bind, Except.bind, pure, Except.pure, throw, throwThe,
      MonadExceptOf.throw, *]

/-- … and it accepts exactly the values the model accepts (so the validation is neither weaker
nor stronger than the model's). -/
theorem generated_processDt_accepts (kw dflt : Option DtArg) (static : Bool) (cfg : DtArg) :
    (Generated.processDtKeyword kw dflt static cfg).isOk
      = (processDt kw dflt static cfg).isOk := by
  rcases kw with _ | (_ | _ | a | _) <;> rcases dflt with _ | (_ | _ | b | _) <;>
    rcases cfg with (_ | _ | c | _) <;> cases static <;>
    (try by_cases ha : a < 0) <;> (try by_cases hb : b < 0) <;> (try by_cases hc : c < 0) <;>
    (try by_cases ha0 : a = 0) <;> (try by_cases hb0 : b = 0) <;> (try by_cases hc0 : c = 0) <;>
    simp [Generated.processDtKeyword, processDt, PyDtArg.pop, PyDtArg.isNone, PyDtArg.isNumber,
      PyDtArg.ltZero, DtArg.check, bind, Except.bind, pure, Except.pure, throw, throwThe,
      MonadExceptOf.throw, Except.isOk, Except.toBool, *]

end CtrlVerif.C05Gen
