/-
Source-text tie of C08, part 1c: the checks of the evaluation times in the discrete-time branch of
`input_output_response` (control/nlsys.py).  `Generated/NLDiscGrid.lean` is rewritten from the source
text on every run; the model's statements (`PyNL.gridCheck`, the text of `response`) are proved EQUAL.
-/
import CtrlVerif.Generated.NLDiscGrid
import CtrlVerif.Lemmas.PyNL

namespace CtrlVerif.C08Gen

open CtrlVerif PyNL

/-- the body shared by the two kinds of timebase. -/
theorem generated_grid_core (a b : Q) (rest : List Q) :
    PyNL.vsub (PyNL.sliceFrom (a :: b :: rest) (1 : Int)) (PyNL.sliceTo (a :: b :: rest) (-1 : Int))
      = .ok (List.zipWith (· - ·) (b :: rest) (a :: b :: rest)) := by
  have h1 : PyNL.sliceFrom (a :: b :: rest) (1 : Int) = b :: rest := by
    simp [PyNL.sliceFrom, PyNL.sliceBound]
  have h2 : PyNL.sliceTo (a :: b :: rest) (-1 : Int) = (a :: b :: rest).take (b :: rest).length := by
    simp only [PyNL.sliceTo, PyNL.sliceBound, List.length_cons]
    congr 1
    have : ((-1 : Int) < 0) := by omega
    simp only [this, if_true]
    omega
  rw [h1, h2, PyNL.vsub]
  have h3 : (b :: rest).length = ((a :: b :: rest).take (b :: rest).length).length := by
    simp
  rw [if_pos h3, zipWith_take_right]

/-- **generated_discGrid_eq**: for a discrete timebase (`dt = True` or a number) the statements of the
source text that check the evaluation times are the model's: the same step is returned, the same
inputs are rejected with the same error (fewer than two times: index error; unequal spacing or a
step that is not the sampling time: the `timebase` class of `ValueError`). -/
theorem generated_discGrid_eq (sysdt : Dt) (hd : sysdt = .dtrue ∨ ∃ h, sysdt = .disc h) (te : List Q) :
    Generated.nlDiscGrid sysdt te = gridCheck sysdt te := by
  unfold Generated.nlDiscGrid gridCheck
  match te with
  | [] => rcases hd with rfl | ⟨h, rfl⟩ <;> rfl
  | [a] => rcases hd with rfl | ⟨h, rfl⟩ <;> rfl
  | a :: b :: rest =>
    have g1 : PyArith.getItem (a :: b :: rest) (1 : Int) = .ok b := getItem_lt (a :: b :: rest) 1 (by simp)
    have g0 : PyArith.getItem (a :: b :: rest) (0 : Int) = .ok a := getItem_lt (a :: b :: rest) 0 (by simp)
    have hall : PyNL.allcloseNum (List.zipWith (· - ·) (b :: rest) (a :: b :: rest)) (b - a)
        = evenlySpaced (a :: b :: rest) (b - a) := by
      unfold PyNL.allcloseNum evenlySpaced
      rw [all_zipWith_swap]
      rfl
    rcases hd with rfl | ⟨h, rfl⟩
    · simp only [g1, g0, generated_grid_core, hall, bind, Except.bind, pure, Except.pure]
      cases evenlySpaced (a :: b :: rest) (b - a) <;> rfl
    · simp only [g1, g0, generated_grid_core, hall, bind, Except.bind, pure, Except.pure]
      cases evenlySpaced (a :: b :: rest) (b - a) <;> cases close (b - a) h <;> rfl

/-- non-vacuity: an accepted grid, unequal spacing, a step that is not the sampling time. -/
example : Generated.nlDiscGrid (.disc (1/2)) [0, 1/2, 1] = .ok (1/2) := by decide +kernel
example : Generated.nlDiscGrid .dtrue [0, 1/2, 2] = .error .timebase := by decide +kernel
example : Generated.nlDiscGrid (.disc (1/4)) [0, 1/2, 1] = .error .timebase := by decide +kernel

end CtrlVerif.C08Gen
