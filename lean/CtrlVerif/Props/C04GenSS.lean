/-
Source-text tie of C04 (DESIGN §10.3, notes/NOTES-py2lean-eval.md), part 3: `StateSpace.horner`.

`Generated/EvalSS.lean` is rewritten on every run from the text of `horner` in control/statesp.py of
the tree under check by `harness/core/py2lean_eval.py`: the 0-state branch
(`D[:, :, np.newaxis] * np.ones_like(x_arr)`), the 1-state fast path (the broadcast formula
`C / (x - A[0, 0]) * B + D` under `np.errstate`, the at-pole mask, `_has_zero_at`, the masked
assignment of `nan + nan j` / `inf + nan j`), and the general path (`slycot_laub` raising ImportError
in an environment without Slycot, the fall-back loop over `enumerate(x_arr)` with `solve`, the
`LinAlgError` handler that consults `_has_zero_at`).  The model's `ssHorner` is proved EQUAL to it
for every number of states, all sizes, matrices, arguments; the headline theorems `C04.ss_call_resp`,
`ss_pole_at_point`, `ss_finite_iff`, `ss_call_static`, `ss_1state_off_pole` are transported.
-/
import CtrlVerif.Generated.EvalSS
import CtrlVerif.Props.C04GenZero
import CtrlVerif.Lemmas.PyEval

set_option linter.unusedSimpArgs false
set_option linter.unusedSectionVars false

namespace CtrlVerif.C04Gen
open CtrlVerif CtrlVerif.Eval CtrlVerif.PyEval Matrix

variable {K : Type} [Field K] [DecidableEq K]

/-- the array of the values of the model's `ssHorner` at the points `xs` (with the component
patterns the code writes at a pole: `inf + nan j`, `nan + nan j`). -/
def ssTarget (G : DSS K) (xs : List K) : Arr3 K :=
  NArr.ofFn G.p G.m xs.length fun i j k => ssCx (ssHorner G.sys (xs.get k) i j)

theorem ssCx_poleVal (b : Bool) :
    ssCx (poleVal b : IVal K) = if b = true then cplx false false else cplx true false := by
  cases b <;> rfl

/-- the 0-state branch. -/
theorem generated_ssHorner_static (P : Parts K) (p m : Nat) (G : SS (Fin 0) (Fin m) (Fin p) K) (dt : Dt)
    (x : XArg K) (w : Bool) :
    Generated.ssHorner P ⟨0, p, m, G, dt⟩ x w = .ok (ssTarget ⟨0, p, m, G, dt⟩ (atleast1dComplex x)) := by
  unfold Generated.ssHorner ssTarget
  simp only [if_true, PySS.D, static_branch]
  rfl

/-- the 1-state fast path. -/
theorem generated_ssHorner_first (P : Parts K) (p m : Nat) (G : SS (Fin 1) (Fin m) (Fin p) K) (dt : Dt)
    (x : XArg K) (w : Bool) :
    Generated.ssHorner P ⟨1, p, m, G, dt⟩ x w = .ok (ssTarget ⟨1, p, m, G, dt⟩ (atleast1dComplex x)) := by
  obtain ⟨A, B, C, D⟩ := G
  unfold Generated.ssHorner ssTarget
  generalize atleast1dComplex x = xs
  have h10 : ¬ ((1 : Nat) = 0) := by omega
  have hl : (subNum xs (A 0 0)).length = xs.length := by simp [subNum]
  have hm : (eqNum xs (A 0 0)).length = xs.length := by simp [eqNum]
  simp only [h10, if_false, if_true, PySS.A, PySS.B, PySS.C, PySS.D, matItem_00, bind, Except.bind,
    pure, Except.pure, Arr3.div, Arr3.mul, Arr3.add, ofMat_eq_tab, ofVec_eq_tab, zipWith_tab',
    bdim_one_right, bdim_one_left, bdim_self, hl, generated_hasZeroAt_eq, setMask_tab _ _ _ _ _ _ hm]
  by_cases hany : anyB (eqNum xs (A 0 0)) = true
  · rw [if_pos hany]
    congr 1
    apply tab_eq_ofFn
    intro i j k
    have hk := k.isLt
    by_cases hx : xs[(k : Nat)] = A 0 0
    · simp [eqNum, ssHorner, horner1, hx, ssCx_poleVal, List.getElem?_eq_getElem hk]
    · have hx' : xs[(k : Nat)] - A 0 0 ≠ 0 := sub_ne_zero.mpr hx
      simp [eqNum, ssHorner, horner1, hx, hx', ssCx, bidx_one, bidx_of_lt i.isLt, bidx_of_lt j.isLt,
        bidx_of_lt hk, vmul, vadd, vdiv, cdiv, subNum, List.getElem?_eq_getElem hk]
  · rw [if_neg hany]
    congr 1
    apply tab_eq_ofFn
    intro i j k
    have hk := k.isLt
    have hx : xs[(k : Nat)] ≠ A 0 0 := fun h => hany ((anyB_eqNum xs _).mpr ⟨_, List.getElem_mem hk, h⟩)
    have hx' : xs[(k : Nat)] - A 0 0 ≠ 0 := sub_ne_zero.mpr hx
    simp [ssHorner, horner1, hx, hx', ssCx, bidx_one, bidx_of_lt i.isLt, bidx_of_lt j.isLt,
      bidx_of_lt hk, vmul, vadd, vdiv, cdiv, subNum, List.getElem?_eq_getElem hk]

/-- the general path (`solve`, with the `LinAlgError` branch), any number of states ≥ 2. -/
theorem generated_ssHorner_general (P : Parts K) (n p m : Nat) (G : SS (Fin (n + 2)) (Fin m) (Fin p) K)
    (dt : Dt) (x : XArg K) (w : Bool) :
    Generated.ssHorner P ⟨n + 2, p, m, G, dt⟩ x w
      = .ok (ssTarget ⟨n + 2, p, m, G, dt⟩ (atleast1dComplex x)) := by
  obtain ⟨A, B, C, D⟩ := G
  unfold Generated.ssHorner ssTarget
  generalize atleast1dComplex x = xs
  have h0 : ¬ (n + 2 = 0) := by omega
  have h1 : ¬ (n + 2 = 1) := by omega
  have hnd : ¬ (ndim xs > 1) := by simp [ndim]
  simp only [h0, h1, hnd, if_false, slycotLaub, pure, Except.pure]
  set f : Fin p → Fin m → Fin xs.length → Cx K :=
    fun i j k => ssCx (ssHorner (⟨A, B, C, D⟩ : SS (Fin (n + 2)) (Fin m) (Fin p) K) (xs.get k) i j) with hf
  rw [foldlM_enumerate_eq xs _ (fun k => fillK (NArr.ofFn p m xs.length f) k) _ (fillK_zero f).symm]
  · rw [fillK_all]
  · intro k hk
    simp only [PySS.A, PySS.B, PySS.C, PySS.D, PMat.eye_def, PMat.smul_mk, PMat.sub_mk, PMat.solve_mk,
      bind, Except.bind]
    by_cases hd : (xs[k] • (1 : Matrix (Fin (n + 2)) (Fin (n + 2)) K) - A).det = 0
    · simp only [hd, if_true, PySS.isLinAlgError, generated_hasZeroAt_eq]
      have hv : ∀ i j, f i j ⟨k, hk⟩ = (if zeroTest (⟨A, B, C, D⟩ : SS (Fin (n + 2)) (Fin m) (Fin p) K) xs[k] = true
          then cplx false false else cplx true false) := by
        intro i j
        simp only [hf, ssHorner, ssHornerGen, List.get_eq_getElem]
        rw [if_pos (by rw [detFin_eq_det]; exact hd)]
        simp [ssCx_poleVal]
      by_cases hz : zeroTest (⟨A, B, C, D⟩ : SS (Fin (n + 2)) (Fin m) (Fin p) K) xs[k] = true
      · simp only [hz, if_true] at hv ⊢
        rw [fillK_setSlabConst f hk _ hv]
      · have hz' : zeroTest (⟨A, B, C, D⟩ : SS (Fin (n + 2)) (Fin m) (Fin p) K) xs[k] = false := by
          simpa using hz
        simp only [hz', Bool.false_eq_true, if_false] at hv ⊢
        rw [fillK_setSlabConst f hk _ hv]
    · simp only [hd, if_false, PMat.matmul_mk, PMat.add_mk]
      rw [fillK_setSlab f hk]
      intro i j
      simp only [hf, ssHorner, ssHornerGen, List.get_eq_getElem]
      rw [if_neg (by rw [detFin_eq_det]; exact hd)]
      rfl

/-- **`StateSpace.horner` as the source text computes it is the model**: for every number of states
(the three branches), all sizes and matrices, every argument and `warn_infinite`, the returned array
holds the model's `ssHorner` at the points of `x`, with `inf + nan j` / `nan + nan j` at the poles. -/
theorem generated_ssHorner_eq (P : Parts K) (G : DSS K) (x : XArg K) (w : Bool) :
    Generated.ssHorner P G x w = .ok (ssTarget G (atleast1dComplex x)) := by
  obtain ⟨n, p, m, S, dt⟩ := G
  match n, S with
  | 0, S => exact generated_ssHorner_static P p m S dt x w
  | 1, S => exact generated_ssHorner_first P p m S dt x w
  | n + 2, S => exact generated_ssHorner_general P n p m S dt x w

/-- the entry `(i, j)` at the `k`-th point of what the generated function returns. -/
theorem generated_ssHorner_entry (P : Parts K) (G : DSS K) (x : XArg K) (w : Bool)
    (i : Fin G.p) (j : Fin G.m) (k : Fin (atleast1dComplex x).length) :
    ∃ R, Generated.ssHorner P G x w = .ok R ∧
      R.get i j k = some (ssCx (ssHorner G.sys ((atleast1dComplex x).get k) i j)) :=
  ⟨_, generated_ssHorner_eq P G x w, ofFn_get _ i.isLt j.isLt k.isLt⟩

/-- … and its outcome class is the model's `ssHorner`. -/
theorem generated_ssHorner_cls (P : Parts K) (G : DSS K) (x : XArg K) (w : Bool)
    (i : Fin G.p) (j : Fin G.m) (k : Fin (atleast1dComplex x).length) :
    ∃ R, Generated.ssHorner P G x w = .ok R ∧
      (R.get i j k).map Cx.cls = some (ssHorner G.sys ((atleast1dComplex x).get k) i j) := by
  obtain ⟨R, h1, h2⟩ := generated_ssHorner_entry P G x w i j k
  exact ⟨R, h1, by rw [h2, Option.map_some, C04.ssCx_cls]⟩

/-- **`C04.ss_call_resp` holds of the function the source text defines**: at a point where
`xI - A` is invertible every entry is finite and the matrix of the entries is *the* (unique) value
`Y` of the transfer matrix (`Resp`), whatever branch the number of states selects. -/
theorem generated_ss_call_resp (P : Parts K) (G : DSS K) (x : XArg K) (w : Bool)
    (k : Fin (atleast1dComplex x).length)
    (hu : IsUnit (((atleast1dComplex x).get k) • (1 : Matrix (Fin G.n) (Fin G.n) K) - G.sys.A)) :
    ∃ R Y, Generated.ssHorner P G x w = .ok R ∧ G.sys.Resp ((atleast1dComplex x).get k) Y ∧
      (∀ Y', G.sys.Resp ((atleast1dComplex x).get k) Y' → Y' = Y) ∧
      ∀ (i : Fin G.p) (j : Fin G.m), R.get i j k = some (.fin (Y i j)) := by
  obtain ⟨Y, hY, huniq, hval⟩ := C04.ss_call_resp G.sys _ hu
  refine ⟨_, Y, generated_ssHorner_eq P G x w, hY, huniq, ?_⟩
  intro i j
  unfold ssTarget
  rw [ofFn_get _ i.isLt j.isLt k.isLt, hval]
  rfl

/-- **pole convention** (`C04.ss_pole_at_point`) of the generated function: at a pole every entry is
`nan + nan j` if the system matrix loses rank there (a zero cancels the pole) and `inf + nan j`
otherwise, for every number of states. -/
theorem generated_ss_pole_at_point (P : Parts K) (G : DSS K) (x : XArg K) (w : Bool)
    (k : Fin (atleast1dComplex x).length)
    (hs : ¬ IsUnit (((atleast1dComplex x).get k) • (1 : Matrix (Fin G.n) (Fin G.n) K) - G.sys.A)) :
    ∃ R, Generated.ssHorner P G x w = .ok R ∧
      ∀ (i : Fin G.p) (j : Fin G.m), R.get i j k
        = some (if zeroTest G.sys ((atleast1dComplex x).get k) = true then .div0 false false
            else .div0 true false) := by
  refine ⟨_, generated_ssHorner_eq P G x w, ?_⟩
  intro i j
  unfold ssTarget
  rw [ofFn_get _ i.isLt j.isLt k.isLt, C04.ss_pole_at_point G.sys _ hs]
  simp only [Matrix.of_apply, ssCx_poleVal]
  rfl

/-- never a finite number at a pole, always one off the poles (`C04.ss_finite_iff`). -/
theorem generated_ss_finite_iff (P : Parts K) (G : DSS K) (x : XArg K) (w : Bool)
    (i : Fin G.p) (j : Fin G.m) (k : Fin (atleast1dComplex x).length) :
    ∃ R, Generated.ssHorner P G x w = .ok R ∧
      ((∃ z, R.get i j k = some (.fin z)) ↔
        IsUnit (((atleast1dComplex x).get k) • (1 : Matrix (Fin G.n) (Fin G.n) K) - G.sys.A)) := by
  obtain ⟨R, h1, h2⟩ := generated_ssHorner_entry P G x w i j k
  refine ⟨R, h1, ?_⟩
  rw [← C04.ss_finite_iff G.sys _ i j, h2]
  cases ssHorner G.sys ((atleast1dComplex x).get k) i j <;> simp [ssCx]

/-- a system without states evaluates to its direct term everywhere (`C04.ss_call_static`). -/
theorem generated_ss_call_static (P : Parts K) {p m : Nat} (S : SS (Fin 0) (Fin m) (Fin p) K) (dt : Dt)
    (x : XArg K) (w : Bool) (i : Fin p) (j : Fin m) (k : Fin (atleast1dComplex x).length) :
    ∃ R, Generated.ssHorner P ⟨0, p, m, S, dt⟩ x w = .ok R ∧ R.get i j k = some (.fin (S.D i j)) :=
  ⟨_, generated_ssHorner_eq P ⟨0, p, m, S, dt⟩ x w, ofFn_get _ i.isLt j.isLt k.isLt⟩

/-- off its pole a first-order system has the finite value `c (x - a)⁻¹ b + d`, however close `x`
is to the pole (`C04.ss_1state_off_pole`; the seeded change C04-m5 breaks the equality above). -/
theorem generated_ss_1state_off_pole (P : Parts K) {p m : Nat} (S : SS (Fin 1) (Fin m) (Fin p) K)
    (dt : Dt) (x : XArg K) (w : Bool) (i : Fin p) (j : Fin m) (k : Fin (atleast1dComplex x).length)
    (h : (atleast1dComplex x).get k ≠ S.A 0 0) :
    ∃ R, Generated.ssHorner P ⟨1, p, m, S, dt⟩ x w = .ok R ∧
      R.get i j k = some (.fin (S.C i 0 / ((atleast1dComplex x).get k - S.A 0 0) * S.B 0 j + S.D i j)) := by
  refine ⟨_, generated_ssHorner_eq P ⟨1, p, m, S, dt⟩ x w, ?_⟩
  unfold ssTarget
  rw [ofFn_get _ i.isLt j.isLt k.isLt, C04.ss_1state_off_pole S _ h]
  rfl

/-- `StateSpace.horner` never raises (1-D arguments; Slycot absent). -/
theorem generated_ssHorner_ok (P : Parts K) (G : DSS K) (x : XArg K) (w : Bool) :
    ∃ R, Generated.ssHorner P G x w = .ok R ∧ R.p = G.p ∧ R.m = G.m ∧
      R.n = (atleast1dComplex x).length :=
  ⟨_, generated_ssHorner_eq P G x w, rfl, rfl, rfl⟩

/-- non-vacuity: the three branches over `ℚ`.  `ss([], [], [], [[5]])` at `[7]`; the first-order system
`ss([[0]],[[1]],[[0]],[[2]])` at `[0, 1]` (a cancelled pole: `nan + nan j`, then `2`); the double
integrator `ss([[0,1],[0,0]],[[0],[1]],[[1,0]],[[0]])` at `[0, 2]`: `inf + nan j`, `1/4`. -/
example :
    let P : Parts ℚ := ⟨id, fun _ => true, fun z => decide (z = 0), fun _ _ => rfl, fun z => by simp⟩
    (∃ R, Generated.ssHorner P (⟨0, 1, 1, ⟨0, 0, 0, !![5]⟩, .cont⟩ : DSS ℚ) (.scalar 7) true = .ok R ∧
      R.get 0 0 0 = some (.fin 5)) ∧
    (∃ R, Generated.ssHorner P (⟨1, 1, 1, ⟨!![0], !![1], !![0], !![2]⟩, .cont⟩ : DSS ℚ) (.arr [0, 1]) true
      = .ok R ∧ R.get 0 0 0 = some (.div0 false false) ∧ R.get 0 0 1 = some (.fin 2)) ∧
    (∃ R, Generated.ssHorner P (⟨2, 1, 1, ⟨!![0, 1; 0, 0], !![0; 1], !![1, 0], !![0]⟩, .cont⟩ : DSS ℚ)
      (.arr [0, 2]) true = .ok R ∧ R.get 0 0 0 = some (.div0 true false) ∧ R.get 0 0 1 = some (.fin (1 / 4))) := by
  intro P
  refine ⟨⟨_, generated_ssHorner_eq P _ _ _, ?_⟩, ⟨_, generated_ssHorner_eq P _ _ _, ?_, ?_⟩,
    ⟨_, generated_ssHorner_eq P _ _ _, ?_, ?_⟩⟩ <;> decide +kernel

end CtrlVerif.C04Gen
