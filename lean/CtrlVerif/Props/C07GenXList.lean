/-
C07, source-text tie (tag py2lean-iolist, notes/NOTES-py2lean-iolist.md): the `inplist` / `outlist`
pre-processing loops of `interconnect()` (control/nlsys.py) as regenerated from the tree under check
(`Generated/ICLIn.lean`, `Generated/ICLOut.lean`, rewritten by `harness/core/py2lean_iolist.py` on every
run; every `for` loop is its own definition) equal the hand-written model (`Model/Interconnect.lean`:
`preInEntry`, `outOrIn`, `preOutEntry`, `triples`).

This file: the entries that are NOT bare strings (a list of specifications, a single specification)
and the local function `_find_output_or_input_signal`.  The bare strings are in `C07GenXListBare.lean`.

Reading convention: the code builds Python values, the model tokenised specifications; a theorem
`…_model` states `(generated).map (·.map readEntry) = (model).map (·.map some)` with `readEntry` the
tokenisation of an entry of the pre-processed list (`PyIC.tokenize` of a tuple / of every element of a
list) — what `families/c07.py` sends to the model for such a value.
-/
import CtrlVerif.Generated.ICLIn
import CtrlVerif.Generated.ICLOut
import CtrlVerif.Lemmas.PyIOL
import CtrlVerif.Props.C07GenParse
import CtrlVerif.Props.C07GenInit
import CtrlVerif.Props.C07GenXPre

namespace CtrlVerif.C07GenXL

open CtrlVerif.IC CtrlVerif.PyIC CtrlVerif.PyICX CtrlVerif.PyIOL CtrlVerif.C07Gen CtrlVerif.C07GenX

variable {K : Type} [Field K] [DecidableEq K]

/-- `(isys, isig, gain)` for every signal of a parsed specification (gain as `_parse_spec` returns it). -/
def tripleVals (r : Nat × List Nat × K) : List (Val K) :=
  r.2.1.map fun i => .tuple [.int (r.1 : Int), .int (Int.ofNat i), .num r.2.2]

/-- `(sysname, label, gain)` for a subsystem input used as an output. -/
def namedVal (nm : String) (l : Label) (g : K) : Val K := .tuple [nameVal nm, labelVal l, .num g]

/-- tokenisation of one entry of a pre-processed `inplist` / `outlist`: a list of specifications or
one specification. -/
def readEntry : Val K → Option (List (Spec K))
  | .list l => l.mapM tokenize
  | v => (tokenize v).map fun s => [s]

/-- a bare string: a `str` without '.'. -/
def isBare : Val K → Bool
  | .str s => decide (s.parts.length ≤ 1)
  | _ => false

def isList : Val K → Bool
  | .list _ => true
  | _ => false

omit [DecidableEq K] in
theorem tokenize_tripleVals (r : Nat × List Nat × K) :
    (tripleVals r).map tokenize = (triples r).map some := by
  simp [tripleVals, triples, tokenize, tokTriple, emptyStr, tokSys, tokSig, tokGain, tripleSpec]

omit [DecidableEq K] in
theorem tokenize_namedVal (nm : String) (l : Label) (g : K) (h1 : NameOK nm) (h2 : NameOK l.raw) :
    tokenize (namedVal nm l g) = some (namedSpec nm l (some g)) := by
  obtain ⟨e1, n1⟩ := h1
  obtain ⟨e2, n2⟩ := h2
  have n1' : Str.neg ⟨nm, .base nm, []⟩ = false := n1
  have n2' : Str.neg ⟨l.raw, l.tok, []⟩ = false := n2
  simp [namedVal, nameVal, labelVal, tokenize, tokTriple, emptyStr, e1, e2, tokSys, tokSig, tokGain, n1', n2',
    Str.unsigned, namedSpec]

/-! ### the small loops `for isig in indices: <list>.append((isys, isig, gain))` -/

theorem inLoop8_eq (g : K) (si : Int) (acc : List (Val K)) (l : List Int) :
    l.foldlM (Generated.icxInList_loop8 g si) acc =
      .ok (acc ++ l.map fun i => .tuple [.int si, .int i, .num g]) :=
  foldlM_snoc _ _ l (fun _ _ => rfl) acc

theorem inLoop9_eq (g : K) (si : Int) (acc : List (Val K)) (l : List Int) :
    l.foldlM (Generated.icxInList_loop9 g si) acc =
      .ok (acc ++ l.map fun i => .tuple [.int si, .int i, .num g]) :=
  foldlM_snoc _ _ l (fun _ _ => rfl) acc

theorem outLoop7_eq (g : K) (si : Int) (acc : List (Val K)) (l : List Int) :
    l.foldlM (Generated.icxOutList_loop7 g si) acc =
      .ok (acc ++ l.map fun i => .tuple [.int si, .int i, .num g]) :=
  foldlM_snoc _ _ l (fun _ _ => rfl) acc

omit [Field K] [DecidableEq K] in
theorem retSpec_vals (r : Nat × List Nat × K) :
    ((retSpec r).2.1.map fun i => (.tuple [.int (retSpec r).1, .int i, .num (retSpec r).2.2] : Val K)) =
      tripleVals r := by
  simp [retSpec, tripleVals, List.map_map, Function.comp_def]

/-! ### `inplist`: an entry that is a single specification / a list of specifications -/

/-- one specification parsed as a subsystem input and expanded, as the code does it in both branches. -/
def inSpecVals (sigs : List SysSig) (s : Spec K) : Except Err (List (Val K)) :=
  (parseSpec sigs .input s).map tripleVals

/-- **a single specification in `inplist`** (anything that is not a bare string and not a list):
`_parse_spec(…, 'input')`, one entry `(isys, isig, gain)` per signal; `new_inputs` untouched. -/
theorem generated_inEntry_single (sigs : List SysSig) (inputs ni : Val K) (none_ : Bool) (iinp : Int)
    (acc : List (Val K)) (v : Val K) (s : Spec K) (ht : tokenize v = some s)
    (hb : isBare v = false) (hl : isList v = false) :
    Generated.icxInList_loop1 none_ inputs sigs (acc, ni) (iinp, v) =
      (inSpecVals sigs s).map fun vs => (acc ++ vs, ni) := by
  have hp := generated_parseSpec_eq sigs v s ht .input
  simp only [Site.signame, Site.dictname, Site.dict] at hp
  unfold Generated.icxInList_loop1 inSpecVals
  cases v with
  | list l => simp [isList] at hl
  | str st =>
    have hlen : ¬ st.parts.length ≤ 1 := by simpa [isBare] using hb
    have hne : st.parts.isEmpty = false := by
      cases hps : st.parts with
      | nil => simp [hps] at hlen
      | cons a b => rfl
    have hl1 : ¬ ((st.parts.length : Int) = 1) := by omega
    simp only [isinstance_str_single, reSplitDot, hne, if_true, Bool.false_eq_true, if_false, ok_bind, len_list,
      List.length_map, pure_eq_ok, hp]
    cases parseSpec sigs .input s with
    | error e => simp [hl1]
    | ok r => simp [hl1, inLoop9_eq, retSpec_vals]
  | none => simp [hp]; cases parseSpec sigs .input s <;> simp [inLoop9_eq, retSpec_vals]
  | int i => simp [hp]; cases parseSpec sigs .input s <;> simp [inLoop9_eq, retSpec_vals]
  | num x => simp [hp]; cases parseSpec sigs .input s <;> simp [inLoop9_eq, retSpec_vals]
  | tuple l => simp [hp]; cases parseSpec sigs .input s <;> simp [inLoop9_eq, retSpec_vals]
  | other => simp [hp]; cases parseSpec sigs .input s <;> simp [inLoop9_eq, retSpec_vals]

theorem inLoop7_step (sigs : List SysSig) (v : Val K) (s : Spec K) (ht : tokenize v = some s)
    (acc : List (Val K)) :
    Generated.icxInList_loop7 sigs acc v = (inSpecVals sigs s).map fun vs => acc ++ vs := by
  have hp := generated_parseSpec_eq sigs v s ht .input
  simp only [Site.signame, Site.dictname, Site.dict] at hp
  unfold Generated.icxInList_loop7 inSpecVals
  simp only [hp]
  cases parseSpec sigs .input s <;> simp [inLoop8_eq, retSpec_vals]

/-- a loop over tokenisable values whose step appends `g s` for the token `s` of the value. -/
theorem foldlM_tok {β : Type} (F : List β → Val K → Except Err (List β)) (g : Spec K → Except Err (List β))
    (hF : ∀ acc v s, tokenize v = some s → F acc v = (g s).map fun ys => acc ++ ys)
    (l : List (Val K)) (ss : List (Spec K)) (h : l.map tokenize = ss.map some) (acc : List β) :
    l.foldlM F acc = (ss.mapM g).map fun ys => acc ++ ys.flatten := by
  induction l generalizing ss acc with
  | nil => cases ss with | nil => simp | cons b r => simp at h
  | cons v l ih =>
    cases ss with
    | nil => simp at h
    | cons b r =>
      simp only [List.map_cons, List.cons.injEq] at h
      rw [List.foldlM_cons, hF acc v b h.1, List.mapM_cons]
      cases g b with
      | error e => rfl
      | ok y =>
        simp only [map_ok, ok_bind]
        rw [ih r h.2]
        cases r.mapM g with
        | error e => rfl
        | ok ys => simp [List.append_assoc]

/-- the loop over a list entry: every specification parsed and expanded, all into ONE list. -/
theorem inLoop7_eq (sigs : List SysSig) (l : List (Val K)) (ss : List (Spec K))
    (h : l.map tokenize = ss.map some) (acc : List (Val K)) :
    l.foldlM (Generated.icxInList_loop7 sigs) acc =
      (ss.mapM (inSpecVals sigs)).map fun vs => acc ++ vs.flatten :=
  foldlM_tok _ _ (fun acc v s ht => inLoop7_step sigs v s ht acc) l ss h acc

/-- **a list in `inplist`**: every element parsed with `_parse_spec(…, 'input')` and expanded; ONE new
entry (the list of all `(isys, isig, gain)`); `new_inputs` untouched. -/
theorem generated_inEntry_list (sigs : List SysSig) (inputs ni : Val K) (none_ : Bool) (iinp : Int)
    (acc : List (Val K)) (l : List (Val K)) (ss : List (Spec K)) (h : l.map tokenize = ss.map some) :
    Generated.icxInList_loop1 none_ inputs sigs (acc, ni) (iinp, .list l) =
      (ss.mapM (inSpecVals sigs)).map fun vs => (acc ++ [.list vs.flatten], ni) := by
  unfold Generated.icxInList_loop1
  simp [inLoop7_eq sigs l ss h]
  cases ss.mapM (inSpecVals sigs) <;> simp

/-! ### the same entries read as the model reads them -/

omit [DecidableEq K] in
theorem readEntry_tripleVals (r : Nat × List Nat × K) :
    (tripleVals r).map readEntry = ((triples r).map fun t => [t]).map some := by
  simp [tripleVals, triples, readEntry, tokenize, tokTriple, emptyStr, tokSys, tokSig, tokGain, tripleSpec]

theorem mapM_tokenize_of_map {l : List (Val K)} {ss : List (Spec K)} (h : l.map tokenize = ss.map some) :
    l.mapM tokenize = some ss := mapM_of_map_eq tokenize l ss h

theorem mapM_map_comp {α β γ : Type} (f : α → Except Err β) (g : β → γ) (l : List α) :
    (l.mapM fun x => (f x).map g) = (l.mapM f).map fun ys => ys.map g := by
  induction l with
  | nil => rfl
  | cons a l ih =>
    rw [List.mapM_cons, List.mapM_cons, ih]
    cases f a with
    | error e => rfl
    | ok y => cases l.mapM f <;> rfl

omit [DecidableEq K] in
theorem readEntry_flat (rs : List (Nat × List Nat × K)) :
    ((rs.map tripleVals).flatten).mapM tokenize = some ((rs.map triples).flatten) := by
  apply mapM_of_map_eq
  rw [List.map_flatten, List.map_flatten, List.map_map, List.map_map]
  congr 1
  exact List.map_congr_left fun r _ => tokenize_tripleVals r

/-- **`generated_inEntry_single_model`**: the entries the source text appends for a single specification,
tokenised, are the model's `preInEntry (.single s)`; no label is added. -/
theorem generated_inEntry_single_model (sigs : List SysSig) (inputs ni : Val K) (none_ : Bool) (iinp : Int)
    (acc : List (Val K)) (v : Val K) (s : Spec K) (ht : tokenize v = some s)
    (hb : isBare v = false) (hl : isList v = false) :
    (Generated.icxInList_loop1 none_ inputs sigs (acc, ni) (iinp, v)).map
        (fun st => (st.1.map readEntry, st.2)) =
      (preInEntry sigs (.single s)).map fun r => (acc.map readEntry ++ r.1.map some, ni) := by
  rw [generated_inEntry_single sigs inputs ni none_ iinp acc v s ht hb hl]
  cases hps : parseSpec sigs .input s <;> simp [inSpecVals, preInEntry, hps, readEntry_tripleVals]

/-- **`generated_inEntry_list_model`**: the ONE entry the source text appends for a list of specifications,
tokenised, is the model's `preInEntry (.list ss)`. -/
theorem generated_inEntry_list_model (sigs : List SysSig) (inputs ni : Val K) (none_ : Bool) (iinp : Int)
    (acc : List (Val K)) (l : List (Val K)) (ss : List (Spec K)) (h : l.map tokenize = ss.map some) :
    (Generated.icxInList_loop1 none_ inputs sigs (acc, ni) (iinp, .list l)).map
        (fun st => (st.1.map readEntry, st.2)) =
      (preInEntry sigs (.list ss)).map fun r => (acc.map readEntry ++ r.1.map some, ni) := by
  rw [generated_inEntry_list sigs inputs ni none_ iinp acc l ss h]
  have e1 : ss.mapM (inSpecVals sigs) = (ss.mapM (parseSpec sigs .input)).map fun ys => ys.map tripleVals :=
    mapM_map_comp _ _ ss
  rw [e1]
  simp only [preInEntry, mapM_map_comp]
  cases hps : ss.mapM (parseSpec sigs .input) with
  | error e => simp
  | ok rs => simp [readEntry, readEntry_flat]

/-! ### `outlist`: `_find_output_or_input_signal`, a single specification, a list -/

/-- `(sysname, label, gain)` for the subsystem inputs a specification names (IndexError outside). -/
def namedVals (sigs : List SysSig) (r : Nat × List Nat × K) : Except Err (List (Val K)) :=
  match sigs[r.1]? with
  | Option.none => if r.2.1.isEmpty then .ok [] else .error .indexRange
  | some S => r.2.1.mapM fun i =>
      match S.inputs[i]? with
      | Option.none => (.error .indexRange : Except Err (Val K))
      | some l => .ok (namedVal S.name l r.2.2)

/-- the loop `for isig in indices: signal_list.append((syslist[isys].name, syslist[isys].input_labels[isig], gain))`. -/
theorem outLoop8_eq (sigs : List SysSig) (r : Nat × List Nat × K) (acc : List (Val K)) :
    (retSpec r).2.1.foldlM (Generated.icxOutList_loop8 (retSpec r).2.2 (retSpec r).1 sigs) acc =
      (namedVals sigs r).map fun vs => acc ++ vs := by
  obtain ⟨si, idxs, g⟩ := r
  simp only [retSpec, namedVals]
  cases hS : sigs[si]? with
  | none =>
    cases idxs with
    | nil => simp
    | cons i is =>
      have : seqGet sigs (si : Int) = .error .indexRange := by
        have h1 : ¬ ((si : Int) < 0) := by omega
        simp [seqGet, h1, hS]
      simp [Generated.icxOutList_loop8, sysAt, this]
  | some S =>
    have hs : seqGet sigs (si : Int) = .ok S := seqGet_natCast sigs si S hS
    rw [show (fun ys => acc ++ ys) = (fun ys : List (Val K) => acc ++ ys) from rfl]
    rw [foldlM_mapM_snoc (g := fun i : Int =>
        (labelAtVal S.inputs (.int i)).map fun lv => (.tuple [nameVal S.name, lv, .num g] : Val K))]
    · rw [List.mapM_map]
      congr 1
      · congr 1
        funext i
        have h1 : ¬ ((i : Int) < 0) := by omega
        cases hl : S.inputs[i]? <;> simp [labelAtVal, seqGet, h1, hl, namedVal]
    · intro acc x
      simp [Generated.icxOutList_loop8, sysAt, hs, inputIndex]
      cases labelAtVal S.inputs (.int x : Val K) <;> rfl

/-- `_find_output_or_input_signal(spec)` on values. -/
def outOrInVals (sigs : List SysSig) (s : Spec K) : Except Err (List (Val K)) :=
  match parseSpec sigs .output s with
  | .ok r => .ok (tripleVals r)
  | .error _ =>
    match parseSpec sigs .input s with
    | .error e => .error e
    | .ok r => namedVals sigs r

/-- **`generated_outOrIn_eq`: `_find_output_or_input_signal` as the source text defines it**: the
specification is looked up among the subsystem OUTPUTS first (`(osys, osig, gain)` per signal); only when
that raises ValueError among the subsystem INPUTS (`(sysname, label, gain)` per signal); the error of the
second look-up is the error of the call. -/
theorem generated_outOrIn_eq (sigs : List SysSig) (v : Val K) (s : Spec K) (ht : tokenize v = some s) :
    Generated.icxOutList_fn1 sigs v = outOrInVals sigs s := by
  have ho := generated_parseSpec_eq sigs v s ht .output
  have hi := generated_parseSpec_eq sigs v s ht .inputOrOutput
  simp only [Site.signame, Site.dictname, Site.dict] at ho hi
  unfold Generated.icxOutList_fn1 outOrInVals
  simp only [ho, hi]
  cases hpo : parseSpec sigs .output s with
  | ok r => simp [tryExcept, outLoop7_eq, retSpec_vals]
  | error e =>
    have hk := parseSpec_error_kind sigs .output s e hpo
    cases hpi : parseSpec sigs .input s with
    | error e' => simp [tryExcept, hk]
    | ok r =>
      simp only [map_error, map_ok, tryExcept, hk, if_true, ok_bind, List.nil_append, outLoop8_eq]
      cases namedVals sigs r <;> simp [hk]

theorem mapM_rel {α β γ : Type} (f : α → Except Err β) (g : α → Except Err γ) (t : β → Option γ) (l : List α)
    (h : ∀ x ∈ l, (f x).map t = (g x).map some) :
    (l.mapM f).map (fun ys => ys.map t) = (l.mapM g).map fun zs => zs.map some := by
  induction l with
  | nil => rfl
  | cons a l ih =>
    have ha := h a (List.mem_cons_self ..)
    have ih' := ih fun x hx => h x (List.mem_cons_of_mem _ hx)
    rw [List.mapM_cons, List.mapM_cons]
    cases hf : f a with
    | error e =>
      cases hg : g a with
      | error e' => simp_all
      | ok z => simp_all
    | ok y =>
      cases hg : g a with
      | error e' => simp_all
      | ok z =>
        simp only [hf, hg, map_ok, Except.ok.injEq] at ha
        simp only [ok_bind]
        cases hf' : l.mapM f with
        | error e =>
          cases hg' : l.mapM g with
          | error e' => simp_all
          | ok zs => simp_all
        | ok ys =>
          cases hg' : l.mapM g with
          | error e' => simp_all
          | ok zs => simp_all

/-- the model's `outOrIn` is `outOrInVals` read by tokenisation (names non-empty, no leading '-'). -/
theorem outOrInVals_model (sigs : List SysSig) (hok : NamesOK sigs) (s : Spec K) :
    (outOrInVals sigs s).map (fun vs => vs.map tokenize) = (outOrIn sigs s).map fun ts => ts.map some := by
  unfold outOrInVals outOrIn
  cases hpo : parseSpec sigs .output s with
  | ok r => simp [tokenize_tripleVals]
  | error e =>
    cases hpi : parseSpec sigs .input s with
    | error e' => simp
    | ok r =>
      obtain ⟨si, idxs, g⟩ := r
      obtain ⟨S, hS, hin⟩ := C07.parseSpec_ok_inrange sigs .input s si idxs g hpi
      have hmem : S ∈ sigs := List.mem_of_getElem? hS
      obtain ⟨_, hl⟩ := hok S hmem
      simp only [namedVals, hS]
      have hn := (hok S hmem).1
      exact mapM_rel _ _ _ idxs fun i _ => by
        cases hli : S.inputs[i]? with
        | none => rfl
        | some l =>
          have hlm : l ∈ S.inputs := List.mem_of_getElem? hli
          simp [tokenize_namedVal S.name l g hn (hl l hlm)]

/-- the same with the entries read one by one (`readEntry`): every value is ONE new entry. -/
theorem outOrInVals_read (sigs : List SysSig) (hok : NamesOK sigs) (s : Spec K) :
    (outOrInVals sigs s).map (fun vs => vs.map readEntry) =
      (outOrIn sigs s).map fun ts => (ts.map fun t => [t]).map some := by
  unfold outOrInVals outOrIn
  cases hpo : parseSpec sigs .output s with
  | ok r => simp [readEntry_tripleVals]
  | error e =>
    cases hpi : parseSpec sigs .input s with
    | error e' => simp
    | ok r =>
      obtain ⟨si, idxs, g⟩ := r
      obtain ⟨S, hS, hin⟩ := C07.parseSpec_ok_inrange sigs .input s si idxs g hpi
      have hmem : S ∈ sigs := List.mem_of_getElem? hS
      obtain ⟨hn, hl⟩ := hok S hmem
      simp only [namedVals, hS]
      have := mapM_rel (fun i => match S.inputs[i]? with
          | Option.none => (.error .indexRange : Except Err (Val K))
          | some l => .ok (namedVal S.name l g))
        (fun i => (match S.inputs[i]? with
          | Option.none => (.error .indexRange : Except Err (Spec K))
          | some l => .ok (namedSpec S.name l (some g))).map fun t => [t]) readEntry idxs fun i _ => by
        cases hli : S.inputs[i]? with
        | none => rfl
        | some l =>
          have hlm : l ∈ S.inputs := List.mem_of_getElem? hli
          have ht := tokenize_namedVal S.name l g hn (hl l hlm)
          simp only [namedVal] at ht
          simp [readEntry, namedVal, ht]
      rw [this, mapM_map_comp]
      cases idxs.mapM fun i => match S.inputs[i]? with
          | Option.none => (.error .indexRange : Except Err (Spec K))
          | some l => .ok (namedSpec S.name l (some g)) <;> simp

theorem outLoop9_eq (sigs : List SysSig) (l : List (Val K)) (ss : List (Spec K))
    (h : l.map tokenize = ss.map some) (acc : List (Val K)) :
    l.foldlM (Generated.icxOutList_loop9 sigs) acc =
      (ss.mapM (outOrInVals sigs)).map fun vs => acc ++ vs.flatten :=
  foldlM_tok _ _ (fun acc v s ht => by
    unfold Generated.icxOutList_loop9
    simp only [generated_outOrIn_eq sigs v s ht]
    cases outOrInVals sigs s <;> rfl) l ss h acc

/-- **a single specification in `outlist`** (not a bare string, not a list): the entries
`_find_output_or_input_signal` returns, one entry per signal; `new_outputs` untouched. -/
theorem generated_outEntry_single (sigs : List SysSig) (outputs no : Val K) (none_ : Bool) (iout : Int)
    (acc : List (Val K)) (v : Val K) (s : Spec K) (ht : tokenize v = some s)
    (hb : isBare v = false) (hl : isList v = false) :
    Generated.icxOutList_loop1 none_ outputs sigs (acc, no) (iout, v) =
      (outOrInVals sigs s).map fun vs => (acc ++ vs, no) := by
  have hp := generated_outOrIn_eq sigs v s ht
  unfold Generated.icxOutList_loop1
  cases v with
  | list l => simp [isList] at hl
  | str st =>
    have hlen : ¬ st.parts.length ≤ 1 := by simpa [isBare] using hb
    have hne : st.parts.isEmpty = false := by
      cases hps : st.parts with
      | nil => simp [hps] at hlen
      | cons a b => rfl
    have hl1 : ¬ ((st.parts.length : Int) = 1) := by omega
    simp only [isinstance_str_single, reSplitDot, hne, if_true, Bool.false_eq_true, if_false, ok_bind, len_list,
      List.length_map, pure_eq_ok, hp]
    cases outOrInVals sigs s <;> simp [hl1]
  | none => simp [hp]; cases outOrInVals sigs s <;> simp
  | int i => simp [hp]; cases outOrInVals sigs s <;> simp
  | num x => simp [hp]; cases outOrInVals sigs s <;> simp
  | tuple l => simp [hp]; cases outOrInVals sigs s <;> simp
  | other => simp [hp]; cases outOrInVals sigs s <;> simp

/-- **a list in `outlist`**: `_find_output_or_input_signal` of every element, ONE new entry. -/
theorem generated_outEntry_list (sigs : List SysSig) (outputs no : Val K) (none_ : Bool) (iout : Int)
    (acc : List (Val K)) (l : List (Val K)) (ss : List (Spec K)) (h : l.map tokenize = ss.map some) :
    Generated.icxOutList_loop1 none_ outputs sigs (acc, no) (iout, .list l) =
      (ss.mapM (outOrInVals sigs)).map fun vs => (acc ++ [.list vs.flatten], no) := by
  unfold Generated.icxOutList_loop1
  simp [outLoop9_eq sigs l ss h]
  cases ss.mapM (outOrInVals sigs) <;> simp

/-- **`generated_outEntry_single_model`**: tokenised, the appended entries are the model's
`preOutEntry (.single s)` (outputs searched before inputs). -/
theorem generated_outEntry_single_model (sigs : List SysSig) (hok : NamesOK sigs) (outputs no : Val K)
    (none_ : Bool) (iout : Int) (acc : List (Val K)) (v : Val K) (s : Spec K) (ht : tokenize v = some s)
    (hb : isBare v = false) (hl : isList v = false) :
    (Generated.icxOutList_loop1 none_ outputs sigs (acc, no) (iout, v)).map
        (fun st => (st.1.map readEntry, st.2)) =
      (preOutEntry sigs (.single s)).map fun r => (acc.map readEntry ++ r.1.map some, no) := by
  rw [generated_outEntry_single sigs outputs no none_ iout acc v s ht hb hl]
  have hm := outOrInVals_read sigs hok s
  simp only [preOutEntry]
  cases hv : outOrInVals sigs s with
  | error e => cases ho : outOrIn sigs s <;> simp_all
  | ok vs =>
    cases ho : outOrIn sigs s with
    | error e => simp_all
    | ok ts =>
      simp only [hv, ho, map_ok, Except.ok.injEq] at hm
      simp [hm]

omit [DecidableEq K] in
theorem mapM_tokenize_flatten (vss : List (List (Val K))) (tss : List (List (Spec K)))
    (h : vss.map (fun vs => vs.mapM tokenize) = tss.map some) :
    vss.flatten.mapM tokenize = some tss.flatten := by
  induction vss generalizing tss with
  | nil => cases tss with | nil => rfl | cons b r => simp at h
  | cons vs vss ih =>
    cases tss with
    | nil => simp at h
    | cons ts tss =>
      simp only [List.map_cons, List.cons.injEq] at h
      have := ih tss h.2
      simp [List.mapM_append, h.1, this]

/-- **`generated_outEntry_list_model`**: tokenised, the ONE appended entry is the model's
`preOutEntry (.list ss)`. -/
theorem generated_outEntry_list_model (sigs : List SysSig) (hok : NamesOK sigs) (outputs no : Val K)
    (none_ : Bool) (iout : Int) (acc : List (Val K)) (l : List (Val K)) (ss : List (Spec K))
    (h : l.map tokenize = ss.map some) :
    (Generated.icxOutList_loop1 none_ outputs sigs (acc, no) (iout, .list l)).map
        (fun st => (st.1.map readEntry, st.2)) =
      (preOutEntry sigs (.list ss)).map fun r => (acc.map readEntry ++ r.1.map some, no) := by
  rw [generated_outEntry_list sigs outputs no none_ iout acc l ss h]
  have hm := mapM_rel (outOrInVals sigs) (outOrIn sigs) (fun vs => vs.mapM tokenize) ss fun s _ => by
    have := outOrInVals_model sigs hok s
    cases hv : outOrInVals sigs s with
    | error e => cases ho : outOrIn sigs s <;> simp_all
    | ok vs =>
      cases ho : outOrIn sigs s with
      | error e => simp_all
      | ok ts =>
        simp only [hv, ho, map_ok, Except.ok.injEq] at this
        simp [mapM_of_map_eq tokenize vs ts this]
  simp only [preOutEntry]
  cases hv : ss.mapM (outOrInVals sigs) with
  | error e => cases ho : ss.mapM (outOrIn sigs) <;> simp_all
  | ok vss =>
    cases ho : ss.mapM (outOrIn sigs) with
    | error e => simp_all
    | ok tss =>
      simp only [hv, ho, map_ok, Except.ok.injEq] at hm
      simp [readEntry, mapM_tokenize_flatten vss tss hm]

end CtrlVerif.C07GenXL
