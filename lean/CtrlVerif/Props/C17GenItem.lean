/-
Source-text tie for C17, part 2 (tag py2lean-getitem), summary file: the three `__getitem__`
methods regenerated from /repo (`Generated/GetitemSS.lean`, `GetitemTF.lean`, `GetitemFRD.lean`) are
proved equal to the model in `Props/C17GenItemSS.lean`, `C17GenItemTF.lean`, `C17GenItemFRD.lean`
(`generated_ssGetitem_eq`, `generated_tfGetitem_eq`, `generated_frdGetitem_eq`, with the transported
`…_select_submatrix`, `…_labels_selected`, `…_returns_iff`, `…_raises_on_bad_selector`,
`…_name_eq_index`).  This file adds what concerns all three at once: the repaired integer rule
(`sys[-k, …]` is `sys[n-k, …]`, `sys[[i], …]` is `sys[i, …]`) for the three generated methods, and the
consistency of the two hand-written readings of NumPy indexing (`PyGet.axisIdx`, `C17Gen.useIdx`).
-/
import CtrlVerif.Props.C17GenItemSS
import CtrlVerif.Props.C17GenItemTF
import CtrlVerif.Props.C17GenItemFRD

namespace CtrlVerif.C17GenItem

open CtrlVerif Index C17Gen PyGet

/-- the trusted meaning of NumPy indexing on one axis used by the three generated `__getitem__`
(`PyGet.axisIdx`) is the one `Props/C17Gen.lean` uses to observe `_process_subsys_index`
(`useIdx`), on every index object that function can return without `slice_to_list`: a slice or a
list of integers. -/
theorem axisIdx_eq_useIdx (n : Nat) :
    (∀ a b c, axisIdx n (.slice a b c) = useIdx n (.slice a b c)) ∧
    (∀ l : List Int, axisIdx n (.list (l.map .int)) = useIdx n (.list (l.map .int))) := by
  refine ⟨fun a b c => rfl, fun l => ?_⟩
  rw [axisIdx_intList]
  simp only [useIdx, Py.mapM_map]
  exact Py.mapM_congr _ _ _ (fun a _ => rfl)

/-! ### the integer rule of the model, class independent -/

/-- in the model `sys[-k, c]` is `sys[p-k, c]` and `sys[r, -k]` is `sys[r, m-k]`, for every class. -/
theorem getitem_neg_int {P : Nat → Nat → Type} (ctor : Ctor P) (cfg : Cfg) (S : Sys P) (sel : Sel) :
    (∀ k : Nat, 1 ≤ k → k ≤ S.p →
      getitem ctor cfg S (.idx (-(k : Int))) sel = getitem ctor cfg S (.idx ((S.p : Int) - k)) sel) ∧
    (∀ k : Nat, 1 ≤ k → k ≤ S.m →
      getitem ctor cfg S sel (.idx (-(k : Int))) = getitem ctor cfg S sel (.idx ((S.m : Int) - k))) := by
  have key : ∀ (n k : Nat), 1 ≤ k → k ≤ n →
      processIdx n (.idx (-(k : Int))) = processIdx n (.idx ((n : Int) - k)) := by
    intro n k h1 h2
    simp only [processIdx]
    rw [intIdx_neg (by omega), intIdx_nonneg (by omega)]
    congr 3
    omega
  constructor
  · intro k h1 h2
    simp only [getitem, parseSel, bind, Except.bind, key S.p k h1 h2]
  · intro k h1 h2
    simp only [getitem, parseSel, bind, Except.bind, key S.m k h1 h2]

/-- in the model a singleton list is the integer it contains, on either axis, for every class. -/
theorem getitem_singleton {P : Nat → Nat → Type} (ctor : Ctor P) (cfg : Cfg) (S : Sys P) (sel : Sel)
    (i : Int) :
    getitem ctor cfg S (.list [.idx i]) sel = getitem ctor cfg S (.idx i) sel ∧
    getitem ctor cfg S sel (.list [.idx i]) = getitem ctor cfg S sel (.idx i) := by
  constructor <;>
    simp [getitem, parseSel, parseItem, processIdx, bind, Except.bind, pure, Except.pure, List.mapM_cons]

variable {K : Type} [Field K]

/-- `sys[-k, c]` is `sys[p-k, c]` for the `StateSpace.__getitem__` the source text defines (false of
the tree before the repair of `_process_subsys_index`, where `sys[-1, 0]` had no outputs). -/
theorem generated_ss_neg_int {n : Nat} (fuel : Nat) (cfg : Cfg) (S : Sys (SSB K n)) (sel : Sel)
    (k : Nat) (h1 : 1 ≤ k) (h2 : k ≤ S.p) :
    Generated.ssGetitem (fuel + 3) (defaultsOf cfg) (ssObj S) (pairKey (.idx (-(k : Int))) sel)
      = Generated.ssGetitem (fuel + 3) (defaultsOf cfg) (ssObj S) (pairKey (.idx ((S.p : Int) - k)) sel) := by
  simp only [generated_ssGetitem_eq, (getitem_neg_int ssCtor cfg S sel).1 k h1 h2]

/-- the same for `TransferFunction.__getitem__` … -/
theorem generated_tf_neg_int [DecidableEq K] (fuel : Nat) (cfg : Cfg) (S : Sys (TFB K)) (sel : Sel)
    (k : Nat) (h1 : 1 ≤ k) (h2 : k ≤ S.p) :
    Generated.tfGetitem (fuel + 3) (defaultsOf cfg) (tfObj S) (pairKey (.idx (-(k : Int))) sel)
      = Generated.tfGetitem (fuel + 3) (defaultsOf cfg) (tfObj S) (pairKey (.idx ((S.p : Int) - k)) sel) := by
  simp only [generated_tfGetitem_eq, (getitem_neg_int tfCtor cfg S sel).1 k h1 h2]

omit [Field K] in
/-- … and for `FrequencyResponseData.__getitem__`. -/
theorem generated_frd_neg_int {β : Type} (fuel : Nat) (cfg : Cfg) (S : Sys (FRDB K β))
    (hgrid : S.body.omega ≠ []) (sel : Sel) (k : Nat) (h1 : 1 ≤ k) (h2 : k ≤ S.p) :
    Generated.frdGetitem (fuel + 3) (defaultsOf cfg) (frdObj S) (pairKey (.idx (-(k : Int))) sel)
      = Generated.frdGetitem (fuel + 3) (defaultsOf cfg) (frdObj S) (pairKey (.idx ((S.p : Int) - k)) sel) := by
  simp only [generated_frdGetitem_eq _ _ _ _ _ hgrid, (getitem_neg_int frdCtor cfg S sel).1 k h1 h2]

/-- `sys[[i], c]` is `sys[i, c]` for the three generated methods (the singleton branch of
`_process_subsys_index` seen through each `__getitem__`). -/
theorem generated_singleton_eq_int [DecidableEq K] {n : Nat} {β : Type} (fuel : Nat) (cfg : Cfg)
    (S1 : Sys (SSB K n)) (S2 : Sys (TFB K)) (S3 : Sys (FRDB K β)) (hgrid : S3.body.omega ≠ [])
    (sel : Sel) (i : Int) :
    Generated.ssGetitem (fuel + 3) (defaultsOf cfg) (ssObj S1) (pairKey (.list [.idx i]) sel)
      = Generated.ssGetitem (fuel + 3) (defaultsOf cfg) (ssObj S1) (pairKey (.idx i) sel) ∧
    Generated.tfGetitem (fuel + 3) (defaultsOf cfg) (tfObj S2) (pairKey (.list [.idx i]) sel)
      = Generated.tfGetitem (fuel + 3) (defaultsOf cfg) (tfObj S2) (pairKey (.idx i) sel) ∧
    Generated.frdGetitem (fuel + 3) (defaultsOf cfg) (frdObj S3) (pairKey (.list [.idx i]) sel)
      = Generated.frdGetitem (fuel + 3) (defaultsOf cfg) (frdObj S3) (pairKey (.idx i) sel) := by
  refine ⟨?_, ?_, ?_⟩
  · simp only [generated_ssGetitem_eq, (getitem_singleton ssCtor cfg S1 sel i).1]
  · simp only [generated_tfGetitem_eq, (getitem_singleton tfCtor cfg S2 sel i).1]
  · simp only [generated_frdGetitem_eq _ _ _ _ _ hgrid, (getitem_singleton frdCtor cfg S3 sel i).1]

/-- non-vacuity of the integer rule on the concrete systems: `G[-1, :]`, `H[-2, 0]`. -/
example : Generated.ssGetitem 3 (defaultsOf ⟨"", "$indexed"⟩) (ssObj exSS)
      (pairKey (.idx (-1)) (.slice none none none))
    = Generated.ssGetitem 3 (defaultsOf ⟨"", "$indexed"⟩) (ssObj exSS)
      (pairKey (.idx 1) (.slice none none none)) :=
  generated_ss_neg_int 0 _ exSS _ 1 (by decide) (by decide)

example : Generated.tfGetitem 3 (defaultsOf ⟨"", "$indexed"⟩) (tfObj exTF) (pairKey (.idx (-2)) (.idx 0))
    = Generated.tfGetitem 3 (defaultsOf ⟨"", "$indexed"⟩) (tfObj exTF) (pairKey (.idx 0) (.idx 0)) :=
  generated_tf_neg_int 0 _ exTF _ 2 (by decide) (by decide)

example : Generated.frdGetitem 3 (defaultsOf ⟨"", "$indexed"⟩) (frdObj exFRD) (pairKey (.idx (-1)) (.idx 0))
    = Generated.frdGetitem 3 (defaultsOf ⟨"", "$indexed"⟩) (frdObj exFRD) (pairKey (.idx 1) (.idx 0)) :=
  generated_frd_neg_int 0 _ exFRD (by simp [exFRD]) _ 1 (by decide) (by decide)

end CtrlVerif.C17GenItem
