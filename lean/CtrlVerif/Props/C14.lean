/-
C14 — Discretisation and delay approximation implement their defining maps.

`G.Resp s Y` = "Y is the value of the transfer matrix of G at s" (Lemmas/SS.lean).  `K` is an
arbitrary field, all index types arbitrary finite types (all sizes, SISO and MIMO).
-/
import CtrlVerif.Lemmas.Discretize
import Mathlib.Analysis.Complex.Trigonometric
import Mathlib.LinearAlgebra.Matrix.Notation

namespace CtrlVerif.C14

open CtrlVerif Matrix SS

section gbt

variable {K : Type*} [Field K]
variable {σ ι o : Type*} [Fintype σ] [DecidableEq σ]

/-- **Generalised bilinear transformation.**  With `W` a left inverse of `I - αhA`, wherever the
substituted point `s = (z-1)/(h(αz+1-α))` is defined (`h(αz+1-α) ≠ 0`), the value of the
continuous transfer matrix at `s` is the value of the discretised one at `z`:
`Gd(z) = Gc((z-1)/(h(αz+1-α)))`. -/
theorem gbt_resp (G : SS σ ι o K) (α h : K) (W : Matrix σ σ K)
    (hW : W * (1 - (α * h) • G.A) = 1) (z : K) (hq : h * (α * z + 1 - α) ≠ 0)
    {Y : Matrix o ι K} (hY : G.Resp ((z - 1) / (h * (α * z + 1 - α))) Y) :
    (G.gbt α h W).Resp z Y := by
  obtain ⟨X, hX, rfl⟩ := hY
  have hs : h * (α * z + 1 - α) * ((z - 1) / (h * (α * z + 1 - α))) = z - 1 :=
    mul_div_self_cancel _ _ hq
  refine ⟨(h / (h * (α * z + 1 - α))) • X, ?_, ?_⟩
  · simp only [SS.gbt]
    rw [gbt_state_eq G.A W α h z _ X hW hq hs, hX]
  · simp only [SS.gbt]
    rw [← hX, gbt_output_eq G.A W G.C G.D α h _ _ X hW (gbt_scalar α h z hq)]

/-- converse (`h ≠ 0`): a response of the discretised system at `z` is a response of the
continuous one at the substituted point, so the two transfer matrices *coincide* there:
`Gd(z) = Gc((z-1)/(h(αz+1-α)))` in both directions. -/
theorem gbt_resp_conv (G : SS σ ι o K) (α h : K) (W : Matrix σ σ K)
    (hW : W * (1 - (α * h) • G.A) = 1) (hh : h ≠ 0) (z : K) (hq : h * (α * z + 1 - α) ≠ 0)
    {Y : Matrix o ι K} (hY : (G.gbt α h W).Resp z Y) :
    G.Resp ((z - 1) / (h * (α * z + 1 - α))) Y := by
  obtain ⟨Xd, hXd, rfl⟩ := hY
  have hW' : (1 - (α * h) • G.A) * W = 1 := mul_eq_one_comm.mp hW
  have hs : h * (α * z + 1 - α) * ((z - 1) / (h * (α * z + 1 - α))) = z - 1 :=
    mul_div_self_cancel _ _ hq
  -- Xd = (h/q) • X with X = (q/h) • Xd
  obtain ⟨X, rfl⟩ : ∃ X, Xd = (h / (h * (α * z + 1 - α))) • X := by
    refine ⟨((h * (α * z + 1 - α)) / h) • Xd, ?_⟩
    rw [smul_smul]
    have : h / (h * (α * z + 1 - α)) * (h * (α * z + 1 - α) / h) = 1 :=
      div_mul_div_self_cancel _ _ hh hq
    rw [this, one_smul]
  simp only [SS.gbt] at hXd ⊢
  rw [gbt_state_eq G.A W α h z _ X hW hq hs] at hXd
  have hB : ((z - 1) / (h * (α * z + 1 - α))) • (1 : Matrix σ σ K) * X - G.A * X = G.B := by
    have h2 := congrArg (fun M => (1 - (α * h) • G.A) * M) hXd
    simp only [← Matrix.mul_assoc, hW', Matrix.one_mul] at h2
    have h3 := smul_right_injective (Matrix σ ι K) hh h2
    rw [← h3, Matrix.sub_mul]
  refine ⟨X, by rw [Matrix.sub_mul]; exact hB, ?_⟩
  rw [← hB, ← Matrix.sub_mul, gbt_output_eq G.A W G.C G.D α h _ _ X hW (gbt_scalar α h z hq)]

/-- `method='euler'` / `'forward_diff'` (α = 0, `W = I`): `Gd(z) = Gc((z-1)/h)`. -/
theorem euler_resp (G : SS σ ι o K) (h : K) (hh : h ≠ 0) (z : K) {Y : Matrix o ι K}
    (hY : G.Resp ((z - 1) / h) Y) : (G.gbt 0 h 1).Resp z Y := by
  have hW : (1 : Matrix σ σ K) * (1 - ((0 : K) * h) • G.A) = 1 := by simp
  have hq : h * (0 * z + 1 - 0) ≠ 0 := by simpa using hh
  refine gbt_resp G 0 h 1 hW z hq ?_
  have : (z - 1) / (h * (0 * z + 1 - 0)) = (z - 1) / h := by simp
  rw [this]; exact hY

/-- `method='backward_diff'` (α = 1): `Gd(z) = Gc((z-1)/(h z))`. -/
theorem backward_diff_resp (G : SS σ ι o K) (h : K) (W : Matrix σ σ K)
    (hW : W * (1 - h • G.A) = 1) (z : K) (hq : h * z ≠ 0) {Y : Matrix o ι K}
    (hY : G.Resp ((z - 1) / (h * z)) Y) : (G.gbt 1 h W).Resp z Y := by
  have hW' : W * (1 - ((1 : K) * h) • G.A) = 1 := by simpa using hW
  have e : h * (1 * z + 1 - 1) = h * z := by ring
  refine gbt_resp G 1 h W hW' z (by rw [e]; exact hq) ?_
  rw [e]; exact hY

/-- `method='bilinear'` / `'tustin'` (α = ½): `Gd(z) = Gc(2(z-1)/(h(z+1)))`. -/
theorem bilinear_resp [NeZero (2 : K)] (G : SS σ ι o K) (h : K) (W : Matrix σ σ K)
    (hW : W * (1 - (h / 2) • G.A) = 1) (z : K) (hq : h * (z + 1) ≠ 0) {Y : Matrix o ι K}
    (hY : G.Resp (2 * (z - 1) / (h * (z + 1))) Y) : (G.gbt (1 / 2) h W).Resp z Y := by
  have h2 : (2 : K) ≠ 0 := NeZero.ne 2
  have hW' : W * (1 - ((1 / 2 : K) * h) • G.A) = 1 := by
    have : (1 / 2 : K) * h = h / 2 := by ring
    rw [this]; exact hW
  have e : h * (1 / 2 * z + 1 - 1 / 2) = h * (z + 1) / 2 := by field_simp; ring
  have hq' : h * (1 / 2 * z + 1 - 1 / 2) ≠ 0 := by
    rw [e]; exact div_ne_zero hq h2
  refine gbt_resp G (1 / 2) h W hW' z hq' ?_
  have : (z - 1) / (h * (1 / 2 * z + 1 - 1 / 2)) = 2 * (z - 1) / (h * (z + 1)) := by
    rw [e]; field_simp
  rw [this]; exact hY

/-- the point a prewarped Tustin transformation evaluates the continuous system at: with
`j² = -1`, `t = tan(ω Ts/2)`, step `Twarp = 2t/ω` and `z = (1 + jt)/(1 - jt)` (`= e^{jωTs}`,
see `exp_eq_cayley_tan`), the substituted point is exactly `jω`. -/
theorem prewarp_point [NeZero (2 : K)] (j t ω : K) (hj : j * j = -1) (hω : ω ≠ 0) (ht : t ≠ 0)
    (h1 : 1 - j * t ≠ 0) :
    2 * ((1 + j * t) / (1 - j * t) - 1) / (2 * t / ω * ((1 + j * t) / (1 - j * t) + 1)) = j * ω := by
  have h2 : (2 : K) ≠ 0 := NeZero.ne 2
  have e1 : (1 + j * t) / (1 - j * t) - 1 = 2 * j * t / (1 - j * t) := by field_simp; ring
  have e2 : (1 + j * t) / (1 - j * t) + 1 = 2 / (1 - j * t) := by field_simp; ring
  rw [e1, e2]
  field_simp

/-- **Prewarping**: the prewarped bilinear discretisation (step `2 tan(ωTs/2)/ω`) has, at
`z = (1+jt)/(1-jt) = e^{jωTs}`, the value of the continuous system at `jω`. -/
theorem prewarp_match [NeZero (2 : K)] (G : SS σ ι o K) (j t ω : K) (hj : j * j = -1) (hω : ω ≠ 0)
    (ht : t ≠ 0) (h1 : 1 - j * t ≠ 0) (W : Matrix σ σ K)
    (hW : W * (1 - ((2 * t / ω) / 2) • G.A) = 1) {Y : Matrix o ι K} (hY : G.Resp (j * ω) Y) :
    (G.gbt (1 / 2) (2 * t / ω) W).Resp ((1 + j * t) / (1 - j * t)) Y := by
  have h2 : (2 : K) ≠ 0 := NeZero.ne 2
  have e2 : (1 + j * t) / (1 - j * t) + 1 = 2 / (1 - j * t) := by field_simp; ring
  refine bilinear_resp G (2 * t / ω) W hW _ ?_ ?_
  · rw [e2]
    exact mul_ne_zero (div_ne_zero (mul_ne_zero h2 ht) hω) (div_ne_zero h2 h1)
  · rw [prewarp_point j t ω hj hω ht h1]; exact hY

end gbt

/-! ### the run-time layer: `StateSpace.sample` / `sample_system` -/

section sample

variable {K : Type} [Field K] [LinearOrder K] [IsStrictOrderedRing K]

/-- the generalised bilinear branch either raises or returns exactly `SS.gbt` with the certified
inverse of `I - αhA` and timebase `Ts`. -/
theorem gbtCore_ok (G : DSS K) (Ts : ℚ) (h : K) (method : C2dMethod) (alpha : Option K) {R : DSS K}
    (hR : DSS.gbtCore G Ts h method alpha = .ok R) :
    ∃ a, gbtAlpha method alpha = .ok a ∧ (SS.gbtIma a h G.sys).det ≠ 0 ∧
      R = ⟨G.n, G.p, G.m, G.sys.gbt a h (SS.invQ (SS.gbtIma a h G.sys)), .disc Ts⟩ := by
  unfold DSS.gbtCore at hR
  cases ha : gbtAlpha method alpha with
  | error e => simp [ha] at hR
  | ok a =>
    simp only [ha] at hR
    split_ifs at hR with hd
    exact ⟨a, rfl, hd, (Except.ok.inj hR).symm⟩

theorem sampleCore_dt (G : DSS K) (Ts : ℚ) (h : K) (method : C2dMethod) (alpha : Option K) (ext)
    {R : DSS K} (hR : DSS.sampleCore G Ts h method alpha ext = .ok R) :
    R.dt = .disc Ts ∧ R.n = G.n ∧ R.p = G.p ∧ R.m = G.m := by
  unfold DSS.sampleCore at hR
  cases method <;> simp only [] at hR
  case zoh =>
    unfold DSS.zohCore at hR
    split_ifs at hR
    · cases Except.ok.inj hR; exact ⟨rfl, rfl, rfl, rfl⟩
    · cases ext with
      | none => simp at hR
      | some E => cases Except.ok.inj hR; exact ⟨rfl, rfl, rfl, rfl⟩
  all_goals first
    | (obtain ⟨a, _, _, rfl⟩ := gbtCore_ok G Ts h _ alpha hR; exact ⟨rfl, rfl, rfl, rfl⟩)
    | (exact absurd hR (by simp))

/-- what `sample` checks before discretising. -/
theorem sample_inv (G : DSS K) (Ts : ℚ) (method : C2dMethod) (alpha : Option K)
    (pw : Option (Prewarp K)) (ext) {R : DSS K}
    (hR : G.sample Ts method alpha pw ext = .ok R) :
    G.dt.isCt = true ∧ 0 < Ts ∧ ∃ h, twarp method alpha Ts pw = .ok h ∧
      DSS.sampleCore G Ts h method alpha ext = .ok R := by
  unfold DSS.sample at hR
  split_ifs at hR with h1 h2
  cases htw : twarp method alpha Ts pw with
  | error e => simp [htw] at hR
  | ok h =>
    simp only [htw] at hR
    exact ⟨by simpa using h1, h2, h, rfl, hR⟩

/-- **Timebase**: whenever `sample` returns, the result has timebase exactly `Ts` — for every
method, with or without prewarping (the warped step is never stored) — and the dimensions of
the continuous system. -/
theorem sample_dt (G : DSS K) (Ts : ℚ) (method : C2dMethod) (alpha : Option K)
    (pw : Option (Prewarp K)) (ext) {R : DSS K}
    (hR : G.sample Ts method alpha pw ext = .ok R) :
    R.dt = .disc Ts ∧ R.n = G.n ∧ R.p = G.p ∧ R.m = G.m := by
  obtain ⟨_, _, h, _, hc⟩ := sample_inv G Ts method alpha pw ext hR
  exact sampleCore_dt G Ts h method alpha ext hc

/-- **Defining relation of `sample` for the generalised bilinear family**: when `sample` returns
`R` for a method with parameter `α` (`gbtAlpha`) and step `h` (`twarp`: `Ts`, or
`2 tan(ωTs/2)/ω` when prewarping), `R` has the dimensions of `G`, timebase `Ts`, and its
transfer matrix at every `z` with `h(αz+1-α) ≠ 0` is the continuous one at
`(z-1)/(h(αz+1-α))`. -/
theorem sample_gbt_resp (G : DSS K) (Ts : ℚ) (method : C2dMethod) (alpha : Option K)
    (pw : Option (Prewarp K)) (ext) {R : DSS K}
    (hR : G.sample Ts method alpha pw ext = .ok R) (hm : method ≠ .zoh) :
    ∃ a h, gbtAlpha method alpha = .ok a ∧ twarp method alpha Ts pw = .ok h ∧
      ∃ S : SS (Fin G.n) (Fin G.m) (Fin G.p) K, R = ⟨G.n, G.p, G.m, S, .disc Ts⟩ ∧
        ∀ (z : K) (Y : Matrix (Fin G.p) (Fin G.m) K), h * (a * z + 1 - a) ≠ 0 →
          G.sys.Resp ((z - 1) / (h * (a * z + 1 - a))) Y → S.Resp z Y := by
  obtain ⟨_, _, h, htw, hc⟩ := sample_inv G Ts method alpha pw ext hR
  have key : ∀ m' : C2dMethod, m' = method → DSS.gbtCore G Ts h m' alpha = .ok R →
      ∃ a h, gbtAlpha method alpha = .ok a ∧ twarp method alpha Ts pw = .ok h ∧
      ∃ S : SS (Fin G.n) (Fin G.m) (Fin G.p) K, R = ⟨G.n, G.p, G.m, S, .disc Ts⟩ ∧
        ∀ (z : K) (Y : Matrix (Fin G.p) (Fin G.m) K), h * (a * z + 1 - a) ≠ 0 →
          G.sys.Resp ((z - 1) / (h * (a * z + 1 - a))) Y → S.Resp z Y := by
    intro m' hm' hg
    subst hm'
    obtain ⟨a, ha, hd, rfl⟩ := gbtCore_ok G Ts h _ alpha hg
    refine ⟨a, h, ha, htw, _, rfl, ?_⟩
    intro z Y hq hY
    exact gbt_resp G.sys a h _ (invQ_mul_self _ hd) z hq hY
  unfold DSS.sampleCore at hc
  cases method <;> simp only [] at hc
  case zoh => exact absurd rfl hm
  all_goals first
    | exact key _ rfl hc
    | exact absurd hc (by simp)

/-- a discrete-time system (`dt = True` or a sampling time) is rejected. -/
theorem sample_not_continuous_raises (G : DSS K) (Ts : ℚ) (method : C2dMethod) (alpha : Option K)
    (pw : Option (Prewarp K)) (ext) (h : G.dt.isCt = false) :
    G.sample Ts method alpha pw ext = .error .timebase := by
  unfold DSS.sample
  simp [h]

/-- `'gbt'` without `alpha`, or with `alpha` outside `[0, 1]`, raises. -/
theorem gbt_alpha_raises (alpha : Option K) (h : alpha = none ∨ ∃ a, alpha = some a ∧ (a < 0 ∨ 1 < a)) :
    gbtAlpha C2dMethod.gbt alpha = .error .badArg := by
  rcases h with rfl | ⟨a, rfl, ha⟩
  · rfl
  · simp [gbtAlpha, ha]

/-- the method → α map: `bilinear`/`tustin` ½, `euler`/`forward_diff` 0, `backward_diff` 1
(any `alpha` argument is ignored), `gbt` the validated argument. -/
theorem gbtAlpha_table (alpha : Option K) :
    gbtAlpha C2dMethod.bilinear alpha = .ok (1 / 2) ∧ gbtAlpha C2dMethod.tustin alpha = .ok (1 / 2) ∧
    gbtAlpha C2dMethod.euler alpha = .ok 0 ∧ gbtAlpha C2dMethod.forwardDiff alpha = .ok 0 ∧
    gbtAlpha C2dMethod.backwardDiff alpha = .ok 1 ∧
    ∀ a : K, 0 ≤ a → a ≤ 1 → gbtAlpha C2dMethod.gbt (some a) = .ok a := by
  refine ⟨rfl, rfl, rfl, rfl, rfl, ?_⟩
  intro a h0 h1
  simp [gbtAlpha, not_lt.mpr h0, not_lt.mpr h1]

/-- a singular `I - αhA` (the substitution has a pole of the system at `z = ∞`) raises, and
otherwise the generalised bilinear branch returns. -/
theorem gbtCore_singular_iff (G : DSS K) (Ts : ℚ) (h : K) (method : C2dMethod) (alpha : Option K)
    (a : K) (ha : gbtAlpha method alpha = .ok a) :
    DSS.gbtCore G Ts h method alpha = .error .illPosed ↔ (SS.gbtIma a h G.sys).det = 0 := by
  unfold DSS.gbtCore
  simp only [ha]
  split_ifs with hd <;> simp [hd]

/-- the prewarp decision: no frequency → `Ts`; a frequency with an incompatible method → `Ts`
(ignored); `bilinear`, `tustin` or `gbt` with `α = ½` → `2 tan(ωTs/2)/ω`. -/
theorem twarp_table (Ts : ℚ) (alpha : Option K) (pw : Prewarp K) (hw : pw.w ≠ 0) (m : C2dMethod) :
    twarp m alpha Ts none = .ok (Ts : K) ∧
    twarp C2dMethod.bilinear alpha Ts (some pw) = .ok (2 * pw.tanv / pw.w) ∧
    twarp C2dMethod.tustin alpha Ts (some pw) = .ok (2 * pw.tanv / pw.w) ∧
    twarp C2dMethod.gbt (some (1 / 2)) Ts (some pw) = .ok (2 * pw.tanv / pw.w) ∧
    twarp C2dMethod.euler alpha Ts (some pw) = .ok (Ts : K) ∧
    twarp C2dMethod.backwardDiff alpha Ts (some pw) = .ok (Ts : K) ∧
    twarp C2dMethod.zoh alpha Ts (some pw) = .ok (Ts : K) ∧
    (alpha ≠ some (1 / 2) → twarp C2dMethod.gbt alpha Ts (some pw) = .ok (Ts : K)) := by
  refine ⟨rfl, ?_, ?_, ?_, ?_, ?_, ?_, ?_⟩ <;> simp [twarp, prewarpApplies, hw]
  intro h1 h2; exact absurd h2 h1

/-- prewarp frequency `0`: the step is `Ts` (limit of `2 tan(ωTs/2)/ω`). -/
theorem twarp_zero (Ts : ℚ) (alpha : Option K) (pw : Prewarp K) (hw : pw.w = 0) (m : C2dMethod) :
    twarp m alpha Ts (some pw) = .ok (Ts : K) := by
  simp [twarp, hw]

/-- zero-order hold in `sample`: for a nilpotent `A` the blocks are the exact exponential series
(`zoh_series_blocks`), otherwise the upper blocks of the supplied `expm`; `C`, `D` unchanged. -/
theorem zohCore_eq (G : DSS K) (Ts : ℚ) (h : K)
    (E : Matrix (Fin G.n ⊕ Fin G.m) (Fin G.n ⊕ Fin G.m) K) :
    (G.sys.A ^ G.n = 0 → ∀ ext, DSS.zohCore G Ts h ext = .ok ⟨G.n, G.p, G.m,
      ⟨SS.zohAd h G.sys.A G.n, SS.zohBd h G.sys.A G.sys.B G.n, G.sys.C, G.sys.D⟩, .disc Ts⟩) ∧
    (G.sys.A ^ G.n ≠ 0 → DSS.zohCore G Ts h (some E) = .ok ⟨G.n, G.p, G.m, G.sys.zoh E, .disc Ts⟩) := by
  constructor
  · intro hA ext; simp [DSS.zohCore, hA]
  · intro hA; simp [DSS.zohCore, hA]

end sample

/-! ### transfer-function path -/

section tfpath

variable {K : Type} [Field K] [DecidableEq K]

/-- **Transfer-function path.**  When `tfGbt α h num den` returns `(nd, dd)`, then at every `z`
with `q = h(αz+1-α) ≠ 0` that is not mapped to a pole of `num/den`, `dd(z) ≠ 0` and
`nd(z)/dd(z) = num(s)/den(s)` at `s = (z-1)/q`. -/
theorem tfGbt_eval (α h : K) (num den nd dd : List K) (hr : tfGbt α h num den = .ok (nd, dd))
    (z : K) (hq : h * (α * z + 1 - α) ≠ 0)
    (hden : polyval den ((z - 1) / (h * (α * z + 1 - α))) ≠ 0) :
    polyval dd z ≠ 0 ∧
      polyval nd z / polyval dd z
        = polyval num ((z - 1) / (h * (α * z + 1 - α))) / polyval den ((z - 1) / (h * (α * z + 1 - α))) := by
  unfold tfGbt at hr
  simp only at hr
  split_ifs at hr with h1 h2 h3
  obtain ⟨rfl, rfl⟩ := Prod.mk.inj (Except.ok.inj hr)
  have hA : polyval ([1, -1] : List K) z = z - 1 := by simp [polyval]; ring
  have hB : polyval ([h * α, h * (1 - α)] : List K) z = h * (α * z + 1 - α) := by
    simp [polyval]; ring
  have hB' : polyval ([h * α, h * (1 - α)] : List K) z ≠ 0 := by rw [hB]; exact hq
  have hlen : (trim den).length = (trim den).length - 1 + 1 := by
    have : (trim den).length ≠ 0 := by
      intro h0
      have : trim den = [] := List.length_eq_zero_iff.mp h0
      simp [this, isZero] at h1
    omega
  have hlenN : (padLeft ((trim den).length - 1 + 1) (trim num)).length = (trim den).length - 1 + 1 := by
    rw [length_padLeft]; omega
  have eD := polyval_homog_rev [1, -1] [h * α, h * (1 - α)] (trim den) _ hlen z hB'
  have eN := polyval_homog_rev [1, -1] [h * α, h * (1 - α)] _ _ hlenN z hB'
  rw [hA, hB, polyval_trim] at eD
  rw [hA, hB, polyval_padLeft, polyval_trim] at eN
  simp only [polyval_padLeft, polyval_trim, polyval_map_div]
  rw [eD, eN]
  have hpow : (h * (α * z + 1 - α)) ^ ((trim den).length - 1) ≠ 0 := pow_ne_zero _ hq
  refine ⟨div_ne_zero (mul_ne_zero hpow hden) h3, ?_⟩
  field_simp

/-- **State-space and transfer-function inputs give the same result**: for any state-space
realisation `G` of `num/den` (at the substituted point), the discretised realisation has at `z`
the value `nd(z)/dd(z)` of the discretised transfer function. -/
theorem ss_tf_same {σ : Type*} [Fintype σ] [DecidableEq σ] (G : SS σ (Fin 1) (Fin 1) K)
    (α h : K) (W : Matrix σ σ K) (hW : W * (1 - (α * h) • G.A) = 1)
    (num den nd dd : List K) (hr : tfGbt α h num den = .ok (nd, dd))
    (z : K) (hq : h * (α * z + 1 - α) ≠ 0)
    (hden : polyval den ((z - 1) / (h * (α * z + 1 - α))) ≠ 0)
    (hG : G.Resp ((z - 1) / (h * (α * z + 1 - α)))
      (fun _ _ => polyval num ((z - 1) / (h * (α * z + 1 - α)))
        / polyval den ((z - 1) / (h * (α * z + 1 - α))))) :
    (G.gbt α h W).Resp z (fun _ _ => polyval nd z / polyval dd z) := by
  rw [(tfGbt_eval α h num den nd dd hr z hq hden).2]
  exact gbt_resp G α h W hW z hq hG

/-- improper transfer functions and zero denominators are rejected (SciPy's `tf2ss` raises). -/
theorem tfGbt_improper_raises (α h : K) (num den : List K) (hd : isZero (trim den) = false)
    (hl : (trim den).length < (trim num).length) : tfGbt α h num den = .error .nonProper := by
  unfold tfGbt
  simp [hd, hl]

end tfpath

section tfsample

variable {K : Type} [Field K] [LinearOrder K] [IsStrictOrderedRing K]

/-- `TransferFunction.sample` (generalised bilinear family): the result has timebase exactly `Ts`
and is the substituted transfer function for the method's `α` and the (pre)warped step. -/
theorem tfSample_dt (num den : List K) (dt : Dt) (Ts : ℚ) (method : C2dMethod) (alpha : Option K)
    (pw : Option (Prewarp K)) {nd dd : List K} {d : Dt}
    (hR : tfSample num den dt Ts method alpha pw = .ok (nd, dd, d)) :
    d = .disc Ts ∧ dt.isCt = true ∧ 0 < Ts ∧
      ∃ a h, gbtAlpha method alpha = .ok a ∧ twarp method alpha Ts pw = .ok h ∧
        tfGbt a h num den = .ok (nd, dd) := by
  unfold tfSample at hR
  split_ifs at hR with h1 h2
  generalize htw : twarp method alpha Ts pw = tw at hR
  cases tw with
  | error e => simp at hR
  | ok h =>
    simp only at hR
    have key : ∀ m' : C2dMethod, tfGbtCore num den Ts h m' alpha = .ok (nd, dd, d) →
        d = .disc Ts ∧ ∃ a, gbtAlpha m' alpha = .ok a ∧ tfGbt a h num den = .ok (nd, dd) := by
      intro m' hg
      unfold tfGbtCore at hg
      cases ha : gbtAlpha m' alpha with
      | error e => simp [ha] at hg
      | ok a =>
        simp only [ha] at hg
        cases ht : tfGbt a h num den with
        | error e => simp [ht] at hg
        | ok r =>
          obtain ⟨n', d'⟩ := r
          simp only [ht] at hg
          obtain ⟨rfl, rfl, rfl⟩ : n' = nd ∧ d' = dd ∧ Dt.disc Ts = d := by
            simpa using hg
          exact ⟨rfl, a, rfl, ht⟩
    have fin : ∀ m' : C2dMethod, m' = method → tfGbtCore num den Ts h m' alpha = .ok (nd, dd, d) →
        d = .disc Ts ∧ dt.isCt = true ∧ 0 < Ts ∧
          ∃ a h', gbtAlpha method alpha = .ok a ∧ (Except.ok h : Except Err K) = .ok h' ∧
            tfGbt a h' num den = .ok (nd, dd) := by
      intro m' hm' hg
      subst hm'
      obtain ⟨hd, a, ha, ht⟩ := key m' hg
      exact ⟨hd, by simpa using h1, h2, a, h, ha, rfl, ht⟩
    cases method <;> try simp only [] at hR
    all_goals first
      | exact fin _ rfl hR
      | exact absurd hR (by simp)

end tfsample

/-! ### zero-order hold -/

section zoh

variable {K : Type*} [Field K]
variable {σ ι o : Type*} [Fintype σ] [DecidableEq σ] [Fintype ι] [DecidableEq ι]

/-- the truncated exponential series of `h [[A, B], [0, 0]]` has the blocks the model computes
for a nilpotent `A` (`A ^ n = 0`, so the series is the exponential). -/
theorem zoh_series_blocks (A : Matrix σ σ K) (B : Matrix σ ι K) (h : K) (n : Nat) (hA : A ^ n = 0) :
    ∑ j ∈ Finset.range (n + 1),
        (h ^ j / (j.factorial : K)) • (fromBlocks A B (0 : Matrix ι σ K) (0 : Matrix ι ι K)) ^ j
      = fromBlocks (SS.zohAd h A n) (SS.zohBd h A B n) (0 : Matrix ι σ K) 1 := by
  rw [Finset.sum_range_succ']
  simp only [fromBlocks_zero_pow_succ, fromBlocks_smul, smul_zero]
  rw [sum_fromBlocks_top]
  have e0 : (h ^ 0 / ((Nat.factorial 0 : Nat) : K)) • (fromBlocks A B (0 : Matrix ι σ K) 0) ^ 0
      = fromBlocks 1 0 0 1 := by simp [fromBlocks_one]
  rw [e0, fromBlocks_add]
  congr 1
  · have : SS.zohAd h A n = SS.zohAd h A (n + 1) := by
      unfold SS.zohAd
      rw [Finset.sum_range_succ, hA, smul_zero, add_zero]
    rw [this]
    unfold SS.zohAd
    rw [Finset.sum_range_succ' _ n]
    simp
  · unfold SS.zohBd
    rw [Matrix.sum_mul, add_zero]
    refine Finset.sum_congr rfl fun j _ => ?_
    rw [Matrix.smul_mul]
  · simp
  · simp

/-- **Zero-order hold reproduces the sampled continuous response** (given `expm`): let `F` be the
flow of the augmented system `(x, u)' = [[A, B], [0, 0]] (x, u)` (`ExpFlow`: semigroup, input
rows `[0, I]`), `ξ k = Φ(k h) (x₀, u)` the continuous trajectory with the input held at `u`
(for `x₀ = 0`, `u = 1` the step response) sampled at `t = k h`.  Then its state part obeys the
recursion of the discretised system `SS.zoh (Φ h) G`:
`x((k+1)h) = Ad x(kh) + Bd u`, the input part stays `u`, and the outputs coincide. -/
theorem zoh_step (F : ExpFlow σ ι K) (G : SS σ ι o K) (h : K) (x₀ : σ → K) (u : ι → K) (k : Nat) :
    let ξ : Nat → (σ ⊕ ι → K) := fun k => F.Φ (k * h) *ᵥ Sum.elim x₀ u
    (ξ (k + 1) ∘ Sum.inl = (G.zoh (F.Φ h)).A *ᵥ (ξ k ∘ Sum.inl) + (G.zoh (F.Φ h)).B *ᵥ (ξ k ∘ Sum.inr))
      ∧ (ξ (k + 1) ∘ Sum.inr = ξ k ∘ Sum.inr) := by
  intro ξ
  have hstep : ξ (k + 1) = F.Φ h *ᵥ ξ k := by
    simp only [ξ]
    have : ((k + 1 : Nat) : K) * h = h + (k : K) * h := by push_cast; ring
    rw [this, F.add, Matrix.mulVec_mulVec]
  have hsplit : ξ k = Sum.elim (ξ k ∘ Sum.inl) (ξ k ∘ Sum.inr) := by
    funext i; cases i <;> rfl
  have hΦ : F.Φ h = fromBlocks (F.Φ h).toBlocks₁₁ (F.Φ h).toBlocks₁₂ 0 1 := by
    conv_lhs => rw [← fromBlocks_toBlocks (F.Φ h), F.low₂₁, F.low₂₂]
  rw [hstep, hΦ, hsplit, fromBlocks_mulVec]
  constructor
  · funext i
    simp [SS.zoh, ← hΦ]
  · funext i
    simp

end zoh

/-! ### pole/zero matching -/

section matched
variable {K : Type} [Field K] [DecidableEq K]

/-- what `_c2d_matched` returns. -/
theorem matched_inv (num den zeros poles : List K) (E : K → K) (Ts : ℚ) {nd dd : List K} {d : Dt}
    (hr : c2dMatched num den zeros poles E Ts = .ok (nd, dd, d)) :
    0 < Ts ∧ polyval den 0 ≠ 0 ∧ polyval num 0 ≠ 0 ∧
    ((zeros.map fun s => 1 - E (s * (Ts : K))).prod ≠ 0) ∧
    ((poles.map fun s => 1 - E (s * (Ts : K))).prod ≠ 0) ∧
    nd = scale ((polyval num 0 / polyval den 0)
          / ((zeros.map fun s => 1 - E (s * (Ts : K))).prod
              / (poles.map fun s => 1 - E (s * (Ts : K))).prod))
        (polyOfRoots (zeros.map fun s => E (s * (Ts : K)))) ∧
    dd = polyOfRoots (poles.map fun s => E (s * (Ts : K))) ∧ d = .disc Ts := by
  unfold c2dMatched at hr
  simp only [List.map_map] at hr
  split_ifs at hr with h1 h2
  · simp only [not_or] at h2
    obtain ⟨a, b, c, e⟩ := h2
    simp only [Except.ok.injEq, Prod.mk.injEq] at hr
    obtain ⟨rfl, rfl, rfl⟩ := hr
    exact ⟨h1, a, b, c, e, rfl, rfl, rfl⟩

/-- **Matched method keeps the DC gain**: the discrete value at `z = 1` equals the continuous
value at `s = 0` (neither is a pole: the model raises otherwise), and the timebase is `Ts`. -/
theorem matched_dcgain (num den zeros poles : List K) (E : K → K) (Ts : ℚ) {nd dd : List K} {d : Dt}
    (hr : c2dMatched num den zeros poles E Ts = .ok (nd, dd, d)) :
    polyval dd 1 ≠ 0 ∧ polyval nd 1 / polyval dd 1 = polyval num 0 / polyval den 0 ∧ d = .disc Ts := by
  obtain ⟨_, hd0, hn0, hgn, hgd, rfl, rfl, rfl⟩ := matched_inv num den zeros poles E Ts hr
  have e1 : polyval (polyOfRoots (poles.map fun s => E (s * (Ts : K)))) 1
      = (poles.map fun s => 1 - E (s * (Ts : K))).prod := by
    rw [polyval_polyOfRoots, List.map_map]; rfl
  have e2 : polyval (polyOfRoots (zeros.map fun s => E (s * (Ts : K)))) 1
      = (zeros.map fun s => 1 - E (s * (Ts : K))).prod := by
    rw [polyval_polyOfRoots, List.map_map]; rfl
  rw [polyval_scale, e1, e2]
  refine ⟨hgd, ?_, rfl⟩
  generalize (zeros.map fun s => 1 - E (s * (Ts : K))).prod = gn at hgn ⊢
  generalize (poles.map fun s => 1 - E (s * (Ts : K))).prod = gd at hgd ⊢
  field_simp

/-- **Matched method maps poles and zeros through `E = exp(· Ts)`**: the roots of the discrete
denominator are exactly the images of the continuous poles, those of the numerator the images of
the zeros. -/
theorem matched_roots (num den zeros poles : List K) (E : K → K) (Ts : ℚ) {nd dd : List K} {d : Dt}
    (hr : c2dMatched num den zeros poles E Ts = .ok (nd, dd, d)) (z : K) :
    (polyval dd z = 0 ↔ ∃ p ∈ poles, z = E (p * (Ts : K))) ∧
    (polyval nd z = 0 ↔ ∃ s ∈ zeros, z = E (s * (Ts : K))) := by
  obtain ⟨_, hd0, hn0, hgn, hgd, rfl, rfl, rfl⟩ := matched_inv num den zeros poles E Ts hr
  have root_iff : ∀ l : List K, (l.map (z - ·)).prod = 0 ↔ z ∈ l := by
    intro l
    rw [List.prod_eq_zero_iff]
    simp only [List.mem_map]
    constructor
    · rintro ⟨a, ha, h0⟩
      have : z = a := sub_eq_zero.mp h0
      rw [this]; exact ha
    · intro hz; exact ⟨z, hz, sub_self z⟩
  constructor
  · rw [polyval_polyOfRoots, root_iff, List.mem_map]
    constructor
    · rintro ⟨p, hp, rfl⟩; exact ⟨p, hp, rfl⟩
    · rintro ⟨p, hp, rfl⟩; exact ⟨p, hp, rfl⟩
  · rw [polyval_scale, polyval_polyOfRoots]
    have hg : (polyval num 0 / polyval den 0)
          / ((zeros.map fun s => 1 - E (s * (Ts : K))).prod
              / (poles.map fun s => 1 - E (s * (Ts : K))).prod) ≠ 0 :=
      div_ne_zero (div_ne_zero hn0 hd0) (div_ne_zero hgn hgd)
    rw [mul_eq_zero, or_iff_right hg, root_iff, List.mem_map]
    constructor
    · rintro ⟨p, hp, rfl⟩; exact ⟨p, hp, rfl⟩
    · rintro ⟨p, hp, rfl⟩; exact ⟨p, hp, rfl⟩

/-- a pole or zero at `s = 0` (DC gain `∞` or `0`), or one mapped to `z = 1`, raises: the gain
`dcgain / zgain` would be `0/0` or `∞/∞`. -/
theorem matched_origin_raises (num den zeros poles : List K) (E : K → K) (Ts : ℚ) (hT : 0 < Ts)
    (h : polyval den 0 = 0 ∨ polyval num 0 = 0) :
    c2dMatched num den zeros poles E Ts = .error .illPosed := by
  unfold c2dMatched
  rcases h with h | h <;> simp [hT, h]

end matched

/-! ### names and signal labels -/

/-- with `copy_names` (default) the sampled system carries the labels of the continuous one and
the name `<name>$sampled`; without it generic ones; an explicit `name` wins in both cases. -/
theorem sampleNames_spec (src : Names) (name : Option String) :
    sampleNames src true name none none none
      = .ok ⟨(match name with | some s => some s | none => src.name.map (· ++ "$sampled")),
          src.inputs, src.outputs, src.states⟩ ∧
    sampleNames src false name none none none
      = .ok ⟨name, genericLabels "u" src.inputs.length, genericLabels "y" src.outputs.length,
          genericLabels "x" src.states.length⟩ := by
  cases name <;> exact ⟨rfl, rfl⟩

/-- a label keyword of the wrong length raises. -/
theorem sampleNames_wrong_length (src : Names) (copy : Bool) (name : Option String) (l : List String)
    (h : l.length ≠ src.inputs.length) (o s : Option (List String)) :
    sampleNames src copy name (some l) o s = .error .badArg := by
  cases copy <;> simp [sampleNames, overrideLabels, h, genericLabels, bind, Except.bind]

/-! ### Padé approximation of a delay -/

section pade

variable {K : Type} [Field K] [LinearOrder K] [IsStrictOrderedRing K]

/-- the numerator degree `pade` uses: `numdeg=None → n`, negative `numdeg → n + numdeg`. -/
def padeNumdeg (n : Int) : Option Int → Int
  | none => n
  | some d => if d < 0 then d + n else d

/-- **Argument validation**: a negative delay, a negative order or a numerator degree outside
`0..n` raises; everything else returns. -/
theorem pade_args_raise (T : K) (n : Int) (numdeg : Option Int) :
    pade T n numdeg = .error .badArg ↔
      (T < 0 ∨ n < 0 ∨ padeNumdeg n numdeg < 0 ∨ n < padeNumdeg n numdeg) := by
  unfold pade padeNumdeg
  cases numdeg with
  | none =>
    simp only
    split_ifs with h1 h2 h3 h4 <;> simp_all <;> omega
  | some d =>
    simp only
    split_ifs with h0 h1 h2 h3 h4 h5 h6 h7 h8 <;> simp_all <;> omega

/-- zero delay: the constant `1/1`. -/
theorem pade_T0 (n : Int) (numdeg : Option Int) (hn : 0 ≤ n)
    (hd : 0 ≤ padeNumdeg n numdeg ∧ padeNumdeg n numdeg ≤ n) :
    pade (0 : K) n numdeg = .ok ([1], [1]) := by
  unfold pade
  unfold padeNumdeg at hd
  cases numdeg <;> simp_all

/-- for valid arguments and `T > 0` the result is the pair of lists built by the two loops,
divided by `den[0]`. -/
theorem pade_eq (T : K) (hT : 0 < T) (q p : Nat) (hp : p ≤ q) :
    pade T (q : Int) (some (p : Int)) =
      .ok ((padeList (-T) p q).map (· / padeCoef T q p q), (padeList T q p).map (· / padeCoef T q p q)) := by
  unfold pade
  have h1 : ¬ ((p : Int) < 0) := by omega
  have h3 : (0 : Int) ≤ (p : Int) ∧ (p : Int) ≤ (q : Int) := ⟨by omega, by exact_mod_cast hp⟩
  simp [h1, hT.le, hT.ne', hp]

/-- the accumulated coefficients never vanish inside the loop range (`T ≠ 0`, characteristic 0),
so the normalisation by `den[0]` is a division by a non-zero number. -/
theorem padeCoef_ne_zero (c : K) (hc : c ≠ 0) (p q k : Nat) (hk : k ≤ p) : padeCoef c p q k ≠ 0 := by
  induction k with
  | zero => simp [padeCoef]
  | succ k ih =>
    have hk' : k ≤ p := Nat.le_of_succ_le hk
    simp only [padeCoef]
    have h1 : ((p - k : Nat) : K) ≠ 0 := by
      have : p - k ≠ 0 := by omega
      exact_mod_cast this
    have h2 : ((p + q - k : Nat) : K) ≠ 0 := by
      have : p + q - k ≠ 0 := by omega
      exact_mod_cast this
    have h3 : ((k + 1 : Nat) : K) ≠ 0 := by exact_mod_cast Nat.succ_ne_zero k
    exact mul_ne_zero (ih hk') (div_ne_zero (div_ne_zero (mul_ne_zero hc h1) h2) h3)

/-- **Closed form of the recursions**: `c_k = c^k (p+q-k)! p! / ((p+q)! k! (p-k)!)`
(numerator: `c = -T`, `p = numdeg`, `q = n`; denominator: `c = T`, `p = n`, `q = numdeg`). -/
theorem pade_closed_form (c : K) (p q k : Nat) (hk : k ≤ p) :
    padeCoef c p q k = c ^ k * (((p + q - k).factorial : K) * (p.factorial : K))
      / (((p + q).factorial : K) * (k.factorial : K) * ((p - k).factorial : K)) := by
  have hne : ((p + q).factorial : K) * (k.factorial : K) * ((p - k).factorial : K) ≠ 0 := by
    have := Nat.factorial_ne_zero (p + q)
    have := Nat.factorial_ne_zero k
    have := Nat.factorial_ne_zero (p - k)
    refine mul_ne_zero (mul_ne_zero ?_ ?_) ?_ <;> exact_mod_cast ‹_›
  rw [eq_div_iff hne]
  exact padeCoef_closed c p q k hk

/-- **Degrees and monic denominator**: numerator has `numdeg + 1` coefficients, denominator
`n + 1`, and the leading denominator coefficient is exactly `1`. -/
theorem pade_monic (T : K) (hT : 0 < T) (q p : Nat) (hp : p ≤ q) :
    ∃ num den, pade T (q : Int) (some (p : Int)) = .ok (num, den) ∧
      num.length = p + 1 ∧ den.length = q + 1 ∧ den.head? = some 1 ∧ coeffAt den q = 1 := by
  refine ⟨_, _, pade_eq T hT q p hp, by simp [padeList], by simp [padeList], ?_, ?_⟩
  · have hd : padeCoef T q p q ≠ 0 := padeCoef_ne_zero T hT.ne' q p q le_rfl
    simp [padeList, List.range_succ, div_self hd]
  · have hd : padeCoef T q p q ≠ 0 := padeCoef_ne_zero T hT.ne' q p q le_rfl
    rw [coeffAt_padeList_map T q p (· / padeCoef T q p q) (by simp) q]
    exact div_self hd

/-- **Order of approximation**, for every `0 ≤ numdeg ≤ n` and every `T > 0`.
With `N(s) = Σ num_k s^k`, `D(s) = Σ den_k s^k` the lists returned by `pade T n numdeg`
(`coeffAt` = coefficient of `s^k`), the Taylor coefficients of `D(s) e^{-sT}` and of `N(s)` agree
through order `n + numdeg`:  `Σ_{k ≤ m} den_k (-T)^(m-k)/(m-k)! = num_m` for all `m ≤ n + numdeg`
(`num_m = 0` for `m > numdeg`), i.e. `N(s)/D(s) = e^{-sT} + O(s^(n+numdeg+1))`: the result is the
`[numdeg/n]` Padé approximant of the delay.  (Proof: closed form of the recursions and the
binomial identity `Σ_k (-1)^k C(m,k) C(x-k,p) = C(x-m,p-m)`, `altS_eq`.) -/
theorem pade_order (T : K) (hT : 0 < T) (q p : Nat) (hp : p ≤ q)
    (num den : List K) (h : pade T (q : Int) (some (p : Int)) = .ok (num, den))
    (m : Nat) (hm : m ≤ q + p) :
    ∑ k ∈ Finset.range (m + 1), coeffAt den k * ((-T) ^ (m - k) / ((m - k).factorial : K))
      = coeffAt num m := by
  rw [pade_eq T hT q p hp] at h
  obtain ⟨rfl, rfl⟩ := Prod.mk.inj (Except.ok.inj h)
  rw [coeffAt_padeList_map (-T) p q (· / padeCoef T q p q) (by simp) m,
    ← pade_order_general q p m (by omega) T, Finset.sum_div]
  refine Finset.sum_congr rfl fun k _ => ?_
  rw [coeffAt_padeList_map T q p (· / padeCoef T q p q) (by simp) k]
  ring

/-- the other ways of passing the numerator degree reduce to the explicit one:
`numdeg = None` is `numdeg = n`, a negative `numdeg` is `n + numdeg`. -/
theorem pade_numdeg_forms (T : K) (q : Nat) (d : Nat) (hd : 0 < d) (hdq : d ≤ q) :
    pade T (q : Int) none = pade T (q : Int) (some (q : Int)) ∧
    pade T (q : Int) (some (-(d : Int))) = pade T (q : Int) (some ((q - d : Nat) : Int)) := by
  constructor
  · unfold pade
    have h0 : ¬ ((q : Int) < 0) := by omega
    simp only [h0, if_false]
  · unfold pade
    have h1 : (-(d : Int)) < 0 := by omega
    have h2 : ¬ (((q - d : Nat) : Int) < 0) := by omega
    have e : (-(d : Int)) + (q : Int) = ((q - d : Nat) : Int) := by omega
    simp only [h1, h2, if_true, if_false, e]

end pade

/-! ### prewarping over `ℂ` with the actual `exp` and `tan` -/

section complex

open Complex

/-- `e^{2jθ} = (1 + j tan θ)/(1 - j tan θ)` for real `θ` with `cos θ ≠ 0`. -/
theorem exp_eq_cayley_tan (θ : ℝ) (hc : Real.cos θ ≠ 0) :
    Complex.exp (((2 * θ : ℝ) : ℂ) * I) = (1 + I * (Real.tan θ : ℂ)) / (1 - I * (Real.tan θ : ℂ)) := by
  have hc' : Complex.cos (θ : ℂ) ≠ 0 := by
    rw [← Complex.ofReal_cos]; exact_mod_cast hc
  have hp : Complex.exp ((θ : ℂ) * I) = Complex.cos θ + Complex.sin θ * I := Complex.exp_mul_I _
  have hm : Complex.exp (-(θ : ℂ) * I) = Complex.cos θ - Complex.sin θ * I := by
    rw [Complex.exp_mul_I, Complex.cos_neg, Complex.sin_neg]; ring
  have hne : Complex.cos (θ : ℂ) - Complex.sin θ * I ≠ 0 := by
    rw [← hm]; exact Complex.exp_ne_zero _
  have e : Complex.exp (((2 * θ : ℝ) : ℂ) * I)
      = Complex.exp ((θ : ℂ) * I) / Complex.exp (-(θ : ℂ) * I) := by
    rw [← Complex.exp_sub]; congr 1; push_cast; ring
  rw [e, hp, hm, Complex.ofReal_tan, Complex.tan_eq_sin_div_cos]
  have h2 : (1 - I * (Complex.sin θ / Complex.cos θ)) ≠ 0 := by
    have : (1 - I * (Complex.sin θ / Complex.cos θ))
        = (Complex.cos θ - Complex.sin θ * I) / Complex.cos θ := by field_simp
    rw [this]; exact div_ne_zero hne hc'
  rw [div_eq_div_iff hne h2]
  field_simp

/-- **Prewarping, analytic form**: for real `ω ≠ 0`, `Ts` (with `ωTs/2` not a multiple of `π/2`),
the Tustin discretisation with the prewarped step `2 tan(ωTs/2)/ω` has at `z = e^{jωTs}` exactly
the value of the continuous system at `jω` — continuous and discrete frequency responses
coincide at the prewarp frequency. -/
theorem prewarp_match_complex {σ ι o : Type*} [Fintype σ] [DecidableEq σ] (G : SS σ ι o ℂ)
    (ω Ts : ℝ) (hω : ω ≠ 0) (hc : Real.cos (ω * Ts / 2) ≠ 0) (ht : Real.tan (ω * Ts / 2) ≠ 0)
    (W : Matrix σ σ ℂ)
    (hW : W * (1 - ((2 * (Real.tan (ω * Ts / 2) : ℂ) / (ω : ℂ)) / 2) • G.A) = 1)
    {Y : Matrix o ι ℂ} (hY : G.Resp (I * (ω : ℂ)) Y) :
    (G.gbt (1 / 2) (2 * (Real.tan (ω * Ts / 2) : ℂ) / (ω : ℂ)) W).Resp
      (Complex.exp (((ω * Ts : ℝ) : ℂ) * I)) Y := by
  have h1 : (1 : ℂ) - I * (Real.tan (ω * Ts / 2) : ℂ) ≠ 0 := by
    intro h
    have := congrArg Complex.re h
    simp only [Complex.sub_re, Complex.one_re, Complex.mul_re, Complex.I_re, Complex.I_im,
      Complex.ofReal_re, Complex.ofReal_im, Complex.zero_re] at this
    norm_num at this
  have hz : Complex.exp (((ω * Ts : ℝ) : ℂ) * I)
      = (1 + I * (Real.tan (ω * Ts / 2) : ℂ)) / (1 - I * (Real.tan (ω * Ts / 2) : ℂ)) := by
    rw [← exp_eq_cayley_tan (ω * Ts / 2) hc]
    congr 2; push_cast; ring
  rw [hz]
  have : NeZero (2 : ℂ) := ⟨two_ne_zero⟩
  exact prewarp_match G I _ _ Complex.I_mul_I (by exact_mod_cast hω) (by exact_mod_cast ht) h1 W hW hY

end complex

/-! ### the period argument as given (a number or `True`); the sampled system in a second step -/

section period

variable {K : Type} [Field K] [LinearOrder K] [IsStrictOrderedRing K]

/-- for a numeric period `sampleP` is `sample` (the stored timebase is the number). -/
theorem sampleP_num (G : DSS K) (q : ℚ) (method : C2dMethod) (alpha : Option K)
    (pw : Option (Prewarp K)) (ext) :
    G.sampleP (.num q) method alpha pw ext = G.sample q method alpha pw ext := by
  unfold DSS.sampleP
  show (match G.sample q method alpha pw ext with
    | .error e => .error e
    | .ok R => .ok ⟨R.n, R.p, R.m, R.sys, .disc q⟩) = G.sample q method alpha pw ext
  cases h : G.sample q method alpha pw ext with
  | error e => rfl
  | ok R =>
    obtain ⟨hd, -⟩ := sample_dt G q method alpha pw ext h
    cases R
    simp only at hd
    subst hd
    rfl

/-- what `sampleP` returns: the numbers of `sample` at `P.val`, the timebase `P.dt`. -/
theorem sampleP_inv (G : DSS K) (P : Period) (method : C2dMethod) (alpha : Option K)
    (pw : Option (Prewarp K)) (ext) {R : DSS K}
    (hR : G.sampleP P method alpha pw ext = .ok R) :
    ∃ R', G.sample P.val method alpha pw ext = .ok R' ∧ R = ⟨R'.n, R'.p, R'.m, R'.sys, P.dt⟩ := by
  unfold DSS.sampleP at hR
  cases h : G.sample P.val method alpha pw ext with
  | error e => simp [h] at hR
  | ok R' =>
    simp only [h] at hR
    exact ⟨R', rfl, (Except.ok.inj hR).symm⟩

/-- **Timebase, period as given**: whenever `sample` returns, the stored timebase is the period
argument itself — the number `Ts`, or `True` when `Ts = True` (never the number 1, never the
warped step) — and the dimensions are those of the continuous system. -/
theorem sampleP_dt (G : DSS K) (P : Period) (method : C2dMethod) (alpha : Option K)
    (pw : Option (Prewarp K)) (ext) {R : DSS K}
    (hR : G.sampleP P method alpha pw ext = .ok R) :
    R.dt = P.dt ∧ R.n = G.n ∧ R.p = G.p ∧ R.m = G.m := by
  obtain ⟨R', h, rfl⟩ := sampleP_inv G P method alpha pw ext hR
  obtain ⟨-, h1, h2, h3⟩ := sample_dt G P.val method alpha pw ext h
  exact ⟨rfl, h1, h2, h3⟩

/-- `Ts = True`: the result is *not* a system of period 1 — its timebase is `True` — while its
matrices are those of sampling with period 1. -/
theorem sampleP_true (G : DSS K) (method : C2dMethod) (alpha : Option K)
    (pw : Option (Prewarp K)) (ext) {R : DSS K}
    (hR : G.sampleP .btrue method alpha pw ext = .ok R) :
    R.dt = .dtrue ∧ R.dt ≠ .disc 1 ∧
      ∃ R', G.sample 1 method alpha pw ext = .ok R' ∧ R = ⟨R'.n, R'.p, R'.m, R'.sys, .dtrue⟩ := by
  obtain ⟨R', h, rfl⟩ := sampleP_inv G .btrue method alpha pw ext hR
  exact ⟨rfl, by simp [Period.dt], R', h, rfl⟩

/-- **Defining relation, period as given**: as `sample_gbt_resp`, with the step computed from
`P.val` (1 for `True`) and the stored timebase `P.dt`. -/
theorem sampleP_gbt_resp (G : DSS K) (P : Period) (method : C2dMethod) (alpha : Option K)
    (pw : Option (Prewarp K)) (ext) {R : DSS K}
    (hR : G.sampleP P method alpha pw ext = .ok R) (hm : method ≠ .zoh) :
    ∃ a h, gbtAlpha method alpha = .ok a ∧ twarp method alpha P.val pw = .ok h ∧
      ∃ S : SS (Fin G.n) (Fin G.m) (Fin G.p) K, R = ⟨G.n, G.p, G.m, S, P.dt⟩ ∧
        ∀ (z : K) (Y : Matrix (Fin G.p) (Fin G.m) K), h * (a * z + 1 - a) ≠ 0 →
          G.sys.Resp ((z - 1) / (h * (a * z + 1 - a))) Y → S.Resp z Y := by
  obtain ⟨R', h', rfl⟩ := sampleP_inv G P method alpha pw ext hR
  obtain ⟨a, h, ha, htw, S, rfl, hS⟩ := sample_gbt_resp G P.val method alpha pw ext h' hm
  exact ⟨a, h, ha, htw, S, rfl, hS⟩

/-- a discrete-time source is rejected whatever the period argument is. -/
theorem sampleP_not_continuous_raises (G : DSS K) (P : Period) (method : C2dMethod)
    (alpha : Option K) (pw : Option (Prewarp K)) (ext) (h : G.dt.isCt = false) :
    G.sampleP P method alpha pw ext = .error .timebase := by
  unfold DSS.sampleP
  rw [sample_not_continuous_raises G P.val method alpha pw ext h]

/-- the transfer-function path stores the period argument itself as well (so state-space and
transfer-function inputs give the same timebase, `True` included). -/
theorem tfSampleP_dt (num den : List K) (dt : Dt) (P : Period) (method : C2dMethod)
    (alpha : Option K) (pw : Option (Prewarp K)) {nd dd : List K} {d : Dt}
    (hR : tfSampleP num den dt P method alpha pw = .ok (nd, dd, d)) :
    d = P.dt ∧ dt.isCt = true ∧
      ∃ a h, gbtAlpha method alpha = .ok a ∧ twarp method alpha P.val pw = .ok h ∧
        tfGbt a h num den = .ok (nd, dd) := by
  unfold tfSampleP at hR
  cases h : tfSample num den dt P.val method alpha pw with
  | error e => simp [h] at hR
  | ok r =>
    obtain ⟨n', d', t'⟩ := r
    simp only [h, Except.ok.injEq, Prod.mk.injEq] at hR
    obtain ⟨rfl, rfl, rfl⟩ := hR
    obtain ⟨-, h1, -, a, hh, ha, htw, ht⟩ := tfSample_dt num den dt P.val method alpha pw h
    exact ⟨rfl, h1, a, hh, ha, htw, ht⟩

/-- **Second step, `Ts = True`**: a system sampled with an unspecified period adopts the period
of any discrete-time system it is combined with, whichever operand it is (a result stored with
timebase `1.0` instead would raise "incompatible timebases" unless the other period is 1). -/
theorem join_true_adopts (h : ℚ) (hh : 0 < h) (first : Bool) :
    joinDt .btrue (.disc h) first = .ok (.disc h) := by
  cases first <;> simp [joinDt, Period.dt, common, hh]

/-- `Ts = True` combined with `None`, `True`, and a continuous-time system. -/
theorem join_true_table (first : Bool) :
    joinDt .btrue .none first = .ok .dtrue ∧ joinDt .btrue .dtrue first = .ok .dtrue ∧
      joinDt .btrue .cont first = .error .timebase := by
  cases first <;> simp [joinDt, Period.dt, common]

/-- **Second step, numeric period**: combined with `None` or `True` the period is kept;
combined with another sampled system the periods must agree (`numpy.isclose`). -/
theorem join_num_table (q : ℚ) (hq : 0 < q) (h : ℚ) (first : Bool) :
    joinDt (.num q) .none first = .ok (.disc q) ∧ joinDt (.num q) .dtrue first = .ok (.disc q) ∧
      joinDt (.num q) (.disc h) true = (if close q h then .ok (.disc q) else .error .timebase) ∧
      joinDt (.num q) (.disc h) false = (if close h q then .ok (.disc h) else .error .timebase) := by
  cases first <;> simp [joinDt, Period.dt, common, hq, Dt.num] <;> exact ⟨by congr, by congr⟩

end period

/-- the matched method stores the period argument itself, and matches with `P.val`. -/
theorem matchedP_inv {K : Type} [Field K] [DecidableEq K] (num den zeros poles : List K)
    (E : K → K) (P : Period) {nd dd : List K} {d : Dt}
    (hr : c2dMatchedP num den zeros poles E P = .ok (nd, dd, d)) :
    d = P.dt ∧ c2dMatched num den zeros poles E P.val = .ok (nd, dd, .disc P.val) := by
  unfold c2dMatchedP at hr
  cases h : c2dMatched num den zeros poles E P.val with
  | error e => simp [h] at hr
  | ok r =>
    obtain ⟨n', d', t'⟩ := r
    simp only [h, Except.ok.injEq, Prod.mk.injEq] at hr
    obtain ⟨rfl, rfl, rfl⟩ := hr
    have ht : t' = .disc P.val := (matched_inv num den zeros poles E P.val h).2.2.2.2.2.2.2
    subst ht
    exact ⟨rfl, rfl⟩


/-! ### how the arguments reach the function: positional and keyword calls (strengthening after
seeded changes, round 3) -/

section binding


theorem kwIndex_some {p : String} : ∀ {kws : List String} {j : Nat},
    kwIndex p kws = some j → kws[j]? = some p
  | [], j, h => by simp [kwIndex] at h
  | k :: ks, j, h => by
    unfold kwIndex at h
    split_ifs at h with hk
    · cases h; simp [hk]
    · cases hj : kwIndex p ks with
      | none => simp [hj] at h
      | some j' =>
        simp only [hj, Option.map_some, Option.some.injEq] at h
        subst h
        simpa using kwIndex_some hj

theorem kwIndex_none {p : String} : ∀ {kws : List String}, kwIndex p kws = none ↔ p ∉ kws
  | [] => by simp [kwIndex]
  | k :: ks => by
    unfold kwIndex
    split_ifs with hk
    · simp [hk]
    · have := kwIndex_none (p := p) (kws := ks)
      simp [this, Ne.symm hk]

theorem slotsFrom_get (npos : Nat) (kws : List String) :
    ∀ (ps : List String) (b i : Nat),
      (slotsFrom npos kws b ps)[i]? = ps[i]?.map (slotOf npos kws (b + i))
  | [], b, i => by simp [slotsFrom]
  | p :: ps, b, 0 => by simp [slotsFrom]
  | p :: ps, b, i + 1 => by
    simp only [slotsFrom, List.getElem?_cons_succ]
    rw [slotsFrom_get npos kws ps (b + 1) i]
    congr 2; omega

theorem slotsFrom_length (npos : Nat) (kws : List String) :
    ∀ (ps : List String) (b : Nat), (slotsFrom npos kws b ps).length = ps.length
  | [], b => rfl
  | p :: ps, b => by simp [slotsFrom, slotsFrom_length npos kws ps]

variable {params : List String} {nreq : Nat} {varkw : Bool} {npos : Nat} {kws : List String}

/-- what a successful binding is: none of the four `TypeError` conditions, and the slots. -/
theorem bindArgs_inv {s : List Slot} (h : bindArgs params nreq varkw npos kws = .ok s) :
    npos ≤ params.length ∧ (∀ p ∈ params.take npos, p ∉ kws) ∧
      (∀ p ∈ (params.take nreq).drop npos, p ∈ kws) ∧ s = slotsFrom npos kws 0 params := by
  unfold bindArgs at h
  split_ifs at h with h1 h2 h3 h4
  refine ⟨by omega, ?_, ?_, by cases h; rfl⟩
  · intro p hp hk
    exact h2 (List.any_eq_true.mpr ⟨p, hp, by simpa using hk⟩)
  · intro p hp
    by_contra hk
    exact h3 (List.any_eq_true.mpr ⟨p, hp, by simpa using hk⟩)

/-- more positional arguments than parameters: `TypeError`. -/
theorem bindArgs_too_many (h : params.length < npos) :
    bindArgs params nreq varkw npos kws = .error .badArg := by
  simp [bindArgs, h]

/-- a parameter filled positionally and named again by keyword: `TypeError`
("got multiple values for argument"). -/
theorem bindArgs_multiple_values {p : String} (hp : p ∈ params.take npos) (hk : p ∈ kws) :
    bindArgs params nreq varkw npos kws = .error .badArg := by
  cases h : bindArgs params nreq varkw npos kws with
  | error e =>
    unfold bindArgs at h
    split_ifs at h <;> cases h <;> rfl
  | ok s => exact absurd hk ((bindArgs_inv h).2.1 p hp)

/-- a parameter without default that the call does not fill: `TypeError`. -/
theorem bindArgs_missing {p : String} (hp : p ∈ (params.take nreq).drop npos) (hk : p ∉ kws) :
    bindArgs params nreq varkw npos kws = .error .badArg := by
  cases h : bindArgs params nreq varkw npos kws with
  | error e =>
    unfold bindArgs at h
    split_ifs at h <;> cases h <;> rfl
  | ok s => exact absurd ((bindArgs_inv h).2.2.1 p hp) hk

/-- one slot per parameter; the first `npos` parameters take the positional arguments in order. -/
theorem bindArgs_pos {s : List Slot} (h : bindArgs params nreq varkw npos kws = .ok s) :
    s.length = params.length ∧ ∀ i, i < npos → s[i]? = some (.pos i) := by
  obtain ⟨hn, -, -, rfl⟩ := bindArgs_inv h
  refine ⟨slotsFrom_length _ _ _ _, fun i hi => ?_⟩
  rw [slotsFrom_get]
  have : i < params.length := by omega
  simp [List.getElem?_eq_getElem this, slotOf, hi]

/-- **The binding delivers every value to the parameter it was written for.**  Let `a` assign
the intended value to each parameter name, and let the call pass `a` of the first `npos`
parameters positionally (in the documented order) and `a k` for each keyword `k`.  Then the
parameter `p` receives `a p` when it is among the positional ones or named by keyword, and keeps
its default otherwise — whatever the split between positional and keyword arguments and whatever
the order of the keywords. -/
theorem bindArgs_delivers {α : Type} {s : List Slot}
    (h : bindArgs params nreq varkw npos kws = .ok s) (a : String → α) {i : Nat} {p : String}
    (hp : params[i]? = some p) :
    s[i]?.bind (Slot.value ((params.take npos).map a) (kws.map a))
      = if i < npos ∨ p ∈ kws then some (a p) else none := by
  obtain ⟨hn, -, -, rfl⟩ := bindArgs_inv h
  rw [slotsFrom_get, hp]
  simp only [Option.map_some, Option.bind_some, Nat.zero_add]
  unfold slotOf
  by_cases hi : i < npos
  · simp [hi, Slot.value, hp]
  · simp only [hi, if_false, false_or]
    cases hj : kwIndex p kws with
    | none => simp [Slot.value, kwIndex_none.mp hj]
    | some j =>
      have hm : p ∈ kws := by
        by_contra hc; rw [kwIndex_none.mpr hc] at hj; cases hj
      simp [Slot.value, kwIndex_some hj, hm]

/-- **Positional and keyword calls are interchangeable**: two accepted calls of the same
function that supply the same set of parameters (each its intended value `a p`) — one passing
`n₁` of them positionally, the other `n₂`, the rest by keyword in any order — deliver the same
value to every parameter. -/
theorem bindArgs_form_irrelevant {α : Type} {n₁ n₂ : Nat} {k₁ k₂ : List String} {s₁ s₂ : List Slot}
    (h₁ : bindArgs params nreq varkw n₁ k₁ = .ok s₁) (h₂ : bindArgs params nreq varkw n₂ k₂ = .ok s₂)
    (a : String → α)
    (same : ∀ i p, params[i]? = some p → ((i < n₁ ∨ p ∈ k₁) ↔ (i < n₂ ∨ p ∈ k₂)))
    {i : Nat} {p : String} (hp : params[i]? = some p) :
    s₁[i]?.bind (Slot.value ((params.take n₁).map a) (k₁.map a))
      = s₂[i]?.bind (Slot.value ((params.take n₂).map a) (k₂.map a)) := by
  rw [bindArgs_delivers h₁ a hp, bindArgs_delivers h₂ a hp]
  simp only [same i p hp]

/-- the documented order: in `sys.sample(Ts, 'bilinear', None, w)` the fourth argument is the
prewarp frequency, in `sample_system(sys, Ts, 'gbt', 0.3)` the fourth is `alpha` — the same
parameters the keyword calls name. -/
theorem bind_documented_order :
    bindSample 4 [] = .ok [.pos 0, .pos 1, .pos 2, .pos 3, .dflt, .dflt] ∧
    bindSample 1 ["prewarp_frequency", "method"] = .ok [.pos 0, .kw 1, .dflt, .kw 0, .dflt, .dflt] ∧
    bindSampleSystem 4 [] = .ok [.pos 0, .pos 1, .pos 2, .pos 3, .dflt, .dflt, .dflt] ∧
    bindSampleSystem 5 ["copy_names"] = .ok [.pos 0, .pos 1, .pos 2, .pos 3, .pos 4, .dflt, .kw 0] ∧
    bindSampleSystem 0 ["Ts", "sysc", "alpha", "method"]
      = .ok [.kw 1, .kw 0, .kw 3, .kw 2, .dflt, .dflt, .dflt] := by decide

/-- the calls Python rejects: too many arguments, a parameter given twice, `Ts` missing; label
keywords (`inputs=…`) travel on in `**kwargs`. -/
theorem bind_rejected :
    bindSample 7 [] = .error .badArg ∧ bindSampleSystem 8 [] = .error .badArg ∧
    bindSample 2 ["method"] = .error .badArg ∧ bindSampleSystem 3 ["alpha", "method"] = .error .badArg ∧
    bindSample 0 ["method"] = .error .badArg ∧ bindSampleSystem 1 ["method"] = .error .badArg ∧
    bindSample 1 ["Ts"] = .error .badArg ∧
    bindSample 2 ["inputs"] = .ok [.pos 0, .pos 1, .dflt, .dflt, .dflt, .dflt] := by decide

/-- `pade`: the keyword forms name the same parameters as the positional call; a keyword that
names no parameter is rejected (no `**kwargs`). -/
theorem bind_pade :
    bindPade 3 [] = .ok [.pos 0, .pos 1, .pos 2] ∧
    bindPade 1 ["numdeg", "n"] = .ok [.pos 0, .kw 1, .kw 0] ∧
    bindPade 0 ["T", "n"] = .ok [.kw 0, .kw 1, .dflt] ∧
    bindPade 1 ["num_deg"] = .error .badArg ∧ bindPade 4 [] = .error .badArg := by decide

end binding

/-! ### non-vacuity: concrete instances meeting the hypotheses -/

section examples

def exG : SS (Fin 1) (Fin 1) (Fin 1) ℚ := ⟨!![-1], !![1], !![2], !![1]⟩

/-- non-vacuity of `gbt_resp`: `G(s) = 2/(s+1) + 1`, `α = 1/4`, `h = 1/2`, `z = 3`, `s = 8/3`. -/
example : (8 / 9 : ℚ) • (1 : Matrix (Fin 1) (Fin 1) ℚ) * (1 - ((1 / 4 : ℚ) * (1 / 2)) • exG.A) = 1 ∧
    (1 / 2 : ℚ) * (1 / 4 * 3 + 1 - 1 / 4) ≠ 0 ∧
    exG.Resp ((3 - 1) / ((1 / 2 : ℚ) * (1 / 4 * 3 + 1 - 1 / 4))) !![17 / 11] := by
  refine ⟨by decide +kernel, by norm_num, ⟨!![3 / 11], by decide +kernel, by decide +kernel⟩⟩

def exD : DSS ℚ := ⟨2, 1, 1, ⟨!![0, 1; -2, -3], !![0; 1], !![1, 0], !![0]⟩, .cont⟩

/-- non-vacuity of `sample_dt` / `sample_gbt_resp`: a prewarped Tustin discretisation of a
2-state system returns, with timebase `Ts = 1/2` (the warped step is `3/2`). -/
example : ∃ R, exD.sample (1 / 2) .bilinear none (some ⟨2, 3 / 2⟩) none = .ok R ∧ R.dt = .disc (1 / 2) := by
  obtain ⟨R, h1, h2⟩ := okAnd_spec (r := exD.sample (1 / 2) .bilinear none (some ⟨2, 3 / 2⟩) none)
    (p := fun R => decide (R.dt = .disc (1 / 2))) (by decide +kernel)
  exact ⟨R, h1, of_decide_eq_true h2⟩

/-- non-vacuity of `tfGbt_eval`: `1/(s+1)`, Tustin, `h = 1/2`. -/
example : tfGbt (1 / 2 : ℚ) (1 / 2) [1] [1, 1] = .ok ([1 / 5, 1 / 5], [1, -3 / 5]) := by
  decide +kernel

/-- non-vacuity of the matched theorems: `(s+2)/((s+1)(s+3))` with a stand-in `E`. -/
example : okAnd (c2dMatched (K := ℚ) [1, 2] [1, 4, 3] [-2] [-1, -3] (fun x => 1 / (1 - x)) 1)
    (fun r => decide (r.2.2 = .disc 1)) = true := by
  decide +kernel

/-- non-vacuity of the Padé theorems. -/
example : pade (1 : ℚ) 3 (some (-2)) = .ok ([-6, 24], [1, 6, 18, 24]) := by decide +kernel
example : pade (2 : ℚ) 2 none = .ok ([1, -3, 3], [1, 3, 3]) := by decide +kernel
example : pade (-1 : ℚ) 2 none = .error .badArg := by decide +kernel

/-- non-vacuity of `zoh_step`: the flow of an integrator (`A = 0`, `B = 1`),
`Φ t = [[1, t], [0, 1]]`. -/
example : ExpFlow (Fin 1) (Fin 1) ℚ where
  Φ t := fromBlocks 1 (t • 1) 0 1
  add s t := by
    rw [fromBlocks_multiply]
    simp [add_smul, add_comm]
  low₂₁ t := by simp
  low₂₂ t := by simp

/-- non-vacuity of the period theorems: the 2-state system sampled with `Ts = True` returns with
timebase `True`; in a second step it adopts the period `1/10`, where a system of period 1 raises. -/
example : okAnd (exD.sampleP .btrue .bilinear none none none) (fun R => decide (R.dt = .dtrue)) = true := by
  decide +kernel
example : joinDt .btrue (.disc (1 / 10)) true = .ok (.disc (1 / 10)) ∧
    joinDt (.num 1) (.disc (1 / 10)) true = .error .timebase := by decide +kernel
example : tfSampleP (K := ℚ) [1] [1, 1] .cont .btrue .bilinear none none
    = .ok ([1 / 3, 1 / 3], [1, -1 / 3], .dtrue) := by decide +kernel

/-- non-vacuity of the binding theorems: `c2d(sys, Ts, 'bilinear', None, w)` and
`c2d(sys, Ts, prewarp_frequency=w, method='bilinear')` are both accepted and supply the same
parameters (with `alpha` explicitly at its default in the first). -/
example : bindSampleSystem 5 [] = .ok [.pos 0, .pos 1, .pos 2, .pos 3, .pos 4, .dflt, .dflt] ∧
    bindSampleSystem 2 ["prewarp_frequency", "method"]
      = .ok [.pos 0, .pos 1, .kw 1, .dflt, .kw 0, .dflt, .dflt] := by decide

end examples

end CtrlVerif.C14
