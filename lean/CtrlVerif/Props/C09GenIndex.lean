/-
Source-text tie of C09, part 8: `FrequencyResponseData.__getitem__` and `eval`.
`Generated/FRDIndex.lean` is rewritten from control/frdata.py on every run (harness/core/py2lean_frd.py);
the theorems below prove the run-time model's `DFRD.select` and `DFRD.eval` (`Model/FRDDyn.lean`) EQUAL
to the generated functions.  `__getitem__` is translated for a key that is a pair of already resolved
index lists (the resolution of names / slices by `NamedSignal._parse_key` and
`_process_subsys_index` has its own source tie, `C17Gen`); `eval` for a 1-D list of real frequencies,
its result before `_process_frequency_response` (the squeeze processing has its own source tie,
`C18Gen`); the interpolating branch (`splev`) is external.
-/
import CtrlVerif.Generated.FRDIndex
import CtrlVerif.Lemmas.PyFRD

set_option linter.unusedSimpArgs false
set_option linter.unusedSectionVars false

namespace CtrlVerif.C09Gen

open Matrix CtrlVerif

variable {K : Type} [Field K] [DecidableEq K]

/-- **`__getitem__`** with resolved index lists: `self.frdata[outdx, :][:, inpdx]` on the grid, timebase
of `self`, no `smooth` — the model's `DFRD.select`; out-of-range indices raise `IndexError`.  The grid
must have a point (`NamedSignal(self.frdata[:, :, 0], …)`). -/
theorem generated_getitem_eq {n : Nat} (G : DFRD K n) (dt : Dt) (rows cols : List Nat) (hn : 0 < n) :
    Generated.frdGetitemData (PyFRD.of G dt) (rows, cols) = (G.select rows cols).map fun R => PyFRD.of R dt := by
  obtain ⟨p, m, ⟨w, g⟩, sm⟩ := G
  simp only [Generated.frdGetitemData, PyFRD.of, PyFRD.frdata, PyFRD.omega, PArr3.getFreq_mk _ _ _ _ _ hn, bind,
    Except.bind, DFRD.select]
  by_cases hr : ∀ r ∈ rows, r < p
  · rw [PArr3.takeRows_mk _ _ _ _ _ hr]
    simp only
    by_cases hc : ∀ c ∈ cols, c < m
    · rw [PArr3.takeCols_mk _ _ _ _ _ hc, dif_pos ⟨hr, hc⟩]
      simp only [PyFRD.ctor_mk_false, Except.map]
      rfl
    · rw [PArr3.takeCols_err _ _ _ _ _ hc, dif_neg (fun h => hc h.2)]
      rfl
  · rw [PArr3.takeRows_err _ _ _ _ _ hr, dif_neg (fun h => hr h.1)]
    rfl

/-- on an empty grid `__getitem__` raises (`self.frdata[:, :, 0]`). -/
theorem generated_getitem_empty_grid (G : DFRD K 0) (dt : Dt) (key : List Nat × List Nat) :
    Generated.frdGetitemData (PyFRD.of G dt) key = .error .indexRange := by
  simp [Generated.frdGetitemData, PyFRD.of, PyFRD.frdata, PArr3.getFreq, bind, Except.bind]


/-- **`eval`** of a non-interpolating FRD: the function the source text defines (`np.flatnonzero(self.omega
== w)` per requested frequency, `ValueError` when one is not stored, `self.frdata[:, :, [first match …]]`)
returns the model's `DFRD.eval` — the stored matrices in the order of the request, repeats included. -/
theorem generated_eval_eq {n : Nat} (G : DFRD K n) (dt : Dt) (ws : List ℚ) (hs : G.smooth = false) :
    Generated.frdEval (PyFRD.of G dt) (FVec.ofList ws) = (G.eval ws).map fun l => PArr3.ofList G.p G.m l := by
  obtain ⟨p, m, ⟨w, g⟩, sm⟩ := G
  simp only at hs
  subst hs
  have himag : PBVec.any (FVec.gtNum (FVec.imag (FVec.array1 (FVec.ofList ws))) 0) = false := by
    simp [PBVec.any, FVec.gtNum, FVec.imag]
  have hlist : FVec.toList (FVec.array1 (FVec.ofList ws)) = ws := by
    simp [FVec.toList, FVec.array1, FVec.ofList]
  simp only [Generated.frdEval, himag, Bool.false_eq_true, if_false, PyFRD.of, PyFRD.smooth, Bool.not_false,
    if_true, hlist, PyFRD.omega, PyFRD.frdata, DFRD.eval, FRD.eval, bind, Except.bind, pure, Except.pure]
  set F : FRD n (Fin p) (Fin m) K := ⟨w, g⟩ with hF
  -- the index the code finds for a requested frequency
  let f : ℚ → List Nat := fun x => PBVec.flatnonzero (FVec.eqNum ⟨n, w⟩ x)
  by_cases hall : ∀ x ∈ ws, F.find? x ≠ none
  · -- every requested frequency is stored
    have hany : (List.map f ws).any (fun l => decide (l.length = 0)) = false := by
      rw [List.any_eq_false]
      intro l hl
      obtain ⟨x, hx, rfl⟩ := List.mem_map.mp hl
      obtain ⟨k, hk⟩ := Option.ne_none_iff_exists'.mp (hall x hx)
      obtain ⟨t, ht⟩ := (flatnonzero_find F x).2 k hk
      have ht' : f x = k.val :: t := ht
      simp [ht']
    have hidx : ∀ l : List ℚ, (∀ x ∈ l, F.find? x ≠ none) →
        (List.map f l).mapM PyList.get0 = Except.ok (l.map fun x => (f x).headD 0) ∧
        l.mapM F.evalAt = Except.ok (l.map fun x => dAt g ((f x).headD 0)) ∧
        ∀ i ∈ (l.map fun x => (f x).headD 0), i < n := by
      intro l
      induction l with
      | nil => intro _; exact ⟨rfl, rfl, by simp⟩
      | cons x l ih =>
        intro hl
        obtain ⟨k, hk⟩ := Option.ne_none_iff_exists'.mp (hl x (List.mem_cons_self))
        obtain ⟨t, ht⟩ := (flatnonzero_find F x).2 k hk
        obtain ⟨i1, i2, i3⟩ := ih fun y hy => hl y (List.mem_cons_of_mem _ hy)
        have hfx : f x = k.val :: t := ht
        refine ⟨?_, ?_, ?_⟩
        · have hg0 : PyList.get0 (k.val :: t) = Except.ok k.val := rfl
          simp only [List.map_cons, List.mapM_cons, hfx, hg0, Except.bind, bind, i1, pure, Except.pure,
            List.headD_cons]
        · simp only [List.map_cons, List.mapM_cons, FRD.evalAt, hk, bind, Except.bind, i2, pure, Except.pure, hfx,
            List.headD_cons, dAt, k.isLt, dite_true]
          rfl
        · intro i hi
          simp only [List.map_cons, List.mem_cons, hfx, List.headD_cons] at hi
          rcases hi with rfl | hi
          · exact k.isLt
          · exact i3 i hi
    obtain ⟨h1, h2, h3⟩ := hidx ws hall
    simp only [f] at hany h1
    simp only [hany, Bool.false_eq_true, if_false]
    rw [h1, h2]
    simp only [Except.map]
    rw [takeFreq_map _ _ _ _ _ h3, List.map_map]
    rfl
  · -- some requested frequency is not stored: both raise `missing`
    have hex : ∃ x ∈ ws, F.find? x = none := by
      by_contra hc
      exact hall fun x hx hn => hc ⟨x, hx, hn⟩
    have hany : (List.map f ws).any (fun l => decide (l.length = 0)) = true := by
      obtain ⟨x, hx, hn⟩ := hex
      rw [List.any_eq_true]
      have hfx : f x = [] := (flatnonzero_find F x).1 hn
      exact ⟨f x, List.mem_map.mpr ⟨x, hx, rfl⟩, by simp [hfx]⟩
    have hmodel : ∀ l : List ℚ, (∃ x ∈ l, F.find? x = none) → l.mapM F.evalAt = Except.error Err.missing := by
      intro l
      induction l with
      | nil => intro h; simp at h
      | cons x l ih =>
        intro h
        cases hfx : F.find? x with
        | none => simp [List.mapM_cons, FRD.evalAt, hfx, bind, Except.bind]
        | some k =>
          have : ∃ y ∈ l, F.find? y = none := by
            obtain ⟨y, hy, hn⟩ := h
            rcases List.mem_cons.mp hy with rfl | hy
            · rw [hfx] at hn; simp at hn
            · exact ⟨y, hy, hn⟩
          simp [List.mapM_cons, FRD.evalAt, hfx, bind, Except.bind, ih this]
    simp only [f] at hany
    simp only [hany, if_true, hmodel ws hex, Except.map]
    rfl


/-- `eval` of an interpolating FRD evaluates the spline: external, not translated. -/
theorem generated_eval_smooth {n : Nat} (G : DFRD K n) (dt : Dt) (ws : FVec) (hs : G.smooth = true) :
    Generated.frdEval (PyFRD.of G dt) ws = .error .notImplemented := by
  have himag : PBVec.any (FVec.gtNum (FVec.imag ws) 0) = false := by
    simp [PBVec.any, FVec.gtNum, FVec.imag]
  simp [Generated.frdEval, himag, PyFRD.of, PyFRD.smooth, hs, throw, throwThe, MonadExceptOf.throw]

end CtrlVerif.C09Gen
