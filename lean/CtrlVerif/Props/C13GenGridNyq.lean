/-
C13 — source-text tie of `_determine_omega_vector` and of the grid statements of `nyquist_response`
(`Generated/GridDetermine.lean`, `Generated/GridNyquist.lean`; translator `harness/core/py2lean_grid.py`): the three cases of
`_determine_omega_vector` (omega given / limits given / default with `feature_periphery_decades` FORWARDED), the
start at `ω = 0` (`prependLinspace`), the discrete-time cut at the Nyquist frequency with the appended `nyq_freq`
(`nyquistFreq`, `truncNyquist`, `defaultOmegaDt`), per system of the list; and the headline theorems of
`Props/C13Grid.lean` for the generated functions.
-/
import CtrlVerif.Generated.GridNyquist
import CtrlVerif.Props.C13GenGrid

namespace CtrlVerif.C13GenGrid

open CtrlVerif CtrlVerif.Nyquist CtrlVerif.PyGrid CtrlVerif.PyGridLemmas

variable {K : Type} [Field K] [LinearOrder K] [IsStrictOrderedRing K] [FloorRing K]

/-! ### `_determine_omega_vector` -/

/-- default: neither `omega` nor `omega_limits`: the default range, with `Hz`, the number of samples and the
periphery FORWARDED, flagged "not given" -/
theorem generated_determine_default (E : PyGrid.Ext K) (sl : PyGrid.SysArg K) (num : Option ℕ) (Hz : Bool)
    (dArg : Option K) :
    Generated.determineOmegaVector E sl .none .none num Hz dArg =
      (Generated.defaultFrequencyRange E sl Hz num dArg).map fun o => (o, false) := by
  unfold Generated.determineOmegaVector
  simp only [PyGrid.OmArg.isNone, PyGrid.OmArg.isSeq, bind, Except.bind, pure, Except.pure, Bool.not_true,
    Bool.and_self, Bool.false_eq_true, if_false, if_true]
  cases Generated.defaultFrequencyRange E sl Hz num dArg <;> rfl

/-- an array (or a list / tuple of another length than 2) given as `omega`: copied, flagged "given";
`omega_limits` must be `None` (otherwise the same with a warning) -/
theorem generated_determine_given (E : PyGrid.Ext K) (sl : PyGrid.SysArg K) (l : List K) (num : Option ℕ) (Hz : Bool)
    (dArg : Option K) :
    Generated.determineOmegaVector E sl (.arr l) .none num Hz dArg = .ok (l, true) ∧
    (l.length ≠ 2 → Generated.determineOmegaVector E sl (.seq l) .none num Hz dArg = .ok (l, true)) := by
  unfold Generated.determineOmegaVector
  constructor
  · simp [PyGrid.OmArg.isNone, PyGrid.OmArg.isSeq, PyGrid.OmArg.toArr, bind, Except.bind, pure, Except.pure]
  · intro h
    simp [PyGrid.OmArg.isNone, PyGrid.OmArg.isSeq, PyGrid.OmArg.toArr, PyGrid.OmArg.len, h, bind, Except.bind, pure,
      Except.pure]

/-- limits given (as `omega_limits`, or as a 2-element list / tuple `omega`): `logspace` between their logarithms on
`omega_num` points, flagged "given" -/
theorem generated_determine_limits (E : PyGrid.Ext K) (sl : PyGrid.SysArg K) (a b : K) (n : ℕ) (Hz : Bool)
    (dArg : Option K) :
    Generated.determineOmegaVector E sl .none (.seq [a, b]) (some n) Hz dArg =
      .ok (PyGrid.logspace E.pow10 (E.log10 a) (E.log10 b) n, true) ∧
    Generated.determineOmegaVector E sl (.seq [a, b]) .none (some n) Hz dArg =
      .ok (PyGrid.logspace E.pow10 (E.log10 a) (E.log10 b) n, true) := by
  unfold Generated.determineOmegaVector
  constructor <;>
    simp [PyGrid.OmArg.isNone, PyGrid.OmArg.isSeq, PyGrid.OmArg.toArr, PyGrid.OmArg.len, PyGrid.item, PyGrid.natOf,
      bind, Except.bind, pure, Except.pure]

/-- limits of another length than 2: `ValueError` -/
theorem generated_determine_limits_bad (E : PyGrid.Ext K) (sl : PyGrid.SysArg K) (l : List K) (h : l.length ≠ 2)
    (num : Option ℕ) (Hz : Bool) (dArg : Option K) :
    Generated.determineOmegaVector E sl .none (.seq l) num Hz dArg = .error .badArg := by
  unfold Generated.determineOmegaVector
  simp [PyGrid.OmArg.isNone, PyGrid.OmArg.isSeq, PyGrid.OmArg.toArr, PyGrid.OmArg.len, h, bind, Except.bind, pure,
    Except.pure]

/-! ### the grid statements of `nyquist_response` -/

/-- the systems as the loop of `nyquist_response` visits them -/
def wrap (sysdata : PyGrid.SysArg K) : PyGrid.SysArg K := .many (sysList sysdata)

omit [IsStrictOrderedRing K] [FloorRing K] in
theorem prependLinspace_eq (npts : ℕ) (g : List K) :
    (do let t ← PyGrid.item g 0
        (pure (PyGrid.linspace 0 t npts ++ List.drop 1 g) : Except Err (List K))) = prependLinspace npts g := by
  cases g <;> rfl

/-- **default arguments: the common grid is the model's `prependLinspace` of the default range asked for with
`feature_periphery_decades = 2`** (whatever the configured default), the systems wrapped into a list, flagged
"not given" -/
theorem generated_nyquistCommon_default (E : PyGrid.Ext K) (sysdata : PyGrid.SysArg K) (npts : ℕ) :
    Generated.nyquistGridCommon E sysdata .none .none none npts =
      (do let g ← Generated.defaultFrequencyRange E (wrap sysdata) false (E.cfgN "freqplot.number_of_samples") (some 2)
          let o ← prependLinspace npts g
          pure (wrap sysdata, o, false)) := by
  unfold Generated.nyquistGridCommon
  cases sysdata
  all_goals
    simp only [PyGrid.hasIter, PyGrid.single, wrap, sysList, generated_determine_default, PyGrid.getParamO, bind,
      Except.bind, pure, Except.pure, Option.isNone, Bool.not_true, Bool.not_false, Bool.false_eq_true, if_false, if_true]
    generalize Generated.defaultFrequencyRange E _ false _ (some 2) = r
    rcases r with e | g
    · rfl
    · cases g <;> rfl

/-- the frequencies of one system (default grid, so "not given"): the common grid, cut below the Nyquist frequency
and `nyq_freq` appended for a discrete-time system (`nyquistFreq`), unchanged otherwise; a MIMO system raises -/
theorem generated_omegaSys_eq (E : PyGrid.Ext K) (s : PyGrid.Sys K) (om : List K) (w : Bool)
    (hfrd : (s.frd && s.ifuncNone) = false) :
    Generated.nyquistOmegaSys E s om false w =
      if s.siso then
        .ok (match nyquistFreq E.pi s.dt with
          | none => om
          | some f => truncNyquist f om)
      else .error .notImplemented := by
  unfold Generated.nyquistOmegaSys
  cases hs : s.siso
  · simp
  · simp only [hfrd, Bool.not_true, Bool.false_eq_true, if_false, Bool.false_and, Bool.not_false, if_true]
    cases hdt : s.dt with
    | none => simp [nyquistFreq, DtPred.isdtime, pure, Except.pure, bind, Except.bind]
    | cont => simp [nyquistFreq, DtPred.isdtime, pure, Except.pure, bind, Except.bind]
    | dtrue => simp [nyquistFreq, DtPred.isdtime, PyGrid.dtNum, PyGrid.pdiv, dtValue, truncNyquist, pure, Except.pure,
        bind, Except.bind]
    | disc h =>
      by_cases hp : 0 < h
      · have hK : (h : K) ≠ 0 := Rat.cast_ne_zero.2 (ne_of_gt hp)
        simp [nyquistFreq, DtPred.isdtime, PyGrid.dtNum, PyGrid.pdiv, dtValue, truncNyquist, hp, hK, pure, Except.pure,
          bind, Except.bind]
      · simp [nyquistFreq, DtPred.isdtime, hp, pure, Except.pure, bind, Except.bind]

/-- a frequency range given by the caller is used as it is (no cut, nothing appended), FRD or not -/
theorem generated_omegaSys_given (E : PyGrid.Ext K) (s : PyGrid.Sys K) (om : List K) (w : Bool) (hs : s.siso = true)
    (hv : s.dt.valid) : Generated.nyquistOmegaSys E s om true w = .ok om := by
  unfold Generated.nyquistOmegaSys
  simp only [hs, Bool.not_true, Bool.false_eq_true, if_false, Bool.and_false, Bool.not_false]
  cases hdt : s.dt with
  | none => simp [DtPred.isdtime, pure, Except.pure, bind, Except.bind]
  | cont => simp [DtPred.isdtime, pure, Except.pure, bind, Except.bind]
  | dtrue => simp [DtPred.isdtime, PyGrid.dtNum, PyGrid.pdiv, pure, Except.pure, bind, Except.bind]
  | disc h =>
    have hp : 0 < h := by rw [hdt] at hv; exact hv
    have hK : (h : K) ≠ 0 := Rat.cast_ne_zero.2 (ne_of_gt hp)
    simp [DtPred.isdtime, PyGrid.dtNum, PyGrid.pdiv, hp, hK, pure, Except.pure, bind, Except.bind]

/-- **start at 0, then the per-system statements = the model's `defaultOmegaDt`** -/
theorem generated_grid_eq_model (E : PyGrid.Ext K) (s : PyGrid.Sys K) (g : List K) (npts : ℕ) (w : Bool)
    (hs : s.siso = true) (hfrd : (s.frd && s.ifuncNone) = false) :
    (do let o ← prependLinspace npts g
        Generated.nyquistOmegaSys E s o false w) = defaultOmegaDt E.pi s.dt npts g := by
  unfold defaultOmegaDt defaultOmega
  cases hp : prependLinspace npts g with
  | error e => rfl
  | ok o =>
    simp only [bind, Except.bind, generated_omegaSys_eq E s o w hfrd, hs, if_true]
    cases nyquistFreq E.pi s.dt <;> rfl

/-! ### the headline theorems of `Props/C13Grid.lean` for the functions the source text defines -/

/-- **the grid `nyquist_response` builds by default extends at least 3/2 decades beyond every collected pole / zero
magnitude, whatever the configured default periphery** (`nyquist_two_decades` transported through the generated
`nyquist_response` statements → `_determine_omega_vector` → `_default_frequency_range`), and starts with the linspace
from 0 -/
theorem generated_nyquist_two_decades (E : PyGrid.Ext K) (hmono : Monotone E.log10) (hlog1 : E.log10 1 = 0)
    (sysdata : PyGrid.SysArg K) (npts : ℕ) (f i : List K) (hc : collect E 2 (sysList sysdata) = .ok (f, i)) :
    ∃ lo hi : K,
      Generated.nyquistGridCommon E sysdata .none .none none npts =
        (prependLinspace npts (PyGrid.logspace E.pow10 lo hi
          (numSamples (E.cfgN "freqplot.number_of_samples") (E.cfgN "freqplot.number_of_samples")))).map
          (fun o => (wrap sysdata, o, false)) ∧
      ∀ x ∈ f, lo ≤ E.log10 x - 3 / 2 ∧ E.log10 x + 3 / 2 ≤ hi := by
  refine ⟨(nyquistExponents (E.cfgK "freqplot.feature_periphery_decades" 1) (f.map E.log10) (i.map E.log10)).1,
    (nyquistExponents (E.cfgK "freqplot.feature_periphery_decades" 1) (f.map E.log10) (i.map E.log10)).2, ?_, ?_⟩
  · rw [generated_nyquistCommon_default, generated_defaultRange_eq E hmono hlog1]
    unfold modelRange
    have h2 : peripheryParam (E.cfgK "freqplot.feature_periphery_decades" 1) (some 2) = 2 := rfl
    have hl : sysList (wrap sysdata) = sysList sysdata := rfl
    simp only [h2, hl, hc, bind, Except.bind, pure, Except.pure, nyquistExponents]
    generalize prependLinspace (K := K) npts _ = r
    cases r <;> rfl
  · intro x hx
    exact C13Grid.nyquist_two_decades _ _ _ (E.log10 x) (List.mem_map_of_mem hx)

/-- discrete time: the frequencies the source text hands to the contour construction end exactly at `math.pi / dt` -/
theorem generated_omega_last (E : PyGrid.Ext K) (s : PyGrid.Sys K) {q : ℚ} (hq : 0 < q) (hdt : s.dt = .disc q)
    (hs : s.siso = true) (hfrd : (s.frd && s.ifuncNone) = false) (npts : ℕ) (a : K) (t : List K) (w : Bool) :
    ∃ l, (do let o ← prependLinspace npts (a :: t)
             Generated.nyquistOmegaSys E s o false w) = .ok l ∧ l.getLast? = some (E.pi / (q : K)) := by
  rw [generated_grid_eq_model E s _ npts w hs hfrd, hdt]
  exact C13Grid.defaultOmegaDt_last E.pi hq npts a t

/-- continuous or unspecified timebase: they start at `ω = 0` and are not cut -/
theorem generated_omega_head (E : PyGrid.Ext K) (s : PyGrid.Sys K) (hdt : s.dt = .cont ∨ s.dt = .none)
    (hs : s.siso = true) (hfrd : (s.frd && s.ifuncNone) = false) (npts : ℕ) (hn : 1 ≤ npts) (a : K) (t : List K)
    (w : Bool) :
    ∃ l, (do let o ← prependLinspace npts (a :: t)
             Generated.nyquistOmegaSys E s o false w) = .ok l ∧ l.head? = some 0 := by
  rw [generated_grid_eq_model E s _ npts w hs hfrd]
  have hnone : nyquistFreq E.pi s.dt = none := by
    rcases hdt with h | h <;> rw [h] <;> rfl
  unfold defaultOmegaDt
  rw [hnone]
  exact C13Grid.defaultOmega_head npts hn a t

/-- per-system copies for a LIST of systems: `nyquistOmegaAll` runs the per-system statements on the one common grid
for every system, in order -/
theorem generated_omegaAll_eq (E : PyGrid.Ext K) (sysdata : PyGrid.SysArg K) (om lim : PyGrid.OmArg K) (num : Option ℕ)
    (npts : ℕ) (w : Bool) (sl : PyGrid.SysArg K) (o : List K) (g : Bool)
    (hc : Generated.nyquistGridCommon E sysdata om lim num npts = .ok (sl, o, g)) :
    Generated.nyquistOmegaAll E sysdata om lim num npts w =
      (do let l ← PyGrid.iter sl
          l.mapM fun s => Generated.nyquistOmegaSys E s o g w) := by
  unfold Generated.nyquistOmegaAll
  rw [hc]
  rfl

/-! ### non-vacuity -/

/-- a concrete environment over `ℚ` (`log10 x = x - 1`: monotone, `log10 1 = 0`) -/
def exE : PyGrid.Ext ℚ :=
  { log10 := fun x => x - 1, ln := fun x => x, pow10 := fun x => x, pi := 3, cfgK := fun _ d => d, cfgN := fun _ => some 5 }

def exSys (dt : Dt) : PyGrid.Sys ℚ :=
  { frd := false, dt := dt, absPoles := [0, 2], absZeros := [1 / 2], omega := [], siso := true, ifuncNone := false }

example : Generated.defaultFrequencyRangeLoop exE 2 ([7], []) (exSys .cont) = .ok ([7, 2, 1 / 2], []) := by
  rw [generated_rangeLoop_eq]
  simp [step, contribution, exSys, featureBranch, DtPred.isctime, PyGrid.isclose, Except.map]
  norm_num

example : Generated.defaultFrequencyRangeLoop exE 2 ([7], []) (exSys (.disc (1 / 2))) =
    .ok ([7, 4, 1], [27 / 5]) := by
  rw [generated_rangeLoop_eq]
  simp [step, contribution, exSys, exE, featureBranch, DtPred.isctime, DtPred.isdtime, dtValue, Except.map]
  norm_num

example : Generated.defaultFrequencyRangeLoop exE 2 ([7], []) (exSys (.disc (-1))) = .ok ([7], []) := by
  rw [generated_rangeLoop_eq]
  norm_num [step, contribution, exSys, featureBranch, DtPred.isctime, DtPred.isdtime, Except.map]

example : Monotone exE.log10 ∧ exE.log10 1 = 0 := by
  constructor
  · intro a b h; simp only [exE]; linarith
  · simp [exE]

example : Generated.nyquistOmegaSys exE (exSys (.disc 1)) [0, 1, 2, 3, 4] false true = .ok [0, 1, 2, 3] := by
  rw [generated_omegaSys_eq _ _ _ _ (by rfl)]
  simp [exSys, nyquistFreq, DtPred.isdtime, dtValue, truncNyquist, exE]
  decide

example : Generated.determineOmegaVector exE (.one (exSys .cont)) (.seq [1, 2, 3]) .none none false none =
    .ok ([1, 2, 3], true) :=
  (generated_determine_given exE _ [1, 2, 3] none false none).2 (by decide)

end CtrlVerif.C13GenGrid
