/-
C13 — the default frequency grid of `nyquist_response` (model: `Model/NyquistGrid.lean`).

What is proved (over any ordered field with floor; the driver runs the model over `ℚ`)
* `rint_near` — `np.rint` moves a number by at most one half;
* `range_covers` — the logarithmic grid of `_default_frequency_range` extends at least `d - 1/2` decades beyond
  every feature (pole / zero magnitude) on both sides, and contains every `freq_interesting` (`range_interesting`);
* `nyquist_two_decades` — the grid `nyquist_response` asks for (`feature_periphery_decades=2`, forwarded by
  `_determine_omega_vector`) extends at least 3/2 decades beyond every feature, *whatever the configured default
  periphery is* (`nyquist_exponents_config_free`): this is the part of the contour's closure that depends on the
  frequency range (cf. `C13Arg.tail_bound`: the closure error is bounded by `Σ |Re a| / (ω_N - Im a)`);
* `truncNyquist_last`, `truncNyquist_le`, `truncNyquist_mem`, `truncNyquist_sorted` — the discrete-time grid ends
  exactly at the Nyquist frequency (the contour ends on `z = -1`, where `1 + L` is real: the half contour is closed),
  never exceeds it, keeps every grid point below it and stays strictly increasing;
* `prependLinspace_head`, `prependLinspace_length`, `defaultOmega_head`, `defaultOmega_last` — the grid starts at
  `ω = 0` (the `assert contour[0] == 0` of the insertion code) and, in discrete time, ends at the Nyquist frequency.
-/
import CtrlVerif.Lemmas.NyquistGrid
import CtrlVerif.Lemmas.DtOps
import Mathlib.Data.Rat.Floor
import Mathlib.Tactic.NormNum

namespace CtrlVerif.C13Grid

open CtrlVerif CtrlVerif.Nyquist

variable {K : Type} [Field K] [LinearOrder K] [IsStrictOrderedRing K] [FloorRing K]

/-! ### `np.rint` -/

/-- `np.rint` (round half to even) moves a number by at most one half. -/
theorem rint_near (x : K) : |x - ((roundHalfEven x : ℤ) : K)| ≤ 1 / 2 := by
  have h0 : (0 : K) ≤ x - (⌊x⌋ : K) := by linarith [Int.floor_le x]
  have h1 : x - (⌊x⌋ : K) < 1 := by linarith [Int.lt_floor_add_one x]
  unfold roundHalfEven
  simp only
  split_ifs with ha hb hc
  · rw [abs_le]; constructor <;> linarith
  · push_cast; rw [abs_le]; constructor <;> linarith
  · have : x - (⌊x⌋ : K) = 1 / 2 := le_antisymm (not_lt.1 hb) (not_lt.1 ha)
    rw [abs_le]; constructor <;> linarith
  · have : x - (⌊x⌋ : K) = 1 / 2 := le_antisymm (not_lt.1 hb) (not_lt.1 ha)
    push_cast; rw [abs_le]; constructor <;> linarith

/-! ### the range of the logarithmic grid -/

/-- The default grid extends at least `d - 1/2` decades beyond every feature, on both sides. -/
theorem range_covers (d : K) (logs interesting : List K) :
    ∀ x ∈ logs, (rangeExponents d logs interesting).1 ≤ x - d + 1 / 2 ∧
      x + d - 1 / 2 ≤ (rangeExponents d logs interesting).2 := by
  intro x hx
  cases logs with
  | nil => simp at hx
  | cons a t =>
    have hmin := minL_le a t x hx
    have hmax := le_maxL a t x hx
    have hlo := abs_le.1 (rint_near (minL a t - d))
    have hhi := abs_le.1 (rint_near (maxL a t + d))
    cases interesting with
    | nil =>
      simp only [rangeExponents]
      constructor <;> linarith [hlo.1, hlo.2, hhi.1, hhi.2]
    | cons b u =>
      simp only [rangeExponents]
      constructor
      · exact le_trans (min_le_left _ _) (by linarith [hlo.1, hlo.2])
      · exact le_trans (by linarith [hhi.1, hhi.2]) (le_max_left _ _)

/-- Every `freq_interesting` (discrete time: `0.9 pi/dt`) lies inside the grid. -/
theorem range_interesting (d : K) (logs interesting : List K) :
    ∀ b ∈ interesting, (rangeExponents d logs interesting).1 ≤ b ∧
      b ≤ (rangeExponents d logs interesting).2 := by
  intro x hx
  cases interesting with
  | nil => simp at hx
  | cons b u =>
    simp only [rangeExponents]
    exact ⟨le_trans (min_le_right _ _) (minL_le b u x hx), le_trans (le_maxL b u x hx) (le_max_right _ _)⟩

/-- An empty feature list is treated as the single feature `1.` (`log10 = 0`). -/
theorem range_no_features (d : K) (interesting : List K) :
    rangeExponents d [] interesting = rangeExponents d [0] interesting := by
  simp [rangeExponents]

/-- The periphery `nyquist_response` passes is the one `_default_frequency_range` uses: the configured default
(`freqplot.feature_periphery_decades`, 1) plays no role. -/
theorem nyquist_exponents_config_free (cfg cfg' : K) (logs interesting : List K) :
    nyquistExponents cfg logs interesting = nyquistExponents cfg' logs interesting := rfl

theorem nyquist_exponents_eq (cfg : K) (logs interesting : List K) :
    nyquistExponents cfg logs interesting = rangeExponents 2 logs interesting := rfl

/-- The grid of `nyquist_response` extends at least 3/2 decades beyond every pole / zero magnitude of the loop. -/
theorem nyquist_two_decades (cfg : K) (logs interesting : List K) :
    ∀ x ∈ logs, (nyquistExponents cfg logs interesting).1 ≤ x - 3 / 2 ∧
      x + 3 / 2 ≤ (nyquistExponents cfg logs interesting).2 := by
  intro x hx
  have h := range_covers (2 : K) logs interesting x hx
  rw [nyquist_exponents_eq]
  constructor <;> linarith [h.1, h.2]

/-- without the explicit argument the configured default is used (what `bode_plot` etc. get) -/
theorem determine_exponents_default (cfg : K) (logs interesting : List K) :
    determineExponents cfg none logs interesting = rangeExponents cfg logs interesting := rfl

example : nyquistExponents (1 : ℚ) [0, 3/10] [] = (-2, 2) := by
  simp only [nyquistExponents, determineExponents, peripheryParam, rangeExponents, minL, maxL, roundHalfEven,
    List.foldl_cons, List.foldl_nil]
  norm_num

/-! ### start at `ω = 0`, stop at the Nyquist frequency -/

omit [LinearOrder K] [IsStrictOrderedRing K] [FloorRing K] in
theorem prependLinspace_length (npts : ℕ) (a : K) (t : List K) :
    ∃ l, prependLinspace npts (a :: t) = .ok l ∧ l.length = npts + t.length := by
  refine ⟨_, rfl, ?_⟩
  simp [linspace_length_aux]
where
  linspace_length_aux : ∀ (a b : K) (n : ℕ), (linspace a b n).length = n := by
    intro a b n
    unfold linspace
    split_ifs with h
    · simp [h]
    · simp

omit [LinearOrder K] [IsStrictOrderedRing K] [FloorRing K] in
/-- the grid starts at `ω = 0` (`indent_points ≥ 1`; the code's default is 50) -/
theorem prependLinspace_head (npts : ℕ) (hn : 1 ≤ npts) (a : K) (t : List K) :
    ∃ l, prependLinspace npts (a :: t) = .ok l ∧ l.head? = some 0 := by
  refine ⟨_, rfl, ?_⟩
  unfold linspace
  split_ifs with h
  · simp
  · obtain ⟨m, rfl⟩ : ∃ m, npts = m + 1 := ⟨npts - 1, by omega⟩
    simp [List.range_succ_eq_map]

omit [Field K] [IsStrictOrderedRing K] [FloorRing K] in
/-- the discrete-time grid ends exactly at the Nyquist frequency -/
theorem truncNyquist_last (nyq : K) (om : List K) :
    (truncNyquist nyq om).getLast? = some nyq := by
  simp [truncNyquist]

omit [Field K] [IsStrictOrderedRing K] [FloorRing K] in
theorem truncNyquist_le (nyq : K) (om : List K) : ∀ w ∈ truncNyquist nyq om, w ≤ nyq := by
  intro w hw
  simp only [truncNyquist, List.mem_append, List.mem_filter, decide_eq_true_eq, List.mem_singleton] at hw
  rcases hw with ⟨_, h⟩ | rfl
  · exact h.le
  · exact le_rfl

omit [Field K] [IsStrictOrderedRing K] [FloorRing K] in
theorem truncNyquist_mem (nyq : K) (om : List K) {w : K} (hw : w ∈ om) (h : w < nyq) :
    w ∈ truncNyquist nyq om := by
  simp only [truncNyquist, List.mem_append, List.mem_filter, decide_eq_true_eq, List.mem_singleton]
  exact Or.inl ⟨hw, h⟩

omit [Field K] [IsStrictOrderedRing K] [FloorRing K] in
/-- a strictly increasing grid stays strictly increasing, Nyquist frequency included -/
theorem truncNyquist_sorted (nyq : K) (om : List K) (h : om.Pairwise (· < ·)) :
    (truncNyquist nyq om).Pairwise (· < ·) := by
  unfold truncNyquist
  rw [List.pairwise_append]
  refine ⟨h.filter _, by simp, ?_⟩
  intro a ha b hb
  simp only [List.mem_filter, decide_eq_true_eq] at ha
  simp only [List.mem_singleton] at hb
  subst hb
  exact ha.2

/-- discrete time: whatever the logarithmic grid, the frequencies handed to the contour construction end at the
Nyquist frequency `pi/dt` -/
theorem defaultOmega_last (npts : ℕ) (nyq a : K) (t : List K) :
    ∃ l, defaultOmega npts (some nyq) (a :: t) = .ok l ∧ l.getLast? = some nyq := by
  refine ⟨truncNyquist nyq (linspace 0 a npts ++ t), rfl, truncNyquist_last _ _⟩

/-- continuous time: the frequencies start at `0` -/
theorem defaultOmega_head (npts : ℕ) (hn : 1 ≤ npts) (a : K) (t : List K) :
    ∃ l, defaultOmega npts none (a :: t) = .ok l ∧ l.head? = some 0 := by
  obtain ⟨l, hl, hh⟩ := prependLinspace_head npts hn a t
  exact ⟨l, by simp [defaultOmega, hl], hh⟩

omit [IsStrictOrderedRing K] [FloorRing K] in
theorem defaultOmega_empty (npts : ℕ) (nyq : Option K) :
    defaultOmega npts nyq ([] : List K) = .error .indexRange := rfl

example : truncNyquist (3 : ℚ) [0, 1, 2, 3, 4] = [0, 1, 2, 3] := by decide

example : defaultOmega 3 (some (3 : ℚ)) [1, 2, 4] = .ok [0, 1/2, 1, 2, 3] := by
  simp [defaultOmega, prependLinspace, truncNyquist, linspace, List.range_succ]
  norm_num

/-- all dynamics within 3 % of the unit circle (`log10 |ln|z||/dt = -2`), `dt = 1`: the logarithmic grid ends at
`log10 (0.9 pi) ≈ 9/20`, not two decades above the features. -/
example : nyquistExponents (1 : ℚ) [-2] [9/20] = (-4, 9/20) := by
  simp only [nyquistExponents, determineExponents, peripheryParam, rangeExponents, minL, maxL, roundHalfEven,
    List.foldl_nil]
  norm_num

/-! ### the timebase of the loop (`dt` in {`None`, `0`, `True`, `dt > 0`})

`nyquist_response` treats a loop with unspecified timebase (`dt = None`: `tf(..., dt=None)`, anything created while
`config.defaults['control.default_dt']` is `None`, products of such systems) as continuous.  The three places that
look at the timebase - the feature selection of `_default_frequency_range`, the cut at the Nyquist frequency and the
mapping of the poles to the s-plane - must classify every timebase the same way, and no LTI system may fall into the
swallowed `NotImplementedError` branch (it would contribute no pole / zero to the range: the contour would be built on
the feature-less range 10^-2 .. 10^2 whatever the dynamics). -/

/-- every timebase a constructor accepts takes one of the two feature branches: the swallowed
`NotImplementedError` is unreachable -/
theorem featureBranch_valid {dt : Dt} (h : dt.valid) : featureBranch dt ≠ .skipped := by
  cases dt with
  | none => simp [featureBranch, DtPred.isctime]
  | cont => simp [featureBranch, DtPred.isctime]
  | dtrue => simp [featureBranch, DtPred.isctime, DtPred.isdtime]
  | disc q =>
    have hq : 0 < q := h
    have hne : q ≠ 0 := ne_of_gt hq
    simp [featureBranch, DtPred.isctime, DtPred.isdtime, hq, hne]

/-- unspecified timebase: the continuous-time features (poles and zeros of the loop), like `dt = 0` -/
theorem featureBranch_unspecified : featureBranch .none = .continuous ∧ featureBranch .cont = .continuous := by
  constructor <;> simp [featureBranch, DtPred.isctime]

theorem featureBranch_discrete {q : ℚ} (hq : 0 < q) :
    featureBranch (.disc q) = .discrete ∧ featureBranch .dtrue = .discrete := by
  have hne : q ≠ 0 := ne_of_gt hq
  constructor <;> simp [featureBranch, DtPred.isctime, DtPred.isdtime, hq, hne]

/-- the only timebase in the skipped branch is the one no constructor accepts (`dt < 0`) -/
theorem featureBranch_skipped_iff (dt : Dt) : featureBranch dt = .skipped ↔ ∃ q : ℚ, dt = .disc q ∧ q < 0 := by
  cases dt with
  | none => simp [featureBranch, DtPred.isctime]
  | cont => simp [featureBranch, DtPred.isctime]
  | dtrue => simp [featureBranch, DtPred.isctime, DtPred.isdtime]
  | disc q =>
    rcases lt_trichotomy q 0 with h | h | h
    · have h1 : ¬ 0 < q := not_lt.2 h.le
      simp [featureBranch, DtPred.isctime, DtPred.isdtime, h, h1, ne_of_lt h]
    · subst h; simp [featureBranch, DtPred.isctime]
    · have h1 : ¬ q < 0 := not_lt.2 h.le
      simp [featureBranch, DtPred.isctime, DtPred.isdtime, h, h1, ne_of_gt h]

/-- the range rule, the cut at the Nyquist frequency and the s-plane mapping agree on what is continuous and what is
discrete: features are taken as continuous-time ones exactly when the contour is `j omega` on the poles themselves and
is not cut; as discrete-time ones exactly when the contour is cut at `pi/dt` -/
theorem timebase_consistent (pi : K) {dt : Dt} (h : dt.valid) :
    (featureBranch dt = .continuous ↔ polesInSPlane dt = true) ∧
    (featureBranch dt = .continuous ↔ nyquistFreq pi dt = none) ∧
    (featureBranch dt = .discrete ↔ (nyquistFreq pi dt).isSome = true) := by
  cases dt with
  | none => simp [featureBranch, polesInSPlane, nyquistFreq, DtPred.isctime, DtPred.isdtime]
  | cont => simp [featureBranch, polesInSPlane, nyquistFreq, DtPred.isctime, DtPred.isdtime]
  | dtrue => simp [featureBranch, polesInSPlane, nyquistFreq, DtPred.isctime, DtPred.isdtime]
  | disc q =>
    have hq : 0 < q := h
    have hne : q ≠ 0 := ne_of_gt hq
    simp [featureBranch, polesInSPlane, nyquistFreq, DtPred.isctime, DtPred.isdtime, hq, hne]

omit [LinearOrder K] [IsStrictOrderedRing K] [FloorRing K] in
/-- the frequency the discrete-time grid is cut at: `pi/dt`, `pi` for `dt = True`; none for `dt = None` / `0` -/
theorem nyquistFreq_eq (pi : K) {q : ℚ} (hq : 0 < q) :
    nyquistFreq pi (.disc q) = some (pi / (q : K)) ∧ nyquistFreq pi .dtrue = some pi ∧
    nyquistFreq pi .none = none ∧ nyquistFreq pi .cont = none := by
  simp [nyquistFreq, DtPred.isdtime, dtValue, hq]

omit [IsStrictOrderedRing K] [FloorRing K] in
/-- a loop with unspecified timebase is handed the same frequencies as the same loop declared continuous -/
theorem defaultOmegaDt_unspecified (pi : K) (npts : ℕ) (om : List K) :
    defaultOmegaDt pi .none npts om = defaultOmegaDt pi .cont npts om ∧
    defaultOmegaDt pi .none npts om = prependLinspace npts om := by
  constructor
  · rfl
  · simp only [defaultOmegaDt, nyquistFreq, DtPred.isdtime, defaultOmega]
    cases prependLinspace npts om <;> rfl

/-- discrete time: the frequencies end at `pi/dt` -/
theorem defaultOmegaDt_last (pi : K) {q : ℚ} (hq : 0 < q) (npts : ℕ) (a : K) (t : List K) :
    ∃ l, defaultOmegaDt pi (.disc q) npts (a :: t) = .ok l ∧ l.getLast? = some (pi / (q : K)) := by
  have h := (nyquistFreq_eq pi hq).1
  unfold defaultOmegaDt
  rw [h]
  exact defaultOmega_last npts _ a t

/-- a factor with unspecified timebase (a static gain `tf(k, 1)`, a system declared with `dt=None`) does not change the
classification of the loop -/
theorem loopTimebase_unspecified_factor (d : Dt) :
    loopTimebase [.none, d] = .ok d ∧ loopTimebase [d, .none] = .ok d ∧ loopTimebase [d] = .ok d := by
  refine ⟨?_, ?_, rfl⟩
  · change common .none d = .ok d
    exact common_none_left d
  · change common d .none = .ok d
    exact common_none_right d

example : featureBranch (.disc (1/10)) = .discrete := (featureBranch_discrete (by norm_num)).1
example : nyquistFreq (3 : ℚ) (.disc (1/10)) = some 30 := by
  simp [nyquistFreq, DtPred.isdtime, dtValue]; norm_num
example : loopTimebase [.none, .disc (1/10), .none] = .ok (.disc (1/10)) := by
  change common' (common' (.ok .none) (.ok (.disc (1/10)))) (.ok .none) = _
  change (do let x ← common .none (.disc (1/10)); common x .none) = _
  rw [common_none_left]
  change common (.disc (1/10)) .none = _
  exact common_none_right _
example : loopTimebase [.cont, .dtrue] = .error .timebase := rfl

end CtrlVerif.C13Grid
