/-
Source-text tie of the discretisation dispatchers (C14; notes/NOTES-py2lean-disp.md), closed form of the
end-to-end statement: the three generated pieces — the binding of `sample_system` (signature read from
control/dtime.py), its body (test + forwarding call) and the binding of `sample` (signatures read from
control/statesp.py / control/xferfcn.py) — are COMPOSED, with the caller's environment *computed* from
the first binding (`envOf`) instead of assumed:
`sampleSystem_call_delivers` / `c2d_call_delivers`.
-/
import CtrlVerif.Props.C14GenDisp

namespace CtrlVerif.C14GenDisp
open CtrlVerif CtrlVerif.PySig CtrlVerif.C14
open CtrlVerif.Generated

/-- the environment of a function body after binding: parameter `p` holds the value bound to it. -/
def envOf {α : Type} (ps : List String) (vals : List α) (d : α) : String → α :=
  fun p => ((ps.zip vals).lookup p).getD d

theorem lookup_zip {α : Type} : ∀ (ps : List String) (vs : List α) (i : Nat) (p : String),
    ps.Nodup → ps[i]? = some p → (ps.zip vs).lookup p = vs[i]?
  | [], _, _, _, _, h => by simp at h
  | q :: ps, [], i, p, _, _ => by simp
  | q :: ps, v :: vs, 0, p, _, h => by
    simp only [List.getElem?_cons_zero, Option.some.injEq] at h
    subst h
    simp [List.lookup_cons]
  | q :: ps, v :: vs, i + 1, p, hn, h => by
    simp only [List.getElem?_cons_succ] at h
    have hmem : p ∈ ps := List.mem_of_getElem? h
    have hne : p ≠ q := by
      rintro rfl
      exact (List.nodup_cons.mp hn).1 hmem
    simp only [List.zip_cons_cons, List.lookup_cons, List.getElem?_cons_succ]
    have : (p == q) = false := by simpa using hne
    rw [this]
    exact lookup_zip ps vs i p (List.nodup_cons.mp hn).2 h

/-- the function call `f(a p₀, …, a p_{npos-1}, k₁ = a k₁, …)` as a call form (no receiver: `self0`
is a placeholder that `Sig.receive` passes through). -/
def fnCall {α : Type} (self0 : α) (fname : String) (params : List String) (a : String → α) (npos : Nat)
    (kws : List String) : CallForm α :=
  { recv := self0, attr := fname, pos := (params.take npos).map a, kws := kws.map (fun k => (k, a k)),
    star := [] }

/-- what `Sig.receive` of a function call is, in terms of the binding. -/
theorem receive_fnCall {α : Type} (sg : Sig) (lit : Const → α) (self0 : α) (fname : String) (a : String → α)
    (npos : Nat) (kws : List String) (r : Received α) (hn : npos ≤ sg.params.length)
    (h : sg.receive lit (fnCall self0 fname sg.params a npos kws) = .ok r) :
    ∃ s, sg.bind npos kws = .ok s ∧
      r.vals = List.zipWith (fun p sl =>
        (Slot.value ((sg.params.take npos).map a) (kws.map a) sl).getD (lit (sg.default p))) sg.params s ∧
      r.extra = (kws.filter (fun k => !sg.params.contains k)).map (fun k => (k, a k)) := by
  unfold Sig.receive fnCall at h
  have e1 : (kws.map (fun k => (k, a k))).map (·.1) = kws := by simp [List.map_map, Function.comp_def]
  have e2 : (kws.map (fun k => (k, a k))).map (·.2) = kws.map a := by simp [List.map_map, Function.comp_def]
  have e3 : ((sg.params.take npos).map a).length = npos := by simp [hn]
  simp only [e1, e2, e3, List.map_nil, List.append_nil] at h
  cases hb : sg.bind npos kws with
  | error e => rw [hb] at h; cases h
  | ok s =>
    rw [hb] at h
    simp only [Except.ok.injEq] at h
    subst h
    refine ⟨s, rfl, rfl, ?_⟩
    simp [List.filter_map, Function.comp_def]

/-- the composition for ANY dispatcher `f` with signature `sg` that has the documented signature and,
composed with either binding of `sample`, is the model of the dispatcher. -/
theorem call_delivers_of {α : Type} (sg : Sig) (fname : String)
    (f : (α → Bool) → (String → α) → List (String × α) → Except Err (CallForm α))
    (hsg : sg = plainSig sampleSystemParams true sampleDefaults)
    (hss : ∀ isctime lit env kwargs, (∀ kv ∈ kwargs, kv.1 ∉ sampleSystemParams) →
      (f isctime env kwargs).bind (Disp.ssSampleSig.receive lit) = sampleSystemModel isctime env kwargs)
    (htf : ∀ isctime lit env kwargs, (∀ kv ∈ kwargs, kv.1 ∉ sampleSystemParams) →
      (f isctime env kwargs).bind (Disp.tfSampleSig.receive lit) = sampleSystemModel isctime env kwargs)
    (isctime : α → Bool) (lit : Const → α) (a : String → α)
    (self0 : α) (npos : Nat) (kws : List String) (rF : Received α)
    (hF : sg.receive lit (fnCall self0 fname sg.params a npos kws) = .ok rF)
    (hn : npos ≤ sg.params.length)
    (hct : isctime (a "sysc") = true) :
    ∃ r, (f isctime (envOf sg.params rF.vals self0) rF.extra).bind (Disp.ssSampleSig.receive lit) = .ok r ∧
      (f isctime (envOf sg.params rF.vals self0) rF.extra).bind (Disp.tfSampleSig.receive lit) = .ok r ∧
      r.self = a "sysc" ∧
      r.extra = (kws.filter (fun k => !sg.params.contains k)).map (fun k => (k, a k)) ∧
      ∀ (i : Nat) (p : String), Disp.ssSampleSig.params[i]? = some p →
        r.vals[i]? = some (if i + 1 < npos ∨ p ∈ kws then a p else lit (Disp.ssSampleSig.default p)) := by
  obtain ⟨s, hb, hv, hx⟩ := receive_fnCall _ lit self0 _ a npos kws rF hn hF
  have hpar : sg.params = sampleSystemParams := by rw [hsg]; rfl
  have hb2 : bindArgs sampleSystemParams 2 true npos kws = .ok s := by
    have h := hb
    rw [hsg, plainSig_bind _ _ _ _ plain_sampleSystem_facts.2.1] at h
    exact h
  have hlen : s.length = sg.params.length := by rw [hpar]; exact (bindArgs_pos hb2).1
  have hnd : sg.params.Nodup := by rw [hpar]; decide
  have henv : ∀ (i : Nat) (p : String), sg.params[i]? = some p →
      envOf sg.params rF.vals self0 p =
        ((s[i]?.bind (Slot.value ((sg.params.take npos).map a) (kws.map a))).getD (lit (sg.default p))) := by
    intro i p hp
    have hi : i < s.length := by
      rw [hlen]; exact (List.getElem?_eq_some_iff.mp hp).1
    unfold envOf
    rw [lookup_zip _ _ i p hnd hp, hv, List.getElem?_zipWith, hp, List.getElem?_eq_getElem hi]
    simp
  -- the bound `sysc` is the value written for it (a parameter without default is always supplied)
  have hsys : envOf sg.params rF.vals self0 "sysc" = a "sysc" := by
    have h0' : sampleSystemParams[0]? = some "sysc" := rfl
    rw [henv 0 "sysc" (by rw [hpar]; rfl), hpar, bindArgs_delivers hb2 a h0']
    have hreq := (bindArgs_inv hb2).2.2.1
    by_cases h0 : 0 < npos
    · simp [h0]
    · have hz : npos = 0 := by omega
      have : "sysc" ∈ kws := hreq "sysc" (by subst hz; decide)
      simp [this]
  obtain ⟨r, h1, h2, h3, h4, h5⟩ := route_delivers_of sg f hsg hss htf isctime lit a npos kws s
    (envOf sg.params rF.vals self0) rF.extra hb henv hx (by rw [hsys]; exact hct)
  exact ⟨r, h1, h2, by rw [h3, hsys], by rw [h4, hx], h5⟩

/-- **The composition of the three generated pieces delivers every value.**  The call
`sample_system(a p₀, …, k = a k, …)` with ANY split into `npos` positional arguments and keywords `kws`:
if the generated binding of `sample_system` accepts it (`Sig.receive … = .ok rF`) and the `sysc` written
is continuous-time, then the generated body, run in the environment that binding produces, followed by the
generated binding of `StateSpace.sample` (and likewise of `TransferFunction.sample`) succeeds: `sample`
runs on the value written for `sysc`, its `**kwargs` are the keywords that name no parameter with their
values, and each parameter `p` of `sample` holds `a p` when the call supplied `p` (positionally or by
keyword) and the documented default otherwise. -/
theorem sampleSystem_call_delivers {α : Type} (isctime : α → Bool) (lit : Const → α) (a : String → α)
    (self0 : α) (npos : Nat) (kws : List String) (rF : Received α)
    (hF : Disp.sampleSystemSig.receive lit
      (fnCall self0 "sample_system" Disp.sampleSystemSig.params a npos kws) = .ok rF)
    (hn : npos ≤ Disp.sampleSystemSig.params.length)
    (hct : isctime (a "sysc") = true) :
    ∃ r, (Disp.sampleSystem isctime (envOf Disp.sampleSystemSig.params rF.vals self0) rF.extra).bind
          (Disp.ssSampleSig.receive lit) = .ok r ∧
      (Disp.sampleSystem isctime (envOf Disp.sampleSystemSig.params rF.vals self0) rF.extra).bind
          (Disp.tfSampleSig.receive lit) = .ok r ∧
      r.self = a "sysc" ∧
      r.extra = (kws.filter (fun k => !Disp.sampleSystemSig.params.contains k)).map (fun k => (k, a k)) ∧
      ∀ (i : Nat) (p : String), Disp.ssSampleSig.params[i]? = some p →
        r.vals[i]? = some (if i + 1 < npos ∨ p ∈ kws then a p else lit (Disp.ssSampleSig.default p)) :=
  call_delivers_of Disp.sampleSystemSig "sample_system" (fun i e k => Disp.sampleSystem i e k)
    generated_sampleSystemSig_eq
    (fun i l e k h => generated_sampleSystem_eq i l e k h) (fun i l e k h => generated_sampleSystem_tf_eq i l e k h)
    isctime lit a self0 npos kws rF hF hn hct

/-- the same for `c2d` — an alias or a `def` of its own. -/
theorem c2d_call_delivers {α : Type} (isctime : α → Bool) (lit : Const → α) (a : String → α)
    (self0 : α) (npos : Nat) (kws : List String) (rF : Received α)
    (hF : Disp.c2dSig.receive lit (fnCall self0 "c2d" Disp.c2dSig.params a npos kws) = .ok rF)
    (hn : npos ≤ Disp.c2dSig.params.length)
    (hct : isctime (a "sysc") = true) :
    ∃ r, (Disp.c2d isctime (envOf Disp.c2dSig.params rF.vals self0) rF.extra).bind
          (Disp.ssSampleSig.receive lit) = .ok r ∧
      (Disp.c2d isctime (envOf Disp.c2dSig.params rF.vals self0) rF.extra).bind
          (Disp.tfSampleSig.receive lit) = .ok r ∧
      r.self = a "sysc" ∧
      r.extra = (kws.filter (fun k => !Disp.c2dSig.params.contains k)).map (fun k => (k, a k)) ∧
      ∀ (i : Nat) (p : String), Disp.ssSampleSig.params[i]? = some p →
        r.vals[i]? = some (if i + 1 < npos ∨ p ∈ kws then a p else lit (Disp.ssSampleSig.default p)) :=
  call_delivers_of Disp.c2dSig "c2d" (fun i e k => Disp.c2d i e k) generated_c2dSig_eq
    (fun i l e k h => (generated_c2d_eq i l e k h).1) (fun i l e k h => (generated_c2d_eq i l e k h).2)
    isctime lit a self0 npos kws rF hF hn hct

/-! ### non-vacuity -/

/-- `sample_system(5, 1, 2, inputs=7, prewarp_frequency=3)` over `Int` (`a` = the intended values,
`lit` maps every default to 0): the binding read from the source accepts it, so the hypotheses of
`sampleSystem_call_delivers` are satisfiable (the composite value `sample` then receives,
`[1, 2, 0, 3, 0, 0]` on `5` with `inputs=7`, is the `example` beside `generated_sampleSystem_eq`). -/
example :
    let a : String → Int := fun p => if p = "sysc" then 5 else if p = "Ts" then 1 else if p = "method" then 2
      else if p = "prewarp_frequency" then 3 else if p = "inputs" then 7 else 0
    ∃ rF, Disp.sampleSystemSig.receive (fun _ => 0)
        (fnCall (-1) "sample_system" Disp.sampleSystemSig.params a 3 ["inputs", "prewarp_frequency"]) = .ok rF ∧
      rF.vals = [5, 1, 2, 0, 3, 0, 0] ∧ rF.extra = [("inputs", 7)] ∧
      envOf Disp.sampleSystemSig.params rF.vals (-1) "prewarp_frequency" = 3 ∧
      3 ≤ Disp.sampleSystemSig.params.length ∧ (fun _ : Int => true) (a "sysc") = true :=
  ⟨_, rfl, by decide, by decide, by decide, by decide, rfl⟩

end CtrlVerif.C14GenDisp
