/-
C12 — source-text tie of the HEAD of `stability_margins` (tag py2lean-heads, notes/NOTES-py2lean-heads.md).
`Generated/HeadSmDispatch.lean`, `HeadSmMethod.lean`, `HeadSmLikely.lean` are rewritten on every run of
`check.py C12` by `harness/core/py2lean_heads.py` from the text of `control/margins.py` of the tree under
check: the dispatch statement (`try: … except Exception …`) on the class of `sysdata`, the SISO check, the
`method` resolution, the pivot `isinstance` / time-domain tests that choose the polynomial builders, and
`_likely_numerical_inaccuracy`.  Here the hand-written model `Model/MarginsHead.lean` is proved EQUAL to
them for every environment (object classes, constructors, `issiso`, `isctime`, the switch are arbitrary),
every field, every argument, every method string, and the theorems of `Props/C12Head.lean` are transported.
The equalities include the caller's `sysdata` AFTER the call: the text does not change `mag`, `phase`,
`omega` in place.
-/
import CtrlVerif.Generated.HeadSmDispatch
import CtrlVerif.Generated.HeadSmMethod
import CtrlVerif.Generated.HeadSmLikely
import CtrlVerif.Lemmas.PyMarg
import CtrlVerif.Props.C12Head
import CtrlVerif.Props.C12Gen

namespace CtrlVerif.C12GenHead

open CtrlVerif CtrlVerif.Margins CtrlVerif.PyHeads CtrlVerif.MarginsHead

section
variable {K TF FRD Oth : Type} [Field K] [LinearOrder K]
variable (E : Env K TF FRD Oth) (P : PyMarg.Prims K)

theorem tryExcept_eq {α : Type} (x : Except Err α) : tryExcept x (.error .badArg) = asValueError x := by
  cases x <;> rfl

theorem asValueError_map {α β : Type} (x : Except Err α) (f : α → β) :
    asValueError (x.map f) = (asValueError x).map f := by
  cases x <;> rfl

theorem map_div_mul (phase : List K) (c : K) :
    List.map (fun x => x / (180 : K)) (List.map (fun x => x * c) phase) = phase.map fun x => x * c / 180 := by
  simp [List.map_map, Function.comp_def]

/-- the Bode-data arm of the dispatch: on exactly three items the generated text builds
`FRD(mag·exp(j·phase·π/180), omega, smooth=True)` and hands the three arrays back unchanged. -/
theorem generated_smDispatch_seq3 (mag phase omega : List K) :
    Generated.Heads.smDispatch E P (.seq [mag, phase, omega]) =
      (asValueError ((bodeData E P mag phase omega).map Sys.frd)).map
        fun s => (s, SysData.seq [mag, phase, omega]) := by
  simp only [Generated.Heads.smDispatch, List.length_cons, List.length_nil, if_true, unpack3, tryExcept_eq,
    bodeData, bodeResp, Nat.reduceAdd, bind, pure, Except.bind, Except.pure]
  rw [map_div_mul]
  have e : List.map P.expj (List.map (fun x => x * P.pi / 180) phase)
      = List.map (fun x => P.expj (x * P.pi / 180)) phase := by
    simp [List.map_map, Function.comp_def]
  rw [e]
  generalize PyMarg.zipB rmulc mag (List.map (fun x => P.expj (x * P.pi / 180)) phase) = z
  cases z with
  | error e => rfl
  | ok r =>
    dsimp only
    generalize E.frdOfData r omega true = y
    cases y <;> rfl

theorem length3 {α : Type} (items : List α) (h : items.length = 3) : ∃ a b c, items = [a, b, c] := by
  match items, h with
  | [a, b, c], _ => exact ⟨a, b, c, rfl⟩

/-- **`generated_smDispatch_eq`** — the dispatch statement as the source text says it is the model's
`dispatch`, and the caller's `sysdata` is unchanged after it: for every class of argument, every sequence
(any number of items, any arrays), every environment. -/
theorem generated_smDispatch_eq (d : SysData K TF FRD Oth) :
    Generated.Heads.smDispatch E P d = (dispatch E P d).map fun s => (s, d) := by
  cases d with
  | frd f => rfl
  | tf g => rfl
  | seq items =>
    by_cases h : items.length = 3
    · obtain ⟨a, b, c, rfl⟩ := length3 items h
      exact generated_smDispatch_seq3 E P a b c
    · rw [C12Head.seq_not3_converts E P items h]
      simp only [Generated.Heads.smDispatch, h, if_false, tryExcept_eq, bind, pure, Except.bind, Except.pure]
      cases E.convertSeq items <;> rfl
  | iterNoLen o => rfl
  | other o =>
    simp only [Generated.Heads.smDispatch, dispatch, tryExcept_eq, bind, pure, Except.bind, Except.pure]
    cases E.convertOther o <;> rfl

theorem mask_lt (om : List K) (lim : K) :
    PyMarg.mask om (List.map (fun x => decide (x < lim)) om) = .ok (om.filter fun w => decide (w < lim)) :=
  PyMarg.mask_map om _

/-- the Nyquist cut `omega_sys[omega_sys < np.pi / sys.dt]` as the text computes it. -/
theorem generated_belowNyquist (g : TF) {α : Type} (k : List K → Except Err α) :
    ((PyArith.div P.pi (E.dt g)).bind fun t =>
        (PyMarg.mask (E.defaultRange g) (List.map (fun x => decide (x < t)) (E.defaultRange g))).bind k)
      = (belowNyquist E P g).bind k := by
  unfold belowNyquist
  cases PyArith.div P.pi (E.dt g) with
  | error e => rfl
  | ok t => simp only [Except.bind, Except.map, mask_lt]

/-- **`generated_smMethod_eq`** — SISO check, `method` resolution and choice of the builders as the source
text says them are the model's `resolve` followed by `routeOf`: for every operand, EVERY method string,
every environment (in particular every value of the numerical-inaccuracy switch). -/
theorem generated_smMethod_eq (s : Sys TF FRD) (method : String) :
    Generated.Heads.smMethod E P s method = (resolve E P method s).map (routeOf E) := by
  cases s with
  | frd f =>
    simp only [Generated.Heads.smMethod, resolve, knownMethod]
    by_cases hs : E.issisoFRD f = true
    · by_cases h1 : method = "frd"
      · simp [hs, h1, routeOf, Except.map, pure, Except.pure]
      · by_cases h2 : method = "best"
        · simp [hs, h2, routeOf, Except.map, pure, Except.pure]
        · by_cases h3 : method = "poly"
          · simp [hs, h3, routeOf, Except.map, pure, Except.pure]
          · simp [hs, h1, h2, h3, Except.map]
    · simp [hs, Except.map]
  | tf g =>
    simp only [Generated.Heads.smMethod, resolve]
    by_cases hs : E.issisoTF g = true
    · simp only [hs, not_true_eq_false, if_false, if_true]
      by_cases h1 : method = "frd"
      · simp only [h1, if_true, sampled]
        by_cases hc : E.isctime g = true
        · simp [hc, routeOf, Except.map, pure, Except.pure]
        · simp only [hc, if_false, bind, pure, Except.pure]
          rw [generated_belowNyquist]
          cases belowNyquist E P g <;> simp [Except.bind, Except.map, routeOf]
      · simp only [h1, if_false]
        by_cases h2 : method = "best"
        · simp only [h2, if_true, fallback]
          by_cases hc : E.isctime g = true
          · simp [hc, routeOf, builders, Except.map, pure, Except.pure]
          · simp only [hc, not_false_eq_true, if_true, if_false, bind, pure, Except.pure]
            cases E.likely g with
            | error e => rfl
            | ok l =>
              cases l
              · simp [Except.bind, Except.map, routeOf, builders, hc]
              · simp only [Except.bind, if_true]
                have := generated_belowNyquist E P g
                  (fun om => (Except.ok (Route.frd (E.frdOfTF g om true)) : Except Err (Route TF FRD)))
                simp only [Except.bind] at this
                rw [this]
                cases belowNyquist E P g <;> simp [Except.map, routeOf]
        · simp only [h2, if_false]
          by_cases h3 : method = "poly"
          · by_cases hc : E.isctime g = true <;>
              simp [h3, hc, routeOf, builders, Except.map, pure, Except.pure]
          · simp [h3, Except.map]
    · simp [hs, Except.map]

/-- **`generated_smHead_eq`** — the whole head as the source text says it: the model's route, and the
caller's `sysdata` after the call IS the `sysdata` handed in. -/
theorem generated_smHead_eq (d : SysData K TF FRD Oth) (method : String) :
    Generated.Heads.smHead E P d method = headStep E P method d := by
  unfold Generated.Heads.smHead headStep head
  simp only [bind, pure, Except.pure]
  rw [generated_smDispatch_eq]
  cases dispatch E P d with
  | error e => rfl
  | ok s =>
    simp only [Except.map, Except.bind]
    rw [generated_smMethod_eq]
    cases resolve E P method s <;> rfl

/-- the default of `method` in the signature. -/
theorem generated_default_method : Generated.Heads.smDefaultMethod = "best" := rfl

/-! ### transported theorems (about whatever the generated head returns) -/

/-- **The (mag, phase, omega) route of the source text is pure**: after any number of earlier calls on the
same three arrays they are unchanged, and the call returns what it returns on fresh copies. -/
theorem generated_bode_data_route_pure (method : String) (n : Nat) (mag phase omega : List K) :
    afterCalls (fun d => Generated.Heads.smHead E P d method) n (.seq [mag, phase, omega])
        = .seq [mag, phase, omega] ∧
    Generated.Heads.smHead E P
        (afterCalls (fun d => Generated.Heads.smHead E P d method) n (.seq [mag, phase, omega])) method
      = Generated.Heads.smHead E P (.seq [mag, phase, omega]) method := by
  have e : (fun d => Generated.Heads.smHead E P d method) = headStep E P method := by
    funext d; exact generated_smHead_eq E P d method
  rw [e]
  have h := (C12Head.bode_data_route_pure E P method n mag phase omega).1
  exact ⟨h, by rw [h]⟩

/-- no call of the generated head changes the caller's data, whatever its class. -/
theorem generated_head_leaves_sysdata (d : SysData K TF FRD Oth) (method : String) (r)
    (h : Generated.Heads.smHead E P d method = .ok r) : r.2 = d := by
  rw [generated_smHead_eq] at h
  exact C12Head.headStep_snd E P method d r h

theorem generated_frd_forces_frd (f : FRD) (method : String) (hs : E.issisoFRD (E.frdCopy f true) = true)
    (hm : knownMethod method = true) :
    Generated.Heads.smHead E P (.frd f) method = .ok (.frd (E.frdCopy f true), .frd f) := by
  rw [generated_smHead_eq, headStep, C12Head.frd_forces_frd E P f method hs hm]; rfl

theorem generated_poly_keeps_tf (g : TF) (hs : E.issisoTF g = true) :
    Generated.Heads.smHead E P (.tf g) "poly" = .ok (.poly (builders E g) g, .tf g) := by
  rw [generated_smHead_eq, headStep, C12Head.poly_keeps_tf E P g hs]; rfl

theorem generated_best_continuous (g : TF) (hs : E.issisoTF g = true) (hc : E.isctime g = true) :
    Generated.Heads.smHead E P (.tf g) Generated.Heads.smDefaultMethod = .ok (.poly .iw g, .tf g) := by
  rw [generated_default_method, generated_smHead_eq, headStep, C12Head.best_continuous E P g hs hc]; rfl

theorem generated_best_discrete (g : TF) (hs : E.issisoTF g = true) (hc : E.isctime g = false) :
    Generated.Heads.smHead E P (.tf g) "best" =
      ((E.likely g).bind fun l =>
        if l then (belowNyquist E P g).map fun om => Route.frd (E.frdOfTF g om true)
        else .ok (.poly .zinvz g)).map fun r => (r, .tf g) := by
  rw [generated_smHead_eq, headStep, C12Head.best_discrete E P g hs hc]

theorem generated_unknown_method_raises (s : Sys TF FRD) (method : String) (hm : knownMethod method = false)
    (hs : match s with | .tf g => E.issisoTF g = true | .frd f => E.issisoFRD f = true) :
    Generated.Heads.smMethod E P s method = .error .badArg := by
  rw [generated_smMethod_eq, C12Head.unknown_method_raises E P s method hm hs]; rfl

theorem generated_mimo_raises (s : Sys TF FRD) (method : String)
    (hs : match s with | .tf g => E.issisoTF g = false | .frd f => E.issisoFRD f = false) :
    Generated.Heads.smMethod E P s method = .error .notImplemented := by
  rw [generated_smMethod_eq, C12Head.mimo_raises E P s method hs]; rfl

/-- the `ctime` flag with which the transfer-function branch (tied by `C12GenSel`: `Generated.smCand … ctime …`)
is entered: the builders are `_poly_iw` exactly for a continuous-time system. -/
theorem generated_route_builders (d : SysData K TF FRD Oth) (method : String) (b : Builders) (g : TF) (d' )
    (h : Generated.Heads.smHead E P d method = .ok (.poly b g, d')) : (b = .iw ↔ E.isctime g = true) := by
  rw [generated_smHead_eq] at h
  unfold headStep at h
  cases hh : head E P d method with
  | error e => rw [hh] at h; cases h
  | ok r =>
    rw [hh] at h
    simp only [Except.map, Except.ok.injEq, Prod.mk.injEq] at h
    rw [h.1] at hh
    exact C12Head.route_builders E P d method b g hh

end

/-! ### `_likely_numerical_inaccuracy` -/

section
variable {K : Type} [Field K] [LinearOrder K] [IsStrictOrderedRing K]

theorem decimal_nonneg : (0 : K) ≤ PyHeads.decimal 1 10000 := by
  unfold PyHeads.decimal
  positivity

/-- comparing norms is comparing sums of squares: `a < c·b ⇔ a² < c²·b²` for non-negative `a, b, c`. -/
theorem norm_lt_iff (norm : List K → K) (hn : NormSpec norm) (p1 p2 : List K) :
    norm p1 < PyHeads.decimal 1 10000 * norm p2 ↔ coeffNormSq p1 < tol2 * coeffNormSq p2 := by
  have h1 := hn.nonneg p1
  have h2 : 0 ≤ PyHeads.decimal 1 10000 * norm p2 := mul_nonneg decimal_nonneg (hn.nonneg p2)
  rw [← hn.sq p1, ← hn.sq p2]
  have e : tol2 * (norm p2 * norm p2)
      = (PyHeads.decimal 1 10000 * norm p2) * (PyHeads.decimal 1 10000 * norm p2) := by
    unfold tol2; ring
  rw [e]
  exact (mul_self_lt_mul_self_iff h1 h2)

/-- **`generated_likely_eq`** — `_likely_numerical_inaccuracy` as the source text says it (norms compared
with the factor `1e-4`) is the model's `likelyInaccurate` (sums of squares compared with `(1e-4)²`) on every
proper system, and raises like `_poly_z_invz` on a non-proper one: for all coefficient lists, under the
contract of `np.linalg.norm`. -/
theorem generated_likely_eq (norm : List K → K) (hn : NormSpec norm) (num den : List K) (dt : K) :
    Generated.Heads.likelyNumericalInaccuracy norm num den dt =
      (zProper num den).map fun _ => likelyInaccurate num den (tol2 : K) := by
  unfold Generated.Heads.likelyNumericalInaccuracy
  simp only [bind, pure, Except.pure]
  rw [C12Gen.generated_zinvz_eq]
  unfold zProper
  by_cases h : num.length > den.length
  · simp only [h, if_true]; rfl
  · simp only [h, if_false, Except.map, Except.bind]
    unfold likelyInaccurate zMag1P1 zMag1P2
    by_cases h2 : num.length < den.length
    · have h' : (num.length : Int) - (den.length : Int) < 0 := by omega
      have e : (-((num.length : Int) - (den.length : Int))).toNat = den.length - num.length := by omega
      simp only [h2, h', if_true, e, C12Gen.shift_cast, norm_lt_iff norm hn]
    · have h' : ¬ (num.length : Int) - (den.length : Int) < 0 := by omega
      simp only [h2, h', if_false, norm_lt_iff norm hn]

/-- the decision `method='best'` takes on a discrete-time SISO transfer function when the switch IS the
function the source text defines: fall back to the numerical route exactly when the model's
`likelyInaccurate` (the predicate the driver evaluates, `Driver/Margins.lean: F`) holds. -/
theorem generated_best_discrete_decision {TF FRD Oth : Type} (E : Env K TF FRD Oth) (P : PyMarg.Prims K)
    (norm : List K → K) (hn : NormSpec norm) (num den : TF → List K) (g : TF)
    (hl : E.likely = fun g => Generated.Heads.likelyNumericalInaccuracy norm (num g) (den g) (E.dt g))
    (hs : E.issisoTF g = true) (hc : E.isctime g = false) (hp : (num g).length ≤ (den g).length) :
    Generated.Heads.smHead E P (.tf g) "best" =
      (if likelyInaccurate (num g) (den g) (tol2 : K) then
        (belowNyquist E P g).map fun om => (Route.frd (E.frdOfTF g om true), SysData.tf g)
       else .ok (.poly .zinvz g, .tf g)) := by
  rw [generated_best_discrete E P g hs hc, hl]
  simp only [generated_likely_eq norm hn]
  unfold zProper
  have : ¬ (num g).length > (den g).length := by omega
  simp only [this, if_false, Except.map, Except.bind]
  by_cases hL : likelyInaccurate (num g) (den g) (tol2 : K) = true
  · simp only [hL, if_true]
    cases belowNyquist E P g <;> rfl
  · simp [hL]

end

/-! ### non-vacuity -/

section
open C12Head

example : Generated.Heads.smHead toyEnv toyPrims (.seq [[2, 3], [0, 60], [1, 10]]) "best"
    = .ok (.frd [1, 10], .seq [[2, 3], [0, 60], [1, 10]]) := by decide +kernel
example : Generated.Heads.smHead toyEnv toyPrims (.seq [[2, 3], [0, 60], [1]]) "best" = .error .badArg := by
  decide +kernel
example : Generated.Heads.smHead toyEnv toyPrims (.tf (false, true, true)) "best"
    = .ok (.frd [1, 2], .tf (false, true, true)) := by decide +kernel
example : Generated.Heads.smHead toyEnv toyPrims (.tf (false, true, false)) "best"
    = .ok (.poly .zinvz (false, true, false), .tf (false, true, false)) := by decide +kernel
example : Generated.Heads.smHead toyEnv toyPrims (.tf (true, true, false)) "nope" = .error .badArg := by
  decide +kernel
example : Generated.Heads.smHead toyEnv toyPrims (.tf (true, false, false)) "poly" = .error .notImplemented := by
  decide +kernel
/-- `NormSpec` is inhabited over ℝ-like fields only; over ℚ a norm that is exact on the sample. -/
example : Generated.Heads.likelyNumericalInaccuracy (fun p : List ℚ => (p.map fun c => |c|).sum) [1] [20000, 0] 1
    = .ok true := by decide +kernel
example : Generated.Heads.likelyNumericalInaccuracy (fun p : List ℚ => (p.map fun c => |c|).sum) [1, 2, 3] [1, 0] 1
    = .error .nonProper := by decide +kernel

end

end CtrlVerif.C12GenHead
